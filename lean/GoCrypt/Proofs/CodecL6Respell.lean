import GoCrypt.Proofs.CodecL4Respell

/-!
# C20, general form: optional stand-alone fields (`omitempty` on parameters and positional fields)

`Accepts6.accepted_respell`: for an ARBITRARY struct type without parameter groups — required and
optional stand-alone fields, named or not, inline or not, any supported text codec — every string
`Unmarshal` accepts is a tolerated respelling of what `Marshal` writes for the value read. An optional
field that was skipped holds its zero value and is absent from the canonical string; one that was read
as zero is an explicit zero, which `respell` tolerates.

Beyond the conditions of layer L4 (`Accepts4.lenOk`): an optional field is not a non-empty byte array
(known finding 13: such a field is never omitted by Marshal) and has no whitelist codec (`respell` has no
explicit-zero spelling for it); inline fields are followed by required fields (`inlineOk`).
No assumption on `numReqValues`: the count rule only decides WHICH branch is taken, every branch is
consistent with `respell`.
-/

namespace GoCrypt.Codec
open Bytes GoCrypt.Parse Layers GoCrypt.Respell GoCrypt.CodecDomain GoCrypt.RefParse GoCrypt.Accept

namespace Accepts6

/-! ## The generic wrapper: assignments instead of one value per field -/

/-- What the inversion of the field loop has to deliver: the assignments made (to distinct fields of
`ti.fields`), and `align` for any value list that holds them and zero elsewhere. -/
def LoopInverts (ti : TypeInfo) : Prop :=
  ∀ (n : Nat) (ps : List Bytes) (frags : List Frag) (out0 : Vals) (st' : LoopSt),
    loopFields n ti.fields (mkSt frags frags.length ti.numReqValues out0) = .ok st' → FragsRel ps frags →
    FinalOK st' →
    ∃ asg : Vals, st'.out = out0 ++ asg ∧ (∀ x ∈ asg, ∃ f ∈ ti.fields, f.index = x.1) ∧
      (asg.map (·.1)).Nodup ∧
      ∀ vals, (∀ x ∈ asg, ∀ f ∈ ti.fields, f.index = x.1 → fieldVal vals f = x.2) →
        (∀ f ∈ ti.fields, (∀ x ∈ asg, x.1 ≠ f.index) → fieldVal vals f = zeroOf f.kind f.ptrDepth) →
        align vals (ti.fields.length + 2) ti.fields (ps.map (Respell.splitOn comma)) [] = true

theorem respell_nofrags (ti : TypeInfo) (vals : Vals) (p : Bytes) (hp : pfxTextOf ti vals = some p)
    (ha : align vals (ti.fields.length + 2) ti.fields [] [] = true) : respell ti vals (p ++ []) = true := by
  rw [respell_eq, hp]
  have h1 : p.isPrefixOf (p ++ []) = true := isPrefixOf_append_self p []
  have h2 : (p ++ ([] : Bytes)).drop p.length = [] := by simp
  simp only [h1, h2, Bool.true_and, List.any_eq_true]
  refine ⟨[], by simp [stripTrailing], ?_⟩
  simp [fragsOf, ha]

theorem accepted_respell_gen (ti : TypeInfo) (h : Bytes) (out : Vals)
    (hpfx : (match ti.hashPrefix with | some hp => L1.prefixField hp && !hp.opts.hasLength | none => true) = true)
    (hnd : ((ti.hashPrefix.toList ++ ti.fields).map (·.index)).Nodup) (hinv : LoopInverts ti)
    (hu : unmarshal ti h = .ok out) : respell ti (finalVals ti out) h = true := by
  rw [unmarshal_eq_ref] at hu
  cases hr : refPrefix h with
  | error e => obtain ⟨o, m⟩ := e; simp [hr] at hu
  | ok x =>
    obtain ⟨p, rest⟩ := x
    simp only [hr] at hu
    obtain ⟨out0, st', hpp, hl, hfin, rfl⟩ := (tree_iff ti h.length p _ out).1 hu
    have hrel := mkFrags_rel (RefParse.splitOn dollar rest) (p.getD []).length
    rw [← fragments_eq_trimLast] at hrel
    obtain ⟨asg, hout, hasgf, hasgn, halign⟩ := hinv h.length (Grammar.fragments rest) _ out0 st' hl hrel hfin
    have hndf : (ti.fields.map (·.index)).Nodup := by
      rw [List.map_append] at hnd
      exact (List.nodup_append.1 hnd).2.1
    -- the keys of the assignments
    have hkeysND : (out0 = [] ∨ ∃ hp fv, ti.hashPrefix = some hp ∧ out0 = [(hp.index, fv)]) →
        ((out0 ++ asg).map (·.1)).Nodup := by
      intro h0
      rcases h0 with rfl | ⟨hp, fv, hhp, rfl⟩
      · simpa using hasgn
      · simp only [List.singleton_append, List.map_cons, List.nodup_cons]
        refine ⟨?_, hasgn⟩
        intro hm
        obtain ⟨x, hx, hxe⟩ := List.mem_map.1 hm
        obtain ⟨f, hf, hfi⟩ := hasgf x hx
        rw [hhp] at hnd
        simp only [Option.toList_some, List.singleton_append, List.map_cons, List.nodup_cons, List.mem_map,
          not_exists, not_and] at hnd
        exact hnd.1 f hf (by rw [hfi, hxe])
    have hv1 : (out0 = [] ∨ ∃ hp fv, ti.hashPrefix = some hp ∧ out0 = [(hp.index, fv)]) →
        ∀ x ∈ asg, ∀ f ∈ ti.fields, f.index = x.1 → fieldVal (finalVals ti st'.out) f = x.2 := by
      intro h0 x hx f hf hfi
      refine Accepts.fieldVal_assigned ti st'.out f x.2 hnd (by simp [hf]) ?_ ?_
      · rw [hout]; exact hkeysND h0
      · rw [hout, hfi]; exact List.mem_append_right _ hx
    have hv2 : (out0 = [] ∨ ∃ hp fv, ti.hashPrefix = some hp ∧ out0 = [(hp.index, fv)]) →
        ∀ f ∈ ti.fields, (∀ x ∈ asg, x.1 ≠ f.index) →
          fieldVal (finalVals ti st'.out) f = zeroOf f.kind f.ptrDepth := by
      intro h0 f hf hna
      refine Accepts.fieldVal_unassigned ti st'.out f hnd (by simp [hf]) ?_
      intro x hx
      rw [hout] at hx
      rcases List.mem_append.1 hx with hx | hx
      · rcases h0 with rfl | ⟨hp, fv, hhp, rfl⟩
        · cases hx
        · simp only [List.mem_singleton] at hx
          subst hx
          rw [hhp] at hnd
          simp only [Option.toList_some, List.singleton_append, List.map_cons, List.nodup_cons, List.mem_map,
            not_exists, not_and] at hnd
          exact fun e => hnd.1 f hf e.symm
      · exact hna x hx
    -- the body
    have hbody : ∀ (ptext : Bytes), pfxTextOf ti (finalVals ti st'.out) = some ptext →
        (out0 = [] ∨ ∃ hp fv, ti.hashPrefix = some hp ∧ out0 = [(hp.index, fv)]) →
        respell ti (finalVals ti st'.out) (ptext ++ rest) = true := by
      intro ptext hpt h0
      have hal := halign _ (hv1 h0) (hv2 h0)
      by_cases hps : Grammar.fragments rest = []
      · have hrest := Accepts.fragments_nil rest hps
        subst hrest
        rw [hps] at hal
        exact respell_nofrags ti _ ptext hpt hal
      · exact respell_of_align ti _ ptext rest _ hpt rfl hps hal
    cases hhp : ti.hashPrefix with
    | none =>
      cases p with
      | some p' => simp [prefixPart, hhp, throw, throwThe, MonadExceptOf.throw] at hpp
      | none =>
        have h0 : out0 = [] := by
          simp only [prefixPart, hhp, pure, Except.pure, Except.ok.injEq] at hpp
          exact hpp.symm
        have hrest := (refPrefix_none h rest hr).1
        subst hrest
        have := hbody [] (by simp [pfxTextOf, hhp]) (Or.inl h0)
        simpa using this
    | some hp =>
      simp only [hhp, Bool.and_eq_true, Bool.not_eq_eq_eq_not, Bool.not_true] at hpfx
      obtain ⟨hpf, hnl⟩ := hpfx
      have hpm : hp ∈ ti.hashPrefix.toList ++ ti.fields := by simp [hhp]
      have hpne : ∀ x ∈ asg, x.1 ≠ hp.index := by
        intro x hx e
        obtain ⟨f, hf, hfi⟩ := hasgf x hx
        have hnd' := hnd
        rw [hhp] at hnd'
        simp only [Option.toList_some, List.singleton_append, List.map_cons, List.nodup_cons, List.mem_map,
          not_exists, not_and] at hnd'
        exact hnd'.1 f hf (by rw [hfi, e])
      cases p with
      | none =>
        obtain ⟨-, h0⟩ := (prefixPart_none ti h.length _ out0 hp hhp).1 hpp
        have hrest := (refPrefix_none h rest hr).1
        subst hrest
        obtain ⟨hz, hmz⟩ := Accepts.prefix_zero_back hp hpf hnl
        have hfv : fieldVal (finalVals ti st'.out) hp = .str [] := by
          rw [Accepts.fieldVal_unassigned ti st'.out hp hnd hpm, hz]
          intro x hx
          rw [hout, h0, List.nil_append] at hx
          exact hpne x hx
        have hpt : pfxTextOf ti (finalVals ti st'.out) = some [] := by
          unfold pfxTextOf
          have hfv' : (getVal (finalVals ti st'.out) hp.index).getD (zeroOf hp.kind hp.ptrDepth) = .str [] := hfv
          simp only [hhp, hfv', hmz]
        have := hbody [] hpt (Or.inl h0)
        simpa using this
      | some p' =>
        obtain ⟨s, r, fv, hft, hsv, h0⟩ := Accepts.prefixPart_some_inv ti h.length p' _ out0 hp hhp hpp
        obtain ⟨hfv, hmp⟩ := Accepts.prefix_back hp p' s r fv hpf hnl hft hsv
        subst hfv
        have hh := refPrefix_some h p' rest hr
        have h0' : out0 = [] ∨ ∃ hp fv, ti.hashPrefix = some hp ∧ out0 = [(hp.index, fv)] :=
          Or.inr ⟨hp, _, hhp, h0⟩
        have hfv : fieldVal (finalVals ti st'.out) hp = .str p' := by
          refine Accepts.fieldVal_assigned ti st'.out hp _ hnd hpm ?_ ?_
          · rw [hout]; exact hkeysND h0'
          · rw [hout, h0]; simp
        have hpt : pfxTextOf ti (finalVals ti st'.out) = some p' := by
          unfold pfxTextOf
          have hfv' : (getVal (finalVals ti st'.out) hp.index).getD (zeroOf hp.kind hp.ptrDepth) = .str p' := hfv
          simp only [hhp, hfv', hmp]
        rw [hh]
        exact hbody p' hpt h0'

/-! ## Hypotheses -/

/-- An optional field can be spelled as an explicit zero and is omitted when zero. -/
def optOk (f : FieldInfo) : Bool :=
  (match f.kind with | .byteArray (_ + 1) => false | _ => true) &&
  (match f.unmarshalText with | .whitelist _ => false | _ => true)

/-- A stand-alone field, required or optional. -/
def fieldOk (f : FieldInfo) : Bool :=
  !f.opts.group && Accepts4.coreOk f && (!f.opts.omitEmpty || (!f.opts.inline && optOk f))

def acceptOk (ti : TypeInfo) : Bool :=
  ti.fields.all fieldOk && inlineOk ti.fields &&
  (match ti.hashPrefix with | some hp => L1.prefixField hp && !hp.opts.hasLength | none => true) &&
  decide ((ti.hashPrefix.toList ++ ti.fields).map (·.index)).Nodup

/-! ## An optional field read as zero is an explicit zero -/

theorem zero_text (f : FieldInfo) (k : String) (e : Nat) (s : Bytes) (fv : FVal)
    (hcore : Accepts4.coreOk f = true) (hopt : optOk f = true)
    (hlen : f.opts.hasLength = true → s.length = f.opts.length)
    (hsv : storeValue f k e s = .ok fv) (he : isEmptyVal f fv = true) : isZeroText f s = true := by
  simp only [Accepts4.coreOk, Bool.and_eq_true, Bool.not_eq_eq_eq_not, Bool.not_true] at hcore
  obtain ⟨⟨⟨⟨hpfx, -⟩, hc⟩, hl⟩, -⟩ := hcore
  simp only [optOk, Bool.and_eq_true] at hopt
  obtain ⟨hoa, how⟩ := hopt
  unfold codecOk at hc
  unfold Accepts4.lenOk at hl
  cases hm : f.marshalText <;> cases hu : f.unmarshalText <;>
    simp only [hm, hu, Bool.false_eq_true, Bool.and_eq_true, beq_iff_eq] at hc hl how
  · -- none / none
    unfold storeValue at hsv
    simp only [hu, hpfx, Bool.false_and, Bool.false_eq_true, if_false] at hsv
    unfold kindOk at hc
    unfold Accepts.lenOk at hl
    cases hk : f.kind <;> simp only [hk, Bool.false_eq_true] at hc hsv hl hoa
    · simp only [Except.ok.injEq] at hsv
      subst hsv
      simp only [isEmptyVal, Bool.and_eq_true, decide_eq_true_eq] at he
      simp [isZeroText, he.1, hu, hk, he.2]
    · simp only [Except.ok.injEq] at hsv
      subst hsv
      simp only [isEmptyVal, Bool.and_eq_true, decide_eq_true_eq] at he
      simp [isZeroText, he.1, hu, hk, he.2]
    · rename_i n
      cases n with
      | succ m => simp at hoa
      | zero =>
        simp only [Bool.and_eq_true, beq_iff_eq] at hl
        have hs0 : s.length = 0 := by rw [hlen hl.1, hl.2]
        have hs : s = [] := List.eq_nil_of_length_eq_zero hs0
        subst hs
        simp only [Except.ok.injEq] at hsv
        subst hsv
        simp only [isEmptyVal, Bool.and_eq_true, decide_eq_true_eq] at he
        simp [isZeroText, he.1, hu, hk]
    · rename_i bits
      cases hp : Strconv.parseInt s f.opts.base bits with
      | error err => cases err <;> simp [hp] at hsv
      | ok z =>
        simp only [hp, Except.ok.injEq] at hsv
        subst hsv
        simp only [isEmptyVal, Bool.and_eq_true, decide_eq_true_eq, beq_iff_eq] at he
        simp [isZeroText, he.1, hu, hk, hp, he.2]
    · rename_i bits
      cases hp : Strconv.parseUint s f.opts.base bits with
      | error err => cases err <;> simp [hp] at hsv
      | ok v =>
        simp only [hp, Except.ok.injEq] at hsv
        subst hsv
        simp only [isEmptyVal, Bool.and_eq_true, decide_eq_true_eq, beq_iff_eq] at he
        simp [isZeroText, he.1, hu, hk, hp, he.2]
  · -- desInt / desInt
    obtain ⟨⟨hhl, hl4⟩, -⟩ := hl
    simp only [storeValue, hu, Except.ok.injEq] at hsv
    subst hsv
    unfold isUintKind at hc
    cases hk : f.kind <;> simp only [hk, Bool.false_eq_true] at hc
    simp only [isEmptyVal, Bool.and_eq_true, decide_eq_true_eq, beq_iff_eq] at he
    have hs4 : s.length = 4 := by rw [hlen hhl, hl4]
    simp [isZeroText, he.1, hu, hk, hs4, he.2]
  · -- twoDigit / none
    obtain ⟨hc1, -⟩ := hc
    unfold isUintKind at hc1
    cases hk : f.kind <;> simp only [hk, Bool.false_eq_true] at hc1
    rename_i bits
    simp only [storeValue, hu, hpfx, Bool.false_and, Bool.false_eq_true, if_false, hk] at hsv
    cases hp : Strconv.parseUint s f.opts.base bits with
    | error err => cases err <;> simp [hp] at hsv
    | ok v =>
      simp only [hp, Except.ok.injEq] at hsv
      subst hsv
      simp only [isEmptyVal, Bool.and_eq_true, decide_eq_true_eq, beq_iff_eq] at he
      simp [isZeroText, he.1, hu, hk, hp, he.2]

/-- A node read by an optional field as its zero value is an explicit zero member. -/
theorem read_memberIsZero (f : FieldInfo) (e : Nat) (cur : Bytes) (fv : FVal) (rem : Bytes)
    (hcore : Accepts4.coreOk f = true) (hopt : optOk f = true) (hinl : f.opts.inline = false)
    (hkey : KeyOK f cur) (hr : readField f e cur = .ok (fv, rem)) (he : isEmptyVal f fv = true) :
    memberIsZero f cur = true := by
  obtain ⟨s, hft, hsv⟩ := (readField_iff f e cur fv rem).1 hr
  obtain ⟨hs, -, hlen, -⟩ := Accepts.fieldText_plain_inv f "value" e cur s rem hinl hft
  have hz := zero_text f "value" e s fv hcore hopt hlen hsv he
  unfold memberIsZero unname
  unfold bodyOf at hs
  by_cases hp : f.opts.param = []
  · simp only [hp, ne_eq, not_true_eq_false, false_and, if_false] at hs
    subst hs
    simp [hp, hz]
  · have hk : (f.opts.param ++ [equals]).isPrefixOf cur = true := by
      rcases hkey with h | h
      · exact absurd h hp
      · exact h
    simp only [ne_eq, hp, not_false_eq_true, hk, and_self, if_true] at hs
    subst hs
    simp only [hp, ↓reduceIte, hk]
    exact hz

/-! ## The loop, inverted -/

/-- One optional stand-alone field: it is passed over (count rule, end of input, a fragment that is not
its own) or reads the next value. -/
theorem loop_opt_inv (n : Nat) (f : FieldInfo) (fs : List FieldInfo) (frags : List Frag) (nv nr : Int)
    (out : Vals) (st' : LoopSt) (ho : f.opts.omitEmpty = true) (hg : f.opts.group = false)
    (hinl : f.opts.inline = false) (hl : loopFields n (f :: fs) (mkSt frags nv nr out) = .ok st') :
    (∃ nv', loopFields n fs (mkSt frags nv' nr out) = .ok st') ∨
    (∃ v rest fv rem, frags = .value v :: rest ∧ KeyOK f v.val ∧ readField f v.fin v.val = .ok (fv, rem) ∧
      loopFields n fs (mkSt rest (nv - 1) nr (out ++ [(f.index, fv)])) = .ok st') := by
  cases frags with
  | nil =>
    rw [loop_opt_nil n f fs nv nr out ho] at hl
    exact Or.inl ⟨nv, hl⟩
  | cons fr rest =>
    by_cases hcnt : nv - nr ≤ 0
    · rw [loop_opt_skip n f fs fr rest nv nr out ho hcnt] at hl
      exact Or.inl ⟨nv - 1, hl⟩
    · cases fr with
      | group vs =>
        rw [loop_opt_group n f fs vs rest nv nr out ho hg hcnt] at hl
        exact Or.inl ⟨nv, hl⟩
      | value v =>
        by_cases hkey : KeyOK f v.val
        · obtain ⟨fv, rem, hr, hl'⟩ := (loop_opt_value n f fs v rest nv nr out st' ho hg hinl hcnt hkey).1 hl
          exact Or.inr ⟨v, rest, fv, rem, rfl, hkey, hr, hl'⟩
        · rw [loop_opt_nokey n f fs v rest nv nr out ho hg hcnt hkey] at hl
          exact Or.inl ⟨nv, hl⟩

/-- What the loop did: each field was passed over (optional fields only) or read a node. `asg` are
the assignments made, in order. -/
def Reads : List FieldInfo → Bytes → List Bytes → Vals → Prop
  | [], glue, ps, asg => glue = [] ∧ ps = [] ∧ asg = []
  | f :: fs, glue, ps, asg =>
    (f.opts.omitEmpty = true ∧ Reads fs glue ps asg) ∨
    (∃ p ps' v asg' cur, ps = p :: ps' ∧ asg = (f.index, v) :: asg' ∧ comma ∉ p ∧ p = glue ++ cur ∧
      KeyOK f cur ∧ (∃ e rem, readField f e cur = .ok (v, rem)) ∧ (f.opts.omitEmpty = true → glue = []) ∧
      (if f.opts.inline then Reads fs (glue ++ cur.take f.opts.length) (p :: ps') asg'
       else Reads fs [] ps' asg'))

theorem fieldOk_parts (f : FieldInfo) (h : fieldOk f = true) :
    f.opts.group = false ∧ Accepts4.coreOk f = true ∧
      (f.opts.omitEmpty = true → f.opts.inline = false ∧ optOk f = true) := by
  simp only [fieldOk, Bool.and_eq_true, Bool.or_eq_true, Bool.not_eq_eq_eq_not, Bool.not_true] at h
  refine ⟨h.1.1, h.1.2, fun ho => ?_⟩
  rcases h.2 with h2 | h2
  · rw [ho] at h2; cases h2
  · exact h2

theorem loop_reads (n : Nat) : ∀ (fs : List FieldInfo) (glue : Bytes) (ps : List Bytes) (frags : List Frag)
    (nv nr : Int) (out : Vals) (st' : LoopSt), (∀ f ∈ fs, fieldOk f = true) → inlineOk fs = true →
    (glue ≠ [] → ∀ f, fs.head? = some f → f.opts.omitEmpty = false) →
    loopFields n fs (mkSt frags nv nr out) = .ok st' → Accepts4.Pre glue ps frags → FinalOK st' →
    ∃ asg, Reads fs glue ps asg ∧ st'.out = out ++ asg
  | [], glue, ps, frags, nv, nr, out, st', _, _, _, hl, hpre, hfin => by
    rw [loop_nil_iff] at hl
    subst hl
    have hfr : frags = [] := by simpa [FinalOK, mkSt] using hfin
    subst hfr
    obtain ⟨hg, hrel⟩ := hpre
    have := Accepts.fragsRel_nil ps hrel
    subst this
    exact ⟨[], ⟨hg, rfl, rfl⟩, by simp [mkSt]⟩
  | f :: fs, glue, ps, frags, nv, nr, out, st', hok, hio, hglue, hl, hpre, hfin => by
    have hf := hok f (by simp)
    obtain ⟨hg, hcore, hopt⟩ := fieldOk_parts f hf
    have hok' : ∀ g ∈ fs, fieldOk g = true := fun g hg' => hok g (by simp [hg'])
    have hio' := inlineOk_tail f fs hio
    -- a field read off the head node, not inline
    have hplain : f.opts.inline = false → ∀ (v : VNode) (rest : List Frag) (fv : FVal) (rem : Bytes) (nv' nr' : Int),
        frags = .value v :: rest → KeyOK f v.val → readField f v.fin v.val = .ok (fv, rem) →
        loopFields n fs (mkSt rest nv' nr' (out ++ [(f.index, fv)])) = .ok st' →
        (f.opts.omitEmpty = true → glue = []) →
        ∃ asg, Reads (f :: fs) glue ps asg ∧ st'.out = out ++ asg := by
      intro hi v rest fv rem nv' nr' hfr hkey hr hl' hog
      subst hfr
      obtain ⟨ps', rfl, hc, hrel⟩ := hpre
      obtain ⟨asg, hreads, hout⟩ := loop_reads n fs [] ps' rest _ _ _ st' hok' hio' (fun h => absurd rfl h) hl'
        (Accepts4.pre_of_rel ps' rest hrel) hfin
      refine ⟨(f.index, fv) :: asg, Or.inr ⟨_, ps', fv, asg, v.val, rfl, rfl, hc, rfl, hkey, ⟨v.fin, rem, hr⟩, hog, ?_⟩, ?_⟩
      · simp only [hi, Bool.false_eq_true, if_false]; exact hreads
      · rw [hout]; simp
    cases ho : f.opts.omitEmpty with
    | false =>
      cases hi : f.opts.inline with
      | false =>
        obtain ⟨v, rest, fv, rem, hfr, hkey, hr, hl'⟩ := (loop_req n f fs frags nv nr out st' hg ho hi).1 hl
        exact hplain hi v rest fv rem _ _ hfr hkey hr hl' (fun h => by rw [ho] at h; cases h)
      | true =>
        obtain ⟨v, rest, fv, rem, hfr, hkey, hr, hl'⟩ :=
          (loop_req_inline n f fs frags nv nr out st' hg ho hi).1 hl
        subst hfr
        obtain ⟨ps', rfl, hc, hrel⟩ := hpre
        obtain ⟨-, hcur, -⟩ := Accepts4.read_inline f v.fin v.val fv rem hcore hi hr
        obtain ⟨-, g, rest', hrest, -, -, hgo⟩ := inlineOk_next f fs hio hi
        have hpre' : Accepts4.Pre (glue ++ v.val.take f.opts.length) ((glue ++ v.val) :: ps')
            (.value { v with val := rem } :: rest) := by
          refine ⟨ps', ?_, ?_, hrel⟩
          · show (glue ++ v.val) :: ps' = (glue ++ v.val.take f.opts.length ++ rem) :: ps'
            rw [List.append_assoc, ← hcur]
          · show comma ∉ glue ++ v.val.take f.opts.length ++ rem
            rw [List.append_assoc, ← hcur]; exact hc
        obtain ⟨asg, hreads, hout⟩ := loop_reads n fs _ _ _ _ _ _ st' hok' hio'
          (fun _ g' hg' => by rw [hrest] at hg'; simp only [List.head?_cons, Option.some.injEq] at hg'; rw [← hg']; exact hgo)
          hl' hpre' hfin
        have hog : f.opts.omitEmpty = true → glue = [] := fun h => by rw [ho] at h; cases h
        refine ⟨(f.index, fv) :: asg, Or.inr ⟨_, ps', fv, asg, v.val, rfl, rfl, hc, rfl, hkey, ⟨v.fin, rem, hr⟩,
          hog, ?_⟩, ?_⟩
        · simp only [hi, if_true]; exact hreads
        · rw [hout]; simp
    | true =>
      obtain ⟨hi, -⟩ := hopt ho
      have hg0 : glue = [] := by
        cases hgl : glue with
        | nil => rfl
        | cons c cs =>
          have := hglue (by rw [hgl]; simp) f rfl
          rw [ho] at this; cases this
      rcases loop_opt_inv n f fs frags nv nr out st' ho hg hi hl with ⟨nv', hl'⟩ | ⟨v, rest, fv, rem, hfr, hkey, hr, hl'⟩
      · obtain ⟨asg, hreads, hout⟩ := loop_reads n fs glue ps frags nv' nr out st' hok' hio'
          (fun h => absurd hg0 h) hl' hpre hfin
        exact ⟨asg, Or.inl ⟨ho, hreads⟩, hout⟩
      · exact hplain hi v rest fv rem _ _ hfr hkey hr hl' (fun _ => hg0)

theorem reads_keys : ∀ (fs : List FieldInfo) (glue : Bytes) (ps : List Bytes) (asg : Vals),
    Reads fs glue ps asg → (asg.map (·.1)).Sublist (fs.map (·.index))
  | [], _, _, _, h => by rw [h.2.2]; exact List.Sublist.slnil
  | f :: fs, glue, ps, asg, h => by
    rcases h with ⟨-, h⟩ | ⟨p, ps', v, asg', cur, -, rfl, -, -, -, -, -, h⟩
    · exact List.Sublist.cons _ (reads_keys fs glue ps asg h)
    · simp only [List.map_cons]
      apply List.Sublist.cons_cons
      by_cases hi : f.opts.inline = true
      · simp only [hi, if_true] at h; exact reads_keys fs _ _ asg' h
      · simp only [hi, Bool.false_eq_true, if_false] at h; exact reads_keys fs _ _ asg' h

/-! ## `align` on what the loop did -/

/-- An optional field that was passed over holds its zero value, which Marshal omits. -/
theorem zero_omitted (f : FieldInfo) (hcore : Accepts4.coreOk f = true) (hopt : optOk f = true) :
    isEmptyVal f (zeroOf f.kind f.ptrDepth) = true := by
  unfold zeroOf
  by_cases hp : f.ptrDepth > 0
  · simp [hp, isEmptyVal]
  · have hp0 : f.ptrDepth = 0 := by omega
    simp only [hp, if_false]
    simp only [Accepts4.coreOk, Bool.and_eq_true] at hcore
    have hc := hcore.1.1.2
    simp only [optOk, Bool.and_eq_true] at hopt
    obtain ⟨hoa, how⟩ := hopt
    have hk : kindOk f = true := by
      unfold codecOk at hc
      cases hm : f.marshalText <;> cases hu : f.unmarshalText <;>
        simp only [hm, hu, Bool.false_eq_true, Bool.and_eq_true, beq_iff_eq] at hc how
      · exact hc
      · unfold isUintKind at hc
        unfold kindOk
        cases hkd : f.kind <;> simp [hkd] at hc ⊢
      · unfold isUintKind at hc
        unfold kindOk
        cases hkd : f.kind <;> simp [hkd] at hc ⊢
    unfold kindOk at hk
    cases hkd : f.kind <;> simp only [hkd, Bool.false_eq_true] at hk hoa <;> simp only [isEmptyVal, hp0]
    · simp
    · simp
    · rename_i n
      cases n with
      | zero => simp
      | succ m => simp at hoa
    · simp
    · simp

theorem emitted_eq (vals : Vals) (f : FieldInfo) (v : FVal) (hv : fieldVal vals f = v) :
    emitted vals f = !(f.opts.omitEmpty && isEmptyVal f v) := by
  unfold emitted; rw [hv]

theorem align_reads (vals : Vals) : ∀ (fs : List FieldInfo) (glue : Bytes) (ps : List Bytes) (asg : Vals)
    (fuel : Nat), (∀ f ∈ fs, fieldOk f = true) → (fs.map (·.index)).Nodup → Reads fs glue ps asg →
    (∀ x ∈ asg, ∀ f ∈ fs, f.index = x.1 → fieldVal vals f = x.2) →
    (∀ f ∈ fs, (∀ x ∈ asg, x.1 ≠ f.index) → fieldVal vals f = zeroOf f.kind f.ptrDepth) →
    fs.length < fuel → align vals fuel fs (ps.map (Respell.splitOn comma)) glue = true
  | [], glue, ps, asg, fuel, _, _, h, _, _, hfuel => by
    obtain ⟨rfl, rfl, -⟩ := h
    obtain ⟨k, rfl⟩ : ∃ k, fuel = k + 1 := ⟨fuel - 1, by simp at hfuel; omega⟩
    exact align_nil vals k
  | f :: fs, glue, ps, asg, fuel, hok, hnd, hreads, hv, hz, hfuel => by
    obtain ⟨k, rfl⟩ : ∃ k, fuel = k + 1 := ⟨fuel - 1, by simp at hfuel; omega⟩
    have hf := hok f (by simp)
    obtain ⟨hg, hcore, hopt⟩ := fieldOk_parts f hf
    have hok' : ∀ g ∈ fs, fieldOk g = true := fun g hg' => hok g (by simp [hg'])
    simp only [List.map_cons, List.nodup_cons, List.mem_map, not_exists, not_and] at hnd
    obtain ⟨hfn, hnd'⟩ := hnd
    have hk : fs.length < k := by simp at hfuel; omega
    rcases hreads with ⟨ho, hreads⟩ | ⟨p, ps', v, asg', cur, rfl, rfl, hc, rfl, hkey, ⟨e, rem, hr⟩, hog, hrest⟩
    · -- passed over
      have hkeys := reads_keys fs glue ps asg hreads
      have hna : ∀ x ∈ asg, x.1 ≠ f.index := by
        intro x hx e'
        have : x.1 ∈ fs.map (·.index) := hkeys.subset (List.mem_map.2 ⟨x, hx, rfl⟩)
        obtain ⟨g, hg', hge⟩ := List.mem_map.1 this
        exact hfn g hg' (by rw [hge, e'])
      have hfv := hz f (by simp) hna
      have hem : emitted vals f = false := by
        rw [emitted_eq vals f _ hfv, ho, zero_omitted f hcore (hopt ho).2]; rfl
      refine align_omit_absent vals k f fs _ glue hg hem ?_
      exact align_reads vals fs glue ps asg k hok' hnd' hreads
        (fun x hx g hg' hge => hv x hx g (by simp [hg']) hge)
        (fun g hg' hna' => hz g (by simp [hg']) hna') hk
    · -- read a node
      have hfv : fieldVal vals f = v := hv (f.index, v) (by simp) f (by simp) rfl
      have hv' : ∀ x ∈ asg', ∀ g ∈ fs, g.index = x.1 → fieldVal vals g = x.2 :=
        fun x hx g hg' hge => hv x (by simp [hx]) g (by simp [hg']) hge
      have hz' : ∀ g ∈ fs, (∀ x ∈ asg', x.1 ≠ g.index) → fieldVal vals g = zeroOf g.kind g.ptrDepth := by
        intro g hg' hna
        refine hz g (by simp [hg']) ?_
        intro x hx
        simp only [List.mem_cons] at hx
        rcases hx with rfl | hx
        · exact fun e' => hfn g hg' e'.symm
        · exact hna x hx
      have hsp : Respell.splitOn comma (glue ++ cur) = [glue ++ cur] :=
        splitOn_plain comma _ (fun c hc' e' => hc (e' ▸ hc'))
      cases hi : f.opts.inline with
      | true =>
        simp only [hi, if_true] at hrest
        have ho : f.opts.omitEmpty = false := by
          cases ho : f.opts.omitEmpty with
          | false => rfl
          | true => rw [(hopt ho).1] at hi; cases hi
        have hem := GoCrypt.Codec.emitted_of_required vals f ho
        obtain ⟨hp, -, hm⟩ := Accepts4.read_inline f e cur v rem hcore hi hr
        refine align_inline vals k f fs _ glue (cur.take f.opts.length) hg hem (by rw [hfv]; exact hm) hi ?_
        have hn : named f (cur.take f.opts.length) = cur.take f.opts.length := by simp [named, hp]
        rw [hn]
        exact align_reads vals fs _ _ asg' k hok' hnd' hrest hv' hz' hk
      | false =>
        simp only [hi, Bool.false_eq_true, if_false] at hrest
        have ih := align_reads vals fs [] ps' asg' k hok' hnd' hrest hv' hz' hk
        simp only [List.map_cons, hsp]
        by_cases hem : emitted vals f = true
        · obtain ⟨t, hm, hmem⟩ := Accepts4.read_memberIs f e glue cur v rem hcore hi hkey hr
          exact align_req vals k f fs _ _ glue t hg hem (by rw [hfv]; exact hm) hi hmem ih
        · simp only [Bool.not_eq_true] at hem
          have ho := omitEmpty_of_omitted vals f hem
          have he : isEmptyVal f v = true := by
            rw [emitted_eq vals f v hfv, ho] at hem
            simpa using hem
          have hg0 := hog ho
          subst hg0
          have hmz := read_memberIsZero f e cur v rem hcore (hopt ho).2 hi hkey hr he
          simp only [List.nil_append] at hmz ⊢
          exact align_omit_zero vals k f fs cur _ hg hem hmz ih

/-! ## The theorem -/

theorem loopInverts (ti : TypeInfo) (hok : ∀ f ∈ ti.fields, fieldOk f = true) (hio : inlineOk ti.fields = true)
    (hnd : (ti.fields.map (·.index)).Nodup) : LoopInverts ti := by
  intro n ps frags out0 st' hl hrel hfin
  obtain ⟨asg, hreads, hout⟩ := loop_reads n ti.fields [] ps frags _ _ out0 st' hok hio (fun h => absurd rfl h) hl
    (Accepts4.pre_of_rel ps frags hrel) hfin
  have hkeys := reads_keys ti.fields [] ps asg hreads
  refine ⟨asg, hout, ?_, hkeys.nodup hnd, fun vals hv hz =>
    align_reads vals ti.fields [] ps asg _ hok hnd hreads hv hz (by omega)⟩
  intro x hx
  have : x.1 ∈ ti.fields.map (·.index) := hkeys.subset (List.mem_map.2 ⟨x, hx, rfl⟩)
  obtain ⟨f, hf, hfe⟩ := List.mem_map.1 this
  exact ⟨f, hf, hfe⟩

/-- C20 for struct types without parameter groups: required and optional stand-alone fields. -/
theorem accepted_respell (ti : TypeInfo) (h : Bytes) (out : Vals) (hs : acceptOk ti = true)
    (hu : unmarshal ti h = .ok out) : respell ti (finalVals ti out) h = true := by
  simp only [acceptOk, Bool.and_eq_true, List.all_eq_true, decide_eq_true_eq] at hs
  obtain ⟨⟨⟨hok, hio⟩, hpfx⟩, hnd⟩ := hs
  have hndf : (ti.fields.map (·.index)).Nodup := by
    have := hnd
    rw [List.map_append] at this
    exact (List.nodup_append.1 this).2.1
  exact accepted_respell_gen ti h out hpfx hnd (loopInverts ti hok hio hndf) hu

/-! ## On the ladder of the round trip -/

/-- What the acceptance direction needs beyond `L6.shapeOk`: no parameter groups (they are not covered
by this theorem), consistent `length:` options, optional fields that can be spelled as zero. -/
def extraOk (ti : TypeInfo) : Bool :=
  Accepts4.lengthsOk ti && ti.fields.all (fun f => !f.opts.group && (!f.opts.omitEmpty || optOk f))

theorem acceptOk_of_L6 (ti : TypeInfo) (hs : L6.shapeOk ti = true) (hx : extraOk ti = true) :
    acceptOk ti = true := by
  simp only [L6.shapeOk, Bool.and_eq_true] at hs
  obtain ⟨⟨hwf, hu⟩, -⟩ := hs
  have hio := (unambiguous_facts ti hu).inl
  have hnp := inlineOk_noParam ti.fields hio
  simp only [tiWf, Bool.and_eq_true, List.all_eq_true, decide_eq_true_eq] at hwf
  obtain ⟨⟨⟨⟨hfw, hpf⟩, hnd⟩, -⟩, -⟩ := hwf
  simp only [extraOk, Accepts4.lengthsOk, Bool.and_eq_true, List.all_eq_true, Bool.or_eq_true,
    Bool.not_eq_eq_eq_not, Bool.not_true] at hx
  obtain ⟨⟨hlen, hpl⟩, hopt⟩ := hx
  simp only [acceptOk, Bool.and_eq_true, List.all_eq_true, decide_eq_true_eq]
  refine ⟨⟨⟨fun f hf => ?_, hio⟩, ?_⟩, hnd⟩
  · have h1 := hfw f hf
    have h3 := hlen f hf
    obtain ⟨hg, ho⟩ := hopt f hf
    simp only [fieldWf, validOpts, Bool.and_eq_true, Bool.or_eq_true, Bool.not_eq_eq_eq_not, Bool.not_true] at h1
    obtain ⟨⟨⟨⟨⟨⟨⟨hoi, -⟩, -⟩, -⟩, hpfx⟩, hil⟩, hb⟩, hc⟩ := h1
    have hinl : (!f.opts.inline || (f.opts.param == [] && f.opts.hasLength)) = true := by
      cases hi : f.opts.inline with
      | false => rfl
      | true =>
        have hp := hnp f hf hi
        rcases hil with h | h
        · rw [hi] at h; cases h
        · simp [hp, h]
    have hopt' : (!f.opts.omitEmpty || (!f.opts.inline && optOk f)) = true := by
      cases hom : f.opts.omitEmpty with
      | false => rfl
      | true =>
        rcases hoi with h | h
        · rw [hom] at h; cases h
        · rcases ho with h' | h'
          · rw [hom] at h'; cases h'
          · simp [h, h']
    simp only [fieldOk, Accepts4.coreOk, hg, hpfx, hb, hc, h3, hinl, hopt', Bool.not_false, Bool.and_self]
  · cases hhp : ti.hashPrefix with
    | none => rfl
    | some hp =>
      simp only [hhp] at hpf hpl
      simp [hpf, hpl]

/-- C20 on layer L6 restricted to struct types without parameter groups. -/
theorem accepted_respell_L6 (ti : TypeInfo) (h : Bytes) (out : Vals) (hs : L6.shapeOk ti = true)
    (hx : extraOk ti = true) (hu : unmarshal ti h = .ok out) :
    respell ti (finalVals ti out) h = true :=
  accepted_respell ti h out (acceptOk_of_L6 ti hs hx) hu

end Accepts6

end GoCrypt.Codec
