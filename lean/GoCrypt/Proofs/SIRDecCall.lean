import GoCrypt.Proofs.SIRDecMain

/-!
# Stream IR, decoder side: the library call `Decode` in terms of the model's `decode`, and moving a representation

Helper lemmas only.
-/

namespace GoCrypt.SIR
open GoCrypt.B64IR (Buf Heap Slice Res sliceBytes writeList writeList_size writeList_append heap_set_self heap_lt_of_get padInt
  decodeLoop_props)
open GoCrypt.Base64LE GoCrypt.Stream GoCrypt.Gen.base64leStream

/-- What `Decode` reports — the count `n`, the error, the panic flag and the first `n` bytes of `dst` — does not depend on
what `dst` held before the call. (The model's `decode` starts from a zero-filled `dst`; `d.outbuf` and the caller's `p`
hold old bytes.) -/
def DecodeIndep (e : Encoding) : Prop :=
  ∀ (src D1 D2 : Buf), D1.size = D2.size →
    (decodeLoop e src 0 0 0 D1).n = (decodeLoop e src 0 0 0 D2).n ∧
    (decodeLoop e src 0 0 0 D1).err = (decodeLoop e src 0 0 0 D2).err ∧
    (decodeLoop e src 0 0 0 D1).panic = (decodeLoop e src 0 0 0 D2).panic ∧
    (decodeLoop e src 0 0 0 D1).dst.toList.take (decodeLoop e src 0 0 0 D1).n =
      (decodeLoop e src 0 0 0 D2).dst.toList.take (decodeLoop e src 0 0 0 D2).n

theorem decErr_eq (r : DRes) : decErr r = r.err.map fun k => 1000 + k := rfl

/-- The library call `enc.Decode(dst, src[:n])` (whole buffer `dst`, prefix window of `src`, `n > 0`) in terms of the
model's `decode` on a zero-filled destination. -/
theorem decode_call {lib : Lib} (hlib : DecLibSpec lib) {e : Encoding} (hind : DecodeIndep e) (H : Heap) (O : List Obj) (X : List Ext)
    (ae b1 b2 : Nat) (henc : EncAt H O ae b1 b2 e) (dd s : Nat) (Dst S : Buf) (n cp : Nat)
    (hd : H[dd]? = some Dst) (hs : H[s]? = some S) (hne : dd ≠ s) (hn0 : 0 < n) (hn : n ≤ S.size) (hcp : n ≤ cp)
    (hdz : Dst.size < 2 ^ 62) (hnz : n < 2 ^ 62)
    (hnp : (decode e Dst.size (S.toList.take n)).panic = false) :
    ∃ D', lib "Encoding.Decode" ⟨H, O, X⟩ [.ptr ae, .slice ⟨dd, 0, Dst.size, Dst.size⟩, .slice ⟨s, 0, n, cp⟩] =
        .ok (⟨H.set dd D', O, X⟩, [.int (decode e Dst.size (S.toList.take n)).n, .err (decErr (decode e Dst.size (S.toList.take n)))]) ∧
      D'.size = Dst.size ∧ (decode e Dst.size (S.toList.take n)).n ≤ Dst.size ∧
      D'.toList.take (decode e Dst.size (S.toList.take n)).n =
        (decode e Dst.size (S.toList.take n)).dst.toList.take (decode e Dst.size (S.toList.take n)).n := by
  have hne' : S.toList.take n ≠ [] := by
    intro h
    have := congrArg List.length h
    rw [List.length_take, Array.length_toList, List.length_nil] at this; omega
  have hdec : decode e Dst.size (S.toList.take n) =
      decodeLoop e (S.toList.take n).toArray 0 0 0 (Array.replicate Dst.size 0) := by
    unfold decode; rw [if_neg hne']
  rw [hdec] at hnp ⊢
  obtain ⟨i1, i2, i3, i4⟩ := hind (S.toList.take n).toArray Dst (Array.replicate Dst.size 0) (by simp)
  have hp := decodeLoop_props e (S.toList.take n).toArray _ 0 0 Dst 0 rfl (Nat.zero_le _) (Nat.zero_le _)
  refine ⟨(decodeLoop e (S.toList.take n).toArray 0 0 0 Dst).dst, ?_, hp.2, by rw [← i1]; exact hp.1, Eq.trans (by rw [i1]) i4⟩
  rw [hlib.decode e H O X ae b1 b2 henc dd s Dst S n cp hd hs hne hn hcp hdz hnz, if_neg (show ¬ n = 0 by omega), ofDResW, i3, hnp]
  simp only [Bool.false_eq_true, if_false, decErr_eq, i1, i2]

/-- Rebuilding a representation after the decoder object, the buffers `d.buf`/`d.outbuf`, other buffers and the
reader have changed. -/
theorem DecRep.transfer {L : DecLay} {e : Encoding} {ow : Slice} {st : DecSt} {H : Heap} {O : List Obj} {X : List Ext}
    (hrep : DecRep L e ow st ⟨H, O, X⟩) (ow2 : Slice) (st2 : DecSt) (H2 : Heap) (O2 : List Obj) (X2 : List Ext)
    (hb1 : H2[L.b1]? = H[L.b1]?) (hb2 : H2[L.b2]? = H[L.b2]?) (hO : ∀ a, a ≠ L.d → O2[a]? = O[a]?)
    (hrdr : X2[L.k]? = some (readerOf st2))
    (hobj : O2[L.d]? = some (decObj st2.err st2.readErr L.ae L.nf L.bb st2.buf.length ow2 L.bo))
    (hnb : st2.buf.length ≤ 1024)
    (hbuf : ∃ Bb, H2[L.bb]? = some Bb ∧ Bb.size = 1024 ∧ Bb.toList.take st2.buf.length = st2.buf)
    (hob : ∃ Bo, H2[L.bo]? = some Bo ∧ Bo.size = 768)
    (hlen : ow2.len = st2.out.length) (hcap : ow2.len ≤ ow2.cap)
    (hout : st2.out ≠ [] → ow2.buf = L.bo ∧ sliceBytes H2 ow2 = some st2.out) :
    DecRep L e ow2 st2 ⟨H2, O2, X2⟩ :=
  ⟨hrep.enc.mono _ _ (hO _ (Ne.symm hrep.ne_d_ae)) hb1 hb2, (hO _ (Ne.symm hrep.ne_d_nf)).trans hrep.nfr, hrdr, hobj, hnb, hbuf, hob,
    hlen, hcap, hout, hrep.ne_bb_bo, hrep.ne_b1_bb, hrep.ne_b1_bo, hrep.ne_b2_bb, hrep.ne_b2_bo, hrep.ne_d_ae, hrep.ne_d_nf⟩

end GoCrypt.SIR
