import GoCrypt.Proofs.CodecL1

/-!
# Beyond L1: the pure rendering of `Marshal` and the remaining step lemmas of the field loop

* `renderFields` / `marshalFields_render`: what `marshalFields` writes for an arbitrary field list
  (optional fields, params, groups, inline), as a pure function of the per-field texts;
* step lemmas for an optional field skipped by count, an optional field passing over a group
  fragment, a grouped param taking its member from a group fragment (first and later members), and
  a non-grouped field closing an exhausted group.
-/

namespace GoCrypt.Codec
open Bytes GoCrypt.Parse

/-! ## `Marshal` as a pure rendering -/

/-- The field is written (not an empty optional field). -/
def emitted (vals : Vals) (fi : FieldInfo) : Bool :=
  !(fi.opts.omitEmpty && isEmptyVal fi (fieldVal vals fi))

/-- The separator Marshal writes before `fi` when `prev` was the last field written. -/
def sepOf (prev : Option FieldInfo) (fi : FieldInfo) : Bytes :=
  match prev with
  | some p => if p.opts.inline then [] else if p.opts.group && fi.opts.group then [comma] else [dollar]
  | none => []

/-- What `marshalFields` appends to its buffer. -/
def renderFields (vals : Vals) : List FieldInfo → Option FieldInfo → Bytes
  | [], _ => []
  | fi :: rest, prev =>
    if emitted vals fi then sepOf prev fi ++ namedText fi (textOf vals fi) ++ renderFields vals rest (some fi)
    else renderFields vals rest prev

theorem marshalFields_render (vals : Vals) : ∀ (fields : List FieldInfo) (prev : Option FieldInfo)
    (buf s : Bytes), marshalFields vals fields prev buf = .ok s →
    s = buf ++ renderFields vals fields prev ∧
    ∀ f ∈ fields, emitted vals f = true → marshalValue f (fieldVal vals f) = .ok (textOf vals f) := by
  intro fields
  induction fields with
  | nil =>
    intro prev buf s h
    simp only [marshalFields, Except.ok.injEq] at h
    subst h
    simp [renderFields]
  | cons fi rest ih =>
    intro prev buf s h
    unfold marshalFields at h
    by_cases hem : emitted vals fi = true
    · have hc : (fi.opts.omitEmpty && isEmptyVal fi ((getVal vals fi.index).getD (zeroOf fi.kind fi.ptrDepth))) = false := by
        simpa only [emitted, fieldVal, Bool.not_eq_true'] using hem
      simp only [hc, Bool.false_eq_true, if_false] at h
      change (marshalValue fi (fieldVal vals fi) >>= _) = _ at h
      cases hmv : marshalValue fi (fieldVal vals fi) with
      | error e => simp [hmv, bind, Except.bind] at h
      | ok t =>
        have htx : textOf vals fi = t := by simp [textOf, hmv]
        simp only [hmv, bind, Except.bind] at h
        obtain ⟨h1, h2⟩ := ih (some fi) _ s h
        refine ⟨?_, ?_⟩
        · rw [h1]
          simp only [renderFields, hem, if_true, sepOf, namedText, htx]
          cases prev <;> by_cases hp : fi.opts.param = [] <;> simp [hp]
        · intro f hf hfe
          simp only [List.mem_cons] at hf
          rcases hf with rfl | hf
          · rw [htx]; exact hmv
          · exact h2 f hf hfe
    · have hc : (fi.opts.omitEmpty && isEmptyVal fi ((getVal vals fi.index).getD (zeroOf fi.kind fi.ptrDepth))) = true := by
        simpa only [emitted, fieldVal, Bool.not_eq_true', Bool.not_eq_false] using hem
      simp only [hc, if_true] at h
      obtain ⟨h1, h2⟩ := ih prev buf s h
      refine ⟨?_, ?_⟩
      · rw [h1]; simp [renderFields, hem]
      · intro f hf hfe
        simp only [List.mem_cons] at hf
        rcases hf with rfl | hf
        · exact absurd hfe hem
        · exact h2 f hf hfe

theorem renderFields_nil (vals : Vals) (prev : Option FieldInfo) : renderFields vals [] prev = [] := rfl

theorem renderFields_cons_emit (vals : Vals) (fi : FieldInfo) (rest : List FieldInfo)
    (prev : Option FieldInfo) (h : emitted vals fi = true) :
    renderFields vals (fi :: rest) prev =
      sepOf prev fi ++ namedText fi (textOf vals fi) ++ renderFields vals rest (some fi) := by
  simp [renderFields, h]

theorem renderFields_cons_omit (vals : Vals) (fi : FieldInfo) (rest : List FieldInfo)
    (prev : Option FieldInfo) (h : emitted vals fi = false) :
    renderFields vals (fi :: rest) prev = renderFields vals rest prev := by
  simp [renderFields, h]

/-- `Marshal` = prefix text followed by the rendering of the fields. -/
theorem marshal_render (ti : TypeInfo) (vals : Vals) (s : Bytes) (h : marshal ti vals = .ok s) :
    s = (match ti.hashPrefix with | some hp => textOf vals hp | none => []) ++
        renderFields vals ti.fields none ∧
    (∀ hp, ti.hashPrefix = some hp → marshalValue hp (fieldVal vals hp) = .ok (textOf vals hp)) ∧
    ∀ f ∈ ti.fields, emitted vals f = true → marshalValue f (fieldVal vals f) = .ok (textOf vals f) := by
  obtain ⟨h1, h2⟩ := marshal_split ti vals s h
  obtain ⟨h3, h4⟩ := marshalFields_render vals ti.fields none _ s h2
  exact ⟨h3, h1, h4⟩

/-! ## More step lemmas -/

theorem loopFields_cons (hashLen : Nat) (f : FieldInfo) (fs : List FieldInfo) (st st1 : LoopSt)
    (h : stepField hashLen f st = .ok st1) :
    loopFields hashLen (f :: fs) st = loopFields hashLen fs st1 := by
  simp only [loopFields, bind, Except.bind, h]

theorem loopFields_nil (hashLen : Nat) (st : LoopSt) : loopFields hashLen [] st = .ok st := rfl

/-- An optional field when no surplus fragment is left for it: skipped (the count still drops). -/
theorem stepField_skip (hashLen : Nat) (fi : FieldInfo) (st : LoopSt) (fr : Frag) (rest : List Frag)
    (ho : fi.opts.omitEmpty = true) (hsg : st.group = none) (hf : st.frags = fr :: rest)
    (hcnt : st.numValues - st.numReq ≤ 0) :
    stepField hashLen fi st = .ok { st with numValues := st.numValues - 1 } := by
  unfold stepField
  simp only [hsg, hf, ho, Option.isSome_none, Bool.and_false, Bool.false_eq_true, if_false, pure_bind,
    Option.isNone_none, Bool.true_and, decide_eq_true_eq, hcnt, if_true]
  rfl

/-- An optional non-grouped field facing a group fragment: nothing happens. -/
theorem stepField_pass_group (hashLen : Nat) (fi : FieldInfo) (st : LoopSt) (vs : List VNode)
    (rest : List Frag) (ho : fi.opts.omitEmpty = true) (hg : fi.opts.group = false)
    (hsg : st.group = none) (hf : st.frags = .group vs :: rest)
    (hcnt : ¬ (st.numValues - st.numReq ≤ 0)) :
    stepField hashLen fi st = .ok st := by
  unfold stepField
  simp only [hsg, hf, ho, hg, Option.isSome_none, Bool.and_false, Bool.false_eq_true, if_false, pure_bind,
    Option.isNone_none, Bool.true_and, decide_eq_true_eq, hcnt, Bool.false_and,
    Bool.not_false, Bool.not_true, if_true]
  rfl

theorem replaceFirst_self : ∀ (g : List VNode) (v : VNode), replaceFirst g v v = g
  | [], _ => rfl
  | x :: xs, v => by
    unfold replaceFirst
    by_cases h : x = v
    · simp [h]
    · simp [h, replaceFirst_self xs v]

/-- A grouped param facing a group fragment not yet opened: it takes its member. -/
theorem stepField_group_first (hashLen : Nat) (fi : FieldInfo) (st : LoopSt) (vs : List VNode)
    (rest : List Frag) (v : VNode) (s rem : Bytes) (fv : FVal)
    (hg : fi.opts.group = true) (ho : fi.opts.omitEmpty = false) (hinl : fi.opts.inline = false)
    (hsg : st.group = none) (hf : st.frags = .group vs :: rest)
    (hfind : vs.find? (fun v => (fi.opts.param ++ [equals]).isPrefixOf v.val) = some v)
    (hft : fieldText fi "value" v.fin v.val = .ok (s, rem))
    (hsv : storeValue fi "value" v.fin s = .ok fv) :
    stepField hashLen fi st = .ok { st with
      group := some vs, numGroupValues := vs.length - 1, out := st.out ++ [(fi.index, fv)] } := by
  unfold stepField
  simp only [hg, hsg, hf, ho, Bool.not_true, Bool.false_and, Bool.false_eq_true, if_false,
    Bool.true_and, Bool.true_or, if_true, hfind, hft, hsv, bind, Except.bind, pure, Except.pure,
    hinl, replaceFirst_self]

/-- A grouped param facing the group fragment already opened: it takes its member. -/
theorem stepField_group_next (hashLen : Nat) (fi : FieldInfo) (st : LoopSt) (g vs : List VNode)
    (rest : List Frag) (v : VNode) (s rem : Bytes) (fv : FVal)
    (hg : fi.opts.group = true) (ho : fi.opts.omitEmpty = false) (hinl : fi.opts.inline = false)
    (hsg : st.group = some g) (hf : st.frags = .group vs :: rest)
    (hfind : g.find? (fun v => (fi.opts.param ++ [equals]).isPrefixOf v.val) = some v)
    (hft : fieldText fi "value" v.fin v.val = .ok (s, rem))
    (hsv : storeValue fi "value" v.fin s = .ok fv) :
    stepField hashLen fi st = .ok { st with
      frags := .group g :: rest, numGroupValues := st.numGroupValues - 1,
      out := st.out ++ [(fi.index, fv)] } := by
  unfold stepField
  simp only [hg, hsg, hf, ho, Bool.not_true, Bool.false_and, Bool.false_eq_true, if_false,
    Bool.true_and, Bool.true_or, if_true, hfind, hft, hsv, bind, Except.bind, pure, Except.pure,
    hinl, replaceFirst_self, Option.isNone_some, Bool.and_false]

/-- A non-grouped field after an exhausted group: the group fragment is dropped first. -/
theorem stepField_close_group (hashLen : Nat) (fi : FieldInfo) (st : LoopSt) (g : List VNode)
    (hg : fi.opts.group = false) (hsg : st.group = some g) (hn : st.numGroupValues = 0) :
    stepField hashLen fi st = stepField hashLen fi { st with frags := st.frags.tail, group := none } := by
  unfold stepField
  simp only [hg, hsg, hn, Bool.not_false, Option.isSome_some, Bool.and_self, if_true, Nat.lt_irrefl,
    gt_iff_lt, if_false, pure_bind, Option.isSome_none, Bool.and_false, Bool.false_eq_true]

/-! ## Named fields -/

/-- A field without text codec (positional or named, grouped or not, not inline): the text Marshal
writes is delimiter-free, carries its key, and Unmarshal reads the value back from it. -/
theorem namedField_text (vals : Vals) (f : FieldInfo) (hinl : f.opts.inline = false)
    (hmt : f.marshalText = .none) (hut : f.unmarshalText = .none) (henc : f.opts.enc ≠ .none)
    (hbase : baseOk f = true) (hv : valOk f (fieldVal vals f) = true) (hpn : NoDelim f.opts.param)
    (hm : marshalValue f (fieldVal vals f) = .ok (textOf vals f)) :
    NoDelim (namedText f (textOf vals f)) ∧
    (f.opts.param = [] ∨ (f.opts.param ++ [equals]).isPrefixOf (namedText f (textOf vals f)) = true) ∧
    ∀ e, fieldText f "value" e (namedText f (textOf vals f)) = .ok (textOf vals f, []) ∧
      storeValue f "value" e (textOf vals f) = .ok (fieldVal vals f) := by
  obtain ⟨hraw, hlen, hfi⟩ := marshalValue_ok hm
  have hclean := alphabet_clean f.opts.enc henc _ hfi
  refine ⟨?_, ?_, ?_⟩
  · intro c hc
    unfold namedText at hc
    by_cases hp : f.opts.param = []
    · simp only [hp, ne_eq, not_true_eq_false, if_false] at hc
      exact ⟨(hclean c hc).1, (hclean c hc).2.1⟩
    · simp only [ne_eq, hp, not_false_eq_true, if_true, List.mem_append, List.mem_singleton] at hc
      rcases hc with (hc | rfl) | hc
      · exact hpn c hc
      · decide
      · exact ⟨(hclean c hc).1, (hclean c hc).2.1⟩
  · by_cases hp : f.opts.param = []
    · exact Or.inl hp
    · right
      simp only [namedText, ne_eq, hp, not_false_eq_true, if_true]
      exact isPrefixOf_append_self _ _
  · intro e
    exact ⟨fieldText_named f "value" e _ hinl hlen hfi,
      storeValue_marshalRaw f "value" e _ _ hmt hut hbase hv hraw⟩

/-! ## Text codecs: the crypt(3) 24-bit integer and the two-digit cost -/

theorem hashDecode_alphabet : ∀ d, d < 64 → hashDecode (hashAlphabet.getD d 255) = d := by
  decide +kernel

theorem twoDigit_parse : ∀ n, n < 100 → Strconv.parseUint (twoDigit n) 10 8 = .ok n := by
  decide +kernel

theorem twoDigit_length : ∀ n, n < 100 → (twoDigit n).length = 2 := by
  decide +kernel

theorem desInt_roundtrip (n : Nat) (h : n < 2 ^ 24) : desDecodeInt (desEncodeInt n) = n := by
  have hr : List.range 4 = [0, 1, 2, 3] := by decide
  unfold desEncodeInt desDecodeInt
  rw [hr]
  simp only [List.map, List.take, List.zipIdx, List.foldl]
  have h63 : ∀ x, x &&& 63 = x % 64 := fun x => Nat.and_two_pow_sub_one_eq_mod x 6
  simp only [h63, Nat.shiftRight_eq_div_pow, Nat.shiftLeft_eq]
  rw [hashDecode_alphabet _ (Nat.mod_lt _ (by decide)), hashDecode_alphabet _ (Nat.mod_lt _ (by decide)),
    hashDecode_alphabet _ (Nat.mod_lt _ (by decide)), hashDecode_alphabet _ (Nat.mod_lt _ (by decide))]
  have h24 : (2 : Nat) ^ 24 = 16777216 := by decide
  rw [h24] at h
  simp only [Nat.reduceMul, Nat.reduceAdd, Nat.reducePow, Nat.zero_add]
  omega

/-! ## Inline fields -/

/-- An unnamed inline field of fixed length: its text is clean, has the declared length, and
`fieldText` cuts exactly it off the front of the fragment. -/
theorem inlineField_text (vals : Vals) (f : FieldInfo) (hinl : f.opts.inline = true)
    (hp : f.opts.param = []) (hl : f.opts.hasLength = true) (henc : f.opts.enc ≠ .none)
    (hm : marshalValue f (fieldVal vals f) = .ok (textOf vals f)) :
    (∀ c ∈ textOf vals f, c ≠ dollar ∧ c ≠ comma ∧ c ≠ equals ∧ c ≠ underscore) ∧
    (textOf vals f).length = f.opts.length ∧
    ∀ (k : String) (e : Nat) (r : Bytes), fieldText f k e (textOf vals f ++ r) = .ok (textOf vals f, r) := by
  obtain ⟨-, hlen, hfi⟩ := marshalValue_ok hm
  exact ⟨alphabet_clean f.opts.enc henc _ hfi, hlen hl,
    fun k e r => fieldText_inline f k e _ r hinl hp hl (hlen hl) hfi⟩

/-! ## `storeValue` for the two text-codec fields -/

theorem storeValue_uint (f : FieldInfo) (k : String) (e : Nat) (t : Bytes) (bits n : Nat)
    (hut : f.unmarshalText = .none) (hk : f.kind = .uint bits) (hpfx : f.opts.isPrefix = false)
    (hp : Strconv.parseUint t f.opts.base bits = .ok n) : storeValue f k e t = .ok (.uint n) := by
  unfold storeValue
  simp [hut, hk, hpfx, hp]

theorem storeValue_desInt (f : FieldInfo) (k : String) (e : Nat) (t : Bytes)
    (hut : f.unmarshalText = .desInt) : storeValue f k e t = .ok (.uint (desDecodeInt t)) := by
  unfold storeValue
  simp [hut]

/-! ## Chaining steps -/

theorem loop_step {hashLen : Nat} {f : FieldInfo} {fs : List FieldInfo} {st st1 : LoopSt}
    {r : Except UErr LoopSt} (h1 : stepField hashLen f st = .ok st1)
    (h2 : loopFields hashLen fs st1 = r) : loopFields hashLen (f :: fs) st = r := by
  rw [loopFields_cons _ _ _ _ _ h1]; exact h2

/-- A non-grouped field after an exhausted group: the loop continues as if the group fragment had
already been dropped. -/
theorem loop_close_group {hashLen : Nat} {f : FieldInfo} {fs : List FieldInfo} {st : LoopSt}
    {r : Except UErr LoopSt} (g : List VNode)
    (hg : f.opts.group = false) (hsg : st.group = some g) (hn : st.numGroupValues = 0)
    (h : loopFields hashLen (f :: fs) { st with frags := st.frags.tail, group := none } = r) :
    loopFields hashLen (f :: fs) st = r := by
  rw [← h]
  simp only [loopFields]
  rw [stepField_close_group hashLen f st g hg hsg hn]

/-! ## Marshal accepts the canonical domain -/

theorem firstInvalid_none_iff (e : EncKind) (a : Bytes) (h : alphabetOf e = some a) (b : Bytes) :
    firstInvalid e b = none ↔ ∀ c ∈ b, c ∈ a := by
  unfold firstInvalid
  simp [h]

theorem marshalFields_accepts (vals : Vals) : ∀ (fields : List FieldInfo) (prev : Option FieldInfo)
    (buf : Bytes),
    (∀ f ∈ fields, emitted vals f = true → ∃ t, marshalValue f (fieldVal vals f) = .ok t) →
    ∃ s, marshalFields vals fields prev buf = .ok s := by
  intro fields
  induction fields with
  | nil => intro prev buf _; exact ⟨buf, rfl⟩
  | cons fi rest ih =>
    intro prev buf h
    unfold marshalFields
    by_cases hem : emitted vals fi = true
    · have hc : (fi.opts.omitEmpty && isEmptyVal fi ((getVal vals fi.index).getD (zeroOf fi.kind fi.ptrDepth))) = false := by
        simpa only [emitted, fieldVal, Bool.not_eq_true'] using hem
      obtain ⟨t, ht⟩ := h fi (by simp) hem
      have ht' : marshalValue fi ((getVal vals fi.index).getD (zeroOf fi.kind fi.ptrDepth)) = .ok t := ht
      simp only [hc, Bool.false_eq_true, if_false, ht', bind, Except.bind]
      exact ih _ _ (fun f hf => h f (by simp [hf]))
    · have hc : (fi.opts.omitEmpty && isEmptyVal fi ((getVal vals fi.index).getD (zeroOf fi.kind fi.ptrDepth))) = true := by
        simpa only [emitted, fieldVal, Bool.not_eq_true', Bool.not_eq_false] using hem
      simp only [hc, if_true]
      exact ih _ _ (fun f hf => h f (by simp [hf]))

/-- Marshal succeeds as soon as `marshalValue` accepts the prefix and every field it writes. -/
theorem marshal_accepts (ti : TypeInfo) (vals : Vals)
    (hp : ∀ hp, ti.hashPrefix = some hp → ∃ t, marshalValue hp (fieldVal vals hp) = .ok t)
    (hf : ∀ f ∈ ti.fields, emitted vals f = true → ∃ t, marshalValue f (fieldVal vals f) = .ok t) :
    ∃ s, marshal ti vals = .ok s := by
  unfold marshal
  cases hhp : ti.hashPrefix with
  | none =>
    simp only [pure, Except.pure, bind, Except.bind]
    exact marshalFields_accepts vals ti.fields none [] hf
  | some hp' =>
    obtain ⟨t, ht⟩ := hp hp' hhp
    have ht' : marshalValue hp' ((getVal vals hp'.index).getD (zeroOf hp'.kind hp'.ptrDepth)) = .ok t := ht
    simp only [ht', bind, Except.bind]
    exact marshalFields_accepts vals ti.fields none t hf

/-- A `[]byte` / `[n]byte` field accepts a text of the right length over its alphabet. -/
theorem accepts_bytes (f : FieldInfo) (b : Bytes) (hmt : f.marshalText = .none)
    (hk : f.kind = .bytes ∨ ∃ n, f.kind = .byteArray n) (hpfx : f.opts.isPrefix = false)
    (hl : f.opts.hasLength = true → b.length = f.opts.length)
    (ha : firstInvalid f.opts.enc b = none) : marshalValue f (.bytes b) = .ok b := by
  apply marshalValue_of _ hl ha
  unfold marshalRaw
  rcases hk with hk | ⟨n, hk⟩ <;> simp [hmt, hk, hpfx]

/-- Decimal digits are in the hash alphabet. -/
theorem formatUint10_hash (n : Nat) : firstInvalid .hash (Strconv.formatUint n 10) = none := by
  rw [firstInvalid_none_iff .hash hashAlphabet rfl]
  intro c hc
  obtain ⟨d, hd, rfl⟩ := Strconv.formatUint_mem n 10 (by decide) c hc
  have : ∀ d, d < 10 → Strconv.digitChar d ∈ hashAlphabet := by decide +kernel
  exact this d hd

/-- A decimal `uint` field without length over the hash alphabet accepts every value. -/
theorem accepts_uint10 (f : FieldInfo) (n bits : Nat) (hmt : f.marshalText = .none)
    (hk : f.kind = .uint bits) (hpfx : f.opts.isPrefix = false) (hl : f.opts.hasLength = false)
    (hb : f.opts.base = 10) (he : f.opts.enc = .hash) :
    marshalValue f (.uint n) = .ok (Strconv.formatUint n 10) := by
  apply marshalValue_of
  · unfold marshalRaw
    simp [hmt, hk, hpfx, hb]
  · simp [hl]
  · rw [he]; exact formatUint10_hash n

/-- A string prefix field without alphabet accepts every text. -/
theorem accepts_prefix (f : FieldInfo) (p : Bytes) (hmt : f.marshalText = .none) (hk : f.kind = .string)
    (hl : f.opts.hasLength = false) (he : f.opts.enc = .none) : marshalValue f (.str p) = .ok p := by
  apply marshalValue_of
  · unfold marshalRaw
    simp [hmt, hk]
  · simp [hl]
  · rw [he]; rfl

end GoCrypt.Codec
