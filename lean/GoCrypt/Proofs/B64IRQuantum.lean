import GoCrypt.Proofs.B64IREncode

/-!
# Buffer IR of `hash/base64le`: `decodeQuantum`

The regenerated `(*Encoding).decodeQuantum` against the model's `collect` / `decodeQuantum`.
Helper lemmas only.
-/

namespace GoCrypt.B64IR
open GoCrypt.Base64LE GoCrypt.Gen.base64leIR GoCrypt.Gen.base64le GoCrypt.Spec.Base64Bits

/-! ## `enc.decodeMap[c]` -/

theorem dec_range (e : Encoding) (hal : e.alphabet.length = 64) (c : UInt8) : e.dec c < 64 ∨ e.dec c = 255 := by
  have := dmPrefix_range e.alphabet c e.alphabet.length
  unfold Encoding.dec; rw [decodeMapOf_eq]
  rcases this with h | h
  · right; exact h
  · left; omega

theorem decodeMap_index (e : Encoding) (hal : e.alphabet.length = 64) (c : UInt8) :
    indexBytes (decodeMapBytes e) (c.toNat : Int) = .ok (.int (e.dec c : Nat)) := by
  have hc := c.toNat_lt
  have hd := dec_range e hal c
  have h1 : (decodeMapBytes e)[c.toNat]? = some (UInt8.ofNat (e.dec c)) := by
    simp [decodeMapBytes, hc]
  have h2 : (UInt8.ofNat (e.dec c)).toNat = e.dec c := by
    simp; omega
  simp [indexBytes, h1, h2]

/-! ## The parts of the generated body -/

/-- the declarations before the loop: results, `dbuf`, `dlen`, `j := 0` -/
def dqPrefix : Stmt := decodeQuantumIR.body.take 7
/-- `for j < len(dbuf) { … }` -/
def dqFor : Stmt := (decodeQuantumIR.body.drop 7).head
def dqBody : Stmt := dqFor.forBody
def dqPost : Stmt := dqFor.forPost
/-- everything after the loop -/
def dqTail : Stmt := decodeQuantumIR.body.drop 8

theorem dqFor_eq : dqFor = .for_ dqFor.forFuel dqFor.forCond dqPost dqBody := rfl
theorem dqBody_split : decodeQuantumIR.body.drop 7 = (dqFor ;; dqTail) := rfl

/-- the second newline-skipping loop of the body (`for si < len(src) && (src[si] == '\n' || src[si] == '\r') { si++ }`) -/
def dqSkip : Stmt := (dqBody.drop 9).head
/-- the first one, inside `case 2` -/
def dqSkip1 : Stmt := (((dqBody.drop 8).head.iteElse).iteThen).head

theorem dqSkip1_eq : dqSkip1 = dqSkip := rfl

/-! ## The newline-skipping loops -/

theorem isNL_iff (c : UInt8) : isNL c = true ↔ c.toNat = 10 ∨ c.toNat = 13 := by
  simp [isNL, ← UInt8.toNat_inj]

/-- Frame of `decodeQuantum` with the slots the newline-skipping loops touch made explicit. -/
def skEnv (v0 : Val) (ds : Slice) (s sn : Nat) (si : Nat) (r : List Val) : Env :=
  v0 :: .slice ds :: .slice ⟨s, 0, sn, sn⟩ :: .int si :: r

theorem dqSkip_loop (c : Ctx) (H : Heap) (s : Nat) (src : Buf) (hs : H[s]? = some src) (ds : Slice) (v0 : Val)
    (r : List Val) (hsz : src.size < 2 ^ 62) :
    ∀ fuel si, si ≤ src.size → src.size - si ≤ fuel →
    loop (fun h env => eval h env dqSkip.forCond >>= asBool) (exec c dqSkip.forBody) (exec c dqSkip.forPost) fuel H
      (skEnv v0 ds s src.size si r) = .norm H (skEnv v0 ds s src.size (skipNL src si) r) := by
  intro fuel
  induction fuel with
  | zero =>
    intro si h1 h2
    have : si = src.size := by omega
    subst this
    rw [skipNL_of_ge src _ (Nat.le_refl _)]
    apply loop_false
    simp only [dqSkip, dqBody, dqFor, Stmt.forCond, Stmt.forBody, Stmt.head, Stmt.drop, decodeQuantumIR, skEnv]
    b64_simp []
  | succ fuel ih =>
    intro si h1 h2
    by_cases hlt : si < src.size
    · by_cases hnl : src[si].toNat = 10 ∨ src[si].toNat = 13
      · have hs1 : skipNL src si = skipNL src (si + 1) := by
          rw [skipNL]; simp [hlt, (isNL_iff _).2 hnl]
        have hcond : (eval H (skEnv v0 ds s src.size si r) dqSkip.forCond >>= asBool) = .ok true := by
          simp only [dqSkip, dqBody, dqFor, Stmt.forCond, Stmt.forBody, Stmt.head, Stmt.drop, decodeQuantumIR, skEnv]
          rcases hnl with hnl | hnl
          · b64_simp [hs, hnl]
          · b64_simp [hs, hnl]
        have hbody : exec c dqSkip.forBody H (skEnv v0 ds s src.size si r) = .norm H (skEnv v0 ds s src.size (si + 1) r) := by
          simp only [dqSkip, dqBody, dqFor, Stmt.forBody, Stmt.head, Stmt.drop, decodeQuantumIR, skEnv]
          b64_simp []
        have hpost : dqSkip.forPost = .skip := rfl
        rw [loop_step _ _ _ _ _ _ hcond, hs1, hbody, hpost, afterBody_norm, exec_skip, afterPost_norm]
        exact ih (si + 1) (by omega) (by omega)
      · have hcond : (eval H (skEnv v0 ds s src.size si r) dqSkip.forCond >>= asBool) = .ok false := by
          simp only [dqSkip, dqBody, dqFor, Stmt.forCond, Stmt.forBody, Stmt.head, Stmt.drop, decodeQuantumIR, skEnv]
          have h10 : ¬ src[si].toNat = 10 := fun h => hnl (Or.inl h)
          have h13 : ¬ src[si].toNat = 13 := fun h => hnl (Or.inr h)
          b64_simp [hs, h10, h13]
        have hn : isNL (src.getD si 0) = false := by
          rw [arr_getD_eq hlt]
          cases h : isNL src[si]
          · rfl
          · exact absurd ((isNL_iff _).1 h) hnl
        rw [skipNL_of_not src si hlt hn]
        exact loop_false _ _ _ _ _ _ hcond
    · have : si = src.size := by omega
      subst this
      rw [skipNL_of_ge src _ (Nat.le_refl _)]
      apply loop_false
      simp only [dqSkip, dqBody, dqFor, Stmt.forCond, Stmt.forBody, Stmt.head, Stmt.drop, decodeQuantumIR, skEnv]
      b64_simp []

theorem dqSkip_eq : dqSkip = .for_ dqSkip.forFuel dqSkip.forCond dqSkip.forPost dqSkip.forBody := rfl

theorem dqSkip_run (c : Ctx) (H : Heap) (s : Nat) (src : Buf) (hs : H[s]? = some src) (ds : Slice) (v0 : Val)
    (r : List Val) (hsz : src.size < 2 ^ 62) (si : Nat) (hsi : si ≤ src.size) :
    exec c dqSkip H (skEnv v0 ds s src.size si r) = .norm H (skEnv v0 ds s src.size (skipNL src si) r) := by
  rw [dqSkip_eq, exec_for]
  have hfuel : (eval H (skEnv v0 ds s src.size si r) dqSkip.forFuel >>= asInt) =
      .ok ((1 + ds.len + src.size + 10 + 13 : Nat) : Int) := by
    simp only [dqSkip, dqBody, dqFor, Stmt.forFuel, Stmt.forBody, Stmt.head, Stmt.drop, decodeQuantumIR, skEnv]
    b64_simp []
    congr 1
  rw [hfuel, bindR_ok, Int.toNat_natCast]
  exact dqSkip_loop c H s src hs ds v0 r hsz _ si hsi (by omega)

/-! ## `skipNL` stays inside the text -/

theorem skipNL_bounds (src : Buf) : ∀ (si : Nat), si ≤ src.size → si ≤ skipNL src si ∧ skipNL src si ≤ src.size := by
  intro si
  induction h : src.size - si using Nat.strongRecOn generalizing si with
  | _ n ih =>
    intro hle
    by_cases hlt : si < src.size
    · by_cases hnl : isNL src[si] = true
      · have hs1 : skipNL src si = skipNL src (si + 1) := by
          rw [skipNL]; simp [hlt, hnl]
        have := ih (src.size - (si + 1)) (by omega) (si + 1) rfl (by omega)
        rw [hs1]; omega
      · have : skipNL src si = si := by
          apply skipNL_of_not src si hlt
          rw [arr_getD_eq hlt]; simpa using hnl
        rw [this]; omega
    · rw [skipNL_of_ge src si (by omega)]; omega

/-! ## One iteration of the digit-collecting loop -/

/-- Frame of `decodeQuantum` inside its loop. -/
def dqEnv (e : Encoding) (ds : Slice) (s sn si : Nat) (err : Val) (db : Bytes) (dlen : Nat) (j : Int) (v10 v11 v13 : Val) : Env :=
  skEnv (encVal e) ds s sn si [.int 0, .int 0, err, .arr db, .int dlen, .int j, v10, v11, .undef, v13, .undef]

/-- `error` value of a model error offset. -/
def errVal (o : Option Nat) : Val := .err (o.map Int.ofNat)

section steps
variable (c : Ctx) (e : Encoding) (hal : e.alphabet.length = 64) (H : Heap) (s : Nat) (src : Buf)
  (hs : H[s]? = some src) (ds : Slice) (hsz : src.size < 2 ^ 62)

include hs hsz in
/-- The newline-skipping loop as a rewrite rule on unfolded terms. -/
theorem sk_rule (v0 : Val) (r : List Val) (si : Nat) (hsi : si ≤ src.size) :
    exec c dqSkip H (v0 :: .slice ds :: .slice ⟨s, 0, src.size, src.size⟩ :: .int si :: r) =
      .norm H (v0 :: .slice ds :: .slice ⟨s, 0, src.size, src.size⟩ :: .int (skipNL src si : Nat) :: r) :=
  dqSkip_run c H s src hs ds v0 r hsz si hsi

include hal hs hsz in
theorem dqBody_digit (K : Heap → Env → Out) (si : Nat) (db : Bytes) (j : Nat) (v10 v11 v13 : Val)
    (hsi : si < src.size) (hj : j < 4) (hdb : db.length = 4) (hout : e.dec src[si] ≠ 255) :
    afterBody (exec c dqPost) K (exec c dqBody H (dqEnv e ds s src.size si (.err none) db 4 j v10 v11 v13)) =
      K H (dqEnv e ds s src.size (si + 1) (.err none) (db.set j (UInt8.ofNat (e.dec src[si]))) 4 ((j + 1 : Nat) : Int)
        (.int src[si].toNat) (.int (e.dec src[si] : Nat)) v13) := by
  have hdm := decodeMap_index e hal src[si]
  have hlt : e.dec src[si] < 256 := by have := dec_range e hal src[si]; omega
  have hby := asByte_nat _ hlt
  simp only [dqBody, dqPost, dqFor, Stmt.forBody, Stmt.forPost, Stmt.head, Stmt.drop, decodeQuantumIR, dqEnv, skEnv, encVal]
  b64_simp [hs, hdm, hout, hdb, hby]

include hal hs hsz in
theorem dqBody_newline (K : Heap → Env → Out) (si : Nat) (db : Bytes) (j : Nat) (v10 v11 v13 : Val)
    (hsi : si < src.size) (hj : j < 4) (hout : e.dec src[si] = 255)
    (hnl : src[si].toNat = 10 ∨ src[si].toNat = 13) :
    afterBody (exec c dqPost) K (exec c dqBody H (dqEnv e ds s src.size si (.err none) db 4 j v10 v11 v13)) =
      K H (dqEnv e ds s src.size (si + 1) (.err none) db 4 (j : Int) (.int src[si].toNat) (.int (255 : Nat)) v13) := by
  have hdm := decodeMap_index e hal src[si]
  simp only [dqBody, dqPost, dqFor, Stmt.forBody, Stmt.forPost, Stmt.head, Stmt.drop, decodeQuantumIR, dqEnv, skEnv, encVal]
  rcases hnl with hnl | hnl
  · b64_simp [hs, hdm, hout, eq_true hnl]
  · have h10 : ¬ src[si].toNat = 10 := by omega
    b64_simp [hs, hdm, hout, eq_true hnl, h10]

include hal hs hsz in
theorem dqBody_bad (K : Heap → Env → Out) (si : Nat) (db : Bytes) (j : Nat) (v10 v11 v13 : Val)
    (hsi : si < src.size) (hj : j < 4) (hout : e.dec src[si] = 255)
    (h10 : ¬ src[si].toNat = 10) (h13 : ¬ src[si].toNat = 13) (hbad : ¬ (src[si].toNat : Int) = padInt e) :
    afterBody (exec c dqPost) K (exec c dqBody H (dqEnv e ds s src.size si (.err none) db 4 j v10 v11 v13)) =
      .ret H [.int (si + 1 : Nat), .int 0, errVal (some si)] := by
  have hdm := decodeMap_index e hal src[si]
  simp only [dqBody, dqPost, dqFor, Stmt.forBody, Stmt.forPost, Stmt.head, Stmt.drop, decodeQuantumIR, dqEnv, skEnv, encVal, errVal]
  b64_simp [hs, hdm, hout, h10, h13, hbad]
  rfl

include hal hs hsz in
theorem dqBody_pad01 (K : Heap → Env → Out) (si : Nat) (db : Bytes) (j : Nat) (v10 v11 v13 : Val)
    (hsi : si < src.size) (hj : j < 2) (hout : e.dec src[si] = 255)
    (h10 : ¬ src[si].toNat = 10) (h13 : ¬ src[si].toNat = 13) (hpad : (src[si].toNat : Int) = padInt e) :
    afterBody (exec c dqPost) K (exec c dqBody H (dqEnv e ds s src.size si (.err none) db 4 j v10 v11 v13)) =
      .ret H [.int (si + 1 : Nat), .int 0, errVal (some si)] := by
  have hdm := decodeMap_index e hal src[si]
  simp only [dqBody, dqPost, dqFor, Stmt.forBody, Stmt.forPost, Stmt.head, Stmt.drop, decodeQuantumIR, dqEnv, skEnv, encVal, errVal]
  have hj' : j = 0 ∨ j = 1 := by omega
  rcases hj' with rfl | rfl
  · b64_simp [hs, hdm, hout, h10, h13, eq_true hpad]
    rfl
  · b64_simp [hs, hdm, hout, h10, h13, eq_true hpad]
    rfl

include hal hs hsz in
theorem dqBody_pad3 (K : Heap → Env → Out) (si si4 : Nat) (db : Bytes) (v10 v11 v13 : Val)
    (hsi : si < src.size) (hout : e.dec src[si] = 255)
    (h10 : ¬ src[si].toNat = 10) (h13 : ¬ src[si].toNat = 13) (hpad : (src[si].toNat : Int) = padInt e)
    (hsi4 : skipNL src (si + 1) = si4) :
    afterBody (exec c dqPost) K (exec c dqBody H (dqEnv e ds s src.size si (.err none) db 4 ((3 : Nat) : Int) v10 v11 v13)) =
      .norm H (dqEnv e ds s src.size si4 (errVal (if si4 < src.size then some si4 else none)) db 3 3
        (.int src[si].toNat) (.int (255 : Nat)) (.int 3)) := by
  have hdm := decodeMap_index e hal src[si]
  have sk := sk_rule c H s src hs ds hsz
  simp only [dqSkip, dqBody, dqFor, Stmt.forBody, Stmt.head, Stmt.drop, decodeQuantumIR] at sk
  simp only [dqBody, dqPost, dqFor, Stmt.forBody, Stmt.forPost, Stmt.head, Stmt.drop, decodeQuantumIR, dqEnv, skEnv, encVal, errVal]
  by_cases h4 : si4 < src.size
  · b64_simp [hs, hdm, hout, h10, h13, eq_true hpad, sk, hsi4, h4]
    rfl
  · b64_simp [hs, hdm, hout, h10, h13, eq_true hpad, sk, hsi4, h4]
    rfl

include hal hs hsz in
theorem dqBody_pad2_short (K : Heap → Env → Out) (si : Nat) (db : Bytes) (v10 v11 v13 : Val)
    (hsi : si < src.size) (hout : e.dec src[si] = 255)
    (h10 : ¬ src[si].toNat = 10) (h13 : ¬ src[si].toNat = 13) (hpad : (src[si].toNat : Int) = padInt e)
    (hsi2 : skipNL src (si + 1) = src.size) :
    afterBody (exec c dqPost) K (exec c dqBody H (dqEnv e ds s src.size si (.err none) db 4 ((2 : Nat) : Int) v10 v11 v13)) =
      .ret H [.int (src.size : Nat), .int 0, errVal (some src.size)] := by
  have hdm := decodeMap_index e hal src[si]
  have sk := sk_rule c H s src hs ds hsz
  simp only [dqSkip, dqBody, dqFor, Stmt.forBody, Stmt.head, Stmt.drop, decodeQuantumIR] at sk
  simp only [dqBody, dqPost, dqFor, Stmt.forBody, Stmt.forPost, Stmt.head, Stmt.drop, decodeQuantumIR, dqEnv, skEnv, encVal, errVal]
  b64_simp [hs, hdm, hout, h10, h13, eq_true hpad, sk, hsi2]
  rfl

include hal hs hsz in
theorem dqBody_pad2_bad (K : Heap → Env → Out) (si si2 : Nat) (db : Bytes) (v10 v11 v13 : Val)
    (hsi : si < src.size) (hout : e.dec src[si] = 255)
    (h10 : ¬ src[si].toNat = 10) (h13 : ¬ src[si].toNat = 13) (hpad : (src[si].toNat : Int) = padInt e)
    (hsi2 : skipNL src (si + 1) = si2) (hlt : si2 < src.size) (hpad2 : ¬ (src[si2].toNat : Int) = padInt e) :
    afterBody (exec c dqPost) K (exec c dqBody H (dqEnv e ds s src.size si (.err none) db 4 ((2 : Nat) : Int) v10 v11 v13)) =
      .ret H [.int (si2 : Nat), .int 0, errVal (some (si2 - 1))] := by
  have hdm := decodeMap_index e hal src[si]
  have sk := sk_rule c H s src hs ds hsz
  have h1 : 1 ≤ si2 := by
    have := (skipNL_bounds src (si + 1) (by omega)).1
    omega
  simp only [dqSkip, dqBody, dqFor, Stmt.forBody, Stmt.head, Stmt.drop, decodeQuantumIR] at sk
  simp only [dqBody, dqPost, dqFor, Stmt.forBody, Stmt.forPost, Stmt.head, Stmt.drop, decodeQuantumIR, dqEnv, skEnv, encVal, errVal]
  b64_simp [hs, hdm, hout, h10, h13, eq_true hpad, sk, hsi2, hpad2]
  rfl

include hal hs hsz in
theorem dqBody_pad2 (K : Heap → Env → Out) (si si2 si4 : Nat) (db : Bytes) (v10 v11 v13 : Val)
    (hsi : si < src.size) (hout : e.dec src[si] = 255)
    (h10 : ¬ src[si].toNat = 10) (h13 : ¬ src[si].toNat = 13) (hpad : (src[si].toNat : Int) = padInt e)
    (hsi2 : skipNL src (si + 1) = si2) (hlt : si2 < src.size) (hpad2 : (src[si2].toNat : Int) = padInt e)
    (hsi4 : skipNL src (si2 + 1) = si4) :
    afterBody (exec c dqPost) K (exec c dqBody H (dqEnv e ds s src.size si (.err none) db 4 ((2 : Nat) : Int) v10 v11 v13)) =
      .norm H (dqEnv e ds s src.size si4 (errVal (if si4 < src.size then some si4 else none)) db 2 2
        (.int src[si].toNat) (.int (255 : Nat)) (.int 2)) := by
  have hdm := decodeMap_index e hal src[si]
  have sk := sk_rule c H s src hs ds hsz
  simp only [dqSkip, dqBody, dqFor, Stmt.forBody, Stmt.head, Stmt.drop, decodeQuantumIR] at sk
  simp only [dqBody, dqPost, dqFor, Stmt.forBody, Stmt.forPost, Stmt.head, Stmt.drop, decodeQuantumIR, dqEnv, skEnv, encVal, errVal]
  by_cases h4 : si4 < src.size
  · b64_simp [hs, hdm, hout, h10, h13, eq_true hpad, sk, hsi2, eq_true hpad2, hsi4, h4]
    rfl
  · b64_simp [hs, hdm, hout, h10, h13, eq_true hpad, sk, hsi2, eq_true hpad2, hsi4, h4]
    rfl

/-! End of input -/

include hsz in
theorem dqBody_eof0 (K : Heap → Env → Out) (db : Bytes) (v10 v11 v13 : Val) :
    afterBody (exec c dqPost) K (exec c dqBody H (dqEnv e ds s src.size src.size (.err none) db 4 ((0 : Nat) : Int) v10 v11 v13)) =
      .ret H [.int (src.size : Nat), .int 0, errVal none] := by
  simp only [dqBody, dqPost, dqFor, Stmt.forBody, Stmt.forPost, Stmt.head, Stmt.drop, decodeQuantumIR, dqEnv, skEnv, encVal, errVal]
  b64_simp []
  rfl

include hsz in
theorem dqBody_eof_err (K : Heap → Env → Out) (db : Bytes) (j : Nat) (v10 v11 v13 : Val)
    (hj0 : j ≠ 0) (hj : j < 4) (hjs : j ≤ src.size) (hc : j = 1 ∨ ¬ padInt e = -1) :
    afterBody (exec c dqPost) K (exec c dqBody H (dqEnv e ds s src.size src.size (.err none) db 4 j v10 v11 v13)) =
      .ret H [.int (src.size : Nat), .int 0, errVal (some (src.size - j))] := by
  simp only [dqBody, dqPost, dqFor, Stmt.forBody, Stmt.forPost, Stmt.head, Stmt.drop, decodeQuantumIR, dqEnv, skEnv, encVal, errVal]
  rcases hc with hc | hc
  · b64_simp [hj0, hc]
    rfl
  · by_cases h1 : j = 1
    · b64_simp [hj0, h1]
      rfl
    · b64_simp [hj0, h1, hc]
      rfl

include hsz in
theorem dqBody_eof_ok (K : Heap → Env → Out) (db : Bytes) (j : Nat) (v10 v11 v13 : Val)
    (hj : j = 2 ∨ j = 3) (hc : padInt e = -1) :
    afterBody (exec c dqPost) K (exec c dqBody H (dqEnv e ds s src.size src.size (.err none) db 4 j v10 v11 v13)) =
      .norm H (dqEnv e ds s src.size src.size (.err none) db j j v10 v11 v13) := by
  simp only [dqBody, dqPost, dqFor, Stmt.forBody, Stmt.forPost, Stmt.head, Stmt.drop, decodeQuantumIR, dqEnv, skEnv, encVal]
  rcases hj with rfl | rfl
  · b64_simp [hc]
  · b64_simp [hc]

end steps

/-! ## One step of the model's `collect` -/

theorem pad_ne_iff (e : Encoding) (c : UInt8) : (some c ≠ e.pad) ↔ ¬ ((c.toNat : Int) = padInt e) := by
  unfold padInt
  cases e.pad with
  | none => simp
  | some p => simp [← UInt8.toNat_inj]; omega

section collectSteps
variable (e : Encoding) (src : Buf) (si j : Nat) (dr : List Nat)

theorem collect_nl (h : si < src.size) (hj : j < 4) (hd : e.dec src[si] = 255) (hnl : isNL src[si] = true) :
    collect e src si j dr = collect e src (si + 1) j dr := by
  rw [collect]; simp [h, Nat.not_le.2 hj, hd, hnl]

theorem collect_badc (h : si < src.size) (hj : j < 4) (hd : e.dec src[si] = 255) (hnl : isNL src[si] = false)
    (hp : some src[si] ≠ e.pad) : collect e src si j dr = .inl (si + 1, some si) := by
  rw [collect]; simp [h, Nat.not_le.2 hj, hd, hnl, hp]

theorem collect_pad01 (h : si < src.size) (hj : j < 2) (hd : e.dec src[si] = 255) (hnl : isNL src[si] = false)
    (hp : some src[si] = e.pad) : collect e src si j dr = .inl (si + 1, some si) := by
  have : j = 0 ∨ j = 1 := by omega
  rw [collect]; simp [h, show ¬ 4 ≤ j by omega, hd, hnl, hp, this]

theorem collect_pad2_short (h : si < src.size) (hd : e.dec src[si] = 255) (hnl : isNL src[si] = false)
    (hp : some src[si] = e.pad) (h2 : skipNL src (si + 1) = src.size) :
    collect e src si 2 dr = .inl (src.size, some src.size) := by
  rw [collect]; simp [h, hd, hnl, hp, h2]

theorem collect_pad2_bad (si2 : Nat) (h : si < src.size) (hd : e.dec src[si] = 255) (hnl : isNL src[si] = false)
    (hp : some src[si] = e.pad) (h2 : skipNL src (si + 1) = si2) (hlt : si2 < src.size) (hp2 : some src[si2] ≠ e.pad) :
    collect e src si 2 dr = .inl (si2, some (si2 - 1)) := by
  rw [collect]; simp [h, hd, hnl, hp, h2, Nat.ne_of_lt hlt, arr_getD_eq hlt, hp2]

theorem collect_pad2_ok (si2 si4 : Nat) (h : si < src.size) (hd : e.dec src[si] = 255) (hnl : isNL src[si] = false)
    (hp : some src[si] = e.pad) (h2 : skipNL src (si + 1) = si2) (hlt : si2 < src.size) (hp2 : some src[si2] = e.pad)
    (h4 : skipNL src (si2 + 1) = si4) :
    collect e src si 2 dr = .inr (si4, 2, dr, if si4 < src.size then some si4 else none) := by
  rw [collect]; simp [h, hd, hnl, hp, h2, Nat.ne_of_lt hlt, arr_getD_eq hlt, hp2, h4]

theorem collect_pad3' (si4 : Nat) (h : si < src.size) (hd : e.dec src[si] = 255) (hnl : isNL src[si] = false)
    (hp : some src[si] = e.pad) (h4 : skipNL src (si + 1) = si4) :
    collect e src si 3 dr = .inr (si4, 3, dr, if si4 < src.size then some si4 else none) := by
  rw [collect]; simp [h, hd, hnl, hp, h4]

theorem collect_eof0 (h : src.size ≤ si) : collect e src si 0 dr = .inl (si, none) := by
  rw [collect]; simp [Nat.not_lt.2 h]

theorem collect_eof_err (h : src.size ≤ si) (hj0 : j ≠ 0) (hj : j < 4) (hc : j = 1 ∨ e.pad.isSome = true) :
    collect e src si j dr = .inl (si, some (si - j)) := by
  rw [collect]; simp [Nat.not_lt.2 h, Nat.not_le.2 hj, hj0, hc]

theorem collect_eof_ok (h : src.size ≤ si) (hj : j = 2 ∨ j = 3) (hc : e.pad = none) :
    collect e src si j dr = .inr (si, j, dr, none) := by
  rw [collect]; rcases hj with rfl | rfl <;> simp [Nat.not_lt.2 h, hc]

end collectSteps

/-! ## The digit-collecting loop against `collect` -/

/-- The local array `dbuf` holding the digits collected so far. -/
def arr4 (ds : List Nat) : Bytes :=
  [UInt8.ofNat (ds.getD 0 0), UInt8.ofNat (ds.getD 1 0), UInt8.ofNat (ds.getD 2 0), UInt8.ofNat (ds.getD 3 0)]

theorem arr4_length (ds : List Nat) : (arr4 ds).length = 4 := rfl

theorem arr4_snoc (ds : List Nat) (x : Nat) (h : ds.length < 4) :
    (arr4 ds).set ds.length (UInt8.ofNat x) = arr4 (ds ++ [x]) := by
  match ds, h with
  | [], _ => rfl
  | [_], _ => rfl
  | [_, _], _ => rfl
  | [_, _, _], _ => rfl
  | _ :: _ :: _ :: _ :: _, h => simp at h; omega

/-- What the IR loop must produce, given what `collect` returns. -/
def DqRel (e : Encoding) (H : Heap) (ds : Slice) (s : Nat) (src : Buf) :
    Sum (Nat × Option Nat) (Nat × Nat × List Nat × Option Nat) → Out → Prop
  | .inl (si', err), o => si' ≤ src.size ∧ o = .ret H [.int (si' : Nat), .int 0, errVal err]
  | .inr (si', dlen, dr, err), o =>
    si' ≤ src.size ∧ dr.length = dlen ∧ 2 ≤ dlen ∧ dlen ≤ 4 ∧ dlen ≤ si' ∧ (∀ x ∈ dr, x < 256) ∧
      ∃ vj v10 v11 v13, o = .norm H (dqEnv e ds s src.size si' (errVal err) (arr4 dr.reverse) dlen vj v10 v11 v13)

/-- The loop condition `j < len(dbuf)`. -/
def dqC : Heap → Env → Res Bool := fun h env => eval h env dqFor.forCond >>= asBool

theorem dqC_eq (e : Encoding) (H : Heap) (ds : Slice) (s sn si : Nat) (err : Val) (db : Bytes) (dlen : Nat) (j : Nat)
    (v10 v11 v13 : Val) : dqC H (dqEnv e ds s sn si err db dlen j v10 v11 v13) = .ok (decide (j < 4)) := by
  simp only [dqC, dqFor, Stmt.forCond, Stmt.head, Stmt.drop, decodeQuantumIR, dqEnv, skEnv]
  b64_simp []

theorem dqLoop_spec (c : Ctx) (e : Encoding) (hal : e.alphabet.length = 64) (H : Heap) (s : Nat) (src : Buf)
    (hs : H[s]? = some src) (ds : Slice) (hsz : src.size < 2 ^ 62) :
    ∀ (n si j : Nat) (dr : List Nat) (v10 v11 v13 : Val) (fuel : Nat), src.size - si = n → si ≤ src.size →
      dr.length = j → j ≤ 4 → j ≤ si → (∀ x ∈ dr, x < 256) → src.size - si + 1 ≤ fuel →
      DqRel e H ds s src (collect e src si j dr)
        (loop dqC (exec c dqBody) (exec c dqPost) fuel H
          (dqEnv e ds s src.size si (.err none) (arr4 dr.reverse) 4 j v10 v11 v13)) := by
  intro n
  induction n using Nat.strongRecOn with
  | _ n ih =>
    intro si j dr v10 v11 v13 fuel hn hsi hdr hj4 hjs hdig hfuel
    by_cases hj : j = 4
    · -- four digits collected: the loop ends
      subst hj
      rw [collect_done, loop_false _ _ _ _ _ _ (by rw [dqC_eq]; rfl)]
      exact ⟨hsi, hdr, by omega, by omega, by omega, hdig, _, _, _, _, rfl⟩
    · have hjlt : j < 4 := by omega
      obtain ⟨f, rfl⟩ : ∃ f, fuel = f + 1 := ⟨fuel - 1, by omega⟩
      rw [loop_step _ _ _ _ _ _ (by rw [dqC_eq]; simp [hjlt])]
      by_cases hlt : si < src.size
      · -- a character is available
        by_cases hout : e.dec src[si] = 255
        · by_cases hnl : isNL src[si] = true
          · -- newline: skipped
            rw [dqBody_newline c e hal H s src hs ds hsz _ si _ j v10 v11 v13 hlt hjlt hout ((isNL_iff _).1 hnl),
              collect_nl e src si j dr hlt hjlt hout hnl]
            exact ih (src.size - (si + 1)) (by omega) (si + 1) j dr _ _ _ f rfl (by omega) hdr hj4 (by omega) hdig
              (by omega)
          · have hnl' : isNL src[si] = false := by simpa using hnl
            have h10 : ¬ src[si].toNat = 10 := fun h => hnl ((isNL_iff _).2 (Or.inl h))
            have h13 : ¬ src[si].toNat = 13 := fun h => hnl ((isNL_iff _).2 (Or.inr h))
            by_cases hp : some src[si] = e.pad
            · have hp' : (src[si].toNat : Int) = padInt e :=
                Decidable.byContradiction fun h => ((pad_ne_iff e _).2 h) hp
              -- padding
              have hjc : j < 2 ∨ j = 2 ∨ j = 3 := by omega
              rcases hjc with hj2 | rfl | rfl
              · rw [dqBody_pad01 c e hal H s src hs ds hsz _ si _ j v10 v11 v13 hlt hj2 hout h10 h13 hp',
                  collect_pad01 e src si j dr hlt hj2 hout hnl' hp]
                exact ⟨by omega, rfl⟩
              · -- "==" expected
                have hb := skipNL_bounds src (si + 1) (by omega)
                by_cases h2 : skipNL src (si + 1) = src.size
                · rw [dqBody_pad2_short c e hal H s src hs ds hsz _ si _ v10 v11 v13 hlt hout h10 h13 hp' h2,
                    collect_pad2_short e src si dr hlt hout hnl' hp h2]
                  exact ⟨Nat.le_refl _, rfl⟩
                · have hlt2 : skipNL src (si + 1) < src.size := by omega
                  by_cases hp2 : some src[skipNL src (si + 1)] = e.pad
                  · have hp2' : (src[skipNL src (si + 1)].toNat : Int) = padInt e :=
                      Decidable.byContradiction fun h => ((pad_ne_iff e _).2 h) hp2
                    have hb4 := skipNL_bounds src (skipNL src (si + 1) + 1) (by omega)
                    rw [dqBody_pad2 c e hal H s src hs ds hsz _ si _ _ _ v10 v11 v13 hlt hout h10 h13 hp' rfl hlt2 hp2' rfl,
                      collect_pad2_ok e src si dr _ _ hlt hout hnl' hp rfl hlt2 hp2 rfl]
                    exact ⟨hb4.2, hdr, by omega, by omega, by omega, hdig, _, _, _, _, rfl⟩
                  · have hp2' : ¬ (src[skipNL src (si + 1)].toNat : Int) = padInt e :=
                      (pad_ne_iff e src[skipNL src (si + 1)]).1 hp2
                    rw [dqBody_pad2_bad c e hal H s src hs ds hsz _ si _ _ v10 v11 v13 hlt hout h10 h13 hp' rfl hlt2 hp2',
                      collect_pad2_bad e src si dr _ hlt hout hnl' hp rfl hlt2 hp2]
                    exact ⟨by omega, rfl⟩
              · have hb4 := skipNL_bounds src (si + 1) (by omega)
                rw [dqBody_pad3 c e hal H s src hs ds hsz _ si _ _ v10 v11 v13 hlt hout h10 h13 hp' rfl,
                  collect_pad3' e src si dr _ hlt hout hnl' hp rfl]
                exact ⟨hb4.2, hdr, by omega, by omega, by omega, hdig, _, _, _, _, rfl⟩
            · -- neither digit, newline nor padding
              have hp' : ¬ (src[si].toNat : Int) = padInt e := (pad_ne_iff e src[si]).1 hp
              rw [dqBody_bad c e hal H s src hs ds hsz _ si _ j v10 v11 v13 hlt hjlt hout h10 h13 hp',
                collect_badc e src si j dr hlt hjlt hout hnl' hp]
              exact ⟨by omega, rfl⟩
        · -- a digit
          have hr := dec_range e hal src[si]
          rw [dqBody_digit c e hal H s src hs ds hsz _ si _ j v10 v11 v13 hlt hjlt (arr4_length _) hout,
            collect_valid e src si j dr hlt hjlt (by rw [arr_getD_eq hlt]; exact hout), arr_getD_eq hlt]
          have hset : (arr4 dr.reverse).set j (UInt8.ofNat (e.dec src[si])) = arr4 (e.dec src[si] :: dr).reverse := by
            rw [List.reverse_cons, ← arr4_snoc _ _ (by simp; omega)]; simp [hdr]
          rw [hset]
          exact ih (src.size - (si + 1)) (by omega) (si + 1) (j + 1) (e.dec src[si] :: dr) _ _ _ f rfl (by omega)
            (by simp [hdr]) (by omega) (by omega)
            (by intro x hx; simp at hx; rcases hx with rfl | hx; · omega
                exact hdig x hx) (by omega)
      · -- end of input
        have hse : si = src.size := by omega
        subst hse
        by_cases hj0 : j = 0
        · subst hj0
          rw [dqBody_eof0 c e H s src ds hsz, collect_eof0 e src _ dr (Nat.le_refl _)]
          exact ⟨Nat.le_refl _, rfl⟩
        · by_cases hc : j = 1 ∨ e.pad.isSome = true
          · have hc' : j = 1 ∨ ¬ padInt e = -1 := by
              rcases hc with h | h
              · exact Or.inl h
              · right; rw [padInt_eq_neg_one]; cases hh : e.pad <;> simp_all
            rw [dqBody_eof_err c e H s src ds hsz _ _ j v10 v11 v13 hj0 hjlt hjs hc',
              collect_eof_err e src _ j dr (Nat.le_refl _) hj0 hjlt hc]
            exact ⟨Nat.le_refl _, rfl⟩
          · have hj23 : j = 2 ∨ j = 3 := by omega
            have hpn : e.pad = none := by
              cases hh : e.pad with
              | none => rfl
              | some p => exact absurd (Or.inr (by simp [hh])) hc
            have hpi : padInt e = -1 := by simp [padInt, hpn]
            rw [dqBody_eof_ok c e H s src ds hsz _ _ j v10 v11 v13 hj23 hpi,
              collect_eof_ok e src _ j dr (Nat.le_refl _) hj23 hpn]
            exact ⟨Nat.le_refl _, hdr, by omega, by omega, by omega, hdig, _, _, _, _, rfl⟩


end GoCrypt.B64IR
