import GoCrypt.Model.Conc

/-!
# Proofs about the interleaving model (`Model/Conc.lean`)

1. `disciplined_raceFree`: the simple ownership discipline on a trace implies the absence of
   happens-before data races.
2. `inv_exec`: an invariant of the correct protocol (`returnsAlias = false`) relating heap
   ownership flags, the cache, the program counters and the trace; it yields the discipline and the
   per-thread results.
3. Registry lemmas.
-/

namespace GoCrypt.Conc
open GoCrypt.Codec GoCrypt.TypeCache

/-! ## List helpers -/

theorem getElem?_lt {α} {l : List α} {i : Nat} {x : α} (h : l[i]? = some x) : i < l.length := by
  rcases Nat.lt_or_ge i l.length with h' | h'
  · exact h'
  · rw [List.getElem?_eq_none h'] at h; cases h

theorem getElem?_snoc_lt {α} {l : List α} {e : α} {i : Nat} (h : i < l.length) : (l ++ [e])[i]? = l[i]? :=
  List.getElem?_append_left h

theorem getElem?_snoc_cases {α} {l : List α} {e x : α} {i : Nat} (h : (l ++ [e])[i]? = some x) :
    (i < l.length ∧ l[i]? = some x) ∨ (i = l.length ∧ x = e) := by
  rcases Nat.lt_or_ge i l.length with h' | h'
  · left; rw [getElem?_snoc_lt h'] at h; exact ⟨h', h⟩
  · right
    have hlt := getElem?_lt h
    simp at hlt
    have : i = l.length := by omega
    subst this
    simp at h
    exact ⟨rfl, h.symm⟩

theorem mem_of_getElem? {α} {l : List α} {i : Nat} {x : α} (h : l[i]? = some x) : x ∈ l :=
  List.mem_iff_getElem?.2 ⟨i, h⟩

/-! ## Happens-before -/

theorem HB.lt {tr : List Event} {i j : Nat} (h : HB tr i j) : i < j := by
  induction h with
  | po h _ _ _ => exact h
  | sw h _ _ => exact h
  | trans _ _ ih₁ ih₂ => exact Nat.lt_trans ih₁ ih₂

/-- A thread that performs no publication from position `i` on has no happens-before successor in
another thread (used to show the absence of ordering in the defective variant). -/
theorem HB.stays {tr : List Event} {t : Tid} {i : Nat}
    (hnp : ∀ e ∈ tr.drop i, e.tid = t → e.isPublish = false)
    {a b : Nat} (h : HB tr a b) : ∀ ea, i ≤ a → tr[a]? = some ea → ea.tid = t →
      ∀ eb, tr[b]? = some eb → eb.tid = t := by
  induction h with
  | po hlt h₁ h₂ htid =>
    intro ea _ hea ht eb heb
    rw [h₁] at hea; rw [h₂] at heb; cases hea; cases heb; rw [← htid]; exact ht
  | @sw a b t' u o hlt h₁ h₂ =>
    intro ea hia hea ht eb heb
    rw [h₁] at hea; cases hea
    have hmem : Event.publish t' o ∈ tr.drop i := by
      apply List.mem_iff_getElem?.2
      refine ⟨a - i, ?_⟩
      rw [List.getElem?_drop]
      have : i + (a - i) = a := by omega
      rw [this]; exact h₁
    have := hnp _ hmem ht
    simp [Event.isPublish] at this
  | @trans a k b h₁ h₂ ih₁ ih₂ =>
    intro ea hia hea ht eb heb
    have hk := getElem?_lt heb
    have hkb := h₂.lt
    have hak := h₁.lt
    have hklt : k < tr.length := by omega
    have hek : tr[k]? = some tr[k] := List.getElem?_eq_getElem hklt
    have htk := ih₁ ea hia hea ht _ hek
    exact ih₂ _ (by omega) hek htk eb heb

/-! ## Discipline ⇒ race freedom -/

theorem disciplined_raceFree {tr : List Event} (d : Disciplined tr) : RaceFree tr := by
  intro i j ⟨t, u, o, f₁, f₂, k₁, k₂, hij, hi, hj, htu, hw, hnhb⟩
  rcases hw with rfl | rfl
  · -- the earlier access (by `t`) is the write
    have W := d.writeLocal i _ hi rfl
    rcases d.touchVisible j _ hj with h | ⟨p, hpj, hp⟩ | ⟨a, haj, ha⟩
    · exact htu (h i _ hij hi rfl)
    · rcases Nat.lt_trichotomy p i with hlt | heq | hgt
      · have := (W p _ hlt hp rfl).2; simp [Event.isAccess] at this
      · subst heq; rw [hi] at hp; cases hp
      · exact htu (d.publishOwn p _ _ hp i _ hgt hi rfl)
    · rcases Nat.lt_trichotomy a i with hlt | heq | hgt
      · have := (W a _ hlt ha rfl).2; simp [Event.isAccess] at this
      · subst heq; rw [hi] at ha; cases ha
      · obtain ⟨p, t', hpa, hp⟩ := d.acquireAfterPublish a _ _ ha
        rcases Nat.lt_trichotomy p i with hlt | heq | hgt'
        · have := (W p _ hlt hp rfl).2; simp [Event.isAccess] at this
        · subst heq; rw [hi] at hp; cases hp
        · have htt : t = t' := d.publishOwn p _ _ hp i _ hgt' hi rfl
          have haj' : a < j := by
            rcases Nat.lt_or_ge a j with h | h
            · exact h
            · have : a = j := by omega
              subst this; rw [hj] at ha; cases ha
          apply hnhb
          refine HB.trans (HB.po hgt' hi hp ?_) (HB.trans (HB.sw hpa hp ha) (HB.po haj' ha hj rfl))
          simp [Event.tid, htt]
  · -- the later access (by `u`) is the write: nobody else may have touched the object before
    exact htu (d.writeLocal j _ hj rfl i _ hij hi rfl).1

/-- Appending one event preserves the discipline if the event respects it w.r.t. the past. -/
theorem disc_append {tr : List Event} {e : Event} (d : Disciplined tr)
    (hw : e.isWrite = true → ∀ e' ∈ tr, e'.obj = e.obj → e'.tid = e.tid ∧ e'.isAccess = true)
    (hp : ∀ t o, e = .publish t o → ∀ e' ∈ tr, e'.obj = o → e'.tid = t)
    (ha : ∀ u o, e = .acquire u o → ∃ t, Event.publish t o ∈ tr)
    (ht : (∀ e' ∈ tr, e'.obj = e.obj → e'.tid = e.tid) ∨ Event.publish e.tid e.obj ∈ tr ∨
          Event.acquire e.tid e.obj ∈ tr ∨ e = .acquire e.tid e.obj) :
    Disciplined (tr ++ [e]) := by
  constructor
  · intro j x hj hxw i e' hij hi hobj
    rcases getElem?_snoc_cases hj with ⟨hjl, hj'⟩ | ⟨rfl, rfl⟩
    · rw [getElem?_snoc_lt (by omega)] at hi
      exact d.writeLocal j x hj' hxw i e' hij hi hobj
    · rw [getElem?_snoc_lt hij] at hi
      exact hw hxw e' (mem_of_getElem? hi) hobj
  · intro p t o hpp i e' hip hi hobj
    rcases getElem?_snoc_cases hpp with ⟨hpl, hp'⟩ | ⟨rfl, hx⟩
    · rw [getElem?_snoc_lt (by omega)] at hi
      exact d.publishOwn p t o hp' i e' hip hi hobj
    · rw [getElem?_snoc_lt hip] at hi
      exact hp t o hx.symm e' (mem_of_getElem? hi) hobj
  · intro a u o haa
    rcases getElem?_snoc_cases haa with ⟨hal, ha'⟩ | ⟨rfl, hx⟩
    · obtain ⟨p, t, hpa, hpp⟩ := d.acquireAfterPublish a u o ha'
      exact ⟨p, t, hpa, by rw [getElem?_snoc_lt (by omega)]; exact hpp⟩
    · obtain ⟨t, hmem⟩ := ha u o hx.symm
      obtain ⟨p, hpp⟩ := List.mem_iff_getElem?.1 hmem
      have hpl := getElem?_lt hpp
      exact ⟨p, t, hpl, by rw [getElem?_snoc_lt hpl]; exact hpp⟩
  · intro j x hj
    rcases getElem?_snoc_cases hj with ⟨hjl, hj'⟩ | ⟨rfl, rfl⟩
    · rcases d.touchVisible j x hj' with h | ⟨p, hpj, hpp⟩ | ⟨a, haj, haa⟩
      · left; intro i e' hij hi hobj
        rw [getElem?_snoc_lt (by omega)] at hi
        exact h i e' hij hi hobj
      · right; left; exact ⟨p, hpj, by rw [getElem?_snoc_lt (by omega)]; exact hpp⟩
      · right; right; exact ⟨a, haj, by rw [getElem?_snoc_lt (by omega)]; exact haa⟩
    · rcases ht with h | h | h | h
      · left; intro i e' hij hi hobj
        rw [getElem?_snoc_lt hij] at hi
        exact h e' (mem_of_getElem? hi) hobj
      · right; left
        obtain ⟨p, hpp⟩ := List.mem_iff_getElem?.1 h
        have hpl := getElem?_lt hpp
        exact ⟨p, hpl, by rw [getElem?_snoc_lt hpl]; exact hpp⟩
      · right; right
        obtain ⟨a, haa⟩ := List.mem_iff_getElem?.1 h
        have hal := getElem?_lt haa
        exact ⟨a, Nat.le_of_lt hal, by rw [getElem?_snoc_lt hal]; exact haa⟩
      · right; right
        exact ⟨tr.length, Nat.le_refl _, by rw [← h]; simp⟩

theorem disc_nil : Disciplined [] := by
  constructor <;> intros <;> simp at *

/-! ## The invariant of the correct protocol -/

abbrev Compute := TypeKey → Except TagErr TypeInfo

/-- Invariant on the shared part of the state (cache, heap, trace). -/
structure SInv (compute : Compute) (c : TypeKey → Option ObjId) (h : List Obj) (tr : List Event) : Prop where
  evObj : ∀ e ∈ tr, e.obj < h.length
  localObj : ∀ o obj, h[o]? = some obj → obj.published = false →
    ∀ e ∈ tr, e.obj = o → e.tid = obj.owner ∧ e.isAccess = true
  pubObj : ∀ o obj, h[o]? = some obj → obj.published = true → Event.publish obj.owner o ∈ tr
  cachePub : ∀ k o, c k = some o → ∃ obj, h[o]? = some obj ∧ obj.published = true ∧ compute k = .ok obj.info
  disc : Disciplined tr

/-- What a thread's program counter guarantees about the objects it refers to. -/
def PcOK (compute : Compute) (h : List Obj) (tr : List Event) (u : Tid) (th : Thread) : Prop :=
  match th.pc with
  | .start => True
  | .miss => True
  | .filled o => ∃ obj, h[o]? = some obj ∧ obj.owner = u ∧ obj.published = false ∧ compute th.arg.key = .ok obj.info
  | .got o => ∃ obj, h[o]? = some obj ∧ obj.published = true ∧ compute th.arg.key = .ok obj.info ∧
      (obj.owner = u ∨ Event.acquire u o ∈ tr)
  | .copying info _ => compute th.arg.key = .ok info
  | .copied o => ∃ obj, h[o]? = some obj ∧ obj.owner = u ∧ obj.published = false ∧ compute th.arg.key = .ok obj.info
  | .doneOk o => ∃ obj, h[o]? = some obj ∧ obj.owner = u ∧ obj.published = false ∧
      compute th.arg.key = .ok obj.info ∧ obj.structField = th.arg
  | .doneErr e => compute th.arg.key = .error e

structure Inv (compute : Compute) (st : State) : Prop where
  shared : SInv compute st.cache st.heap st.trace
  pcs : ∀ u th, st.threads[u]? = some th → PcOK compute st.heap st.trace u th

/-- Frame: a step of thread `u` that leaves every object not local to `u` unchanged and only
extends the trace preserves what other threads know. -/
theorem PcOK.frame {compute : Compute} {h h' : List Obj} {tr tr' : List Event} {u v : Tid} {th : Thread}
    (hh : ∀ (o : ObjId) (obj : Obj), h[o]? = some obj → (obj.owner ≠ u ∨ obj.published = true) → h'[o]? = some obj)
    (ht : ∀ e ∈ tr, e ∈ tr') (hvu : v ≠ u) (hpc : PcOK compute h tr v th) : PcOK compute h' tr' v th := by
  unfold PcOK at *
  split <;> simp_all only []
  · obtain ⟨obj, h₁, h₂, h₃, h₄⟩ := hpc
    exact ⟨obj, hh _ _ h₁ (Or.inl (by rw [h₂]; exact hvu)), h₂, h₃, h₄⟩
  · obtain ⟨obj, h₁, h₂, h₃, h₄⟩ := hpc
    refine ⟨obj, hh _ _ h₁ (Or.inr h₂), h₂, h₃, ?_⟩
    rcases h₄ with h₄ | h₄
    · exact Or.inl h₄
    · exact Or.inr (ht _ h₄)
  · obtain ⟨obj, h₁, h₂, h₃, h₄⟩ := hpc
    exact ⟨obj, hh _ _ h₁ (Or.inl (by rw [h₂]; exact hvu)), h₂, h₃, h₄⟩
  · obtain ⟨obj, h₁, h₂, h₃, h₄⟩ := hpc
    exact ⟨obj, hh _ _ h₁ (Or.inl (by rw [h₂]; exact hvu)), h₂, h₃, h₄⟩

/-- Threads after one thread's pc update. -/
theorem pcs_set {compute : Compute} {h h' : List Obj} {tr tr' : List Event} {ths : List Thread} {u : Tid}
    {th' : Thread}
    (hpcs : ∀ v th, ths[v]? = some th → PcOK compute h tr v th)
    (hh : ∀ (o : ObjId) (obj : Obj), h[o]? = some obj → (obj.owner ≠ u ∨ obj.published = true) → h'[o]? = some obj)
    (ht : ∀ e ∈ tr, e ∈ tr')
    (hu : PcOK compute h' tr' u th') :
    ∀ v th, (ths.set u th')[v]? = some th → PcOK compute h' tr' v th := by
  intro v th hv
  rw [List.getElem?_set] at hv
  by_cases huv : u = v
  · subst huv
    simp only [if_true] at hv
    split at hv
    · cases hv; exact hu
    · cases hv
  · simp only [huv, if_false] at hv
    exact PcOK.frame hh ht (fun h => huv h.symm) (hpcs v th hv)

/-! ### Shared-state preservation lemmas, one per kind of step -/

/-- An event (read or acquire) on a published object. -/
theorem SInv.emitPub {compute : Compute} {c h tr} {e : Event} {obj : Obj} (s : SInv compute c h tr)
    (ho : h[e.obj]? = some obj) (hpub : obj.published = true)
    (hnw : e.isWrite = false) (hnp : e.isPublish = false)
    (hvis : obj.owner = e.tid ∨ Event.acquire e.tid e.obj ∈ tr ∨ e = .acquire e.tid e.obj) :
    SInv compute c h (tr ++ [e]) := by
  constructor
  · intro x hx
    rcases List.mem_append.1 hx with hx | hx
    · exact s.evObj x hx
    · simp at hx; subst hx; exact getElem?_lt ho
  · intro o obj' ho' hloc x hx hxo
    rcases List.mem_append.1 hx with hx | hx
    · exact s.localObj o obj' ho' hloc x hx hxo
    · simp at hx; subst hx; subst hxo
      rw [ho] at ho'; cases ho'; rw [hpub] at hloc; cases hloc
  · intro o obj' ho' hp
    exact List.mem_append_left _ (s.pubObj o obj' ho' hp)
  · exact s.cachePub
  · apply disc_append s.disc
    · intro hw; rw [hnw] at hw; cases hw
    · intro t o he; subst he; simp [Event.isPublish] at hnp
    · intro u o he; subst he
      exact ⟨obj.owner, s.pubObj _ _ ho hpub⟩
    · rcases hvis with hv | hv | hv
      · right; left; rw [← hv]; exact s.pubObj _ _ ho hpub
      · right; right; left; exact hv
      · right; right; right; exact hv

/-- Allocation and initialisation of a fresh thread-local object. -/
theorem SInv.alloc {compute : Compute} {c h tr} (s : SInv compute c h tr) (info : TypeInfo) (sf : ArgType) (u : Tid) :
    SInv compute c (h ++ [{ info := info, structField := sf, owner := u, published := false }])
      (tr ++ [.access u h.length .all .write]) := by
  have fresh : ∀ e ∈ tr, e.obj ≠ h.length := fun e he => Nat.ne_of_lt (s.evObj e he)
  constructor
  · intro x hx
    rcases List.mem_append.1 hx with hx | hx
    · have := s.evObj x hx; simp; exact Nat.lt_succ_of_lt this
    · simp at hx; subst hx; simp [Event.obj]
  · intro o obj' ho' hloc x hx hxo
    rcases getElem?_snoc_cases ho' with ⟨hol, ho''⟩ | ⟨rfl, rfl⟩
    · rcases List.mem_append.1 hx with hx | hx
      · exact s.localObj o obj' ho'' hloc x hx hxo
      · simp at hx; subst hx; simp [Event.obj] at hxo; exact absurd hxo (Nat.ne_of_gt hol)
    · rcases List.mem_append.1 hx with hx | hx
      · exact absurd hxo (fresh x hx)
      · simp at hx; subst hx; simp [Event.tid, Event.isAccess]
  · intro o obj' ho' hp
    rcases getElem?_snoc_cases ho' with ⟨hol, ho''⟩ | ⟨rfl, rfl⟩
    · exact List.mem_append_left _ (s.pubObj o obj' ho'' hp)
    · cases hp
  · intro k o hk
    obtain ⟨obj, h₁, h₂, h₃⟩ := s.cachePub k o hk
    exact ⟨obj, by rw [getElem?_snoc_lt (getElem?_lt h₁)]; exact h₁, h₂, h₃⟩
  · apply disc_append s.disc
    · intro _ e' he' hobj; exact absurd hobj (fresh e' he')
    · intro t o he; cases he
    · intro t o he; cases he
    · left; intro e' he' hobj; exact absurd hobj (fresh e' he')

theorem getElem?_modify_ne {α} {l : List α} {f : α → α} {i j : Nat} (h : i ≠ j) : (l.modify i f)[j]? = l[j]? := by
  rw [List.getElem?_modify]; simp [h]

theorem getElem?_modify_eq {α} {l : List α} {f : α → α} {i : Nat} {x : α} (h : l[i]? = some x) :
    (l.modify i f)[i]? = some (f x) := by
  rw [List.getElem?_modify]; simp [h]

/-- Publication of a thread-local object by its owner (`LoadOrStore` that stores). -/
theorem SInv.publish {compute : Compute} {c h tr} (s : SInv compute c h tr) {o : ObjId} {obj : Obj} {u : Tid}
    {key : TypeKey} (ho : h[o]? = some obj) (hown : obj.owner = u) (hloc : obj.published = false)
    (hcomp : compute key = .ok obj.info) :
    SInv compute (fun k => if k = key then some o else c k)
      (h.modify o fun x => { x with published := true }) (tr ++ [.publish u o]) := by
  constructor
  · intro x hx
    rw [List.length_modify]
    rcases List.mem_append.1 hx with hx | hx
    · exact s.evObj x hx
    · simp at hx; subst hx; exact getElem?_lt ho
  · intro o' obj' ho' hloc' x hx hxo
    by_cases hoo : o = o'
    · subst hoo; rw [getElem?_modify_eq ho] at ho'; cases ho'; cases hloc'
    · rw [getElem?_modify_ne hoo] at ho'
      rcases List.mem_append.1 hx with hx | hx
      · exact s.localObj o' obj' ho' hloc' x hx hxo
      · simp at hx; subst hx; exact absurd hxo hoo
  · intro o' obj' ho' hp
    by_cases hoo : o = o'
    · subst hoo; rw [getElem?_modify_eq ho] at ho'; cases ho'
      simp [hown]
    · rw [getElem?_modify_ne hoo] at ho'
      exact List.mem_append_left _ (s.pubObj o' obj' ho' hp)
  · intro k o' hk
    by_cases hkk : k = key
    · subst hkk; simp at hk; subst hk
      exact ⟨_, getElem?_modify_eq ho, rfl, hcomp⟩
    · simp [hkk] at hk
      obtain ⟨obj', h₁, h₂, h₃⟩ := s.cachePub k o' hk
      have hoo : o ≠ o' := by
        intro heq; subst heq; rw [ho] at h₁; cases h₁; rw [hloc] at h₂; cases h₂
      exact ⟨obj', by rw [getElem?_modify_ne hoo]; exact h₁, h₂, h₃⟩
  · apply disc_append s.disc
    · intro hw; cases hw
    · intro t o' he e' he' hobj; cases he
      rw [← hown]; exact (s.localObj o obj ho hloc e' he' hobj).1
    · intro t o' he; cases he
    · left; intro e' he' hobj
      rw [show (Event.publish u o).tid = obj.owner from hown.symm]
      exact (s.localObj o obj ho hloc e' he' hobj).1

/-- Plain write of `Struct` on a thread-local object by its owner. -/
theorem SInv.writeStruct {compute : Compute} {c h tr} (s : SInv compute c h tr) {o : ObjId} {obj : Obj} {u : Tid}
    (sf : ArgType) (ho : h[o]? = some obj) (hown : obj.owner = u) (hloc : obj.published = false) :
    SInv compute c (h.modify o fun x => { x with structField := sf })
      (tr ++ [.access u o .structField .write]) := by
  constructor
  · intro x hx
    rw [List.length_modify]
    rcases List.mem_append.1 hx with hx | hx
    · exact s.evObj x hx
    · simp at hx; subst hx; exact getElem?_lt ho
  · intro o' obj' ho' hloc' x hx hxo
    by_cases hoo : o = o'
    · subst hoo; rw [getElem?_modify_eq ho] at ho'; cases ho'
      rcases List.mem_append.1 hx with hx | hx
      · exact s.localObj o obj ho hloc x hx hxo
      · simp at hx; subst hx; simp [Event.tid, Event.isAccess, hown]
    · rw [getElem?_modify_ne hoo] at ho'
      rcases List.mem_append.1 hx with hx | hx
      · exact s.localObj o' obj' ho' hloc' x hx hxo
      · simp at hx; subst hx; exact absurd hxo hoo
  · intro o' obj' ho' hp
    by_cases hoo : o = o'
    · subst hoo; rw [getElem?_modify_eq ho] at ho'; cases ho'
      simp [hloc] at hp
    · rw [getElem?_modify_ne hoo] at ho'
      exact List.mem_append_left _ (s.pubObj o' obj' ho' hp)
  · intro k o' hk
    obtain ⟨obj', h₁, h₂, h₃⟩ := s.cachePub k o' hk
    have hoo : o ≠ o' := by
      intro heq; subst heq; rw [ho] at h₁; cases h₁; rw [hloc] at h₂; cases h₂
    exact ⟨obj', by rw [getElem?_modify_ne hoo]; exact h₁, h₂, h₃⟩
  · apply disc_append s.disc
    · intro _ e' he' hobj
      rw [show (Event.access u o .structField .write).tid = obj.owner from hown.symm]
      exact s.localObj o obj ho hloc e' he' hobj
    · intro t o' he; cases he
    · intro t o' he; cases he
    · left; intro e' he' hobj
      rw [show (Event.access u o .structField .write).tid = obj.owner from hown.symm]
      exact (s.localObj o obj ho hloc e' he' hobj).1

/-! ### Every step of the correct protocol preserves the invariant -/

theorem inv_init (compute : Compute) (args : List ArgType) : Inv compute (init args) := by
  refine ⟨⟨?_, ?_, ?_, ?_, disc_nil⟩, ?_⟩
  · intro e he; simp [init] at he
  · intro o obj ho; simp [init] at ho
  · intro o obj ho; simp [init] at ho
  · intro k o hk; simp [init] at hk
  · intro u th hu
    simp only [init, List.getElem?_map] at hu
    cases ha : args[u]? with
    | none => simp [ha] at hu
    | some a => simp [ha] at hu; subst hu; simp [PcOK]

theorem inv_step {compute : Compute} {st : State} (u : Tid) (I : Inv compute st) :
    Inv compute (step false compute st u) := by
  unfold step
  cases hth : st.threads[u]? with
  | none => exact I
  | some th =>
    have hpc := I.pcs u th hth
    have same : ∀ (o : ObjId) (obj : Obj), st.heap[o]? = some obj → (obj.owner ≠ u ∨ obj.published = true) →
        st.heap[o]? = some obj := fun _ _ h _ => h
    simp only []
    cases hp : th.pc with
    | start =>
      simp only []
      cases hc : st.cache th.arg.key with
      | none =>
        exact ⟨I.shared, pcs_set I.pcs same (fun _ h => h) (by simp [PcOK])⟩
      | some o =>
        obtain ⟨obj, h₁, h₂, h₃⟩ := I.shared.cachePub _ _ hc
        refine ⟨I.shared.emitPub (e := .acquire u o) h₁ h₂ rfl rfl (Or.inr (Or.inr rfl)),
          pcs_set I.pcs same (fun _ h => List.mem_append_left _ h) ?_⟩
        simp only [PcOK]
        exact ⟨obj, h₁, h₂, h₃, Or.inr (by simp)⟩
    | miss =>
      simp only []
      cases hc : compute th.arg.key with
      | error e =>
        exact ⟨I.shared, pcs_set I.pcs same (fun _ h => h) (by simp [PcOK, hc])⟩
      | ok info =>
        refine ⟨I.shared.alloc info th.arg u, pcs_set I.pcs ?_ (fun _ h => List.mem_append_left _ h) ?_⟩
        · intro o obj ho _; rw [getElem?_snoc_lt (getElem?_lt ho)]; exact ho
        · simp only [PcOK]
          exact ⟨_, List.getElem?_concat_length, rfl, rfl, hc⟩
    | filled o =>
      simp only [PcOK, hp] at hpc
      obtain ⟨obj, h₁, h₂, h₃, h₄⟩ := hpc
      simp only []
      cases hc : st.cache th.arg.key with
      | some w =>
        obtain ⟨objw, w₁, w₂, w₃⟩ := I.shared.cachePub _ _ hc
        refine ⟨I.shared.emitPub (e := .acquire u w) w₁ w₂ rfl rfl (Or.inr (Or.inr rfl)),
          pcs_set I.pcs same (fun _ h => List.mem_append_left _ h) ?_⟩
        simp only [PcOK]
        exact ⟨objw, w₁, w₂, w₃, Or.inr (by simp)⟩
      | none =>
        refine ⟨I.shared.publish h₁ h₂ h₃ h₄, pcs_set I.pcs ?_ (fun _ h => List.mem_append_left _ h) ?_⟩
        · intro o' obj' ho' hcond
          have hoo : o ≠ o' := by
            intro heq; subst heq; rw [h₁] at ho'; cases ho'
            rcases hcond with hc' | hc'
            · exact hc' h₂
            · rw [h₃] at hc'; cases hc'
          rw [getElem?_modify_ne hoo]; exact ho'
        · simp only [PcOK]
          exact ⟨_, getElem?_modify_eq h₁, rfl, h₄, Or.inl h₂⟩
    | got o =>
      simp only [PcOK, hp] at hpc
      obtain ⟨obj, h₁, h₂, h₃, h₄⟩ := hpc
      simp only [Bool.false_eq_true, if_false, h₁]
      refine ⟨I.shared.emitPub (e := .access u o .all .read) h₁ h₂ rfl rfl ?_,
        pcs_set I.pcs same (fun _ h => List.mem_append_left _ h) ?_⟩
      · rcases h₄ with h₄ | h₄
        · exact Or.inl h₄
        · exact Or.inr (Or.inl h₄)
      · simp only [PcOK]; exact h₃
    | copying info s =>
      simp only [PcOK, hp] at hpc
      simp only []
      refine ⟨I.shared.alloc info s u, pcs_set I.pcs ?_ (fun _ h => List.mem_append_left _ h) ?_⟩
      · intro o obj ho _; rw [getElem?_snoc_lt (getElem?_lt ho)]; exact ho
      · simp only [PcOK]
        exact ⟨_, List.getElem?_concat_length, rfl, rfl, hpc⟩
    | copied o =>
      simp only [PcOK, hp] at hpc
      obtain ⟨obj, h₁, h₂, h₃, h₄⟩ := hpc
      simp only []
      refine ⟨I.shared.writeStruct th.arg h₁ h₂ h₃, pcs_set I.pcs ?_ (fun _ h => List.mem_append_left _ h) ?_⟩
      · intro o' obj' ho' hcond
        have hoo : o ≠ o' := by
          intro heq; subst heq; rw [h₁] at ho'; cases ho'
          rcases hcond with hc' | hc'
          · exact hc' h₂
          · rw [h₃] at hc'; cases hc'
        rw [getElem?_modify_ne hoo]; exact ho'
      · simp only [PcOK]
        exact ⟨_, getElem?_modify_eq h₁, h₂, h₃, h₄, rfl⟩
    | doneOk o => exact I
    | doneErr e => exact I

theorem inv_exec {compute : Compute} (sched : List Tid) {st : State} (I : Inv compute st) :
    Inv compute (exec false compute st sched) := by
  induction sched generalizing st with
  | nil => exact I
  | cons t ts ih => exact ih (inv_step t I)

theorem inv_run (compute : Compute) (args : List ArgType) (sched : List Tid) :
    Inv compute (run false compute args sched) :=
  inv_exec sched (inv_init compute args)

/-! ### Thread arguments never change -/

theorem step_args (ra : Bool) (compute : Compute) (st : State) (u : Tid) :
    (step ra compute st u).threads.map (·.arg) = st.threads.map (·.arg) := by
  have key : ∀ (th : Thread) (pc : Pc), st.threads[u]? = some th →
      (st.threads.set u { th with pc := pc }).map (·.arg) = st.threads.map (·.arg) := by
    intro th pc hth
    apply List.ext_getElem?
    intro i
    simp only [List.getElem?_map, List.getElem?_set]
    by_cases hui : u = i
    · subst hui
      obtain ⟨hl, heq⟩ := List.getElem?_eq_some_iff.1 hth
      simp [hl, heq]
    · simp [hui]
  unfold step
  cases hth : st.threads[u]? with
  | none => rfl
  | some th =>
    simp only []
    split
    · split <;> exact key th _ hth
    · split <;> exact key th _ hth
    · split <;> exact key th _ hth
    · split
      · exact key th _ hth
      · split
        · rfl
        · exact key th _ hth
    · exact key th _ hth
    · exact key th _ hth
    · rfl
    · rfl

theorem exec_args (ra : Bool) (compute : Compute) (sched : List Tid) (st : State) :
    (exec ra compute st sched).threads.map (·.arg) = st.threads.map (·.arg) := by
  induction sched generalizing st with
  | nil => rfl
  | cons t ts ih => rw [exec, ih, step_args]

theorem run_arg {ra : Bool} {compute : Compute} {args : List ArgType} {sched : List Tid} {u : Tid} {th : Thread}
    (h : (run ra compute args sched).threads[u]? = some th) : args[u]? = some th.arg := by
  have := exec_args ra compute sched (init args)
  have h2 : ((run ra compute args sched).threads.map (·.arg))[u]? = some th.arg := by
    rw [List.getElem?_map, h]; rfl
  rw [run, this] at h2
  simpa [init, List.map_map, Function.comp_def] using h2

/-! ### State-level form of the ownership discipline -/

theorem trace_ne_snoc {tr : List Event} {e : Event} : tr ≠ tr ++ [e] := by
  intro h
  have := congrArg List.length h
  simp at this

/-- Every plain write performed by a step of the correct protocol is performed by the stepping
thread on an object that is (before the step, if it already exists, and after the step)
unpublished and owned by that thread. -/
theorem step_write_local {compute : Compute} {st : State} (u : Tid) (I : Inv compute st) (e : Event)
    (htr : (step false compute st u).trace = st.trace ++ [e]) (hw : e.isWrite = true) :
    e.tid = u ∧
    (∀ obj, st.heap[e.obj]? = some obj → obj.owner = u ∧ obj.published = false) ∧
    (∃ obj, (step false compute st u).heap[e.obj]? = some obj ∧ obj.owner = u ∧ obj.published = false) := by
  have I' := inv_step u I
  revert htr I'
  unfold step
  cases hth : st.threads[u]? with
  | none => intro htr; exact absurd htr trace_ne_snoc
  | some th =>
    have hpc := I.pcs u th hth
    simp only []
    cases hp : th.pc with
    | start =>
      simp only []
      cases hc : st.cache th.arg.key with
      | none => intro htr; exact absurd htr trace_ne_snoc
      | some o =>
        intro htr; simp at htr; subst htr; cases hw
    | miss =>
      simp only []
      cases hc : compute th.arg.key with
      | error e' => intro htr; exact absurd htr trace_ne_snoc
      | ok info =>
        intro htr _; simp at htr; subst htr
        refine ⟨rfl, ?_, ⟨_, List.getElem?_concat_length, rfl, rfl⟩⟩
        intro obj ho; have := getElem?_lt ho; simp [Event.obj] at this
    | filled o =>
      simp only []
      cases hc : st.cache th.arg.key with
      | some w => intro htr; simp at htr; subst htr; cases hw
      | none => intro htr; simp at htr; subst htr; cases hw
    | got o =>
      simp only [PcOK, hp] at hpc
      obtain ⟨obj, h₁, h₂, h₃, h₄⟩ := hpc
      simp only [Bool.false_eq_true, if_false, h₁]
      intro htr; simp at htr; subst htr; cases hw
    | copying info s =>
      simp only []
      intro htr _; simp at htr; subst htr
      refine ⟨rfl, ?_, ⟨_, List.getElem?_concat_length, rfl, rfl⟩⟩
      intro obj ho; have := getElem?_lt ho; simp [Event.obj] at this
    | copied o =>
      simp only [PcOK, hp] at hpc
      obtain ⟨obj, h₁, h₂, h₃, h₄⟩ := hpc
      simp only []
      intro htr _; simp at htr; subst htr
      refine ⟨rfl, ?_, ⟨_, getElem?_modify_eq h₁, h₂, h₃⟩⟩
      intro obj' ho'; simp only [Event.obj] at ho'; rw [h₁] at ho'; cases ho'; exact ⟨h₂, h₃⟩
    | doneOk o => intro htr; exact absurd htr trace_ne_snoc
    | doneErr e' => intro htr; exact absurd htr trace_ne_snoc

/-- Trace-level corollary of the discipline: after its publication an object is never written. -/
theorem Disciplined.published_never_written {tr : List Event} (d : Disciplined tr) {p j : Nat} {t : Tid} {o : ObjId}
    {e : Event} (hp : tr[p]? = some (.publish t o)) (hj : tr[j]? = some e) (hpj : p < j) (ho : e.obj = o) :
    e.isWrite = false := by
  cases hw : e.isWrite with
  | false => rfl
  | true =>
    have := (d.writeLocal j e hj hw p _ hpj hp ho.symm).2
    simp [Event.isAccess] at this

/-! ### Results -/

theorem result_of_inv {compute : Compute} {st : State} (I : Inv compute st) {u : Tid} {r : Except TagErr Result}
    (h : result st u = some r) :
    ∃ th, st.threads[u]? = some th ∧ th.pc.isDone = true ∧
      r = (compute th.arg.key).map (fun ti => ⟨ti, th.arg⟩) := by
  unfold result at h
  cases hth : st.threads[u]? with
  | none => simp [hth] at h
  | some th =>
    have hpc := I.pcs u th hth
    refine ⟨th, rfl, ?_⟩
    simp only [hth] at h
    cases hp : th.pc with
    | doneErr e =>
      simp only [PcOK, hp] at hpc h
      cases h
      exact ⟨rfl, by rw [hpc]; rfl⟩
    | doneOk o =>
      simp only [PcOK, hp] at hpc h
      obtain ⟨obj, h₁, h₂, h₃, h₄, h₅⟩ := hpc
      simp only [h₁, Option.map_some] at h
      cases h
      exact ⟨rfl, by rw [h₄, h₅]; rfl⟩
    | start => simp [hp] at h
    | miss => simp [hp] at h
    | filled o => simp [hp] at h
    | got o => simp [hp] at h
    | copying a b => simp [hp] at h
    | copied o => simp [hp] at h

/-- A finished thread's result is defined (its returned pointer is valid). -/
theorem result_isSome_of_done {compute : Compute} {st : State} (I : Inv compute st) {u : Tid} {th : Thread}
    (hth : st.threads[u]? = some th) (hd : th.pc.isDone = true) : (result st u).isSome = true := by
  have hpc := I.pcs u th hth
  unfold result
  simp only [hth]
  cases hp : th.pc with
  | doneErr e => simp
  | doneOk o =>
    simp only [PcOK, hp] at hpc
    obtain ⟨obj, h₁, _⟩ := hpc
    simp [h₁]
  | start => simp [hp, Pc.isDone] at hd
  | miss => simp [hp, Pc.isDone] at hd
  | filled o => simp [hp, Pc.isDone] at hd
  | got o => simp [hp, Pc.isDone] at hd
  | copying a b => simp [hp, Pc.isDone] at hd
  | copied o => simp [hp, Pc.isDone] at hd

/-! ### Wait-freedom: a call finishes after at most six of its own steps -/

def Pc.fuel : Pc → Nat
  | .start => 6
  | .miss => 5
  | .filled _ => 4
  | .got _ => 3
  | .copying _ _ => 2
  | .copied _ => 1
  | .doneOk _ => 0
  | .doneErr _ => 0

theorem fuel_zero_done {pc : Pc} (h : pc.fuel = 0) : pc.isDone = true := by
  cases pc <;> simp [Pc.fuel] at h <;> rfl

theorem getElem?_set_self' {α} {l : List α} {i : Nat} {x y : α} (h : l[i]? = some x) : (l.set i y)[i]? = some y := by
  rw [List.getElem?_set]; simp [getElem?_lt h]

theorem step_fuel_self {compute : Compute} {st : State} (u : Tid) (I : Inv compute st) {th : Thread}
    (hth : st.threads[u]? = some th) :
    ∃ th', (step false compute st u).threads[u]? = some th' ∧ th'.pc.fuel ≤ th.pc.fuel - 1 := by
  have hpc := I.pcs u th hth
  unfold step
  simp only [hth]
  cases hp : th.pc with
  | start =>
    simp only []
    cases hc : st.cache th.arg.key with
    | none => exact ⟨_, getElem?_set_self' hth, by simp [Pc.fuel]⟩
    | some o => exact ⟨_, getElem?_set_self' hth, by simp [Pc.fuel]⟩
  | miss =>
    simp only []
    cases hc : compute th.arg.key with
    | error e => exact ⟨_, getElem?_set_self' hth, by simp [Pc.fuel]⟩
    | ok info => exact ⟨_, getElem?_set_self' hth, by simp [Pc.fuel]⟩
  | filled o =>
    simp only []
    cases hc : st.cache th.arg.key with
    | none => exact ⟨_, getElem?_set_self' hth, by simp [Pc.fuel]⟩
    | some w => exact ⟨_, getElem?_set_self' hth, by simp [Pc.fuel]⟩
  | got o =>
    simp only [PcOK, hp] at hpc
    obtain ⟨obj, h₁, _⟩ := hpc
    simp only [Bool.false_eq_true, if_false, h₁]
    exact ⟨_, getElem?_set_self' hth, by simp [Pc.fuel]⟩
  | copying a b => exact ⟨_, getElem?_set_self' hth, by simp [Pc.fuel]⟩
  | copied o => exact ⟨_, getElem?_set_self' hth, by simp [Pc.fuel]⟩
  | doneOk o => exact ⟨th, hth, by simp [hp, Pc.fuel]⟩
  | doneErr e => exact ⟨th, hth, by simp [hp, Pc.fuel]⟩

theorem step_pc_other (ra : Bool) (compute : Compute) (st : State) {u v : Tid} (huv : u ≠ v) :
    (step ra compute st u).threads[v]? = st.threads[v]? := by
  have key : ∀ (th' : Thread), (st.threads.set u th')[v]? = st.threads[v]? := by
    intro th'; rw [List.getElem?_set]; simp [huv]
  unfold step
  cases hth : st.threads[u]? with
  | none => rfl
  | some th =>
    simp only []
    split
    · split <;> exact key _
    · split <;> exact key _
    · split <;> exact key _
    · split
      · exact key _
      · split
        · rfl
        · exact key _
    · exact key _
    · exact key _
    · rfl
    · rfl

theorem exec_fuel {compute : Compute} (sched : List Tid) {st : State} (I : Inv compute st) {u : Tid} {th : Thread}
    (hth : st.threads[u]? = some th) :
    ∃ th', (exec false compute st sched).threads[u]? = some th' ∧ th'.pc.fuel ≤ th.pc.fuel - sched.count u := by
  induction sched generalizing st th with
  | nil => exact ⟨th, hth, by simp⟩
  | cons t ts ih =>
    by_cases htu : t = u
    · subst htu
      obtain ⟨th₁, h₁, hf₁⟩ := step_fuel_self t I hth
      obtain ⟨th₂, h₂, hf₂⟩ := ih (inv_step t I) h₁
      refine ⟨th₂, h₂, ?_⟩
      simp only [List.count_cons_self]
      omega
    · have h₁ : (step false compute st t).threads[u]? = some th := by
        rw [step_pc_other false compute st htu]; exact hth
      obtain ⟨th₂, h₂, hf₂⟩ := ih (inv_step t I) h₁
      refine ⟨th₂, h₂, ?_⟩
      rw [List.count_cons_of_ne htu]
      exact hf₂

/-! ## Registry -/

open GoCrypt.Dispatch in
theorem regExec_append {α} (r : Registry α) (a b : List (RegOp α)) :
    regExec r (a ++ b) = regExec (regExec r a) b := by
  induction a generalizing r with
  | nil => rfl
  | cons op ops ih => cases op <;> simp [regExec, ih]

open GoCrypt.Dispatch in
/-- A lookup after a schedule returns only what was in the initial registry or was stored for that
very key by some operation of the schedule. -/
theorem lookup_regExec {α} (r : Registry α) (ops : List (RegOp α)) (p : Bytes) (f : α)
    (h : lookup (regExec r ops) p = some f) :
    lookup r p = some f ∨ ∃ (j : Nat) (tid : Tid), ops[j]? = some (RegOp.store tid p f) := by
  induction ops generalizing r with
  | nil => exact Or.inl h
  | cons op ops ih =>
    cases op with
    | load t q =>
      rcases ih r h with h' | ⟨j, tid, hj⟩
      · exact Or.inl h'
      · exact Or.inr ⟨j + 1, tid, by simpa using hj⟩
    | store t q g =>
      rcases ih (register r q g) h with h' | ⟨j, tid, hj⟩
      · simp only [register, lookup] at h'
        by_cases hq : q = p
        · subst hq; simp at h'; subst h'
          exact Or.inr ⟨0, t, rfl⟩
        · simp [hq] at h'; exact Or.inl h'
      · exact Or.inr ⟨j + 1, tid, by simpa using hj⟩

open GoCrypt.Dispatch in
/-- Operations that do not store to `p` do not change what `p` maps to. -/
theorem lookup_regExec_noStore {α} (r : Registry α) (ops : List (RegOp α)) (p : Bytes)
    (h : ∀ op ∈ ops, ∀ t g, op ≠ RegOp.store t p g) : lookup (regExec r ops) p = lookup r p := by
  induction ops generalizing r with
  | nil => rfl
  | cons op ops ih =>
    have hrest : ∀ op' ∈ ops, ∀ t g, op' ≠ RegOp.store t p g := fun op' h' => h op' (List.mem_cons_of_mem _ h')
    cases op with
    | load t q => exact ih r hrest
    | store t q g =>
      simp only [regExec]
      rw [ih _ hrest]
      have hq : q ≠ p := by
        intro heq; subst heq; exact h _ List.mem_cons_self t g rfl
      simp [register, lookup, hq]

end GoCrypt.Conc
