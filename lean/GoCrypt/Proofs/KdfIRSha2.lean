import GoCrypt.Proofs.KdfIRMd5
import GoCrypt.Proofs.Kdf

/-!
# Hash-transcript IR: `sha2crypt.Encrypt` = the hand model `sha2cryptEncrypt`

One induction per loop of the regenerated program (`shaFill`, `shaBits`, the two `repeatBytes`
loops, `shaRounds`), symbolic execution in between; `duplicate` is a call (see `KdfIRProcs`).
Helper lemmas only; the property theorems are `KdfIR.sha2crypt_ir_eq_model` and
`KdfIR.sha2crypt_ir_unsupported_hash`.
-/

namespace GoCrypt.HashIR
open GoCrypt.Kdf

/-- What `sha2crypt.Encrypt` needs from its context: the meaning of the functions it calls. -/
structure Sha2Calls (c : Ctx) : Prop where
  newHash : ∀ hid l, c.call "sha2crypt.newHash" [hid, .list l] = .ok (.hash l.flatten)
  sum : ∀ hid l, c.call "sha2crypt.sum" [hid, .list l] = .ok (.bytes (c.H l.flatten))
  dup : ∀ hid b (n : Nat), c.call "sha2crypt.duplicate" [hid, .bytes b, .int n] = ofModel (duplicate c.size b (n + 1) n)
  permute : ∀ b t, c.call "cryptoutil.Permute" [.bytes b, .bytes t] = ofModel (permute b (t.map (·.toNat)))

/-! ## Loop 1: `for i = len(password); i > h.Size(); i -= h.Size() { ha.Write(db) }; ha.Write(db[:i])` -/

def shaFillCond (c : Ctx) : Env → Res Bool := fun st => eval c st (.bin .gt (.var "i") .hsize) >>= asBool
def shaFillStep (c : Ctx) : Env → Res Env := fun st =>
  exec c (.write "ha" (.var "db")) st >>= exec c (.assign "i" (.bin .sub (.var "i") .hsize))
def shaFillTail (c : Ctx) : Env → Res Env := fun st =>
  exec c (.write "ha" (.slice (.var "db") (.int 0) (.var "i"))) st

theorem sha_fill_exit (c : Ctx) (db : Bytes) (F m i : Nat) (acc : Bytes) (st : Env) (hle : i ≤ c.size)
    (hh : st "ha" = some (.hash acc)) (hd : st "db" = some (.bytes db)) (hi : st "i" = some (.int i)) :
    ∃ j : Int, (iter (shaFillCond c) (shaFillStep c) F st >>= shaFillTail c) =
      match shaFill c.size db m i with
      | some fill => .ok ((st.set "ha" (.hash (acc ++ fill))).set "i" (.int j))
      | none => .panic := by
  refine ⟨i, ?_⟩
  have hcond : shaFillCond c st = .ok false := by
    simp [shaFillCond, eval, lookup_some hi, evalBin]; omega
  rw [iter_false _ _ _ _ hcond, ok_bind]
  have hmod : shaFill c.size db m i = sliceTo db i := by
    cases m <;> simp [shaFill]; omega
  rw [hmod]
  have hsl : eval c st (.slice (.var "db") (.int 0) (.var "i")) =
      match sliceTo db i with | some x => .ok (.bytes x) | none => .panic := by
    simp only [eval, lookup_some hd, lookup_some hi, ok_bind, asBytes_bytes, asInt_int]
    exact sliceOf_zero db i
  cases hs : sliceTo db i with
  | none => rw [hs] at hsl; exact exec_write_panic c st "ha" _ acc hh hsl
  | some x =>
    rw [hs] at hsl
    simp only [shaFillTail, exec_write_val c st "ha" _ acc x hh hsl]
    congr 1
    env_ext

theorem sha_fill_iter (c : Ctx) (hs : 0 < c.size) (db : Bytes) : ∀ (F m i : Nat) (acc : Bytes) (st : Env),
    i ≤ F + c.size → i ≤ m → st "ha" = some (.hash acc) → st "db" = some (.bytes db) → st "i" = some (.int i) →
    ∃ j : Int, (iter (shaFillCond c) (shaFillStep c) F st >>= shaFillTail c) =
      match shaFill c.size db m i with
      | some fill => .ok ((st.set "ha" (.hash (acc ++ fill))).set "i" (.int j))
      | none => .panic := by
  intro F
  induction F with
  | zero =>
    intro m i acc st hF hm hh hd hi
    exact sha_fill_exit c db 0 m i acc st (by omega) hh hd hi
  | succ F ih =>
    intro m i acc st hF hm hh hd hi
    by_cases hle : i ≤ c.size
    · exact sha_fill_exit c db _ m i acc st hle hh hd hi
    · obtain ⟨m', rfl⟩ : ∃ m', m = m' + 1 := ⟨m - 1, by omega⟩
      have hcond : shaFillCond c st = .ok true := by
        simp [shaFillCond, eval, lookup_some hi, evalBin]; omega
      rw [iter_true _ _ _ _ hcond]
      have hmod : shaFill c.size db (m' + 1) i = (shaFill c.size db m' (i - c.size)).map (db ++ ·) := by
        simp only [shaFill]; rw [if_pos ⟨by omega, hs⟩]
      rw [hmod]
      have hi' : (st.set "ha" (.hash (acc ++ db))) "i" = some (.int i) := by simp [Env.set, hi]
      have hsub : ((i : Int) - (c.size : Int)) = ((i - c.size : Nat) : Int) := by omega
      have hpost : exec c (.assign "i" (.bin .sub (.var "i") .hsize)) (st.set "ha" (.hash (acc ++ db))) =
          .ok ((st.set "ha" (.hash (acc ++ db))).set "i" (.int ((i - c.size : Nat) : Int))) := by
        simp [exec_assign, eval, lookup_some hi', evalBin, hsub]
      simp only [shaFillStep, exec_write_var c st "ha" "db" acc db hh hd, ok_bind, hpost]
      obtain ⟨j, hj⟩ := ih m' (i - c.size) (acc ++ db)
        ((st.set "ha" (.hash (acc ++ db))).set "i" (.int ((i - c.size : Nat) : Int)))
        (by omega) (by omega) (by simp [Env.set]) (by simp [Env.set, hd]) (Env.set_same _ "i" _)
      refine ⟨j, ?_⟩
      rw [hj]
      cases shaFill c.size db m' (i - c.size) with
      | none => rfl
      | some fill =>
        simp only [Option.map_some, List.append_assoc]
        congr 1
        env_ext

/-! ## Loop 2: `for i := len(password); i > 0; i >>= 1 { if (i & 1) != 0 { ha.Write(db) } else { ha.Write(password) } }` -/

def shaBitsCond (c : Ctx) : Env → Res Bool := fun st => eval c st (.bin .gt (.var "i_2") (.int 0)) >>= asBool
def shaBitsStep (c : Ctx) : Env → Res Env := fun st =>
  exec c (.ite (.bin .ne (.bin .band (.var "i_2") (.int 1)) (.int 0)) (.write "ha" (.var "db"))
    (.write "ha" (.var "password"))) st >>=
    exec c (.assign "i_2" (.bin .shr (.var "i_2") (.int 1)))

theorem sha_bits_exit (c : Ctx) (db pw : Bytes) (F m : Nat) (acc : Bytes) (st : Env)
    (hh : st "ha" = some (.hash acc)) (hi : st "i_2" = some (.int (0 : Nat))) :
    (iter (shaBitsCond c) (shaBitsStep c) F st >>= fun st' => .ok (st'.eraseAll ["i_2"])) =
      .ok ((st.set "ha" (.hash (acc ++ shaBits db pw m 0))).erase "i_2") := by
  have hcond : shaBitsCond c st = .ok false := by
    simp [shaBitsCond, eval_gt_zero c st "i_2" _ hi]
  rw [iter_false _ _ _ _ hcond]
  have hmod : shaBits db pw m 0 = [] := by cases m <;> simp [shaBits]
  simp only [hmod, ok_bind, Env.eraseAll_cons, Env.eraseAll_nil, List.append_nil]
  congr 1
  env_ext

theorem sha_bits_iter (c : Ctx) (db pw : Bytes) : ∀ (F m i : Nat) (acc : Bytes) (st : Env),
    i ≤ F → i ≤ m → st "ha" = some (.hash acc) → st "db" = some (.bytes db) →
    st "password" = some (.bytes pw) → st "i_2" = some (.int i) →
    (iter (shaBitsCond c) (shaBitsStep c) F st >>= fun st' => .ok (st'.eraseAll ["i_2"])) =
      .ok ((st.set "ha" (.hash (acc ++ shaBits db pw m i))).erase "i_2") := by
  intro F
  induction F with
  | zero =>
    intro m i acc st hF hm hh hd hp hi
    have hi0 : i = 0 := by omega
    subst hi0
    exact sha_bits_exit c db pw 0 m acc st hh hi
  | succ F ih =>
    intro m i acc st hF hm hh hd hp hi
    by_cases hi0 : i = 0
    · subst hi0
      exact sha_bits_exit c db pw _ m acc st hh hi
    · obtain ⟨m', rfl⟩ : ∃ m', m = m' + 1 := ⟨m - 1, by omega⟩
      have hcond : shaBitsCond c st = .ok true := by
        simp [shaBitsCond, eval_gt_zero c st "i_2" _ hi]; omega
      rw [iter_true _ _ _ _ hcond]
      have hmod : shaBits db pw (m' + 1) i = (if i % 2 = 1 then db else pw) ++ shaBits db pw m' (i / 2) := by
        simp only [shaBits, hi0, ↓reduceIte]
      rw [hmod]
      have hbody := exec_ite_write2 c st _ "ha" "db" "password" _ acc db pw (eval_odd c st "i_2" i hi) hh hd hp
      have hi' : ∀ X, (st.set "ha" (.hash X)) "i_2" = some (.int i) := by intro X; simp [Env.set, hi]
      have hpost : ∀ X, exec c (.assign "i_2" (.bin .shr (.var "i_2") (.int 1))) (st.set "ha" (.hash X)) =
          .ok ((st.set "ha" (.hash X)).set "i_2" (.int ((i / 2 : Nat) : Int))) := by
        intro X
        simp only [exec_assign, eval, lookup_some (hi' X), ok_bind, asInt_int, evalBin_shr_one]
      simp only [shaBitsStep, hbody, ok_bind, hpost]
      have := ih m' (i / 2) (acc ++ if decide (i % 2 = 1) = true then db else pw)
        ((st.set "ha" (.hash (acc ++ if decide (i % 2 = 1) = true then db else pw))).set "i_2" (.int ((i / 2 : Nat) : Int)))
        (by omega) (by omega) (by simp [Env.set]) (by simp [Env.set, hd]) (by simp [Env.set, hp]) (Env.set_same _ "i_2" _)
      rw [this]
      simp only [decide_eq_true_eq, List.append_assoc]
      congr 1
      env_ext

/-- Loop 2 as a statement. -/
theorem sha_bits_stmt (c : Ctx) (st : Env) (acc db pw : Bytes)
    (hh : st "ha" = some (.hash acc)) (hd : st "db" = some (.bytes db)) (hp : st "password" = some (.bytes pw))
    (hi : st "i_2" = none) :
    exec c (.scoped ["i_2"] (.assign "i_2" (.len (.var "password")) ;;
      .for_ (.bin .add (.bin .sub (.var "i_2") (.int 0)) (.int 1))
      (.bin .gt (.var "i_2") (.int 0))
      (.assign "i_2" (.bin .shr (.var "i_2") (.int 1)))
      (.ite (.bin .ne (.bin .band (.var "i_2") (.int 1)) (.int 0)) (.write "ha" (.var "db"))
        (.write "ha" (.var "password"))))) st =
      .ok (st.set "ha" (.hash (acc ++ shaBits db pw (pw.length + 1) pw.length))) := by
  rw [exec_scoped, exec_seq]
  have h1 : exec c (.assign "i_2" (.len (.var "password"))) st = .ok (st.set "i_2" (.int pw.length)) := by
    simp [exec_assign, eval, lookup_some hp, lenOf]
  rw [h1, ok_bind, exec_for]
  have hf : eval c (st.set "i_2" (.int pw.length)) (.bin .add (.bin .sub (.var "i_2") (.int 0)) (.int 1)) =
      .ok (.int ((pw.length : Int) + 1)) := by
    simp [eval, evalBin]
  rw [hf]
  simp only [ok_bind, asInt_int]
  have := sha_bits_iter c db pw ((pw.length : Int) + 1).toNat (pw.length + 1) pw.length acc (st.set "i_2" (.int pw.length))
    (by omega) (by omega) (by simp [Env.set, hh]) (by simp [Env.set, hd]) (by simp [Env.set, hp]) (Env.set_same _ "i_2" _)
  refine Eq.trans this ?_
  congr 1
  env_ext

/-! ## Loops 3 and 4: `for i := 0; i < n; i++ { hp.Write(password) }` -/

theorem repeatBytes_snoc (b : Bytes) (n : Nat) : repeatBytes b n ++ b = repeatBytes b (n + 1) := by
  induction n with
  | zero => simp [repeatBytes]
  | succ n ih => simp only [repeatBytes, List.append_assoc]; rw [ih]; simp [repeatBytes]

/-- `for i := 0; i < bound; i++ { hv.Write(src) }` on a fresh hash object: `bound` copies of `src`. -/
theorem repeat_stmt (c : Ctx) (st : Env) (hv iv src : String) (bnd : Expr) (b : Bytes) (n : Nat)
    (hne1 : hv ≠ iv) (hne2 : src ≠ iv) (hne3 : src ≠ hv)
    (hh : st hv = some (.hash [])) (hsrc : st src = some (.bytes b)) (hi : st iv = none)
    (hb : ∀ k w, eval c ((st.set hv (.hash w)).set iv (.int k)) bnd = .ok (.int n)) :
    exec c (.scoped [iv] (.assign iv (.int 0) ;;
      .for_ (.bin .add (.bin .sub bnd (.var iv)) (.int 1))
      (.bin .lt (.var iv) bnd)
      (.assign iv (.bin .add (.var iv) (.int 1)))
      (.write hv (.var src)))) st = .ok (st.set hv (.hash (repeatBytes b n))) := by
  let f : Nat → Env := fun k => (st.set hv (.hash (repeatBytes b k))).set iv (.int k)
  have h0 : exec c (.assign iv (.int 0)) st = .ok (f 0) := by
    simp only [exec_assign, eval, ok_bind, f, repeatBytes, set_self st hv _ hh]
    rfl
  have hloop := exec_for_count c (.bin .add (.bin .sub bnd (.var iv)) (.int 1))
    (.bin .lt (.var iv) bnd) (.assign iv (.bin .add (.var iv) (.int 1))) (.write hv (.var src))
    f n ((n : Int) + 1)
    (by simp [f, eval, evalBin, hb])
    (by omega)
    (by intro k hk; simp [f, eval, evalBin, hb]; omega)
    (by simp [f, eval, evalBin, hb])
    (by
      intro k hk
      have e1 := exec_write_var c (f k) hv src (repeatBytes b k) b (by simp [f, Env.set, hne1]) (by simp [f, Env.set, hne2, hne3, hsrc])
      rw [e1, ok_bind]
      have hk1 : ((k + 1 : Nat) : Int) = (k : Int) + 1 := by omega
      simp only [exec_assign, eval, lookup, ok_bind, asInt_int, evalBin, f, repeatBytes_snoc, hk1]
      have : ((((st.set hv (.hash (repeatBytes b k))).set iv (.int k)).set hv (.hash (repeatBytes b (k + 1)))) iv) = some (.int k) := by
        simp [Env.set, Ne.symm hne1]
      simp only [this, ok_bind, asInt_int]
      congr 1
      funext y
      simp only [Env.set]
      by_cases h1 : y = iv <;> by_cases h2 : y = hv <;> simp [h1, h2])
  rw [exec_scoped, exec_seq, h0, ok_bind, hloop]
  simp only [ok_bind, Env.eraseAll_cons, Env.eraseAll_nil, f]
  congr 1
  funext y
  simp only [Env.set, Env.erase]
  by_cases h1 : y = iv <;> by_cases h2 : y = hv <;> simp [h1, h2, hi, hne1, Ne.symm hne1]

/-! ## Loop 5: the rounds -/

/-- `shaRound` once `p[:len(password)]` is known to succeed. -/
def shaRoundT (H : Bytes → Bytes) (pHead p s : Bytes) (i : Nat) (dp : Bytes) : Bytes :=
  H ((if i % 2 = 1 then pHead else dp) ++ (if i % 3 ≠ 0 then s else []) ++
     (if i % 7 ≠ 0 then p else []) ++ (if i % 2 = 1 then dp else p))

def shaRoundsT (H : Bytes → Bytes) (pHead p s : Bytes) : Nat → Bytes → Bytes
  | 0, d => d
  | n + 1, d => shaRoundT H pHead p s n (shaRoundsT H pHead p s n d)

theorem shaRounds_eq_T (H : Bytes → Bytes) (pwLen : Nat) (pHead p s : Bytes) (h : sliceTo p pwLen = some pHead)
    (n : Nat) (d : Bytes) : shaRounds H pwLen p s n d = some (shaRoundsT H pHead p s n d) := by
  induction n with
  | zero => rfl
  | succ n ih => simp [shaRounds, ih, shaRound, h, shaRoundsT, shaRoundT]

theorem eval_eq_zero (c : Ctx) (st : Env) (x : String) (k : Nat) (h : st x = some (.int k)) :
    eval c st (.bin .eq (.var x) (.int 0)) = .ok (.bool (decide (k = 0))) := by
  simp only [eval, lookup_some h, ok_bind, asInt_int, evalBin]
  congr 2
  exact decide_eq_decide.mpr (by omega)

/-- The body of the round loop followed by `i++` (uint32): one application of `shaRoundT` to the
running digest, which is `da` in round 0 and the variable `dp` afterwards. -/
theorem sha_round_step (c : Ctx) (hc : Sha2Calls c) (st : Env) (hid : Val) (pw p s da dpv : Bytes) (k : Nat)
    (hh : st "h" = some hid) (hp : st "password" = some (.bytes pw)) (hP : st "p" = some (.bytes p))
    (hS : st "s" = some (.bytes s)) (hda : st "da" = some (.bytes da)) (hdp : st "dp" = some (.bytes dpv))
    (hi : st "i_5" = some (.int k)) (hhc : st "hc" = none) (hlen : pw.length ≤ p.length) (hk : k + 1 < 2 ^ 32) :
    (exec c (.scoped ["hc"] (
        .call "hc" "sha2crypt.newHash" [(.var "h"), .lnil] ;;
        .ite (.bin .ne (.bin .band (.var "i_5") (.int 1)) (.int 0)) (
          .write "hc" (.slice (.var "p") (.int 0) (.len (.var "password")))) (
          .ite (.bin .eq (.var "i_5") (.int 0)) (.write "hc" (.var "da")) (.write "hc" (.var "dp"))) ;;
        .ite (.bin .ne (.bin .rem (.var "i_5") (.int 3)) (.int 0)) (.write "hc" (.var "s")) .skip ;;
        .ite (.bin .ne (.bin .rem (.var "i_5") (.int 7)) (.int 0)) (.write "hc" (.var "p")) .skip ;;
        .ite (.bin .ne (.bin .band (.var "i_5") (.int 1)) (.int 0)) (
          .ite (.bin .eq (.var "i_5") (.int 0)) (.write "hc" (.var "da")) (.write "hc" (.var "dp"))) (
          .write "hc" (.var "p")) ;;
        .assign "dp" (.sum (.var "hc")))) st >>=
      exec c (.assign "i_5" (.wrap 32 (.bin .add (.var "i_5") (.int 1))))) =
    .ok ((st.set "dp" (.bytes (shaRoundT c.H (p.take pw.length) p s k (if k = 0 then da else dpv)))).set "i_5"
      (.int ((k + 1 : Nat) : Int))) := by
  rw [exec_scoped]
  have e0 : exec c (.call "hc" "sha2crypt.newHash" [(.var "h"), .lnil]) st = .ok (st.set "hc" (.hash [])) := by
    simp [exec_call, evalArgs, eval, lookup_some hh, hc.newHash]
  -- generic facts about the environments `st[hc := hash X]`
  have gI : ∀ X, (st.set "hc" (.hash X)) "i_5" = some (.int k) := by intro X; simp [Env.set, hi]
  have gP : ∀ X, (st.set "hc" (.hash X)) "p" = some (.bytes p) := by intro X; simp [Env.set, hP]
  have gS : ∀ X, (st.set "hc" (.hash X)) "s" = some (.bytes s) := by intro X; simp [Env.set, hS]
  have gDa : ∀ X, (st.set "hc" (.hash X)) "da" = some (.bytes da) := by intro X; simp [Env.set, hda]
  have gDp : ∀ X, (st.set "hc" (.hash X)) "dp" = some (.bytes dpv) := by intro X; simp [Env.set, hdp]
  have gPw : ∀ X, (st.set "hc" (.hash X)) "password" = some (.bytes pw) := by intro X; simp [Env.set, hp]
  have gH : ∀ X, (st.set "hc" (.hash X)) "hc" = some (.hash X) := by intro X; simp [Env.set]
  have collapse : ∀ X Y, (st.set "hc" (.hash X)).set "hc" (.hash Y) = st.set "hc" (.hash Y) := by
    intro X Y; exact Env.set_set _ _ _ _
  -- the running digest: `if i == 0 { hc.Write(da) } else { hc.Write(dp) }`
  have eCur : ∀ X, exec c (.ite (.bin .eq (.var "i_5") (.int 0)) (.write "hc" (.var "da")) (.write "hc" (.var "dp")))
      (st.set "hc" (.hash X)) = .ok ((st.set "hc" (.hash X)).set "hc" (.hash (X ++ if decide (k = 0) = true then da else dpv))) := by
    intro X
    exact exec_ite_write2 c _ _ "hc" "da" "dp" _ X da dpv (eval_eq_zero c _ "i_5" k (gI X)) (gH X) (gDa X) (gDp X)
  -- `hc.Write(p[:len(password)])`
  have eHead : ∀ X, exec c (.write "hc" (.slice (.var "p") (.int 0) (.len (.var "password")))) (st.set "hc" (.hash X)) =
      .ok ((st.set "hc" (.hash X)).set "hc" (.hash (X ++ p.take pw.length))) := by
    intro X
    refine exec_write_val c _ "hc" _ X _ (gH X) ?_
    have := sliceOf_zero p pw.length
    simp only [sliceTo, hlen, if_true] at this
    simp [eval, lookup_some (gP X), lookup_some (gPw X), lenOf, this]
  -- the five statements after `hc := newHash(h)`, on an environment `st[hc := hash X]`
  have w1 : ∀ X, exec c (.ite (.bin .ne (.bin .band (.var "i_5") (.int 1)) (.int 0)) (
          .write "hc" (.slice (.var "p") (.int 0) (.len (.var "password")))) (
          .ite (.bin .eq (.var "i_5") (.int 0)) (.write "hc" (.var "da")) (.write "hc" (.var "dp"))))
      (st.set "hc" (.hash X)) =
      .ok (st.set "hc" (.hash (X ++ if decide (k % 2 = 1) = true then p.take pw.length else
        if decide (k = 0) = true then da else dpv))) := by
    intro X
    exact (exec_ite_merge c _ _ _ _ "hc" _ X _ _ (eval_odd c _ "i_5" k (gI X)) (eHead X) (eCur X)).trans (by rw [collapse])
  have w2 : ∀ X, exec c (.ite (.bin .ne (.bin .rem (.var "i_5") (.int 3)) (.int 0)) (.write "hc" (.var "s")) .skip)
      (st.set "hc" (.hash X)) = .ok (st.set "hc" (.hash (X ++ if decide (k % 3 ≠ 0) = true then s else []))) := by
    intro X
    exact (exec_ite_write1 c _ _ "hc" "s" _ X s (eval_rem_ne c _ "i_5" k 3 (by decide) (gI X)) (gH X) (gS X)).trans (by rw [collapse])
  have w3 : ∀ X, exec c (.ite (.bin .ne (.bin .rem (.var "i_5") (.int 7)) (.int 0)) (.write "hc" (.var "p")) .skip)
      (st.set "hc" (.hash X)) = .ok (st.set "hc" (.hash (X ++ if decide (k % 7 ≠ 0) = true then p else []))) := by
    intro X
    exact (exec_ite_write1 c _ _ "hc" "p" _ X p (eval_rem_ne c _ "i_5" k 7 (by decide) (gI X)) (gH X) (gP X)).trans (by rw [collapse])
  have w4 : ∀ X, exec c (.ite (.bin .ne (.bin .band (.var "i_5") (.int 1)) (.int 0)) (
          .ite (.bin .eq (.var "i_5") (.int 0)) (.write "hc" (.var "da")) (.write "hc" (.var "dp"))) (
          .write "hc" (.var "p")))
      (st.set "hc" (.hash X)) =
      .ok (st.set "hc" (.hash (X ++ if decide (k % 2 = 1) = true then (if decide (k = 0) = true then da else dpv) else p))) := by
    intro X
    exact (exec_ite_merge c _ _ _ _ "hc" _ X _ _ (eval_odd c _ "i_5" k (gI X)) (eCur X)
      (exec_write_var c _ "hc" "p" X p (gH X) (gP X))).trans (by rw [collapse])
  have w5 : ∀ X, exec c (.assign "dp" (.sum (.var "hc"))) (st.set "hc" (.hash X)) =
      .ok ((st.set "hc" (.hash X)).set "dp" (.bytes (c.H X))) := by
    intro X
    simp [exec_assign, eval]
  have hbody := exec_seq_ok c _ e0 (exec_seq_ok c _ (w1 _) (exec_seq_ok c _ (w2 _) (exec_seq_ok c _ (w3 _)
    (exec_seq_ok c _ (w4 _) (w5 _)))))
  rw [hbody]
  have hV : c.H (((([] ++ if decide (k % 2 = 1) = true then p.take pw.length else
        if decide (k = 0) = true then da else dpv) ++ if decide (k % 3 ≠ 0) = true then s else []) ++
        if decide (k % 7 ≠ 0) = true then p else []) ++
        if decide (k % 2 = 1) = true then (if decide (k = 0) = true then da else dpv) else p) =
      shaRoundT c.H (p.take pw.length) p s k (if k = 0 then da else dpv) := by
    simp [shaRoundT]
  rw [hV]
  have hi2 : ∀ (X : Bytes) (v : Val), (((st.set "hc" (.hash X)).set "dp" v).erase "hc") "i_5" = some (.int k) := by
    intro X v; simp [Env.set, Env.erase, hi]
  have hk1 : ((k : Int) + 1) % (2 : Int) ^ 32 = ((k + 1 : Nat) : Int) := by
    have : ((k : Int) + 1) = ((k + 1 : Nat) : Int) := by omega
    rw [this]
    exact Int.emod_eq_of_lt (by omega) (by exact_mod_cast hk)
  simp only [ok_bind, Env.eraseAll_cons, Env.eraseAll_nil, exec_assign, eval, lookup_some (hi2 _ _), asInt_int, evalBin, hk1,
    pure_eq_ok]
  congr 1
  env_ext

/-- Loop 5 as a statement. After the loop `dp` holds the last round's digest — or, when there was no
round at all, still the digest of the repeated password it held before. -/
theorem sha_rounds_stmt (c : Ctx) (hc : Sha2Calls c) (st : Env) (hid : Val) (pw p s da dp0 : Bytes) (rounds : Nat)
    (hh : st "h" = some hid) (hp : st "password" = some (.bytes pw)) (hP : st "p" = some (.bytes p))
    (hS : st "s" = some (.bytes s)) (hda : st "da" = some (.bytes da)) (hdp : st "dp" = some (.bytes dp0))
    (hR : st "rounds" = some (.int rounds))
    (hi : st "i_5" = none) (hhc : st "hc" = none) (hlen : pw.length ≤ p.length) (hr : rounds < 2 ^ 32) :
    exec c (.scoped ["i_5"] (.assign "i_5" (.int 0) ;;
      .for_ (.bin .add (.bin .sub (.var "rounds") (.var "i_5")) (.int 1))
      (.bin .lt (.var "i_5") (.var "rounds"))
      (.assign "i_5" (.wrap 32 (.bin .add (.var "i_5") (.int 1))))
      (.scoped ["hc"] (
        .call "hc" "sha2crypt.newHash" [(.var "h"), .lnil] ;;
        .ite (.bin .ne (.bin .band (.var "i_5") (.int 1)) (.int 0)) (
          .write "hc" (.slice (.var "p") (.int 0) (.len (.var "password")))) (
          .ite (.bin .eq (.var "i_5") (.int 0)) (.write "hc" (.var "da")) (.write "hc" (.var "dp"))) ;;
        .ite (.bin .ne (.bin .rem (.var "i_5") (.int 3)) (.int 0)) (.write "hc" (.var "s")) .skip ;;
        .ite (.bin .ne (.bin .rem (.var "i_5") (.int 7)) (.int 0)) (.write "hc" (.var "p")) .skip ;;
        .ite (.bin .ne (.bin .band (.var "i_5") (.int 1)) (.int 0)) (
          .ite (.bin .eq (.var "i_5") (.int 0)) (.write "hc" (.var "da")) (.write "hc" (.var "dp"))) (
          .write "hc" (.var "p")) ;;
        .assign "dp" (.sum (.var "hc")))))) st =
      .ok (st.set "dp" (.bytes (if rounds = 0 then dp0 else shaRoundsT c.H (p.take pw.length) p s rounds da))) := by
  let G : Nat → Bytes := fun k => if k = 0 then dp0 else shaRoundsT c.H (p.take pw.length) p s k da
  let f : Nat → Env := fun k => (st.set "dp" (.bytes (G k))).set "i_5" (.int k)
  have h0 : exec c (.assign "i_5" (.int 0)) st = .ok (f 0) := by
    simp only [exec_assign, eval, ok_bind, f, G, if_true, set_self st "dp" _ hdp]
    rfl
  have hloop := exec_for_count c (.bin .add (.bin .sub (.var "rounds") (.var "i_5")) (.int 1))
    (.bin .lt (.var "i_5") (.var "rounds")) (.assign "i_5" (.wrap 32 (.bin .add (.var "i_5") (.int 1))))
    (.scoped ["hc"] (
        .call "hc" "sha2crypt.newHash" [(.var "h"), .lnil] ;;
        .ite (.bin .ne (.bin .band (.var "i_5") (.int 1)) (.int 0)) (
          .write "hc" (.slice (.var "p") (.int 0) (.len (.var "password")))) (
          .ite (.bin .eq (.var "i_5") (.int 0)) (.write "hc" (.var "da")) (.write "hc" (.var "dp"))) ;;
        .ite (.bin .ne (.bin .rem (.var "i_5") (.int 3)) (.int 0)) (.write "hc" (.var "s")) .skip ;;
        .ite (.bin .ne (.bin .rem (.var "i_5") (.int 7)) (.int 0)) (.write "hc" (.var "p")) .skip ;;
        .ite (.bin .ne (.bin .band (.var "i_5") (.int 1)) (.int 0)) (
          .ite (.bin .eq (.var "i_5") (.int 0)) (.write "hc" (.var "da")) (.write "hc" (.var "dp"))) (
          .write "hc" (.var "p")) ;;
        .assign "dp" (.sum (.var "hc"))))
    f rounds ((rounds : Int) + 1)
    (by simp [f, eval, evalBin, Env.set, hR])
    (by omega)
    (by intro k hk; simp [f, eval, evalBin, Env.set, hR]; omega)
    (by simp [f, eval, evalBin, Env.set, hR])
    (by
      intro k hk
      have := sha_round_step c hc (f k) hid pw p s da (G k) k
        (by simp [f, Env.set, hh]) (by simp [f, Env.set, hp]) (by simp [f, Env.set, hP]) (by simp [f, Env.set, hS])
        (by simp [f, Env.set, hda]) (by simp [f, Env.set]) (by simp [f]) (by simp [f, Env.set, hhc]) hlen (by omega)
      rw [this]
      have hG : shaRoundT c.H (p.take pw.length) p s k (if k = 0 then da else G k) = G (k + 1) := by
        simp only [G, Nat.add_one_ne_zero, if_false, shaRoundsT]
        cases k <;> simp [shaRoundsT]
      rw [hG]
      congr 1
      simp only [f]
      env_ext)
  rw [exec_scoped, exec_seq, h0, ok_bind, hloop]
  simp only [ok_bind, Env.eraseAll_cons, Env.eraseAll_nil, f, G]
  congr 1
  env_ext

/-! ## The whole function -/

/-- What the Go source returns: the hand model `sha2cryptEncrypt`, except that with `rounds = 0` the
variable `dp` still holds the digest of the repeated password when it is returned (the hand model
returns digest A in that case; see `sha2cryptGo_eq_model`). -/
def sha2cryptGo (H : Bytes → Bytes) (size : Nat) (permFinal : List Nat) (pw salt : Bytes) (rounds : Nat) : Option Bytes := do
  let db := H (pw ++ salt ++ pw)
  let fill ← shaFill size db (pw.length + 1) pw.length
  let da := H (pw ++ salt ++ fill ++ shaBits db pw (pw.length + 1) pw.length)
  let dp := H (repeatBytes pw pw.length)
  let p ← duplicate size dp (pw.length + 1) pw.length
  let ds := H (repeatBytes salt (16 + (da.headD 0).toNat))
  let s ← duplicate size ds (salt.length + 1) salt.length
  let last ← shaRounds H pw.length p s rounds da
  permute (if rounds = 0 then dp else last) permFinal

theorem sha2cryptGo_eq_model (H : Bytes → Bytes) (size : Nat) (permFinal : List Nat) (pw salt : Bytes) (rounds : Nat)
    (hr : 0 < rounds) : sha2cryptGo H size permFinal pw salt rounds = sha2cryptEncrypt H size permFinal pw salt rounds := by
  have : ¬ rounds = 0 := by omega
  simp only [sha2cryptGo, sha2cryptEncrypt, this, if_false]

/-- The statements of loop 1 (`for …; ha.Write(db[:i])`) as they sit in the program, followed by the
rest of the function: the rest runs with the fill bytes written (and `i` holding some leftover value). -/
theorem sha_fill_stmt (c : Ctx) (hs : 0 < c.size) (st : Env) (acc db : Bytes) (n : Nat) (rest : Stmt) (R : Res Env)
    (hh : st "ha" = some (.hash acc)) (hd : st "db" = some (.bytes db)) (hi : st "i" = some (.int n))
    (hcont : ∀ j : Int, (match shaFill c.size db (n + 1) n with
      | some fill => exec c rest ((st.set "ha" (.hash (acc ++ fill))).set "i" (.int j))
      | none => .panic) = R) :
    exec c (.for_ (.bin .add (.bin .sub (.var "i") .hsize) (.int 1))
        (.bin .gt (.var "i") .hsize)
        (.assign "i" (.bin .sub (.var "i") .hsize))
        (.write "ha" (.var "db")) ;;
      .write "ha" (.slice (.var "db") (.int 0) (.var "i")) ;; rest) st = R := by
  have hf : eval c st (.bin .add (.bin .sub (.var "i") .hsize) (.int 1)) = .ok (.int ((n : Int) - c.size + 1)) := by
    simp [eval, lookup_some hi, evalBin]
  obtain ⟨j, hj⟩ := sha_fill_iter c hs db ((n : Int) - c.size + 1).toNat (n + 1) n acc st (by omega) (by omega) hh hd hi
  rw [← hcont j, ← exec_seq_assoc, exec_seq, exec_seq, exec_for, hf]
  simp only [ok_bind, asInt_int]
  have : (iter (fun st => eval c st (.bin .gt (.var "i") .hsize) >>= asBool)
      (fun st => exec c (.write "ha" (.var "db")) st >>= exec c (.assign "i" (.bin .sub (.var "i") .hsize)))
      ((n : Int) - c.size + 1).toNat st >>= exec c (.write "ha" (.slice (.var "db") (.int 0) (.var "i")))) =
      match shaFill c.size db (n + 1) n with
      | some fill => .ok ((st.set "ha" (.hash (acc ++ fill))).set "i" (.int j))
      | none => .panic := hj
  rw [this]
  cases shaFill c.size db (n + 1) n <;> rfl

-- as in KdfIRMd5: a statement lemma that does not fit the regenerated program fails at once
attribute [local irreducible] exec in
theorem sha2_encrypt_body (c : Ctx) (hc : Sha2Calls c) (hs : 0 < c.size) (hH : ∀ x, (c.H x).length = c.size)
    (hid : Int) (hsup : hid = 5 ∨ hid = 7) (pw salt perm : Bytes) (rounds : Nat) (hr : rounds < 2 ^ 32) :
    exec c Gen.sha256_sha2crypt.encryptIR.body
        (Env.ofList (Gen.sha256_sha2crypt.encryptIR.params.zip
          [.int hid, .bytes pw, .bytes salt, .int rounds, .bytes perm])) =
      match sha2cryptGo c.H c.size (perm.map (·.toNat)) pw salt rounds with
      | some r => .ret (.bytes r)
      | none => .panic := by
  simp only [Gen.sha256_sha2crypt.encryptIR, List.zip_cons_cons, List.zip_nil_right, Env.ofList, sha2cryptGo]
  -- switch h { case crypto.SHA256, crypto.SHA512: default: return … }
  refine exec_seq_ok c _ (st' := ((((Env.empty.set "permutation" (.bytes perm)).set "rounds" (.int rounds)).set "salt" (.bytes salt)).set
      "password" (.bytes pw)).set "h" (.int hid)) (by
    rcases hsup with h | h <;> subst h <;> simp [exec_ite, eval, evalBin, exec_skip]) ?_
  -- db := sum(h, password, salt, password)
  refine exec_seq_ok c _ (exec_call_ok c _ _ _ _ [.int hid, .list [pw, salt, pw]] _ (by simp [evalArgs, eval, Env.set])
    (hc.sum _ _)) ?_
  -- ha := newHash(h, password, salt)
  refine exec_seq_ok c _ (exec_call_ok c _ _ _ _ [.int hid, .list [pw, salt]] _ (by simp [evalArgs, eval, Env.set])
    (hc.newHash _ _)) ?_
  -- var i int; for i = len(password); …
  refine exec_seq_ok c _ (exec_assign_ok c _ _ _ _ rfl) ?_
  refine exec_seq_ok c _ (exec_assign_ok c _ _ _ (.int pw.length) (by simp [eval, Env.set, lenOf])) ?_
  simp only [List.flatten_cons, List.flatten_nil, List.append_nil]
  -- loop 1 and ha.Write(db[:i])
  refine sha_fill_stmt c hs _ (pw ++ salt) (c.H (pw ++ (salt ++ pw))) pw.length _ _
    (by simp [Env.set]) (by simp [Env.set]) (Env.set_same _ "i" _) ?_
  intro j
  simp only [List.append_assoc]
  cases hfill : shaFill c.size (c.H (pw ++ (salt ++ pw))) (pw.length + 1) pw.length with
  | none => rfl
  | some fill =>
  simp only [Option.bind_eq_bind, Option.bind_some]
  -- loop 2
  refine exec_seq_ok c _ (sha_bits_stmt c _ (pw ++ (salt ++ fill)) (c.H (pw ++ (salt ++ pw))) pw
    (by simp [Env.set]) (by simp [Env.set]) (by simp [Env.set]) (by simp [Env.set, Env.empty])) ?_
  -- da := ha.Sum(nil)
  refine exec_seq_ok c _ (exec_assign_ok c _ _ _
    (.bytes (c.H (pw ++ (salt ++ fill) ++ shaBits (c.H (pw ++ (salt ++ pw))) pw (pw.length + 1) pw.length)))
    (by simp [eval, Env.set])) ?_
  -- hp := newHash(h); loop 3; dp := hp.Sum(nil)
  refine exec_seq_ok c _ (exec_call_ok c _ _ _ _ [.int hid, .list []] _ (by simp [evalArgs, eval, Env.set])
    (hc.newHash _ _)) ?_
  refine exec_seq_ok c _ (repeat_stmt c _ "hp" "i_3" "password" _ pw pw.length (by decide) (by decide) (by decide)
    (by simp [Env.set]) (by simp [Env.set]) (by simp [Env.set, Env.empty])
    (by intro k w; simp [eval, Env.set, lenOf])) ?_
  refine exec_seq_ok c _ (exec_assign_ok c _ _ _ (.bytes (c.H (repeatBytes pw pw.length))) (by simp [eval, Env.set])) ?_
  -- name the digests
  simp only [List.append_assoc]
  generalize hDB : c.H (pw ++ (salt ++ pw)) = db
  generalize hDA : c.H (pw ++ (salt ++ (fill ++ shaBits db pw (pw.length + 1) pw.length))) = da
  generalize hDP : c.H (repeatBytes pw pw.length) = dp
  have hdpLen : dp.length = c.size := hDP ▸ hH _
  obtain ⟨a0, da', hda⟩ : ∃ a0 da', da = a0 :: da' := by
    have : da.length = c.size := hDA ▸ hH _
    cases da with
    | nil => simp at this; omega
    | cons a0 da' => exact ⟨a0, da', rfl⟩
  -- p := duplicate(h, dp, len(password))
  have hp := duplicate_spec_fuel c.size dp hs hdpLen (pw.length + 1) pw.length (dup_fuel_ok pw.length c.size hs)
  have hpCall := hc.dup (.int hid) dp pw.length
  rw [hp] at hpCall
  simp only [hp, Option.bind_some]
  refine exec_seq_ok c _ (exec_call_ok c _ _ _ _ [.int hid, .bytes dp, .int pw.length] _
    (by simp [evalArgs, eval, Env.set, lenOf]) hpCall) ?_
  generalize hP : CryptSpec.cycleTake dp pw.length = p
  have hpLen : p.length = pw.length := hP ▸ Kdf.cycleTake_length dp pw.length
  -- hds := newHash(h); loop 4; ds := hds.Sum(nil)
  refine exec_seq_ok c _ (exec_call_ok c _ _ _ _ [.int hid, .list []] _ (by simp [evalArgs, eval, Env.set])
    (hc.newHash _ _)) ?_
  refine exec_seq_ok c _ (repeat_stmt c _ "hds" "i_4" "salt" _ salt (16 + (da.headD 0).toNat) (by decide) (by decide) (by decide)
    (by simp [Env.set]) (by simp [Env.set]) (by simp [Env.set, Env.empty])
    (by intro k w; subst hda; simp [eval, Env.set, indexOf, evalBin])) ?_
  refine exec_seq_ok c _ (exec_assign_ok c _ _ _ (.bytes (c.H (repeatBytes salt (16 + (da.headD 0).toNat))))
    (by simp [eval, Env.set])) ?_
  generalize hDS : c.H (repeatBytes salt (16 + (da.headD 0).toNat)) = ds
  have hdsLen : ds.length = c.size := hDS ▸ hH _
  -- s := duplicate(h, ds, len(salt))
  have hsd := duplicate_spec_fuel c.size ds hs hdsLen (salt.length + 1) salt.length (dup_fuel_ok salt.length c.size hs)
  have hsCall := hc.dup (.int hid) ds salt.length
  rw [hsd] at hsCall
  simp only [hsd, Option.bind_some]
  refine exec_seq_ok c _ (exec_call_ok c _ _ _ _ [.int hid, .bytes ds, .int salt.length] _
    (by simp [evalArgs, eval, Env.set, lenOf]) hsCall) ?_
  generalize CryptSpec.cycleTake ds salt.length = s
  -- loop 5
  refine exec_seq_ok c _ (sha_rounds_stmt c hc _ (.int hid) pw p s da dp rounds
    (by simp [Env.set]) (by simp [Env.set]) (by simp [Env.set]) (by simp [Env.set]) (by simp [Env.set]) (by simp [Env.set])
    (by simp [Env.set]) (by simp [Env.set, Env.empty]) (by simp [Env.set, Env.empty]) (by omega) hr) ?_
  have hT := shaRounds_eq_T c.H pw.length (p.take pw.length) p s (sliceTo_of_le (by omega)) rounds da
  simp only [hT, Option.bind_some]
  -- return cryptoutil.Permute(dp, permutation), nil
  have hperm := hc.permute (if rounds = 0 then dp else shaRoundsT c.H (p.take pw.length) p s rounds da) perm
  cases hk : permute (if rounds = 0 then dp else shaRoundsT c.H (p.take pw.length) p s rounds da) (perm.map (·.toNat)) with
  | none =>
    rw [hk] at hperm
    exact exec_seq_panic c _ (exec_call_panic c _ _ _ _ [_, .bytes perm] (by simp [evalArgs, eval, Env.set]) hperm)
  | some r =>
    rw [hk] at hperm
    refine exec_seq_ok c _ (exec_call_ok c _ _ _ _ [_, .bytes perm] _ (by simp [evalArgs, eval, Env.set]) hperm) ?_
    simp [exec_ret, eval]

theorem sha2_encrypt_proc (c : Ctx) (hc : Sha2Calls c) (hs : 0 < c.size) (hH : ∀ x, (c.H x).length = c.size)
    (hid : Int) (hsup : hid = 5 ∨ hid = 7) (pw salt perm : Bytes) (rounds : Nat) (hr : rounds < 2 ^ 32) :
    execProc c Gen.sha256_sha2crypt.encryptIR [.int hid, .bytes pw, .bytes salt, .int rounds, .bytes perm] =
      ofModel (sha2cryptGo c.H c.size (perm.map (·.toNat)) pw salt rounds) := by
  have key := sha2_encrypt_body c hc hs hH hid hsup pw salt perm rounds hr
  cases hm : sha2cryptGo c.H c.size (perm.map (·.toNat)) pw salt rounds with
  | none => rw [hm] at key; exact execProc_of_panic _ _ _ rfl key
  | some r => rw [hm] at key; exact execProc_of_ret _ _ _ _ rfl key

/-- The `default:` clause of the switch. -/
theorem sha2_encrypt_unsupported (c : Ctx) (hid : Int) (h5 : hid ≠ 5) (h7 : hid ≠ 7) (pw salt perm : Bytes) (rounds : Int) :
    execProc c Gen.sha256_sha2crypt.encryptIR [.int hid, .bytes pw, .bytes salt, .int rounds, .bytes perm] =
      .ok (.err "unsupported hash") := by
  apply execProc_of_ret _ _ _ _ rfl
  simp only [Gen.sha256_sha2crypt.encryptIR, List.zip_cons_cons, List.zip_nil_right, Env.ofList]
  refine exec_seq_ret c _ ?_
  simp [exec_ite, eval, evalBin, h5, h7, exec_retErr]

/-- With no round at all the Go function returns the permuted digest of the repeated password. -/
theorem sha2cryptGo_zero (H : Bytes → Bytes) (size : Nat) (permFinal : List Nat) (pw salt : Bytes)
    (hs : 0 < size) (hH : ∀ x, (H x).length = size) :
    sha2cryptGo H size permFinal pw salt 0 = permute (H (repeatBytes pw pw.length)) permFinal := by
  simp only [sha2cryptGo, shaRounds, if_true,
    shaFill_spec_fuel size _ hs (hH _) (pw.length + 1) pw.length (Nat.le_of_lt (dup_fuel_ok pw.length size hs)),
    duplicate_spec_fuel size _ hs (hH _) (pw.length + 1) pw.length (dup_fuel_ok pw.length size hs),
    duplicate_spec_fuel size _ hs (hH _) (salt.length + 1) salt.length (dup_fuel_ok salt.length size hs),
    Option.bind_eq_bind, Option.bind_some]

/-! ## The contexts `interp` builds satisfy the call specifications -/

/-- The context in which `callIn … (d + 1)` runs a procedure of program `P`. -/
def ctxOf (H : Bytes → Bytes) (HM : Bytes → Bytes → Bytes) (size : Nat) (P : Program) (d : Nat) : Ctx :=
  { H := H, HM := HM, size := size, globals := fun g => List.lookup g P.globals, call := callIn H HM size P d }

theorem md5_calls (H : Bytes → Bytes) (HM : Bytes → Bytes → Bytes) (size d : Nat) :
    Md5Calls (ctxOf H HM size Gen.md5_md5crypt.kdfProgram (d + 2)) [12, 6, 0, 13, 7, 1, 14, 8, 2, 15, 9, 3, 5, 10, 4, 11] := by
  have hnew : ∀ d l, callIn H HM size Gen.md5_md5crypt.kdfProgram (d + 1) "md5crypt.newHash" [.list l] = .ok (.hash l.flatten) :=
    fun d l => newHash_md5 _ l
  have hsum : ∀ d l, callIn H HM size Gen.md5_md5crypt.kdfProgram (d + 2) "md5crypt.sum" [.list l] = .ok (.bytes (H l.flatten)) :=
    fun d l => sum_md5 _ l (hnew d)
  have hperm : ∀ d b t, callIn H HM size Gen.md5_md5crypt.kdfProgram (d + 1) "cryptoutil.Permute" [.bytes b, .bytes t] =
      ofModel (permute b (t.map (·.toNat))) := fun d b t => permute_proc _ b t
  exact ⟨hnew (d + 1), hsum d, hperm (d + 1), rfl⟩

theorem sha2_calls (H : Bytes → Bytes) (HM : Bytes → Bytes → Bytes) (size : Nat) (hs : 0 < size) (d : Nat) :
    Sha2Calls (ctxOf H HM size Gen.sha256_sha2crypt.kdfProgram (d + 2)) := by
  have hnew : ∀ d hid l, callIn H HM size Gen.sha256_sha2crypt.kdfProgram (d + 1) "sha2crypt.newHash" [hid, .list l] =
      .ok (.hash l.flatten) := fun d hid l => newHash_sha2 _ hid l
  have hsum : ∀ d hid l, callIn H HM size Gen.sha256_sha2crypt.kdfProgram (d + 2) "sha2crypt.sum" [hid, .list l] =
      .ok (.bytes (H l.flatten)) := fun d hid l => sum_sha2 _ hid l (hnew d)
  have hdup : ∀ d hid b (n : Nat), callIn H HM size Gen.sha256_sha2crypt.kdfProgram (d + 1) "sha2crypt.duplicate"
      [hid, .bytes b, .int n] = ofModel (duplicate size b (n + 1) n) :=
    fun d hid b n => duplicate_proc (ctxOf H HM size Gen.sha256_sha2crypt.kdfProgram d) hs hid b n
  have hperm : ∀ d b t, callIn H HM size Gen.sha256_sha2crypt.kdfProgram (d + 1) "cryptoutil.Permute" [.bytes b, .bytes t] =
      ofModel (permute b (t.map (·.toNat))) := fun d b t => permute_proc _ b t
  exact ⟨hnew (d + 1), hsum d, hdup (d + 1), hperm (d + 1)⟩

end GoCrypt.HashIR
