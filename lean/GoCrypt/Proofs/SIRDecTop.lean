import GoCrypt.Proofs.SIRDecTopMain

/-!
# Stream IR, decoder side: the whole `(*decoder).Read`

The paths of the generated body glued together and matched with the branches of the model's `decRead`.
Helper lemmas only; the property theorems are in `Props/SIRDecoder.lean`.
-/

namespace GoCrypt.SIR
open GoCrypt.B64IR (Buf Heap Slice Res sliceBytes writeList writeList_size writeList_append heap_set_self heap_lt_of_get padInt)
open GoCrypt.Base64LE GoCrypt.Stream GoCrypt.Gen.base64leStream

/-- None of the calls of `Decode` this `Read` makes (according to the model) panics: the final fragment into `d.outbuf`,
the chunk into `d.outbuf` when `p` is too small, the chunk into `p` otherwise. (The model's `decRead` ignores the panic
flag of `decode`; Go would panic.) -/
def DecodeNoPanic (e : Encoding) (st : DecSt) (plen : Nat) : Prop :=
  let st' := st.refill plen (st.pending + 6)
  (st'.buf.length < 4 → (decode e 768 st'.buf).panic = false) ∧
  (¬ st'.buf.length < 4 → st'.buf.length / 4 * 3 > plen → (decode e 768 (st'.buf.take (st'.buf.length / 4 * 4))).panic = false) ∧
  (¬ st'.buf.length < 4 → ¬ st'.buf.length / 4 * 3 > plen → (decode e plen (st'.buf.take (st'.buf.length / 4 * 4))).panic = false)

theorem drFor_fuel (H : Heap) (O : List Obj) (X : List Ext) (sp : Slice) (v0 v2 v3 v4 v5 v6 v7 : Val) :
    (eval ⟨H, O, X⟩ [v0, .slice sp, v2, v3, v4, v5, v6, v7] drFor.forFuel >>= asInt) =
      .ok ((1 + sp.len + 4 + pendingAll X : Nat) : Int) := by
  simp only [drFor, Stmt.forFuel, Stmt.head, Stmt.drop, decoderReadIR]
  b64_simp []
  rfl

theorem dr_split6 : decoderReadIR.body.drop 5 = (drShort ;; drMain) := rfl

theorem decoderRead_proc {lib : Lib} (hlib : DecLibSpec lib) (c c' : Ctx)
    (hnfr : ∀ W args, c.call "newlineFilteringReader.Read" W args = execProc c' nfrReadIR W args)
    (hdec : ∀ W vals, c.call "Encoding.Decode" W vals = lib "Encoding.Decode" W vals)
    (L : DecLay) (e : Encoding) (hind : DecodeIndep e) (ow : Slice) (st : DecSt) (H : Heap) (O : List Obj) (X : List Ext)
    (bp : Nat) (Bp : Buf) (hrep : DecRep L e ow st ⟨H, O, X⟩) (hbp : H[bp]? = some Bp) (hpl : Bp.size < 2 ^ 59)
    (h1 : bp ≠ L.b1) (h2 : bp ≠ L.b2) (hbb : bp ≠ L.bb) (hbo : bp ≠ L.bo)
    (hlive : Live st) (hnp : DecodeNoPanic e st Bp.size) :
    ReadPost L e bp Bp.size (decRead e st Bp.size)
      (execProc c decoderReadIR ⟨H, O, X⟩ [.ptr L.d, .slice ⟨bp, 0, Bp.size, Bp.size⟩]) := by
  by_cases hout : 0 < st.out.length
  · exact decoderRead_leftover_proc c L e ow st H O X bp Bp hrep hbp h1 h2 hbb hbo hout
  by_cases herr : st.err.isSome
  · exact decoderRead_sticky_proc c L e ow st H O X bp Bp hrep hbp hout herr
  have hout0 : st.out = [] := List.eq_nil_of_length_eq_zero (by omega)
  have herr0 : st.err = none := by
    cases h : st.err with
    | none => rfl
    | some x => rw [h] at herr; simp at herr
  have hobj := hrep.obj
  rw [herr0] at hobj
  rw [dr_body_noleft c L e ow st H O X _ hrep hout, drSticky_skip c ⟨H, O, X⟩ L.d _ _ _ _ _ _ _ _ hobj rfl, andThen_norm, dr_split4,
    exec_seq, drFor_eq, exec_for]
  unfold drEnv0
  rw [drFor_fuel, bindR_ok, Int.toNat_natCast]
  have hpend := pendingAll_ge X L.k _ hrep.rdr
  rw [pending_readerOf] at hpend
  obtain ⟨H', O', X', v4', hloop, hrep', hframe, hlive', hout', hdone⟩ :=
    drRefill_loop c c' hnfr L e ow ⟨bp, 0, Bp.size, Bp.size⟩ hpl (.int 0) (.err none) .undef .undef .undef
      (1 + Bp.size + 4 + pendingAll X) (st.pending + 6) st H O X .undef hrep hlive hout0 (fun _ => ⟨by omega, by omega⟩)
  rw [hloop, andThen_norm, dr_split6, exec_seq]
  have hbp' : H'[bp]? = some Bp := (hframe bp hbb).trans hbp
  obtain ⟨hnp1, hnp2, hnp3⟩ := hnp
  by_cases hlt : (st.refill Bp.size (st.pending + 6)).buf.length < 4
  · by_cases hfr : e.pad.isNone ∧ (st.refill Bp.size (st.pending + 6)).buf.length > 0
    · rw [decRead_short_frag e st _ hout herr hlt hfr]
      exact drShort_frag hlib c hdec L e hind ow _ H' O' X' bp Bp _ _ _ _ _ _ hrep' hbp' h1 h2 hbb hbo hlt hfr (hnp1 hlt) _
    · rw [decRead_short_plain e st _ hout herr hlt hfr]
      exact drShort_plain c L e ow _ H' O' X' bp Bp _ rfl hrep' hbp' hlt hfr _
  · rw [drShort_skip c L e ow _ H' O' X' _ rfl hrep' hlt, andThen_norm]
    by_cases hsmall : (st.refill Bp.size (st.pending + 6)).buf.length / 4 * 3 > Bp.size
    · rw [decRead_main_small e st _ hout herr hlt hsmall]
      exact drMain_small hlib c hdec L e hind ow _ H' O' X' bp Bp _ _ _ _ _ _ hrep' hbp' h1 h2 hbb hbo hlt hsmall (hnp2 hlt hsmall)
    · rw [decRead_main_direct e st _ hout herr hlt hsmall]
      exact drMain_direct hlib c hdec L e hind ow _ H' O' X' bp Bp _ _ _ _ _ _ hrep' hbp' hpl h1 h2 hbb hbo hout' hlt hsmall
        (hnp3 hlt hsmall)

/-! ## A live reader stays live -/

theorem refill_live (st : DecSt) (plen F : Nat) (h : Live st) : Live (st.refill plen F) := by
  induction F generalizing st with
  | zero => exact h
  | succ F ih =>
    rw [refill_succ]
    split
    · exact ih _ (filteredRead_live st _ _ h)
    · exact h

theorem decRead_live (e : Encoding) (st : DecSt) (plen : Nat) (h : Live st) : Live (decRead e st plen).1 := by
  by_cases hout : 0 < st.out.length
  · rw [decRead_leftover_eq e st _ hout]; exact h
  by_cases herr : st.err.isSome
  · rw [decRead_sticky_eq e st _ hout herr]; exact h
  have h' := refill_live st plen (st.pending + 6) h
  by_cases hlt : (st.refill plen (st.pending + 6)).buf.length < 4
  · by_cases hfr : e.pad.isNone ∧ (st.refill plen (st.pending + 6)).buf.length > 0
    · rw [decRead_short_frag e st _ hout herr hlt hfr]
      unfold fragRes
      split
      · exact h'
      · split <;> exact h'
    · rw [decRead_short_plain e st _ hout herr hlt hfr]; exact h'
  · by_cases hsmall : (st.refill plen (st.pending + 6)).buf.length / 4 * 3 > plen
    · rw [decRead_main_small e st _ hout herr hlt hsmall]; exact h'
    · rw [decRead_main_direct e st _ hout herr hlt hsmall]; exact h'

end GoCrypt.SIR
