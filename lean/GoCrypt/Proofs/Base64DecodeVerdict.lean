import GoCrypt.Proofs.Base64DecodeSig

/-!
# Decoder vs reference, part 2: the reference verdict against `collectS`

Pure list reasoning: how `Base64Ref.verdict` unrolls over a full quantum, and what `collectS`
returns on an incomplete final quantum, clause by clause of `verdict`.
-/

namespace GoCrypt.Base64LE
open GoCrypt.Gen.base64le GoCrypt.Spec.Base64Bits GoCrypt.Spec.Base64Ref

/-! ## `regroup`, `unusedBits`, `verdict` over a full quantum -/

theorem regroup_cons4 (d0 d1 d2 d3 : Nat) (ds : List Nat) :
    regroup (d0 :: d1 :: d2 :: d3 :: ds) = leBytes (leValue [d0, d1, d2, d3]) 3 ++ regroup ds := by
  rw [regroup]

theorem lastPartial_cons4 (d0 d1 d2 d3 : Nat) (ds : List Nat) :
    lastPartial (d0 :: d1 :: d2 :: d3 :: ds) = lastPartial ds := by
  unfold lastPartial
  have : (d0 :: d1 :: d2 :: d3 :: ds).length / 4 * 4 = ds.length / 4 * 4 + 4 := by
    simp only [List.length_cons]; omega
  rw [this]; rfl

theorem unusedBits_cons4 (d0 d1 d2 d3 : Nat) (ds : List Nat) :
    unusedBits (d0 :: d1 :: d2 :: d3 :: ds) = unusedBits ds := by
  unfold unusedBits; rw [lastPartial_cons4]

theorem length_cons4_mod (d0 d1 d2 d3 : Nat) (ds : List Nat) :
    (d0 :: d1 :: d2 :: d3 :: ds).length % 4 = ds.length % 4 := by
  simp only [List.length_cons]; omega

theorem checkUnused_cons4 (e : Encoding) (d0 d1 d2 d3 : Nat) (ds : List Nat) (stop : Nat)
    (v : Except Nat Bytes) (f : Bytes → Bytes) :
    checkUnused e (d0 :: d1 :: d2 :: d3 :: ds) stop (v.map f) = (checkUnused e ds stop v).map f := by
  unfold checkUnused
  rw [unusedBits_cons4, length_cons4_mod]
  split <;> rfl

theorem verdict_cons4 (e : Encoding) (len : Nat) (d0 d1 d2 d3 : Nat) (ds : List Nat)
    (tr : List (UInt8 × Nat)) :
    verdict e len (d0 :: d1 :: d2 :: d3 :: ds) tr =
      (verdict e len ds tr).map (leBytes (leValue [d0, d1, d2, d3]) 3 ++ ·) := by
  have hok : (Except.ok (regroup (d0 :: d1 :: d2 :: d3 :: ds)) : Except Nat Bytes) =
      (Except.ok (regroup ds)).map (leBytes (leValue [d0, d1, d2, d3]) 3 ++ ·) := by
    rw [regroup_cons4]; rfl
  unfold verdict
  simp only [length_cons4_mod]
  match tr with
  | [] =>
    simp only
    split
    · rw [hok]
    · split
      · rfl
      · rw [hok, checkUnused_cons4]
  | (c, i) :: more =>
    simp only
    split
    · rfl
    · split
      · match more with
        | [] => simp only; rw [hok, checkUnused_cons4]
        | (_, i') :: _ => exact checkUnused_cons4 e d0 d1 d2 d3 ds i' (.error i') _
      · match more with
        | [] => rfl
        | (c', i') :: more' =>
          simp only
          split
          · rfl
          · match more' with
            | [] => simp only; rw [hok, checkUnused_cons4]
            | (_, i'') :: _ => exact checkUnused_cons4 e d0 d1 d2 d3 ds i'' (.error i'') _

/-! ## `collectS` over a run of symbols -/

theorem collectS_run {e : Encoding} (wf : WellFormed e) (len : Nat) :
    ∀ (sg : List (UInt8 × Nat)) (j : Nat) (dbuf : List Nat),
    j + (sg.takeWhile fun x => isSymbol e x.1).length < 4 →
    collectS e len sg j dbuf =
      collectS e len (sg.dropWhile fun x => isSymbol e x.1)
        (j + (sg.takeWhile fun x => isSymbol e x.1).length)
        (((sg.takeWhile fun x => isSymbol e x.1).map fun x => e.dec x.1).reverse ++ dbuf) := by
  intro sg
  induction sg with
  | nil => intro j dbuf _; simp
  | cons x sg ih =>
    intro j dbuf hj
    obtain ⟨c, i⟩ := x
    by_cases hs : isSymbol e c = true
    · have hd := (isSymbol_iff wf c).1 hs
      simp only [List.takeWhile_cons, hs, if_true, List.length_cons] at hj
      simp only [List.takeWhile_cons, List.dropWhile_cons, hs, if_true, List.length_cons, List.map_cons,
        List.reverse_cons, List.append_assoc, List.singleton_append]
      have hstep : collectS e len ((c, i) :: sg) j dbuf = collectS e len sg (j + 1) (e.dec c :: dbuf) := by
        have : j ≠ 3 := by omega
        simp [collectS, hd, this]
      rw [hstep, ih (j + 1) _ (by omega)]
      congr 1; omega
    · simp only [List.takeWhile_cons, List.dropWhile_cons, hs]
      simp

/-! ## `collectS` on an incomplete final quantum, against `verdict` -/

theorem isPadding_iff (e : Encoding) (c : UInt8) : isPadding e c = true ↔ e.pad = some c := by
  simp [isPadding]

theorem checkUnused_len2 (e : Encoding) (d0 d1 stop : Nat) (v : Except Nat Bytes) :
    checkUnused e [d0, d1] stop v =
      if e.strict ∧ unusedBits [d0, d1] ≠ 0 then .error (stop - 2) else v := rfl

theorem checkUnused_len3 (e : Encoding) (d0 d1 d2 stop : Nat) (v : Except Nat Bytes) :
    checkUnused e [d0, d1, d2] stop v =
      if e.strict ∧ unusedBits [d0, d1, d2] ≠ 0 then .error (stop - 1) else v := rfl

/-- The outcome `decodeQuantum` derives from a `collect` result `.inr (si', k, _, err)` once the
strict check has passed. -/
def afterStrict (D : List Nat) (err : Option Nat) : Except Nat Bytes :=
  match err with
  | none => .ok (regroup D)
  | some o => .error o

/-- `collectS` where the symbols stop short of a full quantum: `D` holds the `k < 4` digits collected
so far and `T` is the rest, empty or starting with a byte that is not a symbol. -/
theorem collectS_tail (e : Encoding) (len : Nat) (T : List (UInt8 × Nat)) (D : List Nat)
    (hT : ∀ c i T', T = (c, i) :: T' → e.dec c = 255) (hlen : ∀ x ∈ T, x.2 < len) (hD : D.length < 4) :
    (∀ si' err, collectS e len T D.length D.reverse = .inl (si', err) →
      match err with
      | none => si' = len ∧ verdict e len D T = .ok []
      | some off => verdict e len D T = .error off) ∧
    (∀ si' dlen dbuf err, collectS e len T D.length D.reverse = .inr (si', dlen, dbuf, err) →
      dlen = D.length ∧ (D.length = 2 ∨ D.length = 3) ∧ dbuf = D.reverse ∧
      (e.pad = none ∨ 4 ≤ D.length + T.length) ∧ (err = none → si' = len) ∧
      verdict e len D T = checkUnused e D si' (afterStrict D err)) := by
  match T, hT, hlen with
  | [], _, _ =>
    -- end of text
    match D, hD with
    | [], _ => simp [collectS, verdict, regroup, leBytes]
    | [d0], _ => simp [collectS, verdict]
    | [d0, d1], _ =>
      cases hp : e.pad <;> simp [collectS, verdict, hp, afterStrict] <;> (intros; subst_vars; simp)
    | [d0, d1, d2], _ =>
      cases hp : e.pad <;> simp [collectS, verdict, hp, afterStrict] <;> (intros; subst_vars; simp)
  | (c, i) :: T1, hT, hlen =>
    have hd : e.dec c = 255 := hT c i T1 rfl
    by_cases hp : some c = e.pad
    · -- padding character
      have hp' : isPadding e c = true := (isPadding_iff e c).2 hp.symm
      match D, hD with
      | [], _ => simp [collectS, verdict, hd, hp, hp']
      | [d0], _ => simp [collectS, verdict, hd, hp, hp']
      | [d0, d1], _ =>
        match T1, hlen with
        | [], _ => simp [collectS, verdict, hd, hp, hp']
        | (c', i') :: T2, hlen =>
          by_cases hq : some c' = e.pad
          · have hq' : isPadding e c' = true := (isPadding_iff e c').2 hq.symm
            match T2, hlen with
            | [], _ =>
              simp [collectS, verdict, hd, hp, hp', hq, hq', afterStrict]
              intros; subst_vars; simp
            | (c'', i'') :: T3, hlen =>
              have : i'' < len := hlen (c'', i'') (by simp)
              simp [collectS, verdict, hd, hp, hp', hq, hq', afterStrict, this]
              intros; subst_vars; simp; omega
          · have hq' : isPadding e c' = false := by
              cases h : isPadding e c'
              · rfl
              · exact absurd ((isPadding_iff e c').1 h).symm hq
            simp [collectS, verdict, hd, hp, hp', hq, hq']
      | [d0, d1, d2], _ =>
        match T1, hlen with
        | [], _ =>
          simp [collectS, verdict, hd, hp, hp', afterStrict]
          intros; subst_vars; simp
        | (c', i') :: T2, hlen =>
          have : i' < len := hlen (c', i') (by simp)
          simp [collectS, verdict, hd, hp, hp', afterStrict, this]
          intros; subst_vars; simp; omega
    · -- foreign byte
      have hp' : isPadding e c = false := by
        cases h : isPadding e c
        · rfl
        · exact absurd ((isPadding_iff e c).1 h).symm hp
      simp [collectS, verdict, hd, hp, hp']

end GoCrypt.Base64LE
