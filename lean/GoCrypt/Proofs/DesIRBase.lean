import GoCrypt.Base.DesIR
import GoCrypt.Proofs.DesIRAttr

/-!
# Word IR: interpreter lemmas

Generic facts about `DesIR.exec`/`eval`: the result monads, one rule per statement and operator form
(stated with `desrfl`, so that `simp` records a proof step instead of asking the kernel to compare by
unfolding `exec` on a whole program), slot frames as concrete lists, statement accessors (to name the
parts of a generated body without copying its text). Helper lemmas only; the property theorems are in
`Props/DesIR.lean`.
-/

namespace GoCrypt.DesIR

/-- `rfl`, but not recognised as a definitional (`dsimp`) lemma. -/
macro "desrfl" : tactic => `(tactic| (have _h : True := trivial; exact rfl))

/-! ## The result monads -/

@[simp, desir] theorem pure_eq_ok {α : Type} (a : α) : (pure a : Res α) = .ok a := by desrfl
@[simp, desir] theorem ok_bind {α β : Type} (a : α) (f : α → Res β) : (Res.ok a >>= f) = f a := by desrfl
@[simp, desir] theorem panic_bind {α β : Type} (f : α → Res β) : (Res.panic >>= f) = .panic := by desrfl
@[simp, desir] theorem stuck_bind {α β : Type} (w : String) (f : α → Res β) : (Res.stuck w >>= f) = .stuck w := by desrfl

@[simp, desir] theorem bindR_ok {α : Type} (a : α) (k : α → Out) : bindR (.ok a) k = k a := by desrfl
@[simp, desir] theorem bindR_panic {α : Type} (k : α → Out) : bindR (.panic) k = .panic := by desrfl
@[simp, desir] theorem bindR_stuck {α : Type} (w : String) (k : α → Out) : bindR (.stuck w) k = .stuck w := by desrfl

@[simp, desir] theorem andThen_norm (env : Env) (k : Env → Out) : (Out.norm env).andThen k = k env := by desrfl
@[simp, desir] theorem andThen_ret (v : Val) (k : Env → Out) : (Out.ret v).andThen k = .ret v := by desrfl
@[simp, desir] theorem andThen_panic (k : Env → Out) : (Out.panic).andThen k = .panic := by desrfl
@[simp, desir] theorem andThen_stuck (w : String) (k : Env → Out) : (Out.stuck w).andThen k = .stuck w := by desrfl

theorem andThen_assoc (o : Out) (f g : Env → Out) : (o.andThen f).andThen g = o.andThen fun e => (f e).andThen g := by
  cases o <;> rfl

@[simp, desir] theorem asBool_bool (b : Bool) : asBool (.bool b) = .ok b := by desrfl

/-! ## Slot frames -/

@[desir] theorem lookup_zero_u64 (x : UInt64) (env : Env) : lookup (.u64 x :: env) 0 = .ok (.u64 x) := by desrfl
@[desir] theorem lookup_zero_u32 (x : UInt32) (env : Env) : lookup (.u32 x :: env) 0 = .ok (.u32 x) := by desrfl
@[desir] theorem lookup_zero_int (x : Int) (env : Env) : lookup (.int x :: env) 0 = .ok (.int x) := by desrfl
@[desir] theorem lookup_zero_tab (d : List Nat) (o : Nat) (t : Array Nat) (env : Env) :
    lookup (.tab d o t :: env) 0 = .ok (.tab d o t) := by desrfl
@[desir] theorem lookup_zero_arr (vs : List Val) (env : Env) : lookup (.arr vs :: env) 0 = .ok (.arr vs) := by desrfl
@[desir] theorem lookup_succ (v : Val) (env : Env) (x : Nat) : lookup (v :: env) (x + 1) = lookup env x := by
  simp only [lookup, List.getElem?_cons_succ]

@[desir] theorem setSlot_zero (v w : Val) (env : Env) : setSlot (v :: env) 0 w = .ok (w :: env) := by
  simp [setSlot]
@[desir] theorem setSlot_succ (v w : Val) (env : Env) (x : Nat) :
    setSlot (v :: env) (x + 1) w = (setSlot env x w >>= fun e => .ok (v :: e)) := by
  simp only [setSlot, List.length_cons, Nat.add_lt_add_iff_right, List.set_cons_succ]
  split <;> rfl

@[desir] theorem setOpt_some (env : Env) (x : Nat) (v : Val) : setOpt env (some x) v = setSlot env x v := by desrfl
@[desir] theorem setOpt_none (env : Env) (v : Val) : setOpt env none v = .ok env := by desrfl

@[desir] theorem setAll_nil (env : Env) : setAll env [] [] = .ok env := by desrfl
@[desir] theorem setAll_cons (env : Env) (x : Nat) (xs : List Nat) (v : Val) (vs : List Val) :
    setAll env (x :: xs) (v :: vs) = (setSlot env x v >>= fun e => setAll e xs vs) := by desrfl

/-! ## Operators -/

theorem shl64_lt (a : UInt64) (n : Nat) (h : n < 64) : shl64 a n = a <<< UInt64.ofNat n := if_pos h
theorem shr64_lt (a : UInt64) (n : Nat) (h : n < 64) : shr64 a n = a >>> UInt64.ofNat n := if_pos h
theorem shl32_lt (a : UInt32) (n : Nat) (h : n < 32) : shl32 a n = a <<< UInt32.ofNat n := if_pos h
theorem shr32_lt (a : UInt32) (n : Nat) (h : n < 32) : shr32 a n = a >>> UInt32.ofNat n := if_pos h

@[desir] theorem litVal_u64 (n : Nat) : litVal .u64 n = .u64 (UInt64.ofNat n) := by desrfl
@[desir] theorem litVal_u32 (n : Nat) : litVal .u32 n = .u32 (UInt32.ofNat n) := by desrfl
@[desir] theorem litVal_int (n : Nat) : litVal .int n = .int (n : Int) := by desrfl

@[desir] theorem asCount_u64 (x : UInt64) : asCount (.u64 x) = .ok x.toNat := by desrfl
@[desir] theorem asCount_u32 (x : UInt32) : asCount (.u32 x) = .ok x.toNat := by desrfl
@[desir] theorem asCount_nat (n : Nat) : asCount (.int (n : Int)) = .ok n := by
  have : ¬ ((n : Int) < 0) := by omega
  simp only [asCount, this, if_false, Int.toNat_natCast]

@[desir] theorem evalBin_shl64 (x : UInt64) (n : Nat) : evalBin .shl (.u64 x) (.int (n : Int)) = .ok (.u64 (shl64 x n)) := by
  simp only [evalBin, asCount_nat, ok_bind, pure_eq_ok]
@[desir] theorem evalBin_shr64 (x : UInt64) (n : Nat) : evalBin .shr (.u64 x) (.int (n : Int)) = .ok (.u64 (shr64 x n)) := by
  simp only [evalBin, asCount_nat, ok_bind, pure_eq_ok]
@[desir] theorem evalBin_shl32 (x : UInt32) (n : Nat) : evalBin .shl (.u32 x) (.int (n : Int)) = .ok (.u32 (shl32 x n)) := by
  simp only [evalBin, asCount_nat, ok_bind, pure_eq_ok]
@[desir] theorem evalBin_shr32 (x : UInt32) (n : Nat) : evalBin .shr (.u32 x) (.int (n : Int)) = .ok (.u32 (shr32 x n)) := by
  simp only [evalBin, asCount_nat, ok_bind, pure_eq_ok]

@[desir] theorem evalBin_and64 (x y : UInt64) : evalBin .and (.u64 x) (.u64 y) = .ok (.u64 (x &&& y)) := by desrfl
@[desir] theorem evalBin_or64 (x y : UInt64) : evalBin .or (.u64 x) (.u64 y) = .ok (.u64 (x ||| y)) := by desrfl
@[desir] theorem evalBin_xor64 (x y : UInt64) : evalBin .xor (.u64 x) (.u64 y) = .ok (.u64 (x ^^^ y)) := by desrfl
@[desir] theorem evalBin_ne64 (x y : UInt64) : evalBin .ne (.u64 x) (.u64 y) = .ok (.bool (x != y)) := by desrfl
@[desir] theorem evalBin_and32 (x y : UInt32) : evalBin .and (.u32 x) (.u32 y) = .ok (.u32 (x &&& y)) := by desrfl
@[desir] theorem evalBin_or32 (x y : UInt32) : evalBin .or (.u32 x) (.u32 y) = .ok (.u32 (x ||| y)) := by desrfl
@[desir] theorem evalBin_sub32 (x y : UInt32) : evalBin .sub (.u32 x) (.u32 y) = .ok (.u32 (x - y)) := by desrfl
@[desir] theorem evalBin_gt32 (x y : UInt32) : evalBin .gt (.u32 x) (.u32 y) = .ok (.bool (decide (y < x))) := by desrfl

@[desir] theorem convVal_u64_u32 (x : UInt32) : convVal .u64 (.u32 x) = .ok (.u64 x.toUInt64) := by desrfl

/-! ## Windows -/

@[desir] theorem tabElem_nil (off : Nat) (data : Array Nat) (i : Nat) :
    tabElem [] off data i = .u64 (UInt64.ofNat (data.getD (off + i) 0)) := by desrfl
@[desir] theorem tabElem_cons (d : Nat) (ds : List Nat) (off : Nat) (data : Array Nat) (i : Nat) :
    tabElem (d :: ds) off data i = .tab (d :: ds) (off + i * dimsSize (d :: ds)) data := by desrfl

theorem indexVal_tab (d : Nat) (ds : List Nat) (off : Nat) (data : Array Nat) (i : Nat) (h : i < d) :
    indexVal (.tab (d :: ds) off data) i = .ok (tabElem ds off data i) := by
  simp only [indexVal, h, if_true]

@[desir] theorem dimsSize_nil : dimsSize [] = 1 := by desrfl
@[desir] theorem dimsSize_cons (d : Nat) (ds : List Nat) : dimsSize (d :: ds) = d * dimsSize ds := by desrfl

theorem toNat_and_le (x m : UInt64) : (x &&& m).toNat ≤ m.toNat := by
  rw [UInt64.toNat_and]; exact Nat.and_le_right

/-! ## Statement rules -/

section rules
variable (c : Ctx) (g : Globals) (env : Env)

@[desir] theorem exec_seq (a b : Stmt) : exec c g (a ;;; b) env = (exec c g a env).andThen (exec c g b) := by desrfl
@[desir] theorem exec_skip : exec c g .skip env = .norm env := by desrfl
@[desir] theorem exec_decl (x : Nat) (t : VTy) : exec c g (.decl x t) env = bindR (setSlot env x (zeroVal t)) .norm := by desrfl
@[desir] theorem exec_assign (xs : List Nat) (es : List Expr) :
    exec c g (.assign xs es) env = bindR (evalArgs g env es) fun vals => bindR (setAll env xs vals) .norm := by desrfl
@[desir] theorem exec_store (x : Nat) (idx : List Expr) (e : Expr) :
    exec c g (.store x idx e) env =
      bindR (lookup env x) fun cv =>
      bindR (evalCounts g env idx) fun is =>
      bindR (eval g env e) fun v =>
      bindR (storeVal cv is v) fun cv' =>
      bindR (setSlot env x cv') .norm := by desrfl
@[desir] theorem exec_call (x : Nat) (f : String) (args : List Expr) :
    exec c g (.call x f args) env =
      bindR (evalArgs g env args) fun vals => bindR (c.call f vals) fun r => bindR (setSlot env x r) .norm := by desrfl
@[desir] theorem exec_ite (cnd : Expr) (t e : Stmt) :
    exec c g (.ite cnd t e) env =
      bindR (eval g env cnd >>= asBool) fun b => if b then exec c g t env else exec c g e env := by desrfl
@[desir] theorem exec_for (fuel cnd : Expr) (post body : Stmt) :
    exec c g (.for_ fuel cnd post body) env =
      bindR (eval g env fuel >>= asCount) fun n =>
        loop (fun env => eval g env cnd >>= asBool) (exec c g body) (exec c g post) n env := by desrfl
@[desir] theorem exec_range (k v : Option Nat) (e : Expr) (body : Stmt) :
    exec c g (.range k v e body) env =
      bindR (eval g env e >>= elems) fun xs => rangeLoop k v (exec c g body) 0 xs env := by desrfl
@[desir] theorem exec_ret (e : Expr) : exec c g (.ret e) env = bindR (eval g env e) .ret := by desrfl
@[desir] theorem exec_retCall (f : String) (args : List Expr) :
    exec c g (.retCall f args) env = bindR (evalArgs g env args) fun vals => bindR (c.call f vals) .ret := by desrfl

@[desir] theorem eval_lit (t : Ty) (n : Nat) : eval g env (.lit t n) = .ok (litVal t n) := by desrfl
@[desir] theorem eval_var (x : Nat) : eval g env (.var x) = lookup env x := by desrfl
theorem eval_global (name : String) (v : Val) (h : g name = some v) : eval g env (.global name) = .ok v := by
  simp only [eval, h]
@[desir] theorem eval_bin (op : BinOp) (a b : Expr) :
    eval g env (.bin op a b) = (eval g env a >>= fun x => eval g env b >>= fun y => evalBin op x y) := by desrfl
@[desir] theorem eval_conv (t : Ty) (e : Expr) : eval g env (.conv t e) = (eval g env e >>= fun v => convVal t v) := by desrfl
@[desir] theorem eval_index (a i : Expr) :
    eval g env (.index a i) =
      (eval g env a >>= fun cv => eval g env i >>= fun x => asCount x >>= fun k => indexVal cv k) := by desrfl
@[desir] theorem evalArgs_nil : evalArgs g env [] = .ok [] := by desrfl
@[desir] theorem evalArgs_cons (e : Expr) (es : List Expr) :
    evalArgs g env (e :: es) = (eval g env e >>= fun v => evalArgs g env es >>= fun vs => .ok (v :: vs)) := by desrfl
@[desir] theorem evalCounts_nil : evalCounts g env [] = .ok [] := by desrfl
@[desir] theorem evalCounts_cons (e : Expr) (es : List Expr) :
    evalCounts g env (e :: es) =
      (eval g env e >>= fun x => asCount x >>= fun v => evalCounts g env es >>= fun vs => .ok (v :: vs)) := by desrfl

@[desir] theorem rangeLoop_nil (k v : Option Nat) (body : Env → Out) (i : Nat) :
    rangeLoop k v body i [] env = .norm env := by desrfl
@[desir] theorem rangeLoop_cons (k v : Option Nat) (body : Env → Out) (i : Nat) (x : Val) (xs : List Val) :
    rangeLoop k v body i (x :: xs) env =
      bindR (setOpt env k (.int i)) fun env1 =>
      bindR (setOpt env1 v x) fun env2 =>
        (body env2).andThen (rangeLoop k v body (i + 1) xs) := by desrfl

theorem loop_eq (cond : Env → Res Bool) (body post : Env → Out) (fuel : Nat) :
    loop cond body post fuel env =
      bindR (cond env) fun b =>
        if b then
          match fuel with
          | 0 => .stuck "loop bound exceeded"
          | n + 1 => ((body env).andThen post).andThen (loop cond body post n)
        else .norm env := by
  cases fuel <;> rfl

end rules

/-! ## Statement accessors

A generated body is a right-nested chain `s₀ ;;; s₁ ;;; … ;;; sₖ`. These functions name its parts, so
that the proofs can speak about "the loop at position 3" without copying its text. -/

namespace Stmt

def drop : Nat → Stmt → Stmt
  | 0, s => s
  | n + 1, .seq _ b => drop n b
  | _ + 1, _ => .skip

def head : Stmt → Stmt
  | .seq a _ => a
  | s => s

/-- Statement number `n` of a chain (the last one when the chain has exactly `n + 1` statements). -/
def nth (n : Nat) (s : Stmt) : Stmt := (drop n s).head

def take : Nat → Stmt → Stmt
  | 0, _ => .skip
  | n + 1, .seq a b => .seq a (take n b)
  | _ + 1, s => s

def rangeBody : Stmt → Stmt
  | .range _ _ _ b => b
  | _ => .unknown "not a range loop"
def forBody : Stmt → Stmt
  | .for_ _ _ _ b => b
  | _ => .unknown "not a loop"
def forPost : Stmt → Stmt
  | .for_ _ _ p _ => p
  | _ => .unknown "not a loop"
def forCond : Stmt → Expr
  | .for_ _ c _ _ => c
  | _ => .unknown "not a loop"
def iteThen : Stmt → Stmt
  | .ite _ t _ => t
  | _ => .unknown "not an if"

end Stmt

/-- Splitting a chain at position `n`. -/
theorem exec_take_drop (c : Ctx) (g : Globals) (n : Nat) (s : Stmt) (env : Env) :
    exec c g s env = (exec c g (s.take n) env).andThen (exec c g (s.drop n)) := by
  induction n generalizing s env with
  | zero => rfl
  | succ n ih =>
    cases s with
    | seq a b =>
      simp only [Stmt.take, Stmt.drop, exec]
      cases hx : exec c g a env <;> simp only [andThen_norm, andThen_ret, andThen_panic, andThen_stuck]
      exact ih _ _
    | _ => simp only [Stmt.take, Stmt.drop] <;> (cases hx : exec c g _ env <;> simp [exec])

/-! ## Calls -/

theorem execProc_of_ret (c : Ctx) (g : Globals) (p : Proc) (args : List Val) (v : Val)
    (hn : p.nparams = args.length)
    (h : exec c g p.body (args ++ List.replicate (p.nslots - p.nparams) .undef) = .ret v) :
    execProc c g p args = .ok v := by
  unfold execProc
  rw [if_neg (by omega), h]

theorem callIn_succ (P : Program) (g : Globals) (d : Nat) (f : String) (p : Proc) (args : List Val)
    (hp : List.lookup f P.procs = some p) :
    callIn P g (d + 1) f args = execProc { call := callIn P g d } g p args := by
  rw [callIn, hp]

end GoCrypt.DesIR
