import GoCrypt.Proofs.B64IRSmall

/-!
# Buffer IR of `hash/base64le`: `Encode`

The regenerated `(*Encoding).Encode` writes `Model.encode e src` into `dst`, for every encoding with a
64-entry alphabet, every `src` and every `dst` that is long enough. Helper lemmas only.
-/

namespace GoCrypt.B64IR
open GoCrypt.Base64LE GoCrypt.Gen.base64leIR GoCrypt.Gen.base64le GoCrypt.Spec.Base64Bits

/-! ## Buffers -/

theorem writeList_eq_writeAt (buf : Buf) (off : Nat) (bs : List UInt8) : writeList buf off bs = writeAt buf off bs := by
  induction bs generalizing buf off with
  | nil => rfl
  | cons b rest ih => simp only [writeList, writeAt, ih]

theorem writeList_append (buf : Buf) (off : Nat) (a b : List UInt8) :
    writeList buf off (a ++ b) = writeList (writeList buf off a) (off + a.length) b := by
  induction a generalizing buf off with
  | nil => rfl
  | cons x rest ih =>
    simp only [List.cons_append, writeList, ih, List.length_cons]
    congr 1; omega

@[simp] theorem writeList_size (buf : Buf) (off : Nat) (bs : List UInt8) : (writeList buf off bs).size = buf.size := by
  induction bs generalizing buf off with
  | nil => rfl
  | cons b rest ih => simp [writeList, ih]

theorem heap_set_self (h : Heap) (d : Nat) (b : Buf) (hd : h[d]? = some b) : h.set d b = h := by
  apply List.ext_getElem?
  intro i
  by_cases hi : i = d
  · subst hi
    have : i < h.length := by
      rcases Nat.lt_or_ge i h.length with h' | h'
      · exact h'
      · rw [List.getElem?_eq_none h'] at hd; cases hd
    rw [List.getElem?_set_self this, hd]
  · rw [List.getElem?_set_ne (Ne.symm hi)]

theorem heap_lt_of_get {h : Heap} {d : Nat} {b : Buf} (hd : h[d]? = some b) : d < h.length := by
  rcases Nat.lt_or_ge d h.length with h' | h'
  · exact h'
  · rw [List.getElem?_eq_none h'] at hd; cases hd

/-! ## The parts of the generated body -/

/-- `if len(src) == 0 { return }; _ = enc.encode; di, si := 0, 0; n := (len(src) / 3) * 3` -/
def encPrefix : Stmt := encodeIR.body.take 4
/-- `for si < n { … }` -/
def encFor : Stmt := (encodeIR.body.drop 4).head
def encBody : Stmt := encFor.forBody
/-- everything after the loop -/
def encTail : Stmt := encodeIR.body.drop 5

theorem encFor_eq : encFor = .for_ encFor.forFuel encFor.forCond .skip encBody := rfl
theorem encBody_split : encodeIR.body.drop 4 = (encFor ;; encTail) := rfl

/-! ## One iteration of the main loop -/

theorem encBody_step (c : Ctx) (e : Encoding) (hal : e.alphabet.length = 64) (H : Heap) (d s dn : Nat) (D src : Buf)
    (di si : Nat) (vn v6 v7 v8 v9 : Val)
    (hd : H[d]? = some D) (hs : H[s]? = some src) (hdn : D.size = dn)
    (hsi : si + 2 < src.size) (hdi : di + 3 < dn) (hsz : src.size < 2 ^ 62) (hdz : dn < 2 ^ 62) :
    exec c encBody H [encVal e, .slice ⟨d, 0, dn, dn⟩, .slice ⟨s, 0, src.size, src.size⟩, .int di, .int si, vn, v6, v7, v8, v9] =
    .norm (H.set d ((((D.setIfInBounds di (e.sym (Encode_sym0 (Encode_val src[si].toNat src[si+1].toNat src[si+2].toNat)))).setIfInBounds
        (di + 1) (e.sym (Encode_sym1 (Encode_val src[si].toNat src[si+1].toNat src[si+2].toNat)))).setIfInBounds
        (di + 2) (e.sym (Encode_sym2 (Encode_val src[si].toNat src[si+1].toNat src[si+2].toNat)))).setIfInBounds
        (di + 3) (e.sym (Encode_sym3 (Encode_val src[si].toNat src[si+1].toNat src[si+2].toNat)))))
      [encVal e, .slice ⟨d, 0, dn, dn⟩, .slice ⟨s, 0, src.size, src.size⟩, .int (di + 4 : Nat), .int (si + 3 : Nat), vn,
        .int (Encode_val src[si].toNat src[si+1].toNat src[si+2].toNat), v7, v8, v9] := by
  have hdl : d < H.length := heap_lt_of_get hd
  have q := quantum_digits (src[si]).toNat_lt (src[si+1]).toNat_lt (src[si+2]).toNat_lt
  have b0 : Encode_sym0 (Encode_val src[si].toNat src[si+1].toNat src[si+2].toNat) < 64 := by rw [q.1]; exact digit_lt _ _
  have b1 : Encode_sym1 (Encode_val src[si].toNat src[si+1].toNat src[si+2].toNat) < 64 := by rw [q.2.1]; exact digit_lt _ _
  have b2 : Encode_sym2 (Encode_val src[si].toNat src[si+1].toNat src[si+2].toNat) < 64 := by rw [q.2.2.1]; exact digit_lt _ _
  have b3 : Encode_sym3 (Encode_val src[si].toNat src[si+1].toNat src[si+2].toNat) < 64 := by rw [q.2.2.2]; exact digit_lt _ _
  have i0 := indexBytes_nat e.alphabet _ (show _ < e.alphabet.length from hal ▸ b0)
  have i1 := indexBytes_nat e.alphabet _ (show _ < e.alphabet.length from hal ▸ b1)
  have i2 := indexBytes_nat e.alphabet _ (show _ < e.alphabet.length from hal ▸ b2)
  have i3 := indexBytes_nat e.alphabet _ (show _ < e.alphabet.length from hal ▸ b3)
  simp only [Encode_sym0, Encode_sym1, Encode_sym2, Encode_sym3, Encode_val] at i0 i1 i2 i3
  clear q b0 b1 b2 b3
  simp only [encBody, encFor, Stmt.forBody, Stmt.head, Stmt.drop, encodeIR, encVal]
  b64_simp [hs, hd, hdn, i0, i1, i2, i3]
  rfl

/-! ## The main loop: after `k` iterations the first `3k` bytes are encoded -/

/-- `dst` after `k` iterations of the main loop. -/
def encBuf (e : Encoding) (dst src : Buf) (k : Nat) : Buf := writeList dst 0 (encode e (src.toList.take (3 * k)))

theorem take_three (l : List UInt8) (n : Nat) (h : n + 2 < l.length) :
    l.take (n + 3) = l.take n ++ [l[n], l[n + 1], l[n + 2]] := by
  have h1 : l.take (n + 3) = l.take (n + 2) ++ [l[n + 2]] := List.take_succ_eq_append_getElem h
  have h2 : l.take (n + 2) = l.take (n + 1) ++ [l[n + 1]] := List.take_succ_eq_append_getElem (by omega)
  have h3 : l.take (n + 1) = l.take n ++ [l[n]] := List.take_succ_eq_append_getElem (by omega)
  rw [h1, h2, h3]
  simp only [List.append_assoc, List.cons_append, List.nil_append]

theorem encodedLen_three (e : Encoding) (k : Nat) : encodedLen e (3 * k) = 4 * k := by
  simp only [encodedLen, EncodedLen_eq]; split <;> omega

theorem encode_take_length (e : Encoding) (l : List UInt8) (k : Nat) (h : 3 * k ≤ l.length) :
    (encode e (l.take (3 * k))).length = 4 * k := by
  rw [encode_length_eq, List.length_take, Nat.min_eq_left h, encodedLen_three]

theorem encBuf_succ (e : Encoding) (dst src : Buf) (k : Nat) (hk : 3 * k + 2 < src.size) :
    encBuf e dst src (k + 1) =
      ((((encBuf e dst src k).setIfInBounds (4 * k) (e.sym (Encode_sym0 (Encode_val src[3 * k].toNat src[3 * k + 1].toNat src[3 * k + 2].toNat)))).setIfInBounds
        (4 * k + 1) (e.sym (Encode_sym1 (Encode_val src[3 * k].toNat src[3 * k + 1].toNat src[3 * k + 2].toNat)))).setIfInBounds
        (4 * k + 2) (e.sym (Encode_sym2 (Encode_val src[3 * k].toNat src[3 * k + 1].toNat src[3 * k + 2].toNat)))).setIfInBounds
        (4 * k + 3) (e.sym (Encode_sym3 (Encode_val src[3 * k].toNat src[3 * k + 1].toNat src[3 * k + 2].toNat))) := by
  have hl : 3 * k + 2 < src.toList.length := by simpa using hk
  unfold encBuf
  rw [show 3 * (k + 1) = 3 * k + 3 by omega, take_three _ _ hl,
    encode_append e _ _ (by rw [List.length_take]; omega), writeList_append,
    encode_take_length e _ k (by omega)]
  simp only [encode, writeList, Nat.zero_add, Array.getElem_toList]

theorem le_encodedLen (e : Encoding) (n : Nat) : n ≤ encodedLen e n ∧ 4 * (n / 3) ≤ encodedLen e n := by
  simp only [encodedLen, EncodedLen_eq]; split <;> omega

/-- Slot 6 (`val` of the loop body) after `k` iterations. -/
def encV6 (src : Buf) : Nat → Val
  | 0 => .undef
  | k + 1 => .int (Encode_val (src.getD (3 * k) 0).toNat (src.getD (3 * k + 1) 0).toNat (src.getD (3 * k + 2) 0).toNat)

/-- Heap and frame at the start of iteration `k` of the main loop. -/
def encSt (e : Encoding) (h : Heap) (d s : Nat) (dst src : Buf) (k : Nat) : Heap × Env :=
  (h.set d (encBuf e dst src k),
   [encVal e, .slice ⟨d, 0, dst.size, dst.size⟩, .slice ⟨s, 0, src.size, src.size⟩, .int (4 * k : Nat), .int (3 * k : Nat),
    .int (src.size / 3 * 3 : Nat), encV6 src k, .undef, .undef, .undef])

theorem encBuf_size (e : Encoding) (dst src : Buf) (k : Nat) : (encBuf e dst src k).size = dst.size := by
  simp [encBuf]

theorem encLoop (c : Ctx) (e : Encoding) (hal : e.alphabet.length = 64) (h : Heap) (d s : Nat) (dst src : Buf)
    (hd : h[d]? = some dst) (hs : h[s]? = some src) (hne : d ≠ s)
    (hlen : encodedLen e src.size ≤ dst.size) (hdz : dst.size < 2 ^ 62) :
    exec c encFor (encSt e h d s dst src 0).1 (encSt e h d s dst src 0).2 =
      .norm (encSt e h d s dst src (src.size / 3)).1 (encSt e h d s dst src (src.size / 3)).2 := by
  have hle := le_encodedLen e src.size
  have hdl : d < h.length := heap_lt_of_get hd
  rw [encFor_eq, exec_for]
  have hfuel : (eval (encSt e h d s dst src 0).1 (encSt e h d s dst src 0).2 encFor.forFuel >>= asInt) =
      .ok ((1 + dst.size + src.size : Nat) : Int) := by
    simp only [encFor, Stmt.forFuel, Stmt.head, Stmt.drop, encodeIR, encSt]
    b64_simp []
    rfl
  rw [hfuel, bindR_ok, Int.toNat_natCast]
  refine loop_count _ _ _ (encSt e h d s dst src) (src.size / 3) ?_ ?_ ?_ ?_ _ 0 (Nat.zero_le _) (by omega)
  · intro k hk
    simp only [encFor, Stmt.forCond, Stmt.head, Stmt.drop, encodeIR, encSt]
    b64_simp []
    exact congrArg _ (decide_eq_true (by omega))
  · simp only [encFor, Stmt.forCond, Stmt.head, Stmt.drop, encodeIR, encSt]
    b64_simp []
    exact congrArg _ (decide_eq_false (by omega))
  · intro k hk
    have hstep := encBody_step c e hal (h.set d (encBuf e dst src k)) d s dst.size (encBuf e dst src k) src
      (4 * k) (3 * k) (.int (src.size / 3 * 3 : Nat)) (encV6 src k) .undef .undef .undef
      (List.getElem?_set_self hdl) (by rw [List.getElem?_set_ne hne]; exact hs) (encBuf_size _ _ _ _)
      (by omega) (by omega) (by omega) hdz
    simp only [encSt]
    rw [hstep, andThen_norm, exec_skip, List.set_set, ← encBuf_succ e dst src k (by omega)]
    simp only [encV6, arr_getD_eq (show 3 * k < src.size by omega), arr_getD_eq (show 3 * k + 1 < src.size by omega),
      arr_getD_eq (show 3 * k + 2 < src.size by omega), Nat.mul_succ]
  · intro k hk
    have hstep := encBody_step c e hal (h.set d (encBuf e dst src k)) d s dst.size (encBuf e dst src k) src
      (4 * k) (3 * k) (.int (src.size / 3 * 3 : Nat)) (encV6 src k) .undef .undef .undef
      (List.getElem?_set_self hdl) (by rw [List.getElem?_set_ne hne]; exact hs) (encBuf_size _ _ _ _)
      (by omega) (by omega) (by omega) hdz
    exact ⟨_, _, hstep⟩

/-! ## Before the loop -/

theorem encPrefix_empty (c : Ctx) (e : Encoding) (h : Heap) (d s dn : Nat) (src : Buf) (hz : src.size = 0) :
    exec c encPrefix h ([encVal e, .slice ⟨d, 0, dn, dn⟩, .slice ⟨s, 0, src.size, src.size⟩] ++ List.replicate 7 .undef) =
      .ret h [] := by
  simp only [encPrefix, Stmt.take, encodeIR, encVal]
  b64_simp [hz]

theorem encPrefix_run (c : Ctx) (e : Encoding) (h : Heap) (d s : Nat) (dst src : Buf)
    (hd : h[d]? = some dst) (hz : src.size ≠ 0) (hsz : src.size < 2 ^ 62) :
    exec c encPrefix h ([encVal e, .slice ⟨d, 0, dst.size, dst.size⟩, .slice ⟨s, 0, src.size, src.size⟩] ++ List.replicate 7 .undef) =
      .norm (encSt e h d s dst src 0).1 (encSt e h d s dst src 0).2 := by
  have hb : encBuf e dst src 0 = dst := by simp [encBuf, encode, writeList]
  simp only [encSt, hb, heap_set_self h d dst hd]
  simp only [encPrefix, Stmt.take, encodeIR, encVal]
  b64_simp [hz]
  rfl

/-! ## After the loop: the last one or two bytes -/

theorem drop_one (l : List UInt8) (n : Nat) (h : l.length = n + 1) : l.drop n = [l[n]] := by
  rw [List.drop_eq_getElem_cons (by omega), List.drop_eq_nil_of_le (by omega)]

theorem drop_two (l : List UInt8) (n : Nat) (h : l.length = n + 2) : l.drop n = [l[n], l[n + 1]] := by
  rw [List.drop_eq_getElem_cons (by omega), List.drop_eq_getElem_cons (by omega), List.drop_eq_nil_of_le (by omega)]

set_option maxHeartbeats 1000000 in
theorem encTail_run (c : Ctx) (e : Encoding) (hal : e.alphabet.length = 64) (H : Heap) (d s dn m : Nat) (D src : Buf)
    (vn v6 : Val) (hd : H[d]? = some D) (hs : H[s]? = some src) (hdn : D.size = dn)
    (hm : m = src.size / 3) (hlen : encodedLen e src.size ≤ dn) (hdz : dn < 2 ^ 62) :
    procResult (exec c encTail H [encVal e, .slice ⟨d, 0, dn, dn⟩, .slice ⟨s, 0, src.size, src.size⟩, .int (4 * m : Nat),
        .int (3 * m : Nat), vn, v6, .undef, .undef, .undef]) =
      .ok (H.set d (writeList D (4 * m) (encode e (src.toList.drop (3 * m)))), []) := by
  have hdl : d < H.length := heap_lt_of_get hd
  have hle := le_encodedLen e src.size
  have hr : src.size - 3 * m = 0 ∨ src.size - 3 * m = 1 ∨ src.size - 3 * m = 2 := by omega
  rcases hr with hr | hr | hr
  · -- nothing left
    have : src.toList.drop (3 * m) = [] := List.drop_eq_nil_of_le (by simp; omega)
    rw [this]
    simp only [encode, writeList, heap_set_self H d D hd]
    simp only [encTail, Stmt.drop, encodeIR, encVal]
    b64_simp [hr]
    rfl
  · -- one byte
    have hl : src.toList.length = 3 * m + 1 := by simp; omega
    have h3 : 3 * m < src.size := by omega
    rw [drop_one _ _ hl]
    have t := tail1_digits (src[3 * m]).toNat_lt
    have b0 : EncodeTail_sym0 (EncodeTail_val src[3 * m].toNat) < 64 := by rw [t.1]; exact digit_lt _ _
    have b1 : EncodeTail_sym1 (EncodeTail_val src[3 * m].toNat) < 64 := by rw [t.2]; exact digit_lt _ _
    have i0 := indexBytes_nat e.alphabet _ (show _ < e.alphabet.length from hal ▸ b0)
    have i1 := indexBytes_nat e.alphabet _ (show _ < e.alphabet.length from hal ▸ b1)
    simp only [EncodeTail_sym0, EncodeTail_sym1, EncodeTail_val] at i0 i1
    clear t b0 b1
    cases hp : e.pad with
    | none =>
      have hpi : padInt e = -1 := by simp [padInt, hp]
      have hlen' : 4 * m + 2 ≤ dn := by
        simp only [encodedLen, EncodedLen_eq, hp, Option.isNone_none, if_true] at hlen; omega
      simp only [encTail, Stmt.drop, encodeIR, encVal]
      b64_simp [hr, hs, hd, hdn, i0, i1, hpi]
      simp only [Array.getElem_toList, encode, padBytes, hp, writeList, List.append_nil, procResult_norm]
      rfl
    | some p =>
      have hpi : padInt e = (p.toNat : Int) := by simp [padInt, hp]
      have hp1 : ¬ ((p.toNat : Int) = -1) := by omega
      have hpm : p.toNat % 256 = p.toNat := Nat.mod_eq_of_lt p.toNat_lt
      have hlen' : 4 * m + 4 ≤ dn := by
        simp only [encodedLen, EncodedLen_eq, hp, Option.isNone_some] at hlen; simp at hlen; omega
      simp only [encTail, Stmt.drop, encodeIR, encVal]
      b64_simp [hr, hs, hd, hdn, i0, i1, hpi, hp1, hpm]
      simp only [Array.getElem_toList, encode, padBytes, hp, writeList, List.replicate, List.cons_append, List.nil_append,
        procResult_norm]
      rfl
  · -- two bytes
    have hl : src.toList.length = 3 * m + 2 := by simp; omega
    have h3 : 3 * m + 1 < src.size := by omega
    rw [drop_two _ _ hl]
    have t := tail2_digits (src[3 * m]).toNat_lt (src[3 * m + 1]).toNat_lt
    have b0 : EncodeTail_sym0 (EncodeTail_val src[3 * m].toNat ||| EncodeTail_or src[3 * m + 1].toNat) < 64 := by
      rw [t.1]; exact digit_lt _ _
    have b1 : EncodeTail_sym1 (EncodeTail_val src[3 * m].toNat ||| EncodeTail_or src[3 * m + 1].toNat) < 64 := by
      rw [t.2.1]; exact digit_lt _ _
    have b2 : EncodeTail_sym2 (EncodeTail_val src[3 * m].toNat ||| EncodeTail_or src[3 * m + 1].toNat) < 64 := by
      rw [t.2.2]; exact digit_lt _ _
    have i0 := indexBytes_nat e.alphabet _ (show _ < e.alphabet.length from hal ▸ b0)
    have i1 := indexBytes_nat e.alphabet _ (show _ < e.alphabet.length from hal ▸ b1)
    have i2 := indexBytes_nat e.alphabet _ (show _ < e.alphabet.length from hal ▸ b2)
    simp only [EncodeTail_sym0, EncodeTail_sym1, EncodeTail_sym2, EncodeTail_val, EncodeTail_or] at i0 i1 i2
    clear t b0 b1 b2
    cases hp : e.pad with
    | none =>
      have hpi : padInt e = -1 := by simp [padInt, hp]
      have hlen' : 4 * m + 3 ≤ dn := by
        simp only [encodedLen, EncodedLen_eq, hp, Option.isNone_none, if_true] at hlen; omega
      simp only [encTail, Stmt.drop, encodeIR, encVal]
      b64_simp [hr, hs, hd, hdn, i0, i1, i2, hpi]
      simp only [Array.getElem_toList, encode, padBytes, hp, writeList, List.append_nil,
        procResult_norm]
      rfl
    | some p =>
      have hpi : padInt e = (p.toNat : Int) := by simp [padInt, hp]
      have hp1 : ¬ ((p.toNat : Int) = -1) := by omega
      have hpm : p.toNat % 256 = p.toNat := Nat.mod_eq_of_lt p.toNat_lt
      have hlen' : 4 * m + 4 ≤ dn := by
        simp only [encodedLen, EncodedLen_eq, hp, Option.isNone_some] at hlen; simp at hlen; omega
      simp only [encTail, Stmt.drop, encodeIR, encVal]
      b64_simp [hr, hs, hd, hdn, i0, i1, i2, hpi, hp1, hpm]
      simp only [Array.getElem_toList, encode, padBytes, hp, writeList, List.replicate, List.cons_append, List.nil_append,
        procResult_norm]
      rfl

/-! ## The whole function -/

theorem encode_proc (c : Ctx) (e : Encoding) (hal : e.alphabet.length = 64) (h : Heap) (d s : Nat) (dst src : Buf)
    (hd : h[d]? = some dst) (hs : h[s]? = some src) (hne : d ≠ s)
    (hlen : encodedLen e src.size ≤ dst.size) (hdz : dst.size < 2 ^ 62) :
    execProc c encodeIR h [encVal e, .slice ⟨d, 0, dst.size, dst.size⟩, .slice ⟨s, 0, src.size, src.size⟩] =
      .ok (h.set d (writeAt dst 0 (encode e src.toList)), []) := by
  have hle := le_encodedLen e src.size
  have hdl : d < h.length := heap_lt_of_get hd
  rw [execProc_eq c encodeIR h _ rfl, exec_take_drop c h _ 4]
  show procResult ((exec c encPrefix h ([encVal e, .slice ⟨d, 0, dst.size, dst.size⟩, .slice ⟨s, 0, src.size, src.size⟩] ++
    List.replicate 7 .undef)).andThen (exec c (encodeIR.body.drop 4))) = _
  by_cases hz : src.size = 0
  · rw [encPrefix_empty c e h d s dst.size src hz, procResult_andThen_ret]
    have : src.toList = [] := by
      apply List.eq_nil_of_length_eq_zero; simpa using hz
    rw [this]
    simp only [encode, writeAt, heap_set_self h d dst hd]
  · rw [encPrefix_run c e h d s dst src hd hz (by omega), andThen_norm, encBody_split, exec_seq,
      encLoop c e hal h d s dst src hd hs hne hlen hdz, andThen_norm]
    simp only [encSt]
    rw [encTail_run c e hal (h.set d (encBuf e dst src (src.size / 3))) d s dst.size (src.size / 3)
      (encBuf e dst src (src.size / 3)) src _ _ (List.getElem?_set_self hdl)
      (by rw [List.getElem?_set_ne hne]; exact hs) (encBuf_size _ _ _ _) rfl hlen hdz]
    rw [List.set_set, ← writeList_eq_writeAt]
    congr 2
    have hsplit : src.toList = src.toList.take (3 * (src.size / 3)) ++ src.toList.drop (3 * (src.size / 3)) :=
      (List.take_append_drop _ _).symm
    conv => rhs; rw [hsplit]
    rw [encode_append e _ _ (by rw [List.length_take]; simp; omega), writeList_append,
      encode_take_length e _ _ (by simp; omega), Nat.zero_add]
    rfl

end GoCrypt.B64IR
