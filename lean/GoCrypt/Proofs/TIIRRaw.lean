import GoCrypt.Proofs.TIIRIndirect

/-!
# Type-info IR: `getRawTypeInfo`

The regenerated `getRawTypeInfo` (function number 2 of `Gen.typeinfoIR.program`) builds, on the heap, exactly
the field list `Model/TagInfo.lean: rawFields` (`RawSpec`), given what the field-building part of its loop body
does (`FieldPartSpec`, proved in `TIIRField.lean`). Helper lemmas only; everything lives in `GoCrypt.TIIR.Raw`.
-/

namespace GoCrypt.TIIR.Raw
open GoCrypt.Codec GoCrypt.Gen.typeinfoIR GoCrypt.TIIR

/-! ## Lists, heaps -/

theorem env21 (env : Env) (h : env.length = 21) :
    ∃ v0 v1 v2 v3 v4 v5 v6 v7 v8 v9 v10 v11 v12 v13 v14 v15 v16 v17 v18 v19 v20,
      env = [v0, v1, v2, v3, v4, v5, v6, v7, v8, v9, v10, v11, v12, v13, v14, v15, v16, v17, v18, v19, v20] := by
  iterate 21 (rcases env with _ | ⟨v, env⟩; · simp at h)
  rcases env with _ | ⟨v, env⟩
  · exact ⟨_, _, _, _, _, _, _, _, _, _, _, _, _, _, _, _, _, _, _, _, _, rfl⟩
  · simp at h

theorem lookup_get (env : Env) (x : Nat) (v : Val) (h : env[x]? = some v) (hv : v ≠ .undef) : lookup env x = .ok v := by
  unfold lookup
  rw [h]
  cases v <;> first | rfl | exact absurd rfl hv

theorem get_lt {α : Type} {l : List α} {i : Nat} {a : α} (h : l[i]? = some a) : i < l.length := by
  rcases List.getElem?_eq_some_iff.mp h with ⟨h', _⟩
  exact h'

/-- `hc` still starts with `h`. -/
def Pre (h hc : Heap) : Prop := h.length ≤ hc.length ∧ ∀ y, y < h.length → hc[y]? = h[y]?

theorem Pre.toExt {h hc : Heap} (p : Pre h hc) : h ++ hc.drop h.length = hc := by
  apply List.ext_getElem?
  intro j
  by_cases hj : j < h.length
  · rw [List.getElem?_append_left hj, p.2 j hj]
  · rw [List.getElem?_append_right (by omega), List.getElem?_drop]
    congr 1; omega

/-! ## `Reps` -/

theorem Reps_congr {h h' : Heap} : ∀ {addrs : List Nat} {fis : List FieldInfo},
    (∀ x ∈ addrs, h'[x]? = h[x]?) → Reps h addrs fis → Reps h' addrs fis
  | [], [], _, _ => trivial
  | [], _ :: _, _, hr => hr.elim
  | _ :: _, [], _, hr => hr.elim
  | a :: as, fi :: fis, hx, hr => by
    refine ⟨?_, Reps_congr (fun x hxm => hx x (List.mem_cons_of_mem _ hxm)) hr.2⟩
    rw [hx a (List.mem_cons_self ..)]; exact hr.1

theorem Reps_append {h : Heap} : ∀ {a1 : List Nat} {f1 : List FieldInfo} {a2 : List Nat} {f2 : List FieldInfo},
    Reps h a1 f1 → Reps h a2 f2 → Reps h (a1 ++ a2) (f1 ++ f2)
  | [], [], _, _, _, h2 => h2
  | [], _ :: _, _, _, h1, _ => h1.elim
  | _ :: _, [], _, _, h1, _ => h1.elim
  | _ :: _, _ :: _, _, _, h1, h2 => ⟨h1.1, Reps_append h1.2 h2⟩

theorem Reps_length {h : Heap} : ∀ {a : List Nat} {f : List FieldInfo}, Reps h a f → a.length = f.length
  | [], [], _ => rfl
  | [], _ :: _, h1 => h1.elim
  | _ :: _, [], h1 => h1.elim
  | _ :: _, _ :: _, h1 => by simp [Reps_length h1.2]

theorem Reps_lt {h : Heap} : ∀ {a : List Nat} {f : List FieldInfo}, Reps h a f → ∀ x ∈ a, x < h.length
  | [], [], _ => by simp
  | [], _ :: _, h1 => h1.elim
  | _ :: _, [], h1 => h1.elim
  | a :: as, _ :: _, h1 => by
    intro x hx
    rcases List.mem_cons.mp hx with rfl | hx
    · exact get_lt h1.1
    · exact Reps_lt h1.2 x hx

/-! ## The model, one field at a time -/

/-- The skip test of the model. -/
def skipB (f : GoField) : Bool := (!f.exported && !f.anonymous) || f.tag = tagDash

/-- The per-field function of `rawFields`. -/
def G (structs : List GoStruct) (fuel : Nat) : GoField × Nat → List FieldInfo := fun (f, i) =>
  if (!f.exported && !f.anonymous) || f.tag = tagDash then []
  else
    let embedded : Option GoStruct :=
      if f.anonymous then
        match f.kind with
        | .structRef n => Codec.lookupStruct structs n
        | _ => none
      else none
    match embedded with
    | some st => (rawFields structs fuel st).map fun fi => { fi with index := i :: fi.index }
    | none =>
      [{ index := [i], name := f.name, kind := f.kind, ptrDepth := f.ptrDepth, typeName := f.typeName, tag := f.tag,
         marshalText := f.marshalText, unmarshalText := f.unmarshalText, opts := fieldOpts f }]

theorem rawFields_succ (structs : List GoStruct) (fuel : Nat) (s : GoStruct) :
    rawFields structs (fuel + 1) s = (s.fields.zipIdx).flatMap (G structs fuel) := rfl

theorem G_eq (structs : List GoStruct) (fuel : Nat) (f : GoField) (i : Nat) :
    G structs fuel (f, i) =
      if skipB f = true then [] else
        match (if f.anonymous then
            (match f.kind with
             | .structRef n => Codec.lookupStruct structs n
             | _ => none) else none : Option GoStruct) with
        | some st => (rawFields structs fuel st).map fun fi => { fi with index := i :: fi.index }
        | none => [fieldInfoOf f i] := rfl

theorem G_skip (structs : List GoStruct) (fuel : Nat) (f : GoField) (i : Nat) (h : skipB f = true) :
    G structs fuel (f, i) = [] := by
  rw [G_eq, if_pos h]

theorem G_embed (structs : List GoStruct) (fuel : Nat) (f : GoField) (i : Nat) (n : String) (st : GoStruct)
    (h : skipB f = false) (ha : f.anonymous = true) (hk : f.kind = .structRef n)
    (hl : Codec.lookupStruct structs n = some st) :
    G structs fuel (f, i) = (rawFields structs fuel st).map fun fi => { fi with index := i :: fi.index } := by
  rw [G_eq, if_neg (by simp [h])]
  simp only [ha, hk, hl, if_true]

theorem G_plain (structs : List GoStruct) (fuel : Nat) (f : GoField) (i : Nat)
    (h : skipB f = false) (hk : f.anonymous = false ∨ ∀ n, f.kind ≠ .structRef n) :
    G structs fuel (f, i) = [fieldInfoOf f i] := by
  rw [G_eq, if_neg (by simp [h])]
  rcases hk with ha | hk
  · simp [ha]
  · cases hk' : f.kind with
    | structRef n => exact absurd hk' (hk n)
    | _ => cases f.anonymous <;> simp

/-- The per-field test of `fitsFuel`. -/
def fitsField (structs : List GoStruct) (fuel : Nat) (f : GoField) : Bool :=
  if (!f.exported && !f.anonymous) || f.tag = tagDash then true
  else if f.anonymous then
    match f.kind with
    | .structRef n =>
      match Codec.lookupStruct structs n with
      | some st => fitsFuel structs fuel st
      | none => false
    | _ => true
  else true

theorem fitsFuel_succ (structs : List GoStruct) (fuel : Nat) (s : GoStruct) :
    fitsFuel structs (fuel + 1) s = s.fields.all (fitsField structs fuel) := rfl

theorem fitsField_eq (structs : List GoStruct) (fuel : Nat) (f : GoField) :
    fitsField structs fuel f =
      if skipB f = true then true
      else if f.anonymous then
        match f.kind with
        | .structRef n =>
          match Codec.lookupStruct structs n with
          | some st => fitsFuel structs fuel st
          | none => false
        | _ => true
      else true := rfl

theorem fitsField_embed (structs : List GoStruct) (fuel : Nat) (f : GoField) (n : String)
    (hfit : fitsField structs fuel f = true)
    (h : skipB f = false) (ha : f.anonymous = true) (hk : f.kind = .structRef n) :
    ∃ st, Codec.lookupStruct structs n = some st ∧ fitsFuel structs fuel st = true := by
  rw [fitsField_eq, if_neg (by simp [h])] at hfit
  simp only [ha, hk, if_true] at hfit
  cases hl : Codec.lookupStruct structs n with
  | none => simp [hl] at hfit
  | some st => exact ⟨st, rfl, by simpa [hl] using hfit⟩

/-! ## The pieces of the program -/

def condExpr : Expr := .bin .lt (.var 2) (.ext1 .typeNumField (.var 0))
def postStmt : Stmt := .assign [.var 2] [(.bin .add (.var 2) (.int 1))]
def stSf : Stmt := .assign [.var 3] [(.ext2 .typeField (.var 0) (.var 2))]
def stTag : Stmt := .assign [.var 4] [(.ext2 .tagGet (.ext1 .sfTag (.var 3)) (.str [104, 97, 115, 104]))]
def stSkip : Stmt :=
  .ite (.lor (.land (.ne (.ext1 .sfPkgPath (.var 3)) (.str [])) (.not (.ext1 .sfAnonymous (.var 3)))) (.eq (.var 4) (.str [45])))
    .cont .skip
def stripCond : Expr := .eq (.ext1 .typeKind (.var 5)) (.int 22)
def stripBody : Stmt := .assign [.var 5] [(.ext1 .typeElem (.var 5))]
def stripLoop : Stmt := .for_ stripCond .skip stripBody
def rangeCond : Expr := .bin .lt (.var 18) (.len (.var 17))
def rangePost : Stmt := .assign [.var 18] [(.bin .add (.var 18) (.int 1))]
def stIndexUpd : Stmt := .assign [.fld (.var 6) 0] [(.appendAll (.ints1 (.var 2)) (.fld (.var 6) 0))]
def stAppend (slot : Nat) : Stmt := .assign [.fld (.var 1) 3] [(.append1 (.fld (.var 1) 3) (.var slot))]
def rangeBody : Stmt := .assign [.var 6] [(.index (.var 17) (.var 18))] ;; stIndexUpd ;; stAppend 6
def rangeLoop : Stmt := .for_ rangeCond rangePost rangeBody
def embedPart : Stmt :=
  .call [.var 16] 2 [(.var 5)] ;; .assign [.var 17, .var 18] [(.fld (.var 16) 3), (.int 0)] ;; rangeLoop ;; .cont
def structTest : Stmt := .ite (.eq (.ext1 .typeKind (.var 5)) (.int 25)) embedPart .skip
def stAnon : Stmt :=
  .ite (.ext1 .sfAnonymous (.var 3)) (.assign [.var 5] [(.ext1 .sfType (.var 3))] ;; stripLoop ;; structTest) .skip
def head4 : Stmt := stSf ;; stTag ;; stSkip ;; stAnon ;; .skip

theorem rawLoop_eq : rawLoop = .for_ condExpr postStmt rawBody := rfl
theorem rawBody_take4 : rawBody.take 4 = head4 := rfl
theorem rawBody_drop11 : (rawBody.drop 4).drop 7 = stAppend 7 := rfl
theorem body_eq : getRawTypeInfoIR.body =
    (.alloc 15 [.nil, (.var 0), .nil, .emptyPtrs, (.int 0)] ;; .assign [.var 1] [(.var 15)] ;; .assign [.var 2] [(.int 0)] ;;
      rawLoop ;; .ret [(.var 1)]) := rfl

/-- The body: the first four statements, the field-building part, the final append. -/
theorem exec_rawBody (c : Ctx) (h : Heap) (env : Env) :
    exec c rawBody h env =
      (exec c head4 h env).andThen fun h env => (exec c fieldPart h env).andThen (exec c (stAppend 7)) := by
  rw [exec_take_drop c h env 4 rawBody, rawBody_take4]
  congr 1
  funext h env
  rw [exec_take_drop c h env 7 (rawBody.drop 4), rawBody_drop11]
  rfl

/-! ## Single statements on an arbitrary frame -/

theorem exec_stAppend (c : Ctx) (H : Heap) (env : Env) (t x slot : Nat) (typ : RType) (L : List Nat)
    (h1 : env[1]? = some (.ptr t)) (hs : env[slot]? = some (.ptr x)) (ht : H[t]? = some (tiObj .nil typ .nil L 0)) :
    exec c (stAppend slot) H env = .norm (H.set t (tiObj .nil typ .nil (L ++ [x]) 0)) env := by
  ti_simp [stAppend, h1, hs, ht, tiObj, fieldOf]

theorem exec_postStmt (c : Ctx) (H : Heap) (env : Env) (i : Nat) (h2 : env[2]? = some (.int i)) :
    exec c postStmt H env = .norm H (env.set 2 (.int ((i + 1 : Nat) : Int))) := by
  have l2 := lookup_get env 2 _ h2 (by simp)
  have := get_lt h2
  simp only [postStmt, exec_assign, evalLHSs, evalLHS, evalArgs, eval, l2, ok_bind, bindR_ok, pure_eq_ok, asInt_int,
    evalBin_add, storeAll, store, this, if_true]
  rfl

theorem structOf_of (structs : List GoStruct) (typ : RType) (n : String) (s : GoStruct)
    (hd : typ.depth = 0) (hk : typ.kind = .structRef n) (hl : Codec.lookupStruct structs n = some s) :
    structOf structs typ = .ok s := by
  have hl' : TIIR.lookupStruct structs n = some s := hl
  simp [structOf, hd, hk, hl']

theorem eval_cond (c : Ctx) (H : Heap) (env : Env) (typ : RType) (s : GoStruct) (i : Nat)
    (hs : structOf c.structs typ = .ok s) (h0 : env[0]? = some (.rtype typ)) (h2 : env[2]? = some (.int i)) :
    (eval c.structs H env condExpr >>= asBool) = .ok (decide (i < s.fields.length)) := by
  have l0 := lookup_get env 0 _ h0 (by simp)
  have l2 := lookup_get env 2 _ h2 (by simp)
  simp only [condExpr, eval, l0, l2, ok_bind, pure_eq_ok, asInt_int, ext1_typeNumField, hs, evalBin_lt, asBool_bool,
    natCast_lt_natCast]

theorem typeField_eq (structs : List GoStruct) (typ : RType) (s : GoStruct) (i : Nat) (f : GoField)
    (hs : structOf structs typ = .ok s) (hf : s.fields[i]? = some f) :
    ext2 structs .typeField (.rtype typ) (.int (i : Int)) = .ok (.sfield f i) := by
  rw [ext2_typeField, hs]
  have : ¬ ((i : Int) < 0) := by omega
  simp [this, hf]

section
variable (v1 v3 v4 v5 v6 v7 v8 v9 v10 v11 v12 v13 v14 v15 v16 v17 v18 v19 v20 : Val)

theorem head4_start (c : Ctx) (hc : Heap) (typ : RType) (s : GoStruct) (i : Nat) (f : GoField)
    (hs : structOf c.structs typ = .ok s) (hf : s.fields[i]? = some f) :
    exec c head4 hc [.rtype typ, v1, .int i, v3, v4, v5, v6, v7, v8, v9, v10, v11, v12, v13, v14, v15, v16, v17, v18, v19, v20] =
      if skipB f = true then
        .cont hc [.rtype typ, v1, .int i, .sfield f i, .str f.tag, v5, v6, v7, v8, v9, v10, v11, v12, v13, v14, v15, v16, v17, v18, v19, v20]
      else
        exec c (stAnon ;; .skip) hc [.rtype typ, v1, .int i, .sfield f i, .str f.tag, v5, v6, v7, v8, v9, v10, v11, v12, v13, v14, v15, v16, v17, v18, v19, v20] := by
  have htf := typeField_eq c.structs typ s i f hs hf
  unfold skipB tagDash
  cases hexp : f.exported <;> cases hanon : f.anonymous <;> by_cases htag : f.tag = [45] <;>
    ti_simp [head4, stSf, stTag, stSkip, htf, hexp, hanon, htag, List.cons_ne_nil, eq_self]

end
theorem set_self {α : Type} (l : List α) (i : Nat) (a : α) (h : l[i]? = some a) : l.set i a = l := by
  apply List.ext_getElem?
  intro j
  rw [List.getElem?_set]
  by_cases hij : i = j
  · subst hij; rw [if_pos rfl, if_pos (get_lt h), h]
  · simp [hij]

theorem kindNum_struct (t : RType) (hd : t.depth = 0) : (kindNum t = 25) = (∃ n, t.kind = .structRef n) := by
  apply propext
  unfold kindNum
  have h0 : ¬ t.depth > 0 := by omega
  simp only [h0, if_false]
  cases t.kind <;> simp <;> (repeat' split) <;> omega

theorem strip_cond (c : Ctx) (H : Heap) (env : Env) (t : RType) (h5 : env[5]? = some (.rtype t)) :
    (eval c.structs H env stripCond >>= asBool) = .ok (decide (kindNum t = 22)) := by
  ti_simp [stripCond, h5]

theorem strip_loop (c : Ctx) (H : Heap) (fuel : Nat) : ∀ (t : RType) (env : Env), t.depth ≤ fuel → env[5]? = some (.rtype t) →
    loop (fun h env => eval c.structs h env stripCond >>= asBool) (exec c stripBody) (exec c .skip) fuel H env
      = .norm H (env.set 5 (.rtype { t with depth := 0 })) := by
  have base : ∀ (fuel : Nat) (t : RType) (env : Env), t.depth = 0 → env[5]? = some (.rtype t) →
      loop (fun h env => eval c.structs h env stripCond >>= asBool) (exec c stripBody) (exec c .skip) fuel H env
        = .norm H (env.set 5 (.rtype { t with depth := 0 })) := by
    intro fuel t env hd h5
    have hk : ¬ kindNum t = 22 := by rw [kindNum_ptr]; omega
    rw [loop_false _ _ _ _ _ _ (by rw [strip_cond c H env t h5]; simp [hk])]
    have : ({ t with depth := 0 } : RType) = t := by cases t; simp_all
    rw [this, set_self _ _ _ h5]
  induction fuel with
  | zero => intro t env ht h5; exact base 0 t env (by omega) h5
  | succ fuel ih =>
    intro t env ht h5
    by_cases hd : t.depth = 0
    · exact base _ t env hd h5
    · obtain ⟨d, hd'⟩ : ∃ d, t.depth = d + 1 := ⟨t.depth - 1, by omega⟩
      have hk : kindNum t = 22 := by rw [kindNum_ptr]; omega
      rw [loop_step _ _ _ _ _ _ (by rw [strip_cond c H env t h5]; simp [hk])]
      have h5l := get_lt h5
      have hb : exec c stripBody H env = .norm H (env.set 5 (.rtype { t with depth := d })) := by
        ti_simp [stripBody, h5, elemOf_succ t d hd']
      rw [hb]
      ti_simp
      have := ih { t with depth := d } (env.set 5 (.rtype { t with depth := d })) (by simp; omega)
        (by rw [List.getElem?_set_self h5l])
      rw [this]
      simp

theorem exec_stripLoop (c : Ctx) (H : Heap) (t : RType) (env : Env) (ht : t.depth ≤ c.fuel) (h5 : env[5]? = some (.rtype t)) :
    exec c stripLoop H env = .norm H (env.set 5 (.rtype { t with depth := 0 })) := by
  rw [stripLoop, exec_for]
  exact strip_loop c H c.fuel t env ht h5

theorem structTest_no (c : Ctx) (H : Heap) (env : Env) (t : RType) (h5 : env[5]? = some (.rtype t)) (hk : ¬ kindNum t = 25) :
    exec c structTest H env = .norm H env := by
  ti_simp [structTest, h5, hk]

theorem structTest_yes (c : Ctx) (H : Heap) (env : Env) (t : RType) (h5 : env[5]? = some (.rtype t)) (hk : kindNum t = 25) :
    exec c structTest H env = exec c embedPart H env := by
  ti_simp [structTest, h5, hk]

section
variable (v0 v1 v2 v3 v4 v5 v6 v7 v8 v9 v10 v11 v12 v13 v14 v15 v16 v17 v18 v19 v20 : Val)

theorem stAnon_nonanon (c : Ctx) (hc : Heap) (f : GoField) (i : Nat) (hanon : f.anonymous = false) :
    exec c (stAnon ;; .skip) hc [v0, v1, v2, .sfield f i, v4, v5, v6, v7, v8, v9, v10, v11, v12, v13, v14, v15, v16, v17, v18, v19, v20] =
      .norm hc [v0, v1, v2, .sfield f i, v4, v5, v6, v7, v8, v9, v10, v11, v12, v13, v14, v15, v16, v17, v18, v19, v20] := by
  ti_simp [stAnon, hanon]

theorem stAnon_anon (c : Ctx) (hc : Heap) (f : GoField) (i : Nat) (hanon : f.anonymous = true) (hd : f.ptrDepth ≤ c.fuel) :
    exec c (stAnon ;; .skip) hc [v0, v1, v2, .sfield f i, v4, v5, v6, v7, v8, v9, v10, v11, v12, v13, v14, v15, v16, v17, v18, v19, v20] =
      exec c structTest hc [v0, v1, v2, .sfield f i, v4, .rtype { fieldType f with depth := 0 }, v6, v7, v8, v9, v10, v11, v12, v13, v14, v15, v16, v17, v18, v19, v20] := by
  ti_simp [stAnon, hanon]
  rw [exec_stripLoop c hc (fieldType f) _ hd (by rfl)]
  ti_simp
  cases exec c structTest hc _ <;> rfl

end
/-- The model's re-indexing of a flattened field. -/
def pfx (i : Nat) (fi : FieldInfo) : FieldInfo := { fi with index := i :: fi.index }

theorem exec_stIndexUpd (c : Ctx) (H : Heap) (env : Env) (x i : Nat) (fi : FieldInfo)
    (h6 : env[6]? = some (.ptr x)) (h2 : env[2]? = some (.int i)) (hx : H[x]? = some (fiObj fi)) :
    exec c stIndexUpd H env = .norm (H.set x (fiObj (pfx i fi))) env := by
  ti_simp [stIndexUpd, h6, h2, hx, fieldOf, fiObj]
  rfl

theorem range_cond (c : Ctx) (H : Heap) (env : Env) (all : List Nat) (k : Nat)
    (h17 : env[17]? = some (.ptrs all)) (h18 : env[18]? = some (.int k)) :
    (eval c.structs H env rangeCond >>= asBool) = .ok (decide (k < all.length)) := by
  ti_simp [rangeCond, h17, h18]

theorem exec_rangePost (c : Ctx) (H : Heap) (env : Env) (k : Nat) (h18 : env[18]? = some (.int k)) :
    exec c rangePost H env = .norm H (env.set 18 (.int ((k + 1 : Nat) : Int))) := by
  have := get_lt h18
  ti_simp [rangePost, h18]

theorem exec_rangeBody (c : Ctx) (H : Heap) (env : Env) (t x i k : Nat) (typ : RType) (all L : List Nat) (fi : FieldInfo)
    (hlen : env.length = 21) (h1 : env[1]? = some (.ptr t)) (h2 : env[2]? = some (.int i))
    (h17 : env[17]? = some (.ptrs all)) (h18 : env[18]? = some (.int k)) (hk : all[k]? = some x)
    (ht : H[t]? = some (tiObj .nil typ .nil L 0)) (hx : H[x]? = some (fiObj fi)) (hxt : x ≠ t) :
    exec c rangeBody H env =
      .norm ((H.set x (fiObj (pfx i fi))).set t (tiObj .nil typ .nil (L ++ [x]) 0)) (env.set 6 (.ptr x)) := by
  have e6 : (env.set 6 (.ptr x))[6]? = some (.ptr x) := List.getElem?_set_self (by omega)
  have e2 : (env.set 6 (.ptr x))[2]? = some (.int i) := by rw [List.getElem?_set_ne (by omega)]; exact h2
  have e1 : (env.set 6 (.ptr x))[1]? = some (.ptr t) := by rw [List.getElem?_set_ne (by omega)]; exact h1
  have ht' : (H.set x (fiObj (pfx i fi)))[t]? = some (tiObj .nil typ .nil L 0) := by
    rw [List.getElem?_set_ne hxt]; exact ht
  ti_simp [rangeBody, h17, h18, indexVal_ptrs all k x hk]
  rw [exec_stIndexUpd c H _ x i fi e6 e2 hx]
  ti_simp
  exact exec_stAppend c _ _ t x 6 typ L e1 e6 ht'

theorem range_loop (c : Ctx) (t i : Nat) (typ : RType) (all : List Nat) :
    ∀ (rem : List Nat) (lf k : Nat) (H : Heap) (env : Env) (L : List Nat) (fis : List FieldInfo),
      rem.length ≤ lf → all.drop k = rem →
      env.length = 21 → env[1]? = some (.ptr t) → env[2]? = some (.int i) → env[17]? = some (.ptrs all) →
      env[18]? = some (.int k) →
      H[t]? = some (tiObj .nil typ .nil L 0) → Reps H rem fis → rem.Nodup → t ∉ rem →
      ∃ H' env', loop (fun h env => eval c.structs h env rangeCond >>= asBool) (exec c rangeBody) (exec c rangePost) lf H env
          = .norm H' env' ∧
        env'.length = 21 ∧ env'[0]? = env[0]? ∧ env'[1]? = env[1]? ∧ env'[2]? = env[2]? ∧
        H'.length = H.length ∧ H'[t]? = some (tiObj .nil typ .nil (L ++ rem) 0) ∧ Reps H' rem (fis.map (pfx i)) ∧
        ∀ y, y ∉ rem → y ≠ t → H'[y]? = H[y]? := by
  intro rem
  induction rem with
  | nil =>
    intro lf k H env L fis _ hdrop hlen h1 h2 h17 h18 ht hr _ _
    have hk : ¬ k < all.length := by
      intro hk
      have := congrArg List.length hdrop
      simp at this; omega
    refine ⟨H, env, ?_, hlen, rfl, rfl, rfl, rfl, by simpa using ht, ?_, fun _ _ _ => rfl⟩
    · rw [loop_false _ _ _ _ _ _ (by rw [range_cond c H env all k h17 h18]; simp [hk])]
    · cases fis with
      | nil => trivial
      | cons _ _ => exact hr.elim
  | cons x rem ih =>
    intro lf k H env L fis hlf hdrop hlen h1 h2 h17 h18 ht hr hnd htn
    cases fis with
    | nil => exact hr.elim
    | cons fi fis =>
    obtain ⟨hx, hr⟩ := hr
    obtain ⟨lf, rfl⟩ : ∃ lf', lf = lf' + 1 := ⟨lf - 1, by simp at hlf; omega⟩
    have hkl : k < all.length := by
      have := congrArg List.length hdrop
      simp at this; omega
    have hkx : all[k]? = some x := by
      rw [List.drop_eq_getElem_cons hkl] at hdrop
      rw [List.getElem?_eq_getElem hkl]
      exact congrArg some (List.cons.inj hdrop).1
    have hdrop' : all.drop (k + 1) = rem := by
      rw [List.drop_eq_getElem_cons hkl] at hdrop
      exact (List.cons.inj hdrop).2
    have hxt : x ≠ t := fun e => htn (e ▸ List.mem_cons_self ..)
    obtain ⟨hxr, hnd'⟩ := List.nodup_cons.mp hnd
    have htn' : t ∉ rem := fun hm => htn (List.mem_cons_of_mem _ hm)
    rw [loop_step _ _ _ _ _ _ (by rw [range_cond c H env all k h17 h18]; simp [hkl])]
    rw [exec_rangeBody c H env t x i k typ all L fi hlen h1 h2 h17 h18 hkx ht hx hxt]
    have e18 : (env.set 6 (.ptr x))[18]? = some (.int k) := by rw [List.getElem?_set_ne (by omega)]; exact h18
    rw [afterBody_norm, exec_rangePost c _ _ k e18, afterPost_norm]
    have hxl := get_lt hx
    have htl := get_lt ht
    obtain ⟨H', env', hloop, hl', h0', h1', h2', hHl, hHt, hRep, hframe⟩ :=
      ih lf (k + 1) ((H.set x (fiObj (pfx i fi))).set t (tiObj .nil typ .nil (L ++ [x]) 0))
        ((env.set 6 (.ptr x)).set 18 (.int ((k + 1 : Nat) : Int))) (L ++ [x]) fis
        (by simp at hlf; omega) hdrop' (by simp [hlen])
        (by rw [List.getElem?_set_ne (by omega), List.getElem?_set_ne (by omega)]; exact h1)
        (by rw [List.getElem?_set_ne (by omega), List.getElem?_set_ne (by omega)]; exact h2)
        (by rw [List.getElem?_set_ne (by omega), List.getElem?_set_ne (by omega)]; exact h17)
        (by rw [List.getElem?_set_self (by simp; omega)])
        (by rw [List.getElem?_set_self (by simp; omega)])
        (Reps_congr (fun y hy => by
          have hyx : x ≠ y := fun e => hxr (e ▸ hy)
          have hyt : t ≠ y := fun e => htn' (e ▸ hy)
          rw [List.getElem?_set_ne hyt, List.getElem?_set_ne hyx]) hr)
        hnd' htn'
    refine ⟨H', env', hloop, hl', ?_, ?_, ?_, ?_, ?_, ?_, ?_⟩
    · rw [h0', List.getElem?_set_ne (by omega), List.getElem?_set_ne (by omega)]
    · rw [h1', List.getElem?_set_ne (by omega), List.getElem?_set_ne (by omega)]
    · rw [h2', List.getElem?_set_ne (by omega), List.getElem?_set_ne (by omega)]
    · rw [hHl]; simp
    · rw [hHt]; simp
    · refine ⟨?_, hRep⟩
      rw [hframe x hxr hxt, List.getElem?_set_ne (Ne.symm hxt), List.getElem?_set_self hxl]
    · intro y hy hyt
      have hyx : x ≠ y := fun e => hy (e ▸ List.mem_cons_self ..)
      have hyr : y ∉ rem := fun hm => hy (List.mem_cons_of_mem _ hm)
      rw [hframe y hyr hyt, List.getElem?_set_ne (Ne.symm hyt), List.getElem?_set_ne hyx]

theorem exec_rangeLoop (c : Ctx) (t i : Nat) (typ : RType) (all : List Nat) (H : Heap) (env : Env) (L : List Nat)
    (fis : List FieldInfo) (hfuel : all.length ≤ c.fuel)
    (hlen : env.length = 21) (h1 : env[1]? = some (.ptr t)) (h2 : env[2]? = some (.int i))
    (h17 : env[17]? = some (.ptrs all)) (h18 : env[18]? = some (.int 0))
    (ht : H[t]? = some (tiObj .nil typ .nil L 0)) (hr : Reps H all fis) (hnd : all.Nodup) (htn : t ∉ all) :
    ∃ H' env', exec c rangeLoop H env = .norm H' env' ∧
      env'.length = 21 ∧ env'[0]? = env[0]? ∧ env'[1]? = env[1]? ∧ env'[2]? = env[2]? ∧
      H'.length = H.length ∧ H'[t]? = some (tiObj .nil typ .nil (L ++ all) 0) ∧ Reps H' all (fis.map (pfx i)) ∧
      ∀ y, y ∉ all → y ≠ t → H'[y]? = H[y]? := by
  rw [rangeLoop, exec_for]
  exact range_loop c t i typ all all c.fuel 0 H env L fis hfuel rfl hlen h1 h2 h17 h18 ht hr hnd htn

section
variable (v0 v1 v2 v3 v4 v5 v6 v7 v8 v9 v10 v11 v12 v13 v14 v15 v16 v17 v18 v19 v20 : Val)

theorem exec_embedPart (c : Ctx) (hc H1 : Heap) (t0 : RType) (a : Nat) (addrs1 : List Nat)
    (hcall : c.call 2 hc [.rtype t0] = .ok (H1, [.ptr a])) (hta : H1[a]? = some (tiObj .nil t0 .nil addrs1 0)) :
    exec c embedPart hc [v0, v1, v2, v3, v4, .rtype t0, v6, v7, v8, v9, v10, v11, v12, v13, v14, v15, v16, v17, v18, v19, v20] =
      (exec c rangeLoop H1 [v0, v1, v2, v3, v4, .rtype t0, v6, v7, v8, v9, v10, v11, v12, v13, v14, v15, .ptr a, .ptrs addrs1, .int 0, v19, v20]).andThen
        (exec c .cont) := by
  ti_simp [embedPart, hcall, hta, fieldOf, tiObj]

end

/-- The state of the main loop before field number `i`: `hc` extends `h`, the `typeInfo` record sits at
`h.length` and lists `addrs`. -/
structure Inv (h : Heap) (typ : RType) (hc : Heap) (env : Env) (i : Nat) (addrs : List Nat) : Prop where
  pre : Pre h hc
  ti : hc[h.length]? = some (tiObj .nil typ .nil addrs 0)
  nodup : addrs.Nodup
  rng : ∀ x ∈ addrs, h.length < x ∧ x < hc.length
  elen : env.length = 21
  e0 : env[0]? = some (.rtype typ)
  e1 : env[1]? = some (.ptr h.length)
  e2 : env[2]? = some (.int i)

theorem Inv.newEnv {h : Heap} {typ : RType} {hc : Heap} {env : Env} {i : Nat} {addrs : List Nat}
    (inv : Inv h typ hc env i addrs) (env' : Env) (hl : env'.length = 21) (h0 : env'[0]? = env[0]?)
    (h1 : env'[1]? = env[1]?) (h2 : env'[2]? = env[2]?) : Inv h typ hc env' i addrs :=
  { inv with elen := hl, e0 := h0 ▸ inv.e0, e1 := h1 ▸ inv.e1, e2 := h2 ▸ inv.e2 }

/-- What the recursive calls do (the induction hypothesis of `raw_spec`). -/
def RecSpec (c : Ctx) (fuel : Nat) : Prop :=
  ∀ (hc : Heap) (typ : RType) (n : String) (st : GoStruct),
    typ.depth = 0 → typ.kind = .structRef n → Codec.lookupStruct c.structs n = some st →
    fitsFuel c.structs fuel st = true → (rawFields c.structs fuel st).length < c.fuel →
    RawPost hc typ (rawFields c.structs fuel st) (c.call 2 hc [.rtype typ])

theorem step_skip (c : Ctx) (h : Heap) (typ : RType) (s : GoStruct) (hs : structOf c.structs typ = .ok s)
    (f : GoField) (i : Nat) (hf : s.fields[i]? = some f) (hc : Heap) (env : Env) (addrs : List Nat)
    (inv : Inv h typ hc env i addrs) (hskip : skipB f = true) :
    ∃ env', exec c rawBody hc env = .cont hc env' ∧ Inv h typ hc env' i addrs := by
  obtain ⟨v0, v1, v2, v3, v4, v5, v6, v7, v8, v9, v10, v11, v12, v13, v14, v15, v16, v17, v18, v19, v20, rfl⟩ :=
    env21 env inv.elen
  have e0 := inv.e0; have e2 := inv.e2
  simp at e0 e2
  subst e0 e2
  rw [exec_rawBody, head4_start _ _ _ _ _ _ _ _ _ _ _ _ _ _ _ _ _ _ _ c hc typ s i f hs hf, if_pos hskip]
  exact ⟨_, rfl, inv.newEnv _ rfl rfl rfl rfl⟩

theorem step_tail (hpart : FieldPartSpec) (c : Ctx) (hind : IndirectSpec c) (h : Heap) (typ : RType)
    (f : GoField) (i : Nat) (hc : Heap) (env : Env) (addrs : List Nat) (fis : List FieldInfo)
    (inv : Inv h typ hc env i addrs) (h3 : env[3]? = some (.sfield f i)) (h4 : env[4]? = some (.str f.tag))
    (hfd : f.ptrDepth < c.fuel) (hft : f.tag.length < c.fuel) (hr : Reps hc addrs fis) :
    ∃ hc' env', (exec c fieldPart hc env).andThen (exec c (stAppend 7)) = .norm hc' env' ∧
      Inv h typ hc' env' i (addrs ++ [hc.length]) ∧ Reps hc' (addrs ++ [hc.length]) (fis ++ [fieldInfoOf f i]) := by
  obtain ⟨env', hex, hl', h0', h1', h2', h7'⟩ := hpart c f i hc env hind hfd hft inv.elen h3 h4
  have htl : h.length < hc.length := get_lt inv.ti
  have hti : (hc ++ [fiObj (fieldInfoOf f i)])[h.length]? = some (tiObj .nil typ .nil addrs 0) := by
    rw [List.getElem?_append_left htl]; exact inv.ti
  rw [hex, andThen_norm,
    exec_stAppend c _ env' h.length hc.length 7 typ addrs (by rw [h1']; exact inv.e1) h7' hti]
  refine ⟨_, _, rfl, ?_, ?_⟩
  · refine { pre := ⟨?_, ?_⟩, ti := ?_, nodup := ?_, rng := ?_, elen := hl', e0 := h0' ▸ inv.e0, e1 := h1' ▸ inv.e1, e2 := h2' ▸ inv.e2 }
    · simp; have := inv.pre.1; omega
    · intro y hy
      rw [List.getElem?_set_ne (by omega), List.getElem?_append_left (by omega)]
      exact inv.pre.2 y hy
    · rw [List.getElem?_set_self (by simp; omega)]
    · rw [List.nodup_append]
      refine ⟨inv.nodup, by simp, ?_⟩
      intro a ha b hb
      have := (inv.rng a ha).2
      simp at hb; omega
    · intro x hx
      rcases List.mem_append.mp hx with hx | hx
      · have := inv.rng x hx; simp; omega
      · simp at hx; subst hx; simp; omega
  · apply Reps_append
    · apply Reps_congr _ hr
      intro x hx
      have := inv.rng x hx
      rw [List.getElem?_set_ne (by omega), List.getElem?_append_left (by omega)]
    · refine ⟨?_, trivial⟩
      rw [List.getElem?_set_ne (by omega)]
      simp

theorem step_plain (hpart : FieldPartSpec) (c : Ctx) (hind : IndirectSpec c) (h : Heap) (typ : RType)
    (s : GoStruct) (hs : structOf c.structs typ = .ok s)
    (f : GoField) (i : Nat) (hf : s.fields[i]? = some f) (hc : Heap) (env : Env) (addrs : List Nat) (fis : List FieldInfo)
    (inv : Inv h typ hc env i addrs) (hskip : skipB f = false)
    (hk : f.anonymous = false ∨ ∀ n, f.kind ≠ .structRef n)
    (hfd : f.ptrDepth < c.fuel) (hft : f.tag.length < c.fuel) (hr : Reps hc addrs fis) :
    ∃ hc' env', exec c rawBody hc env = .norm hc' env' ∧
      Inv h typ hc' env' i (addrs ++ [hc.length]) ∧ Reps hc' (addrs ++ [hc.length]) (fis ++ [fieldInfoOf f i]) := by
  obtain ⟨v0, v1, v2, v3, v4, v5, v6, v7, v8, v9, v10, v11, v12, v13, v14, v15, v16, v17, v18, v19, v20, rfl⟩ :=
    env21 env inv.elen
  have e0 := inv.e0; have e2 := inv.e2
  simp at e0 e2
  subst e0 e2
  rw [exec_rawBody, head4_start _ _ _ _ _ _ _ _ _ _ _ _ _ _ _ _ _ _ _ c hc typ s i f hs hf, if_neg (by simp [hskip])]
  cases hanon : f.anonymous with
  | false =>
    rw [stAnon_nonanon _ _ _ _ _ _ _ _ _ _ _ _ _ _ _ _ _ _ _ _ c hc f i hanon, andThen_norm]
    exact step_tail hpart c hind h typ f i hc _ addrs fis (inv.newEnv _ rfl rfl rfl rfl) rfl rfl hfd hft hr
  | true =>
    have hk' : ∀ n, f.kind ≠ .structRef n := by
      rcases hk with hk | hk
      · rw [hanon] at hk; cases hk
      · exact hk
    have hkn : ¬ kindNum { fieldType f with depth := 0 } = 25 := by
      rw [kindNum_struct _ rfl]
      rintro ⟨n, hn⟩
      exact hk' n hn
    rw [stAnon_anon _ _ _ _ _ _ _ _ _ _ _ _ _ _ _ _ _ _ _ _ c hc f i hanon (by omega),
      structTest_no c hc _ _ (by rfl) hkn, andThen_norm]
    exact step_tail hpart c hind h typ f i hc _ addrs fis (inv.newEnv _ rfl rfl rfl rfl) rfl rfl hfd hft hr

theorem step_embed (c : Ctx) (fuel : Nat) (hrec : RecSpec c fuel) (h : Heap) (typ : RType)
    (s : GoStruct) (hs : structOf c.structs typ = .ok s)
    (f : GoField) (i : Nat) (hf : s.fields[i]? = some f) (hc : Heap) (env : Env) (addrs : List Nat) (fis : List FieldInfo)
    (inv : Inv h typ hc env i addrs) (hskip : skipB f = false)
    (ha : f.anonymous = true) (n : String) (hk : f.kind = .structRef n) (st : GoStruct)
    (hl : Codec.lookupStruct c.structs n = some st) (hfit : fitsFuel c.structs fuel st = true)
    (hlen : (rawFields c.structs fuel st).length < c.fuel)
    (hfd : f.ptrDepth < c.fuel) (hr : Reps hc addrs fis) :
    ∃ hc' env' addrs1, exec c rawBody hc env = .cont hc' env' ∧
      Inv h typ hc' env' i (addrs ++ addrs1) ∧
      Reps hc' (addrs ++ addrs1) (fis ++ (rawFields c.structs fuel st).map (pfx i)) := by
  obtain ⟨v0, v1, v2, v3, v4, v5, v6, v7, v8, v9, v10, v11, v12, v13, v14, v15, v16, v17, v18, v19, v20, rfl⟩ :=
    env21 env inv.elen
  have e0 := inv.e0; have e1 := inv.e1; have e2 := inv.e2
  simp at e0 e1 e2
  subst e0 e1 e2
  have hkn : kindNum { fieldType f with depth := 0 } = 25 := by
    rw [kindNum_struct _ rfl]
    exact ⟨n, hk⟩
  obtain ⟨ext, a, addrs1, hcall, hta, hal, hr1, hnd1, hfresh⟩ :=
    hrec hc { fieldType f with depth := 0 } n st rfl hk hl hfit hlen
  have htl : h.length < hc.length := get_lt inv.ti
  have hti : (hc ++ ext)[h.length]? = some (tiObj .nil typ .nil addrs 0) := by
    rw [List.getElem?_append_left htl]; exact inv.ti
  have htn : h.length ∉ addrs1 := fun hm => by have := (hfresh _ hm).1; omega
  obtain ⟨H', env', hloop, hl', h0', h1', h2', hHl, hHt, hRep, hframe⟩ :=
    exec_rangeLoop c h.length i typ addrs1 (hc ++ ext)
      [.rtype typ, .ptr h.length, .int i, .sfield f i, .str f.tag, .rtype { fieldType f with depth := 0 }, v6, v7, v8, v9, v10,
        v11, v12, v13, v14, v15, .ptr a, .ptrs addrs1, .int 0, v19, v20]
      addrs (rawFields c.structs fuel st) (by rw [Reps_length hr1]; omega) rfl rfl rfl rfl rfl hti hr1 hnd1 htn
  refine ⟨H', env', addrs1, ?_, ?_, ?_⟩
  · rw [exec_rawBody, head4_start _ _ _ _ _ _ _ _ _ _ _ _ _ _ _ _ _ _ _ c hc typ s i f hs hf, if_neg (by simp [hskip]),
      stAnon_anon _ _ _ _ _ _ _ _ _ _ _ _ _ _ _ _ _ _ _ _ c hc f i ha (by omega),
      structTest_yes c hc _ _ (by rfl) hkn,
      exec_embedPart _ _ _ _ _ _ _ _ _ _ _ _ _ _ _ _ _ _ _ _ c hc (hc ++ ext) _ a addrs1 hcall hta, hloop]
    rfl
  · have hlt1 := Reps_lt hr1
    refine { pre := ⟨?_, ?_⟩, ti := hHt, nodup := ?_, rng := ?_, elen := hl', e0 := h0', e1 := h1', e2 := h2' }
    · rw [hHl]; simp; have := inv.pre.1; omega
    · intro y hy
      rw [hframe y (fun hm => by have := (hfresh _ hm).1; omega) (by omega), List.getElem?_append_left (by omega)]
      exact inv.pre.2 y hy
    · rw [List.nodup_append]
      refine ⟨inv.nodup, hnd1, ?_⟩
      intro x hx b hb
      have := (inv.rng x hx).2
      have := (hfresh b hb).1
      omega
    · intro x hx
      rcases List.mem_append.mp hx with hx | hx
      · have := inv.rng x hx; rw [hHl]; simp; omega
      · have := (hfresh x hx).1; have := hlt1 x hx; rw [hHl]; omega
  · apply Reps_append _ hRep
    apply Reps_congr _ hr
    intro x hx
    have := inv.rng x hx
    rw [hframe x (fun hm => by have := (hfresh _ hm).1; omega) (by omega), List.getElem?_append_left (by omega)]

theorem pfx_eq (i : Nat) : (fun fi : FieldInfo => { fi with index := i :: fi.index }) = pfx i := rfl

/-- One iteration of the main loop's body. -/
theorem body_step (hpart : FieldPartSpec) (c : Ctx) (fuel : Nat) (hind : IndirectSpec c) (hrec : RecSpec c fuel)
    (h : Heap) (typ : RType) (s : GoStruct) (hs : structOf c.structs typ = .ok s)
    (f : GoField) (i : Nat) (hf : s.fields[i]? = some f)
    (hfd : f.ptrDepth < c.fuel) (hft : f.tag.length < c.fuel) (hfit : fitsField c.structs fuel f = true)
    (hlen : (G c.structs fuel (f, i)).length < c.fuel)
    (hc : Heap) (env : Env) (addrs : List Nat) (fis : List FieldInfo)
    (inv : Inv h typ hc env i addrs) (hr : Reps hc addrs fis) :
    ∃ hc' env' addrs', (exec c rawBody hc env = .norm hc' env' ∨ exec c rawBody hc env = .cont hc' env') ∧
      Inv h typ hc' env' i addrs' ∧ Reps hc' addrs' (fis ++ G c.structs fuel (f, i)) := by
  cases hskip : skipB f with
  | true =>
    obtain ⟨env', hex, inv'⟩ := step_skip c h typ s hs f i hf hc env addrs inv hskip
    refine ⟨hc, env', addrs, Or.inr hex, inv', ?_⟩
    rw [G_skip _ _ _ _ hskip, List.append_nil]; exact hr
  | false =>
    by_cases hemb : f.anonymous = true ∧ ∃ n, f.kind = .structRef n
    · obtain ⟨ha, n, hk⟩ := hemb
      obtain ⟨st, hl, hfit'⟩ := fitsField_embed c.structs fuel f n hfit hskip ha hk
      have hG := G_embed c.structs fuel f i n st hskip ha hk hl
      rw [hG] at hlen ⊢
      rw [pfx_eq] at hlen ⊢
      obtain ⟨hc', env', addrs1, hex, inv', hr'⟩ :=
        step_embed c fuel hrec h typ s hs f i hf hc env addrs fis inv hskip ha n hk st hl hfit'
          (by simpa using hlen) hfd hr
      exact ⟨hc', env', _, Or.inr hex, inv', hr'⟩
    · have hk : f.anonymous = false ∨ ∀ n, f.kind ≠ .structRef n := by
        cases ha : f.anonymous with
        | false => exact Or.inl rfl
        | true => exact Or.inr fun n hn => hemb ⟨ha, n, hn⟩
      rw [G_plain _ _ _ _ hskip hk]
      obtain ⟨hc', env', hex, inv', hr'⟩ :=
        step_plain hpart c hind h typ s hs f i hf hc env addrs fis inv hskip hk hfd hft hr
      exact ⟨hc', env', _, Or.inl hex, inv', hr'⟩

/-- The main loop, from field number `i` on. -/
theorem main_loop (hpart : FieldPartSpec) (c : Ctx) (fuel : Nat) (hind : IndirectSpec c) (hrec : RecSpec c fuel)
    (h : Heap) (typ : RType) (s : GoStruct) (hs : structOf c.structs typ = .ok s)
    (hfields : ∀ f ∈ s.fields, f.ptrDepth < c.fuel ∧ f.tag.length < c.fuel) :
    ∀ (suf : List GoField) (lf i : Nat) (hc : Heap) (env : Env) (addrs : List Nat) (fis : List FieldInfo),
      s.fields.drop i = suf → i + suf.length = s.fields.length → suf.length ≤ lf →
      (∀ f ∈ suf, fitsField c.structs fuel f = true) →
      ((suf.zipIdx i).flatMap (G c.structs fuel)).length < c.fuel →
      Inv h typ hc env i addrs → Reps hc addrs fis →
      ∃ hc' env' addrs', loop (fun h env => eval c.structs h env condExpr >>= asBool) (exec c rawBody) (exec c postStmt) lf hc env
          = .norm hc' env' ∧
        Inv h typ hc' env' s.fields.length addrs' ∧ Reps hc' addrs' (fis ++ (suf.zipIdx i).flatMap (G c.structs fuel)) := by
  intro suf
  induction suf with
  | nil =>
    intro lf i hc env addrs fis _ hi _ _ _ inv hr
    have hi' : i = s.fields.length := by simpa using hi
    refine ⟨hc, env, addrs, ?_, hi' ▸ inv, by simpa using hr⟩
    rw [loop_false _ _ _ _ _ _ (by rw [eval_cond c hc env typ s i hs inv.e0 inv.e2]; simp; omega)]
  | cons f suf ih =>
    intro lf i hc env addrs fis hdrop hi hlf hfits hlen inv hr
    obtain ⟨lf, rfl⟩ : ∃ lf', lf = lf' + 1 := ⟨lf - 1, by simp at hlf; omega⟩
    have hil : i < s.fields.length := by simp at hi; omega
    have hfi : s.fields[i]? = some f := by
      rw [List.drop_eq_getElem_cons hil] at hdrop
      rw [List.getElem?_eq_getElem hil]
      exact congrArg some (List.cons.inj hdrop).1
    have hdrop' : s.fields.drop (i + 1) = suf := by
      rw [List.drop_eq_getElem_cons hil] at hdrop
      exact (List.cons.inj hdrop).2
    have hfm : f ∈ s.fields := List.mem_iff_getElem?.mpr ⟨i, hfi⟩
    rw [List.zipIdx_cons, List.flatMap_cons] at hlen ⊢
    rw [List.length_append] at hlen
    obtain ⟨hc1, env1, addrs1, hex, inv1, hr1⟩ :=
      body_step hpart c fuel hind hrec h typ s hs f i hfi (hfields f hfm).1 (hfields f hfm).2
        (hfits f (List.mem_cons_self ..)) (by omega) hc env addrs fis inv hr
    rw [loop_step _ _ _ _ _ _ (by rw [eval_cond c hc env typ s i hs inv.e0 inv.e2]; simp [hil])]
    have hpost : afterBody (exec c postStmt) (loop (fun h env => eval c.structs h env condExpr >>= asBool) (exec c rawBody) (exec c postStmt) lf)
        (exec c rawBody hc env) =
        loop (fun h env => eval c.structs h env condExpr >>= asBool) (exec c rawBody) (exec c postStmt) lf hc1
          (env1.set 2 (.int ((i + 1 : Nat) : Int))) := by
      rcases hex with hex | hex <;> rw [hex] <;> simp only [afterBody_norm, afterBody_cont] <;>
        rw [exec_postStmt c hc1 env1 i inv1.e2, afterPost_norm]
    rw [hpost]
    have inv2 : Inv h typ hc1 (env1.set 2 (.int ((i + 1 : Nat) : Int))) (i + 1) addrs1 :=
      { inv1 with
        elen := by simp [inv1.elen]
        e0 := by rw [List.getElem?_set_ne (by omega)]; exact inv1.e0
        e1 := by rw [List.getElem?_set_ne (by omega)]; exact inv1.e1
        e2 := by rw [List.getElem?_set_self (by have := inv1.elen; omega)] }
    obtain ⟨hc', env', addrs', hloop, inv', hr'⟩ :=
      ih lf (i + 1) hc1 _ addrs1 (fis ++ G c.structs fuel (f, i)) hdrop' (by simp at hi; omega) (by simp at hlf; omega)
        (fun g hg => hfits g (List.mem_cons_of_mem _ hg)) (by omega) inv2 hr1
    exact ⟨hc', env', addrs', hloop, inv', by rw [← List.append_assoc]; exact hr'⟩

/-- One activation of `getRawTypeInfo`, given what the calls it makes do. -/
theorem proc_spec (hpart : FieldPartSpec) (c : Ctx) (fuel : Nat) (hind : IndirectSpec c) (hrec : RecSpec c fuel)
    (h : Heap) (typ : RType) (n : String) (s : GoStruct)
    (hd : typ.depth = 0) (hk : typ.kind = .structRef n) (hl : Codec.lookupStruct c.structs n = some s)
    (hfit : fitsFuel c.structs (fuel + 1) s = true)
    (hfields : ∀ f ∈ s.fields, f.ptrDepth < c.fuel ∧ f.tag.length < c.fuel) (hslen : s.fields.length < c.fuel)
    (hlen : (rawFields c.structs (fuel + 1) s).length < c.fuel) :
    RawPost h typ (rawFields c.structs (fuel + 1) s) (execProc c getRawTypeInfoIR h [.rtype typ]) := by
  have hs := structOf_of c.structs typ n s hd hk hl
  rw [fitsFuel_succ, List.all_eq_true] at hfit
  rw [rawFields_succ] at hlen ⊢
  rw [execProc_eq _ _ _ _ (by rfl)]
  have henv : ([.rtype typ] ++ List.replicate (getRawTypeInfoIR.nslots - getRawTypeInfoIR.nparams) .undef : Env) =
      [.rtype typ, .undef, .undef, .undef, .undef, .undef, .undef, .undef, .undef, .undef, .undef, .undef, .undef, .undef,
        .undef, .undef, .undef, .undef, .undef, .undef, .undef] := rfl
  rw [henv, body_eq]
  have hstart : exec c (.alloc 15 [.nil, (.var 0), .nil, .emptyPtrs, (.int 0)] ;; .assign [.var 1] [(.var 15)] ;;
        .assign [.var 2] [(.int 0)] ;; rawLoop ;; .ret [(.var 1)]) h
        [.rtype typ, .undef, .undef, .undef, .undef, .undef, .undef, .undef, .undef, .undef, .undef, .undef, .undef, .undef,
          .undef, .undef, .undef, .undef, .undef, .undef, .undef] =
      (exec c rawLoop (h ++ [tiObj .nil typ .nil [] 0])
        [.rtype typ, .ptr h.length, .int ((0 : Nat) : Int), .undef, .undef, .undef, .undef, .undef, .undef, .undef, .undef, .undef, .undef, .undef,
          .undef, .ptr h.length, .undef, .undef, .undef, .undef, .undef]).andThen (exec c (.ret [(.var 1)])) := by
    ti_simp [tiObj]
    rfl
  rw [hstart, rawLoop_eq, exec_for]
  have inv0 : Inv h typ (h ++ [tiObj .nil typ .nil [] 0])
      [.rtype typ, .ptr h.length, .int ((0 : Nat) : Int), .undef, .undef, .undef, .undef, .undef, .undef, .undef, .undef, .undef, .undef, .undef,
          .undef, .ptr h.length, .undef, .undef, .undef, .undef, .undef] 0 [] :=
    { pre := ⟨by simp, fun y hy => List.getElem?_append_left hy⟩
      ti := by simp
      nodup := List.nodup_nil
      rng := by simp
      elen := rfl, e0 := rfl, e1 := rfl, e2 := rfl }
  obtain ⟨hc', env', addrs', hloop, inv', hr'⟩ :=
    main_loop hpart c fuel hind hrec h typ s hs hfields s.fields c.fuel 0 _ _ [] [] rfl (by simp) (by omega)
      hfit hlen inv0 trivial
  rw [hloop, andThen_norm]
  have hret : exec c (.ret [(.var 1)]) hc' env' = .ret hc' [.ptr h.length] := by
    ti_simp [inv'.e1]
  rw [hret, procResult_ret]
  refine ⟨hc'.drop h.length, h.length, addrs', ?_, ?_, Nat.le_refl _, ?_, inv'.nodup, ?_⟩
  · rw [inv'.pre.toExt]
  · rw [inv'.pre.toExt]; exact inv'.ti
  · rw [inv'.pre.toExt]; simpa using hr'
  · intro x hx
    have := (inv'.rng x hx).1
    omega

theorem raw_spec (hpart : FieldPartSpec) : RawSpec := by
  intro w fuel
  induction fuel with
  | zero =>
    intro depth h typ n s _ _ _ hfit
    simp [fitsFuel] at hfit
  | succ fuel ih =>
    intro depth h typ n s hd hk hl hfit hdepth hw hlen
    obtain ⟨d, rfl⟩ : ∃ d, depth = d + 2 := ⟨depth - 2, by omega⟩
    rw [callIn_succ program w (d + 1) 2 h _ getRawTypeInfoIR (by rfl)]
    have hsm : s ∈ w.structs := List.mem_of_find?_eq_some hl
    exact proc_spec hpart { structs := w.structs, fuel := w.fuel, sort := w.sort, call := callIn program w (d + 1) } fuel
      (indirectSpec_callIn w d)
      (fun hc typ' n' st' hd' hk' hl' hfit' hlen' => ih (d + 1) hc typ' n' st' hd' hk' hl' hfit' (by omega) hw hlen')
      h typ n s hd hk hl hfit (hw s hsm).2 (hw s hsm).1 hlen

end GoCrypt.TIIR.Raw

#print axioms GoCrypt.TIIR.Raw.raw_spec
