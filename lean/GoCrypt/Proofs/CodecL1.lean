import GoCrypt.Proofs.Codec

/-!
# Round trip for layer L1: an optional prefix and required positional fields

`roundtrip_L1`: for every `TypeInfo` whose fields are all required positional fields of the documented
kinds (no param name, not grouped, not optional, not inline, no text codec, alphabet `hash` or
`base64`) with an optional string `HashPrefix`, and every value that Marshal accepts, whose prefix
text is well-formed and whose first and last field texts are not empty, Unmarshal of the produced
string into a zero value succeeds and reproduces the value.
-/

namespace GoCrypt.Codec
open Bytes GoCrypt.Parse

/-! ## `Unmarshal` split into prefix part, field loop and final checks -/

/-- The prefix part of `unmarshalTree`. -/
def prefixPart (ti : TypeInfo) (hashLen : Nat) (tree : Tree) : Except UErr Vals :=
  match ti.hashPrefix, tree.pfx with
  | some hp, some p => do
    let (s, _) ← fieldText hp "prefix" p.length p
    let fv ← storeValue hp "prefix" p.length s
    pure [(hp.index, fv)]
  | some hp, none =>
    if hp.opts.omitEmpty then pure [] else throw (.ute "EOF" hashLen hp.name .prefixNotFound)
  | none, some p => throw (.ute "prefix" p.length "" .excessivePrefix)
  | none, none => pure []

/-- What `unmarshalTree` does after the prefix part: field loop, then the final checks. -/
def tailPart (ti : TypeInfo) (hashLen : Nat) (tree : Tree) (out0 : Vals) : Except UErr Vals := do
  let st ← loopFields hashLen ti.fields
    { frags := tree.frags, numValues := tree.frags.length, numReq := ti.numReqValues, out := out0 }
  let st ←
    match st.group with
    | some g =>
      if st.numGroupValues > 0 then throw (.ute "group" (groupEnd g) "" .excessiveFragment)
      else pure { st with frags := st.frags.tail, group := none }
    | none => pure st
  match st.frags with
  | f :: _ => throw (.ute (fragKind f) (fragEnd f) "" .excessiveFragment)
  | [] => pure st.out

theorem unmarshalTree_eq (ti : TypeInfo) (hashLen : Nat) (tree : Tree) :
    unmarshalTree ti hashLen tree = prefixPart ti hashLen tree >>= tailPart ti hashLen tree := by
  obtain ⟨hp, fields, nreq⟩ := ti
  obtain ⟨pfx, frags⟩ := tree
  cases hp with
  | none => cases pfx <;> rfl
  | some hp =>
    cases pfx with
    | none =>
      unfold unmarshalTree prefixPart
      simp only []
      generalize hp.opts.omitEmpty = b
      cases b <;> rfl
    | some p =>
      unfold unmarshalTree prefixPart
      simp only []
      generalize fieldText hp "prefix" p.length p = r
      cases r with
      | error e => rfl
      | ok x =>
        obtain ⟨s, r⟩ := x
        simp only [bind, Except.bind]
        generalize storeValue hp "prefix" p.length s = q
        cases q <;> rfl

theorem tailPart_of_loop (ti : TypeInfo) (hashLen : Nat) (tree : Tree) (out0 : Vals) (st' : LoopSt)
    (hl : loopFields hashLen ti.fields
      { frags := tree.frags, numValues := tree.frags.length, numReq := ti.numReqValues, out := out0 } = .ok st')
    (hfr : st'.frags = []) (hg : st'.group = none) :
    tailPart ti hashLen tree out0 = .ok st'.out := by
  unfold tailPart
  simp only [hl, bind, Except.bind, hg, pure, Except.pure, hfr]

theorem unmarshalTree_of_loop (ti : TypeInfo) (hashLen : Nat) (tree : Tree) (out0 : Vals) (st' : LoopSt)
    (h0 : prefixPart ti hashLen tree = .ok out0)
    (hl : loopFields hashLen ti.fields
      { frags := tree.frags, numValues := tree.frags.length, numReq := ti.numReqValues, out := out0 } = .ok st')
    (hfr : st'.frags = []) (hg : st'.group = none) :
    unmarshalTree ti hashLen tree = .ok st'.out := by
  rw [unmarshalTree_eq, h0]
  exact tailPart_of_loop ti hashLen tree out0 st' hl hfr hg

theorem unmarshal_of_parse (ti : TypeInfo) (s : Bytes) (tree : Tree) (h : parse s = .ok tree) :
    unmarshal ti s = unmarshalTree ti s.length tree := by
  simp [unmarshal, h]

/-- `Marshal` split into the prefix text and the field loop. -/
theorem marshal_split (ti : TypeInfo) (vals : Vals) (s : Bytes) (h : marshal ti vals = .ok s) :
    (∀ hp, ti.hashPrefix = some hp → marshalValue hp (fieldVal vals hp) = .ok (textOf vals hp)) ∧
    marshalFields vals ti.fields none
      (match ti.hashPrefix with | some hp => textOf vals hp | none => []) = .ok s := by
  unfold marshal at h
  cases hhp : ti.hashPrefix with
  | none =>
    simp only [hhp, pure, Except.pure, bind, Except.bind] at h
    exact ⟨fun hp h' => (by cases h'), h⟩
  | some hp =>
    simp only [hhp, bind, Except.bind] at h
    cases hmv : marshalValue hp ((getVal vals hp.index).getD (zeroOf hp.kind hp.ptrDepth)) with
    | error e => simp [hmv] at h
    | ok t =>
      have htx : textOf vals hp = t := by simp [textOf, fieldVal, hmv]
      simp only [hmv] at h
      refine ⟨?_, by simpa [htx] using h⟩
      intro hp' e; cases e
      rw [htx]; exact hmv

namespace L1

/-! ## The hypotheses of `roundtrip_L1` -/

/-- Shape side: a required positional field of a documented kind, no text codec, a text alphabet. -/
def plainField (f : FieldInfo) : Bool :=
  positional f && f.marshalText == .none && f.unmarshalText == .none && f.opts.enc != .none && baseOk f &&
  (match f.kind with
   | .string => true | .bytes => true | .byteArray _ => true | .uint _ => true | .int _ => true
   | _ => false)

/-- Shape side: the `HashPrefix` field is a plain string, possibly with a whitelist `UnmarshalText`. -/
def prefixField (hp : FieldInfo) : Bool :=
  hp.kind == .string && hp.ptrDepth == 0 && hp.opts.param == [] && !hp.opts.inline &&
  hp.marshalText == .none &&
  (match hp.unmarshalText with | .none => true | .whitelist _ => true | _ => false)

def shapeOk (ti : TypeInfo) : Bool :=
  ti.fields.all plainField &&
  (match ti.hashPrefix with | some hp => prefixField hp | none => true) &&
  decide ((ti.hashPrefix.toList ++ ti.fields).map (·.index)).Nodup

/-- Value side, prefix: empty only if declared optional; otherwise well-formed and whitelisted. -/
def prefixTextOk (hp : FieldInfo) (p : Bytes) : Bool :=
  if p.isEmpty then hp.opts.omitEmpty
  else CodecDomain.wellFormedPrefix p &&
    (match hp.unmarshalText with | .whitelist l => l.contains p | _ => true)

def prefixTextOf (ti : TypeInfo) (vals : Vals) : Bytes :=
  match ti.hashPrefix with | some hp => textOf vals hp | none => []

/-- Value side: every value has its field's kind and fits it; the prefix text is acceptable; the
first text is not empty when no prefix text precedes it; the last text is not empty. -/
def valuesOk (ti : TypeInfo) (vals : Vals) : Bool :=
  ti.fields.all (fun f => valOk f (fieldVal vals f)) &&
  (match ti.hashPrefix with
   | some hp => valOk hp (fieldVal vals hp) && prefixTextOk hp (textOf vals hp)
   | none => true) &&
  (!(prefixTextOf ti vals).isEmpty ||
    (match ti.fields.head? with | some f => !(textOf vals f).isEmpty | none => true)) &&
  (match ti.fields.getLast? with | some f => !(textOf vals f).isEmpty | none => true)

/-! ## The round trip -/

/-- What Unmarshal computes for a plain field on the text Marshal wrote. -/
theorem plainField_text (vals : Vals) (f : FieldInfo) (hpl : plainField f = true)
    (hv : valOk f (fieldVal vals f) = true)
    (hm : marshalValue f (fieldVal vals f) = .ok (textOf vals f)) :
    positional f = true ∧ NoDelim (textOf vals f) ∧
    (∀ c, (textOf vals f).head? = some c → c ≠ dollar ∧ c ≠ underscore) ∧
    ∀ e, fieldText f "value" e (textOf vals f) = .ok (textOf vals f, []) ∧
      storeValue f "value" e (textOf vals f) = .ok (fieldVal vals f) := by
  simp only [plainField, Bool.and_eq_true, beq_iff_eq, bne_iff_ne, ne_eq] at hpl
  obtain ⟨⟨⟨⟨⟨hpos, hmt⟩, hut⟩, henc⟩, hbase⟩, _⟩ := hpl
  obtain ⟨hraw, hlen, hfi⟩ := marshalValue_ok hm
  have hclean := alphabet_clean f.opts.enc henc _ hfi
  have hpos' := hpos
  simp only [positional, Bool.and_eq_true, beq_iff_eq, Bool.not_eq_eq_eq_not, Bool.not_true] at hpos'
  obtain ⟨⟨⟨hparam, hgroup⟩, homit⟩, hinl⟩ := hpos'
  refine ⟨hpos, fun c hc => ⟨(hclean c hc).1, (hclean c hc).2.1⟩, ?_, ?_⟩
  · intro c hc
    have : c ∈ textOf vals f := by
      obtain ⟨ys, hys⟩ := List.head?_eq_some_iff.1 hc
      rw [hys]; simp
    exact ⟨(hclean c this).1, (hclean c this).2.2.2⟩
  · intro e
    have hn : namedText f (textOf vals f) = textOf vals f := by simp [namedText, hparam]
    have := fieldText_named f "value" e (textOf vals f) hinl hlen hfi
    rw [hn] at this
    exact ⟨this, storeValue_marshalRaw f "value" e _ _ hmt hut hbase hv hraw⟩

theorem prefix_text (vals : Vals) (hp : FieldInfo) (hpf : prefixField hp = true)
    (hv : valOk hp (fieldVal vals hp) = true)
    (hm : marshalValue hp (fieldVal vals hp) = .ok (textOf vals hp)) :
    fieldVal vals hp = .str (textOf vals hp) ∧ hp.ptrDepth = 0 ∧ hp.kind = .string ∧
    (∀ e, fieldText hp "prefix" e (textOf vals hp) = .ok (textOf vals hp, [])) ∧
    (∀ e, (∀ l, hp.unmarshalText = .whitelist l → l.contains (textOf vals hp) = true) →
      storeValue hp "prefix" e (textOf vals hp) = .ok (.str (textOf vals hp))) := by
  simp only [prefixField, Bool.and_eq_true, beq_iff_eq, Bool.not_eq_eq_eq_not, Bool.not_true] at hpf
  obtain ⟨⟨⟨⟨⟨hkind, hptr⟩, hparam⟩, hinl⟩, hmt⟩, hut⟩ := hpf
  obtain ⟨hraw, hlen, hfi⟩ := marshalValue_ok hm
  have hstr : fieldVal vals hp = .str (textOf vals hp) := by
    generalize fieldVal vals hp = v at hv hraw
    cases v <;> simp only [valOk, hkind, Bool.false_eq_true] at hv
    simp only [marshalRaw, hmt, hkind, ne_eq, not_true_eq_false, decide_false, Bool.and_false,
      Bool.false_eq_true, if_false, Except.ok.injEq] at hraw
    rw [hraw]
  refine ⟨hstr, hptr, hkind, ?_, ?_⟩
  · intro e
    have hn : namedText hp (textOf vals hp) = textOf vals hp := by simp [namedText, hparam]
    have := fieldText_named hp "prefix" e (textOf vals hp) hinl hlen hfi
    rw [hn] at this
    exact this
  · intro e hwl
    unfold storeValue
    cases hu : hp.unmarshalText <;> simp only [hu, Bool.false_eq_true] at hut
    · simp [hkind]
    · next l => simp only [hwl l hu, if_true]

theorem filter_const_true {α : Type} (l : List α) : l.filter (fun _ => true) = l :=
  List.filter_eq_self.2 (fun _ _ => rfl)

theorem joinWith_head (d : UInt8) (t : Bytes) (ts : List Bytes) (h : t ≠ []) :
    (joinWith d (t :: ts)).head? = t.head? := by
  rw [joinWith_cons_flatten]
  cases t with
  | nil => exact absurd rfl h
  | cons c cs => rfl

theorem roundtrip_L1 (ti : TypeInfo) (vals : Vals) (s : Bytes)
    (hs : shapeOk ti = true) (hv : valuesOk ti vals = true) (hm : marshal ti vals = .ok s) :
    ∃ out, unmarshal ti s = .ok out ∧ finalVals ti out = canonVals ti vals := by
  simp only [shapeOk, Bool.and_eq_true, List.all_eq_true, decide_eq_true_eq] at hs
  obtain ⟨⟨hplain, hpfx⟩, hnd⟩ := hs
  simp only [valuesOk, Bool.and_eq_true, List.all_eq_true] at hv
  obtain ⟨⟨⟨hvals, hpv⟩, hfirst⟩, hlast⟩ := hv
  obtain ⟨hmp, hmf⟩ := marshal_split ti vals s hm
  have hmf' : marshalFields vals ti.fields none (prefixTextOf ti vals) = .ok s := hmf
  have hft : ∀ f ∈ ti.fields, marshalValue f (fieldVal vals f) = .ok (textOf vals f) →
      positional f = true ∧ NoDelim (textOf vals f) ∧
      (∀ c, (textOf vals f).head? = some c → c ≠ dollar ∧ c ≠ underscore) ∧
      ∀ e, fieldText f "value" e (textOf vals f) = .ok (textOf vals f, []) ∧
        storeValue f "value" e (textOf vals f) = .ok (fieldVal vals f) :=
    fun f hf hmv => plainField_text vals f (hplain f hf) (hvals f hf) hmv
  have hposl : ∀ f ∈ ti.fields, positional f = true := by
    intro f hf
    have := hplain f hf
    simp only [plainField, Bool.and_eq_true] at this
    exact this.1.1.1.1.1
  obtain ⟨hfields, hseq⟩ := marshalFields_plain vals ti.fields none _ s hposl (by intro p h; cases h) hmf'
  simp only [Option.isSome_none, Bool.false_eq_true, if_false] at hseq
  -- the texts
  have hnodelim : ∀ t ∈ ti.fields.map (textOf vals), NoDelim t := by
    intro t ht
    simp only [List.mem_map] at ht
    obtain ⟨f, hf, rfl⟩ := ht
    exact (hft f hf (hfields f hf)).2.1
  have hl : (ti.fields.map (textOf vals)).getLast? ≠ some [] := by
    rw [List.getLast?_map]
    cases hgl : ti.fields.getLast? with
    | none => simp
    | some f =>
      simp only [hgl] at hlast
      simp only [Option.map_some, ne_eq, Option.some.injEq]
      intro e; rw [e] at hlast; simp at hlast
  -- the loop, from any prefix assignment
  have hloop : ∀ (out0 : Vals) (off : Nat) (nv nr : Int), ∃ st',
      loopFields s.length ti.fields
        { frags := valueFrags off (ti.fields.map (textOf vals)), numValues := nv, numReq := nr, out := out0 } = .ok st' ∧
      st'.frags = [] ∧ st'.group = none ∧
      st'.out = out0 ++ ti.fields.map (fun f => (f.index, fieldVal vals f)) := by
    intro out0 off nv nr
    exact loopFields_plain s.length (textOf vals) (fieldVal vals) ti.fields _
      (fun f hf => ⟨(hft f hf (hfields f hf)).1, (hft f hf (hfields f hf)).2.2.2⟩) rfl
      (fragsMatch_valueFrags _ _)
  -- body start
  have hbody : prefixTextOf ti vals = [] →
      ∀ c, (joinWith dollar (ti.fields.map (textOf vals))).head? = some c → c ≠ dollar ∧ c ≠ underscore := by
    intro hp0 c hc
    simp only [hp0, List.isEmpty_nil, Bool.not_true, Bool.false_or] at hfirst
    cases hfl : ti.fields with
    | nil => simp [hfl, joinWith] at hc
    | cons f rest =>
      simp only [hfl, List.head?_cons] at hfirst
      have hne : textOf vals f ≠ [] := by intro e; rw [e] at hfirst; simp at hfirst
      rw [hfl, List.map_cons, joinWith_head _ _ _ hne] at hc
      have hf : f ∈ ti.fields := by rw [hfl]; simp
      exact (hft f hf (hfields f hf)).2.2.1 c hc
  -- finish by cases on the prefix
  by_cases hp0 : prefixTextOf ti vals = []
  · -- no prefix text: the tree has no prefix
    have hparse := parse_render none _ (WfPrefix.none _ (hbody hp0)) hnodelim hl
    simp only [Option.getD_none, List.nil_append, List.length_nil] at hparse
    rw [hp0, List.nil_append] at hseq
    rw [← hseq] at hparse
    obtain ⟨st', hl', hfr, hgr, hout⟩ := hloop [] 0 _ _
    cases hhp : ti.hashPrefix with
    | none =>
      refine ⟨st'.out, ?_, ?_⟩
      · rw [unmarshal_of_parse ti s _ hparse]
        exact unmarshalTree_of_loop ti s.length _ [] st' (by simp [prefixPart, hhp]; rfl) hl' hfr hgr
      · rw [hout, List.nil_append]
        have := finalVals_filter ti (fieldVal vals) (fun _ => true) hnd (by intro f _ h; cases h)
        simp only [filter_const_true, hhp, Option.toList_none, List.nil_append] at this
        simpa [canonVals, hhp] using this
    | some hp =>
      have hpf : prefixField hp = true := by simpa [hhp] using hpfx
      simp only [hhp, Bool.and_eq_true] at hpv
      obtain ⟨hstr, hptr, hkind, -, -⟩ := prefix_text vals hp hpf hpv.1 (hmp hp hhp)
      have hp0' : textOf vals hp = [] := by simpa [prefixTextOf, hhp] using hp0
      have homit : hp.opts.omitEmpty = true := by
        have := hpv.2
        simpa [prefixTextOk, hp0'] using this
      refine ⟨st'.out, ?_, ?_⟩
      · rw [unmarshal_of_parse ti s _ hparse]
        exact unmarshalTree_of_loop ti s.length _ [] st' (by simp [prefixPart, hhp, homit]; rfl) hl' hfr hgr
      · rw [hout, List.nil_append]
        rw [hhp] at hnd
        simp only [Option.toList_some, List.singleton_append, List.map_cons, List.nodup_cons, List.mem_map,
          not_exists, not_and] at hnd
        have hfil : (ti.hashPrefix.toList ++ ti.fields).filter (fun f => decide (f.index ≠ hp.index)) = ti.fields := by
          rw [hhp]
          simp only [Option.toList_some, List.singleton_append, ne_eq, decide_not]
          rw [List.filter_cons_of_neg (by simp)]
          rw [List.filter_eq_self]
          intro f hf
          simpa using hnd.1 f hf
        have := finalVals_filter ti (fieldVal vals) (fun f => decide (f.index ≠ hp.index))
          (by rw [hhp]; simpa using hnd)
          (by
            intro f hf h
            simp only [ne_eq, decide_not, Bool.not_eq_eq_eq_not, Bool.not_false, decide_eq_true_eq] at h
            rw [hhp] at hf
            simp only [Option.toList_some, List.singleton_append, List.mem_cons] at hf
            rcases hf with rfl | hf
            · rw [hstr, hp0', hkind, hptr]; rfl
            · exact absurd h (hnd.1 f hf))
        rw [hfil] at this
        exact this
  · -- a prefix text: it is well-formed and comes back as the tree's prefix
    cases hhp : ti.hashPrefix with
    | none => exact absurd (by simp [prefixTextOf, hhp]) hp0
    | some hp =>
      have hpf : prefixField hp = true := by simpa [hhp] using hpfx
      simp only [hhp, Bool.and_eq_true] at hpv
      obtain ⟨hstr, hptr, hkind, hftx, hstore⟩ := prefix_text vals hp hpf hpv.1 (hmp hp hhp)
      have hpe : prefixTextOf ti vals = textOf vals hp := by simp [prefixTextOf, hhp]
      rw [hpe] at hp0 hseq
      have hok := hpv.2
      have hem : (textOf vals hp).isEmpty = false := by simpa using hp0
      simp only [prefixTextOk, hem, Bool.false_eq_true, if_false, Bool.and_eq_true] at hok
      have hparse := parse_render (some (textOf vals hp)) _ (wfPrefix_of_wellFormed _ _ hok.1) hnodelim hl
      simp only [Option.getD_some] at hparse
      rw [← hseq] at hparse
      obtain ⟨st', hl', hfr, hgr, hout⟩ := hloop [(hp.index, .str (textOf vals hp))] (textOf vals hp).length _ _
      have hwl : ∀ l, hp.unmarshalText = .whitelist l → l.contains (textOf vals hp) = true := by
        intro l hu
        simpa [hu] using hok.2
      refine ⟨st'.out, ?_, ?_⟩
      · rw [unmarshal_of_parse ti s _ hparse]
        refine unmarshalTree_of_loop ti s.length _ [(hp.index, .str (textOf vals hp))] st' ?_ hl' hfr hgr
        simp only [prefixPart, hhp, hftx, hstore _ hwl, bind, Except.bind, pure, Except.pure]
      · rw [hout]
        have := finalVals_filter ti (fieldVal vals) (fun _ => true) hnd (by intro f _ h; cases h)
        simp only [filter_const_true, hhp, Option.toList_some, List.singleton_append, List.map_cons, hstr] at this
        simpa [canonVals, hhp, hstr] using this

/-- `valuesOk` from the pieces a concrete shape can check: typed values, a non-empty acceptable
prefix text, and a last field of fixed non-zero length. -/
theorem valuesOk_intro (ti : TypeInfo) (vals : Vals) (s : Bytes)
    (hs : shapeOk ti = true) (hm : marshal ti vals = .ok s)
    (hvals : ∀ f ∈ ti.fields, valOk f (fieldVal vals f) = true)
    (hpfx : ∃ hp p, ti.hashPrefix = some hp ∧ fieldVal vals hp = .str p ∧ p ≠ [] ∧ prefixTextOk hp p = true)
    (hlast : ∀ f, ti.fields.getLast? = some f → f.opts.hasLength = true ∧ 0 < f.opts.length) :
    valuesOk ti vals = true := by
  simp only [shapeOk, Bool.and_eq_true, List.all_eq_true, decide_eq_true_eq] at hs
  obtain ⟨⟨hplain, hpf⟩, -⟩ := hs
  obtain ⟨hp, p, hhp, hstr, hne, hok⟩ := hpfx
  obtain ⟨hmp, hmf⟩ := marshal_split ti vals s hm
  have hposl : ∀ f ∈ ti.fields, positional f = true := by
    intro f hf
    have := hplain f hf
    simp only [plainField, Bool.and_eq_true] at this
    exact this.1.1.1.1.1
  obtain ⟨hfields, -⟩ := marshalFields_plain vals ti.fields none _ s hposl (by intro p h; cases h) hmf
  have hvp : valOk hp (fieldVal vals hp) = true := by
    have hk : hp.kind = .string := by
      simp only [hhp, prefixField, Bool.and_eq_true, beq_iff_eq] at hpf
      exact hpf.1.1.1.1.1
    rw [hstr]; simp [valOk, hk]
  have htx : textOf vals hp = p := by
    have := (prefix_text vals hp (by simpa [hhp] using hpf) hvp (hmp hp hhp)).1
    rw [hstr] at this
    exact (FVal.str.inj this).symm
  simp only [valuesOk, Bool.and_eq_true, List.all_eq_true]
  refine ⟨⟨⟨hvals, ?_⟩, ?_⟩, ?_⟩
  · simp only [hhp, Bool.and_eq_true]
    exact ⟨hvp, by rw [htx]; exact hok⟩
  · have : (prefixTextOf ti vals).isEmpty = false := by
      simp only [prefixTextOf, hhp, htx]
      cases p with
      | nil => exact absurd rfl hne
      | cons c cs => rfl
    simp [this]
  · cases hgl : ti.fields.getLast? with
    | none => rfl
    | some f =>
      have hf : f ∈ ti.fields := List.mem_of_getLast? hgl
      obtain ⟨h1, h2⟩ := hlast f hgl
      have := (marshalValue_ok (hfields f hf)).2.1 h1
      cases ht : textOf vals f with
      | nil => rw [ht] at this; simp at this; omega
      | cons c cs => simp [ht]

end L1

/-! ## Values given as a listing are in normal form -/

theorem getVal_listing (g : FieldInfo → FVal) : ∀ (all : List FieldInfo), (all.map (·.index)).Nodup →
    ∀ f ∈ all, getVal (all.map fun f => (f.index, g f)) f.index = some (g f)
  | [], _, _, h => by cases h
  | a :: as, hnd, f, hf => by
    by_cases ha : a.index = f.index
    · have : a = f := key_inj (·.index) (a :: as) hnd a (by simp) f hf ha
      subst this
      simp [getVal]
    · have hf' : f ∈ as := by
        simp only [List.mem_cons] at hf
        rcases hf with rfl | hf
        · exact absurd rfl ha
        · exact hf
      have hnd' : (as.map (·.index)).Nodup := by
        simp only [List.map_cons, List.nodup_cons] at hnd; exact hnd.2
      have := getVal_listing g as hnd' f hf'
      simp only [getVal, List.map_cons, List.find?_cons, ha, decide_false] at this ⊢
      exact this

/-- A value given as the listing of all fields in order (distinct index paths) is its own normal form. -/
theorem canonVals_listing (ti : TypeInfo) (g : FieldInfo → FVal)
    (hnd : ((ti.hashPrefix.toList ++ ti.fields).map (·.index)).Nodup) :
    canonVals ti ((ti.hashPrefix.toList ++ ti.fields).map fun f => (f.index, g f)) =
      (ti.hashPrefix.toList ++ ti.fields).map fun f => (f.index, g f) := by
  unfold canonVals
  apply List.map_congr_left
  intro f hf
  simp only [fieldVal, getVal_listing g _ hnd f hf, Option.getD_some]

end GoCrypt.Codec
