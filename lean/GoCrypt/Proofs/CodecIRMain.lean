import GoCrypt.Proofs.CodecIRLoop

/-!
# Codec IR: the regenerated `Marshal` = the model's `marshal`

The straight-line code before the loop (`indirect`, `getTypeInfo`, the `HashPrefix` field), then
`fields_loop`. Helper lemmas only.
-/

namespace GoCrypt.CIR
open GoCrypt.Codec GoCrypt.Gen.codecIR
open GoCrypt.TIIR (RType Res kindNum fiType fiObj tiObj encVal optsVals Reps RepOpt)

def beforeLoop : Stmt := marshalTopIR.body.take 9

theorem top_split (c : Ctx) (m : Mem) (env : Env) :
    exec c marshalTopIR.body m env =
      (exec c beforeLoop m env).andThen fun m env =>
        (loop (fun m env => eval c m env fieldsLoop.forCond >>= asBool) (exec c loopBody) (exec c fieldsLoop.forPost) c.fuel m env).andThen
          (exec c finalRet) := by
  rw [exec_take_drop c m env 9 marshalTopIR.body]
  rfl

section ti
variable (m : Mem) (a : Nat) (s : TIIR.Val) (t0 : RType) (hp : TIIR.Val) (addrs : List Nat) (n : Int)
  (h : m.heap[a]? = some (tiObj s t0 hp addrs n))
include h
theorem ti_hp : fieldOf m (.ptr a) 2 = .ok (ofTI hp) := by simp [fieldOf, h, tiObj]
theorem ti_fields : fieldOf m (.ptr a) 3 = .ok (.ptrs addrs) := by simp [fieldOf, h, tiObj, ofTI]
end ti

theorem valKindNum_struct (t0 : RType) (g : GVal) (n : String) (hd : t0.depth = 0) (hk : t0.kind = .structRef n) :
    valKindNum t0 g = .ok 25 := by
  rw [valKindNum_plain t0 g hd (by simp [hk])]; simp [kindNum, hd, hk]

/-- The bounds the run needs: loop bound above the pointer depths and the number of fields; bases as
`strconv` accepts them (true of every `TypeInfo` that `typeInfoOf` produces). -/
def Bounds (c : Ctx) (t : RType) (ti : TypeInfo) : Prop :=
  t.depth < c.fuel ∧ ti.fields.length < c.fuel ∧
  ∀ fi ∈ ti.hashPrefix.toList ++ ti.fields, fi.ptrDepth < c.fuel ∧ 2 ≤ fi.opts.base ∧ fi.opts.base ≤ 36

/-- What a run of `Marshal` must look like, given the model's answer (`heap'`: the heap `getTypeInfo` left). -/
def MarshalPost (m' : Mem) (r : Except MErr Bytes) (res : Res (Mem × List Val)) : Prop :=
  match r with
  | .ok text => res = .ok (m', [.str text, .nil])
  | .error e => ∃ n fs', res = .ok (m', [.str [], .recd n fs']) ∧ absErr m'.heap (.recd n fs') = some e

theorem procResult_topPost (m' : Mem) (r : Except MErr Bytes) (o : Out) (h : TopPost m' r o) : MarshalPost m' r (procResult o) := by
  cases r with
  | ok out => simp only [TopPost] at h; subst h; rfl
  | error e => obtain ⟨n, fs', h, habs⟩ := h; subst h; exact ⟨n, fs', rfl, habs⟩

theorem marshal_unfold (ti : TypeInfo) (vals : Vals) :
    Codec.marshal ti vals =
      (match ti.hashPrefix with
       | none => marshalFields vals ti.fields none []
       | some hp =>
         (match Codec.marshalValue hp ((getVal vals hp.index).getD (zeroOf hp.kind hp.ptrDepth)) with
          | .error e => .error e
          | .ok pfx => marshalFields vals ti.fields none pfx)) := by
  unfold Codec.marshal
  cases ti.hashPrefix with
  | none => rfl
  | some hp =>
    simp only [bind, Except.bind]
    cases Codec.marshalValue hp ((getVal vals hp.index).getD (zeroOf hp.kind hp.ptrDepth)) <;> rfl

theorem marshalTop_spec (c : Ctx) (hs : CallSpecs c) (m : Mem) (t : RType) (fs : List GVal) (ti : TypeInfo) (vals : Vals)
    (m' : Mem) (ta : Nat) (hp : TIIR.Val) (addrs : List Nat)
    (hext : c.ext "getTypeInfo" m [.rtype t] = .ok (m', [.ptr ta, .nil]))
    (hti' : m'.heap[ta]? = some (tiObj (.rtype t) { t with depth := 0 } hp addrs ti.numReqValues))
    (hhp : RepOpt m'.heap hp ti.hashPrefix) (hreps : Reps m'.heap addrs ti.fields)
    (hrep : RepStruct c.structs t fs ti vals) (hb : Bounds c t ti) :
    MarshalPost m' (Codec.marshal ti vals)
      (execProc c marshalTopIR m [.iface t (ptrChain t.depth (.struct fs))]) := by
  obtain ⟨⟨sn, hkind⟩, hfields⟩ := hrep
  obtain ⟨hfuel, hnum, hbf⟩ := hb
  rw [execProc_eq _ _ _ _ (by rfl)]
  show MarshalPost _ _ (procResult (exec c marshalTopIR.body m
    [.iface t (ptrChain t.depth (.struct fs)), .undef, .undef, .undef, .undef, .undef, .undef, .undef, .undef, .undef, .undef, .undef,
      .undef, .undef, .undef, .undef, .undef, .undef, .undef]))
  apply procResult_topPost
  rw [top_split]
  have hind : c.call 3 m [.rv t (ptrChain t.depth (.struct fs)) false] =
      .ok (m, [.rv ⟨0, t.kind, t.typeName, t.mt, t.ut⟩ (.struct fs) false]) := hs.indirect.1 m t (.struct fs) false hfuel
  have hkn : valKindNum ⟨0, t.kind, t.typeName, t.mt, t.ut⟩ (.struct fs) = .ok 25 := valKindNum_struct _ _ sn rfl hkind
  have hfok : FieldsOk c ⟨0, t.kind, t.typeName, t.mt, t.ut⟩ fs vals ti.fields := by
    intro fi hfi
    have hmem : fi ∈ ti.hashPrefix.toList ++ ti.fields := List.mem_append_right _ hfi
    exact ⟨hfields fi hmem, hbf fi hmem⟩
  have hloop := fun pfx x0 x3 x4 x6 x7 x9 x10 x11 x12 x13 x14 x17 x18 =>
    fields_loop c hs m' t ⟨0, t.kind, t.typeName, t.mt, t.ut⟩ fs vals addrs ti.fields hreps hfok c.fuel 0 none .nil pfx
      x0 x3 x4 x6 x7 x9 x10 x11 x12 x13 x14 x17 x18 (by omega) (by omega) trivial
  simp only [List.drop_zero] at hloop
  rw [marshal_unfold]
  cases hpo : ti.hashPrefix with
  | none =>
    rw [hpo] at hhp
    cases hp <;> simp only [RepOpt] at hhp
    simp only []
    have hbefore : exec c beforeLoop m [.iface t (ptrChain t.depth (.struct fs)), .undef, .undef, .undef, .undef, .undef, .undef, .undef,
        .undef, .undef, .undef, .undef, .undef, .undef, .undef, .undef, .undef, .undef, .undef] =
        .norm m' [.iface t (ptrChain t.depth (.struct fs)), .rv ⟨0, t.kind, t.typeName, t.mt, t.ut⟩ (.struct fs) false, .rtype t, .ptr ta, .nil,
          .builder [], .undef, .undef, .nil, .undef, .undef, .undef, .undef, .undef, .undef, .ptrs addrs, .int (0 : Nat), .undef, .undef] := by
      simp only [beforeLoop, marshalTopIR, Stmt.take]
      ci_simp [hind, hkn, hext, ti_hp m' ta _ _ _ addrs _ hti', ti_fields m' ta _ _ _ addrs _ hti']
      rfl
    rw [hbefore]
    exact hloop [] _ _ _ _ _ _ _ _ _ _ _ _ _
  | some p =>
    rw [hpo] at hhp
    cases hp <;> simp only [RepOpt] at hhp
    rename_i pa
    have hpmem : p ∈ ti.hashPrefix.toList ++ ti.fields := by simp [hpo]
    obtain ⟨gv, hfb, hrepf⟩ := hfields p hpmem
    obtain ⟨hpfuel, hpbase⟩ := hbf p hpmem
    have hpa : m'.heap[pa]? = some (fiObj p) := hhp
    rcases hrepf with ⟨hd, hfv, hg⟩ | ⟨g0, hg, hv, hc⟩
    · subst hg
      simp only []
      rw [hfv]
      have hind2 := hs.indirect.2 m' (fiType p) false hd (by omega)
      have hmv := hs.marshalValue.2 m' t pa p hpa
      cases hr : Codec.marshalValue p .nilPtr with
      | error e =>
        rw [hr] at hmv; obtain ⟨n, fs', hmv, habs⟩ := hmv
        refine ⟨n, fs', ?_, habs⟩
        simp only [beforeLoop, marshalTopIR, Stmt.take]
        ci_simp [hind, hkn, hext, ti_hp m' ta _ _ _ addrs _ hti', ti_fields m' ta _ _ _ addrs _ hti', fi_index m' pa p hpa,
          ext2_valFieldByIndex, hfb, hind2, hmv]
      | ok s =>
        rw [hr] at hmv; simp only [MPost] at hmv
        have hbefore : exec c beforeLoop m [.iface t (ptrChain t.depth (.struct fs)), .undef, .undef, .undef, .undef, .undef, .undef, .undef,
            .undef, .undef, .undef, .undef, .undef, .undef, .undef, .undef, .undef, .undef, .undef] =
            .norm m' [.iface t (ptrChain t.depth (.struct fs)), .rv ⟨0, t.kind, t.typeName, t.mt, t.ut⟩ (.struct fs) false, .rtype t, .ptr ta, .nil,
              .builder s, .str s, .nil, .nil, .undef, .undef, .undef, .undef, .undef, .rvInvalid, .ptrs addrs, .int (0 : Nat), .undef, .undef] := by
          simp only [beforeLoop, marshalTopIR, Stmt.take]
          ci_simp [hind, hkn, hext, ti_hp m' ta _ _ _ addrs _ hti', ti_fields m' ta _ _ _ addrs _ hti', fi_index m' pa p hpa,
            ext2_valFieldByIndex, hfb, hind2, hmv]
          rfl
        rw [hbefore]
        exact hloop s _ _ _ _ _ _ _ _ _ _ _ _ _
    · subst hg
      have hind2 : c.call 3 m' [.rv (fiType p) (ptrChain p.ptrDepth g0) false] =
          .ok (m', [.rv ⟨0, p.kind, p.typeName, p.marshalText, p.unmarshalText⟩ g0 false]) :=
        hs.indirect.1 m' (fiType p) g0 false hpfuel
      have hmv : MPost m' (Codec.marshalValue p ((getVal vals p.index).getD (zeroOf p.kind p.ptrDepth)))
          (c.call 1 m' [.rtype t, .ptr pa, .rv ⟨0, p.kind, p.typeName, p.marshalText, p.unmarshalText⟩ g0 false]) :=
        hs.marshalValue.1 m' t ⟨0, p.kind, p.typeName, p.marshalText, p.unmarshalText⟩ pa p _ g0 hpa rfl rfl rfl hpbase hv hc
      simp only []
      cases hr : Codec.marshalValue p ((getVal vals p.index).getD (zeroOf p.kind p.ptrDepth)) with
      | error e =>
        rw [hr] at hmv; obtain ⟨n, fs', hmv, habs⟩ := hmv
        refine ⟨n, fs', ?_, habs⟩
        simp only [beforeLoop, marshalTopIR, Stmt.take]
        ci_simp [hind, hkn, hext, ti_hp m' ta _ _ _ addrs _ hti', ti_fields m' ta _ _ _ addrs _ hti', fi_index m' pa p hpa,
          ext2_valFieldByIndex, hfb, hind2, hmv]
      | ok s =>
        rw [hr] at hmv; simp only [MPost] at hmv
        have hbefore : exec c beforeLoop m [.iface t (ptrChain t.depth (.struct fs)), .undef, .undef, .undef, .undef, .undef, .undef, .undef,
            .undef, .undef, .undef, .undef, .undef, .undef, .undef, .undef, .undef, .undef, .undef] =
            .norm m' [.iface t (ptrChain t.depth (.struct fs)), .rv ⟨0, t.kind, t.typeName, t.mt, t.ut⟩ (.struct fs) false, .rtype t, .ptr ta, .nil,
              .builder s, .str s, .nil, .nil, .undef, .undef, .undef, .undef, .undef,
              .rv ⟨0, p.kind, p.typeName, p.marshalText, p.unmarshalText⟩ g0 false, .ptrs addrs, .int (0 : Nat), .undef, .undef] := by
          simp only [beforeLoop, marshalTopIR, Stmt.take]
          ci_simp [hind, hkn, hext, ti_hp m' ta _ _ _ addrs _ hti', ti_fields m' ta _ _ _ addrs _ hti', fi_index m' pa p hpa,
            ext2_valFieldByIndex, hfb, hind2, hmv]
          rfl
        rw [hbefore]
        exact hloop s _ _ _ _ _ _ _ _ _ _ _ _ _

end GoCrypt.CIR
