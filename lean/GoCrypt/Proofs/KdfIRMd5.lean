import GoCrypt.Proofs.KdfIRProcs

/-!
# Hash-transcript IR: `md5crypt.Encrypt` = the hand model `md5cryptEncrypt`

The three loops of the regenerated program are related to `md5Fill`, `md5Bits`, `md5Rounds` by one
induction each; the straight-line statements between them are executed symbolically.
Helper lemmas only; the property theorem is `KdfIR.md5crypt_ir_eq_model`.
-/

namespace GoCrypt.HashIR
open GoCrypt.Kdf

/-- What `md5crypt.Encrypt` needs from its context: the meaning of the three functions it calls and
the value of the package variable it reads. -/
structure Md5Calls (c : Ctx) (perm : Bytes) : Prop where
  newHash : ∀ l, c.call "md5crypt.newHash" [.list l] = .ok (.hash l.flatten)
  sum : ∀ l, c.call "md5crypt.sum" [.list l] = .ok (.bytes (c.H l.flatten))
  permute : ∀ b t, c.call "cryptoutil.Permute" [.bytes b, .bytes t] = ofModel (permute b (t.map (·.toNat)))
  permFinal : c.globals "md5crypt.permFinal" = some (.bytes perm)

/-! ## Conditions on a natural-number loop variable -/

theorem eval_gt_zero (c : Ctx) (st : Env) (x : String) (k : Int) (h : st x = some (.int k)) :
    eval c st (.bin .gt (.var x) (.int 0)) = .ok (.bool (decide (0 < k))) := by
  simp [eval, lookup_some h, evalBin]

theorem eval_odd (c : Ctx) (st : Env) (x : String) (k : Nat) (h : st x = some (.int k)) :
    eval c st (.bin .ne (.bin .band (.var x) (.int 1)) (.int 0)) = .ok (.bool (decide (k % 2 = 1))) := by
  simp only [eval, lookup_some h, ok_bind, asInt_int, evalBin_band_one]
  simp only [evalBin]
  congr 2
  exact decide_eq_decide.mpr (by omega)

theorem eval_rem_ne (c : Ctx) (st : Env) (x : String) (k : Nat) (m : Nat) (hm : 0 < m) (h : st x = some (.int k)) :
    eval c st (.bin .ne (.bin .rem (.var x) (.int m)) (.int 0)) = .ok (.bool (decide (k % m ≠ 0))) := by
  simp only [eval, lookup_some h, ok_bind, asInt_int, evalBin_rem_nat k m (by omega)]
  simp only [evalBin]
  congr 2
  refine decide_eq_decide.mpr ?_
  rw [Int.ofNat_mod_ofNat]
  omega


/-! ## Loop 1: `for i := len(password); i > 0; i -= md5.Size { if i > md5.Size { h.Write(d) } else { h.Write(d[:i]) } }` -/

def fillCond (c : Ctx) : Env → Res Bool := fun st => eval c st (.bin .gt (.var "i") (.int 0)) >>= asBool
def fillStep (c : Ctx) : Env → Res Env := fun st =>
  exec c (.ite (.bin .gt (.var "i") (.int 16)) (.write "h" (.var "d")) (.write "h" (.slice (.var "d") (.int 0) (.var "i")))) st >>=
    exec c (.assign "i" (.bin .sub (.var "i") (.int 16)))

theorem md5_fill_iter (c : Ctx) (d : Bytes) : ∀ (F m i : Nat) (acc : Bytes) (st : Env),
    i ≤ F → i ≤ m → st "h" = some (.hash acc) → st "d" = some (.bytes d) → st "i" = some (.int i) →
    (iter (fillCond c) (fillStep c) F st >>= fun st' => .ok (st'.eraseAll ["i"])) =
      match md5Fill d m i with
      | some fill => .ok ((st.set "h" (.hash (acc ++ fill))).erase "i")
      | none => .panic := by
  intro F
  induction F with
  | zero =>
    intro m i acc st hF hm hh hd hi
    have hi0 : i = 0 := by omega
    subst hi0
    have hcond : fillCond c st = .ok false := by
      simp [fillCond, eval_gt_zero c st "i" _ hi]
    rw [iter_false _ _ _ _ hcond]
    have hmod : md5Fill d m 0 = some [] := by cases m <;> simp [md5Fill]
    simp only [hmod, ok_bind, Env.eraseAll_cons, Env.eraseAll_nil, List.append_nil]
    congr 1
    env_ext
  | succ F ih =>
    intro m i acc st hF hm hh hd hi
    by_cases hi0 : i = 0
    · subst hi0
      have hcond : fillCond c st = .ok false := by
        simp [fillCond, eval_gt_zero c st "i" _ hi]
      rw [iter_false _ _ _ _ hcond]
      have hmod : md5Fill d m 0 = some [] := by cases m <;> simp [md5Fill]
      simp only [hmod, ok_bind, Env.eraseAll_cons, Env.eraseAll_nil, List.append_nil]
      congr 1
      env_ext
    · obtain ⟨m', rfl⟩ : ∃ m', m = m' + 1 := ⟨m - 1, by omega⟩
      have hcond : fillCond c st = .ok true := by
        simp [fillCond, eval_gt_zero c st "i" _ hi]; omega
      rw [iter_true _ _ _ _ hcond]
      have hgt : eval c st (.bin .gt (.var "i") (.int 16)) = .ok (.bool (decide (16 < i))) := by
        simp [eval, lookup_some hi, evalBin]; omega
      by_cases h16 : 16 < i
      · -- a whole digest
        have hmod : md5Fill d (m' + 1) i = (md5Fill d m' (i - 16)).map (d ++ ·) := by
          simp [md5Fill, hi0, h16]
        have hstep : fillStep c st = .ok ((st.set "h" (.hash (acc ++ d))).set "i" (.int ((i - 16 : Nat) : Int))) := by
          have hi' : (st.set "h" (.hash (acc ++ d))) "i" = some (.int i) := by simp [Env.set, hi]
          have hsub : ((i : Int) - 16) = ((i - 16 : Nat) : Int) := by omega
          have hpost : exec c (.assign "i" (.bin .sub (.var "i") (.int 16))) (st.set "h" (.hash (acc ++ d))) =
              .ok ((st.set "h" (.hash (acc ++ d))).set "i" (.int ((i - 16 : Nat) : Int))) := by
            simp [exec_assign, eval, lookup_some hi', evalBin, hsub]
          simp only [fillStep, exec_ite_bool c st _ _ _ _ hgt, decide_eq_true h16, if_true,
            exec_write_var c st "h" "d" acc d hh hd, ok_bind, hpost]
        rw [hstep, ok_bind, hmod]
        have := ih m' (i - 16) (acc ++ d) ((st.set "h" (.hash (acc ++ d))).set "i" (.int ((i - 16 : Nat) : Int)))
          (by omega) (by omega) (by simp [Env.set]) (by simp [Env.set, hd]) (Env.set_same _ "i" _)
        rw [this]
        cases md5Fill d m' (i - 16) with
        | none => rfl
        | some fill =>
          simp only [Option.map_some, List.append_assoc]
          congr 1
          env_ext
      · -- the last, partial digest: `i` drops to zero or below and the loop ends
        have hmod : md5Fill d (m' + 1) i = sliceTo d i := by
          simp [md5Fill, hi0, h16]
        rw [hmod]
        have hsl : eval c st (.slice (.var "d") (.int 0) (.var "i")) =
            match sliceTo d i with | some x => .ok (.bytes x) | none => .panic := by
          simp only [eval, lookup_some hd, lookup_some hi, ok_bind, asBytes_bytes, asInt_int]
          exact sliceOf_zero d i
        cases hs : sliceTo d i with
        | none =>
          rw [hs] at hsl
          have hstep : fillStep c st = .panic := by
            simp only [fillStep, exec_ite_bool c st _ _ _ _ hgt, decide_eq_false h16, Bool.false_eq_true, if_false,
              exec_write_panic c st "h" _ acc hh hsl, panic_bind]
          rw [hstep]; rfl
        | some x =>
          rw [hs] at hsl
          have hstep : fillStep c st = .ok ((st.set "h" (.hash (acc ++ x))).set "i" (.int ((i : Int) - 16))) := by
            have hi' : (st.set "h" (.hash (acc ++ x))) "i" = some (.int i) := by simp [Env.set, hi]
            have hpost : exec c (.assign "i" (.bin .sub (.var "i") (.int 16))) (st.set "h" (.hash (acc ++ x))) =
                .ok ((st.set "h" (.hash (acc ++ x))).set "i" (.int ((i : Int) - 16))) := by
              simp [exec_assign, eval, lookup_some hi', evalBin]
            simp only [fillStep, exec_ite_bool c st _ _ _ _ hgt, decide_eq_false h16, Bool.false_eq_true, if_false,
              exec_write_val c st "h" _ acc x hh hsl, ok_bind, hpost]
          rw [hstep, ok_bind]
          have hcond' : fillCond c ((st.set "h" (.hash (acc ++ x))).set "i" (.int ((i : Int) - 16))) = .ok false := by
            simp [fillCond, eval_gt_zero c _ "i" _ (Env.set_same _ "i" _)]; omega
          rw [iter_false _ _ _ _ hcond']
          simp only [ok_bind, Env.eraseAll_cons, Env.eraseAll_nil]
          congr 1
          env_ext

/-- Loop 1 as a statement. -/
theorem md5_fill_stmt (c : Ctx) (st : Env) (acc d pw : Bytes)
    (hh : st "h" = some (.hash acc)) (hd : st "d" = some (.bytes d)) (hp : st "password" = some (.bytes pw))
    (hi : st "i" = none) :
    exec c (.scoped ["i"] (.assign "i" (.len (.var "password")) ;;
      .for_ (.bin .add (.bin .sub (.var "i") (.int 0)) (.int 1))
      (.bin .gt (.var "i") (.int 0))
      (.assign "i" (.bin .sub (.var "i") (.int 16)))
      (.ite (.bin .gt (.var "i") (.int 16)) (.write "h" (.var "d"))
        (.write "h" (.slice (.var "d") (.int 0) (.var "i")))))) st =
      match md5Fill d (pw.length + 1) pw.length with
      | some fill => .ok (st.set "h" (.hash (acc ++ fill)))
      | none => .panic := by
  rw [exec_scoped, exec_seq]
  have h1 : exec c (.assign "i" (.len (.var "password"))) st = .ok (st.set "i" (.int pw.length)) := by
    simp [exec_assign, eval, lookup_some hp, lenOf]
  rw [h1, ok_bind, exec_for]
  have hf : eval c (st.set "i" (.int pw.length)) (.bin .add (.bin .sub (.var "i") (.int 0)) (.int 1)) =
      .ok (.int ((pw.length : Int) + 1)) := by
    simp [eval, evalBin]
  rw [hf]
  simp only [ok_bind, asInt_int]
  have := md5_fill_iter c d ((pw.length : Int) + 1).toNat (pw.length + 1) pw.length acc (st.set "i" (.int pw.length))
    (by omega) (by omega) (by simp [Env.set, hh]) (by simp [Env.set, hd]) (Env.set_same _ "i" _)
  refine Eq.trans this ?_
  cases md5Fill d (pw.length + 1) pw.length with
  | none => rfl
  | some fill =>
    simp only
    congr 1
    env_ext

/-! ## Loop 2: `for i := len(password); i > 0; i >>= 1 { if i&1 != 0 { h.Write([]byte{0}) } else { h.Write(password[:1]) } }` -/

def bitsCond (c : Ctx) : Env → Res Bool := fun st => eval c st (.bin .gt (.var "i_2") (.int 0)) >>= asBool
def bitsStep (c : Ctx) : Env → Res Env := fun st =>
  exec c (.ite (.bin .ne (.bin .band (.var "i_2") (.int 1)) (.int 0)) (.write "h" (.bytes [0]))
    (.write "h" (.slice (.var "password") (.int 0) (.int 1)))) st >>=
    exec c (.assign "i_2" (.bin .shr (.var "i_2") (.int 1)))

theorem md5_bits_exit (c : Ctx) (pw : Bytes) (F m : Nat) (acc : Bytes) (st : Env)
    (hh : st "h" = some (.hash acc)) (hi : st "i_2" = some (.int (0 : Nat))) :
    (iter (bitsCond c) (bitsStep c) F st >>= fun st' => .ok (st'.eraseAll ["i_2"])) =
      match md5Bits pw m 0 with
      | some bits => .ok ((st.set "h" (.hash (acc ++ bits))).erase "i_2")
      | none => .panic := by
  have hcond : bitsCond c st = .ok false := by
    simp [bitsCond, eval_gt_zero c st "i_2" _ hi]
  rw [iter_false _ _ _ _ hcond]
  have hmod : md5Bits pw m 0 = some [] := by cases m <;> simp [md5Bits]
  simp only [hmod, ok_bind, Env.eraseAll_cons, Env.eraseAll_nil, List.append_nil]
  congr 1
  env_ext

theorem md5_bits_iter (c : Ctx) (pw : Bytes) : ∀ (F m i : Nat) (acc : Bytes) (st : Env),
    i ≤ F → i ≤ m → st "h" = some (.hash acc) → st "password" = some (.bytes pw) → st "i_2" = some (.int i) →
    (iter (bitsCond c) (bitsStep c) F st >>= fun st' => .ok (st'.eraseAll ["i_2"])) =
      match md5Bits pw m i with
      | some bits => .ok ((st.set "h" (.hash (acc ++ bits))).erase "i_2")
      | none => .panic := by
  intro F
  induction F with
  | zero =>
    intro m i acc st hF hm hh hp hi
    have hi0 : i = 0 := by omega
    subst hi0
    exact md5_bits_exit c pw 0 m acc st hh hi
  | succ F ih =>
    intro m i acc st hF hm hh hp hi
    by_cases hi0 : i = 0
    · subst hi0
      exact md5_bits_exit c pw _ m acc st hh hi
    · obtain ⟨m', rfl⟩ : ∃ m', m = m' + 1 := ⟨m - 1, by omega⟩
      have hcond : bitsCond c st = .ok true := by
        simp [bitsCond, eval_gt_zero c st "i_2" _ hi]; omega
      rw [iter_true _ _ _ _ hcond]
      have hmod : md5Bits pw (m' + 1) i =
          (do let piece ← (if i % 2 = 1 then some [0] else sliceTo pw 1)
              let rest ← md5Bits pw m' (i / 2)
              pure (piece ++ rest)) := by
        simp only [md5Bits, hi0, ↓reduceIte]
        split <;> rfl
      rw [hmod]
      have hodd := eval_odd c st "i_2" i hi
      -- the piece written by this iteration, or the panic of `password[:1]`
      have hbody : exec c (.ite (.bin .ne (.bin .band (.var "i_2") (.int 1)) (.int 0)) (.write "h" (.bytes [0]))
            (.write "h" (.slice (.var "password") (.int 0) (.int 1)))) st =
          match (if i % 2 = 1 then some [0] else sliceTo pw 1) with
          | some piece => .ok (st.set "h" (.hash (acc ++ piece)))
          | none => .panic := by
        rw [exec_ite_bool c st _ _ _ _ hodd]
        by_cases hpar : i % 2 = 1
        · simp only [if_true, hpar]
          exact exec_write_val c st "h" _ acc [0] hh rfl
        · simp only [if_false, hpar]
          have hsl : eval c st (.slice (.var "password") (.int 0) (.int 1)) =
              match sliceTo pw 1 with | some x => .ok (.bytes x) | none => .panic := by
            simp only [eval, lookup_some hp, ok_bind, asBytes_bytes, asInt_int]
            exact_mod_cast sliceOf_zero pw 1
          cases hs : sliceTo pw 1 with
          | none => rw [hs] at hsl; exact exec_write_panic c st "h" _ acc hh hsl
          | some x => rw [hs] at hsl; exact exec_write_val c st "h" _ acc x hh hsl
      cases hpiece : (if i % 2 = 1 then some [0] else sliceTo pw 1) with
      | none =>
        rw [hpiece] at hbody
        simp only [bitsStep, hbody, panic_bind]
        rfl
      | some piece =>
        rw [hpiece] at hbody
        have hi' : (st.set "h" (.hash (acc ++ piece))) "i_2" = some (.int i) := by simp [Env.set, hi]
        have hpost : exec c (.assign "i_2" (.bin .shr (.var "i_2") (.int 1))) (st.set "h" (.hash (acc ++ piece))) =
            .ok ((st.set "h" (.hash (acc ++ piece))).set "i_2" (.int ((i / 2 : Nat) : Int))) := by
          simp only [exec_assign, eval, lookup_some hi', ok_bind, asInt_int, evalBin_shr_one]
        simp only [bitsStep, hbody, ok_bind, hpost]
        have := ih m' (i / 2) (acc ++ piece) ((st.set "h" (.hash (acc ++ piece))).set "i_2" (.int ((i / 2 : Nat) : Int)))
          (by omega) (by omega) (by simp [Env.set]) (by simp [Env.set, hp]) (Env.set_same _ "i_2" _)
        rw [this]
        cases md5Bits pw m' (i / 2) with
        | none => rfl
        | some rest =>
          simp only [Option.bind_eq_bind, Option.bind_some, Option.pure_def, List.append_assoc]
          congr 1
          env_ext

/-- Loop 2 as a statement. -/
theorem md5_bits_stmt (c : Ctx) (st : Env) (acc pw : Bytes)
    (hh : st "h" = some (.hash acc)) (hp : st "password" = some (.bytes pw)) (hi : st "i_2" = none) :
    exec c (.scoped ["i_2"] (.assign "i_2" (.len (.var "password")) ;;
      .for_ (.bin .add (.bin .sub (.var "i_2") (.int 0)) (.int 1))
      (.bin .gt (.var "i_2") (.int 0))
      (.assign "i_2" (.bin .shr (.var "i_2") (.int 1)))
      (.ite (.bin .ne (.bin .band (.var "i_2") (.int 1)) (.int 0)) (.write "h" (.bytes [0]))
        (.write "h" (.slice (.var "password") (.int 0) (.int 1)))))) st =
      match md5Bits pw (pw.length + 1) pw.length with
      | some bits => .ok (st.set "h" (.hash (acc ++ bits)))
      | none => .panic := by
  rw [exec_scoped, exec_seq]
  have h1 : exec c (.assign "i_2" (.len (.var "password"))) st = .ok (st.set "i_2" (.int pw.length)) := by
    simp [exec_assign, eval, lookup_some hp, lenOf]
  rw [h1, ok_bind, exec_for]
  have hf : eval c (st.set "i_2" (.int pw.length)) (.bin .add (.bin .sub (.var "i_2") (.int 0)) (.int 1)) =
      .ok (.int ((pw.length : Int) + 1)) := by
    simp [eval, evalBin]
  rw [hf]
  simp only [ok_bind, asInt_int]
  have := md5_bits_iter c pw ((pw.length : Int) + 1).toNat (pw.length + 1) pw.length acc (st.set "i_2" (.int pw.length))
    (by omega) (by omega) (by simp [Env.set, hh]) (by simp [Env.set, hp]) (Env.set_same _ "i_2" _)
  refine Eq.trans this ?_
  cases md5Bits pw (pw.length + 1) pw.length with
  | none => rfl
  | some bits =>
    simp only
    congr 1
    env_ext

/-! ## Loop 3: the 1000 rounds -/

/-- The body of the round loop, followed by `i++`: one application of `md5Round`. -/
theorem md5_round_step (c : Ctx) {perm : Bytes} (hc : Md5Calls c perm) (st : Env) (pw salt dk : Bytes) (k : Nat)
    (hp : st "password" = some (.bytes pw)) (hs : st "salt" = some (.bytes salt))
    (hd : st "d" = some (.bytes dk)) (hi : st "i_3" = some (.int k)) (hh1 : st "h1" = none) :
    (exec c (.scoped ["h1"] (
        .call "h1" "md5crypt.newHash" [.lnil] ;;
        .ite (.bin .ne (.bin .band (.var "i_3") (.int 1)) (.int 0)) (.write "h1" (.var "password")) (.write "h1" (.var "d")) ;;
        .ite (.bin .ne (.bin .rem (.var "i_3") (.int 3)) (.int 0)) (.write "h1" (.var "salt")) .skip ;;
        .ite (.bin .ne (.bin .rem (.var "i_3") (.int 7)) (.int 0)) (.write "h1" (.var "password")) .skip ;;
        .ite (.bin .ne (.bin .band (.var "i_3") (.int 1)) (.int 0)) (.write "h1" (.var "d")) (.write "h1" (.var "password")) ;;
        .assign "d" (.sum (.var "h1")))) st >>=
      exec c (.assign "i_3" (.bin .add (.var "i_3") (.int 1)))) =
    .ok ((st.set "d" (.bytes (md5Round c.H pw salt k dk))).set "i_3" (.int ((k + 1 : Nat) : Int))) := by
  rw [exec_scoped]
  -- h1 := newHash()
  have e0 : exec c (.call "h1" "md5crypt.newHash" [.lnil]) st = .ok (st.set "h1" (.hash [])) := by
    simp [exec_call, evalArgs, eval, hc.newHash]
  -- the four conditional writes
  have e1 := exec_ite_write2 c (st.set "h1" (.hash [])) _ "h1" "password" "d" _ [] pw dk
    (eval_odd c _ "i_3" k (by simp [Env.set, hi])) (Env.set_same _ _ _) (by simp [Env.set, hp]) (by simp [Env.set, hd])
  have e2 := exec_ite_write1 c ((st.set "h1" (.hash [])).set "h1" (.hash ([] ++ if decide (k % 2 = 1) = true then pw else dk)))
    _ "h1" "salt" _ _ salt
    (eval_rem_ne c _ "i_3" k 3 (by decide) (by simp [Env.set, hi])) (Env.set_same _ _ _) (by simp [Env.set, hs])
  have e3 := exec_ite_write1 c
    (((st.set "h1" (.hash [])).set "h1" (.hash ([] ++ if decide (k % 2 = 1) = true then pw else dk))).set "h1"
      (.hash (([] ++ if decide (k % 2 = 1) = true then pw else dk) ++ if decide (k % 3 ≠ 0) = true then salt else [])))
    _ "h1" "password" _ _ pw
    (eval_rem_ne c _ "i_3" k 7 (by decide) (by simp [Env.set, hi])) (Env.set_same _ _ _) (by simp [Env.set, hp])
  have e4 := exec_ite_write2 c
    ((((st.set "h1" (.hash [])).set "h1" (.hash ([] ++ if decide (k % 2 = 1) = true then pw else dk))).set "h1"
      (.hash (([] ++ if decide (k % 2 = 1) = true then pw else dk) ++ if decide (k % 3 ≠ 0) = true then salt else []))).set "h1"
      (.hash ((([] ++ if decide (k % 2 = 1) = true then pw else dk) ++ if decide (k % 3 ≠ 0) = true then salt else []) ++
        if decide (k % 7 ≠ 0) = true then pw else [])))
    _ "h1" "d" "password" _ _ dk pw
    (eval_odd c _ "i_3" k (by simp [Env.set, hi])) (Env.set_same _ _ _) (by simp [Env.set, hd]) (by simp [Env.set, hp])
  simp only [Int.cast_ofNat_Int] at e2 e3
  rw [exec_seq, e0, ok_bind, exec_seq, e1, ok_bind, exec_seq, e2, ok_bind, exec_seq, e3, ok_bind, exec_seq, e4, ok_bind]
  simp only [exec_assign, eval, lookup, Env.set_same, ok_bind, digestOf_hash, pure_eq_ok, Env.eraseAll_cons, Env.eraseAll_nil,
    asInt_int, evalBin]
  have hi' : ∀ (e : Env) (v : Val), ((e.set "d" v).erase "h1") "i_3" = e "i_3" := by
    intro e v; simp [Env.set, Env.erase]
  have hV : c.H (((([] ++ if decide (k % 2 = 1) = true then pw else dk) ++ if decide (k % 3 ≠ 0) = true then salt else []) ++
      if decide (k % 7 ≠ 0) = true then pw else []) ++ if decide (k % 2 = 1) = true then dk else pw) =
      md5Round c.H pw salt k dk := by
    simp [md5Round]
  have hk1 : ((k + 1 : Nat) : Int) = (k : Int) + 1 := by omega
  rw [hV, hi', hk1]
  have hi2 : ∀ (a b c d e : Val), (((((st.set "h1" a).set "h1" b).set "h1" c).set "h1" d).set "h1" e) "i_3" = some (.int k) := by
    intro a b c d e; simp [Env.set, hi]
  rw [hi2]
  simp only [ok_bind, asInt_int]
  congr 1
  funext y
  simp only [Env.set, Env.erase]
  repeat' split
  all_goals first | rfl | simp_all

/-- Loop 3 as a statement. -/
theorem md5_rounds_stmt (c : Ctx) {perm : Bytes} (hc : Md5Calls c perm) (st : Env) (pw salt d0 : Bytes)
    (hp : st "password" = some (.bytes pw)) (hs : st "salt" = some (.bytes salt))
    (hd : st "d" = some (.bytes d0)) (hi : st "i_3" = none) (hh1 : st "h1" = none) :
    exec c (.scoped ["i_3"] (.assign "i_3" (.int 0) ;;
      .for_ (.bin .add (.bin .sub (.int 1000) (.var "i_3")) (.int 1))
      (.bin .lt (.var "i_3") (.int 1000))
      (.assign "i_3" (.bin .add (.var "i_3") (.int 1)))
      (.scoped ["h1"] (
        .call "h1" "md5crypt.newHash" [.lnil] ;;
        .ite (.bin .ne (.bin .band (.var "i_3") (.int 1)) (.int 0)) (.write "h1" (.var "password")) (.write "h1" (.var "d")) ;;
        .ite (.bin .ne (.bin .rem (.var "i_3") (.int 3)) (.int 0)) (.write "h1" (.var "salt")) .skip ;;
        .ite (.bin .ne (.bin .rem (.var "i_3") (.int 7)) (.int 0)) (.write "h1" (.var "password")) .skip ;;
        .ite (.bin .ne (.bin .band (.var "i_3") (.int 1)) (.int 0)) (.write "h1" (.var "d")) (.write "h1" (.var "password")) ;;
        .assign "d" (.sum (.var "h1")))))) st =
      .ok (st.set "d" (.bytes (md5Rounds c.H pw salt 1000 d0))) := by
  let f : Nat → Env := fun k => (st.set "d" (.bytes (md5Rounds c.H pw salt k d0))).set "i_3" (.int k)
  have h0 : exec c (.assign "i_3" (.int 0)) st = .ok (f 0) := by
    simp only [exec_assign, eval, ok_bind, f, md5Rounds, set_self st "d" _ hd]
    rfl
  have hloop := exec_for_count c (.bin .add (.bin .sub (.int 1000) (.var "i_3")) (.int 1))
    (.bin .lt (.var "i_3") (.int 1000)) (.assign "i_3" (.bin .add (.var "i_3") (.int 1)))
    (.scoped ["h1"] (
        .call "h1" "md5crypt.newHash" [.lnil] ;;
        .ite (.bin .ne (.bin .band (.var "i_3") (.int 1)) (.int 0)) (.write "h1" (.var "password")) (.write "h1" (.var "d")) ;;
        .ite (.bin .ne (.bin .rem (.var "i_3") (.int 3)) (.int 0)) (.write "h1" (.var "salt")) .skip ;;
        .ite (.bin .ne (.bin .rem (.var "i_3") (.int 7)) (.int 0)) (.write "h1" (.var "password")) .skip ;;
        .ite (.bin .ne (.bin .band (.var "i_3") (.int 1)) (.int 0)) (.write "h1" (.var "d")) (.write "h1" (.var "password")) ;;
        .assign "d" (.sum (.var "h1"))))
    f 1000 1001
    (by simp [f, eval, evalBin])
    (by decide)
    (by intro k hk; simp [f, eval, evalBin]; omega)
    (by simp [f, eval, evalBin])
    (by
      intro k hk
      have := md5_round_step c hc (f k) pw salt (md5Rounds c.H pw salt k d0) k
        (by simp [f, Env.set, hp]) (by simp [f, Env.set, hs]) (by simp [f, Env.set]) (by simp [f])
        (by simp [f, Env.set, hh1])
      rw [this]
      congr 1
      simp only [f, md5Rounds]
      env_ext)
  rw [exec_scoped, exec_seq, h0, ok_bind, hloop]
  simp only [ok_bind, Env.eraseAll_cons, Env.eraseAll_nil, f]
  congr 1
  env_ext

/-! ## The whole function -/

-- a statement lemma that does not fit the regenerated program should fail at once, not after the
-- unifier has unfolded the interpreter on both sides
attribute [local irreducible] exec

theorem md5_encrypt_body (c : Ctx) {perm : Bytes} (hc : Md5Calls c perm) (pw salt pfx : Bytes) :
    exec c Gen.md5_md5crypt.encryptIR.body
        (Env.ofList (Gen.md5_md5crypt.encryptIR.params.zip [.bytes pw, .bytes salt, .bytes pfx])) =
      match md5cryptEncrypt c.H (perm.map (·.toNat)) pw salt pfx with
      | some r => .ret (.bytes r)
      | none => .panic := by
  simp only [Gen.md5_md5crypt.encryptIR, List.zip_cons_cons, List.zip_nil_right, Env.ofList, md5cryptEncrypt]
  -- h := newHash(password, prefix, salt)
  refine exec_seq_ok c _ (st' := (((Env.empty.set "prefix" (.bytes pfx)).set "salt" (.bytes salt)).set "password" (.bytes pw)).set
      "h" (.hash (pw ++ pfx ++ salt))) (by
    simp [exec_call, evalArgs, eval, Env.set, hc.newHash]) ?_
  -- d := sum(password, salt, password)
  refine exec_seq_ok c _ (st' := ((((Env.empty.set "prefix" (.bytes pfx)).set "salt" (.bytes salt)).set "password" (.bytes pw)).set
      "h" (.hash (pw ++ pfx ++ salt))).set "d" (.bytes (c.H (pw ++ salt ++ pw)))) (by
    simp [exec_call, evalArgs, eval, Env.set, hc.sum]) ?_
  -- loop 1
  have l1 := md5_fill_stmt c (((((Env.empty.set "prefix" (.bytes pfx)).set "salt" (.bytes salt)).set "password" (.bytes pw)).set
      "h" (.hash (pw ++ pfx ++ salt))).set "d" (.bytes (c.H (pw ++ salt ++ pw)))) (pw ++ pfx ++ salt) (c.H (pw ++ salt ++ pw)) pw
    (by simp [Env.set]) (by simp [Env.set]) (by simp [Env.set]) (by simp [Env.set, Env.empty])
  cases hfill : md5Fill (c.H (pw ++ salt ++ pw)) (pw.length + 1) pw.length with
  | none => rw [hfill] at l1; exact exec_seq_panic c _ l1
  | some fill =>
  rw [hfill] at l1
  refine exec_seq_ok c _ l1 ?_
  -- loop 2
  have l2 := md5_bits_stmt c ((((((Env.empty.set "prefix" (.bytes pfx)).set "salt" (.bytes salt)).set "password" (.bytes pw)).set
      "h" (.hash (pw ++ pfx ++ salt))).set "d" (.bytes (c.H (pw ++ salt ++ pw)))).set "h" (.hash (pw ++ pfx ++ salt ++ fill)))
    (pw ++ pfx ++ salt ++ fill) pw (by simp [Env.set]) (by simp [Env.set]) (by simp [Env.set, Env.empty])
  cases hbits : md5Bits pw (pw.length + 1) pw.length with
  | none => rw [hbits] at l2; exact exec_seq_panic c _ l2
  | some bits =>
  rw [hbits] at l2
  refine exec_seq_ok c _ l2 ?_
  -- d = h.Sum(nil)
  refine exec_seq_ok c _ (st' := (((((((Env.empty.set "prefix" (.bytes pfx)).set "salt" (.bytes salt)).set "password" (.bytes pw)).set
      "h" (.hash (pw ++ pfx ++ salt))).set "d" (.bytes (c.H (pw ++ salt ++ pw)))).set "h" (.hash (pw ++ pfx ++ salt ++ fill))).set
      "h" (.hash (pw ++ pfx ++ salt ++ fill ++ bits))).set "d" (.bytes (c.H (pw ++ pfx ++ salt ++ fill ++ bits)))) (by
    simp [exec_assign, eval, Env.set]) ?_
  -- loop 3
  refine exec_seq_ok c _ (md5_rounds_stmt c hc _ pw salt (c.H (pw ++ pfx ++ salt ++ fill ++ bits))
    (by simp [Env.set]) (by simp [Env.set]) (by simp [Env.set]) (by simp [Env.set, Env.empty]) (by simp [Env.set, Env.empty])) ?_
  -- return cryptoutil.Permute(d, permFinal[:])
  have hargs : ∀ st : Env, st "d" = some (.bytes (md5Rounds c.H pw salt 1000 (c.H (pw ++ pfx ++ salt ++ fill ++ bits)))) →
      evalArgs c st [.var "d", .slice (.global "md5crypt.permFinal") (.int 0) (.len (.global "md5crypt.permFinal"))] =
      .ok [.bytes (md5Rounds c.H pw salt 1000 (c.H (pw ++ pfx ++ salt ++ fill ++ bits))), .bytes perm] := by
    intro st hd
    have := sliceOf_zero perm perm.length
    simp only [sliceTo, Nat.le_refl, if_true, List.take_length] at this
    simp [evalArgs, eval, lookup_some hd, hc.permFinal, lenOf, this]
  simp only [Option.bind_eq_bind, Option.bind_some]
  rw [exec_seq, exec_call, hargs _ (Env.set_same _ _ _), ok_bind, hc.permute]
  cases permute (md5Rounds c.H pw salt 1000 (c.H (pw ++ pfx ++ salt ++ fill ++ bits))) (perm.map (·.toNat)) with
  | none => rfl
  | some r => simp [ofModel, exec_ret, eval]

theorem md5_encrypt_proc (c : Ctx) {perm : Bytes} (hc : Md5Calls c perm) (pw salt pfx : Bytes) :
    execProc c Gen.md5_md5crypt.encryptIR [.bytes pw, .bytes salt, .bytes pfx] =
      ofModel (md5cryptEncrypt c.H (perm.map (·.toNat)) pw salt pfx) := by
  have key := md5_encrypt_body c hc pw salt pfx
  cases hm : md5cryptEncrypt c.H (perm.map (·.toNat)) pw salt pfx with
  | none => rw [hm] at key; exact execProc_of_panic _ _ _ rfl key
  | some r => rw [hm] at key; exact execProc_of_ret _ _ _ _ rfl key

end GoCrypt.HashIR
