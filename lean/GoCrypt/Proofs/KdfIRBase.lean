import GoCrypt.Base.HashIR

/-!
# Hash-transcript IR: interpreter lemmas

Generic facts about `HashIR.exec`: the `Res` monad, environments, operators on natural-number
operands, and one lemma per loop SHAPE (`iter_count` for counting loops, `iter_false` for the exit,
`rangeLoop` over a list), proved once by induction. Helper lemmas only; the property theorems are in
`Props/KdfIR.lean`.
-/

namespace GoCrypt.HashIR

/-! ## The result monad -/

@[simp] theorem pure_eq_ok {α : Type} (a : α) : (pure a : Res α) = .ok a := rfl
@[simp] theorem ok_bind {α β : Type} (a : α) (f : α → Res β) : (Res.ok a >>= f) = f a := rfl
@[simp] theorem ret_bind {α β : Type} (v : Val) (f : α → Res β) : (Res.ret v >>= f) = .ret v := rfl
@[simp] theorem panic_bind {α β : Type} (f : α → Res β) : (Res.panic >>= f) = .panic := rfl
@[simp] theorem stuck_bind {α β : Type} (w : String) (f : α → Res β) : (Res.stuck w >>= f) = .stuck w := rfl

@[simp] theorem asInt_int (i : Int) : asInt (.int i) = .ok i := rfl
@[simp] theorem asBool_bool (b : Bool) : asBool (.bool b) = .ok b := rfl
@[simp] theorem asBytes_bytes (b : Bytes) : asBytes (.bytes b) = .ok b := rfl
@[simp] theorem asHash_hash (b : Bytes) : asHash (.hash b) = .ok b := rfl
@[simp] theorem asList_list (l : List Bytes) : asList (.list l) = .ok l := rfl
@[simp] theorem digestOf_hash (c : Ctx) (w : Bytes) : digestOf c (.hash w) = .ok (c.H w) := rfl
@[simp] theorem digestOf_hmac (c : Ctx) (k w : Bytes) : digestOf c (.hmac k w) = .ok (c.HM k w) := rfl
@[simp] theorem appendTo_hash (w b : Bytes) : appendTo (.hash w) b = .ok (.hash (w ++ b)) := rfl
@[simp] theorem appendTo_hmac (k w b : Bytes) : appendTo (.hmac k w) b = .ok (.hmac k (w ++ b)) := rfl

/-! ## Environments -/

namespace Env

@[simp] theorem set_same (st : Env) (x : String) (v : Val) : (st.set x v) x = some v := by simp [set]
theorem set_ne (st : Env) {x y : String} (v : Val) (h : y ≠ x) : (st.set x v) y = st y := by simp [set, h]
@[simp] theorem erase_same (st : Env) (x : String) : (st.erase x) x = none := by simp [erase]
theorem erase_ne (st : Env) {x y : String} (h : y ≠ x) : (st.erase x) y = st y := by simp [erase, h]
@[simp] theorem eraseAll_nil (st : Env) : st.eraseAll [] = st := rfl
@[simp] theorem eraseAll_cons (st : Env) (x : String) (xs : List String) :
    st.eraseAll (x :: xs) = (st.erase x).eraseAll xs := rfl
@[simp] theorem setOpt_some (st : Env) (x : String) (v : Val) : st.setOpt (some x) v = st.set x v := rfl
@[simp] theorem setOpt_none (st : Env) (v : Val) : st.setOpt none v = st := rfl
@[simp] theorem eraseOpt_some (st : Env) (x : String) : st.eraseOpt (some x) = st.erase x := rfl
@[simp] theorem eraseOpt_none (st : Env) : st.eraseOpt none = st := rfl

theorem set_set (st : Env) (x : String) (v w : Val) : (st.set x v).set x w = st.set x w := by
  funext y; simp only [set]; split <;> rfl

theorem set_erase (st : Env) (x : String) (v : Val) : (st.set x v).erase x = st.erase x := by
  funext y; simp only [set, erase]; split <;> rfl

theorem erase_of_none (st : Env) (x : String) (h : st x = none) : st.erase x = st := by
  funext y; simp only [erase]; split
  · next e => rw [e, h]
  · rfl

theorem set_comm (st : Env) {x y : String} (v w : Val) (h : x ≠ y) :
    (st.set x v).set y w = (st.set y w).set x v := by
  funext z; simp only [set]
  by_cases h1 : z = y
  · subst h1; simp [Ne.symm h]
  · by_cases h2 : z = x <;> simp [h1, h2, h]

theorem erase_set_comm (st : Env) {x y : String} (v : Val) (h : x ≠ y) :
    (st.set x v).erase y = (st.erase y).set x v := by
  funext z; simp only [set, erase]
  by_cases h1 : z = y
  · subst h1; simp [Ne.symm h]
  · by_cases h2 : z = x <;> simp [h1, h2, h]

end Env

/-- Environments are compared pointwise; variable names are literals, so each side is a chain of
`if y = "…"` that `split` takes apart. -/
syntax "env_ext" : tactic
macro_rules
  | `(tactic| env_ext) => `(tactic|
      (funext y; simp only [Env.set, Env.erase, Env.eraseAll, List.foldl]; repeat' split
       all_goals first | rfl | simp_all))

@[simp] theorem lookup_some {st : Env} {x : String} {v : Val} (h : st x = some v) : lookup st x = .ok v := by
  simp [lookup, h]

/-! ## Operators on natural-number operands -/

theorem evalBin_band_one (a : Nat) : evalBin .band a 1 = .ok (.int ((a % 2 : Nat) : Int)) := by
  have h : (0 : Int) ≤ a ∧ (0 : Int) ≤ 1 := ⟨Int.natCast_nonneg a, by decide⟩
  simp only [evalBin, h, and_self, if_true]
  have : (1 : Int).toNat = 1 := rfl
  rw [Int.toNat_natCast, this, Nat.and_one_is_mod]

theorem evalBin_shr_one (a : Nat) : evalBin .shr a 1 = .ok (.int ((a / 2 : Nat) : Int)) := by
  have h1 : ¬ (1 : Int) < 0 := by decide
  have h2 : (0 : Int) ≤ a := Int.natCast_nonneg a
  simp only [evalBin, h1, h2, if_true, if_false]
  have : (1 : Int).toNat = 1 := rfl
  rw [Int.toNat_natCast, this, Nat.shiftRight_eq_div_pow, Nat.pow_one]

theorem evalBin_rem_nat (a : Nat) (b : Int) (hb : 0 < b) : evalBin .rem a b = .ok (.int ((a : Int) % b)) := by
  have h : ¬ b = 0 := by omega
  simp only [evalBin, h, if_false]
  rw [Int.tmod_eq_emod_of_nonneg (Int.natCast_nonneg a)]

/-! ## Loop shapes -/

/-- Leaving a loop: the condition is false. -/
theorem iter_false (cond : Env → Res Bool) (step : Env → Res Env) (fuel : Nat) (st : Env)
    (h : cond st = .ok false) : iter cond step fuel st = .ok st := by
  cases fuel <;> simp [iter, h]

/-- One iteration. -/
theorem iter_true (cond : Env → Res Bool) (step : Env → Res Env) (fuel : Nat) (st : Env)
    (h : cond st = .ok true) : iter cond step (fuel + 1) st = (step st >>= iter cond step fuel) := by
  simp [iter, h]

/-- Counting loop `for i := 0; i < n; i++`: `f k` is the environment at the start of iteration `k`. -/
theorem iter_count (cond : Env → Res Bool) (step : Env → Res Env) (f : Nat → Env) (n : Nat)
    (hc : ∀ k, k < n → cond (f k) = .ok true) (hn : cond (f n) = .ok false)
    (hs : ∀ k, k < n → step (f k) = .ok (f (k + 1))) :
    ∀ fuel k, k ≤ n → n - k ≤ fuel → iter cond step fuel (f k) = .ok (f n) := by
  intro fuel
  induction fuel with
  | zero =>
    intro k hk hf
    have : k = n := by omega
    subst this
    exact iter_false _ _ _ _ hn
  | succ fuel ih =>
    intro k hk hf
    by_cases hkn : k = n
    · subst hkn; exact iter_false _ _ _ _ hn
    · have hlt : k < n := by omega
      rw [iter_true _ _ _ _ (hc k hlt), hs k hlt, ok_bind]
      exact ih (k + 1) (by omega) (by omega)

/-- `range` over a list whose body succeeds on every element: `f j` is the environment before
element `j`. -/
theorem rangeLoop_count (step : Nat → Val → Env → Res Env) : ∀ (items : List Val) (k : Nat) (f : Nat → Env),
    (∀ j (h : j < items.length), step (k + j) items[j] (f j) = .ok (f (j + 1))) →
    rangeLoop step items k (f 0) = .ok (f items.length)
  | [], _, _, _ => rfl
  | v :: vs, k, f, hs => by
    have h0 := hs 0 (by simp)
    simp only [Nat.add_zero, List.getElem_cons_zero] at h0
    simp only [rangeLoop, h0, ok_bind, List.length_cons]
    apply rangeLoop_count step vs (k + 1) (fun j => f (j + 1))
    intro j h
    have := hs (j + 1) (by simp only [List.length_cons]; omega)
    simp only [List.getElem_cons_succ] at this
    have e : k + (j + 1) = k + 1 + j := by omega
    rw [e] at this; exact this

/-! ## Statement rules

`exec` is unfolded one constructor at a time, so that a loop statement stays recognisable until its
own lemma is applied. -/

section rules
variable (c : Ctx) (st : Env)

theorem exec_skip : exec c .skip st = .ok st := rfl
theorem exec_seq (a b : Stmt) : exec c (a ;; b) st = (exec c a st >>= exec c b) := rfl
theorem exec_assign (x : String) (e : Expr) :
    exec c (.assign x e) st = (eval c st e >>= fun v => .ok (st.set x v)) := rfl
theorem exec_write (h : String) (e : Expr) :
    exec c (.write h e) st = (lookup st h >>= fun hv => eval c st e >>= asBytes >>= fun b =>
      appendTo hv b >>= fun hv' => .ok (st.set h hv')) := by
  simp only [exec]
  cases lookup st h <;> simp
  next v => cases eval c st e <;> simp
theorem exec_ite (cnd : Expr) (t e : Stmt) :
    exec c (.ite cnd t e) st = (eval c st cnd >>= asBool >>= fun b => if b then exec c t st else exec c e st) := by
  simp only [exec]
  cases eval c st cnd <;> simp
theorem exec_scoped (xs : List String) (s : Stmt) :
    exec c (.scoped xs s) st = (exec c s st >>= fun st' => .ok (st'.eraseAll xs)) := rfl
theorem exec_call (x f : String) (args : List Expr) :
    exec c (.call x f args) st = (evalArgs c st args >>= fun vs => c.call f vs >>= fun r => .ok (st.set x r)) := rfl
theorem exec_ret (e : Expr) : exec c (.ret e) st = (eval c st e >>= fun v => .ret v) := rfl
theorem exec_retErr (m : String) : exec c (.retErr m) st = .ret (.err m) := rfl

theorem exec_forRange (k v : Option String) (coll : Expr) (body : Stmt) :
    exec c (.forRange k v coll body) st = (eval c st coll >>= rangeItems >>= fun items =>
      rangeLoop (fun i x st => exec c body ((st.setOpt k (.int i)).setOpt v x) >>= fun st' =>
        .ok ((st'.eraseOpt k).eraseOpt v)) items 0 st) := by
  simp only [exec]
  cases eval c st coll <;> simp
theorem exec_setIndex (x : String) (i e : Expr) :
    exec c (.setIndex x i e) st = (lookup st x >>= asBytes >>= fun b => eval c st i >>= asInt >>= fun k =>
      eval c st e >>= asInt >>= fun v => storeByte b k v >>= fun b' => .ok (st.set x b')) := by
  simp only [exec]
  cases lookup st x <;> simp
  next v => cases asBytes v <;> simp
            next w => cases eval c st i <;> simp
                      next u => cases asInt u <;> simp
                                next k => cases eval c st e <;> simp
theorem exec_for (fuel cnd : Expr) (post body : Stmt) :
    exec c (.for_ fuel cnd post body) st = (eval c st fuel >>= asInt >>= fun n =>
      iter (fun st => eval c st cnd >>= asBool) (fun st => exec c body st >>= exec c post) n.toNat st) := by
  simp only [exec]
  cases eval c st fuel <;> simp
theorem exec_ite_bool (cnd : Expr) (t e : Stmt) (b : Bool) (h : eval c st cnd = .ok (.bool b)) :
    exec c (.ite cnd t e) st = if b then exec c t st else exec c e st := by
  rw [exec_ite, h]; rfl
theorem exec_write_var (h x : String) (acc b : Bytes) (hh : st h = some (.hash acc)) (hx : st x = some (.bytes b)) :
    exec c (.write h (.var x)) st = .ok (st.set h (.hash (acc ++ b))) := by
  simp [exec_write, lookup_some hh, eval, lookup_some hx]
theorem exec_write_val (h : String) (e : Expr) (acc b : Bytes) (hh : st h = some (.hash acc))
    (he : eval c st e = .ok (.bytes b)) :
    exec c (.write h e) st = .ok (st.set h (.hash (acc ++ b))) := by
  simp [exec_write, lookup_some hh, he]
theorem exec_write_panic (h : String) (e : Expr) (acc : Bytes) (hh : st h = some (.hash acc))
    (he : eval c st e = .panic) : exec c (.write h e) st = .panic := by
  simp [exec_write, lookup_some hh, he]
theorem set_self (x : String) (v : Val) (h : st x = some v) : st.set x v = st := by
  funext y; simp only [Env.set]; split
  · next e => rw [e, h]
  · rfl
/-- `if cond { h.Write(x) } else { h.Write(y) }` -/
theorem exec_ite_write2 (cnd : Expr) (h x y : String) (b : Bool) (acc bx bY : Bytes)
    (hc : eval c st cnd = .ok (.bool b)) (hh : st h = some (.hash acc))
    (hx : st x = some (.bytes bx)) (hy : st y = some (.bytes bY)) :
    exec c (.ite cnd (.write h (.var x)) (.write h (.var y))) st =
      .ok (st.set h (.hash (acc ++ if b then bx else bY))) := by
  rw [exec_ite_bool c st _ _ _ b hc]
  cases b
  · simp [exec_write_var c st h y acc bY hh hy]
  · simp [exec_write_var c st h x acc bx hh hx]
/-- `if cond { h.Write(x) }` -/
theorem exec_ite_write1 (cnd : Expr) (h x : String) (b : Bool) (acc bx : Bytes)
    (hc : eval c st cnd = .ok (.bool b)) (hh : st h = some (.hash acc)) (hx : st x = some (.bytes bx)) :
    exec c (.ite cnd (.write h (.var x)) .skip) st = .ok (st.set h (.hash (acc ++ if b then bx else []))) := by
  rw [exec_ite_bool c st _ _ _ b hc]
  cases b
  · simp [exec_skip, set_self st h _ hh]
  · simp [exec_write_var c st h x acc bx hh hx]
/-- `if cond { … } else { … }` where both branches append something to the same hash object. -/
theorem exec_ite_merge (cnd : Expr) (t e : Stmt) (h : String) (b : Bool) (acc X Y : Bytes)
    (hc : eval c st cnd = .ok (.bool b))
    (ht : exec c t st = .ok (st.set h (.hash (acc ++ X)))) (he : exec c e st = .ok (st.set h (.hash (acc ++ Y)))) :
    exec c (.ite cnd t e) st = .ok (st.set h (.hash (acc ++ if b then X else Y))) := by
  rw [exec_ite_bool c st _ _ _ b hc]
  cases b
  · simpa using he
  · simpa using ht
theorem exec_seq_assoc (a b r : Stmt) : exec c ((a ;; b) ;; r) st = exec c (a ;; (b ;; r)) st := by
  simp only [exec_seq]
  cases exec c a st <;> rfl
theorem exec_call_ok (x f : String) (args : List Expr) (vs : List Val) (r : Val)
    (ha : evalArgs c st args = .ok vs) (hf : c.call f vs = .ok r) :
    exec c (.call x f args) st = .ok (st.set x r) := by
  rw [exec_call, ha, ok_bind, hf, ok_bind]
theorem exec_call_panic (x f : String) (args : List Expr) (vs : List Val)
    (ha : evalArgs c st args = .ok vs) (hf : c.call f vs = .panic) :
    exec c (.call x f args) st = .panic := by
  rw [exec_call, ha, ok_bind, hf, panic_bind]
theorem exec_assign_ok (x : String) (e : Expr) (v : Val) (he : eval c st e = .ok v) :
    exec c (.assign x e) st = .ok (st.set x v) := by
  rw [exec_assign, he, ok_bind]
theorem exec_write_hmac (h : String) (e : Expr) (k acc b : Bytes) (hh : st h = some (.hmac k acc))
    (he : eval c st e = .ok (.bytes b)) :
    exec c (.write h e) st = .ok (st.set h (.hmac k (acc ++ b))) := by
  simp [exec_write, lookup_some hh, he]
theorem exec_reset_hmac (h : String) (k acc : Bytes) (hh : st h = some (.hmac k acc)) :
    exec c (.reset h) st = .ok (st.set h (.hmac k [])) := by
  simp [exec, lookup_some hh, resetOf]
theorem exec_sumInto_hmac (x h : String) (b k acc : Bytes) (hx : st x = some (.bytes b)) (hh : st h = some (.hmac k acc))
    (hlen : (c.HM k acc).length = b.length) :
    exec c (.sumInto x h) st = .ok (st.set x (.bytes (c.HM k acc))) := by
  have : sumOver b (c.HM k acc) = c.HM k acc := by
    simp [sumOver, hlen]
  simp [exec, lookup_some hx, lookup_some hh, this]

/-- Sequencing, forward style: run the first statement, continue from its final environment. -/
theorem exec_seq_ok {a b : Stmt} {st' : Env} {r : Res Env} (h1 : exec c a st = .ok st')
    (h2 : exec c b st' = r) : exec c (a ;; b) st = r := by
  rw [exec_seq, h1, ok_bind, h2]

theorem exec_seq_panic {a b : Stmt} (h1 : exec c a st = .panic) : exec c (a ;; b) st = .panic := by
  rw [exec_seq, h1, panic_bind]

theorem exec_seq_ret {a b : Stmt} {v : Val} (h1 : exec c a st = .ret v) : exec c (a ;; b) st = .ret v := by
  rw [exec_seq, h1, ret_bind]

end rules

/-- Statement-level rule for `for _, v := range coll` over a variadic pack: `f j` is the environment
before element `j`. -/
theorem exec_forRange_list (c : Ctx) (v : String) (coll : Expr) (body : Stmt) (st : Env) (l : List Bytes)
    (f : Nat → Env) (hcoll : eval c st coll = .ok (.list l)) (h0 : f 0 = st)
    (hs : ∀ j (h : j < l.length), ∃ st', exec c body ((f j).set v (.bytes l[j])) = .ok st' ∧ st'.erase v = f (j + 1)) :
    exec c (.forRange none (some v) coll body) st = .ok (f l.length) := by
  simp only [exec, hcoll, ok_bind, rangeItems]
  have := rangeLoop_count (fun i x st => do
      let st' ← exec c body ((st.setOpt none (.int i)).setOpt (some v) x)
      pure ((st'.eraseOpt none).eraseOpt (some v))) (l.map .bytes) 0 f (by
    intro j h
    have hj : j < l.length := by simpa using h
    obtain ⟨st', h1, h2⟩ := hs j hj
    simp only [Env.setOpt_none, Env.setOpt_some, List.getElem_map, h1, ok_bind, pure_eq_ok,
      Env.eraseOpt_none, Env.eraseOpt_some, h2])
  rw [h0] at this
  simpa using this

/-- Statement-level rule for a counting loop: `f k` is the environment at the start of iteration `k`,
`n` the number of iterations, `F` the value of the fuel expression on entry. -/
theorem exec_for_count (c : Ctx) (fuel cond : Expr) (post body : Stmt) (f : Nat → Env) (n : Nat) (F : Int)
    (hfuel : eval c (f 0) fuel = .ok (.int F)) (hF : (n : Int) ≤ F)
    (hc : ∀ k, k < n → eval c (f k) cond = .ok (.bool true))
    (hn : eval c (f n) cond = .ok (.bool false))
    (hs : ∀ k, k < n → (exec c body (f k) >>= exec c post) = .ok (f (k + 1))) :
    exec c (.for_ fuel cond post body) (f 0) = .ok (f n) := by
  simp only [exec, hfuel, ok_bind, asInt_int]
  exact iter_count _ _ f n (fun k hk => by simp [hc k hk]) (by simp [hn])
    (fun k hk => by have := hs k hk; simpa using this) F.toNat 0 (Nat.zero_le _) (by omega)

theorem take_succ_flatten (l : List Bytes) (j : Nat) (h : j < l.length) :
    (l.take (j + 1)).flatten = (l.take j).flatten ++ l[j] := by
  rw [List.take_succ_eq_append_getElem h]
  simp only [List.flatten_append, List.flatten_cons, List.flatten_nil, List.append_nil]

end GoCrypt.HashIR
