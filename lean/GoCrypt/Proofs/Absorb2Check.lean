import GoCrypt.Proofs.Absorb2Des
import GoCrypt.Proofs.Absorb2Nt
import GoCrypt.Proofs.Absorb2Bcrypt
import GoCrypt.Proofs.Absorb2Argon2
import GoCrypt.Proofs.Absorb2Enc
import GoCrypt.Props.C02Core
import GoCrypt.Proofs.EndToEndCanon

/-!
# From two successful `Check`s to equal derived keys (helper lemmas for `Props/C02b.lean`)

`C02.check_ok_iff` twice: the same hash unmarshals to the same fields, `Key` succeeds for both passwords
on the hash's own parameters, the two encoded digests equal the stored one — and the encoders are
injective, so the two *keys* are equal. Then `Key` is unfolded through its guards to the derivation.
-/

namespace GoCrypt.Absorb2
open GoCrypt GoCrypt.Scheme GoCrypt.Codec GoCrypt.Kdf GoCrypt.Guards GoCrypt.EndToEnd

/-- Two passwords verifying against one hash: one unmarshalling, two successful `Key`s with the same
encoded digest; `params` is the `Key` argument record of that hash. -/
theorem check_both (S : Def) (h pw pw' : Bytes) (rand rand' : Nat)
    (h1 : check S h pw rand = .nil) (h2 : check S h pw' rand' = .nil) :
    ∃ ti vals k k', params S h = .ok (checkArgs S ti vals [] 0) ∧
      key S (checkArgs S ti vals pw rand) = .ok k ∧ key S (checkArgs S ti vals pw' rand') = .ok k' ∧
      S.encodeSum k = S.encodeSum k' := by
  obtain ⟨ti, out, k, hti, hu, hk, he⟩ := (C02.check_ok_iff S h pw rand).1 h1
  obtain ⟨ti', out', k', hti', hu', hk', he'⟩ := (C02.check_ok_iff S h pw' rand').1 h2
  rw [hti] at hti'; cases hti'
  rw [hu] at hu'; cases hu'
  exact ⟨ti, finalVals ti out, k, k', params_of_fields S ti h out _ hti hu rfl, hk, hk', he.trans he'.symm⟩

/-! ## `checkArgs`: the password enters one field only -/

theorem checkArgs_des' (ti : TypeInfo) (vals : Vals) (pw : Bytes) (rand : Nat) :
    checkArgs des ti vals pw rand = { password := pw, salt := fvBytes (Scheme.fieldVal ti vals "Salt") } := rfl

theorem checkArgs_desext' (ti : TypeInfo) (vals : Vals) (pw : Bytes) (rand : Nat) :
    checkArgs desext ti vals pw rand =
      { password := pw, salt := fvBytes (Scheme.fieldVal ti vals "Salt"), rounds := fvNat (Scheme.fieldVal ti vals "Rounds") } := rfl

theorem checkArgs_nthash' (ti : TypeInfo) (vals : Vals) (pw : Bytes) (rand : Nat) :
    checkArgs nthash ti vals pw rand = { password := Kdf.utf16le pw } := rfl

theorem checkArgs_bcrypt' (ti : TypeInfo) (vals : Vals) (pw : Bytes) (rand : Nat) :
    checkArgs bcrypt ti vals pw rand =
      { password := pw, salt := fvBytes (Scheme.fieldVal ti vals "Salt"), rounds := fvNat (Scheme.fieldVal ti vals "Cost") % 256,
        optsNil := false, optPrefix := fvBytes (Scheme.fieldVal ti vals "HashPrefix") } := rfl

theorem checkArgs_argon2' (ti : TypeInfo) (vals : Vals) (pw : Bytes) (rand : Nat) :
    checkArgs argon2 ti vals pw rand =
      { password := pw, salt := fvBytes (Scheme.fieldVal ti vals "Salt"), memory := fvNat (Scheme.fieldVal ti vals "Memory"),
        rounds := fvNat (Scheme.fieldVal ti vals "Time"), threads := fvNat (Scheme.fieldVal ti vals "Threads"),
        optsNil := false, optPrefix := fvBytes (Scheme.fieldVal ti vals "HashPrefix"),
        optVersion := if fvNat (Scheme.fieldVal ti vals "Version") = 0 then Gen.argon2.Version10
                      else fvNat (Scheme.fieldVal ti vals "Version") } := rfl

/-! ## `Key` through its guards -/

theorem des_guards'' (a : KeyArgs) : des.guards a = outcome (Accepts.des.verdict a) a := des_guards a
theorem nthash_guards'' (a : KeyArgs) : nthash.guards a = outcome (Accepts.nthash.verdict a) a := nthash_guards a

theorem des_key_ok (a : KeyArgs) (k : Bytes) (h : key des a = .ok k) :
    k = Des.be64 (Des.encrypt (Des.desKey a.password) 0 (UInt32.ofNat (desDecodeInt a.salt)) 25) := by
  obtain ⟨-, hd⟩ := key_ok_of_guards des Accepts.des _ des_guards'' a k h
  simp only [des, KeyRes.ok.injEq] at hd
  exact hd.symm

theorem desext_key_ok (a : KeyArgs) (k : Bytes) (h : key desext a = .ok k) :
    k = Des.be64 (Des.encrypt (Des.desextKey a.password) 0 (UInt32.ofNat (desDecodeInt a.salt)) a.rounds) := by
  obtain ⟨-, hd⟩ := key_ok_of_guards desext Accepts.desext _ desext_guards' a k h
  simp only [desext, KeyRes.ok.injEq] at hd
  exact hd.symm

theorem nthash_key_ok (a : KeyArgs) (k : Bytes) (h : key nthash a = .ok k) : k = Prim.md4 a.password := by
  obtain ⟨-, hd⟩ := key_ok_of_guards nthash Accepts.nthash _ nthash_guards'' a k h
  simp only [nthash, KeyRes.ok.injEq] at hd
  exact hd.symm

theorem bcrypt_key_ok (a : KeyArgs) (k : Bytes) (ho : a.optsNil = false) (h : key bcrypt a = .ok k) :
    bcryptDerive a.optPrefix a.password (stdDecodeBuf bcryptAlphabet a.salt) a.rounds = some k := by
  obtain ⟨-, hd⟩ := key_ok_of_guards bcrypt Accepts.bcrypt _ bcrypt_guards' a k h
  have hdef : Accepts.bcrypt.defaults a = a := by simp [Accepts.bcrypt, ho]
  rw [hdef, C03bProofs.guardsPw_eq, C03bProofs.bcrypt_derive_eq a a.password] at hd
  cases hb : bcryptDerive a.optPrefix a.password (stdDecodeBuf bcryptAlphabet a.salt) a.rounds with
  | none => rw [hb] at hd; cases hd
  | some k' => rw [hb] at hd; simp only [KeyRes.ok.injEq] at hd; rw [hd]

theorem argon2_key_ok (a : KeyArgs) (k : Bytes) (ho : a.optsNil = false) (h : key argon2 a = .ok k) :
    k = Argon2.key (argon2Mode a.optPrefix) a.optVersion a.password (stdDecodeBuf stdAlphabet a.salt) a.rounds a.memory
      a.threads Gen.argon2.keyLen := by
  obtain ⟨-, hd⟩ := key_ok_of_guards argon2 Accepts.argon2 _ argon2_guards' a k h
  have hdef : Accepts.argon2.defaults a = a := by simp [Accepts.argon2, ho]
  rw [hdef] at hd
  simp only [argon2, KeyRes.ok.injEq] at hd
  exact hd.symm

/-! ## Argon2: the unmarshalled `Threads` / `Memory` fit their Go types (`uint8`, `uint32`) -/

theorem member_lt (key : Bytes) (bits : Nat) (ms : List Bytes) (n : Nat) (h : Grammar.member key bits ms = some n) :
    n < 2 ^ bits := by
  unfold Grammar.member at h
  split at h
  · unfold Grammar.num at h
    split at h
    · next hp => cases h; exact Accept.parseUint_lt _ _ _ _ hp
    · cases h
  · cases h

theorem argon2Params_lt (g : Bytes) (m t p : Nat) (h : Grammar.argon2Params g = some (m, t, p)) :
    m < 2 ^ 32 ∧ t < 2 ^ 32 ∧ p < 2 ^ 8 := by
  unfold Grammar.argon2Params at h
  simp only [] at h
  split at h
  · split at h
    · next h1 h2 h3 =>
      cases h
      exact ⟨member_lt _ _ _ _ h1, member_lt _ _ _ _ h2, member_lt _ _ _ _ h3⟩
    · cases h
  · cases h

theorem grammar_argon2_lt (h : Bytes) (f : Grammar.Argon2) (hg : Grammar.argon2 h = some f) :
    f.memory < 2 ^ 32 ∧ f.threads < 2 ^ 8 := by
  unfold Grammar.argon2 at hg
  split at hg
  · rcases Accept.argon2Body_cases _ _ _ hg with ⟨g, salt, sum, m, t, p, -, hp, -, -, rfl⟩ |
      ⟨v, g, salt, sum, ver, m, t, p, -, -, -, hp, -, -, rfl⟩
    · exact ⟨(argon2Params_lt g m t p hp).1, (argon2Params_lt g m t p hp).2.2⟩
    · exact ⟨(argon2Params_lt g m t p hp).1, (argon2Params_lt g m t p hp).2.2⟩
  · cases hg

/-- The parameter record of an Argon2 hash that unmarshals has `threads ≤ 255`, `memory < 2^32`. -/
theorem argon2_params_bounds (h : Bytes) (a : KeyArgs) (hp : params argon2 h = .ok a) :
    a.threads ≤ 255 ∧ a.memory < 2 ^ 32 ∧ a.optsNil = false := by
  unfold params at hp
  rw [tiOf_argon2] at hp
  simp only [] at hp
  cases hu : unmarshal Shapes.argon2TI h with
  | error e => rw [hu] at hp; cases hp
  | ok out =>
    rw [hu] at hp
    simp only [Except.ok.injEq] at hp
    obtain ⟨f, hG, rfl⟩ := (Accept.unmarshal_argon2 h out).1 hu
    rw [finalVals_argon2Out, checkArgs_argon2'] at hp
    obtain ⟨hm, ht⟩ := grammar_argon2_lt h f hG
    subst hp
    refine ⟨?_, hm, rfl⟩
    show f.threads ≤ 255
    omega

/-! ## The converse at the level of `Check`: equivalent passwords get the same verdict -/

/-- `Check` depends on the password only through `Key` on the hash's own parameters. -/
theorem check_congr (S : Def) (h pw pw' : Bytes) (rand rand' : Nat)
    (hk : ∀ ti vals, key S (checkArgs S ti vals pw rand) = key S (checkArgs S ti vals pw' rand')) :
    check S h pw rand = check S h pw' rand' := by
  unfold check
  cases tiOf S with
  | none => rfl
  | some ti =>
    simp only []
    cases unmarshal ti h with
    | error e => rfl
    | ok out => simp only [hk]

theorem key_eq_of (S : Def) (a a' : KeyArgs) (v : Option KeyErr) (r r' : KeyArgs)
    (hg : S.guards a = outcome v r) (hg' : S.guards a' = outcome v r') (hd : S.derive r = S.derive r') :
    key S a = key S a' := by
  unfold key
  rw [hg, hg']
  cases v with
  | some e => rfl
  | none => exact hd

theorem des_key_congr (pw pw' salt : Bytes) (hl : pw.length ≤ 8) (hl' : pw'.length ≤ 8) (he : desEquiv pw pw') :
    key des { password := pw, salt := salt } = key des { password := pw', salt := salt } := by
  have hv : Accepts.des.verdict { password := pw, salt := salt } = Accepts.des.verdict { password := pw', salt := salt } := by
    simp only [Accepts.Spec.verdict, Accepts.des, Accepts.firstViolation, Accepts.Clause.violation, id,
      Gen.des.MaxPasswordLength, show ¬ pw.length > 8 by omega, show ¬ pw'.length > 8 by omega, if_false]
  refine key_eq_of des _ _ _ _ _ (des_guards'' _) (by rw [hv]; exact des_guards'' _) ?_
  simp only [des]
  rw [(desKey_eq_iff' pw pw').2 he]

theorem des_key_long (pw salt : Bytes) (hl : 8 < pw.length) :
    key des { password := pw, salt := salt } = .err { type := "InvalidPasswordLengthError", num := pw.length } := by
  unfold key
  rw [des_guards'']
  have : Accepts.des.verdict { password := pw, salt := salt } = some { type := "InvalidPasswordLengthError", num := pw.length } := by
    simp only [Accepts.Spec.verdict, Accepts.des, Accepts.firstViolation, Accepts.Clause.violation, id,
      Gen.des.MaxPasswordLength, show pw.length > 8 from hl, if_true]
  rw [this]
  rfl

theorem desext_key_congr (pw pw' salt : Bytes) (rounds : Nat) (he : desextEquiv pw pw') :
    key desext { password := pw, salt := salt, rounds := rounds } = key desext { password := pw', salt := salt, rounds := rounds } := by
  have hv : Accepts.desext.verdict { password := pw, salt := salt, rounds := rounds } =
      Accepts.desext.verdict { password := pw', salt := salt, rounds := rounds } := by
    simp only [Accepts.Spec.verdict, Accepts.desext, Accepts.firstViolation, Accepts.Clause.violation, id]
  refine key_eq_of desext _ _ _ _ _ (desext_guards' _) (by rw [hv]; exact desext_guards' _) ?_
  simp only [desext]
  rw [desextKey_of_equiv pw pw' he]

theorem desext_key_congr_parity (pw pw' salt : Bytes) (rounds : Nat)
    (he : Des.desextKey pw ||| 0x0101010101010101 = Des.desextKey pw' ||| 0x0101010101010101) :
    key desext { password := pw, salt := salt, rounds := rounds } = key desext { password := pw', salt := salt, rounds := rounds } := by
  have hv : Accepts.desext.verdict { password := pw, salt := salt, rounds := rounds } =
      Accepts.desext.verdict { password := pw', salt := salt, rounds := rounds } := by
    simp only [Accepts.Spec.verdict, Accepts.desext, Accepts.firstViolation, Accepts.Clause.violation, id]
  refine key_eq_of desext _ _ _ _ _ (desext_guards' _) (by rw [hv]; exact desext_guards' _) ?_
  simp only [desext]
  rw [desext_parityTwins_same pw pw' _ _ he]

theorem bcrypt_key_congr (pw pw' salt pfx : Bytes) (cost : Nat) (he : bcryptEquiv pfx pw pw') :
    key bcrypt { password := pw, salt := salt, rounds := cost, optsNil := false, optPrefix := pfx } =
      key bcrypt { password := pw', salt := salt, rounds := cost, optsNil := false, optPrefix := pfx } := by
  have hv : Accepts.bcrypt.verdict { password := pw, salt := salt, rounds := cost, optsNil := false, optPrefix := pfx } =
      Accepts.bcrypt.verdict { password := pw', salt := salt, rounds := cost, optsNil := false, optPrefix := pfx } := by
    simp only [Accepts.Spec.verdict, Accepts.bcrypt, Accepts.firstViolation, Accepts.Clause.violation, Bool.false_eq_true, if_false]
  refine key_eq_of bcrypt _ _ _ _ _ (bcrypt_guards' _) (by rw [hv]; exact bcrypt_guards' _) ?_
  have hd : ∀ p : Bytes, Accepts.bcrypt.defaults { password := p, salt := salt, rounds := cost, optsNil := false, optPrefix := pfx } =
      { password := p, salt := salt, rounds := cost, optsNil := false, optPrefix := pfx } := by
    intro p; simp [Accepts.bcrypt]
  rw [hd, hd, C03bProofs.guardsPw_eq, C03bProofs.guardsPw_eq]
  have e1 := C03bProofs.bcrypt_derive_eq { password := pw, salt := salt, rounds := cost, optsNil := false, optPrefix := pfx } pw
  have e2 := C03bProofs.bcrypt_derive_eq { password := pw', salt := salt, rounds := cost, optsNil := false, optPrefix := pfx } pw'
  simp only [] at e1 e2
  rw [e1, e2, bcryptDerive_of_equiv pfx pw pw' _ cost he]

end GoCrypt.Absorb2
