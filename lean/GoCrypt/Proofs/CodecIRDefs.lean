import GoCrypt.Gen.CodecIR
import GoCrypt.Model.Codec
import GoCrypt.Proofs.TIIRDefs

/-!
# Codec IR: how run-time values represent the model's values, the primitives' specifications

Definitions (and the witnesses of the primitive specifications) only; the proofs are in
`Proofs/CodecIRBase.lean` (interpreter rules), `CodecIRSmall.lean` (`indirect`, `isEmpty`),
`CodecIRMarshal.lean` (`marshal`, `marshalValue`), `CodecIRTop.lean` (`Marshal`); `Props/CodecIR.lean`
states the results.
-/

namespace GoCrypt.CIR
open GoCrypt.Codec GoCrypt.Gen.codecIR
open GoCrypt.TIIR (RType Res fiObj tiObj Reps RepOpt fiType)

/-! ## Primitives -/

/-- The package-level `*hashutil.Encoding` behind the model's `EncKind`. -/
def encName : EncKind → Option String
  | .hash => some "hashutil.HashEncoding"
  | .base64 => some "hashutil.Base64Encoding"
  | .none => none

/-- What the theorems assume about `(*hashutil.Encoding).IndexAnyInvalid`: negative when every byte is in
the alphabet, otherwise the position of the FIRST byte that is not (the model's `firstInvalid`). -/
structure IndexAnyInvalidSpec (f : String → Bytes → Int) : Prop where
  allValid : ∀ e n s, encName e = some n → firstInvalid e s = none → f n s < 0
  firstBad : ∀ e n s c, encName e = some n → firstInvalid e s = some c →
    0 ≤ f n s ∧ s[(f n s).toNat]? = some c

/-- A witness: scan for the first byte outside the alphabet. -/
def indexAnyInvalidRef (n : String) (s : Bytes) : Int :=
  let a : Bytes := if n = "hashutil.HashEncoding" then hashAlphabet else if n = "hashutil.Base64Encoding" then base64Alphabet else []
  match s.findIdx? (fun c => !a.contains c) with
  | some i => i
  | none => -1

/-- What the theorems assume about the `MarshalText` methods, by class (`Model/TagInfo.lean`,
`GoType.TextCodec`): a whitelist type returns the string itself, the DES integer type the four symbols
of `descrypt.EncodeInt` (of the value as a `uint32`), the two-digit type the zero-padded decimal, an
unrecognised method fails with its description. -/
structure MarshalTextSpec (f : TextCodec → GVal → Option (Except String Bytes)) : Prop where
  whitelist : ∀ l s, f (.whitelist l) (.str s) = some (.ok s)
  desInt : ∀ n, f .desInt (.uint n) = some (.ok (desEncodeInt (n % 4294967296)))
  twoDigit : ∀ n, f .twoDigit (.uint n) = some (.ok (twoDigit n))
  opaque_ : ∀ d g, f (.opaque d) g = some (.error d)

def marshalTextRef : TextCodec → GVal → Option (Except String Bytes)
  | .whitelist _, .str s => some (.ok s)
  | .desInt, .uint n => some (.ok (desEncodeInt (n % 4294967296)))
  | .twoDigit, .uint n => some (.ok (twoDigit n))
  | .opaque d, _ => some (.error d)
  | _, _ => none

theorem marshalTextRef_spec : MarshalTextSpec marshalTextRef :=
  ⟨fun _ _ => rfl, fun _ => rfl, fun _ => rfl, fun d g => by cases g <;> rfl⟩

/-! ## Error values -/

def lengthMismatchLit : Bytes := [108, 101, 110, 103, 116, 104, 32, 109, 105, 115, 109, 97, 116, 99, 104]
def invalidCharLit : Bytes := [105, 110, 118, 97, 108, 105, 100, 32, 99, 104, 97, 114, 97, 99, 116, 101, 114, 32]

/-- The message class of the `Str` field of an `UnsupportedValueError`. -/
def msgClass : Val → Option MsgClass
  | .str b => if b = lengthMismatchLit then some .lengthMismatch else none
  | .msg [.lit b, .quotedRune c] =>
    if b = invalidCharLit ∧ 0 ≤ c ∧ c < 256 then some (.invalidChar (UInt8.ofNat c.toNat)) else none
  | .msg [.errText d] => some (.text d)
  | _ => none

/-- The model's `MErr` for an error VALUE of the program.  Compared: which error type, the `Field` name,
the message class (`length mismatch` / `invalid character <c>` / the marshaler's own text).  NOT compared:
the `Type`, `Struct` and `Value` payloads of the Go error. -/
def absErr (heap : TIIR.Heap) : Val → Option MErr
  | .recd tn [_, s, f] =>
    if tn = "UnsupportedTypeError" then
      (match s, f with
       | _, .name n => some (.unsupportedType n)
       | .str [], .str [] => some .unsupportedTop
       | _, _ => none)
    else none
  | .recd tn [_, _, .name n, m] =>
    if tn = "UnsupportedValueError" then (msgClass m).map (.unsupportedValue n) else none
  | .tiErr v => (TIIR.absErr heap v).map .tag
  | _ => none

/-! ## Representation of struct values -/

/-- `d` non-nil pointers in front of `g`. -/
def ptrChain : Nat → GVal → GVal
  | 0, g => g
  | d + 1, g => .ptr (ptrChain d g)

/-- Kind numbers a `.other _` type may have: every `reflect.Kind` except those of the described types
(signed 2..6, unsigned 7..11, string 24), pointers (22) and interfaces (20: `indirect` would unwrap an
interface, which the description language cannot express). -/
def okOtherKind (k : Nat) : Bool := !([2, 3, 4, 5, 6, 7, 8, 9, 10, 11, 20, 22, 24].contains k)

/-- What `isEmpty` answers for a `.other _` value: kinds with a case are empty iff their number is 0. -/
def otherEmpty (k n : Nat) : Bool := [1, 12, 13, 14, 17, 21, 23].contains k && n == 0

/-- A dereferenced field value `g` of a field described by `fi` is what the model calls `fv`. -/
inductive RepV0 (fi : FieldInfo) : FVal → GVal → Prop
  | str (s : Bytes) : fi.kind = .string → RepV0 fi (.str s) (.str s)
  | bytes (b : Bytes) : fi.kind = .bytes → RepV0 fi (.bytes b) (.bytes b)
  | arr (b : Bytes) (n : Nat) : fi.kind = .byteArray n → b.length = n → RepV0 fi (.bytes b) (.bytes b)
  | int (v : Int) (bits : Nat) : fi.kind = .int bits → RepV0 fi (.int v) (.int v)
  | uint (v : Nat) (bits : Nat) : fi.kind = .uint bits → RepV0 fi (.uint v) (.uint v)
  | strct (fs : List GVal) (n : String) : fi.kind = .structRef n → RepV0 fi .other (.struct fs)
  | other (k n : Nat) (d : String) : fi.kind = .other d → okOtherKind k = true →
      (fi.opts.omitEmpty = true → otherEmpty k n = false) → RepV0 fi .other (.other k n)

/-- The payload a `MarshalText` class expects. -/
def mtCompat : TextCodec → FVal → Prop
  | .whitelist _, .str _ => True
  | .whitelist _, _ => False
  | .desInt, .uint _ => True
  | .desInt, _ => False
  | .twoDigit, .uint _ => True
  | .twoDigit, _ => False
  | _, _ => True

/-- The field value `g` (as `FieldByIndex` delivers it) is what the model calls `fv`: a pointer field is
nil (`.nilPtr`), or non-nil ALL THE WAY down to a value of the field's kind. -/
def RepF (fi : FieldInfo) (fv : FVal) (g : GVal) : Prop :=
  (0 < fi.ptrDepth ∧ fv = .nilPtr ∧ g = .nilPtr) ∨
  (∃ g0, g = ptrChain fi.ptrDepth g0 ∧ RepV0 fi fv g0 ∧ mtCompat fi.marshalText fv)

/-- The struct value `fs` of type `t` (pointer stars removed) is the model's `vals` for `ti`: every field
`ti` lists is reachable by `FieldByIndex` through exported fields and non-nil embedded pointers, has
the type `ti` records, and holds what `vals` says (absent in `vals` = zero value, as in the model). -/
def RepStruct (structs : List GoStruct) (t : RType) (fs : List GVal) (ti : TypeInfo) (vals : Vals) : Prop :=
  (∃ n, t.kind = .structRef n) ∧
  ∀ fi ∈ ti.hashPrefix.toList ++ ti.fields, ∃ gv,
    valFieldByIndex structs { t with depth := 0 } (.struct fs) false true (fi.index.map Int.ofNat) =
      .ok (.rv (fiType fi) gv false) ∧
    RepF fi ((getVal vals fi.index).getD (zeroOf fi.kind fi.ptrDepth)) gv

/-- What the theorems assume about the external `getTypeInfo(t)` when it succeeds: it leaves, somewhere on
the heap, a `typeInfo` record that represents `ti` (exactly the shape `Props/TypeInfoIR.lean` proves for the
regenerated `getTypeInfo`: `TIIR.Top.ColdPost`). -/
def GetTypeInfoOk (ext : String → Mem → List Val → Res (Mem × List Val)) (m : Mem) (t : RType) (ti : TypeInfo) : Prop :=
  ∃ heap' a hp addrs, ext "getTypeInfo" m [.rtype t] = .ok ({ m with heap := heap' }, [.ptr a, .nil]) ∧
    heap'[a]? = some (tiObj (.rtype t) { t with depth := 0 } hp addrs ti.numReqValues) ∧
    RepOpt heap' hp ti.hashPrefix ∧ Reps heap' addrs ti.fields

/-- … and when it fails with the error value `v`. -/
def GetTypeInfoErr (ext : String → Mem → List Val → Res (Mem × List Val)) (m : Mem) (t : RType) (e : TagErr) : Prop :=
  ∃ heap' v, ext "getTypeInfo" m [.rtype t] = .ok ({ m with heap := heap' }, [.nil, .tiErr v]) ∧
    TIIR.absErr heap' v = some e

/-! ## Field numbers -/

example : fieldInfoFields = GoCrypt.Gen.typeinfoIR.fieldInfoFields := by decide
example : typeInfoFields = GoCrypt.Gen.typeinfoIR.typeInfoFields := by decide
example : typeInfoFields = ["Struct", "Type", "HashPrefix", "Fields", "NumReqValues"] := by decide
example : unsupportedTypeErrorFields = ["Type", "Struct", "Field"] := by decide
example : unsupportedValueErrorFields = ["Value", "Struct", "Field", "Str"] := by decide
example : procNames = ["Marshal", "marshalValue", "marshal", "indirect", "isEmpty", "Unmarshal", "unmarshal", "newUnmarshalError",
    "unmarshalIndirect"] := by decide

end GoCrypt.CIR
