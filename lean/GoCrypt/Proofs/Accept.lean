import GoCrypt.Proofs.CodecShapes
import GoCrypt.Spec.Grammar

/-!
# Acceptance direction: what `unmarshal` accepts, for all strings — generic part

* parse side: `unmarshal` on an arbitrary string through `parse_eq_ref`; the fragments of the tree are
  related (`FragsRel`) to the `$`-separated pieces the grammar sees (`Grammar.fragments`);
* field side: `readField` (text checks + store) characterised per class of field;
* loop side: `iff` lemmas for one iteration of the field loop in each situation.
-/

namespace GoCrypt.Accept
open Bytes GoCrypt.Parse GoCrypt.RefParse GoCrypt.Codec

/-! ## Parse side -/

/-- A `$`-separated piece and the fragment the parser builds for it. `last`: nothing follows the piece
among the fragments. -/
def PieceRel (last : Bool) (p : Bytes) : Frag → Prop
  | .value v => v.val = p ∧ comma ∉ p
  | .group vs => comma ∈ p ∧ (last = false → vs.map (·.val) = splitOn comma p)

def FragsRel : List Bytes → List Frag → Prop
  | [], fs => fs = []
  | p :: ps, fs => ∃ f fs', fs = f :: fs' ∧ PieceRel (decide (ps = [])) p f ∧ FragsRel ps fs'

theorem PieceRel.weaken {p : Bytes} {f : Frag} (b : Bool) (h : PieceRel false p f) : PieceRel b p f := by
  cases f with
  | value v => exact h
  | group vs => exact ⟨h.1, fun _ => h.2 rfl⟩

theorem mkValues_map_val : ∀ (ps : List Bytes) (off : Nat), (mkValues off ps).map (·.val) = ps
  | [], _ => rfl
  | p :: ps, off => by simp [mkValues, mkValues_map_val ps]

theorem mkFrag_notLast (off : Nat) (p : Bytes) : ∃ f, mkFrag off p false = some f ∧ PieceRel false p f := by
  by_cases hm : comma ∈ p
  · have hlen : (splitOn comma p).length ≠ 1 :=
      fun h => (splitOn_length_one_iff comma p).1 h comma hm rfl
    refine ⟨.group (mkValues off (splitOn comma p)), ?_, hm, fun _ => mkValues_map_val _ _⟩
    unfold mkFrag
    simp [hlen]
  · have hcm : ∀ c ∈ p, c ≠ comma := fun c hc e => hm (e ▸ hc)
    refine ⟨.value ⟨p, off, off + p.length⟩, ?_, rfl, hm⟩
    unfold mkFrag
    rw [splitOn_plain comma p hcm]
    simp [mkValues]

theorem mkFrag_last (off : Nat) (p : Bytes) (hp : p ≠ []) :
    ∃ f, mkFrag off p true = some f ∧ PieceRel true p f := by
  by_cases hm : comma ∈ p
  · have hlen : (splitOn comma p).length ≠ 1 :=
      fun h => (splitOn_length_one_iff comma p).1 h comma hm rfl
    unfold mkFrag
    simp only [hlen, if_false]
    exact ⟨_, rfl, hm, fun h => by cases h⟩
  · have hcm : ∀ c ∈ p, c ≠ comma := fun c hc e => hm (e ▸ hc)
    refine ⟨.value ⟨p, off, off + p.length⟩, ?_, rfl, hm⟩
    unfold mkFrag
    rw [splitOn_plain comma p hcm]
    simp [mkValues, hp]

theorem mkFrag_last_nil (off : Nat) : mkFrag off [] true = none := by
  simp [mkFrag, splitOn, mkValues]

theorem trimLast_cons_cons (p q : Bytes) (qs : List Bytes) :
    trimLast (p :: q :: qs) = p :: trimLast (q :: qs) := by
  unfold trimLast
  rw [List.getLast?_cons_cons]
  split <;> simp

/-- The fragments built by the (reference) parser stand in `FragsRel` to the pieces, an empty last
piece excepted. -/
theorem mkFrags_rel : ∀ (ps : List Bytes) (off : Nat), FragsRel (trimLast ps) (mkFrags off ps)
  | [], _ => by simp [trimLast, mkFrags, FragsRel]
  | [p], off => by
    by_cases hp : p = []
    · subst hp
      simp [trimLast, mkFrags, mkFrag_last_nil, FragsRel]
    · obtain ⟨f, hf, hr⟩ := mkFrag_last off p hp
      have ht : trimLast [p] = [p] := by simp [trimLast, hp]
      rw [ht]
      simp only [mkFrags, hf, Option.toList_some, FragsRel]
      exact ⟨f, [], rfl, by simpa using hr, rfl⟩
  | p :: q :: qs, off => by
    obtain ⟨f, hf, hr⟩ := mkFrag_notLast off p
    rw [trimLast_cons_cons]
    simp only [mkFrags, hf, Option.toList_some, List.singleton_append, FragsRel]
    exact ⟨f, _, rfl, hr.weaken _, mkFrags_rel (q :: qs) _⟩

theorem fragments_eq_trimLast (rest : Bytes) :
    Grammar.fragments rest = trimLast (splitOn dollar rest) := rfl

/-- `unmarshal` on an arbitrary string, through the split-based reference parser. -/
theorem unmarshal_eq_ref (ti : TypeInfo) (h : Bytes) :
    unmarshal ti h =
      match refPrefix h with
      | .error (o, m) => .error (.syntax o m)
      | .ok (p, rest) =>
        unmarshalTree ti h.length ⟨p, mkFrags (p.getD []).length (splitOn dollar rest)⟩ := by
  unfold unmarshal
  rw [parse_eq_ref]
  unfold refParse
  cases hr : refPrefix h with
  | error e => obtain ⟨o, m⟩ := e; rfl
  | ok x => obtain ⟨p, rest⟩ := x; rfl

/-! ### The prefix rule and literal prefixes -/

theorem refPrefix_some (h p rest : Bytes) (hr : refPrefix h = .ok (some p, rest)) : h = p ++ rest := by
  unfold refPrefix at hr
  cases h with
  | nil => simp at hr
  | cons c cs =>
    simp only at hr
    split at hr
    · split at hr
      · cases hr
      · split at hr
        · cases hr
        · simp only [Except.ok.injEq, Prod.mk.injEq, Option.some.injEq] at hr
          rw [← hr.1, ← hr.2, List.take_append_drop]
    · split at hr
      · simp only [Except.ok.injEq, Prod.mk.injEq, Option.some.injEq] at hr
        rw [← hr.1, ← hr.2]
        next hu => rw [hu]; rfl
      · simp at hr

theorem refPrefix_none (h rest : Bytes) (hr : refPrefix h = .ok (none, rest)) :
    rest = h ∧ h.head? ≠ some dollar ∧ h.head? ≠ some underscore := by
  unfold refPrefix at hr
  cases h with
  | nil => simp at hr; simp [hr]
  | cons c cs =>
    simp only at hr
    split at hr
    · split at hr
      · cases hr
      · split at hr
        · cases hr
        · simp at hr
    · next hd =>
      split at hr
      · simp at hr
      · next hu =>
        simp only [Except.ok.injEq, Prod.mk.injEq, true_and] at hr
        subst hr
        simp [hd, hu]

theorem refPrefix_lit (p rest : Bytes) (hw : CodecDomain.wellFormedPrefix p = true) :
    refPrefix (p ++ rest) = .ok (some p, rest) := by
  have := refPrefix_wf (some p) rest (wfPrefix_of_wellFormed p rest hw)
  simpa using this

theorem refPrefix_plain (h : Bytes) (h1 : h.head? ≠ some dollar) (h2 : h.head? ≠ some underscore) :
    refPrefix h = .ok (none, h) := by
  have := refPrefix_wf none h (WfPrefix.none h (by
    intro c hc
    refine ⟨?_, ?_⟩ <;> intro e <;> subst e
    · exact h1 hc
    · exact h2 hc))
  simpa using this

theorem strip_some_iff (lit h rest : Bytes) : Grammar.strip lit h = some rest ↔ h = lit ++ rest := by
  unfold Grammar.strip
  constructor
  · intro hs
    split at hs
    · next hp =>
      simp only [Option.some.injEq] at hs
      obtain ⟨t, rfl⟩ := List.isPrefixOf_iff_prefix.1 hp
      simp at hs; rw [hs]
    · cases hs
  · rintro rfl
    simp [isPrefixOf_append_self]

theorem stripAny_some_of (lits : List Bytes) (h p rest : Bytes) (hs : Grammar.stripAny lits h = some (p, rest)) :
    p ∈ lits ∧ h = p ++ rest := by
  induction lits with
  | nil => simp [Grammar.stripAny] at hs
  | cons l ls ih =>
    unfold Grammar.stripAny at hs
    cases hl : Grammar.strip l h with
    | some r =>
      simp only [hl, Option.some.injEq, Prod.mk.injEq] at hs
      obtain ⟨rfl, rfl⟩ := hs
      exact ⟨by simp, (strip_some_iff _ _ _).1 hl⟩
    | none =>
      simp only [hl] at hs
      obtain ⟨h1, h2⟩ := ih hs
      exact ⟨by simp [h1], h2⟩

/-- With well-formed literal prefixes the prefix rule of the parser and literal stripping agree. -/
theorem stripAny_iff (lits : List Bytes) (hw : ∀ l ∈ lits, CodecDomain.wellFormedPrefix l = true)
    (h p rest : Bytes) :
    Grammar.stripAny lits h = some (p, rest) ↔ p ∈ lits ∧ refPrefix h = .ok (some p, rest) := by
  constructor
  · intro hs
    obtain ⟨h1, h2⟩ := stripAny_some_of lits h p rest hs
    exact ⟨h1, by rw [h2]; exact refPrefix_lit p rest (hw p h1)⟩
  · rintro ⟨hp, hr⟩
    induction lits with
    | nil => simp at hp
    | cons l ls ih =>
      unfold Grammar.stripAny
      cases hl : Grammar.strip l h with
      | some r =>
        have := (strip_some_iff _ _ _).1 hl
        have hr' := refPrefix_lit l r (hw l (by simp))
        rw [← this, hr] at hr'
        simp only [Except.ok.injEq, Prod.mk.injEq, Option.some.injEq] at hr'
        simp [hr'.1, hr'.2]
      | none =>
        simp only
        have hne : p ≠ l := by
          rintro rfl
          have := refPrefix_some h p rest hr
          rw [(strip_some_iff _ _ _).2 this] at hl
          cases hl
        simp only [List.mem_cons, hne, false_or] at hp
        exact ih (fun l hl => hw l (by simp [hl])) hp

theorem strip_iff (lit : Bytes) (hw : CodecDomain.wellFormedPrefix lit = true) (h rest : Bytes) :
    Grammar.strip lit h = some rest ↔ refPrefix h = .ok (some lit, rest) := by
  rw [strip_some_iff]
  constructor
  · rintro rfl; exact refPrefix_lit lit rest hw
  · exact refPrefix_some h lit rest

theorem refPrefix_ne_nil (h p rest : Bytes) (hr : refPrefix h = .ok (some p, rest)) : p ≠ [] := by
  unfold refPrefix at hr
  cases h with
  | nil => simp at hr
  | cons c cs =>
    simp only at hr
    split at hr
    · split at hr
      · cases hr
      · split at hr
        · cases hr
        · simp only [Except.ok.injEq, Prod.mk.injEq, Option.some.injEq] at hr
          rw [← hr.1]; simp
    · split at hr
      · simp only [Except.ok.injEq, Prod.mk.injEq, Option.some.injEq] at hr
        rw [← hr.1]; simp
      · simp at hr

/-- Generic glue: a characterisation of `unmarshalTree` on trees whose fragments stand in `FragsRel`
to a piece list gives a characterisation of `unmarshal` on strings. -/
theorem unmarshal_via {α : Type} (ti : TypeInfo) (G : Option Bytes → List Bytes → Option α) (Out : α → Vals)
    (htree : ∀ (n : Nat) (p : Option Bytes) (fs : List Frag) (ps : List Bytes) (out : Vals),
      p ≠ some [] → FragsRel ps fs →
      (unmarshalTree ti n ⟨p, fs⟩ = .ok out ↔ ∃ f, G p ps = some f ∧ out = Out f))
    (h : Bytes) (out : Vals) :
    unmarshal ti h = .ok out ↔
      ∃ p rest f, refPrefix h = .ok (p, rest) ∧ G p (Grammar.fragments rest) = some f ∧ out = Out f := by
  rw [unmarshal_eq_ref]
  cases hr : refPrefix h with
  | error e =>
    obtain ⟨o, m⟩ := e
    simp
  | ok x =>
    obtain ⟨p, rest⟩ := x
    simp only [Except.ok.injEq, Prod.mk.injEq]
    have hne : p ≠ some [] := by
      rintro rfl
      exact refPrefix_ne_nil h [] rest hr rfl
    rw [htree _ p _ _ out hne (mkFrags_rel (splitOn dollar rest) _)]
    constructor
    · rintro ⟨f, h1, h2⟩
      exact ⟨p, rest, f, ⟨rfl, rfl⟩, h1, h2⟩
    · rintro ⟨p', rest', f, ⟨rfl, rfl⟩, h1, h2⟩
      exact ⟨f, h1, h2⟩

/-- The grammar side of a layout with one literal prefix. -/
def litG {α : Type} (lit : Bytes) (body : List Bytes → Option α) (p : Option Bytes) (ps : List Bytes) : Option α :=
  if p = some lit then body ps else none

/-- The grammar side of a layout with several literal prefixes. -/
def anyG {α : Type} (lits : List Bytes) (body : Bytes → List Bytes → Option α) (p : Option Bytes)
    (ps : List Bytes) : Option α :=
  match p with
  | some q => if q ∈ lits then body q ps else none
  | none => none

/-- The grammar side of a layout without prefix. -/
def noneG {α : Type} (body : List Bytes → Option α) (p : Option Bytes) (ps : List Bytes) : Option α :=
  match p with
  | some _ => none
  | none => body ps

theorem unmarshal_lit {α : Type} (ti : TypeInfo) (lit : Bytes) (hw : CodecDomain.wellFormedPrefix lit = true)
    (body : List Bytes → Option α) (Out : α → Vals)
    (htree : ∀ (n : Nat) (p : Option Bytes) (fs : List Frag) (ps : List Bytes) (out : Vals),
      p ≠ some [] → FragsRel ps fs →
      (unmarshalTree ti n ⟨p, fs⟩ = .ok out ↔ ∃ f, litG lit body p ps = some f ∧ out = Out f))
    (h : Bytes) (out : Vals) :
    unmarshal ti h = .ok out ↔
      ∃ f, (match Grammar.strip lit h with
            | some rest => body (Grammar.fragments rest)
            | none => none) = some f ∧ out = Out f := by
  rw [unmarshal_via ti (litG lit body) Out htree]
  constructor
  · rintro ⟨p, rest, f, hr, hG, ho⟩
    unfold litG at hG
    split at hG
    · next hp =>
      subst hp
      rw [(strip_iff lit hw h rest).2 hr]
      exact ⟨f, hG, ho⟩
    · cases hG
  · rintro ⟨f, hm, ho⟩
    cases hs : Grammar.strip lit h with
    | none => simp [hs] at hm
    | some rest =>
      simp only [hs] at hm
      exact ⟨some lit, rest, f, (strip_iff lit hw h rest).1 hs, by simpa [litG] using hm, ho⟩

theorem unmarshal_any {α : Type} (ti : TypeInfo) (lits : List Bytes)
    (hw : ∀ l ∈ lits, CodecDomain.wellFormedPrefix l = true)
    (body : Bytes → List Bytes → Option α) (Out : α → Vals)
    (htree : ∀ (n : Nat) (p : Option Bytes) (fs : List Frag) (ps : List Bytes) (out : Vals),
      p ≠ some [] → FragsRel ps fs →
      (unmarshalTree ti n ⟨p, fs⟩ = .ok out ↔ ∃ f, anyG lits body p ps = some f ∧ out = Out f))
    (h : Bytes) (out : Vals) :
    unmarshal ti h = .ok out ↔
      ∃ f, (match Grammar.stripAny lits h with
            | some (p, rest) => body p (Grammar.fragments rest)
            | none => none) = some f ∧ out = Out f := by
  rw [unmarshal_via ti (anyG lits body) Out htree]
  constructor
  · rintro ⟨p, rest, f, hr, hG, ho⟩
    unfold anyG at hG
    cases p with
    | none => cases hG
    | some q =>
      simp only at hG
      split at hG
      · next hq =>
        rw [(stripAny_iff lits hw h q rest).2 ⟨hq, hr⟩]
        exact ⟨f, hG, ho⟩
      · cases hG
  · rintro ⟨f, hm, ho⟩
    cases hs : Grammar.stripAny lits h with
    | none => simp [hs] at hm
    | some x =>
      obtain ⟨q, rest⟩ := x
      simp only [hs] at hm
      obtain ⟨hq, hr⟩ := (stripAny_iff lits hw h q rest).1 hs
      exact ⟨some q, rest, f, hr, by simpa [anyG, hq] using hm, ho⟩

theorem unmarshal_none {α : Type} (ti : TypeInfo)
    (body : List Bytes → Option α) (Out : α → Vals)
    (htree : ∀ (n : Nat) (p : Option Bytes) (fs : List Frag) (ps : List Bytes) (out : Vals),
      p ≠ some [] → FragsRel ps fs →
      (unmarshalTree ti n ⟨p, fs⟩ = .ok out ↔ ∃ f, noneG body p ps = some f ∧ out = Out f))
    (h : Bytes) (out : Vals) :
    unmarshal ti h = .ok out ↔
      ∃ f, (if h.head? = some dollar ∨ h.head? = some underscore then none
            else body (Grammar.fragments h)) = some f ∧ out = Out f := by
  rw [unmarshal_via ti (noneG body) Out htree]
  constructor
  · rintro ⟨p, rest, f, hr, hG, ho⟩
    cases p with
    | some q => cases hG
    | none =>
      obtain ⟨rfl, h1, h2⟩ := refPrefix_none h rest hr
      simp only [h1, h2, or_self, if_false]
      exact ⟨f, hG, ho⟩
  · rintro ⟨f, hm, ho⟩
    split at hm
    · cases hm
    · next hh =>
      simp only [not_or] at hh
      exact ⟨none, h, f, refPrefix_plain h hh.1 hh.2, hm, ho⟩

end GoCrypt.Accept
