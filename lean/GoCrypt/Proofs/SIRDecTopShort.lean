import GoCrypt.Proofs.SIRDecCall

/-!
# Stream IR, decoder side: `(*decoder).Read` after the refill loop, fewer than 4 symbols buffered

The generated `if d.nbuf < 4 { … }` from a world that holds the refilled model state, against the corresponding
branch of the model's `decRead`. Helper lemmas only.
-/

namespace GoCrypt.SIR
open GoCrypt.B64IR (Buf Heap Slice Res sliceBytes writeList writeList_size writeList_append heap_set_self heap_lt_of_get padInt)
open GoCrypt.Base64LE GoCrypt.Stream GoCrypt.Gen.base64leStream

theorem set_ne_all {α : Type} (l : List α) (d : Nat) (x : α) : ∀ a, a ≠ d → (l.set d x)[a]? = l[a]? :=
  fun _ h => List.getElem?_set_ne (Ne.symm h)

/-- With padding, or with nothing buffered: `d.err = d.readErr` (or `io.ErrUnexpectedEOF`), `return 0, d.err`. -/
theorem drShort_plain (c : Ctx) (L : DecLay) (e : Encoding) (ow : Slice) (st : DecSt) (H : Heap) (O : List Obj) (X : List Ext)
    (bp : Nat) (Bp : Buf) (env : Env) (henv : env[0]? = some (.ptr L.d))
    (hrep : DecRep L e ow st ⟨H, O, X⟩) (hbp : H[bp]? = some Bp)
    (hlt : st.buf.length < 4) (hnf : ¬ (e.pad.isNone ∧ st.buf.length > 0)) (k : World → Env → Out) :
    ReadPost L e bp Bp.size (finishSt st) (procResult ((exec c drShort ⟨H, O, X⟩ env).andThen k)) := by
  have hdl := lt_of_getElem? hrep.obj
  rw [drShort_eq, exec_ite, drShort_cond H O X L.d _ _ _ _ _ _ _ _ env henv hrep.obj, bindR_ok, decide_eq_true hlt, if_pos rfl,
    exec_seq, drFrag_skip c H O X L.d L.ae L.b1 L.b2 _ _ _ _ _ e _ _ env henv hrep.obj hrep.enc.obj hnf, andThen_norm,
    drFinish_run c H O X L.d _ _ _ _ _ _ _ _ env henv hrep.obj, procResult_andThen_ret]
  refine ⟨_, ow, Bp, rfl, ?_, hbp, rfl, rfl⟩
  exact hrep.transfer ow _ H _ X rfl rfl (set_ne_all _ _ _) hrep.rdr (List.getElem?_set_self hdl) hrep.nbuf hrep.buf hrep.outbuf
    hrep.outLen hrep.outCap hrep.out

/-! ## The final fragment without padding -/

/-- The model state after the final fragment has been decoded. -/
def fragSt (e : Encoding) (st : DecSt) (plen : Nat) : DecSt :=
  { st with err := decErr (decode e 768 st.buf), buf := [],
            out := ((decode e 768 st.buf).dst.toList.take (decode e 768 st.buf).n).drop plen }

/-- What the model's `decRead` returns on the final-fragment branch. -/
def fragRes (e : Encoding) (st : DecSt) (plen : Nat) : DecSt × Bytes × Option Err :=
  if min plen ((decode e 768 st.buf).dst.toList.take (decode e 768 st.buf).n).length > 0 ∨
      (plen = 0 ∧ (fragSt e st plen).out.length > 0) then
    (fragSt e st plen, ((decode e 768 st.buf).dst.toList.take (decode e 768 st.buf).n).take plen, none)
  else if (fragSt e st plen).err.isSome then (fragSt e st plen, [], (fragSt e st plen).err)
  else finishSt (fragSt e st plen)

theorem decRead_short_frag (e : Encoding) (st : DecSt) (plen : Nat) (h1 : ¬ 0 < st.out.length) (h2 : ¬ st.err.isSome)
    (h3 : (st.refill plen (st.pending + 6)).buf.length < 4)
    (h4 : e.pad.isNone ∧ (st.refill plen (st.pending + 6)).buf.length > 0) :
    decRead e st plen = fragRes e (st.refill plen (st.pending + 6)) plen := by
  unfold decRead
  rw [if_neg h1, if_neg h2]
  simp only []
  rw [if_pos h3, if_pos h4]
  rfl

theorem drFrag_cond (H : Heap) (O : List Obj) (X : List Ext) (d ae b1 b2 nf bb bo nbuf : Nat) (ow : Slice) (e : Encoding)
    (err rerr : Option Nat) (env : Env) (henv : env[0]? = some (.ptr d))
    (hobj : O[d]? = some (decObj err rerr ae nf bb nbuf ow bo)) (hae : O[ae]? = some (encObj b1 b2 e))
    (h : e.pad.isNone ∧ nbuf > 0) :
    (eval ⟨H, O, X⟩ env drFrag.iteCond >>= asBool) = .ok true := by
  have h0 : ((0 : Int) < (nbuf : Int)) = True := by simp; omega
  have hp : e.pad = none := Option.isNone_iff_eq_none.mp h.1
  simp only [drFrag, drShort, Stmt.iteThen, Stmt.iteCond, Stmt.head, Stmt.drop, decoderReadIR]
  b64_simp [hobj, decObj, henv, hae, encObj, padInt_none e hp, h0]

theorem drop_min_length {α : Type} (l : List α) (p : Nat) : l.drop (min p l.length) = l.drop p := by
  by_cases h : p ≤ l.length
  · rw [Nat.min_eq_left h]
  · rw [Nat.min_eq_right (by omega), List.drop_eq_nil_of_le (Nat.le_refl _), List.drop_eq_nil_of_le (by omega)]

/-- After the fragment has been decoded and copied: deliver, report the fragment's error, or finish. -/
theorem drFragTail (c : Ctx) (L : DecLay) (e : Encoding) (ow1 : Slice) (st1 : DecSt) (H1 : Heap) (O1 : List Obj) (X : List Ext)
    (bp : Nat) (Bp1 : Buf) (plen n : Nat) (data : Bytes) (v3 v4 v5 v6 v7 : Val)
    (hrep1 : DecRep L e ow1 st1 ⟨H1, O1, X⟩) (hbp1 : H1[bp]? = some Bp1) (hsz : Bp1.size = plen)
    (hdata : Bp1.toList.take data.length = data) (hn : n = data.length) (k : World → Env → Out) :
    ReadPost L e bp plen
      (if n > 0 ∨ (plen = 0 ∧ st1.out.length > 0) then (st1, data, none)
        else if st1.err.isSome then (st1, [], st1.err) else finishSt st1)
      (procResult (((exec c drFragRet ⟨H1, O1, X⟩ [.ptr L.d, .slice ⟨bp, 0, plen, plen⟩, .int n, v3, v4, v5, v6, v7]).andThen
        (exec c drFinish)).andThen k)) := by
  have hdl := lt_of_getElem? hrep1.obj
  by_cases hA : n > 0 ∨ (plen = 0 ∧ st1.out.length > 0)
  · rw [if_pos hA, drFragRet_data c H1 O1 X L.d _ _ _ _ n plen _ ⟨bp, 0, plen, plen⟩ ow1 _ _ v3 v4 v5 v6 v7 hrep1.obj rfl
      (by rw [hrep1.outLen]; exact hA), andThen_ret, procResult_andThen_ret]
    exact ⟨_, ow1, Bp1, by rw [hn], hrep1, hbp1, hsz, hdata⟩
  · rw [if_neg hA]
    have hn0 : n = 0 := by omega
    have hA' : ¬ (plen = 0 ∧ ow1.len > 0) := by rw [hrep1.outLen]; omega
    subst hn0
    by_cases hE : st1.err.isSome
    · obtain ⟨code, hcode⟩ := Option.isSome_iff_exists.mp hE
      have hobj := hrep1.obj
      rw [hcode] at hobj
      rw [if_pos hE, drFragRet_err c H1 O1 X L.d _ _ _ _ plen _ code ⟨bp, 0, plen, plen⟩ ow1 _ v3 v4 v5 v6 v7 hobj rfl hA',
        andThen_ret, procResult_andThen_ret]
      exact ⟨_, ow1, Bp1, by rw [hcode]; rfl, hrep1, hbp1, hsz, rfl⟩
    · have hnone : st1.err = none := by
        cases h : st1.err with
        | none => rfl
        | some x => rw [h] at hE; simp at hE
      have hobj := hrep1.obj
      rw [hnone] at hobj
      rw [if_neg hE, drFragRet_none c H1 O1 X L.d _ _ _ _ plen _ ⟨bp, 0, plen, plen⟩ ow1 _ v3 v4 v5 v6 v7 hobj rfl hA', andThen_norm,
        drFinish_run c H1 O1 X L.d _ _ _ _ _ _ _ _ _ rfl hrep1.obj, procResult_andThen_ret]
      refine ⟨_, ow1, Bp1, rfl, ?_, hbp1, hsz, rfl⟩
      exact hrep1.transfer ow1 _ H1 _ X rfl rfl (set_ne_all _ _ _) hrep1.rdr (List.getElem?_set_self hdl) hrep1.nbuf hrep1.buf
        hrep1.outbuf hrep1.outLen hrep1.outCap hrep1.out

theorem drShort_frag {lib : Lib} (hlib : DecLibSpec lib) (c : Ctx)
    (hdec : ∀ W vals, c.call "Encoding.Decode" W vals = lib "Encoding.Decode" W vals)
    (L : DecLay) (e : Encoding) (hind : DecodeIndep e) (ow : Slice) (st : DecSt) (H : Heap) (O : List Obj) (X : List Ext)
    (bp : Nat) (Bp : Buf) (v2 v3 v4 v5 v6 v7 : Val)
    (hrep : DecRep L e ow st ⟨H, O, X⟩) (hbp : H[bp]? = some Bp)
    (h1 : bp ≠ L.b1) (h2 : bp ≠ L.b2) (hbb : bp ≠ L.bb) (hbo : bp ≠ L.bo)
    (hlt : st.buf.length < 4) (hfr : e.pad.isNone ∧ st.buf.length > 0) (hnp : (decode e 768 st.buf).panic = false)
    (k : World → Env → Out) :
    ReadPost L e bp Bp.size (fragRes e st Bp.size)
      (procResult ((exec c drShort ⟨H, O, X⟩ [.ptr L.d, .slice ⟨bp, 0, Bp.size, Bp.size⟩, v2, v3, v4, v5, v6, v7]).andThen k)) := by
  obtain ⟨Bb, hb1, hb2, hb3⟩ := hrep.buf
  obtain ⟨Bo, ho1, ho2⟩ := hrep.outbuf
  have hdl := lt_of_getElem? hrep.obj
  have hbol := heap_lt_of_get ho1
  have hbpl := heap_lt_of_get hbp
  obtain ⟨D', hcall, hDs, hrn, htk⟩ := decode_call hlib hind H O X L.ae L.b1 L.b2 hrep.enc L.bo L.bb Bo Bb st.buf.length 1024
    ho1 hb1 (Ne.symm hrep.ne_bb_bo) hfr.2 (by omega) (by omega) (by omega) (by omega) (by rw [ho2, hb3]; exact hnp)
  simp only [ho2, hb3] at hcall hDs hrn htk
  rw [← hdec] at hcall
  have hlenAll : ((decode e 768 st.buf).dst.toList.take (decode e 768 st.buf).n).length = (decode e 768 st.buf).n := by
    rw [← htk, List.length_take, Array.length_toList, hDs]; omega
  rw [drShort_eq, exec_ite, drShort_cond H O X L.d _ _ _ _ _ _ _ _ _ rfl hrep.obj, bindR_ok, decide_eq_true hlt, if_pos rfl,
    exec_seq, drFrag_eq, exec_ite, drFrag_cond H O X L.d L.ae L.b1 L.b2 _ _ _ _ _ e _ _ _ rfl hrep.obj hrep.enc.obj hfr, bindR_ok,
    if_pos rfl, exec_take_drop c _ _ 6 drFrag.iteThen]
  show ReadPost _ _ _ _ _ (procResult ((((exec c drFragDo _ _).andThen (exec c drFragRet)).andThen (exec c drFinish)).andThen k))
  rw [drFragDo_run c H O X L.d L.ae L.nf L.bb L.bo bp st.buf.length Bp.size (decode e 768 st.buf).n ow st.err st.readErr
    (decErr (decode e 768 st.buf)) D' Bp v2 v3 v4 v5 v6 v7 hrep.obj hcall hbol hDs hrn hrep.nbuf hbp hbo (Nat.le_refl _), andThen_norm,
    htk]
  -- the world after the fragment has been decoded and copied holds `fragSt`
  have hobj1 : (O.set L.d (decObj (decErr (decode e 768 st.buf)) st.readErr L.ae L.nf L.bb 0
      ⟨L.bo, min Bp.size (decode e 768 st.buf).n, (decode e 768 st.buf).n - min Bp.size (decode e 768 st.buf).n,
        768 - min Bp.size (decode e 768 st.buf).n⟩ L.bo))[L.d]? = some (decObj (fragSt e st Bp.size).err (fragSt e st Bp.size).readErr
          L.ae L.nf L.bb (fragSt e st Bp.size).buf.length
          ⟨L.bo, min Bp.size (decode e 768 st.buf).n, (decode e 768 st.buf).n - min Bp.size (decode e 768 st.buf).n,
            768 - min Bp.size (decode e 768 st.buf).n⟩ L.bo) := List.getElem?_set_self hdl
  have hrep1 : DecRep L e ⟨L.bo, min Bp.size (decode e 768 st.buf).n, (decode e 768 st.buf).n - min Bp.size (decode e 768 st.buf).n,
        768 - min Bp.size (decode e 768 st.buf).n⟩ (fragSt e st Bp.size)
      ⟨(H.set L.bo D').set bp (writeList Bp 0 (((decode e 768 st.buf).dst.toList.take (decode e 768 st.buf).n).take Bp.size)),
        O.set L.d (decObj (decErr (decode e 768 st.buf)) st.readErr L.ae L.nf L.bb 0
          ⟨L.bo, min Bp.size (decode e 768 st.buf).n, (decode e 768 st.buf).n - min Bp.size (decode e 768 st.buf).n,
            768 - min Bp.size (decode e 768 st.buf).n⟩ L.bo), X⟩ := by
    refine hrep.transfer _ _ _ _ X ?_ ?_ (set_ne_all _ _ _) hrep.rdr hobj1 (Nat.zero_le _) ⟨Bb, ?_, hb2, rfl⟩ ⟨D', ?_, hDs⟩ ?_ (by show _ - _ ≤ _ - _; omega) ?_
    · rw [List.getElem?_set_ne h1, List.getElem?_set_ne (Ne.symm hrep.ne_b1_bo)]
    · rw [List.getElem?_set_ne h2, List.getElem?_set_ne (Ne.symm hrep.ne_b2_bo)]
    · rw [List.getElem?_set_ne hbb, List.getElem?_set_ne (Ne.symm hrep.ne_bb_bo)]; exact hb1
    · rw [List.getElem?_set_ne hbo]; exact List.getElem?_set_self hbol
    · show _ - _ = (List.drop _ _).length
      rw [List.length_drop, hlenAll]; omega
    · intro _
      refine ⟨rfl, ?_⟩
      show sliceBytes _ ⟨L.bo, _, _, _⟩ = some (List.drop Bp.size _)
      rw [sliceBytes_congr (H.set L.bo D') _ ⟨L.bo, _, _, _⟩ (List.getElem?_set_ne hbo)]
      have hs0 := sliceBytes_prefixD (H.set L.bo D') L.bo (decode e 768 st.buf).n 768 D' (List.getElem?_set_self hbol) (by omega)
      have := sliceBytes_drop (H.set L.bo D') ⟨L.bo, 0, (decode e 768 st.buf).n, 768⟩ _ (min Bp.size (decode e 768 st.buf).n)
        (768 - min Bp.size (decode e 768 st.buf).n) hs0 (Nat.min_le_right _ _)
      rw [Nat.zero_add, htk] at this
      have hdm := drop_min_length ((decode e 768 st.buf).dst.toList.take (decode e 768 st.buf).n) Bp.size
      rw [hlenAll] at hdm
      rw [this, hdm]
  have hbp1 : ((H.set L.bo D').set bp (writeList Bp 0 (((decode e 768 st.buf).dst.toList.take (decode e 768 st.buf).n).take Bp.size)))[bp]? =
      some (writeList Bp 0 (((decode e 768 st.buf).dst.toList.take (decode e 768 st.buf).n).take Bp.size)) :=
    List.getElem?_set_self (by rw [List.length_set]; exact hbpl)
  have hnlen : min Bp.size (decode e 768 st.buf).n =
      (((decode e 768 st.buf).dst.toList.take (decode e 768 st.buf).n).take Bp.size).length := by
    rw [List.length_take, hlenAll]
  have := drFragTail c L e _ (fragSt e st Bp.size) _ _ X bp _ Bp.size (min Bp.size (decode e 768 st.buf).n)
    (((decode e 768 st.buf).dst.toList.take (decode e 768 st.buf).n).take Bp.size) v3 v4 (.int (decode e 768 st.buf).n) v6 v7
    hrep1 hbp1 (by rw [writeList_size]) (take_writeList_zero Bp _ (by rw [← hnlen]; exact Nat.min_le_left _ _)) hnlen k
  unfold fragRes
  rw [hlenAll]
  exact this

end GoCrypt.SIR
