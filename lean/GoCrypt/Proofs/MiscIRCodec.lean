import GoCrypt.Proofs.MiscIRBase

/-!
# Misc IR: `hashutil.Encoding.Encode`, `Decode`, `IndexAnyInvalid`, and what the table `decodeTable` contains

Helper lemmas only; the property theorems are in `Props/MiscIR.lean`.
-/

namespace GoCrypt.SIR
open GoCrypt.B64IR (Buf Heap Slice Res sliceBytes)
open GoCrypt.Gen.miscIR

/-! ## The table -/

theorem decodeTable_getD (al : Bytes) (c : Nat) (hc : c < 256) :
    (decodeTable al).getD c 0 =
      UInt8.ofNat ((List.range al.length).foldl (fun acc i => if al.getD i 0 = UInt8.ofNat c then i else acc) 255) := by
  simp [decodeTable, List.getD_eq_getElem?_getD, hc]

/-- The fold that computes one table entry, over the first `n` positions: no match so far ⇒ 255. -/
theorem fold_no_match (al : Bytes) (x : UInt8) (n : Nat) (h : ∀ i, i < n → al.getD i 0 ≠ x) :
    (List.range n).foldl (fun acc i => if al.getD i 0 = x then i else acc) 255 = 255 := by
  induction n with
  | zero => rfl
  | succ n ih =>
    rw [List.range_succ, List.foldl_append, ih (fun i hi => h i (by omega))]
    simp only [List.foldl_cons, List.foldl_nil, if_neg (h n (by omega))]

/-- … and if position `i` matches and no later position below `n` does, the fold gives `i`. -/
theorem fold_last_match (al : Bytes) (x : UInt8) (i n : Nat) (hi : i < n) (hx : al.getD i 0 = x)
    (h : ∀ j, i < j → j < n → al.getD j 0 ≠ x) :
    (List.range n).foldl (fun acc i => if al.getD i 0 = x then i else acc) 255 = i := by
  induction n with
  | zero => omega
  | succ n ih =>
    rw [List.range_succ, List.foldl_append]
    by_cases hin : i = n
    · subst hin; simp only [List.foldl_cons, List.foldl_nil, if_pos hx]
    · rw [ih (by omega) (fun j h1 h2 => h j h1 (by omega))]
      simp only [List.foldl_cons, List.foldl_nil, if_neg (h n (by omega) (by omega))]

/-- A byte outside the alphabet has table entry `0xFF`. -/
theorem decodeTable_not_mem (al : Bytes) (x : UInt8) (hx : x ∉ al) : (decodeTable al).getD x.toNat 0 = 255 := by
  rw [decodeTable_getD al x.toNat x.toNat_lt, UInt8.ofNat_toNat, fold_no_match]
  · rfl
  · intro i hi heq
    apply hx
    rw [← heq, getD_eq_getElem_of_lt al i 0 hi]
    exact List.getElem_mem hi

/-- The byte at position `i` of the alphabet has table entry `byte(i)` when it does not occur again later. -/
theorem decodeTable_last (al : Bytes) (i : Nat) (hi : i < al.length)
    (hl : ∀ j (hj : j < al.length), i < j → al[j] ≠ al[i]) :
    (decodeTable al).getD (al[i]).toNat 0 = UInt8.ofNat i := by
  rw [decodeTable_getD al _ (al[i]).toNat_lt, UInt8.ofNat_toNat,
    fold_last_match al al[i] i al.length hi (getD_eq_getElem_of_lt al i 0 hi)]
  intro j h1 h2
  rw [getD_eq_getElem_of_lt al j 0 h2]
  exact hl j h2 h1

/-- Every byte of the alphabet has a table entry that is the position (as a byte) of one of its occurrences. -/
theorem decodeTable_mem (al : Bytes) (x : UInt8) (hx : x ∈ al) :
    ∃ i, ∃ hi : i < al.length, al[i] = x ∧ (decodeTable al).getD x.toNat 0 = UInt8.ofNat i := by
  -- the last occurrence
  have hex : ∃ d, d < al.length ∧ al.getD (al.length - 1 - d) 0 = x := by
    obtain ⟨i, hi, hxi⟩ := List.mem_iff_getElem.mp hx
    exact ⟨al.length - 1 - i, by omega, by
      have : al.length - 1 - (al.length - 1 - i) = i := by omega
      rw [this, getD_eq_getElem_of_lt al i 0 hi, hxi]⟩
  obtain ⟨d, hd, hPd⟩ := hex
  obtain ⟨m, hmd, ⟨hml, hPm⟩, hlt⟩ :=
    exists_first (fun d => d < al.length ∧ al.getD (al.length - 1 - d) 0 = x) d ⟨hd, hPd⟩
  have hi : al.length - 1 - m < al.length := by omega
  have hxi : al[al.length - 1 - m] = x := by rw [← getD_eq_getElem_of_lt al _ 0 hi]; exact hPm
  refine ⟨al.length - 1 - m, hi, hxi, ?_⟩
  have := decodeTable_last al (al.length - 1 - m) hi (by
    intro j hj hij heq
    apply hlt (al.length - 1 - j) (by omega)
    refine ⟨by omega, ?_⟩
    have : al.length - 1 - (al.length - 1 - j) = j := by omega
    rw [this, getD_eq_getElem_of_lt al j 0 hj, heq, hxi])
  rw [hxi] at this
  exact this

/-- For an alphabet of at most 255 bytes, the table entry is `0xFF` exactly for the bytes outside the alphabet. -/
theorem decodeTable_eq_255_iff (al : Bytes) (hal : al.length ≤ 255) (x : UInt8) :
    (decodeTable al).getD x.toNat 0 = 255 ↔ x ∉ al := by
  constructor
  · intro h hx
    obtain ⟨i, hi, _, hv⟩ := decodeTable_mem al x hx
    rw [hv] at h
    have := congrArg UInt8.toNat h
    rw [UInt8.toNat_ofNat'] at this
    have h2 : i % 2 ^ 8 = i := Nat.mod_eq_of_lt (by omega)
    rw [h2] at this
    have : i = 255 := this
    omega
  · exact decodeTable_not_mem al x

namespace HU
open GoCrypt.Gen.miscIR.hashutil

/-! ## `Encode` and `Decode` -/

theorem encode_proc (c : Ctx) (H : Heap) (O : List Obj) (X : List Ext) (a b : Nat) (al : Bytes) (he : HEncAt H O a b al)
    (x : UInt8) :
    execProc c encodeIR ⟨H, O, X⟩ [.ptr a, .int x.toNat] =
      .ok (⟨H ++ [(decodeTable al).toArray], O ++ [hEncObj H.length al], X⟩, [.int (al.getD x.toNat 255).toNat]) := by
  have hcl := cloneFields_henc H b al _ he.dmapBytes
  rw [execProc_eq c encodeIR _ _ rfl]
  simp only [encodeIR]
  by_cases h : al.length ≤ x.toNat
  · have hg : al.getD x.toNat 255 = 255 := by simp [List.getD_eq_getElem?_getD, List.getElem?_eq_none h]
    b64_simp [he.obj, hEncObj, hcl, List.getElem?_concat_length, h, hg]
    rfl
  · have hlt : x.toNat < al.length := by omega
    have hg : al.getD x.toNat 255 = al.getD x.toNat 0 := by
      rw [getD_eq_getElem_of_lt al _ 255 hlt, getD_eq_getElem_of_lt al _ 0 hlt]
    b64_simp [he.obj, hEncObj, hcl, List.getElem?_concat_length, h, hg]
    rfl

theorem decode_proc (c : Ctx) (H : Heap) (O : List Obj) (X : List Ext) (a b : Nat) (al : Bytes) (he : HEncAt H O a b al)
    (x : UInt8) :
    execProc c decodeIR ⟨H, O, X⟩ [.ptr a, .int x.toNat] =
      .ok (⟨H ++ [(decodeTable al).toArray], O ++ [hEncObj H.length al], X⟩,
        [.int ((decodeTable al).getD x.toNat 0).toNat]) := by
  have hcl := cloneFields_henc H b al _ he.dmapBytes
  have hx := x.toNat_lt
  have hs : (decodeTable al).toArray.size = 256 := by simp [decodeTable_length]
  have hg : (decodeTable al).getD x.toNat 0 = (decodeTable al)[x.toNat]'(by rw [decodeTable_length]; exact hx) :=
    getD_eq_getElem_of_lt _ _ _ _
  rw [execProc_eq c decodeIR _ _ rfl]
  simp only [decodeIR]
  b64_simp [he.obj, hEncObj, hcl, List.getElem?_concat_length, hs, hg, List.getElem_toArray]
  rfl

/-! ## `IndexAnyInvalid` -/

/-- `enc := *enc; i := 0` -/
def iaPre : Stmt := indexAnyInvalidIR.body.take 2
def iaFor : Stmt := (indexAnyInvalidIR.body.drop 2).head
def iaBody : Stmt := iaFor.forBody
/-- `return -1` -/
def iaRet : Stmt := indexAnyInvalidIR.body.drop 3

theorem iaFor_eq : iaFor = .for_ iaFor.forFuel iaFor.forCond iaFor.forPost iaBody := rfl
theorem ia_split : indexAnyInvalidIR.body.drop 2 = (iaFor ;; iaRet) := rfl

theorem iaPre_run (c : Ctx) (H : Heap) (O : List Obj) (X : List Ext) (a b : Nat) (al : Bytes) (he : HEncAt H O a b al)
    (s : Slice) :
    exec c iaPre ⟨H, O, X⟩ [.ptr a, .slice s, .undef] =
      .norm ⟨H ++ [(decodeTable al).toArray], O ++ [hEncObj H.length al], X⟩ [.ptr O.length, .slice s, .int (0 : Nat)] := by
  have hcl := cloneFields_henc H b al _ he.dmapBytes
  simp only [iaPre, Stmt.take, indexAnyInvalidIR]
  b64_simp [he.obj, hEncObj, hcl]

/-- Is byte `x` "invalid" for the table of `al` (entry `0xFF`)? -/
def isBad (al : Bytes) (x : UInt8) : Bool := (decodeTable al).getD x.toNat 0 == 255

theorem iaBody_step (c : Ctx) (H : Heap) (O : List Obj) (X : List Ext) (o bt : Nat) (f0 f1 : Val) (al : Bytes)
    (hO : O[o]? = some ⟨"Encoding", [f0, f1, .slice ⟨bt, 0, 256, 256⟩]⟩) (hT : H[bt]? = some (decodeTable al).toArray)
    (s : Slice) (B : Buf) (hB : H[s.buf]? = some B) (hin : s.off + s.len ≤ B.size) (k : Nat) (hk : k < s.len) :
    exec c iaBody ⟨H, O, X⟩ [.ptr o, .slice s, .int k] =
      if isBad al (B[s.off + k]'(by omega)) then .ret ⟨H, O, X⟩ [.int k] else .norm ⟨H, O, X⟩ [.ptr o, .slice s, .int k] := by
  have hx := (B[s.off + k]'(by omega)).toNat_lt
  have hs : (decodeTable al).toArray.size = 256 := by simp [decodeTable_length]
  have hg : (decodeTable al).getD (B[s.off + k]'(by omega)).toNat 0 =
      (decodeTable al)[(B[s.off + k]'(by omega)).toNat]'(by rw [decodeTable_length]; exact hx) :=
    getD_eq_getElem_of_lt _ _ _ _
  simp only [iaBody, iaFor, Stmt.forBody, Stmt.head, Stmt.drop, indexAnyInvalidIR, isBad, hg]
  by_cases hbad : (decodeTable al)[(B[s.off + k]'(by omega)).toNat]'(by rw [decodeTable_length]; exact hx) = 255
  · have h2 : ((decodeTable al)[(B[s.off + k]'(by omega)).toNat]'(by rw [decodeTable_length]; exact hx)).toNat = 255 := by
      rw [hbad]; rfl
    b64_simp [hO, hT, hB, hs, List.getElem_toArray, h2, hbad]
    simp
  · have h2 : ¬ ((decodeTable al)[(B[s.off + k]'(by omega)).toNat]'(by rw [decodeTable_length]; exact hx)).toNat = 255 := by
      intro h; apply hbad; apply UInt8.toNat_inj.mp; rw [h]; rfl
    b64_simp [hO, hT, hB, hs, List.getElem_toArray, h2, hbad]
    simp [hbad]

theorem iaFor_fuel (W : World) (s : Slice) (v0 v2 : Val) :
    (eval W [v0, .slice s, v2] iaFor.forFuel >>= asInt) = .ok ((1 + s.len : Nat) : Int) := by
  simp only [iaFor, Stmt.forFuel, Stmt.head, Stmt.drop, indexAnyInvalidIR]
  b64_simp []
  rfl

theorem iaFor_cond (W : World) (s : Slice) (k : Nat) (v0 : Val) :
    (eval W [v0, .slice s, .int k] iaFor.forCond >>= asBool) = .ok (decide (k < s.len)) := by
  simp only [iaFor, Stmt.forCond, Stmt.head, Stmt.drop, indexAnyInvalidIR]
  b64_simp []

theorem iaFor_post (c : Ctx) (W : World) (k : Nat) (hk : k < 9223372036854775807) (v0 v1 : Val) :
    exec c iaFor.forPost W [v0, v1, .int k] = .norm W [v0, v1, .int (k + 1 : Nat)] := by
  simp only [iaFor, Stmt.forPost, Stmt.head, Stmt.drop, indexAnyInvalidIR]
  b64_simp []

theorem iaRet_run (c : Ctx) (W : World) (env : Env) : exec c iaRet W env = .ret W [.int (-1)] := by
  simp only [iaRet, Stmt.drop, indexAnyInvalidIR]
  b64_simp []

def iaSt (W : World) (o : Nat) (s : Slice) (k : Nat) : World × Env := (W, [.ptr o, .slice s, .int k])

/-- No invalid byte: the loop runs over the whole slice and changes nothing. -/
theorem iaLoop_none (c : Ctx) (H : Heap) (O : List Obj) (X : List Ext) (o bt : Nat) (f0 f1 : Val) (al : Bytes)
    (hO : O[o]? = some ⟨"Encoding", [f0, f1, .slice ⟨bt, 0, 256, 256⟩]⟩) (hT : H[bt]? = some (decodeTable al).toArray)
    (s : Slice) (B : Buf) (hB : H[s.buf]? = some B) (hin : s.off + s.len ≤ B.size) (hlen : s.len < 9223372036854775807)
    (hok : ∀ k (hk : k < s.len), isBad al (B[s.off + k]'(by omega)) = false) :
    exec c iaFor ⟨H, O, X⟩ [.ptr o, .slice s, .int (0 : Nat)] = .norm ⟨H, O, X⟩ [.ptr o, .slice s, .int (s.len : Nat)] := by
  rw [iaFor_eq, exec_for, iaFor_fuel, bindR_ok]
  refine loop_count _ _ _ (iaSt ⟨H, O, X⟩ o s) s.len ?_ ?_ ?_ ?_ _ 0 (Nat.zero_le _) (by omega)
  · intro k hk
    simp only [iaSt, iaFor_cond, decide_eq_true hk]
  · simp only [iaSt, iaFor_cond]; simp
  · intro k hk
    simp only [iaSt]
    rw [iaBody_step c H O X o bt f0 f1 al hO hT s B hB hin k hk, hok k hk]
    simp only [Bool.false_eq_true, if_false, andThen_norm]
    rw [iaFor_post c _ k (by omega)]
  · intro k hk
    simp only [iaSt]
    rw [iaBody_step c H O X o bt f0 f1 al hO hT s B hB hin k hk, hok k hk]
    exact ⟨_, _, rfl⟩

/-- The first invalid byte is at index `n`: the loop returns `n`. -/
theorem iaLoop_some (c : Ctx) (H : Heap) (O : List Obj) (X : List Ext) (o bt : Nat) (f0 f1 : Val) (al : Bytes)
    (hO : O[o]? = some ⟨"Encoding", [f0, f1, .slice ⟨bt, 0, 256, 256⟩]⟩) (hT : H[bt]? = some (decodeTable al).toArray)
    (s : Slice) (B : Buf) (hB : H[s.buf]? = some B) (hin : s.off + s.len ≤ B.size) (hlen : s.len < 9223372036854775807)
    (n : Nat) (hn : n < s.len)
    (hok : ∀ k (hk : k < n), isBad al (B[s.off + k]'(by omega)) = false)
    (hbad : isBad al (B[s.off + n]'(by omega)) = true) :
    exec c iaFor ⟨H, O, X⟩ [.ptr o, .slice s, .int (0 : Nat)] = .ret ⟨H, O, X⟩ [.int n] := by
  rw [iaFor_eq, exec_for, iaFor_fuel, bindR_ok]
  refine loop_count_exit _ _ _ (iaSt ⟨H, O, X⟩ o s) n (.ret ⟨H, O, X⟩ [.int n]) (fun _ => rfl) ?_ ?_ ?_ ?_ _ 0
    (Nat.zero_le _) (by omega)
  · intro k hk
    simp only [iaSt, iaFor_cond, decide_eq_true (show k < s.len by omega)]
  · intro k hk
    simp only [iaSt]
    rw [iaBody_step c H O X o bt f0 f1 al hO hT s B hB hin k (by omega), hok k hk]
    simp only [Bool.false_eq_true, if_false, andThen_norm]
    rw [iaFor_post c _ k (by omega)]
  · intro k hk
    simp only [iaSt]
    rw [iaBody_step c H O X o bt f0 f1 al hO hT s B hB hin k (by omega), hok k hk]
    exact ⟨_, _, rfl⟩
  · simp only [iaSt]
    rw [iaBody_step c H O X o bt f0 f1 al hO hT s B hB hin n hn, hbad]
    rfl

/-- The result of `IndexAnyInvalid`: the index of the first byte whose table entry is `0xFF`, or `-1`. -/
def firstBad (al bs : Bytes) : Int :=
  match bs.findIdx? (isBad al) with
  | some i => (i : Int)
  | none => -1

theorem sliceBytes_get (H : Heap) (s : Slice) (bs : Bytes) (h : sliceBytes H s = some bs) :
    ∃ B, H[s.buf]? = some B ∧ s.off + s.len ≤ B.size ∧ bs.length = s.len ∧
      ∀ k, k < s.len → ∃ h1 : s.off + k < B.size, ∃ h2 : k < bs.length, bs[k] = B[s.off + k] := by
  unfold sliceBytes at h
  cases hb : H[s.buf]? with
  | none => rw [hb] at h; cases h
  | some B =>
    rw [hb] at h
    simp only at h
    split at h
    · rename_i hle
      cases h
      refine ⟨B, rfl, hle, by simp; omega, ?_⟩
      intro k _hk
      refine ⟨by omega, by simp; omega, ?_⟩
      simp [List.getElem_take, List.getElem_drop]
    · cases h

theorem indexAnyInvalid_proc (c : Ctx) (H : Heap) (O : List Obj) (X : List Ext) (a b : Nat) (al : Bytes)
    (he : HEncAt H O a b al) (s : Slice) (bs : Bytes) (hs : sliceBytes H s = some bs) (hlen : s.len < 9223372036854775807) :
    execProc c indexAnyInvalidIR ⟨H, O, X⟩ [.ptr a, .slice s] =
      .ok (⟨H ++ [(decodeTable al).toArray], O ++ [hEncObj H.length al], X⟩, [.int (firstBad al bs)]) := by
  obtain ⟨B, hB, hin, hbl, hget⟩ := sliceBytes_get H s bs hs
  have hB' : (H ++ [(decodeTable al).toArray])[s.buf]? = some B :=
    (List.getElem?_append_left (B64IR.heap_lt_of_get hB)).trans hB
  rw [execProc_eq c indexAnyInvalidIR _ _ rfl, exec_take_drop c _ _ 2]
  show procResult ((exec c iaPre ⟨H, O, X⟩ [.ptr a, .slice s, .undef]).andThen (exec c (indexAnyInvalidIR.body.drop 2))) = _
  rw [iaPre_run c H O X a b al he s, andThen_norm, ia_split, exec_seq]
  simp only [hEncObj]
  cases hf : bs.findIdx? (isBad al) with
  | none =>
    have hnone := List.findIdx?_eq_none_iff.mp hf
    rw [iaLoop_none c _ _ X O.length H.length _ _ al List.getElem?_concat_length List.getElem?_concat_length s B hB' hin hlen
      (by
        intro k hk
        obtain ⟨h1, h2, heq⟩ := hget k hk
        rw [← heq]
        exact hnone _ (List.getElem_mem h2)),
      andThen_norm, iaRet_run, procResult_ret]
    simp only [firstBad, hf]
  | some n =>
    obtain ⟨hn, hbad, hok⟩ := List.findIdx?_eq_some_iff_getElem.mp hf
    rw [iaLoop_some c _ _ X O.length H.length _ _ al List.getElem?_concat_length List.getElem?_concat_length s B hB' hin hlen
      n (by omega)
      (by
        intro k hk
        obtain ⟨h1, h2, heq⟩ := hget k (by omega)
        rw [← heq]
        have := hok k hk
        simpa using this)
      (by
        obtain ⟨h1, h2, heq⟩ := hget n (by omega)
        rw [← heq]
        exact hbad)]
    simp only [andThen_ret, procResult_ret, firstBad, hf]

end HU

end GoCrypt.SIR
