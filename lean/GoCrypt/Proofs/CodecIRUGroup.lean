import GoCrypt.Proofs.CodecIRUGroupDefs

/-!
# Codec IR: one iteration of the loop over `ti.Fields` in `Unmarshal` WITH grouped params = the model's `stepField`

Model side: `stepField_closeGroup`, `stepField_group` (+ `groupClause`), `replaceFirst` facts.
Program side composed with the model: `group_core` (inner loop over `group.Values` + the `not found` check), `step_group`
(field with `group = true`), `step_close` (a non-group field while a group is open), `step_general` (any field).
Extra hypothesis w.r.t. `step_nogroup`: `GroupsLe c.fuel s.frags` (the inner loop runs with fuel `c.fuel`); it is preserved.
Helper lemmas only.
-/
namespace GoCrypt.CIR
open GoCrypt.Codec GoCrypt.Gen.codecIR GoCrypt.Parse
open GoCrypt.TIIR (RType Res kindNum fiType fiObj tiObj encVal optsVals Reps RepOpt)

theorem stepField_closeGroup (hashLen : Nat) (fi : FieldInfo) (st : LoopSt) (g : List VNode) (hg : fi.opts.group = false)
    (hs : st.group = some g) :
    stepField hashLen fi st =
      if st.numGroupValues > 0 then .error (.ute "group" (groupEnd g) fi.name .excessiveFragment)
      else stepField hashLen fi { st with frags := st.frags.tail, group := none } := by
  unfold stepField
  simp only [hg, hs, Bool.not_false, Option.isSome_some, Option.isSome_none, Bool.and_true, Bool.and_false, if_true, Bool.false_eq_true,
    if_false, bind, Except.bind, pure, Except.pure, throw, throwThe, MonadExceptOf.throw, Option.getD_some]
  by_cases h : st.numGroupValues > 0
  · simp only [h, if_true]
  · simp only [h, if_false]

def gSel (frag : Frag) (st : LoopSt) : List VNode × Nat := match frag, st.group with
  | .group vs, none => (vs, vs.length)
  | .group _, some g => (g, st.numGroupValues)
  | .value v, _ => ([v], 1)

def pfxP (fi : FieldInfo) : VNode → Bool := fun v => (fi.opts.param ++ [Bytes.equals]).isPrefixOf v.val

def isGF : Frag → Bool
  | .group _ => true
  | .value _ => false

/-- The head fragment after a member was stored: the group with the member replaced, or the (shortened) single value. -/
def newHead (frag : Frag) (g' : List VNode) (v' : VNode) : Frag :=
  match frag with
  | .group _ => Frag.group g'
  | .value _ => Frag.value v'

/-- The grouped-param clause of `stepField` on the group `g` with counter `n`. -/
def groupClauseGN (fi : FieldInfo) (st : LoopSt) (frag : Frag) (rest : List Frag) (g : List VNode) (n : Nat) : Except UErr LoopSt :=
  match g.find? (pfxP fi) with
  | some v =>
    (match nodeModel fi "value" v.fin v.val with
     | .error e => .error e
     | .ok fv =>
       .ok { st with
         frags := newHead frag (replaceFirst g v (if fi.opts.inline then { v with val := remOf fi v.val } else v))
           (if fi.opts.inline then { v with val := remOf fi v.val } else v) :: rest,
         group := some (replaceFirst g v (if fi.opts.inline then { v with val := remOf fi v.val } else v)),
         numGroupValues := n - 1,
         out := st.out ++ [(fi.index, fv)] })
  | none =>
    if fi.opts.omitEmpty then .ok { st with group := some g, numGroupValues := n }
    else .error (.ute (fragKind frag) (fragEnd frag) fi.name (.notFound (fieldKindName fi)))

def groupClause (fi : FieldInfo) (st : LoopSt) (frag : Frag) (rest : List Frag) : Except UErr LoopSt :=
  groupClauseGN fi st frag rest (gSel frag st).1 (gSel frag st).2

macro "gc_tac" fi:term:max g:term:max hfr:term:max : tactic => `(tactic| (
  rw [show pfxP $fi = (fun v : VNode => (FieldInfo.opts $fi).param ++ [Bytes.equals] |>.isPrefixOf v.val) from rfl]
  generalize List.find? (fun v : VNode => (FieldInfo.opts $fi).param ++ [Bytes.equals] |>.isPrefixOf v.val) $g = o
  cases o with
  | none => simp only [$hfr:term]
  | some w =>
    simp only []
    generalize hft : fieldText $fi "value" w.fin w.val = ft
    cases ft with
    | error e => rfl
    | ok p =>
      obtain ⟨s1, r⟩ := p
      have hr := fieldText_rem $fi _ _ _ _ _ hft
      simp only []
      generalize storeValue $fi "value" w.fin s1 = sv
      cases sv with
      | error e => rfl
      | ok fv => simp only [remOf, hr]))

theorem stepField_group (hashLen : Nat) (fi : FieldInfo) (st : LoopSt) (hg : fi.opts.group = true) :
    stepField hashLen fi st =
      (match st.frags with
       | [] => if fi.opts.omitEmpty then .ok st else .error (.ute "EOF" hashLen fi.name .unexpectedEOF)
       | frag :: rest =>
         if fi.opts.omitEmpty = true ∧ st.group = none ∧ st.numValues - st.numReq ≤ 0 then .ok { st with numValues := st.numValues - 1 }
         else if (isGF frag || !fi.opts.omitEmpty) = true then groupClause fi st frag rest
         else .ok st) := by
  unfold stepField
  simp only [hg, Bool.not_true, Bool.false_and, Bool.false_eq_true, if_false, bind, Except.bind, pure, Except.pure, throw, throwThe,
    MonadExceptOf.throw, Bool.true_and]
  cases hfr : st.frags with
  | nil => simp only []
  | cons frag rest =>
    simp only []
    by_cases hskip : fi.opts.omitEmpty = true ∧ st.group = none ∧ st.numValues - st.numReq ≤ 0
    · rw [if_pos hskip, if_pos (by simpa [Option.isNone_iff_eq_none, and_assoc] using hskip)]
    · rw [if_neg hskip, if_neg (by simpa [Option.isNone_iff_eq_none, and_assoc] using hskip)]
      cases frag with
      | group vs =>
        simp only [isGF, Bool.true_or, if_true]
        cases hgp : st.group with
        | none =>
          simp only [groupClause, groupClauseGN, newHead, gSel, hgp, nodeModel, Bool.false_eq_true, if_false]
          gc_tac fi vs hfr
        | some g0 =>
          simp only [groupClause, groupClauseGN, newHead, gSel, hgp, nodeModel, Bool.false_eq_true, if_false]
          gc_tac fi g0 hfr
      | value v =>
        simp only [isGF, Bool.false_or]
        by_cases hom : fi.opts.omitEmpty = true
        · simp [hom]
        · simp only [hom, Bool.not_false, if_true, groupClause, groupClauseGN, newHead, gSel, nodeModel]
          gc_tac fi [v] hfr

/-! ## `replaceFirst` and `find?` -/

theorem replaceFirst_self (g : List VNode) (v : VNode) : replaceFirst g v v = g := by
  induction g with
  | nil => rfl
  | cons w ws ih =>
    simp only [replaceFirst]
    split
    · next h => rw [h]
    · rw [ih]

/-- The first member satisfying `p`: its position, and `replaceFirst` of it is `set` at that position (every member equal to it
satisfies `p`, so the first member equal to it is the first match). -/
theorem find_first (p : VNode → Bool) : ∀ (g : List VNode) (v : VNode), g.find? p = some v →
    ∃ q, g[q]? = some v ∧ p v = true ∧ (∀ q', q' < q → ∃ w, g[q']? = some w ∧ p w = false) ∧
      ∀ v', replaceFirst g v v' = g.set q v'
  | [], _, h => by cases h
  | w :: ws, v, h => by
    rw [List.find?_cons] at h
    cases hp : p w with
    | true =>
      rw [hp] at h
      cases h
      exact ⟨0, rfl, hp, fun q' hq' => absurd hq' (Nat.not_lt_zero _), fun v' => by simp [replaceFirst]⟩
    | false =>
      rw [hp] at h
      obtain ⟨q, h1, h2, h3, h4⟩ := find_first p ws v h
      have hne : ¬ w = v := by rintro rfl; rw [hp] at h2; cases h2
      refine ⟨q + 1, by simpa using h1, h2, ?_, fun v' => by simp [replaceFirst, hne, h4 v']⟩
      intro q' hq'
      cases q' with
      | zero => exact ⟨w, rfl, hp⟩
      | succ q' => simpa using h3 q' (by omega)

theorem find_none (p : VNode → Bool) (g : List VNode) (h : g.find? p = none) (q : Nat) (w : VNode) (hq : g[q]? = some w) : p w = false := by
  have := List.find?_eq_none.mp h w (List.mem_of_getElem? hq)
  simpa using this

/-! ## `All2` -/

theorem all2_length {α β : Type} {R : α → β → Prop} {l₁ : List α} {l₂ : List β} (h : All2 R l₁ l₂) : l₁.length = l₂.length := by
  induction h with
  | nil => rfl
  | cons _ _ ih => simp [ih]

theorem all2_get_right {α β : Type} {R : α → β → Prop} {l₁ : List α} {l₂ : List β} (h : All2 R l₁ l₂) :
    ∀ (q : Nat) (b : β), l₂[q]? = some b → ∃ a, l₁[q]? = some a ∧ R a b := by
  induction h with
  | nil => intro q b hq; cases hq
  | cons hab _ ih =>
    intro q b hq
    cases q with
    | zero => simp at hq; subst hq; exact ⟨_, rfl, hab⟩
    | succ q => simpa using ih q b (by simpa using hq)

theorem all2_get_left {α β : Type} {R : α → β → Prop} {l₁ : List α} {l₂ : List β} (h : All2 R l₁ l₂) :
    ∀ (q : Nat) (a : α), l₁[q]? = some a → ∃ b, l₂[q]? = some b ∧ R a b := by
  induction h with
  | nil => intro q b hq; cases hq
  | cons hab _ ih =>
    intro q a hq
    cases q with
    | zero => simp at hq; subst hq; exact ⟨_, rfl, hab⟩
    | succ q => simpa using ih q a (by simpa using hq)

theorem all2_mono {α β : Type} {R R' : α → β → Prop} {l₁ : List α} {l₂ : List β} (h : All2 R l₁ l₂)
    (hm : ∀ a b, a ∈ l₁ → R a b → R' a b) : All2 R' l₁ l₂ := by
  induction h with
  | nil => exact .nil
  | cons hab _ ih => exact .cons (hm _ _ (by simp) hab) (ih (fun a b ha => hm a b (by simp [ha])))

/-- Rewriting the value node `ma` (member `q`) of a group with pairwise distinct member nodes. -/
theorem all2_rep_set {mm mm' : Mem} (ma : Nat) (v' : VNode) (hsame : ∀ b, b ≠ ma → mm'.nodes[b]? = mm.nodes[b]?)
    (hnew : RepVNode mm' ma v') {ms : List Nat} {g : List VNode} (h : All2 (RepVNode mm) ms g) :
    ∀ (q : Nat), ms.Nodup → ms[q]? = some ma → All2 (RepVNode mm') ms (g.set q v') := by
  induction h with
  | nil => intro q _ hq; cases hq
  | @cons a b l₁ l₂ hab htl ih =>
    intro q hnd hq
    rw [List.nodup_cons] at hnd
    cases q with
    | zero =>
      simp at hq; subst hq
      exact .cons hnew (all2_mono htl (fun x y hx hxy => repVNode_frame hxy (hsame x (by rintro rfl; exact hnd.1 hx))))
    | succ q =>
      have hq' : l₁[q]? = some ma := by simpa using hq
      have hane : a ≠ ma := by rintro rfl; exact hnd.1 (List.mem_of_getElem? hq')
      exact .cons (repVNode_frame hab (hsame a hane)) (ih q hnd.2 hq')

/-- Representation only looks at the nodes that exist: it survives any memory that keeps them. -/
theorem repFA_mono {mm mm' : Mem} (hk : ∀ (b : Nat) (y : PNode), mm.nodes[b]? = some y → mm'.nodes[b]? = some y) :
    ∀ (fa : FA) (f : Frag), RepFA mm fa f → RepFA mm' fa f
  | .value a, .value v, h => hk _ _ h
  | .group ga ms, .group vs, ⟨hn, hne, hall⟩ => ⟨hk _ _ hn, hne, all2_mono hall (fun a b _ hab => hk _ _ hab)⟩
  | .value _, .group _, h => absurd h (by simp [RepFA])
  | .group _ _, .value _, h => absurd h (by simp [RepFA])

theorem nodes_append_keep (mm : Mem) (x : PNode) (b : Nat) (y : PNode) (h : mm.nodes[b]? = some y) :
    ({ mm with nodes := mm.nodes ++ [x] } : Mem).nodes[b]? = some y := by
  have hlt : b < mm.nodes.length := by
    rcases Nat.lt_or_ge b mm.nodes.length with h' | h'
    · exact h'
    · rw [List.getElem?_eq_none h'] at h; cases h
  show (mm.nodes ++ [x])[b]? = some y
  rw [List.getElem?_append_left hlt]; exact h


/-! ## Small facts about the invariant -/

theorem groupRep_some {mm : Mem} {s : LoopSt} {lay : List FA} {gv : Val} {ngv : Int} {g : List VNode}
    (h : GroupRep mm s lay gv ngv) (hs : s.group = some g) :
    Int.toNat ngv = s.numGroupValues ∧
      ∃ ga ms, gv = .node ga ∧ mm.nodes[ga]? = some (.group ms) ∧ ms ≠ [] ∧ All2 (RepVNode mm) ms g ∧
        ∃ fa lay' f rest, lay = fa :: lay' ∧ s.frags = f :: rest ∧
          ((fa = .group ga ms ∧ f = .group g) ∨ (∃ na v, fa = .value na ∧ ms = [na] ∧ f = .value v ∧ g = [v])) := by
  unfold GroupRep at h; rw [hs] at h; exact h

theorem groupRep_none {mm : Mem} {s : LoopSt} {lay : List FA} {gv : Val} {ngv : Int}
    (h : GroupRep mm s lay gv ngv) (hs : s.group = none) : gv = .nil := by
  unfold GroupRep at h; rw [hs] at h; exact h

/-- The kind label of a fragment's node. -/
def fragKL : Frag → Bytes
  | .group _ => [103, 114, 111, 117, 112]
  | .value _ => valueLit

/-- What `newUnmarshalError` returns on a fragment's node. -/
theorem errCalls_frag {cc : Ctx} (hcc : NewErrSpecG cc) (m1 : Mem) (fa : FA) (f : Frag) (hrep : RepFA m1 fa f) (tia a : Nat)
    (fi : FieldInfo) (st tt : RType) (hpv : TIIR.Val) (addrs : List Nat) (nreq : Int) (ha : m1.heap[a]? = some (fiObj fi))
    (hti : m1.heap[tia]? = some (tiObj (.rtype st) tt hpv addrs nreq)) :
    ErrCalls cc m1 fa.addr tia a (fragKL f) (fragKind f) (fragEnd f) fi st := by
  obtain ⟨hnt, hend⟩ := repFA_facts m1 fa f hrep
  cases f with
  | group g => exact ErrCalls.of_spec hcc m1 fa.addr tia a 1 _ "group" _ fi st tt hpv addrs nreq hnt ntypeString_1 (by simp [fragKL, kindName]) hend ha hti
  | value v => exact ErrCalls.of_spec hcc m1 fa.addr tia a 2 valueLit "value" _ fi st tt hpv addrs nreq hnt ntypeString_2 (by simp [kindName, valueLit]) hend ha hti

/-- A step for a non-group field outside a group only consumes or shortens the head fragment: group fragments come from the old state. -/
theorem stepField_nogroup_groups (hashLen : Nat) (fi : FieldInfo) (st s' : LoopSt) (hg : fi.opts.group = false) (hn : st.group = none)
    (h : stepField hashLen fi st = .ok s') : ∀ g, Frag.group g ∈ s'.frags → Frag.group g ∈ st.frags := by
  rw [stepField_nogroup hashLen fi st hg hn] at h
  cases hfr : st.frags with
  | nil =>
    rw [hfr] at h
    simp only [] at h
    split at h
    · cases h; intro g hg'; first | exact hg' | (rw [hfr] at hg'; exact hg')
    · cases h
  | cons frag rest =>
    rw [hfr] at h
    simp only [] at h
    split at h
    · cases h; intro g hg'; first | exact hg' | (rw [hfr] at hg'; exact hg')
    · cases frag with
      | group g0 =>
        simp only [] at h
        split at h
        · cases h; intro g hg'; first | exact hg' | (rw [hfr] at hg'; exact hg')
        · cases h
      | value v =>
        simp only [] at h
        split at h
        · cases hnm : nodeModel fi "value" v.fin v.val with
          | error e => rw [hnm] at h; cases h
          | ok fv =>
            rw [hnm] at h
            simp only [Except.ok.injEq] at h
            subst h
            intro g hg'
            simp only [] at hg'
            split at hg'
            · simp only [List.mem_cons, reduceCtorEq, false_or] at hg'; exact List.mem_cons_of_mem _ hg'
            · exact List.mem_cons_of_mem _ hg'
        · split at h
          · cases h; intro g hg'; first | exact hg' | (rw [hfr] at hg'; exact hg')
          · cases h


/-- The invariant after a member of the open group was stored (and, for an inline field, shortened in place). -/
theorem group_frame (heap0 : TIIR.Heap) (as : List Nat) (F : Nat) (m1 m' : Mem) (s : LoopSt) (fragIdx : Nat) (fa : FA) (lay' : List FA)
    (frag : Frag) (frest : List Frag) (hfr : s.frags = frag :: frest) (haddr : as.drop fragIdx = (fa :: lay').map FA.addr)
    (hreptl : All2 (RepFA m1) lay' frest) (hnd : ((fa :: lay').flatMap FA.vaddrs).Nodup)
    (hshort : ∀ v, Frag.value v ∈ s.frags → v.val.length ≤ F) (hshortG : ShortG F s.frags) (hgl : GroupsLe F s.frags)
    (ga : Nat) (ms : List Nat) (g : List VNode) (hga : m1.nodes[ga]? = some (.group ms)) (hne : ms ≠ [])
    (hallg : All2 (RepVNode m1) ms g)
    (hlink : (fa = .group ga ms ∧ frag = .group g) ∨ (∃ na v, fa = .value na ∧ ms = [na] ∧ frag = .value v ∧ g = [v]))
    (q ma : Nat) (v v' : VNode) (hgq : g[q]? = some v) (hmq : ms[q]? = some ma) (hn : RepVNode m1 ma v)
    (hheap' : m'.heap = heap0) (hsamen : ∀ b, b ≠ ma → m'.nodes[b]? = m1.nodes[b]?) (hnew : RepVNode m' ma v')
    (hvl : v'.val.length ≤ v.val.length) (hgshort : ∀ w ∈ g, w.val.length ≤ F)
    (ngv' : Int) (n' : Nat) (hn' : Int.toNat ngv' = n') (out : Vals) :
    LInvG heap0 as F m'
        { s with frags := newHead frag (g.set q v') v' :: frest,
                 group := some (g.set q v'), numGroupValues := n', out := out } fragIdx (fa :: lay') (.node ga) ngv' ∧
      GroupsLe F (newHead frag (g.set q v') v' :: frest) := by
  have hmsvad : fa.vaddrs = ms := by rcases hlink with ⟨rfl, _⟩ | ⟨na, v, rfl, rfl, _, _⟩ <;> rfl
  have hnd' := hnd
  rw [List.flatMap_cons, List.nodup_append, hmsvad] at hnd'
  have hmamem : ma ∈ ms := List.mem_of_getElem? hmq
  have hvmem : v ∈ g := List.mem_of_getElem? hgq
  have hn0 : m1.nodes[ma]? = some (.value v.val v.pos v.fin) := hn
  have hganem : ga ≠ ma := by rintro rfl; rw [hga] at hn0; cases hn0
  have hga' : m'.nodes[ga]? = some (.group ms) := by rw [hsamen ga hganem]; exact hga
  have hallg' := all2_rep_set ma v' hsamen hnew hallg q hnd'.1 hmq
  have hnotin : ma ∉ lay'.flatMap FA.vaddrs := fun hmem' => hnd'.2.2 ma hmamem ma hmem' rfl
  have hreptl' := forall2_repFA_frame ma ⟨_, _, _, hn0⟩ hsamen lay' frest hreptl hnotin
  have htlmem : ∀ x, x ∈ frest → x ∈ s.frags := fun x hx => by rw [hfr]; exact List.mem_cons_of_mem _ hx
  have hv'short : v'.val.length ≤ F := Nat.le_trans hvl (hgshort v hvmem)
  rcases hlink with ⟨rfl, rfl⟩ | ⟨na, v0, rfl, rfl, rfl, rfl⟩
  · simp only [newHead]
    refine ⟨⟨hheap', haddr, .cons ⟨hga', hne, hallg'⟩ hreptl', hnd, ?_, ?_, ?_⟩, ?_⟩
    · intro w hw
      simp only [List.mem_cons, reduceCtorEq, false_or] at hw
      exact hshort w (htlmem _ hw)
    · intro g2 hg2 x hx
      simp only [List.mem_cons, Frag.group.injEq] at hg2
      rcases hg2 with rfl | hg2
      · rcases List.mem_or_eq_of_mem_set hx with hx | rfl
        · exact hgshort x hx
        · exact hv'short
      · exact hshortG g2 (htlmem _ hg2) x hx
    · unfold GroupRep
      exact ⟨hn', ga, ms, rfl, hga', hne, hallg', _, _, _, _, rfl, rfl, Or.inl ⟨rfl, rfl⟩⟩
    · intro g2 hg2
      simp only [List.mem_cons, Frag.group.injEq] at hg2
      rcases hg2 with rfl | hg2
      · rw [List.length_set]; exact hgl g (by rw [hfr]; simp)
      · exact hgl g2 (htlmem _ hg2)
  · have hq0 : q = 0 ∧ na = ma := by
      cases q with
      | zero => simpa using hmq
      | succ q => simp at hmq
    obtain ⟨rfl, rfl⟩ := hq0
    have hset : [v0].set 0 v' = [v'] := rfl
    rw [hset] at hallg' ⊢
    simp only [newHead]
    refine ⟨⟨hheap', haddr, .cons hnew hreptl', hnd, ?_, ?_, ?_⟩, ?_⟩
    · intro w hw
      simp only [List.mem_cons, Frag.value.injEq] at hw
      rcases hw with rfl | hw
      · exact hv'short
      · exact hshort w (htlmem _ hw)
    · intro g2 hg2 x hx
      simp only [List.mem_cons, reduceCtorEq, false_or] at hg2
      exact hshortG g2 (htlmem _ hg2) x hx
    · unfold GroupRep
      exact ⟨hn', ga, [na], rfl, hga', hne, hallg', _, _, _, _, rfl, rfl, Or.inr ⟨na, v', rfl, rfl, rfl, rfl⟩⟩
    · intro g2 hg2
      simp only [List.mem_cons, reduceCtorEq, false_or] at hg2
      exact hgl g2 (htlmem _ hg2)

section stepG
variable (c c' : Ctx) (hc : CallsU c c') (hfuel : c'.fuel = c.fuel)
  (hash : Bytes) (t t0 : RType) (pv : Val) (as : List Nat) (tia : Nat) (addrs : List Nat) (heap0 : TIIR.Heap)
  (st tt : RType) (hpv : TIIR.Val) (nreq : Int) (hti : heap0[tia]? = some (tiObj (.rtype st) tt hpv addrs nreq))
  (allF : List FieldInfo)

include hc hfuel hti in
/-- **The inner loop over `group.Values` and the `not found` check = the grouped-param clause of the model** on the open group `g`
(just opened, already open, or the synthetic one-member group). -/
theorem group_core (fi : FieldInfo) (rest : List FieldInfo) (a : Nat) (ha : heap0[a]? = some (fiObj fi))
    (hok : FieldOk c t0 fi) (hdist : ∀ fi' ∈ rest, ¬ fi'.index = fi.index)
    (m1 : Mem) (hheap : m1.heap = heap0) (s : LoopSt) (hcells : CellsOk m1 allF s.out) (hzero : ZeroRest m1 (fi :: rest))
    (fragIdx : Nat) (fa : FA) (lay' : List FA) (frag : Frag) (frest : List Frag) (hfr : s.frags = frag :: frest)
    (haddr : as.drop fragIdx = (fa :: lay').map FA.addr)
    (hrep : RepFA m1 fa frag) (hreptl : All2 (RepFA m1) lay' frest) (hnd : ((fa :: lay').flatMap FA.vaddrs).Nodup)
    (hshort : ∀ v, Frag.value v ∈ s.frags → v.val.length ≤ c.fuel) (hshortG : ShortG c.fuel s.frags) (hgl : GroupsLe c.fuel s.frags)
    (ga : Nat) (ms : List Nat) (g : List VNode) (hga : m1.nodes[ga]? = some (.group ms)) (hne : ms ≠ [])
    (hallg : All2 (RepVNode m1) ms g)
    (hlink : (fa = .group ga ms ∧ frag = .group g) ∨ (∃ na v, fa = .value na ∧ ms = [na] ∧ frag = .value v ∧ g = [v]))
    (ngv : Int) (i : Nat) (j : List Val) :
    match groupClauseGN fi s frag frest g (Int.toNat ngv) with
    | .error e => ∃ m' v, (loop (fun m env => eval c m env uGLoop.forCond >>= asBool) (exec c uGLoop.forBody) (exec c uGLoop.forPost) c.fuel m1
          (gEnv hash t t0 pv as tia addrs fragIdx ngv (.node ga) s.numValues s.numReq i (.ptr a) (.node fa.addr) (.bool false) (.nodes ms)
            (.int ((0 : Nat) : Int)) j)).andThen (exec c uG5) = .ret m' [v] ∧ absErrU heap0 v = some e
    | .ok s' => ∃ (mm' : Mem) (env' : Env) (ngv' : Int), (loop (fun m env => eval c m env uGLoop.forCond >>= asBool) (exec c uGLoop.forBody) (exec c uGLoop.forPost) c.fuel m1
          (gEnv hash t t0 pv as tia addrs fragIdx ngv (.node ga) s.numValues s.numReq i (.ptr a) (.node fa.addr) (.bool false) (.nodes ms)
            (.int ((0 : Nat) : Int)) j)).andThen (exec c uG5) = .norm mm' env' ∧
        IsT env' hash t t0 pv as tia addrs fragIdx ngv' (.node ga) s'.numValues s'.numReq i (.ptr a) (.node fa.addr) ∧
        LInvG heap0 as c.fuel mm' s' fragIdx (fa :: lay') (.node ga) ngv' ∧ GroupsLe c.fuel s'.frags ∧ CellsOk mm' allF s'.out ∧
        ZeroRest mm' rest := by
  have ha1 : m1.heap[a]? = some (fiObj fi) := by rw [hheap]; exact ha
  have hti1 : m1.heap[tia]? = some (tiObj (.rtype st) tt hpv addrs nreq) := by rw [hheap]; exact hti
  have hzrest : ZeroRest m1 rest := fun f hf => hzero f (List.mem_cons_of_mem _ hf)
  have hlen := all2_length hallg
  have hfuel1 : 0 < c.fuel := by have := hok.depth; omega
  have hglen : g.length ≤ c.fuel := by
    rcases hlink with ⟨_, rfl⟩ | ⟨na, v, _, _, rfl, rfl⟩
    · exact hgl g (by rw [hfr]; simp)
    · simp only [List.length_singleton]; omega
  have hgshort : ∀ v ∈ g, v.val.length ≤ c.fuel := by
    rcases hlink with ⟨_, rfl⟩ | ⟨na, v, _, _, rfl, rfl⟩
    · exact hshortG g (by rw [hfr]; simp)
    · intro w hw
      simp only [List.mem_singleton] at hw
      subst hw
      exact hshort _ (by rw [hfr]; simp)
  have hecf := errCalls_frag hc.err m1 fa frag hrep tia a fi st tt hpv addrs nreq ha1 hti1
  unfold groupClauseGN
  cases hfd : g.find? (pfxP fi) with
  | none =>
    simp only []
    have hall : ∀ p', 0 ≤ p' → p' < ms.length → NoMatch m1 fi ms p' := by
      intro p' _ hp'
      obtain ⟨w, hw, hrw⟩ := all2_get_left hallg p' ms[p'] (List.getElem?_eq_getElem hp')
      exact ⟨_, w.val, w.pos, w.fin, List.getElem?_eq_getElem hp', hrw, find_none _ _ hfd p' w hw⟩
    obtain ⟨env1, hloop, ⟨j1, rfl⟩⟩ := uGLoop_none c hash t t0 pv as tia addrs m1 fi a ha1 ms fragIdx ngv (.node ga) s.numValues s.numReq i
      (.node fa.addr) ms.length c.fuel 0 j (by omega) (by omega) (by omega) hall
    rw [hloop, andThen_norm, uG5_spec c hash t t0 pv as tia addrs m1 fi a ha1 hc.fs fa.addr _ _ _ st hecf false]
    cases hom : fi.opts.omitEmpty
    · simp only [Bool.not_false, Bool.and_self, if_true, Bool.false_eq_true, if_false]
      exact ⟨m1, _, rfl, by rw [← hheap]; exact hecf.abs _ _ (msgClassU_notFound fi)⟩
    · simp only [Bool.not_true, Bool.and_false, Bool.false_eq_true, if_false, if_true]
      refine ⟨m1, _, ngv, rfl, IsG.isT ⟨j1, rfl⟩, ?_, hgl, hcells, hzrest⟩
      refine ⟨hheap, haddr, ?_, hnd, hshort, hshortG, ?_⟩
      · show All2 (RepFA m1) (fa :: lay') s.frags
        rw [hfr]; exact .cons hrep hreptl
      · unfold GroupRep
        exact ⟨rfl, ga, ms, rfl, hga, hne, hallg, fa, lay', frag, frest, rfl, hfr, hlink⟩
  | some v =>
    simp only []
    obtain ⟨q, hgq, hpv', hbefore, hrf⟩ := find_first (pfxP fi) g v hfd
    obtain ⟨ma, hmq, hrv⟩ := all2_get_right hallg q v hgq
    have hn : m1.nodes[ma]? = some (.value v.val v.pos v.fin) := hrv
    have hvmem : v ∈ g := List.mem_of_getElem? hgq
    have hqlt : q < g.length := by
      rcases Nat.lt_or_ge q g.length with h | h
      · exact h
      · rw [List.getElem?_eq_none h] at hgq; cases hgq
    have hall : ∀ p', 0 ≤ p' → p' < q → NoMatch m1 fi ms p' := by
      intro p' _ hp'
      obtain ⟨w, hw, hpw⟩ := hbefore p' hp'
      obtain ⟨mb, hmb, hrw⟩ := all2_get_right hallg p' w hw
      exact ⟨mb, w.val, w.pos, w.fin, hmb, hrw, hpw⟩
    have hecOf : ∀ (cc : Ctx), NewErrSpecG cc → ∀ m2 : Mem, m2.nodes = m1.nodes → m2.heap = m1.heap →
        ErrCalls cc m2 ma tia a valueLit "value" v.fin fi st := by
      intro cc hcc m2 h2n h2h
      have hn2 : m2.nodes[ma]? = some (.value v.val v.pos v.fin) := by rw [h2n]; exact hn
      exact ErrCalls.of_spec hcc m2 ma tia a 2 valueLit "value" v.fin fi st tt hpv addrs nreq
        (ext1M_nodeType m2 ma _ _ _ hn2) ntypeString_2 (by decide) (ext1M_nodeEnd m2 ma _ _ _ hn2) (by rw [h2h]; exact ha1)
        (by rw [h2h]; exact hti1)
    obtain ⟨mm1, cv, h8, hcv, hstore⟩ := field_store c c' hc hfuel m1 ma tia a v.val v.pos v.fin fi valueLit "value" st t0 hok
      (fun m2 h2 => ext1M_nodeString m2 ma _ _ _ (by rw [h2]; exact hn)) (hecOf c' hc.err')
      (fun _ => hn) ha1 (hzero fi (by simp)) (hgshort v hvmem)
    have hfb := hok.reach m1 (by rw [hzero fi (by simp)]; rfl)
    cases hnm : nodeModel fi "value" v.fin v.val with
    | error e =>
      rw [hnm] at hstore
      obtain ⟨mm2, rv, h6, hh2, habs⟩ := hstore
      simp only []
      rcases uGLoop_found c hash t t0 pv as tia addrs m1 fi a ha1 ms q ma v.val v.pos v.fin hmq hn hpv' hfb mm1 mm2 cv rv h8 hcv h6
        (Or.inr (by rw [habs]; rfl)) fragIdx ngv (.node ga) s.numValues s.numReq i (.node fa.addr) q c.fuel 0 j (by omega) (by omega)
        (by omega) hall with ⟨_, hx⟩ | ⟨hnil, _⟩
      · rw [hx, andThen_ret]
        exact ⟨mm2, rv, rfl, by rw [← hheap]; exact habs⟩
      · rw [hnil] at habs; simp [absErrU] at habs
    | ok fv =>
      rw [hnm] at hstore
      obtain ⟨mm2, h6, hsame2, hroot2⟩ := hstore
      simp only []
      rcases uGLoop_found c hash t t0 pv as tia addrs m1 fi a ha1 ms q ma v.val v.pos v.fin hmq hn hpv' hfb mm1 _ cv .nil h8 hcv h6
        (Or.inl rfl) fragIdx ngv (.node ga) s.numValues s.numReq i (.node fa.addr) q c.fuel 0 j (by omega) (by omega)
        (by omega) hall with ⟨hne', _⟩ | ⟨_, env', hx, ⟨j2, rfl⟩⟩
      · exact absurd rfl hne'
      · have hsv : ∃ s1, storeValue fi "value" v.fin s1 = .ok fv := by
          unfold nodeModel at hnm
          cases hft : fieldText fi "value" v.fin v.val with
          | error e => rw [hft] at hnm; cases hnm
          | ok p => rw [hft] at hnm; exact ⟨p.1, hnm⟩
        obtain ⟨s1, hs1⟩ := hsv
        have hfO : Examples.fOfG (gOfF fv) = fv := storeValue_shape fi _ _ _ _ hs1
        -- facts about the memory after the store
        obtain ⟨m', hm'⟩ : ∃ m', m' = deferMem mm2 (fi.opts.hasLength && fi.opts.inline) ma v.val v.pos v.fin fi.opts.length := ⟨_, rfl⟩
        rw [← hm'] at hx
        have hheap' : m'.heap = heap0 := by rw [hm', deferMem_heap, hsame2.heap]; exact hheap
        have hcells' : CellsOk m' allF (s.out ++ [(fi.index, fv)]) := by
          intro f hf
          rw [hm', cellRoot_deferMem]
          by_cases hidx : f.index = fi.index
          · rw [hidx, hroot2, valOf_append_same _ _ _ _ hidx]
            simp [ptrChain_fOfG, hfO]
          · rw [hsame2.other _ hidx, valOf_append_other _ _ _ _ hidx]
            exact hcells f hf
        have hzero' : ZeroRest m' rest := by
          intro f hf
          rw [hm', cellRoot_deferMem, hsame2.other _ (hdist f hf)]
          exact hzrest f hf
        have hmem' : (∀ b, b ≠ ma → m'.nodes[b]? = m1.nodes[b]?) ∧
            RepVNode m' ma (if fi.opts.inline then { v with val := remOf fi v.val } else v) ∧
            (if fi.opts.inline then ({ v with val := remOf fi v.val } : VNode) else v).val.length ≤ v.val.length := by
          cases hinl : fi.opts.inline
          · have hb : (fi.opts.hasLength && fi.opts.inline) = false := by simp [hinl]
            rw [hb, deferMem_false] at hm'
            have hnodes : m'.nodes = m1.nodes := by rw [hm']; exact hsame2.nodes
            simp only [Bool.false_eq_true, if_false]
            exact ⟨fun b _ => by rw [hnodes], by show m'.nodes[ma]? = _; rw [hnodes]; exact hn, Nat.le_refl _⟩
          · have hb : (fi.opts.hasLength && fi.opts.inline) = true := by simp [hinl, hok.inl hinl]
            rw [hb, deferMem_true] at hm'
            have hnodes : m'.nodes = m1.nodes.set ma (.value (v.val.drop fi.opts.length) v.pos v.fin) := by
              rw [hm']; show mm2.nodes.set _ _ = _; rw [hsame2.nodes]
            have hmalt : ma < m1.nodes.length := by
              rcases Nat.lt_or_ge ma m1.nodes.length with h | h
              · exact h
              · rw [List.getElem?_eq_none h] at hn; cases hn
            simp only [if_true]
            refine ⟨fun b hb' => by rw [hnodes, List.getElem?_set_ne (fun e => hb' e.symm)], ?_, ?_⟩
            · show m'.nodes[ma]? = _
              rw [hnodes, List.getElem?_set_self hmalt]
              simp [remOf, hb]
            · simp only [remOf, hb, if_true, List.length_drop]; omega
        obtain ⟨hsamen, hnew, hvl⟩ := hmem'
        obtain ⟨hinvG, hgl'⟩ := group_frame heap0 as c.fuel m1 m' s fragIdx fa lay' frag frest hfr haddr hreptl hnd hshort hshortG hgl
          ga ms g hga hne hallg hlink q ma v _ hgq hmq hrv hheap' hsamen hnew hvl hgshort (ngv - 1) (Int.toNat ngv - 1) (by omega)
          (s.out ++ [(fi.index, fv)])
        have hrepF := hinvG.frags
        obtain ⟨_, _, hcons, hrep', _⟩ := all2_cons_inv hrepF
        have hecf' := errCalls_frag hc.err m' fa _ hrep' tia a fi st tt hpv addrs nreq (by rw [hheap']; exact ha) (by rw [hheap']; exact hti)
        rw [hx, andThen_norm, uG5_spec c hash t t0 pv as tia addrs m' fi a (by rw [hheap']; exact ha) hc.fs fa.addr _ _ _ st hecf' true]
        simp only [Bool.not_true, Bool.false_and, Bool.false_eq_true, if_false]
        rw [hrf]
        exact ⟨m', _, ngv - 1, rfl, IsG.isT ⟨j2, rfl⟩, hinvG, hgl', hcells', hzero'⟩

include hc hfuel hti in
/-- A field that is not a grouped param, no group open: `step_nogroup` in the shape of `step_general`. -/
theorem step_plain (fi : FieldInfo) (rest : List FieldInfo) (a i : Nat) (hi : addrs[i]? = some a) (ha : heap0[a]? = some (fiObj fi))
    (hok : FieldOk c t0 fi) (hg : fi.opts.group = false) (hmem : fi ∈ allF) (hdist : ∀ fi' ∈ rest, ¬ fi'.index = fi.index)
    (mm : Mem) (s : LoopSt) (fragIdx : Nat) (lay : List FA) (gv : Val) (ngv : Int)
    (hinv : LInvG heap0 as c.fuel mm s fragIdx lay gv ngv) (hsn : s.group = none) (hgl : GroupsLe c.fuel s.frags)
    (hcells : CellsOk mm allF s.out) (hzero : ZeroRest mm (fi :: rest)) (fiv fragv : Val) (j : List Val) :
    match stepField hash.length fi s with
    | .error e => ∃ m' v, exec c uBody mm (tEnv hash t t0 pv as tia addrs fragIdx ngv gv s.numValues s.numReq i fiv fragv j) = .ret m' [v] ∧
        absErrU heap0 v = some e
    | .ok s' => ∃ (mm' : Mem) (env' : Env) (fragIdx' : Nat) (lay' : List FA) (gv' : Val) (ngv' : Int) (fragv' : Val),
        (exec c uBody mm (tEnv hash t t0 pv as tia addrs fragIdx ngv gv s.numValues s.numReq i fiv fragv j) = .norm mm' env' ∨
         exec c uBody mm (tEnv hash t t0 pv as tia addrs fragIdx ngv gv s.numValues s.numReq i fiv fragv j) = .cont mm' env') ∧
        IsT env' hash t t0 pv as tia addrs fragIdx' ngv' gv' s'.numValues s'.numReq i (.ptr a) fragv' ∧
        LInvG heap0 as c.fuel mm' s' fragIdx' lay' gv' ngv' ∧ GroupsLe c.fuel s'.frags ∧ CellsOk mm' allF s'.out ∧ ZeroRest mm' rest := by
  obtain ⟨hlinv, rfl⟩ := hinv.toLInv hsn
  have hstep := step_nogroup c c' hc hfuel hash t t0 pv as tia addrs heap0 st tt hpv nreq hti allF fi rest a i hi ha hok hg hmem hdist
    mm s fragIdx lay hlinv hcells hzero ngv fiv fragv j
  cases hsf : stepField hash.length fi s with
  | error e => rw [hsf] at hstep; exact hstep
  | ok s' =>
    rw [hsf] at hstep
    obtain ⟨mm', env', fragIdx', lay', fragv', hx, hT, hinv', hcells', hzero'⟩ := hstep
    have hgr := stepField_nogroup_groups hash.length fi s s' hg hsn hsf
    exact ⟨mm', env', fragIdx', lay', .nil, ngv, fragv', hx, hT,
      LInvG.ofLInv hinv' (fun g hg' => hinv.shortG g (hgr g hg')) ngv, fun g hg' => hgl g (hgr g hg'), hcells', hzero'⟩

include hc hfuel hti in
/-- **A field that is not a grouped param while a group is open**: the group must be used up (`excessive fragment` otherwise) and is
closed; then the iteration continues as outside a group. -/
theorem step_close (fi : FieldInfo) (rest : List FieldInfo) (a i : Nat) (hi : addrs[i]? = some a) (ha : heap0[a]? = some (fiObj fi))
    (hok : FieldOk c t0 fi) (hg : fi.opts.group = false) (hmem : fi ∈ allF) (hdist : ∀ fi' ∈ rest, ¬ fi'.index = fi.index)
    (mm : Mem) (s : LoopSt) (fragIdx : Nat) (lay : List FA) (gv : Val) (ngv : Int)
    (hinv : LInvG heap0 as c.fuel mm s fragIdx lay gv ngv) (g : List VNode) (hsg : s.group = some g) (hgl : GroupsLe c.fuel s.frags)
    (hcells : CellsOk mm allF s.out) (hzero : ZeroRest mm (fi :: rest)) (fiv fragv : Val) (j : List Val) :
    match stepField hash.length fi s with
    | .error e => ∃ m' v, exec c uBody mm (tEnv hash t t0 pv as tia addrs fragIdx ngv gv s.numValues s.numReq i fiv fragv j) = .ret m' [v] ∧
        absErrU heap0 v = some e
    | .ok s' => ∃ (mm' : Mem) (env' : Env) (fragIdx' : Nat) (lay' : List FA) (gv' : Val) (ngv' : Int) (fragv' : Val),
        (exec c uBody mm (tEnv hash t t0 pv as tia addrs fragIdx ngv gv s.numValues s.numReq i fiv fragv j) = .norm mm' env' ∨
         exec c uBody mm (tEnv hash t t0 pv as tia addrs fragIdx ngv gv s.numValues s.numReq i fiv fragv j) = .cont mm' env') ∧
        IsT env' hash t t0 pv as tia addrs fragIdx' ngv' gv' s'.numValues s'.numReq i (.ptr a) fragv' ∧
        LInvG heap0 as c.fuel mm' s' fragIdx' lay' gv' ngv' ∧ GroupsLe c.fuel s'.frags ∧ CellsOk mm' allF s'.out ∧ ZeroRest mm' rest := by
  have ha' : mm.heap[a]? = some (fiObj fi) := by rw [hinv.heap]; exact ha
  have hti' : mm.heap[tia]? = some (tiObj (.rtype st) tt hpv addrs nreq) := by rw [hinv.heap]; exact hti
  obtain ⟨hngv, ga, ms, rfl, hga, hne, hallg, fa, lay', f, frest, hlay, hfr, hlink⟩ := groupRep_some hinv.group hsg
  have hecg : ErrCalls c mm ga tia a [103, 114, 111, 117, 112] "group" (groupEnd g) fi st :=
    errCalls_frag hc.err mm (.group ga ms) (.group g) ⟨hga, hne, hallg⟩ tia a fi st tt hpv addrs nreq ha' hti'
  rw [stepField_closeGroup hash.length fi s g hg hsg]
  rcases uP1_spec c hash t t0 pv as tia addrs mm st fi a ha' i hi fragIdx ngv (.node ga) s.numValues s.numReq fiv fragv j
    (Or.inr ⟨ga, groupEnd g, rfl, hecg⟩) with ⟨hor, _⟩ | ⟨_, ga', gEnd', hgv, hec', hcase⟩
  · rcases hor with hor | hor
    · rw [hg] at hor; cases hor
    · cases hor
  · cases hgv
    have hge : gEnd' = groupEnd g := by
      have := (hec'.str []).symm.trans (hecg.str [])
      simp [errRecK] at this
      omega
    subst hge
    rcases hcase with ⟨hpos, hx⟩ | ⟨hnpos, hx⟩
    · rw [if_pos (by omega), uBody_split, hx, andThen_ret]
      exact ⟨mm, _, rfl, by rw [← hinv.heap]; exact hec'.abs _ _ (by decide)⟩
    · rw [if_neg (by omega)]
      -- the iteration continues as if started outside a group, one fragment further
      have hcastI : ((fragIdx + 1 : Nat) : Int) = (fragIdx : Int) + 1 := by omega
      have hsame : exec c uBody mm (tEnv hash t t0 pv as tia addrs fragIdx ngv (.node ga) s.numValues s.numReq i fiv fragv j) =
          exec c uBody mm (tEnv hash t t0 pv as tia addrs ((fragIdx + 1 : Nat) : Int) ngv .nil s.numValues s.numReq i fiv fragv j) := by
        rw [uBody_split, uBody_split, hx]
        rcases uP1_spec c hash t t0 pv as tia addrs mm st fi a ha' i hi ((fragIdx + 1 : Nat) : Int) ngv .nil s.numValues s.numReq fiv fragv j
          (Or.inl rfl) with ⟨_, h1⟩ | ⟨_, _, _, hgv, _⟩
        · rw [h1, hcastI]
        · cases hgv
      rw [hsame]
      have haddr := hinv.addr
      rw [hlay, List.map_cons] at haddr
      have hlt : fragIdx < as.length := by
        rcases Nat.lt_or_ge fragIdx as.length with h | h
        · exact h
        · rw [List.drop_eq_nil_iff.mpr h] at haddr; cases haddr
      have hdrop1 : as.drop (fragIdx + 1) = lay'.map FA.addr := by
        rw [List.drop_eq_getElem_cons hlt] at haddr; exact (List.cons.inj haddr).2
      have hfrags := hinv.frags
      rw [hlay, hfr] at hfrags
      obtain ⟨_, _, hcons, _, hreptl⟩ := all2_cons_inv hfrags
      cases hcons
      have hnd := hinv.nodup
      rw [hlay, List.flatMap_cons, List.nodup_append] at hnd
      have hmemtl : ∀ x, x ∈ s.frags.tail → x ∈ s.frags := fun x hx => List.mem_of_mem_tail hx
      have htl : s.frags.tail = frest := by rw [hfr]; rfl
      have hinv0 : LInvG heap0 as c.fuel mm { s with frags := s.frags.tail, group := none } (fragIdx + 1) lay' .nil ngv :=
        ⟨hinv.heap, hdrop1, by show All2 (RepFA mm) lay' s.frags.tail; rw [htl]; exact hreptl, hnd.2.1,
          fun v hv => hinv.short v (hmemtl _ hv), fun g' hg' => hinv.shortG g' (hmemtl _ hg'), by unfold GroupRep; rfl⟩
      exact step_plain c c' hc hfuel hash t t0 pv as tia addrs heap0 st tt hpv nreq hti allF fi rest a i hi ha hok hg hmem hdist mm
        { s with frags := s.frags.tail, group := none } (fragIdx + 1) lay' .nil ngv hinv0 rfl (fun g' hg' => hgl g' (hmemtl _ hg'))
        hcells hzero fiv fragv j
include hc hfuel hti in
/-- **One iteration for a grouped param** (`fi.Opts.Group`), a group open or not = the model's `stepField`. -/
theorem step_group (fi : FieldInfo) (rest : List FieldInfo) (a i : Nat) (hi : addrs[i]? = some a) (ha : heap0[a]? = some (fiObj fi))
    (hok : FieldOk c t0 fi) (hg : fi.opts.group = true) (hdist : ∀ fi' ∈ rest, ¬ fi'.index = fi.index)
    (mm : Mem) (s : LoopSt) (fragIdx : Nat) (lay : List FA) (gv : Val) (ngv : Int)
    (hinv : LInvG heap0 as c.fuel mm s fragIdx lay gv ngv) (hgl : GroupsLe c.fuel s.frags)
    (hcells : CellsOk mm allF s.out) (hzero : ZeroRest mm (fi :: rest)) (fiv fragv : Val) (j : List Val) :
    match stepField hash.length fi s with
    | .error e => ∃ m' v, exec c uBody mm (tEnv hash t t0 pv as tia addrs fragIdx ngv gv s.numValues s.numReq i fiv fragv j) = .ret m' [v] ∧
        absErrU heap0 v = some e
    | .ok s' => ∃ (mm' : Mem) (env' : Env) (fragIdx' : Nat) (lay' : List FA) (gv' : Val) (ngv' : Int) (fragv' : Val),
        (exec c uBody mm (tEnv hash t t0 pv as tia addrs fragIdx ngv gv s.numValues s.numReq i fiv fragv j) = .norm mm' env' ∨
         exec c uBody mm (tEnv hash t t0 pv as tia addrs fragIdx ngv gv s.numValues s.numReq i fiv fragv j) = .cont mm' env') ∧
        IsT env' hash t t0 pv as tia addrs fragIdx' ngv' gv' s'.numValues s'.numReq i (.ptr a) fragv' ∧
        LInvG heap0 as c.fuel mm' s' fragIdx' lay' gv' ngv' ∧ GroupsLe c.fuel s'.frags ∧ CellsOk mm' allF s'.out ∧ ZeroRest mm' rest := by
  have ha' : mm.heap[a]? = some (fiObj fi) := by rw [hinv.heap]; exact ha
  have hti' : mm.heap[tia]? = some (tiObj (.rtype st) tt hpv addrs nreq) := by rw [hinv.heap]; exact hti
  have hzrest : ZeroRest mm rest := fun f hf => hzero f (List.mem_cons_of_mem _ hf)
  -- what slot 8 holds
  have hgvfacts : (gv = .nil ∨ ∃ ga gEnd, gv = .node ga ∧ ErrCalls c mm ga tia a [103, 114, 111, 117, 112] "group" gEnd fi st) ∧
      (gv = .nil ∨ ∃ ga, gv = .node ga) ∧ (isNilV gv = true ↔ s.group = none) := by
    cases hsg : s.group with
    | none =>
      have := groupRep_none hinv.group hsg
      subst this
      exact ⟨Or.inl rfl, Or.inl rfl, by simp [isNilV]⟩
    | some g =>
      obtain ⟨_, ga, ms, rfl, hga, hne, hallg, _⟩ := groupRep_some hinv.group hsg
      exact ⟨Or.inr ⟨ga, groupEnd g, rfl,
        errCalls_frag hc.err mm (.group ga ms) (.group g) ⟨hga, hne, hallg⟩ tia a fi st tt hpv addrs nreq ha' hti'⟩, Or.inr ⟨ga, rfl⟩,
        by simp [isNilV]⟩
  obtain ⟨hgv1, hgv3, hnil⟩ := hgvfacts
  have h1 : exec c uP1 mm (tEnv hash t t0 pv as tia addrs fragIdx ngv gv s.numValues s.numReq i fiv fragv j) =
      .norm mm (tEnv hash t t0 pv as tia addrs fragIdx ngv gv s.numValues s.numReq i (.ptr a) fragv j) := by
    rcases uP1_spec c hash t t0 pv as tia addrs mm st fi a ha' i hi fragIdx ngv gv s.numValues s.numReq fiv fragv j hgv1 with
      ⟨_, h1⟩ | ⟨hgf, _⟩
    · exact h1
    · rw [hg] at hgf; cases hgf
  rw [stepField_group hash.length fi s hg, uBody_split, h1, andThen_norm,
    uP2_spec c hash t t0 pv as tia addrs mm st tt hpv nreq hti' fi a ha']
  cases hfr : s.frags with
  | nil =>
    have hlay : lay = [] := by have := hinv.frags; rw [hfr] at this; exact all2_right_nil this
    have hle : as.length ≤ fragIdx := by
      have := hinv.addr; rw [hlay, List.map_nil, List.drop_eq_nil_iff] at this; exact this
    simp only [hle, if_true]
    cases hom : fi.opts.omitEmpty
    · simp only [Bool.false_eq_true, if_false, andThen_ret]
      exact ⟨mm, _, rfl, by rw [← hinv.heap]; exact absErrU_eofRec _ _ _ _ _ _ (by decide)⟩
    · simp only [if_true, andThen_cont]
      exact ⟨mm, _, fragIdx, lay, gv, ngv, fragv, Or.inr rfl, ⟨j, rfl⟩, hinv, hgl, hcells, hzrest⟩
  | cons frag frest =>
    have hfrags := hinv.frags
    rw [hfr] at hfrags
    obtain ⟨fa, lay', hlay, hrep, hreptl⟩ := all2_right_cons hfrags
    have haddr := hinv.addr
    rw [hlay] at haddr
    have haddr0 := haddr
    rw [List.map_cons] at haddr
    have hlt : fragIdx < as.length := by
      rcases Nat.lt_or_ge fragIdx as.length with h | h
      · exact h
      · rw [List.drop_eq_nil_iff.mpr h] at haddr; cases haddr
    have hfa : as[fragIdx]? = some fa.addr := by
      rw [List.drop_eq_getElem_cons hlt] at haddr
      rw [List.getElem?_eq_getElem hlt]; congr 1; exact (List.cons.inj haddr).1
    have hnd0 := hinv.nodup
    rw [hlay] at hnd0
    simp only [show ¬ as.length ≤ fragIdx by omega, if_false, andThen_norm]
    rw [uP3_spec c hash t t0 pv as tia addrs mm fi a ha' fragIdx ngv gv hgv3]
    by_cases hskip : fi.opts.omitEmpty = true ∧ s.group = none ∧ s.numValues - s.numReq ≤ 0
    · rw [if_pos hskip, if_pos (show fi.opts.omitEmpty = true ∧ isNilV gv = true ∧ s.numValues - s.numReq ≤ 0 from
        ⟨hskip.1, hnil.mpr hskip.2.1, hskip.2.2⟩), andThen_cont]
      refine ⟨mm, _, fragIdx, lay, gv, ngv, fragv, Or.inr rfl, ⟨j, rfl⟩, ?_, by rw [← hfr]; exact hgl, hcells, hzrest⟩
      exact ⟨hinv.heap, hinv.addr, hfrags, hinv.nodup, fun w hw => hinv.short w (by rw [hfr]; exact hw),
        fun g' hg' => hinv.shortG g' (by rw [hfr]; exact hg'),
        by have := hinv.group; unfold GroupRep at this ⊢; rw [hfr] at this; exact this⟩
    · rw [if_neg hskip, if_neg (show ¬ (fi.opts.omitEmpty = true ∧ isNilV gv = true ∧ s.numValues - s.numReq ≤ 0) from
        fun h => hskip ⟨h.1, hnil.mp h.2.1, h.2.2⟩), andThen_norm,
        uP4_spec c hash t t0 pv as tia addrs mm fragIdx fa.addr hfa, andThen_norm]
      obtain ⟨hnt, hend⟩ := repFA_facts mm fa frag hrep
      have hnt' : ext1M mm .nodeType (.node fa.addr) = .ok (.int (if isGF frag then 1 else 2)) := by cases frag <;> exact hnt
      rw [uDisp_spec c hash t t0 pv as tia addrs mm fi a ha' fa.addr (isGF frag) hnt']
      have hecf := errCalls_frag hc.err mm fa frag hrep tia a fi st tt hpv addrs nreq ha' hti'
      by_cases hsel : (isGF frag || !fi.opts.omitEmpty) = true
      rotate_left
      · -- an optional grouped param meets a single value: skipped
        have hom : fi.opts.omitEmpty = true := by
          cases h : fi.opts.omitEmpty
          · rw [h] at hsel; simp at hsel
          · rfl
        have hpick : dispPick fi (isGF frag) = uE := by
          have : (isGF frag || !fi.opts.omitEmpty) = false := by simpa using hsel
          simp [dispPick, hg, this]
        rw [if_neg hsel, hpick, uE_spec c hash t t0 pv as tia addrs mm st fi a ha' hc.fs fa.addr _ _ _ hecf]
        simp only [hom, if_true]
        refine ⟨mm, _, fragIdx, lay, gv, ngv, _, Or.inr rfl, ⟨j, rfl⟩, hinv, hgl, hcells, hzrest⟩
      · have hpick : dispPick fi (isGF frag) = uG := by simp [dispPick, hg, hsel]
        rw [if_pos hsel, hpick, uG_split]
        -- from the inner-loop lemma to the shape of this theorem
        have conv : ∀ (R : Out) (gcl : Except UErr LoopSt) (gaN : Nat),
            (match gcl with
             | .error e => ∃ m' v, R = .ret m' [v] ∧ absErrU heap0 v = some e
             | .ok s' => ∃ (mm' : Mem) (env' : Env) (ngv' : Int), R = .norm mm' env' ∧
                 IsT env' hash t t0 pv as tia addrs fragIdx ngv' (.node gaN) s'.numValues s'.numReq i (.ptr a) (.node fa.addr) ∧
                 LInvG heap0 as c.fuel mm' s' fragIdx (fa :: lay') (.node gaN) ngv' ∧ GroupsLe c.fuel s'.frags ∧ CellsOk mm' allF s'.out ∧
                 ZeroRest mm' rest) →
            (match gcl with
             | .error e => ∃ m' v, R = .ret m' [v] ∧ absErrU heap0 v = some e
             | .ok s' => ∃ (mm' : Mem) (env' : Env) (fragIdx' : Nat) (lay'' : List FA) (gv' : Val) (ngv' : Int) (fragv' : Val),
                 (R = .norm mm' env' ∨ R = .cont mm' env') ∧
                 IsT env' hash t t0 pv as tia addrs fragIdx' ngv' gv' s'.numValues s'.numReq i (.ptr a) fragv' ∧
                 LInvG heap0 as c.fuel mm' s' fragIdx' lay'' gv' ngv' ∧ GroupsLe c.fuel s'.frags ∧ CellsOk mm' allF s'.out ∧
                 ZeroRest mm' rest) := by
          intro R gcl gaN h
          cases gcl with
          | error e => exact h
          | ok s' =>
            obtain ⟨mm', env', ngv', hx, hT, hI, hG, hC, hZ⟩ := h
            exact ⟨mm', env', fragIdx, _, _, ngv', _, Or.inl hx, hT, hI, hG, hC, hZ⟩
        have hshort' : ∀ v, Frag.value v ∈ s.frags → v.val.length ≤ c.fuel := hinv.short
        cases frag with
        | group vs =>
          cases fa with
          | value na => exact absurd hrep (by simp [RepFA])
          | group fa_a msf =>
            obtain ⟨hnf, hnef, hallf⟩ := hrep
            simp only [FA.addr]
            cases hsg : s.group with
            | none =>
              have hgvn := groupRep_none hinv.group hsg
              subst hgvn
              obtain ⟨env1, hx1, ⟨j1, rfl⟩⟩ := uG1_open c hash t t0 pv as tia addrs mm a fa_a msf hnf fragIdx ngv s.numValues s.numReq i j
              rw [hx1, andThen_norm]
              have hcore := group_core c c' hc hfuel hash t t0 pv as tia addrs heap0 st tt hpv nreq hti allF fi rest a ha hok hdist mm hinv.heap s
                hcells hzero fragIdx (.group fa_a msf) lay' (.group vs) frest hfr haddr0 ⟨hnf, hnef, hallf⟩ hreptl hnd0 hshort' hinv.shortG hgl
                fa_a msf vs hnf hnef hallf (Or.inl ⟨rfl, rfl⟩) ((msf.length : Nat) : Int) i j1
              rw [show Int.toNat ((msf.length : Nat) : Int) = vs.length by rw [Int.toNat_natCast]; exact all2_length hallf] at hcore
              simp only [groupClause, gSel, hsg]
              exact conv _ _ _ hcore
            | some g0 =>
              obtain ⟨hngv, ga, ms, rfl, hga, hne, hallg, fa2, lay2, f2, rest2, hlay2, hfr2, hlink⟩ := groupRep_some hinv.group hsg
              rw [hfr] at hfr2
              rw [hlay] at hlay2
              cases hfr2
              cases hlay2
              rcases hlink with ⟨hfa2, hf2⟩ | ⟨_, _, _, _, hf2, _⟩
              rotate_left
              · cases hf2
              · obtain ⟨rfl, rfl⟩ : ga = fa_a ∧ ms = msf := by cases hfa2; exact ⟨rfl, rfl⟩
                obtain rfl : g0 = vs := by cases hf2; rfl
                obtain ⟨env1, hx1, ⟨j1, rfl⟩⟩ := uG1_cont c hash t t0 pv as tia addrs mm a ga ga ms ms hnf hga fragIdx ngv s.numValues s.numReq i j
                rw [hx1, andThen_norm]
                have hcore := group_core c c' hc hfuel hash t t0 pv as tia addrs heap0 st tt hpv nreq hti allF fi rest a ha hok hdist mm hinv.heap s
                  hcells hzero fragIdx (.group ga ms) lay' (.group g0) frest hfr haddr0 ⟨hnf, hnef, hallf⟩ hreptl hnd0 hshort' hinv.shortG hgl
                  ga ms g0 hga hne hallg (Or.inl ⟨rfl, rfl⟩) ngv i j1
                rw [hngv] at hcore
                simp only [groupClause, gSel, hsg]
                exact conv _ _ _ hcore
        | value v =>
          cases fa with
          | group ga0 ms0 => exact absurd hrep (by simp [RepFA])
          | value na =>
            have hn : mm.nodes[na]? = some (.value v.val v.pos v.fin) := hrep
            simp only [FA.addr]
            obtain ⟨env1, hx1, ⟨j1, rfl⟩⟩ := uG1_single c hash t t0 pv as tia addrs mm a na v.val v.pos v.fin hn gv fragIdx ngv
              s.numValues s.numReq i j
            rw [hx1, andThen_norm]
            have hkeep := nodes_append_keep mm (.group [na])
            have hcore := group_core c c' hc hfuel hash t t0 pv as tia addrs heap0 st tt hpv nreq hti allF fi rest a ha hok hdist
              { mm with nodes := mm.nodes ++ [.group [na]] } hinv.heap s hcells hzero fragIdx (.value na) lay' (.value v) frest hfr haddr0
              (hkeep _ _ hn) (all2_mono hreptl (fun x y _ h => repFA_mono hkeep x y h)) hnd0 hshort' hinv.shortG hgl
              mm.nodes.length [na] [v] (by simp) (by simp) (.cons (hkeep _ _ hn) .nil) (Or.inr ⟨na, v, rfl, rfl, rfl, rfl⟩) 1 i j1
            simp only [groupClause, gSel]
            exact conv _ _ _ hcore

include hc hfuel hti in
/-- **One iteration of the loop over `ti.Fields` = the model's `stepField`**, any field, any state. -/
theorem step_general (fi : FieldInfo) (rest : List FieldInfo) (a i : Nat) (hi : addrs[i]? = some a) (ha : heap0[a]? = some (fiObj fi))
    (hok : FieldOk c t0 fi) (hmem : fi ∈ allF) (hdist : ∀ fi' ∈ rest, ¬ fi'.index = fi.index)
    (mm : Mem) (s : LoopSt) (fragIdx : Nat) (lay : List FA) (gv : Val) (ngv : Int)
    (hinv : LInvG heap0 as c.fuel mm s fragIdx lay gv ngv) (hgl : GroupsLe c.fuel s.frags)
    (hcells : CellsOk mm allF s.out) (hzero : ZeroRest mm (fi :: rest)) (fiv fragv : Val) (j : List Val) :
    match stepField hash.length fi s with
    | .error e => ∃ m' v, exec c uBody mm (tEnv hash t t0 pv as tia addrs fragIdx ngv gv s.numValues s.numReq i fiv fragv j) = .ret m' [v] ∧
        absErrU heap0 v = some e
    | .ok s' => ∃ (mm' : Mem) (env' : Env) (fragIdx' : Nat) (lay' : List FA) (gv' : Val) (ngv' : Int) (fragv' : Val),
        (exec c uBody mm (tEnv hash t t0 pv as tia addrs fragIdx ngv gv s.numValues s.numReq i fiv fragv j) = .norm mm' env' ∨
         exec c uBody mm (tEnv hash t t0 pv as tia addrs fragIdx ngv gv s.numValues s.numReq i fiv fragv j) = .cont mm' env') ∧
        IsT env' hash t t0 pv as tia addrs fragIdx' ngv' gv' s'.numValues s'.numReq i (.ptr a) fragv' ∧
        LInvG heap0 as c.fuel mm' s' fragIdx' lay' gv' ngv' ∧ GroupsLe c.fuel s'.frags ∧ CellsOk mm' allF s'.out ∧ ZeroRest mm' rest := by
  cases hg : fi.opts.group with
  | true =>
    exact step_group c c' hc hfuel hash t t0 pv as tia addrs heap0 st tt hpv nreq hti allF fi rest a i hi ha hok hg hdist mm s fragIdx lay
      gv ngv hinv hgl hcells hzero fiv fragv j
  | false =>
    cases hsg : s.group with
    | none =>
      exact step_plain c c' hc hfuel hash t t0 pv as tia addrs heap0 st tt hpv nreq hti allF fi rest a i hi ha hok hg hmem hdist mm s fragIdx
        lay gv ngv hinv hsg hgl hcells hzero fiv fragv j
    | some g =>
      exact step_close c c' hc hfuel hash t t0 pv as tia addrs heap0 st tt hpv nreq hti allF fi rest a i hi ha hok hg hmem hdist mm s fragIdx
        lay gv ngv hinv g hsg hgl hcells hzero fiv fragv j
end stepG

end GoCrypt.CIR
