import GoCrypt.Model.Parse

/-! Lemmas about the lexer/parser model (used by `Props/C11`, `Props/C07`). -/

namespace GoCrypt.Parse
open Bytes

/-! ## The lexer stream -/

theorem lexFrag_text (s : Bytes) (start : Nat) (acc : Bytes) :
    ((lexFrag s start acc).map Tok.text).flatten = acc.reverse ++ s := by
  induction s generalizing start acc with
  | nil =>
    unfold lexFrag
    by_cases h : acc = [] <;> simp [h, Tok.text]
  | cons c cs ih =>
    unfold lexFrag
    split
    · next h => simp [Tok.text, ih, h]
    · split
      · next h => simp [Tok.text, ih, h]
      · simp [ih]

/-- In the fragment stream the only terminal token is the last one. -/
theorem lexFrag_consumed (s : Bytes) (start : Nat) (acc : Bytes) :
    consumed (lexFrag s start acc) = (lexFrag s start acc).length := by
  induction s generalizing start acc with
  | nil =>
    unfold lexFrag
    by_cases h : acc = [] <;> simp [h, consumed, Tok.isTerminal]
  | cons c cs ih =>
    unfold lexFrag
    split
    · simp [consumed, Tok.isTerminal, ih]; omega
    · split
      · simp [consumed, Tok.isTerminal, ih]; omega
      · exact ih _ _

theorem lexFrag_no_error (s : Bytes) (start : Nat) (acc : Bytes) :
    ∀ t ∈ lexFrag s start acc, ∀ p m, t ≠ Tok.error p m := by
  induction s generalizing start acc with
  | nil =>
    unfold lexFrag
    by_cases h : acc = [] <;> simp [h]
  | cons c cs ih =>
    unfold lexFrag
    split
    · intro t ht p m
      simp only [List.mem_cons] at ht
      rcases ht with rfl | rfl | ht
      · simp
      · simp
      · exact ih _ _ t ht p m
    · split
      · intro t ht p m
        simp only [List.mem_cons] at ht
        rcases ht with rfl | rfl | ht
        · simp
        · simp
        · exact ih _ _ t ht p m
      · exact ih _ _

/-! ## Parser fused with the fragment lexer -/

def pushValue (st : PState) (start : Nat) (acc : Bytes) : PState :=
  { st with value := some ⟨acc.reverse, start, start + acc.reverse.length⟩ }

theorem parseToks_lexFrag_nil (st : PState) (start : Nat) (acc : Bytes) :
    parseToks st (lexFrag [] start acc) =
      if acc = [] then .ok ⟨st.flush.pfx, st.flush.frags⟩
      else .ok ⟨(pushValue st start acc).flush.pfx, (pushValue st start acc).flush.frags⟩ := by
  unfold lexFrag
  by_cases h : acc = [] <;> simp [h, parseToks, pushValue]

theorem parseToks_lexFrag_dollar (st : PState) (cs : Bytes) (start : Nat) (acc : Bytes) :
    parseToks st (lexFrag (dollar :: cs) start acc) =
      parseToks (pushValue st start acc).flush (lexFrag cs (start + acc.length + 1) []) := by
  simp [lexFrag, parseToks, pushValue]

theorem parseToks_lexFrag_comma (st : PState) (cs : Bytes) (start : Nat) (acc : Bytes) :
    parseToks st (lexFrag (comma :: cs) start acc) =
      parseToks { st with group := some (st.group.getD [] ++ [⟨acc.reverse, start, start + acc.reverse.length⟩]), value := none }
        (lexFrag cs (start + acc.length + 1) []) := by
  have : comma ≠ dollar := by decide
  simp [lexFrag, parseToks, this]

theorem parseToks_lexFrag_other (st : PState) (c : UInt8) (cs : Bytes) (start : Nat) (acc : Bytes)
    (h1 : c ≠ dollar) (h2 : c ≠ comma) :
    parseToks st (lexFrag (c :: cs) start acc) = parseToks st (lexFrag cs start (c :: acc)) := by
  simp [lexFrag, h1, h2]

/-! ## The invariant carried through the fragment loop -/

/-- A node's span is exactly the substring of `pre` holding its text. -/
def NodeOK (pre : Bytes) (n : VNode) : Prop :=
  n.fin = n.pos + n.val.length ∧ n.fin ≤ pre.length ∧ (pre.drop n.pos).take n.val.length = n.val

def Frag.nodes : Frag → List VNode
  | .value v => [v]
  | .group vs => vs

def Tree.nodes (t : Tree) : List VNode := t.frags.flatMap Frag.nodes

theorem NodeOK.mono {pre : Bytes} {n : VNode} (x : Bytes) (h : NodeOK pre n) : NodeOK (pre ++ x) n := by
  obtain ⟨h1, h2, h3⟩ := h
  refine ⟨h1, by simp; omega, ?_⟩
  rw [List.drop_append_of_le_length (by omega)]
  rw [List.take_append_of_le_length (by simp; omega)]
  exact h3

/-- Text of the completed fragments, each followed by its `$`. -/
def fragsText (fs : List Frag) : Bytes := (fs.map fun f => f.render ++ [dollar]).flatten

/-- Text of the members of the open group, each followed by its `,`. -/
def groupText : Option (List VNode) → Bytes
  | none => []
  | some g => (g.map fun v => v.val ++ [comma]).flatten

structure Inv (st : PState) (pre : Bytes) : Prop where
  noValue : st.value = none
  text : pre = st.pfx.getD [] ++ fragsText st.frags ++ groupText st.group
  groupNe : ∀ g, st.group = some g → g ≠ []
  fragsNe : ∀ f ∈ st.frags, f.nodes ≠ []
  nodes : ∀ f ∈ st.frags, ∀ n ∈ f.nodes, NodeOK pre n
  gnodes : ∀ g, st.group = some g → ∀ n ∈ g, NodeOK pre n

theorem joinWith_snoc (d : UInt8) (xs : List Bytes) (x : Bytes) (h : xs ≠ []) :
    joinWith d (xs ++ [x]) = joinWith d xs ++ d :: x := by
  induction xs with
  | nil => exact absurd rfl h
  | cons a as ih =>
    cases as with
    | nil => simp [joinWith]
    | cons b bs =>
      have := ih (by simp)
      simp only [List.cons_append] at this ⊢
      simp [joinWith, this]

theorem flatten_sep_eq (d : UInt8) (xs : List Bytes) (h : xs ≠ []) :
    (xs.map fun x => x ++ [d]).flatten = joinWith d xs ++ [d] := by
  induction xs with
  | nil => exact absurd rfl h
  | cons a as ih =>
    cases as with
    | nil => simp [joinWith]
    | cons b bs =>
      have := ih (by simp)
      simp only [List.map_cons, List.flatten_cons] at this ⊢
      simp [joinWith, this]

theorem fragsText_eq (fs : List Frag) (h : fs ≠ []) :
    fragsText fs = joinWith dollar (fs.map Frag.render) ++ [dollar] := by
  unfold fragsText
  have := flatten_sep_eq dollar (fs.map Frag.render) (by simpa using h)
  simpa [List.map_map, Function.comp_def] using this

theorem groupText_eq (g : List VNode) (h : g ≠ []) :
    groupText (some g) = joinWith comma (g.map (·.val)) ++ [comma] := by
  unfold groupText
  have := flatten_sep_eq comma (g.map (·.val)) (by simpa using h)
  simpa [List.map_map, Function.comp_def] using this

theorem fragsText_snoc (fs : List Frag) (f : Frag) :
    fragsText (fs ++ [f]) = fragsText fs ++ f.render ++ [dollar] := by
  simp [fragsText]

theorem groupText_snoc (g : Option (List VNode)) (v : VNode) :
    groupText (some (g.getD [] ++ [v])) = groupText g ++ v.val ++ [comma] := by
  cases g <;> simp [groupText]

/-- What the property says about a finished tree `t` for input `s`. -/
structure Final (t : Tree) (s : Bytes) : Prop where
  lossless : ∃ d, (d = [] ∨ d = [dollar] ∨ d = [comma]) ∧ t.render ++ d = s
  spans : ∀ n ∈ t.nodes, NodeOK s n
  groupsNe : ∀ f ∈ t.frags, f.nodes ≠ []

theorem render_group_snoc (g : List VNode) (v : VNode) (h : g ≠ []) :
    (Frag.group (g ++ [v])).render = joinWith comma (g.map (·.val)) ++ comma :: v.val := by
  simp only [Frag.render, List.map_append, List.map_cons, List.map_nil]
  exact joinWith_snoc comma _ _ (by simpa using h)

theorem newNode_ok (pre acc : Bytes) :
    NodeOK (pre ++ acc.reverse) ⟨acc.reverse, pre.length, pre.length + acc.reverse.length⟩ := by
  refine ⟨rfl, by simp, ?_⟩
  simp only [List.drop_left, List.length_reverse]
  rw [← List.length_reverse]; exact List.take_length

/-- Pushing the pending value and flushing, from an invariant state. -/
theorem inv_flush_value {st : PState} {pre : Bytes} (h : Inv st pre) (acc : Bytes) :
    Inv (pushValue st pre.length acc).flush (pre ++ acc.reverse ++ [dollar]) := by
  obtain ⟨hv, ht, hg, hfn, hn, hgn⟩ := h
  have hnew := newNode_ok pre acc
  cases hgr : st.group with
  | none =>
    have e : (pushValue st pre.length acc).flush =
        { st with frags := st.frags ++ [Frag.value ⟨acc.reverse, pre.length, pre.length + acc.reverse.length⟩], value := none } := by
      simp [pushValue, PState.flush, hgr]
    rw [e]
    refine ⟨rfl, ?_, ?_, ?_, ?_, ?_⟩
    · simp only [fragsText_snoc, Frag.render, hgr, groupText]
      rw [ht]; simp [hgr, groupText, List.append_assoc]
    · intro g hg'; simp [hgr] at hg'
    · intro f hf
      simp only [List.mem_append, List.mem_singleton] at hf
      rcases hf with hf | rfl
      · exact hfn f hf
      · simp [Frag.nodes]
    · intro f hf n hnn
      simp only [List.mem_append, List.mem_singleton] at hf
      rcases hf with hf | rfl
      · have := (hn f hf n hnn).mono (acc.reverse ++ [dollar])
        simpa [List.append_assoc] using this
      · simp only [Frag.nodes, List.mem_singleton] at hnn
        subst hnn
        exact hnew.mono [dollar]
    · intro g hg'; simp [hgr] at hg'
  | some g =>
    have hgne := hg g hgr
    have e : (pushValue st pre.length acc).flush =
        { st with frags := st.frags ++ [Frag.group (g ++ [⟨acc.reverse, pre.length, pre.length + acc.reverse.length⟩])],
                  group := none, value := none } := by
      simp [pushValue, PState.flush, hgr]
    rw [e]
    refine ⟨rfl, ?_, ?_, ?_, ?_, ?_⟩
    · simp only [fragsText_snoc, groupText]
      rw [render_group_snoc g _ hgne]
      rw [ht, hgr, groupText_eq g hgne]
      simp [List.append_assoc]
    · intro g' hg'; simp at hg'
    · intro f hf
      simp only [List.mem_append, List.mem_singleton] at hf
      rcases hf with hf | rfl
      · exact hfn f hf
      · simp [Frag.nodes]
    · intro f hf n hnn
      simp only [List.mem_append, List.mem_singleton] at hf
      rcases hf with hf | rfl
      · have := (hn f hf n hnn).mono (acc.reverse ++ [dollar])
        simpa [List.append_assoc] using this
      · simp only [Frag.nodes, List.mem_append, List.mem_singleton] at hnn
        rcases hnn with hnn | rfl
        · have := (hgn g hgr n hnn).mono (acc.reverse ++ [dollar])
          simpa [List.append_assoc] using this
        · exact hnew.mono [dollar]
    · intro g' hg'; simp at hg'

theorem inv_comma {st : PState} {pre : Bytes} (h : Inv st pre) (acc : Bytes) :
    Inv { st with group := some (st.group.getD [] ++ [⟨acc.reverse, pre.length, pre.length + acc.reverse.length⟩]), value := none }
      (pre ++ acc.reverse ++ [comma]) := by
  obtain ⟨hv, ht, hg, hfn, hn, hgn⟩ := h
  have hnew := newNode_ok pre acc
  refine ⟨rfl, ?_, ?_, hfn, ?_, ?_⟩
  · simp only [groupText_snoc]
    rw [ht]; simp [List.append_assoc]
  · intro g hg'; simp at hg'; subst hg'; simp
  · intro f hf n hnn
    have := (hn f hf n hnn).mono (acc.reverse ++ [comma])
    simpa [List.append_assoc] using this
  · intro g' hg' n hnn
    simp only [Option.some.injEq] at hg'
    subst hg'
    simp only [List.mem_append, List.mem_singleton] at hnn
    rcases hnn with hnn | rfl
    · cases hgr : st.group with
      | none => simp [hgr] at hnn
      | some g =>
        simp [hgr] at hnn
        have := (hgn g hgr n hnn).mono (acc.reverse ++ [comma])
        simpa [List.append_assoc] using this
    · exact hnew.mono [comma]

/-- End of input from an invariant state. -/
theorem final_of_inv {st : PState} {pre : Bytes} (h : Inv st pre) (acc : Bytes) (t : Tree)
    (ht : parseToks st (lexFrag [] pre.length acc) = .ok t) : Final t (pre ++ acc.reverse) := by
  rw [parseToks_lexFrag_nil] at ht
  obtain ⟨hv, htx, hg, hfn, hn, hgn⟩ := h
  by_cases hacc : acc = []
  · subst hacc
    simp only [if_true, Result.ok.injEq] at ht
    subst ht
    cases hgr : st.group with
    | none =>
      have e : st.flush = st := by simp [PState.flush, hv, hgr]
      simp only [e, List.reverse_nil, List.append_nil]
      refine ⟨?_, ?_, ?_⟩
      · by_cases hf : st.frags = []
        · exact ⟨[], Or.inl rfl, by simp [Tree.render, hf, joinWith, htx, hgr, groupText, fragsText]⟩
        · refine ⟨[dollar], Or.inr (Or.inl rfl), ?_⟩
          simp [Tree.render, htx, hgr, groupText, fragsText_eq _ hf, List.append_assoc]
      · intro n hnn
        simp only [Tree.nodes, List.mem_flatMap] at hnn
        obtain ⟨f, hf, hnf⟩ := hnn
        exact hn f hf n hnf
      · exact hfn
    | some g =>
      have hgne := hg g hgr
      have e : st.flush = { st with frags := st.frags ++ [Frag.group g], group := none } := by
        simp [PState.flush, hv, hgr]
      simp only [e, List.reverse_nil, List.append_nil]
      refine ⟨?_, ?_, ?_⟩
      · refine ⟨[comma], Or.inr (Or.inr rfl), ?_⟩
        simp only [Tree.render]
        rw [htx, hgr, groupText_eq g hgne]
        by_cases hf : st.frags = []
        · simp [hf, joinWith, fragsText, Frag.render]
        · rw [List.map_append, List.map_cons, List.map_nil, joinWith_snoc _ _ _ (by simpa using hf)]
          simp [fragsText_eq _ hf, Frag.render, List.append_assoc]
      · intro n hnn
        simp only [Tree.nodes, List.mem_flatMap, List.mem_append, List.mem_singleton] at hnn
        obtain ⟨f, hf | rfl, hnf⟩ := hnn
        · exact hn f hf n hnf
        · exact hgn g hgr n hnf
      · intro f hf
        simp only [List.mem_append, List.mem_singleton] at hf
        rcases hf with hf | rfl
        · exact hfn f hf
        · simpa [Frag.nodes] using hgne
  · simp only [hacc, if_false, Result.ok.injEq] at ht
    subst ht
    have hnew := newNode_ok pre acc
    cases hgr : st.group with
    | none =>
      have e : (pushValue st pre.length acc).flush =
          { st with frags := st.frags ++ [Frag.value ⟨acc.reverse, pre.length, pre.length + acc.reverse.length⟩], value := none } := by
        simp [pushValue, PState.flush, hgr]
      simp only [e]
      refine ⟨?_, ?_, ?_⟩
      · refine ⟨[], Or.inl rfl, ?_⟩
        simp only [Tree.render, List.append_nil]
        rw [htx, hgr]
        by_cases hf : st.frags = []
        · simp [hf, joinWith, fragsText, groupText, Frag.render]
        · rw [List.map_append, List.map_cons, List.map_nil, joinWith_snoc _ _ _ (by simpa using hf)]
          simp [fragsText_eq _ hf, groupText, Frag.render, List.append_assoc]
      · intro n hnn
        simp only [Tree.nodes, List.mem_flatMap, List.mem_append, List.mem_singleton] at hnn
        obtain ⟨f, hf | rfl, hnf⟩ := hnn
        · exact (hn f hf n hnf).mono _
        · simp only [Frag.nodes, List.mem_singleton] at hnf
          subst hnf; exact hnew
      · intro f hf
        simp only [List.mem_append, List.mem_singleton] at hf
        rcases hf with hf | rfl
        · exact hfn f hf
        · simp [Frag.nodes]
    | some g =>
      have hgne := hg g hgr
      have e : (pushValue st pre.length acc).flush =
          { st with frags := st.frags ++ [Frag.group (g ++ [⟨acc.reverse, pre.length, pre.length + acc.reverse.length⟩])],
                    group := none, value := none } := by
        simp [pushValue, PState.flush, hgr]
      simp only [e]
      refine ⟨?_, ?_, ?_⟩
      · refine ⟨[], Or.inl rfl, ?_⟩
        simp only [Tree.render, List.append_nil]
        rw [htx, hgr, groupText_eq g hgne]
        by_cases hf : st.frags = []
        · simp [hf, joinWith, fragsText, render_group_snoc g _ hgne]
        · rw [List.map_append, List.map_cons, List.map_nil, joinWith_snoc _ _ _ (by simpa using hf)]
          simp [fragsText_eq _ hf, render_group_snoc g _ hgne, List.append_assoc]
      · intro n hnn
        simp only [Tree.nodes, List.mem_flatMap, List.mem_append, List.mem_singleton] at hnn
        obtain ⟨f, hf | rfl, hnf⟩ := hnn
        · exact (hn f hf n hnf).mono _
        · simp only [Frag.nodes, List.mem_append, List.mem_singleton] at hnf
          rcases hnf with hnf | rfl
          · exact (hgn g hgr n hnf).mono _
          · exact hnew
      · intro f hf
        simp only [List.mem_append, List.mem_singleton] at hf
        rcases hf with hf | rfl
        · exact hfn f hf
        · simp [Frag.nodes]

/-- The fragment loop, from any invariant state, ends in `.ok` of a tree that accounts for the input. -/
theorem frag_loop (rest : Bytes) : ∀ (st : PState) (pre acc : Bytes), Inv st pre →
    ∃ t, parseToks st (lexFrag rest pre.length acc) = .ok t ∧ Final t (pre ++ acc.reverse ++ rest) := by
  induction rest with
  | nil =>
    intro st pre acc h
    have hex : ∃ t, parseToks st (lexFrag [] pre.length acc) = .ok t := by
      rw [parseToks_lexFrag_nil]; by_cases hacc : acc = [] <;> simp [hacc]
    obtain ⟨t, ht⟩ := hex
    exact ⟨t, ht, by simpa using final_of_inv h acc t ht⟩
  | cons c cs ih =>
    intro st pre acc h
    by_cases h1 : c = dollar
    · subst h1
      rw [parseToks_lexFrag_dollar]
      have hi := inv_flush_value h acc
      obtain ⟨t, ht, hf⟩ := ih _ (pre ++ acc.reverse ++ [dollar]) [] hi
      refine ⟨t, ?_, ?_⟩
      · simpa [Nat.add_assoc] using ht
      · simpa [List.append_assoc] using hf
    · by_cases h2 : c = comma
      · subst h2
        rw [parseToks_lexFrag_comma]
        have hi := inv_comma h acc
        obtain ⟨t, ht, hf⟩ := ih _ (pre ++ acc.reverse ++ [comma]) [] hi
        refine ⟨t, ?_, ?_⟩
        · simpa [Nat.add_assoc] using ht
        · simpa [List.append_assoc] using hf
      · rw [parseToks_lexFrag_other _ _ _ _ _ h1 h2]
        obtain ⟨t, ht, hf⟩ := ih st pre (c :: acc) h
        exact ⟨t, ht, by simpa [List.append_assoc] using hf⟩

end GoCrypt.Parse

namespace GoCrypt.Parse
open Bytes

/-! ## `indexDelim` (strings.IndexAny(s, "$,")) -/

theorem indexDelim_none_iff (s : Bytes) : indexDelim s = none ↔ ∀ c ∈ s, c ≠ dollar ∧ c ≠ comma := by
  induction s with
  | nil => simp [indexDelim]
  | cons c cs ih =>
    unfold indexDelim
    by_cases h : c = dollar ∨ c = comma
    · simp [h]
      intro h1 h2; rcases h with h | h <;> simp_all
    · simp only [h, if_false, Option.map_eq_none_iff, ih]
      simp only [not_or] at h
      simp [h]

theorem indexDelim_zero_iff (s : Bytes) :
    indexDelim s = some 0 ↔ ∃ d tl, s = d :: tl ∧ (d = dollar ∨ d = comma) := by
  cases s with
  | nil => simp [indexDelim]
  | cons c cs =>
    unfold indexDelim
    by_cases h : c = dollar ∨ c = comma
    · simp [h]
    · simp only [h, if_false]
      constructor
      · intro h'
        cases hi : indexDelim cs <;> simp [hi] at h'
      · rintro ⟨d, tl, he, hd⟩
        simp only [List.cons.injEq] at he
        exact absurd (he.1 ▸ hd) h

theorem indexDelim_lt (s : Bytes) (i : Nat) (h : indexDelim s = some i) : i < s.length := by
  induction s generalizing i with
  | nil => simp [indexDelim] at h
  | cons c cs ih =>
    unfold indexDelim at h
    by_cases hc : c = dollar ∨ c = comma
    · simp [hc] at h; subst h; simp
    · simp only [hc, if_false] at h
      cases hi : indexDelim cs with
      | none => simp [hi] at h
      | some j =>
        simp [hi] at h; subst h
        have := ih j hi
        simp; omega

theorem inv_init : Inv ({} : PState) [] where
  noValue := rfl
  text := by simp [fragsText, groupText]
  groupNe := by intro g h; cases h
  fragsNe := by intro f hf; cases hf
  nodes := by intro f hf; cases hf
  gnodes := by intro g h; cases h

theorem inv_prefix (p : Bytes) : Inv ({ pfx := some p } : PState) p where
  noValue := rfl
  text := by simp [fragsText, groupText]
  groupNe := by intro g h; cases h
  fragsNe := by intro f hf; cases hf
  nodes := by intro f hf; cases hf
  gnodes := by intro g h; cases h

/-- Outcome of `parse` by cases on the shape of the input. -/
theorem parse_cases (s : Bytes) :
    (∃ rest, s = dollar :: rest ∧ indexDelim rest = none ∧ parse s = .err s.length 2) ∨
    (∃ rest, s = dollar :: rest ∧ indexDelim rest = some 0 ∧ parse s = .err 1 1) ∨
    (∃ t, parse s = .ok t ∧ Final t s) := by
  unfold parse tokens
  cases s with
  | nil =>
    right; right
    have := frag_loop [] {} [] [] inv_init
    simpa using this
  | cons c rest =>
    by_cases hc : c = dollar
    · subst hc
      simp only [if_true]
      cases hi : indexDelim rest with
      | none => left; exact ⟨rest, rfl, hi, by simp [parseToks]⟩
      | some i =>
        cases i with
        | zero => right; left; exact ⟨rest, rfl, hi, by simp [parseToks]⟩
        | succ i =>
          right; right
          have hlt := indexDelim_lt rest _ hi
          simp only [parseToks]
          have hlen : ((dollar :: rest).take (i + 3)).length = i + 3 := by
            simp [List.length_take]; omega
          have := frag_loop ((dollar :: rest).drop (i + 3)) { pfx := some ((dollar :: rest).take (i + 3)) }
            ((dollar :: rest).take (i + 3)) [] (inv_prefix _)
          rw [hlen] at this
          simpa using this
    · by_cases hu : c = underscore
      · subst hu
        have hne : underscore ≠ dollar := by decide
        simp only [hne, if_false, if_true, parseToks]
        right; right
        have := frag_loop rest { pfx := some [underscore] } [underscore] [] (inv_prefix _)
        simpa using this
      · simp only [hc, hu, if_false]
        right; right
        have := frag_loop (c :: rest) {} [] [] inv_init
        simpa using this

end GoCrypt.Parse

namespace GoCrypt.Parse
open Bytes

/-! ## The prefix survives the fragment loop -/

theorem flush_pfx (st : PState) : st.flush.pfx = st.pfx := by
  unfold PState.flush
  cases st.value <;> cases st.group <;> rfl

theorem frag_loop_pfx (rest : Bytes) : ∀ (st : PState) (start : Nat) (acc : Bytes) (t : Tree),
    parseToks st (lexFrag rest start acc) = .ok t → t.pfx = st.pfx := by
  induction rest with
  | nil =>
    intro st start acc t h
    rw [parseToks_lexFrag_nil] at h
    by_cases hacc : acc = []
    · simp only [hacc, if_true, Result.ok.injEq] at h
      subst h; exact flush_pfx st
    · simp only [hacc, if_false, Result.ok.injEq] at h
      subst h; rw [flush_pfx]; rfl
  | cons c cs ih =>
    intro st start acc t h
    by_cases h1 : c = dollar
    · subst h1
      rw [parseToks_lexFrag_dollar] at h
      have := ih _ _ _ _ h
      rw [this, flush_pfx]; rfl
    · by_cases h2 : c = comma
      · subst h2
        rw [parseToks_lexFrag_comma] at h
        have := ih _ _ _ _ h
        simpa using this
      · rw [parseToks_lexFrag_other _ _ _ _ _ h1 h2] at h
        exact ih _ _ _ _ h

end GoCrypt.Parse
