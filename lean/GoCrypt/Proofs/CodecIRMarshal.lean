import GoCrypt.Proofs.CodecIRIsEmpty

/-!
# Codec IR: `marshal` = the model's `marshalRaw`

Helper lemmas only.
-/

namespace GoCrypt.CIR
open GoCrypt.Codec GoCrypt.Gen.codecIR
open GoCrypt.TIIR (RType Res kindNum fiType fiObj encVal optsVals)

/-- What a run of `marshal` / `marshalValue` must look like, given the model's answer. -/
def MPost (m : Mem) (r : Except MErr Bytes) (res : Res (Mem × List Val)) : Prop :=
  match r with
  | .ok s => res = .ok (m, [.str s, .nil])
  | .error e => ∃ n fs, res = .ok (m, [.str [], .recd n fs]) ∧ absErr m.heap (.recd n fs) = some e

/-! ## Reading a `fieldInfo` record -/

section fi
variable (m : Mem) (a : Nat) (fi : FieldInfo) (h : m.heap[a]? = some (fiObj fi))
include h
theorem fi_index : fieldOf m (.ptr a) 0 = .ok (.ints (fi.index.map Int.ofNat)) := by simp [fieldOf, h, fiObj, ofTI]
theorem fi_name : fieldOf m (.ptr a) 1 = .ok (.name fi.name) := by simp [fieldOf, h, fiObj, ofTI]
theorem fi_type : fieldOf m (.ptr a) 2 = .ok (.rtype (fiType fi)) := by simp [fieldOf, h, fiObj, ofTI]
theorem fi_prefix : fieldOf m (.ptr a) 3 = .ok (.bool fi.opts.isPrefix) := by simp [fieldOf, h, fiObj, optsVals, ofTI]
theorem fi_omitEmpty : fieldOf m (.ptr a) 4 = .ok (.bool fi.opts.omitEmpty) := by simp [fieldOf, h, fiObj, optsVals, ofTI]
theorem fi_group : fieldOf m (.ptr a) 5 = .ok (.bool fi.opts.group) := by simp [fieldOf, h, fiObj, optsVals, ofTI]
theorem fi_param : fieldOf m (.ptr a) 6 = .ok (.str fi.opts.param) := by simp [fieldOf, h, fiObj, optsVals, ofTI]
theorem fi_enc : fieldOf m (.ptr a) 7 = .ok (ofTI (encVal fi.opts.enc)) := by simp [fieldOf, h, fiObj, optsVals]
theorem fi_length : fieldOf m (.ptr a) 8 = .ok (.int fi.opts.length) := by simp [fieldOf, h, fiObj, optsVals, ofTI]
theorem fi_hasLength : fieldOf m (.ptr a) 9 = .ok (.bool fi.opts.hasLength) := by simp [fieldOf, h, fiObj, optsVals, ofTI]
theorem fi_inline : fieldOf m (.ptr a) 10 = .ok (.bool fi.opts.inline) := by simp [fieldOf, h, fiObj, optsVals, ofTI]
theorem fi_base : fieldOf m (.ptr a) 11 = .ok (.int fi.opts.base) := by simp [fieldOf, h, fiObj, optsVals, ofTI]
end fi

theorem marshal_eq (c : Ctx) (m : Mem) (t fi v : Val) :
    execProc c marshalIR m [t, fi, v] =
      procResult (exec c marshalIR.body m [t, fi, v, .undef, .undef, .undef, .undef, .undef, .undef, .undef]) := by
  rw [execProc_eq _ _ _ _ (by rfl)]; rfl

theorem typeImplements_m (c : Ctx) (t : RType) (hd : t.depth = 0) :
    ext2 c .typeImplements (.rtype t) (.global "textMarshalerType") = .ok (.bool (decide (t.mt ≠ .none))) := by
  simp [ext2, hd]

theorem typeElem_arr (t : RType) (n : Nat) (hd : t.depth = 0) (hk : t.kind = .byteArray n) :
    ext1 .typeElem (.rtype t) = .ok (.rtype TIIR.uint8Type) := by
  simp [ext1, hd, hk, TIIR.elemOf]
theorem typeElem_bytes (t : RType) (hd : t.depth = 0) (hk : t.kind = .bytes) :
    ext1 .typeElem (.rtype t) = .ok (.rtype TIIR.uint8Type) := by
  simp [ext1, hd, hk, TIIR.elemOf]
theorem typeElem_other (t : RType) (d : String) (hd : t.depth = 0) (hk : t.kind = .other d) :
    ext1 .typeElem (.rtype t) = .ok (.rtype ⟨0, .other "element", "", .none, .none⟩) := by
  simp [ext1, hd, hk]
theorem kindNum_uint8 : kindNum TIIR.uint8Type = 8 := by decide
theorem kindNum_otherElem : kindNum ⟨0, .other "element", "", .none, .none⟩ = 0 := by decide

theorem valBytes_bytes (t : RType) (b : Bytes) (ro : Bool) (hd : t.depth = 0) (hk : t.kind = .bytes) :
    ext1 .valBytes (.rv t (.bytes b) ro) = .ok (.bytes b) := by simp [ext1, hd, hk]

theorem makeBytes_nat (n : Nat) : ext1 .makeBytes (.int (n : Int)) = .ok (.bytes (List.replicate n 0)) := by
  have : ¬ ((n : Int) < 0) := by omega
  simp [ext1, this]

theorem copyBytes_replicate (b : Bytes) : copyBytes (List.replicate b.length 0) b = b := by
  simp [copyBytes]

theorem formatInt_ok (c : Ctx) (v : Int) (base : Nat) (h : 2 ≤ base ∧ base ≤ 36) :
    ext2 c .formatInt (.int v) (.int base) = .ok (.str (Strconv.formatInt v base)) := by
  have : (2 : Int) ≤ base ∧ (base : Int) ≤ 36 := by omega
  simp [ext2, this]
theorem formatUint_ok (c : Ctx) (v : Nat) (base : Nat) (h : 2 ≤ base ∧ base ≤ 36) :
    ext2 c .formatUint (.int v) (.int base) = .ok (.str (Strconv.formatUint v base)) := by
  have : (2 : Int) ≤ base ∧ (base : Int) ≤ 36 ∧ (0 : Int) ≤ v := by omega
  simp [ext2, this]

theorem extN_marshalText (c : Ctx) (t : RType) (g : GVal) (ro : Bool) :
    extN c .marshalText [.rv t g ro] =
      (match c.marshalText t.mt g with
       | some (.ok b) => .ok [.bytes b, .nil]
       | some (.error d) => .ok [.bytes [], .textErr d]
       | none => .stuck "MarshalText on a value its class does not describe") := rfl

/-- `marshal` on the invalid `Value` (a nil pointer was followed). -/
theorem marshal_invalid (c : Ctx) (m : Mem) (t fi : Val) :
    execProc c marshalIR m [t, fi, .rvInvalid] = .ok (m, [.str [], .nil]) := by
  rw [marshal_eq]
  simp only [marshalIR]
  ci_simp

end GoCrypt.CIR

namespace GoCrypt.CIR
open GoCrypt.Codec GoCrypt.Gen.codecIR
open GoCrypt.TIIR (RType Res kindNum fiType fiObj encVal optsVals)

@[simp] theorem absErr_unsupportedType (heap : TIIR.Heap) (x y : Val) (n : String) :
    absErr heap (.recd "UnsupportedTypeError" [x, y, .name n]) = some (.unsupportedType n) := by
  simp [absErr]

@[simp] theorem absErr_unsupportedValue (heap : TIIR.Heap) (x y msg : Val) (n : String) :
    absErr heap (.recd "UnsupportedValueError" [x, y, .name n, msg]) = (msgClass msg).map (.unsupportedValue n) := by
  simp [absErr]

section marshal
variable (c : Ctx) (m : Mem) (t t0 : RType) (a : Nat) (fi : FieldInfo)
  (h : m.heap[a]? = some (fiObj fi)) (hd : t0.depth = 0) (hk0 : t0.kind = fi.kind) (hm0 : t0.mt = fi.marshalText)
include h hd hk0 hm0

theorem marshal_none_str (s : Bytes) (hmt : fi.marshalText = .none) (hk : fi.kind = .string) :
    MPost m (marshalRaw fi (.str s)) (execProc c marshalIR m [.rtype t, .ptr a, .rv t0 (.str s) false]) := by
  rw [marshal_eq]
  simp only [marshalIR]
  have hk' : t0.kind = .string := by rw [hk0, hk]
  have hmt' : t0.mt = .none := by rw [hm0, hmt]
  have hkn : kindNum t0 = 24 := by simp [kindNum, hk', hd]
  cases hpx : fi.opts.isPrefix <;>
    ci_simp [typeImplements_m c _ hd, hmt', valKindNum_plain _ _ hd (by simp [hk']), hkn, fi_prefix m a fi h, hpx,
      valString_str _ s false hd] <;>
    simp [MPost, marshalRaw, hmt, hk, hpx] <;>
    (try exact ⟨_, _, ⟨rfl, rfl⟩, absErr_unsupportedType _ _ _ _⟩)

theorem marshal_none_bytes (b : Bytes) (hmt : fi.marshalText = .none) (hk : fi.kind = .bytes) :
    MPost m (marshalRaw fi (.bytes b)) (execProc c marshalIR m [.rtype t, .ptr a, .rv t0 (.bytes b) false]) := by
  rw [marshal_eq]
  simp only [marshalIR]
  have hk' : t0.kind = .bytes := by rw [hk0, hk]
  have hmt' : t0.mt = .none := by rw [hm0, hmt]
  have hkn : kindNum t0 = 23 := by simp [kindNum, hk', hd]
  cases hpx : fi.opts.isPrefix <;>
    ci_simp [typeImplements_m c _ hd, hmt', valKindNum_plain _ _ hd (by simp [hk']), hkn, fi_prefix m a fi h, hpx,
      fi_name m a fi h, fi_type m a fi h, typeElem_bytes t0 hd hk', kindNum_uint8, valBytes_bytes t0 b false hd hk'] <;>
    simp [MPost, marshalRaw, hmt, hk, hpx] <;>
    (try exact ⟨_, _, ⟨rfl, rfl⟩, absErr_unsupportedType _ _ _ _⟩)

theorem marshal_none_arr (b : Bytes) (n : Nat) (hmt : fi.marshalText = .none) (hk : fi.kind = .byteArray n) :
    MPost m (marshalRaw fi (.bytes b)) (execProc c marshalIR m [.rtype t, .ptr a, .rv t0 (.bytes b) false]) := by
  rw [marshal_eq]
  simp only [marshalIR]
  have hk' : t0.kind = .byteArray n := by rw [hk0, hk]
  have hmt' : t0.mt = .none := by rw [hm0, hmt]
  have hkn : kindNum t0 = 17 := by simp [kindNum, hk', hd]
  cases hpx : fi.opts.isPrefix <;>
    ci_simp [typeImplements_m c _ hd, hmt', valKindNum_plain _ _ hd (by simp [hk']), hkn, fi_prefix m a fi h, hpx,
      fi_name m a fi h, fi_type m a fi h, typeElem_arr t0 n hd hk', kindNum_uint8, valLen_bytes t0 b false hd,
      makeBytes_nat, hk', hd, copyBytes_replicate] <;>
    simp [MPost, marshalRaw, hmt, hk, hpx] <;>
    (try exact ⟨_, _, ⟨rfl, rfl⟩, absErr_unsupportedType _ _ _ _⟩)

theorem marshal_none_int (v : Int) (bits : Nat) (hbase : 2 ≤ fi.opts.base ∧ fi.opts.base ≤ 36)
    (hmt : fi.marshalText = .none) (hk : fi.kind = .int bits) :
    MPost m (marshalRaw fi (.int v)) (execProc c marshalIR m [.rtype t, .ptr a, .rv t0 (.int v) false]) := by
  rw [marshal_eq]
  simp only [marshalIR]
  have hk' : t0.kind = .int bits := by rw [hk0, hk]
  have hmt' : t0.mt = .none := by rw [hm0, hmt]
  cases hpx : fi.opts.isPrefix <;> rcases kindNum_int t0 bits hd hk' with hkn | hkn | hkn | hkn | hkn <;>
    ci_simp [typeImplements_m c _ hd, hmt', valKindNum_plain _ _ hd (by simp [hk']), hkn, fi_prefix m a fi h, hpx,
      fi_name m a fi h, fi_type m a fi h, fi_base m a fi h, valInt_int t0 v false hd, formatInt_ok c v _ hbase] <;>
    simp [MPost, marshalRaw, hmt, hk, hpx] <;>
    (try exact ⟨_, _, ⟨rfl, rfl⟩, absErr_unsupportedType _ _ _ _⟩)

theorem marshal_none_uint (v : Nat) (bits : Nat) (hbase : 2 ≤ fi.opts.base ∧ fi.opts.base ≤ 36)
    (hmt : fi.marshalText = .none) (hk : fi.kind = .uint bits) :
    MPost m (marshalRaw fi (.uint v)) (execProc c marshalIR m [.rtype t, .ptr a, .rv t0 (.uint v) false]) := by
  rw [marshal_eq]
  simp only [marshalIR]
  have hk' : t0.kind = .uint bits := by rw [hk0, hk]
  have hmt' : t0.mt = .none := by rw [hm0, hmt]
  cases hpx : fi.opts.isPrefix <;> rcases kindNum_uint t0 bits hd hk' with hkn | hkn | hkn | hkn | hkn <;>
    ci_simp [typeImplements_m c _ hd, hmt', valKindNum_plain _ _ hd (by simp [hk']), hkn, fi_prefix m a fi h, hpx,
      fi_name m a fi h, fi_type m a fi h, fi_base m a fi h, valUint_uint t0 v false hd, formatUint_ok c v _ hbase] <;>
    simp [MPost, marshalRaw, hmt, hk, hpx] <;>
    (try exact ⟨_, _, ⟨rfl, rfl⟩, absErr_unsupportedType _ _ _ _⟩)

theorem marshal_none_struct (fs : List GVal) (n : String) (hmt : fi.marshalText = .none) (hk : fi.kind = .structRef n) :
    MPost m (marshalRaw fi .other) (execProc c marshalIR m [.rtype t, .ptr a, .rv t0 (.struct fs) false]) := by
  rw [marshal_eq]
  simp only [marshalIR]
  have hk' : t0.kind = .structRef n := by rw [hk0, hk]
  have hmt' : t0.mt = .none := by rw [hm0, hmt]
  have hkn : kindNum t0 = 25 := by simp [kindNum, hk', hd]
  cases hpx : fi.opts.isPrefix <;>
    ci_simp [typeImplements_m c _ hd, hmt', valKindNum_plain _ _ hd (by simp [hk']), hkn, fi_prefix m a fi h, hpx,
      fi_name m a fi h, fi_type m a fi h] <;>
    simp [MPost, marshalRaw, hmt, hk, hpx] <;>
    (try exact ⟨_, _, ⟨rfl, rfl⟩, absErr_unsupportedType _ _ _ _⟩)

theorem marshal_none_other (k n : Nat) (d : String) (hok : okOtherKind k = true)
    (hmt : fi.marshalText = .none) (hk : fi.kind = .other d) :
    MPost m (marshalRaw fi .other) (execProc c marshalIR m [.rtype t, .ptr a, .rv t0 (.other k n) false]) := by
  rw [marshal_eq]
  simp only [marshalIR]
  have hk' : t0.kind = .other d := by rw [hk0, hk]
  have hmt' : t0.mt = .none := by rw [hm0, hmt]
  have hkn := valKindNum_other t0 k n d hd hk'
  simp [okOtherKind] at hok
  obtain ⟨h2, h3, h4, h5, h6, h7, h8, h9, h10, h11, h20, h22, h24⟩ := hok
  by_cases h17 : k = 17
  · subst h17
    cases hpx : fi.opts.isPrefix <;>
      ci_simp [typeImplements_m c _ hd, hmt', hkn, fi_prefix m a fi h, hpx,
        fi_name m a fi h, fi_type m a fi h, typeElem_other t0 d hd hk', kindNum_otherElem] <;>
      simp [MPost, marshalRaw, hmt, hk, hpx] <;>
    (try exact ⟨_, _, ⟨rfl, rfl⟩, absErr_unsupportedType _ _ _ _⟩)
  by_cases h23 : k = 23
  · subst h23
    cases hpx : fi.opts.isPrefix <;>
      ci_simp [typeImplements_m c _ hd, hmt', hkn, fi_prefix m a fi h, hpx,
        fi_name m a fi h, fi_type m a fi h, typeElem_other t0 d hd hk', kindNum_otherElem] <;>
      simp [MPost, marshalRaw, hmt, hk, hpx] <;>
    (try exact ⟨_, _, ⟨rfl, rfl⟩, absErr_unsupportedType _ _ _ _⟩)
  cases hpx : fi.opts.isPrefix <;>
    ci_simp [typeImplements_m c _ hd, hmt', hkn, fi_prefix m a fi h, hpx,
      fi_name m a fi h, fi_type m a fi h, h2, h3, h4, h5, h6, h7, h8, h9, h10, h11, h17, h23, h24] <;>
    simp [MPost, marshalRaw, hmt, hk, hpx] <;>
    (try exact ⟨_, _, ⟨rfl, rfl⟩, absErr_unsupportedType _ _ _ _⟩)

end marshal
end GoCrypt.CIR

namespace GoCrypt.CIR
open GoCrypt.Codec GoCrypt.Gen.codecIR
open GoCrypt.TIIR (RType Res kindNum fiType fiObj encVal optsVals)

section marshalText
variable (c : Ctx) (m : Mem) (t t0 : RType) (a : Nat) (fi : FieldInfo)
  (h : m.heap[a]? = some (fiObj fi)) (hd : t0.depth = 0) (hm0 : t0.mt = fi.marshalText)
include h hd hm0

/-- A text marshaler that succeeds with `s`. -/
theorem marshal_text_ok (g0 : GVal) (s : Bytes) (hne : fi.marshalText ≠ .none)
    (hcm : c.marshalText fi.marshalText g0 = some (.ok s)) :
    execProc c marshalIR m [.rtype t, .ptr a, .rv t0 g0 false] = .ok (m, [.str s, .nil]) := by
  rw [marshal_eq]
  simp only [marshalIR]
  have himpl : decide (t0.mt ≠ .none) = true := by rw [hm0]; simpa using hne
  rw [← hm0] at hcm
  ci_simp [typeImplements_m c _ hd, himpl, extN_marshalText, hcm]

/-- A text marshaler that fails with the text `d`. -/
theorem marshal_text_err (g0 : GVal) (d : String) (hne : fi.marshalText ≠ .none)
    (hcm : c.marshalText fi.marshalText g0 = some (.error d)) :
    ∃ n fs, execProc c marshalIR m [.rtype t, .ptr a, .rv t0 g0 false] = .ok (m, [.str [], .recd n fs]) ∧
      absErr m.heap (.recd n fs) = some (.unsupportedValue fi.name (.text d)) := by
  rw [marshal_eq]
  simp only [marshalIR]
  have himpl : decide (t0.mt ≠ .none) = true := by rw [hm0]; simpa using hne
  rw [← hm0] at hcm
  ci_simp [typeImplements_m c _ hd, himpl, extN_marshalText, hcm, fi_name m a fi h]
  exact ⟨_, _, rfl, by simp [msgClass]⟩

end marshalText

/-- `marshal` = `marshalRaw` on a dereferenced field value. -/
theorem marshal_spec (c : Ctx) (hmts : MarshalTextSpec c.marshalText) (m : Mem) (t t0 : RType) (a : Nat) (fi : FieldInfo)
    (fv : FVal) (g0 : GVal) (h : m.heap[a]? = some (fiObj fi)) (hd : t0.depth = 0) (hk0 : t0.kind = fi.kind)
    (hm0 : t0.mt = fi.marshalText) (hbase : 2 ≤ fi.opts.base ∧ fi.opts.base ≤ 36)
    (hv : RepV0 fi fv g0) (hc : mtCompat fi.marshalText fv) :
    MPost m (marshalRaw fi fv) (execProc c marshalIR m [.rtype t, .ptr a, .rv t0 g0 false]) := by
  cases hmt : fi.marshalText with
  | none =>
    cases hv with
    | str s hk => exact marshal_none_str c m t t0 a fi h hd hk0 hm0 s hmt hk
    | bytes b hk => exact marshal_none_bytes c m t t0 a fi h hd hk0 hm0 b hmt hk
    | arr b n hk hl => exact marshal_none_arr c m t t0 a fi h hd hk0 hm0 b n hmt hk
    | int v bits hk => exact marshal_none_int c m t t0 a fi h hd hk0 hm0 v bits hbase hmt hk
    | uint v bits hk => exact marshal_none_uint c m t t0 a fi h hd hk0 hm0 v bits hbase hmt hk
    | strct fs n hk => exact marshal_none_struct c m t t0 a fi h hd hk0 hm0 fs n hmt hk
    | other k n d hk hok _ => exact marshal_none_other c m t t0 a fi h hd hk0 hm0 k n d hok hmt hk
  | whitelist l =>
    rw [hmt] at hc
    cases hv <;> simp only [mtCompat] at hc
    case str s hk =>
      have := marshal_text_ok c m t t0 a fi h hd hm0 (.str s) s (by simp [hmt]) (by rw [hmt]; exact hmts.whitelist l s)
      simp [MPost, marshalRaw, hmt, this]
  | desInt =>
    rw [hmt] at hc
    cases hv <;> simp only [mtCompat] at hc
    case uint v bits hk =>
      have := marshal_text_ok c m t t0 a fi h hd hm0 (.uint v) _ (by simp [hmt]) (by rw [hmt]; exact hmts.desInt v)
      simp [MPost, marshalRaw, hmt, this]
  | twoDigit =>
    rw [hmt] at hc
    cases hv <;> simp only [mtCompat] at hc
    case uint v bits hk =>
      have := marshal_text_ok c m t t0 a fi h hd hm0 (.uint v) _ (by simp [hmt]) (by rw [hmt]; exact hmts.twoDigit v)
      simp [MPost, marshalRaw, hmt, this]
  | «opaque» d =>
    have hres := marshal_text_err c m t t0 a fi h hd hm0 g0 d (by simp [hmt]) (by rw [hmt]; exact hmts.opaque_ d g0)
    cases hv <;> simpa [MPost, marshalRaw, hmt] using hres

/-- What `c.call 2` must do (it is `marshal`). -/
def MarshalSpec (c : Ctx) : Prop :=
  (∀ (m : Mem) (t t0 : RType) (a : Nat) (fi : FieldInfo) (fv : FVal) (g0 : GVal),
    m.heap[a]? = some (fiObj fi) → t0.depth = 0 → t0.kind = fi.kind → t0.mt = fi.marshalText →
    (2 ≤ fi.opts.base ∧ fi.opts.base ≤ 36) → RepV0 fi fv g0 → mtCompat fi.marshalText fv →
    MPost m (marshalRaw fi fv) (c.call 2 m [.rtype t, .ptr a, .rv t0 g0 false])) ∧
  (∀ (m : Mem) (t fi : Val), c.call 2 m [t, fi, .rvInvalid] = .ok (m, [.str [], .nil]))

end GoCrypt.CIR
