import Lean

/-! The simp set `a2ir`: the rules that run a block-IR program symbolically (see `Proofs/A2IRBase.lean`). -/

register_simp_attr a2ir
