import GoCrypt.Proofs.CodecL2Round
import GoCrypt.Proofs.AcceptRespell

/-!
# C20, general form, layers L1–L2: every accepted string is a tolerated respelling

For an ARBITRARY struct type made of an optional string prefix and required stand-alone fields
(positional or `param:name`, not inline, no text codec), `accepted_respell`:

  `acceptOk ti → unmarshal ti h = .ok out → respell ti (finalVals ti out) h = true`.

`acceptOk` adds to the layer restriction two conditions on `length:` that the round-trip direction does
not need (there they follow from `marshal … = .ok s`):

* an integer field carries no `length:` option — otherwise `Unmarshal` accepts leading zeros
  (`"007"` into `uint8 length:3`) for a value (`7`) that `Marshal` refuses to write ("length mismatch");
* a `[n]byte` field has length `n` (a smaller `length:` option makes every value unmarshalled
  unwritable), and the prefix carries no `length:` option.

Both are genuine: counterexamples `C20General.needs_intNoLength`, `needs_arrayLength`.
-/

namespace GoCrypt.Codec
open Bytes GoCrypt.Parse Layers GoCrypt.Respell GoCrypt.CodecDomain GoCrypt.RefParse GoCrypt.Accept

namespace Accepts

/-! ## Hypotheses -/

def lenOk (f : FieldInfo) : Bool :=
  match f.kind with
  | .byteArray n => f.opts.hasLength && f.opts.length == n
  | .uint _ => !f.opts.hasLength
  | .int bits => !f.opts.hasLength && decide (1 ≤ bits)
  | _ => true

/-- A required stand-alone field, not inline, no text codec, of a supported kind, with a consistent
`length:` option. -/
def fieldOk (f : FieldInfo) : Bool :=
  !f.opts.omitEmpty && !f.opts.group && !f.opts.inline && !f.opts.isPrefix &&
  f.marshalText == .none && f.unmarshalText == .none && baseOk f && kindOk f && lenOk f

def acceptOk (ti : TypeInfo) : Bool :=
  ti.fields.all fieldOk &&
  (match ti.hashPrefix with | some hp => L1.prefixField hp && !hp.opts.hasLength | none => true) &&
  decide ((ti.hashPrefix.toList ++ ti.fields).map (·.index)).Nodup

/-! ## One field: what was read is what Marshal writes back, up to respelling -/

theorem fieldText_plain_inv (fi : FieldInfo) (k : String) (e : Nat) (s0 s rem : Bytes)
    (hinl : fi.opts.inline = false) (h : fieldText fi k e s0 = .ok (s, rem)) :
    s = bodyOf fi s0 ∧ rem = [] ∧ (fi.opts.hasLength = true → s.length = fi.opts.length) ∧
      firstInvalid fi.opts.enc s = none := by
  unfold bodyOf
  generalize hb : (if fi.opts.param ≠ [] ∧ (fi.opts.param ++ [equals]).isPrefixOf s0 = true
    then s0.drop (fi.opts.param ++ [equals]).length else s0) = b
  unfold fieldText at h
  simp only [hb, hinl, Bool.false_eq_true, if_false, bind, Except.bind, pure, Except.pure] at h
  by_cases hl : fi.opts.hasLength = true
  · by_cases hlen : b.length = fi.opts.length
    · simp only [hl, if_true, hlen, ne_eq, not_true_eq_false, if_false] at h
      cases hfi : firstInvalid fi.opts.enc b with
      | some c => simp [hfi, throw, throwThe, MonadExceptOf.throw] at h
      | none =>
        simp only [hfi, Except.ok.injEq, Prod.mk.injEq] at h
        obtain ⟨rfl, rfl⟩ := h
        exact ⟨rfl, rfl, fun _ => hlen, hfi⟩
    · simp [hl, hlen, throw, throwThe, MonadExceptOf.throw] at h
  · simp only [hl, Bool.false_eq_true, if_false] at h
    cases hfi : firstInvalid fi.opts.enc b with
    | some c => simp [hfi, throw, throwThe, MonadExceptOf.throw] at h
    | none =>
      simp only [hfi, Except.ok.injEq, Prod.mk.injEq] at h
      obtain ⟨rfl, rfl⟩ := h
      exact ⟨rfl, rfl, fun h' => absurd h' hl, hfi⟩

theorem digitChar_alpha : ∀ d, d < 36 →
    Strconv.digitChar d ∈ hashAlphabet ∧ Strconv.digitChar d ∈ base64Alphabet := by
  decide +kernel

/-- Digits are symbols of every alphabet; other bytes of `t` occur in `s`, which is clean. -/
theorem firstInvalid_of (e : EncKind) (s t : Bytes) (hs : firstInvalid e s = none)
    (h : ∀ c ∈ t, (∃ d, d < 36 ∧ c = Strconv.digitChar d) ∨ c ∈ s) : firstInvalid e t = none := by
  cases e with
  | none => rfl
  | hash =>
    rw [firstInvalid_none_iff .hash hashAlphabet rfl] at hs ⊢
    intro c hc
    rcases h c hc with ⟨d, hd, rfl⟩ | hcs
    · exact (digitChar_alpha d hd).1
    · exact hs c hcs
  | base64 =>
    rw [firstInvalid_none_iff .base64 base64Alphabet rfl] at hs ⊢
    intro c hc
    rcases h c hc with ⟨d, hd, rfl⟩ | hcs
    · exact (digitChar_alpha d hd).2
    · exact hs c hcs

theorem parseInt_plus (cs : Bytes) (base bits : Nat) :
    Strconv.parseInt (43 :: cs) base bits =
      match Strconv.parseUint cs base bits with
      | .error e => .error e
      | .ok v => if v < 2 ^ (bits - 1) then .ok (v : Int) else .error .range := by
  simp [Strconv.parseInt]
  cases Strconv.parseUint cs base bits <;> rfl

/-- A parsed signed integer is in range; it is negative only if the text carries a `-`. -/
theorem parseInt_inv (s : Bytes) (base bits : Nat) (z : Int) (h : Strconv.parseInt s base bits = .ok z) :
    -(2 ^ (bits - 1) : Int) ≤ z ∧ z < (2 ^ (bits - 1) : Int) ∧ (z < 0 → (45 : UInt8) ∈ s) := by
  have hcast : ((2 ^ (bits - 1) : Nat) : Int) = (2 : Int) ^ (bits - 1) := by simp
  have hpos : 0 < 2 ^ (bits - 1) := Nat.pow_pos (by omega)
  cases s with
  | nil => simp [Strconv.parseInt] at h
  | cons c cs =>
    by_cases h45 : c = 45
    · subst h45
      rw [Strconv.parseInt_neg] at h
      cases hp : Strconv.parseUint cs base bits with
      | error e => simp [hp] at h
      | ok v =>
        simp only [hp] at h
        split at h
        · next hv =>
          simp only [Except.ok.injEq] at h
          subst h
          refine ⟨by omega, by omega, fun _ => by simp⟩
        · cases h
    · by_cases h43 : c = 43
      · subst h43
        rw [parseInt_plus] at h
        cases hp : Strconv.parseUint cs base bits with
        | error e => simp [hp] at h
        | ok v =>
          simp only [hp] at h
          split at h
          · next hv =>
            simp only [Except.ok.injEq] at h
            subst h
            refine ⟨by omega, by omega, fun hneg => by omega⟩
          · cases h
      · rw [Strconv.parseInt_unsigned c cs base bits h43 h45] at h
        cases hp : Strconv.parseUint (c :: cs) base bits with
        | error e => simp [hp] at h
        | ok v =>
          simp only [hp] at h
          split at h
          · next hv =>
            simp only [Except.ok.injEq] at h
            subst h
            refine ⟨by omega, by omega, fun hneg => by omega⟩
          · cases h

/-- What `storeValue` stored, `marshalValue` writes back as a text with the same content. -/
theorem marshal_back_plain (f : FieldInfo) (k : String) (e : Nat) (s : Bytes) (fv : FVal)
    (hpfx : f.opts.isPrefix = false) (hmt : f.marshalText = .none) (hut : f.unmarshalText = .none)
    (hb : baseOk f = true) (hk : kindOk f = true) (hl : lenOk f = true)
    (hlen : f.opts.hasLength = true → s.length = f.opts.length)
    (hfi : firstInvalid f.opts.enc s = none) (hsv : storeValue f k e s = .ok fv) :
    ∃ t, marshalValue f fv = .ok t ∧ sameText f s t = true ∧ (f.opts.hasLength = true → t = s) := by
  have hb' := hb
  simp only [baseOk, Bool.and_eq_true, decide_eq_true_eq] at hb'
  unfold storeValue at hsv
  simp only [hut, hpfx, Bool.false_and, Bool.false_eq_true, if_false] at hsv
  unfold kindOk at hk
  unfold lenOk at hl
  cases hkd : f.kind <;> simp only [hkd, Bool.false_eq_true] at hk hsv hl
  · -- string
    simp only [Except.ok.injEq] at hsv
    subst hsv
    refine ⟨s, marshalValue_of ?_ hlen hfi, by simp [sameText], fun _ => rfl⟩
    simp [marshalRaw, hmt, hpfx, hkd]
  · -- bytes
    simp only [Except.ok.injEq] at hsv
    subst hsv
    refine ⟨s, marshalValue_of ?_ hlen hfi, by simp [sameText], fun _ => rfl⟩
    simp [marshalRaw, hmt, hpfx, hkd]
  · -- [n]byte
    rename_i n
    simp only [Bool.and_eq_true, beq_iff_eq] at hl
    have hsl : s.length = n := by rw [hlen hl.1, hl.2]
    have hval : s.take n ++ List.replicate (n - s.length) 0 = s := by
      rw [← hsl]; simp
    simp only [Except.ok.injEq] at hsv
    rw [hval] at hsv
    subst hsv
    refine ⟨s, marshalValue_of ?_ hlen hfi, by simp [sameText], fun _ => rfl⟩
    simp [marshalRaw, hmt, hpfx, hkd]
  · -- int
    rename_i bits
    simp only [Bool.and_eq_true, Bool.not_eq_eq_eq_not, Bool.not_true, decide_eq_true_eq] at hl
    cases hp : Strconv.parseInt s f.opts.base bits with
    | error err => cases err <;> simp [hp] at hsv
    | ok z =>
      simp only [hp, Except.ok.injEq] at hsv
      subst hsv
      obtain ⟨hlo, hhi, hneg⟩ := parseInt_inv s f.opts.base bits z hp
      have hfp := Strconv.format_parse_int f.opts.base bits z hb'.1 hb'.2 hl.2 hlo hhi
      refine ⟨Strconv.formatInt z f.opts.base, marshalValue_of ?_ (by simp [hl.1]) ?_, ?_⟩
      · simp [marshalRaw, hmt, hpfx, hkd]
      · apply firstInvalid_of f.opts.enc s _ hfi
        intro c hc
        unfold Strconv.formatInt at hc
        by_cases hz : z < 0
        · simp only [hz, if_true, List.mem_cons] at hc
          rcases hc with rfl | hc
          · exact Or.inr (hneg hz)
          · obtain ⟨d, hd, rfl⟩ := Strconv.formatUint_mem _ _ hb'.1 c hc
            exact Or.inl ⟨d, by omega, rfl⟩
        · simp only [hz, if_false] at hc
          obtain ⟨d, hd, rfl⟩ := Strconv.formatUint_mem _ _ hb'.1 c hc
          exact Or.inl ⟨d, by omega, rfl⟩
      · exact ⟨by simp [sameText, isIntKind, hut, hkd, hp, hfp], fun h => by rw [hl.1] at h; cases h⟩
  · -- uint
    rename_i bits
    simp only [Bool.not_eq_eq_eq_not, Bool.not_true] at hl
    cases hp : Strconv.parseUint s f.opts.base bits with
    | error err => cases err <;> simp [hp] at hsv
    | ok v =>
      simp only [hp, Except.ok.injEq] at hsv
      subst hsv
      have hv := parseUint_lt s f.opts.base bits v hp
      have hfp := Strconv.format_parse_uint f.opts.base bits v hb'.1 hb'.2 hv
      refine ⟨Strconv.formatUint v f.opts.base, marshalValue_of ?_ (by simp [hl]) ?_, ?_⟩
      · simp [marshalRaw, hmt, hpfx, hkd]
      · apply firstInvalid_of f.opts.enc s _ hfi
        intro c hc
        obtain ⟨d, hd, rfl⟩ := Strconv.formatUint_mem _ _ hb'.1 c hc
        exact Or.inl ⟨d, by omega, rfl⟩
      · exact ⟨by simp [sameText, isIntKind, hut, hkd, hp, hfp], fun h => by rw [hl] at h; cases h⟩

theorem marshal_back (f : FieldInfo) (k : String) (e : Nat) (s : Bytes) (fv : FVal)
    (hok : fieldOk f = true) (hlen : f.opts.hasLength = true → s.length = f.opts.length)
    (hfi : firstInvalid f.opts.enc s = none) (hsv : storeValue f k e s = .ok fv) :
    ∃ t, marshalValue f fv = .ok t ∧ sameText f s t = true := by
  simp only [fieldOk, Bool.and_eq_true, Bool.not_eq_eq_eq_not, Bool.not_true, beq_iff_eq] at hok
  obtain ⟨⟨⟨⟨⟨⟨⟨⟨-, -⟩, -⟩, hpfx⟩, hmt⟩, hut⟩, hb⟩, hk⟩, hl⟩ := hok
  obtain ⟨t, h1, h2, -⟩ := marshal_back_plain f k e s fv hpfx hmt hut hb hk hl hlen hfi hsv
  exact ⟨t, h1, h2⟩

/-- A node read by a field is a member spelling the text Marshal writes for the value read. -/
theorem read_memberIs (f : FieldInfo) (e : Nat) (s0 : Bytes) (fv : FVal) (rem : Bytes)
    (hok : fieldOk f = true) (hkey : KeyOK f s0) (hr : readField f e s0 = .ok (fv, rem)) :
    ∃ t, marshalValue f fv = .ok t ∧ memberIs [] f t s0 = true := by
  obtain ⟨s, hft, hsv⟩ := (readField_iff f e s0 fv rem).1 hr
  have hinl : f.opts.inline = false := by
    simp only [fieldOk, Bool.and_eq_true, Bool.not_eq_eq_eq_not, Bool.not_true] at hok
    exact hok.1.1.1.1.1.1.2
  obtain ⟨hs, -, hlen, hfi⟩ := fieldText_plain_inv f "value" e s0 s rem hinl hft
  obtain ⟨t, hm, hst⟩ := marshal_back f "value" e s fv hok hlen hfi hsv
  refine ⟨t, hm, ?_⟩
  unfold memberIs unname
  simp only [List.isPrefixOf_nil_left, List.length_nil, List.drop_zero, Bool.true_and]
  unfold bodyOf at hs
  by_cases hp : f.opts.param = []
  · simp only [hp, ne_eq, not_true_eq_false, false_and, if_false] at hs
    subst hs
    simp [hp, hst]
  · have hk : (f.opts.param ++ [equals]).isPrefixOf s0 = true := by
      rcases hkey with h | h
      · exact absurd h hp
      · exact h
    simp only [ne_eq, hp, not_false_eq_true, hk, and_self, if_true] at hs
    subst hs
    simp only [hp, ↓reduceIte, hk]
    exact hst

/-! ## The loop, inverted -/

/-- What the loop read: one piece per field, with the value stored. -/
def Reads : List FieldInfo → List Bytes → List FVal → Prop
  | [], [], [] => True
  | f :: fs, p :: ps, v :: vs =>
    comma ∉ p ∧ KeyOK f p ∧ (∃ e rem, readField f e p = .ok (v, rem)) ∧ Reads fs ps vs
  | _, _, _ => False

def assigned (fs : List FieldInfo) (vs : List FVal) : Vals := (fs.zip vs).map fun x => (x.1.index, x.2)

theorem fragsRel_value (ps : List Bytes) (v : VNode) (rest : List Frag) (h : FragsRel ps (.value v :: rest)) :
    ∃ ps', ps = v.val :: ps' ∧ comma ∉ v.val ∧ FragsRel ps' rest := by
  cases ps with
  | nil => simp [FragsRel] at h
  | cons p ps' =>
    obtain ⟨f, fs', hcons, hrel, hrest⟩ := h
    simp only [List.cons.injEq] at hcons
    obtain ⟨rfl, rfl⟩ := hcons
    obtain ⟨hv, hc⟩ := hrel
    subst hv
    exact ⟨ps', rfl, hc, hrest⟩

theorem fragsRel_nil (ps : List Bytes) (h : FragsRel ps []) : ps = [] := by
  cases ps with
  | nil => rfl
  | cons p ps' =>
    obtain ⟨f, fs', hcons, -, -⟩ := h
    cases hcons

theorem loop_reads (n : Nat) : ∀ (fs : List FieldInfo) (ps : List Bytes) (frags : List Frag) (nv nr : Int)
    (out : Vals) (st' : LoopSt), (∀ f ∈ fs, fieldOk f = true) →
    loopFields n fs (mkSt frags nv nr out) = .ok st' → FragsRel ps frags → FinalOK st' →
    ∃ vs, Reads fs ps vs ∧ st'.out = out ++ assigned fs vs
  | [], ps, frags, nv, nr, out, st', _, hl, hrel, hfin => by
    rw [loop_nil_iff] at hl
    subst hl
    have hfr : frags = [] := by simpa [FinalOK, mkSt] using hfin
    subst hfr
    have := fragsRel_nil ps hrel
    subst this
    exact ⟨[], trivial, by simp [assigned, mkSt]⟩
  | f :: fs, ps, frags, nv, nr, out, st', hok, hl, hrel, hfin => by
    have hf := hok f (by simp)
    have hf' := hf
    simp only [fieldOk, Bool.and_eq_true, Bool.not_eq_eq_eq_not, Bool.not_true] at hf'
    obtain ⟨v, rest, fv, rem, hfr, hkey, hr, hl'⟩ :=
      (loop_req n f fs frags nv nr out st' hf'.1.1.1.1.1.1.1.2 hf'.1.1.1.1.1.1.1.1 hf'.1.1.1.1.1.1.2).1 hl
    subst hfr
    obtain ⟨ps', rfl, hc, hrel'⟩ := fragsRel_value ps v rest hrel
    obtain ⟨vs, hreads, hout⟩ := loop_reads n fs ps' rest _ _ _ st' (fun g hg => hok g (by simp [hg])) hl'
      hrel' hfin
    refine ⟨fv :: vs, ⟨hc, hkey, ⟨v.fin, rem, hr⟩, hreads⟩, ?_⟩
    rw [hout]
    simp [assigned]

/-- `align` on what the loop read, for any value list that holds the values read. -/
theorem align_reads (vals : Vals) : ∀ (fs : List FieldInfo) (ps : List Bytes) (vs : List FVal) (fuel : Nat),
    (∀ f ∈ fs, fieldOk f = true) → Reads fs ps vs →
    (∀ x ∈ fs.zip vs, fieldVal vals x.1 = x.2) → fs.length < fuel →
    align vals fuel fs (ps.map (Respell.splitOn comma)) [] = true
  | [], [], [], fuel, _, _, _, hfuel => by
    obtain ⟨k, rfl⟩ : ∃ k, fuel = k + 1 := ⟨fuel - 1, by simp at hfuel; omega⟩
    exact align_nil vals k
  | [], [], _ :: _, _, _, h, _, _ => h.elim
  | [], _ :: _, _, _, _, h, _, _ => by cases ‹List FVal› <;> exact h.elim
  | _ :: _, [], _, _, _, h, _, _ => by cases ‹List FVal› <;> exact h.elim
  | _ :: _, _ :: _, [], _, _, h, _, _ => h.elim
  | f :: fs, p :: ps, v :: vs, fuel, hok, hreads, hvals, hfuel => by
    obtain ⟨hc, hkey, ⟨e, rem, hr⟩, hrest⟩ := hreads
    obtain ⟨k, rfl⟩ : ∃ k, fuel = k + 1 := ⟨fuel - 1, by simp at hfuel; omega⟩
    have hf := hok f (by simp)
    have hf' := hf
    simp only [fieldOk, Bool.and_eq_true, Bool.not_eq_eq_eq_not, Bool.not_true] at hf'
    obtain ⟨t, hm, hmem⟩ := read_memberIs f e p v rem hf hkey hr
    have hv : fieldVal vals f = v := hvals (f, v) (by simp)
    have hsp : Respell.splitOn comma p = [p] := splitOn_plain comma p (fun c hc' e' => hc (e' ▸ hc'))
    simp only [List.map_cons, hsp]
    refine align_req vals k f fs p _ [] t hf'.1.1.1.1.1.1.1.2
      (GoCrypt.Codec.emitted_of_required vals f hf'.1.1.1.1.1.1.1.1) (by rw [hv]; exact hm) hf'.1.1.1.1.1.1.2 hmem ?_
    exact align_reads vals fs ps vs k (fun g hg => hok g (by simp [hg])) hrest
      (fun x hx => hvals x (by simp [hx])) (by simp at hfuel; omega)

/-! ## Reading the values back from `finalVals` -/

theorem reads_length : ∀ (fs : List FieldInfo) (ps : List Bytes) (vs : List FVal), Reads fs ps vs →
    fs.length = vs.length ∧ fs.length = ps.length
  | [], [], [], _ => ⟨rfl, rfl⟩
  | [], [], _ :: _, h => h.elim
  | [], _ :: _, vs, h => by cases vs <;> exact h.elim
  | _ :: _, [], vs, h => by cases vs <;> exact h.elim
  | _ :: _, _ :: _, [], h => h.elim
  | f :: fs, p :: ps, v :: vs, h => by
    obtain ⟨h1, h2⟩ := reads_length fs ps vs h.2.2.2
    simp [h1, ← h2]

theorem assigned_keys (fs : List FieldInfo) (vs : List FVal) (h : fs.length = vs.length) :
    (assigned fs vs).map (·.1) = fs.map (·.index) := by
  unfold assigned
  rw [List.map_map]
  have : ((fun x : List Nat × FVal => x.1) ∘ fun x : FieldInfo × FVal => (x.1.index, x.2)) =
      (fun f : FieldInfo => f.index) ∘ Prod.fst := rfl
  rw [this, ← List.map_map, List.map_fst_zip (by omega)]

theorem mem_assigned (fs : List FieldInfo) (vs : List FVal) (x : FieldInfo × FVal) (hx : x ∈ fs.zip vs) :
    (x.1.index, x.2) ∈ assigned fs vs := by
  unfold assigned
  exact List.mem_map.2 ⟨x, hx, rfl⟩

/-- With distinct index paths, `finalVals` holds at each field the value last assigned to it. -/
theorem fieldVal_finalVals (ti : TypeInfo) (out : Vals) (f : FieldInfo)
    (hnd : ((ti.hashPrefix.toList ++ ti.fields).map (·.index)).Nodup)
    (hf : f ∈ ti.hashPrefix.toList ++ ti.fields) :
    fieldVal (finalVals ti out) f =
      ((out.reverse.find? (·.1 = f.index)).map (·.2)).getD (zeroOf f.kind f.ptrDepth) := by
  unfold finalVals fieldVal
  rw [getVal_listing (fun fi => ((out.reverse.find? (·.1 = fi.index)).map (·.2)).getD (zeroOf fi.kind fi.ptrDepth))
    _ hnd f hf]
  rfl

theorem fieldVal_assigned (ti : TypeInfo) (out : Vals) (f : FieldInfo) (v : FVal)
    (hnd : ((ti.hashPrefix.toList ++ ti.fields).map (·.index)).Nodup)
    (hf : f ∈ ti.hashPrefix.toList ++ ti.fields) (hk : (out.map (·.1)).Nodup) (hm : (f.index, v) ∈ out) :
    fieldVal (finalVals ti out) f = v := by
  rw [fieldVal_finalVals ti out f hnd hf, lookup_last out f.index v hk hm]
  rfl

theorem fieldVal_unassigned (ti : TypeInfo) (out : Vals) (f : FieldInfo)
    (hnd : ((ti.hashPrefix.toList ++ ti.fields).map (·.index)).Nodup)
    (hf : f ∈ ti.hashPrefix.toList ++ ti.fields) (hm : ∀ x ∈ out, x.1 ≠ f.index) :
    fieldVal (finalVals ti out) f = zeroOf f.kind f.ptrDepth := by
  rw [fieldVal_finalVals ti out f hnd hf, lookup_absent out f.index hm]
  rfl

/-! ## The prefix -/

theorem prefixPart_some_inv (ti : TypeInfo) (n : Nat) (p : Bytes) (fs : List Frag) (out0 : Vals)
    (hp : FieldInfo) (h1 : ti.hashPrefix = some hp) (h : prefixPart ti n ⟨some p, fs⟩ = .ok out0) :
    ∃ s r fv, fieldText hp "prefix" p.length p = .ok (s, r) ∧ storeValue hp "prefix" p.length s = .ok fv ∧
      out0 = [(hp.index, fv)] := by
  unfold prefixPart at h
  simp only [h1] at h
  cases hft : fieldText hp "prefix" p.length p with
  | error e => simp [hft, bind, Except.bind] at h
  | ok x =>
    obtain ⟨s, r⟩ := x
    simp only [hft, bind, Except.bind] at h
    cases hsv : storeValue hp "prefix" p.length s with
    | error e => simp [hsv] at h
    | ok fv =>
      simp only [hsv, pure, Except.pure, Except.ok.injEq] at h
      exact ⟨s, r, fv, rfl, hsv, h.symm⟩

theorem firstInvalid_nil (e : EncKind) : firstInvalid e [] = none := by
  cases e <;> rfl

/-- The prefix field reads a text `p` as the string `p`, which Marshal writes back as `p`. -/
theorem prefix_back (hp : FieldInfo) (p s r : Bytes) (fv : FVal) (hpf : L1.prefixField hp = true)
    (hnl : hp.opts.hasLength = false)
    (hft : fieldText hp "prefix" p.length p = .ok (s, r))
    (hsv : storeValue hp "prefix" p.length s = .ok fv) :
    fv = .str p ∧ marshalValue hp (.str p) = .ok p := by
  simp only [L1.prefixField, Bool.and_eq_true, beq_iff_eq, Bool.not_eq_eq_eq_not, Bool.not_true] at hpf
  obtain ⟨⟨⟨⟨⟨hkind, hptr⟩, hparam⟩, hinl⟩, hmt⟩, hut⟩ := hpf
  obtain ⟨hs, -, -, hfi⟩ := fieldText_plain_inv hp "prefix" p.length p s r hinl hft
  have hsp : s = p := by
    rw [hs]; simp [bodyOf, hparam]
  subst hsp
  have hm : marshalValue hp (.str s) = .ok s := by
    apply marshalValue_of _ (by simp [hnl]) hfi
    simp [marshalRaw, hmt, hkind]
  refine ⟨?_, hm⟩
  unfold storeValue at hsv
  cases hu : hp.unmarshalText <;> simp only [hu, Bool.false_eq_true] at hut hsv
  · simp only [hkind, ne_eq, not_true_eq_false, decide_false, Bool.and_false, Bool.false_eq_true, if_false,
      Except.ok.injEq] at hsv
    exact hsv.symm
  · split at hsv
    · exact (Except.ok.inj hsv).symm
    · cases hsv

theorem prefix_zero_back (hp : FieldInfo) (hpf : L1.prefixField hp = true) (hnl : hp.opts.hasLength = false) :
    zeroOf hp.kind hp.ptrDepth = .str [] ∧ marshalValue hp (.str []) = .ok [] := by
  simp only [L1.prefixField, Bool.and_eq_true, beq_iff_eq, Bool.not_eq_eq_eq_not, Bool.not_true] at hpf
  obtain ⟨⟨⟨⟨⟨hkind, hptr⟩, -⟩, -⟩, hmt⟩, -⟩ := hpf
  refine ⟨by simp [zeroOf, hkind, hptr], ?_⟩
  apply marshalValue_of _ (by simp [hnl]) (firstInvalid_nil _)
  simp [marshalRaw, hmt, hkind]

/-! ## The theorem -/

theorem fragments_nil (rest : Bytes) (h : Grammar.fragments rest = []) : rest = [] := by
  unfold Grammar.fragments at h
  simp only [Grammar.splitOn] at h
  cases rest with
  | nil => rfl
  | cons c cs =>
    exfalso
    have hne := splitOn_ne_nil dollar cs
    by_cases hc : c = dollar
    · cases hs : RefParse.splitOn dollar cs with
      | nil => exact hne hs
      | cons q qs =>
        simp only [RefParse.splitOn, hc, if_true, hs, List.getLast?_cons_cons] at h
        split at h
        · simp at h
        · cases h
    · cases hs : RefParse.splitOn dollar cs with
      | nil => exact hne hs
      | cons q qs =>
        simp only [RefParse.splitOn, hc, if_false, hs] at h
        split at h
        · next hl =>
          cases qs with
          | nil => simp at hl
          | cons r rs => simp at h
        · cases h

theorem respell_nofields (ti : TypeInfo) (vals : Vals) (p : Bytes) (hp : pfxTextOf ti vals = some p)
    (hf : ti.fields = []) : respell ti vals (p ++ []) = true := by
  rw [respell_eq, hp]
  have h1 : p.isPrefixOf (p ++ []) = true := isPrefixOf_append_self p []
  have h2 : (p ++ ([] : Bytes)).drop p.length = [] := by simp
  simp only [h1, h2, Bool.true_and, List.any_eq_true]
  refine ⟨[], by simp [stripTrailing], ?_⟩
  rw [hf]
  simp [fragsOf, align_nil]

/-- What the inversion of the field loop has to deliver (per layer): the values read, assigned in order,
and `align` for any value list holding them. -/
def LoopInverts (ti : TypeInfo) : Prop :=
  ∀ (n : Nat) (ps : List Bytes) (frags : List Frag) (out0 : Vals) (st' : LoopSt),
    loopFields n ti.fields (mkSt frags frags.length ti.numReqValues out0) = .ok st' → FragsRel ps frags →
    FinalOK st' →
    ∃ vs, ti.fields.length = vs.length ∧ (ps = [] → ti.fields = []) ∧
      st'.out = out0 ++ assigned ti.fields vs ∧
      ∀ vals, (∀ x ∈ ti.fields.zip vs, fieldVal vals x.1 = x.2) →
        align vals (ti.fields.length + 2) ti.fields (ps.map (Respell.splitOn comma)) [] = true

/-- The converse for any layer whose field loop inverts: prefix, values read back, `respell`. -/
theorem accepted_respell_gen (ti : TypeInfo) (h : Bytes) (out : Vals)
    (hpfx : (match ti.hashPrefix with | some hp => L1.prefixField hp && !hp.opts.hasLength | none => true) = true)
    (hnd : ((ti.hashPrefix.toList ++ ti.fields).map (·.index)).Nodup) (hinv : LoopInverts ti)
    (hu : unmarshal ti h = .ok out) : respell ti (finalVals ti out) h = true := by
  rw [unmarshal_eq_ref] at hu
  cases hr : refPrefix h with
  | error e => obtain ⟨o, m⟩ := e; simp [hr] at hu
  | ok x =>
    obtain ⟨p, rest⟩ := x
    simp only [hr] at hu
    obtain ⟨out0, st', hpp, hl, hfin, rfl⟩ := (tree_iff ti h.length p _ out).1 hu
    have hrel := mkFrags_rel (RefParse.splitOn dollar rest) (p.getD []).length
    rw [← fragments_eq_trimLast] at hrel
    obtain ⟨vs, hlen, hnil, hout, halign⟩ := hinv h.length (Grammar.fragments rest) _ out0 st' hl hrel hfin
    -- the values are read back from `finalVals`
    have hkeys : ∀ (k0 : Vals), ((k0 ++ assigned ti.fields vs).map (·.1)) = k0.map (·.1) ++ ti.fields.map (·.index) := by
      intro k0; rw [List.map_append, assigned_keys ti.fields vs hlen]
    have hvals : (out0 = [] ∨ ∃ hp fv, ti.hashPrefix = some hp ∧ out0 = [(hp.index, fv)]) →
        ∀ x ∈ ti.fields.zip vs, fieldVal (finalVals ti st'.out) x.1 = x.2 := by
      intro h0 x hx
      have hxf : x.1 ∈ ti.fields := (List.of_mem_zip hx).1
      refine fieldVal_assigned ti st'.out x.1 x.2 hnd (by simp [hxf]) ?_ ?_
      · rw [hout, hkeys]
        rcases h0 with rfl | ⟨hp, fv, hhp, rfl⟩
        · simp only [List.map_nil, List.nil_append]
          rw [List.map_append] at hnd
          exact (List.nodup_append.1 hnd).2.1
        · rw [hhp] at hnd
          simpa using hnd
      · rw [hout]
        exact List.mem_append_right _ (mem_assigned ti.fields vs x hx)
    -- the body
    have hbody : ∀ (ptext : Bytes), pfxTextOf ti (finalVals ti st'.out) = some ptext →
        (∀ x ∈ ti.fields.zip vs, fieldVal (finalVals ti st'.out) x.1 = x.2) →
        respell ti (finalVals ti st'.out) (ptext ++ rest) = true := by
      intro ptext hpt hv
      by_cases hps : Grammar.fragments rest = []
      · have hrest := fragments_nil rest hps
        subst hrest
        exact respell_nofields ti _ ptext hpt (hnil hps)
      · exact respell_of_align ti _ ptext rest _ hpt rfl hps (halign _ hv)
    cases hhp : ti.hashPrefix with
    | none =>
      cases p with
      | some p' => simp [prefixPart, hhp, throw, throwThe, MonadExceptOf.throw] at hpp
      | none =>
        have h0 : out0 = [] := by
          simp only [prefixPart, hhp, pure, Except.pure, Except.ok.injEq] at hpp
          exact hpp.symm
        have hrest := (refPrefix_none h rest hr).1
        subst hrest
        have := hbody [] (by simp [pfxTextOf, hhp]) (hvals (Or.inl h0))
        simpa using this
    | some hp =>
      simp only [hhp, Bool.and_eq_true, Bool.not_eq_eq_eq_not, Bool.not_true] at hpfx
      obtain ⟨hpf, hnl⟩ := hpfx
      have hpm : hp ∈ ti.hashPrefix.toList ++ ti.fields := by simp [hhp]
      cases p with
      | none =>
        obtain ⟨-, h0⟩ := (prefixPart_none ti h.length _ out0 hp hhp).1 hpp
        have hrest := (refPrefix_none h rest hr).1
        subst hrest
        obtain ⟨hz, hmz⟩ := prefix_zero_back hp hpf hnl
        have hfv : fieldVal (finalVals ti st'.out) hp = .str [] := by
          rw [fieldVal_unassigned ti st'.out hp hnd hpm, hz]
          intro x hx
          rw [hout, h0, List.nil_append] at hx
          have hxk : x.1 ∈ (assigned ti.fields vs).map (·.1) := List.mem_map.2 ⟨x, hx, rfl⟩
          rw [assigned_keys ti.fields vs hlen] at hxk
          rw [hhp] at hnd
          simp only [Option.toList_some, List.singleton_append, List.map_cons, List.nodup_cons] at hnd
          intro e
          exact hnd.1 (e ▸ hxk)
        have hpt : pfxTextOf ti (finalVals ti st'.out) = some [] := by
          unfold pfxTextOf
          have hfv' : (getVal (finalVals ti st'.out) hp.index).getD (zeroOf hp.kind hp.ptrDepth) = .str [] := hfv
          simp only [hhp, hfv', hmz]
        have := hbody [] hpt (hvals (Or.inl h0))
        simpa using this
      | some p' =>
        obtain ⟨s, r, fv, hft, hsv, h0⟩ := prefixPart_some_inv ti h.length p' _ out0 hp hhp hpp
        obtain ⟨hfv, hmp⟩ := prefix_back hp p' s r fv hpf hnl hft hsv
        subst hfv
        have hh := refPrefix_some h p' rest hr
        have hv := hvals (Or.inr ⟨hp, _, hhp, h0⟩)
        have hfv : fieldVal (finalVals ti st'.out) hp = .str p' := by
          refine fieldVal_assigned ti st'.out hp _ hnd hpm ?_ ?_
          · rw [hout, hkeys, h0]
            rw [hhp] at hnd
            simpa using hnd
          · rw [hout, h0]; simp
        have hpt : pfxTextOf ti (finalVals ti st'.out) = some p' := by
          unfold pfxTextOf
          have hfv' : (getVal (finalVals ti st'.out) hp.index).getD (zeroOf hp.kind hp.ptrDepth) = .str p' := hfv
          simp only [hhp, hfv', hmp]
        rw [hh]
        exact hbody p' hpt hv

theorem loopInverts_L2 (ti : TypeInfo) (hok : ∀ f ∈ ti.fields, fieldOk f = true) : LoopInverts ti := by
  intro n ps frags out0 st' hl hrel hfin
  obtain ⟨vs, hreads, hout⟩ := loop_reads n ti.fields ps frags _ _ out0 st' hok hl hrel hfin
  obtain ⟨hlen, hlenp⟩ := reads_length _ _ _ hreads
  refine ⟨vs, hlen, ?_, hout, fun vals hv => align_reads vals ti.fields ps vs _ hok hreads hv (by omega)⟩
  intro hps
  rw [hps] at hlenp
  exact List.eq_nil_of_length_eq_zero hlenp

theorem accepted_respell (ti : TypeInfo) (h : Bytes) (out : Vals) (hs : acceptOk ti = true)
    (hu : unmarshal ti h = .ok out) : respell ti (finalVals ti out) h = true := by
  simp only [acceptOk, Bool.and_eq_true, List.all_eq_true, decide_eq_true_eq] at hs
  obtain ⟨⟨hok, hpfx⟩, hnd⟩ := hs
  exact accepted_respell_gen ti h out hpfx hnd (loopInverts_L2 ti hok) hu

/-! ## On the ladder of the round trip -/

/-- The `length:` conditions of the acceptance direction. -/
def lengthsOk (ti : TypeInfo) : Bool :=
  ti.fields.all lenOk && (match ti.hashPrefix with | some hp => !hp.opts.hasLength | none => true)

theorem acceptOk_of_L2 (ti : TypeInfo) (hs : L2.shapeOk ti = true) (hl : lengthsOk ti = true) :
    acceptOk ti = true := by
  simp only [L2.shapeOk, tiWf, Bool.and_eq_true, List.all_eq_true, decide_eq_true_eq] at hs
  obtain ⟨⟨⟨⟨⟨⟨hfw, hpf⟩, hnd⟩, -⟩, -⟩, -⟩, hlay⟩ := hs
  simp only [lengthsOk, Bool.and_eq_true, List.all_eq_true] at hl
  simp only [acceptOk, Bool.and_eq_true, List.all_eq_true, decide_eq_true_eq]
  refine ⟨⟨fun f hf => ?_, ?_⟩, hnd⟩
  · have h1 := hfw f hf
    have h2 := hlay f hf
    have h3 := hl.1 f hf
    simp only [fieldWf, Bool.and_eq_true, Bool.not_eq_eq_eq_not, Bool.not_true] at h1
    simp only [L2.fieldOk, L3.fieldOk, Bool.and_eq_true, Bool.not_eq_eq_eq_not, Bool.not_true, beq_iff_eq] at h2
    obtain ⟨⟨⟨⟨-, hpfx⟩, -⟩, hb⟩, hc⟩ := h1
    obtain ⟨⟨⟨⟨⟨ho, hg⟩, hmt⟩, hut⟩, -⟩, hi⟩ := h2
    have hk : kindOk f = true := by simpa [codecOk, hmt, hut] using hc
    simp [fieldOk, ho, hg, hi, hpfx, hmt, hut, hb, hk, h3]
  · cases hhp : ti.hashPrefix with
    | none => rfl
    | some hp =>
      simp only [hhp] at hpf hl
      simp [hpf, hl.2]

theorem accepted_respell_L2 (ti : TypeInfo) (h : Bytes) (out : Vals) (hs : L2.shapeOk ti = true)
    (hl : lengthsOk ti = true) (hu : unmarshal ti h = .ok out) :
    respell ti (finalVals ti out) h = true :=
  accepted_respell ti h out (acceptOk_of_L2 ti hs hl) hu

theorem acceptOk_of_L1 (ti : TypeInfo) (hs : L1.shapeOk ti = true)
    (hnp : ti.fields.all (fun f => !f.opts.isPrefix) = true) (hl : lengthsOk ti = true) :
    acceptOk ti = true := by
  simp only [L1.shapeOk, Bool.and_eq_true, List.all_eq_true, decide_eq_true_eq] at hs
  obtain ⟨⟨hplain, hpf⟩, hnd⟩ := hs
  simp only [lengthsOk, Bool.and_eq_true, List.all_eq_true] at hl
  simp only [List.all_eq_true, Bool.not_eq_eq_eq_not, Bool.not_true] at hnp
  simp only [acceptOk, Bool.and_eq_true, List.all_eq_true, decide_eq_true_eq]
  refine ⟨⟨fun f hf => ?_, ?_⟩, hnd⟩
  · have h1 := hplain f hf
    have h3 := hl.1 f hf
    simp only [L1.plainField, positional, Bool.and_eq_true, Bool.not_eq_eq_eq_not, Bool.not_true,
      beq_iff_eq] at h1
    obtain ⟨⟨⟨⟨⟨⟨⟨⟨-, hg⟩, ho⟩, hi⟩, hmt⟩, hut⟩, -⟩, hb⟩, hk⟩ := h1
    have hk' : kindOk f = true := by
      unfold kindOk
      cases hkd : f.kind <;> simp [hkd] at hk ⊢
    simp [fieldOk, ho, hg, hi, hnp f hf, hmt, hut, hb, hk', h3]
  · cases hhp : ti.hashPrefix with
    | none => rfl
    | some hp =>
      simp only [hhp] at hpf hl
      simp [hpf, hl.2]

theorem accepted_respell_L1 (ti : TypeInfo) (h : Bytes) (out : Vals) (hs : L1.shapeOk ti = true)
    (hnp : ti.fields.all (fun f => !f.opts.isPrefix) = true) (hl : lengthsOk ti = true)
    (hu : unmarshal ti h = .ok out) : respell ti (finalVals ti out) h = true :=
  accepted_respell ti h out (acceptOk_of_L1 ti hs hnp hl) hu

end Accepts

end GoCrypt.Codec
