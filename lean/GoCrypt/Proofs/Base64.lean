import GoCrypt.Model.Base64LE
import GoCrypt.Spec.Base64Bits
import GoCrypt.Gen.Consts

/-! Lemmas about the `hash/base64le` kernels and model (used by `Props/C16`). -/

namespace GoCrypt.Base64LE
open GoCrypt.Gen.base64le GoCrypt.Spec.Base64Bits

/-! ## Bitwise toolbox -/

theorem shr_or (a b i : Nat) : (a ||| b) >>> i = a >>> i ||| b >>> i := Nat.shiftRight_or_distrib
theorem shl_or (a b i : Nat) : (a ||| b) <<< i = a <<< i ||| b <<< i := Nat.shiftLeft_or_distrib
theorem and_or (a b c : Nat) : (a ||| b) &&& c = (a &&& c) ||| (b &&& c) := Nat.and_or_distrib_right a b c

theorem mod64_eq_and (x : Nat) : x % 18446744073709551616 = x &&& 18446744073709551615 :=
  (Nat.and_two_pow_sub_one_eq_mod x 64).symm
theorem mod32_eq_and (x : Nat) : x % 4294967296 = x &&& 4294967295 :=
  (Nat.and_two_pow_sub_one_eq_mod x 32).symm
theorem mod8_eq_and (x : Nat) : x % 256 = x &&& 255 :=
  (Nat.and_two_pow_sub_one_eq_mod x 8).symm

theorem mod64_or (a b : Nat) :
    (a ||| b) % 18446744073709551616 = a % 18446744073709551616 ||| b % 18446744073709551616 := by
  simp only [mod64_eq_and, and_or]
theorem mod8_or (a b : Nat) : (a ||| b) % 256 = a % 256 ||| b % 256 := by
  simp only [mod8_eq_and, and_or]

/-! ## Encoder kernels: distribution over `|||` -/

theorem sym0_or (a b : Nat) : Encode_sym0 (a ||| b) = Encode_sym0 a ||| Encode_sym0 b := by
  unfold Encode_sym0; simp only [shr_or, and_or]
theorem sym1_or (a b : Nat) : Encode_sym1 (a ||| b) = Encode_sym1 a ||| Encode_sym1 b := by
  unfold Encode_sym1; simp only [shr_or, and_or]; ac_rfl
theorem sym2_or (a b : Nat) : Encode_sym2 (a ||| b) = Encode_sym2 a ||| Encode_sym2 b := by
  unfold Encode_sym2; simp only [shr_or, shl_or, mod64_or, and_or]; ac_rfl
theorem sym3_or (a b : Nat) : Encode_sym3 (a ||| b) = Encode_sym3 a ||| Encode_sym3 b := by
  unfold Encode_sym3; simp only [shr_or, and_or]

theorem tail_sym0_eq : EncodeTail_sym0 = Encode_sym0 := rfl
theorem tail_sym1_eq : EncodeTail_sym1 = Encode_sym1 := rfl
theorem tail_sym2_eq : EncodeTail_sym2 = Encode_sym2 := rfl

/-! ## Encoder kernels: per-byte facts (exhaustive kernel evaluation over one byte) -/

set_option maxRecDepth 100000 in
theorem sym0_hi : ∀ b : Fin 256, Encode_sym0 ((b.val <<< 16) % 18446744073709551616) = b.val % 64 := by
  decide +kernel
set_option maxRecDepth 100000 in
theorem sym0_mid : ∀ b : Fin 256, Encode_sym0 ((b.val <<< 8) % 18446744073709551616) = 0 := by
  decide +kernel
set_option maxRecDepth 100000 in
theorem sym0_lo : ∀ b : Fin 256, Encode_sym0 b.val = 0 := by decide +kernel

set_option maxRecDepth 100000 in
theorem sym1_hi : ∀ b : Fin 256, Encode_sym1 ((b.val <<< 16) % 18446744073709551616) = b.val / 64 := by
  decide +kernel
set_option maxRecDepth 100000 in
theorem sym1_mid : ∀ b : Fin 256,
    Encode_sym1 ((b.val <<< 8) % 18446744073709551616) = (b.val % 16) * 4 := by decide +kernel
set_option maxRecDepth 100000 in
theorem sym1_lo : ∀ b : Fin 256, Encode_sym1 b.val = 0 := by decide +kernel

set_option maxRecDepth 100000 in
theorem sym2_hi : ∀ b : Fin 256, Encode_sym2 ((b.val <<< 16) % 18446744073709551616) = 0 := by
  decide +kernel
set_option maxRecDepth 100000 in
theorem sym2_mid : ∀ b : Fin 256,
    Encode_sym2 ((b.val <<< 8) % 18446744073709551616) = b.val / 16 := by decide +kernel
set_option maxRecDepth 100000 in
theorem sym2_lo : ∀ b : Fin 256, Encode_sym2 b.val = (b.val % 4) * 16 := by decide +kernel

set_option maxRecDepth 100000 in
theorem sym3_hi : ∀ b : Fin 256, Encode_sym3 ((b.val <<< 16) % 18446744073709551616) = 0 := by
  decide +kernel
set_option maxRecDepth 100000 in
theorem sym3_mid : ∀ b : Fin 256, Encode_sym3 ((b.val <<< 8) % 18446744073709551616) = 0 := by
  decide +kernel
set_option maxRecDepth 100000 in
theorem sym3_lo : ∀ b : Fin 256, Encode_sym3 b.val = b.val / 4 := by decide +kernel

set_option maxRecDepth 100000 in
theorem or_4_16 : ∀ (x : Fin 4) (y : Fin 16), x.val ||| (y.val * 4) = x.val + y.val * 4 := by
  decide +kernel
set_option maxRecDepth 100000 in
theorem or_16_4 : ∀ (x : Fin 16) (y : Fin 4), x.val ||| (y.val * 16) = x.val + y.val * 16 := by
  decide +kernel

/-! ## Encoder kernels in arithmetic form -/

theorem sym0_val {b0 b1 b2 : Nat} (h0 : b0 < 256) (h1 : b1 < 256) (h2 : b2 < 256) :
    Encode_sym0 (Encode_val b0 b1 b2) = b0 % 64 := by
  have A := sym0_hi ⟨b0, h0⟩; have B := sym0_mid ⟨b1, h1⟩; have C := sym0_lo ⟨b2, h2⟩
  simp only at A B C
  unfold Encode_val
  rw [sym0_or, sym0_or, A, B, C]; simp

theorem sym1_val {b0 b1 b2 : Nat} (h0 : b0 < 256) (h1 : b1 < 256) (h2 : b2 < 256) :
    Encode_sym1 (Encode_val b0 b1 b2) = b0 / 64 + (b1 % 16) * 4 := by
  have A := sym1_hi ⟨b0, h0⟩; have B := sym1_mid ⟨b1, h1⟩; have C := sym1_lo ⟨b2, h2⟩
  simp only at A B C
  unfold Encode_val
  rw [sym1_or, sym1_or, A, B, C, Nat.or_zero]
  exact or_4_16 ⟨b0 / 64, by omega⟩ ⟨b1 % 16, by omega⟩

theorem sym2_val {b0 b1 b2 : Nat} (h0 : b0 < 256) (h1 : b1 < 256) (h2 : b2 < 256) :
    Encode_sym2 (Encode_val b0 b1 b2) = b1 / 16 + (b2 % 4) * 16 := by
  have A := sym2_hi ⟨b0, h0⟩; have B := sym2_mid ⟨b1, h1⟩; have C := sym2_lo ⟨b2, h2⟩
  simp only at A B C
  unfold Encode_val
  rw [sym2_or, sym2_or, A, B, C, Nat.zero_or]
  exact or_16_4 ⟨b1 / 16, by omega⟩ ⟨b2 % 4, by omega⟩

theorem sym3_val {b0 b1 b2 : Nat} (h0 : b0 < 256) (h1 : b1 < 256) (h2 : b2 < 256) :
    Encode_sym3 (Encode_val b0 b1 b2) = b2 / 4 := by
  have A := sym3_hi ⟨b0, h0⟩; have B := sym3_mid ⟨b1, h1⟩; have C := sym3_lo ⟨b2, h2⟩
  simp only at A B C
  unfold Encode_val
  rw [sym3_or, sym3_or, A, B, C]; simp

/-- The tail values are full-group values with the missing bytes zero. -/
theorem tail1_val (b0 : Nat) : EncodeTail_val b0 = Encode_val b0 0 0 := by
  simp [EncodeTail_val, Encode_val]
theorem tail2_val (b0 b1 : Nat) : EncodeTail_val b0 ||| EncodeTail_or b1 = Encode_val b0 b1 0 := by
  simp [EncodeTail_val, EncodeTail_or, Encode_val]

/-! ## Decoder kernel `decodeQuantum_val`: the six OR-ed terms -/

def qT1 (d : Nat) : Nat := (d <<< 16) % 18446744073709551616
def qT2 (d : Nat) : Nat := ((d &&& 3) <<< 22) % 18446744073709551616
def qT3 (d : Nat) : Nat := ((d &&& 60) <<< 6) % 18446744073709551616
def qT4 (d : Nat) : Nat := ((d &&& 15) <<< 12) % 18446744073709551616
def qT5 (d : Nat) : Nat := (d &&& 48) >>> 4
def qT6 (d : Nat) : Nat := (d <<< 2) % 18446744073709551616

theorem decodeQuantum_val_eq (d0 d1 d2 d3 : Nat) :
    decodeQuantum_val d0 d1 d2 d3 = qT1 d0 ||| qT2 d1 ||| qT3 d1 ||| qT4 d2 ||| qT5 d2 ||| qT6 d3 := rfl

theorem out0_or (a b : Nat) : decodeQuantum_out0 (a ||| b) = decodeQuantum_out0 a ||| decodeQuantum_out0 b := by
  unfold decodeQuantum_out0; simp only [shr_or, mod8_or]
theorem out1_or (a b : Nat) : decodeQuantum_out1 (a ||| b) = decodeQuantum_out1 a ||| decodeQuantum_out1 b := by
  unfold decodeQuantum_out1; simp only [shr_or, mod8_or]
theorem out2_or (a b : Nat) : decodeQuantum_out2 (a ||| b) = decodeQuantum_out2 a ||| decodeQuantum_out2 b := by
  unfold decodeQuantum_out2; simp only [shr_or, mod8_or]

set_option maxRecDepth 100000 in
theorem qT_out0 : ∀ d : Fin 64,
    decodeQuantum_out0 (qT1 d.val) = d.val ∧ decodeQuantum_out0 (qT2 d.val) = (d.val % 4) * 64 ∧
    decodeQuantum_out0 (qT3 d.val) = 0 ∧ decodeQuantum_out0 (qT4 d.val) = 0 ∧
    decodeQuantum_out0 (qT5 d.val) = 0 ∧ decodeQuantum_out0 (qT6 d.val) = 0 := by decide +kernel
set_option maxRecDepth 100000 in
theorem qT_out1 : ∀ d : Fin 64,
    decodeQuantum_out1 (qT1 d.val) = 0 ∧ decodeQuantum_out1 (qT2 d.val) = 0 ∧
    decodeQuantum_out1 (qT3 d.val) = d.val / 4 ∧ decodeQuantum_out1 (qT4 d.val) = (d.val % 16) * 16 ∧
    decodeQuantum_out1 (qT5 d.val) = 0 ∧ decodeQuantum_out1 (qT6 d.val) = 0 := by decide +kernel
set_option maxRecDepth 100000 in
theorem qT_out2 : ∀ d : Fin 64,
    decodeQuantum_out2 (qT1 d.val) = 0 ∧ decodeQuantum_out2 (qT2 d.val) = 0 ∧
    decodeQuantum_out2 (qT3 d.val) = 0 ∧ decodeQuantum_out2 (qT4 d.val) = 0 ∧
    decodeQuantum_out2 (qT5 d.val) = d.val / 16 ∧ decodeQuantum_out2 (qT6 d.val) = d.val * 4 := by decide +kernel
set_option maxRecDepth 100000 in
theorem qT_lt : ∀ d : Fin 64,
    qT1 d.val < 2 ^ 24 ∧ qT2 d.val < 2 ^ 24 ∧ qT3 d.val < 2 ^ 24 ∧ qT4 d.val < 2 ^ 24 ∧
    qT5 d.val < 2 ^ 24 ∧ qT6 d.val < 2 ^ 24 := by decide +kernel

set_option maxRecDepth 100000 in
theorem or_64_4 : ∀ (x : Fin 64) (y : Fin 4), x.val ||| (y.val * 64) = x.val + y.val * 64 := by
  decide +kernel
set_option maxRecDepth 100000 in
theorem or_16_16 : ∀ (x : Fin 16) (y : Fin 16), x.val ||| (y.val * 16) = x.val + y.val * 16 := by
  decide +kernel
set_option maxRecDepth 100000 in
theorem or_4_64 : ∀ (x : Fin 4) (y : Fin 64), x.val ||| (y.val * 4) = x.val + y.val * 4 := by
  decide +kernel

/-- The three output bytes of a quantum, in arithmetic form. -/
theorem out0_val {d0 d1 d2 d3 : Nat} (h0 : d0 < 64) (h1 : d1 < 64) (h2 : d2 < 64) (h3 : d3 < 64) :
    decodeQuantum_out0 (decodeQuantum_val d0 d1 d2 d3) = d0 + (d1 % 4) * 64 := by
  have A := qT_out0 ⟨d0, h0⟩; have B := qT_out0 ⟨d1, h1⟩
  have C := qT_out0 ⟨d2, h2⟩; have D := qT_out0 ⟨d3, h3⟩
  simp only at A B C D
  rw [decodeQuantum_val_eq]; simp only [out0_or]
  rw [A.1, B.2.1, B.2.2.1, C.2.2.2.1, C.2.2.2.2.1, D.2.2.2.2.2]
  simp only [Nat.or_zero]
  exact or_64_4 ⟨d0, h0⟩ ⟨d1 % 4, by omega⟩

theorem out1_val {d0 d1 d2 d3 : Nat} (h0 : d0 < 64) (h1 : d1 < 64) (h2 : d2 < 64) (h3 : d3 < 64) :
    decodeQuantum_out1 (decodeQuantum_val d0 d1 d2 d3) = d1 / 4 + (d2 % 16) * 16 := by
  have A := qT_out1 ⟨d0, h0⟩; have B := qT_out1 ⟨d1, h1⟩
  have C := qT_out1 ⟨d2, h2⟩; have D := qT_out1 ⟨d3, h3⟩
  simp only at A B C D
  rw [decodeQuantum_val_eq]; simp only [out1_or]
  rw [A.1, B.2.1, B.2.2.1, C.2.2.2.1, C.2.2.2.2.1, D.2.2.2.2.2]
  simp only [Nat.or_zero, Nat.zero_or]
  exact or_16_16 ⟨d1 / 4, by omega⟩ ⟨d2 % 16, by omega⟩

theorem out2_val {d0 d1 d2 d3 : Nat} (h0 : d0 < 64) (h1 : d1 < 64) (h2 : d2 < 64) (h3 : d3 < 64) :
    decodeQuantum_out2 (decodeQuantum_val d0 d1 d2 d3) = d2 / 16 + d3 * 4 := by
  have A := qT_out2 ⟨d0, h0⟩; have B := qT_out2 ⟨d1, h1⟩
  have C := qT_out2 ⟨d2, h2⟩; have D := qT_out2 ⟨d3, h3⟩
  simp only at A B C D
  rw [decodeQuantum_val_eq]; simp only [out2_or]
  rw [A.1, B.2.1, B.2.2.1, C.2.2.2.1, C.2.2.2.2.1, D.2.2.2.2.2]
  simp only [Nat.or_zero, Nat.zero_or]
  exact or_4_64 ⟨d2 / 16, by omega⟩ ⟨d3, h3⟩

theorem val_lt {d0 d1 d2 d3 : Nat} (h0 : d0 < 64) (h1 : d1 < 64) (h2 : d2 < 64) (h3 : d3 < 64) :
    decodeQuantum_val d0 d1 d2 d3 < 2 ^ 24 := by
  have A := qT_lt ⟨d0, h0⟩; have B := qT_lt ⟨d1, h1⟩
  have C := qT_lt ⟨d2, h2⟩; have D := qT_lt ⟨d3, h3⟩
  simp only at A B C D
  rw [decodeQuantum_val_eq]
  exact Nat.or_lt_two_pow (Nat.or_lt_two_pow (Nat.or_lt_two_pow (Nat.or_lt_two_pow
    (Nat.or_lt_two_pow A.1 B.2.1) B.2.2.1) C.2.2.2.1) C.2.2.2.2.1) D.2.2.2.2.2

/-- A quantum value is its three output bytes, big-endian. -/
theorem val_eq_outs {d0 d1 d2 d3 : Nat} (h0 : d0 < 64) (h1 : d1 < 64) (h2 : d2 < 64) (h3 : d3 < 64) :
    decodeQuantum_val d0 d1 d2 d3 =
      decodeQuantum_out0 (decodeQuantum_val d0 d1 d2 d3) * 65536 +
      decodeQuantum_out1 (decodeQuantum_val d0 d1 d2 d3) * 256 +
      decodeQuantum_out2 (decodeQuantum_val d0 d1 d2 d3) := by
  have h := val_lt h0 h1 h2 h3
  generalize decodeQuantum_val d0 d1 d2 d3 = v at h ⊢
  unfold decodeQuantum_out0 decodeQuantum_out1 decodeQuantum_out2
  simp only [Nat.shiftRight_eq_div_pow] at *
  omega

/-! ## `assemble32` / `assemble64` -/

theorem assemble32_eq (n1 n2 n3 n4 : Nat) : assemble32 n1 n2 n3 n4 =
    if (n1 ||| n2 ||| n3 ||| n4) = 255 then (0, false) else
    (((((((((n1 <<< 24)) % 4294967296) ||| ((((n2 &&& 3) <<< 30)) % 4294967296)) |||
      ((((n2 &&& 60) <<< 14)) % 4294967296)) ||| ((((n3 &&& 15) <<< 20)) % 4294967296)) |||
      ((((n3 &&& 48) <<< 4)) % 4294967296)) ||| (((n4 <<< 10)) % 4294967296)), true) := by
  unfold assemble32
  simp only [Id.run, beq_iff_eq]
  rfl

theorem assemble64_eq (n1 n2 n3 n4 n5 n6 n7 n8 : Nat) : assemble64 n1 n2 n3 n4 n5 n6 n7 n8 =
    if (n1 ||| n2 ||| n3 ||| n4 ||| n5 ||| n6 ||| n7 ||| n8) = 255 then (0, false) else
    (((((((((((((((n1 <<< 56)) % 18446744073709551616) ||| ((((n2 &&& 3) <<< 62)) % 18446744073709551616)) ||| ((((n2 &&& 60) <<< 46)) % 18446744073709551616)) ||| ((((n3 &&& 15) <<< 52)) % 18446744073709551616)) ||| ((((n3 &&& 48) <<< 36)) % 18446744073709551616)) ||| (((n4 <<< 42)) % 18446744073709551616)) ||| (((n5 <<< 32)) % 18446744073709551616)) ||| ((((n6 &&& 3) <<< 38)) % 18446744073709551616)) ||| ((((n6 &&& 60) <<< 22)) % 18446744073709551616)) ||| ((((n7 &&& 15) <<< 28)) % 18446744073709551616)) ||| ((((n7 &&& 48) <<< 12)) % 18446744073709551616)) ||| (((n8 <<< 18)) % 18446744073709551616)), true) := by
  unfold assemble64
  simp only [Id.run, beq_iff_eq]
  rfl

/-- What `decodeMap` can hold for a 64-symbol alphabet: a 6-bit digit or the 0xFF marker. -/
def IsDigit (d : Nat) : Prop := d < 64 ∨ d = 255

set_option maxRecDepth 100000 in
theorem or_255 : ∀ b : Fin 256, (255 ||| b.val = 255) ∧ (b.val ||| 255 = 255) := by decide +kernel

theorem isDigit_or {a b : Nat} (ha : IsDigit a) (hb : IsDigit b) :
    IsDigit (a ||| b) ∧ ((a ||| b) = 255 ↔ (a = 255 ∨ b = 255)) := by
  rcases ha with ha | ha <;> rcases hb with hb | hb
  · have : a ||| b < 2 ^ 6 := Nat.or_lt_two_pow (by simpa using ha) (by simpa using hb)
    have : a ||| b < 64 := by simpa using this
    exact ⟨Or.inl this, by omega⟩
  · subst hb; have := (or_255 ⟨a, by omega⟩).2; simp only at this
    exact ⟨Or.inr this, by simp [this]⟩
  · subst ha; have := (or_255 ⟨b, by omega⟩).1; simp only at this
    exact ⟨Or.inr this, by simp [this]⟩
  · subst ha hb; exact ⟨Or.inr (by decide), by simp⟩

theorem or4_eq_255 {a b c d : Nat} (ha : IsDigit a) (hb : IsDigit b) (hc : IsDigit c) (hd : IsDigit d) :
    IsDigit (a ||| b ||| c ||| d) ∧
    ((a ||| b ||| c ||| d) = 255 ↔ (a = 255 ∨ b = 255 ∨ c = 255 ∨ d = 255)) := by
  have h1 := isDigit_or ha hb
  have h2 := isDigit_or h1.1 hc
  have h3 := isDigit_or h2.1 hd
  refine ⟨h3.1, ?_⟩
  rw [h3.2, h2.2, h1.2]; simp only [or_assoc]

set_option maxRecDepth 100000 in
theorem a32_terms : ∀ d : Fin 64,
    (d.val <<< 24) % 4294967296 = qT1 d.val <<< 8 ∧
    ((d.val &&& 3) <<< 30) % 4294967296 = qT2 d.val <<< 8 ∧
    ((d.val &&& 60) <<< 14) % 4294967296 = qT3 d.val <<< 8 ∧
    ((d.val &&& 15) <<< 20) % 4294967296 = qT4 d.val <<< 8 ∧
    ((d.val &&& 48) <<< 4) % 4294967296 = qT5 d.val <<< 8 ∧
    (d.val <<< 10) % 4294967296 = qT6 d.val <<< 8 := by decide +kernel

set_option maxRecDepth 100000 in
theorem a64_hi_terms : ∀ d : Fin 64,
    (d.val <<< 56) % 18446744073709551616 = qT1 d.val <<< 40 ∧
    ((d.val &&& 3) <<< 62) % 18446744073709551616 = qT2 d.val <<< 40 ∧
    ((d.val &&& 60) <<< 46) % 18446744073709551616 = qT3 d.val <<< 40 ∧
    ((d.val &&& 15) <<< 52) % 18446744073709551616 = qT4 d.val <<< 40 ∧
    ((d.val &&& 48) <<< 36) % 18446744073709551616 = qT5 d.val <<< 40 ∧
    (d.val <<< 42) % 18446744073709551616 = qT6 d.val <<< 40 := by decide +kernel

set_option maxRecDepth 100000 in
theorem a64_lo_terms : ∀ d : Fin 64,
    (d.val <<< 32) % 18446744073709551616 = qT1 d.val <<< 16 ∧
    ((d.val &&& 3) <<< 38) % 18446744073709551616 = qT2 d.val <<< 16 ∧
    ((d.val &&& 60) <<< 22) % 18446744073709551616 = qT3 d.val <<< 16 ∧
    ((d.val &&& 15) <<< 28) % 18446744073709551616 = qT4 d.val <<< 16 ∧
    ((d.val &&& 48) <<< 12) % 18446744073709551616 = qT5 d.val <<< 16 ∧
    (d.val <<< 18) % 18446744073709551616 = qT6 d.val <<< 16 := by decide +kernel

theorem assemble32_flag {d0 d1 d2 d3 : Nat}
    (h0 : IsDigit d0) (h1 : IsDigit d1) (h2 : IsDigit d2) (h3 : IsDigit d3) :
    (assemble32 d0 d1 d2 d3).2 = false ↔ (d0 = 255 ∨ d1 = 255 ∨ d2 = 255 ∨ d3 = 255) := by
  rw [assemble32_eq, ← (or4_eq_255 h0 h1 h2 h3).2]
  split <;> simp [*]

theorem assemble32_val {d0 d1 d2 d3 : Nat} (h0 : d0 < 64) (h1 : d1 < 64) (h2 : d2 < 64) (h3 : d3 < 64) :
    (assemble32 d0 d1 d2 d3).1 = decodeQuantum_val d0 d1 d2 d3 * 256 := by
  have hne : ¬ (d0 ||| d1 ||| d2 ||| d3) = 255 := by
    rw [(or4_eq_255 (Or.inl h0) (Or.inl h1) (Or.inl h2) (Or.inl h3)).2]; omega
  have A := a32_terms ⟨d0, h0⟩; have B := a32_terms ⟨d1, h1⟩
  have C := a32_terms ⟨d2, h2⟩; have D := a32_terms ⟨d3, h3⟩
  simp only at A B C D
  rw [assemble32_eq, if_neg hne]
  show _ = _ * 2 ^ 8
  rw [← Nat.shiftLeft_eq, decodeQuantum_val_eq]
  simp only [shl_or]
  rw [A.1, B.2.1, B.2.2.1, C.2.2.2.1, C.2.2.2.2.1, D.2.2.2.2.2]

theorem assemble64_flag {d0 d1 d2 d3 d4 d5 d6 d7 : Nat}
    (h0 : IsDigit d0) (h1 : IsDigit d1) (h2 : IsDigit d2) (h3 : IsDigit d3)
    (h4 : IsDigit d4) (h5 : IsDigit d5) (h6 : IsDigit d6) (h7 : IsDigit d7) :
    (assemble64 d0 d1 d2 d3 d4 d5 d6 d7).2 = false ↔
      (d0 = 255 ∨ d1 = 255 ∨ d2 = 255 ∨ d3 = 255 ∨ d4 = 255 ∨ d5 = 255 ∨ d6 = 255 ∨ d7 = 255) := by
  have a := or4_eq_255 h0 h1 h2 h3
  have b4 := isDigit_or a.1 h4
  have b5 := isDigit_or b4.1 h5
  have b6 := isDigit_or b5.1 h6
  have b7 := isDigit_or b6.1 h7
  have key : (d0 ||| d1 ||| d2 ||| d3 ||| d4 ||| d5 ||| d6 ||| d7) = 255 ↔
      (d0 = 255 ∨ d1 = 255 ∨ d2 = 255 ∨ d3 = 255 ∨ d4 = 255 ∨ d5 = 255 ∨ d6 = 255 ∨ d7 = 255) := by
    rw [b7.2, b6.2, b5.2, b4.2, a.2]; simp only [or_assoc]
  rw [assemble64_eq, ← key]
  split
  · next h => simp [h]
  · next h => simp [h]

theorem assemble64_val {d0 d1 d2 d3 d4 d5 d6 d7 : Nat}
    (h0 : d0 < 64) (h1 : d1 < 64) (h2 : d2 < 64) (h3 : d3 < 64)
    (h4 : d4 < 64) (h5 : d5 < 64) (h6 : d6 < 64) (h7 : d7 < 64) :
    (assemble64 d0 d1 d2 d3 d4 d5 d6 d7).1 =
      decodeQuantum_val d0 d1 d2 d3 * 1099511627776 + decodeQuantum_val d4 d5 d6 d7 * 65536 := by
  have hne : ¬ (d0 ||| d1 ||| d2 ||| d3 ||| d4 ||| d5 ||| d6 ||| d7) = 255 := by
    have := (assemble64_flag (Or.inl h0) (Or.inl h1) (Or.inl h2) (Or.inl h3)
      (Or.inl h4) (Or.inl h5) (Or.inl h6) (Or.inl h7))
    rw [assemble64_eq] at this
    intro h; rw [if_pos h] at this; simp at this; omega
  have A := a64_hi_terms ⟨d0, h0⟩; have B := a64_hi_terms ⟨d1, h1⟩
  have C := a64_hi_terms ⟨d2, h2⟩; have D := a64_hi_terms ⟨d3, h3⟩
  have E := a64_lo_terms ⟨d4, h4⟩; have F := a64_lo_terms ⟨d5, h5⟩
  have G := a64_lo_terms ⟨d6, h6⟩; have H := a64_lo_terms ⟨d7, h7⟩
  simp only at A B C D E F G H
  have hv2 := val_lt h4 h5 h6 h7
  -- the right-hand side as an OR of two shifted quantum values
  have rhs : decodeQuantum_val d0 d1 d2 d3 * 1099511627776 + decodeQuantum_val d4 d5 d6 d7 * 65536 =
      decodeQuantum_val d0 d1 d2 d3 <<< 40 ||| decodeQuantum_val d4 d5 d6 d7 <<< 16 := by
    have hlt : decodeQuantum_val d4 d5 d6 d7 <<< 16 < 2 ^ 40 := by
      rw [Nat.shiftLeft_eq]
      have : decodeQuantum_val d4 d5 d6 d7 < 16777216 := by simpa using hv2
      show _ * 65536 < 1099511627776
      omega
    rw [← Nat.shiftLeft_add_eq_or_of_lt hlt, Nat.shiftLeft_eq, Nat.shiftLeft_eq]
  rw [rhs, assemble64_eq, if_neg hne, decodeQuantum_val_eq, decodeQuantum_val_eq]
  simp only [shl_or]
  rw [A.1, B.2.1, B.2.2.1, C.2.2.2.1, C.2.2.2.2.1, D.2.2.2.2.2,
    E.1, F.2.1, F.2.2.1, G.2.2.2.1, G.2.2.2.2.1, H.2.2.2.2.2]
  simp only [Nat.or_assoc]

/-! ## Encoder: kernels against the bit-level spec -/

/-- Full group: the four symbol indices are the successive 6-bit groups of the little-endian value. -/
theorem quantum_digits {b0 b1 b2 : Nat} (h0 : b0 < 256) (h1 : b1 < 256) (h2 : b2 < 256) :
    Encode_sym0 (Encode_val b0 b1 b2) = digit (b0 + 256 * b1 + 65536 * b2) 0 ∧
    Encode_sym1 (Encode_val b0 b1 b2) = digit (b0 + 256 * b1 + 65536 * b2) 1 ∧
    Encode_sym2 (Encode_val b0 b1 b2) = digit (b0 + 256 * b1 + 65536 * b2) 2 ∧
    Encode_sym3 (Encode_val b0 b1 b2) = digit (b0 + 256 * b1 + 65536 * b2) 3 := by
  rw [sym0_val h0 h1 h2, sym1_val h0 h1 h2, sym2_val h0 h1 h2, sym3_val h0 h1 h2]
  simp only [digit, Nat.reducePow]
  omega

theorem tail2_digits {b0 b1 : Nat} (h0 : b0 < 256) (h1 : b1 < 256) :
    EncodeTail_sym0 (EncodeTail_val b0 ||| EncodeTail_or b1) = digit (b0 + 256 * b1) 0 ∧
    EncodeTail_sym1 (EncodeTail_val b0 ||| EncodeTail_or b1) = digit (b0 + 256 * b1) 1 ∧
    EncodeTail_sym2 (EncodeTail_val b0 ||| EncodeTail_or b1) = digit (b0 + 256 * b1) 2 := by
  have h := quantum_digits h0 h1 (show 0 < 256 by omega)
  rw [tail2_val, tail_sym0_eq, tail_sym1_eq, tail_sym2_eq]
  simpa using ⟨h.1, h.2.1, h.2.2.1⟩

theorem tail1_digits {b0 : Nat} (h0 : b0 < 256) :
    EncodeTail_sym0 (EncodeTail_val b0) = digit b0 0 ∧
    EncodeTail_sym1 (EncodeTail_val b0) = digit b0 1 := by
  have h := quantum_digits h0 (show 0 < 256 by omega) (show 0 < 256 by omega)
  rw [tail1_val, tail_sym0_eq, tail_sym1_eq]
  simpa using ⟨h.1, h.2.1⟩

theorem digit_lt (w k : Nat) : digit w k < 64 := by unfold digit; omega

theorem padBytes_eq (e : Encoding) (n : Nat) : padBytes e n = padding e.pad n := by
  unfold padBytes padding; cases e.pad <;> rfl

theorem encode_eq_specEncode (e : Encoding) (src : Bytes) :
    encode e src = specEncode e.alphabet e.pad src := by
  fun_induction encode e src with
  | case1 b0 b1 b2 rest val ih =>
    have h := quantum_digits (UInt8.toNat_lt b0) (UInt8.toNat_lt b1) (UInt8.toNat_lt b2)
    simp only [val, specEncode, symbol, Encoding.sym, h.1, h.2.1, h.2.2.1, h.2.2.2, ih]
  | case2 b0 b1 val =>
    have h := tail2_digits (UInt8.toNat_lt b0) (UInt8.toNat_lt b1)
    simp only [val, specEncode, symbol, Encoding.sym, h.1, h.2.1, h.2.2, padBytes_eq]
  | case3 b0 val =>
    have h := tail1_digits (UInt8.toNat_lt b0)
    simp only [val, specEncode, symbol, Encoding.sym, h.1, h.2, padBytes_eq]
  | case4 => simp [specEncode]

/-! ## Lengths -/

theorem EncodedLen_eq (noPad : Bool) (n : Nat) :
    EncodedLen noPad n = if noPad then (n * 8 + 5) / 6 else (n + 2) / 3 * 4 := by
  cases noPad <;> rfl

theorem DecodedLen_eq (noPad : Bool) (n : Nat) :
    DecodedLen noPad n = if noPad then n * 6 / 8 else n / 4 * 3 := by
  cases noPad <;> rfl

theorem padBytes_length (e : Encoding) (n : Nat) :
    (padBytes e n).length = if e.pad.isNone then 0 else n := by
  unfold padBytes; cases e.pad <;> simp

theorem encode_length_eq (e : Encoding) (src : Bytes) :
    (encode e src).length = encodedLen e src.length := by
  fun_induction encode e src with
  | case1 b0 b1 b2 rest val ih =>
    simp only [List.length_cons, ih, encodedLen, EncodedLen_eq]
    split <;> omega
  | case2 b0 b1 val =>
    simp only [List.length_cons, List.length_append, List.length_nil, padBytes_length, encodedLen,
      EncodedLen_eq]
    split <;> omega
  | case3 b0 val =>
    simp only [List.length_cons, List.length_append, List.length_nil, padBytes_length, encodedLen,
      EncodedLen_eq]
    split <;> omega
  | case4 => simp [encodedLen, EncodedLen_eq]

/-! ## `decodeMap` -/

/-- `decodeMap[c]` after the first `n` alphabet entries have been stored. -/
def dmPrefix (alphabet : Bytes) (c : UInt8) (n : Nat) : Nat :=
  (List.range n).foldl (fun acc i => if alphabet.getD i 0 = c then i else acc) 255

theorem decodeMapOf_eq (alphabet : Bytes) (c : UInt8) :
    decodeMapOf alphabet c = dmPrefix alphabet c alphabet.length := rfl

theorem dmPrefix_succ (al : Bytes) (c : UInt8) (n : Nat) :
    dmPrefix al c (n + 1) = if al.getD n 0 = c then n else dmPrefix al c n := by
  simp [dmPrefix, List.range_succ, List.foldl_append]

theorem dmPrefix_range (al : Bytes) (c : UInt8) (n : Nat) :
    dmPrefix al c n = 255 ∨ dmPrefix al c n < n := by
  induction n with
  | zero => left; rfl
  | succ n ih =>
    rw [dmPrefix_succ]; split
    · right; omega
    · rcases ih with h | h
      · left; exact h
      · right; omega

theorem dmPrefix_not_mem (al : Bytes) (c : UInt8) (hc : c ∉ al) (n : Nat) (hn : n ≤ al.length) :
    dmPrefix al c n = 255 := by
  induction n with
  | zero => rfl
  | succ n ih =>
    rw [dmPrefix_succ, if_neg, ih (by omega)]
    intro h
    apply hc
    rw [← h, ← List.getElem_eq_getD (h := by omega)]
    exact List.getElem_mem _

theorem dmPrefix_nodup (al : Bytes) (hnd : al.Nodup) (i n : Nat) (hi : i < n) (hn : n ≤ al.length) :
    dmPrefix al (al.getD i 0) n = i := by
  induction n with
  | zero => omega
  | succ n ih =>
    rw [dmPrefix_succ]
    split
    · next h =>
      exact (List.getD_inj (by omega) (by omega) hnd).1 h
    · next h =>
      have : i ≠ n := by intro hh; subst hh; exact h rfl
      exact ih (by omega) (by omega)

/-! ## The exported alphabets -/

set_option maxRecDepth 100000 in
theorem alphabets_ok :
    (GoCrypt.Gen.hash.encoder = cryptAlphabet ∧ GoCrypt.Gen.bcrypt.encoder = bcryptAlphabet) ∧
    (GoCrypt.Gen.hash.encoder.length = 64 ∧ GoCrypt.Gen.hash.encoder.Nodup ∧
      61 ∉ GoCrypt.Gen.hash.encoder ∧ 10 ∉ GoCrypt.Gen.hash.encoder ∧ 13 ∉ GoCrypt.Gen.hash.encoder) ∧
    (GoCrypt.Gen.bcrypt.encoder.length = 64 ∧ GoCrypt.Gen.bcrypt.encoder.Nodup ∧
      61 ∉ GoCrypt.Gen.bcrypt.encoder ∧ 10 ∉ GoCrypt.Gen.bcrypt.encoder ∧ 13 ∉ GoCrypt.Gen.bcrypt.encoder) := by
  decide +kernel

/-! ## Decoder: array access, `skipNL`, `collect` -/

theorem arr_getD_eq {a : Array UInt8} {i : Nat} (h : i < a.size) (d : UInt8) : a.getD i d = a[i] := by
  simp [Array.getD, h]

theorem getD_append_toArray (P S : List UInt8) (k : Nat) (d : UInt8) :
    ((P ++ S).toArray).getD (P.length + k) d = S.getD k d := by
  rw [Array.getD_eq_getD_getElem?, List.getD_eq_getElem?_getD]
  simp [List.getElem?_append_right]

theorem skipNL_of_ge (src : Array UInt8) (si : Nat) (h : src.size ≤ si) : skipNL src si = si := by
  rw [skipNL]; simp [Nat.not_lt.2 h]

theorem skipNL_of_not (src : Array UInt8) (si : Nat) (h : si < src.size)
    (hc : isNL (src.getD si 0) = false) : skipNL src si = si := by
  rw [skipNL]; rw [arr_getD_eq h] at hc; simp [h, hc]

theorem collect_done (e : Encoding) (src : Array UInt8) (si : Nat) (dbuf : List Nat) :
    collect e src si 4 dbuf = .inr (si, 4, dbuf, none) := by
  rw [collect]; simp

theorem collect_valid (e : Encoding) (src : Array UInt8) (si j : Nat) (dbuf : List Nat)
    (h : si < src.size) (hj : j < 4) (hd : e.dec (src.getD si 0) ≠ 255) :
    collect e src si j dbuf = collect e src (si + 1) (j + 1) (e.dec (src.getD si 0) :: dbuf) := by
  rw [collect]; rw [arr_getD_eq h] at hd ⊢
  simp [h, Nat.not_le.2 hj, hd]

theorem collect_eof (e : Encoding) (src : Array UInt8) (si j : Nat) (dbuf : List Nat)
    (h : src.size ≤ si) (hj : j = 2 ∨ j = 3) (hp : e.pad = none) :
    collect e src si j dbuf = .inr (si, j, dbuf, none) := by
  rw [collect]
  have : ¬ si < src.size := by omega
  rcases hj with rfl | rfl <;> simp [this, hp]

theorem collect_pad3 (e : Encoding) (src : Array UInt8) (si : Nat) (dbuf : List Nat) (p : UInt8)
    (h : src.size = si + 1) (hc : src.getD si 0 = p) (hp : e.pad = some p)
    (hd : e.dec p = 255) (hnl : isNL p = false) :
    collect e src si 3 dbuf = .inr (si + 1, 3, dbuf, none) := by
  have h' : si < src.size := by omega
  rw [collect]; rw [arr_getD_eq h'] at hc
  simp [hc, hd, hnl, hp, skipNL_of_ge src (si + 1) (by omega), h]

theorem collect_pad2 (e : Encoding) (src : Array UInt8) (si : Nat) (dbuf : List Nat) (p : UInt8)
    (h : src.size = si + 2) (hc : src.getD si 0 = p) (hc1 : src.getD (si + 1) 0 = p) (hp : e.pad = some p)
    (hd : e.dec p = 255) (hnl : isNL p = false) :
    collect e src si 2 dbuf = .inr (si + 2, 2, dbuf, none) := by
  have h' : si < src.size := by omega
  rw [collect]; rw [arr_getD_eq h'] at hc
  have s1 : skipNL src (si + 1) = si + 1 := skipNL_of_not src (si + 1) (by omega) (by rw [hc1]; exact hnl)
  simp [hc, hd, hnl, hp, s1, hc1, skipNL_of_ge src (si + 1 + 1) (by omega), h]

/-! ## Decoder: `decodeQuantum` from the collected digits -/

theorem setChk_of_lt (dst : Array UInt8) (i v : Nat) (h : i < dst.size) :
    setChk dst i v = some (dst.setIfInBounds i (UInt8.ofNat v)) := by
  simp [setChk, h]

theorem dq_of_collect4 (e : Encoding) (dst src : Array UInt8) (n si si' d0 d1 d2 d3 : Nat)
    (hcol : collect e src si 0 [] = .inr (si', 4, [d3, d2, d1, d0], none))
    (hn : n + 2 < dst.size) :
    decodeQuantum e dst n src si = some ⟨si', 3, none,
      ((dst.setIfInBounds (n + 2) (UInt8.ofNat (decodeQuantum_out2 (decodeQuantum_val d0 d1 d2 d3)))).setIfInBounds
        (n + 1) (UInt8.ofNat (decodeQuantum_out1 (decodeQuantum_val d0 d1 d2 d3)))).setIfInBounds
        n (UInt8.ofNat (decodeQuantum_out0 (decodeQuantum_val d0 d1 d2 d3)))⟩ := by
  unfold decodeQuantum
  rw [hcol]
  have h1 : n + 1 < dst.size := by omega
  have h0 : n < dst.size := by omega
  simp [setChk, hn, h1, h0]

theorem dq_of_collect3 (e : Encoding) (dst src : Array UInt8) (n si si' d0 d1 d2 : Nat)
    (hcol : collect e src si 0 [] = .inr (si', 3, [d2, d1, d0], none))
    (hn : n + 1 < dst.size)
    (ho2 : decodeQuantum_out2 (decodeQuantum_val d0 d1 d2 0) = 0) :
    decodeQuantum e dst n src si = some ⟨si', 2, none,
      (dst.setIfInBounds
        (n + 1) (UInt8.ofNat (decodeQuantum_out1 (decodeQuantum_val d0 d1 d2 0)))).setIfInBounds
        n (UInt8.ofNat (decodeQuantum_out0 (decodeQuantum_val d0 d1 d2 0)))⟩ := by
  unfold decodeQuantum
  rw [hcol]
  have h0 : n < dst.size := by omega
  simp [setChk, hn, h0, ho2]

theorem dq_of_collect2 (e : Encoding) (dst src : Array UInt8) (n si si' d0 d1 : Nat)
    (hcol : collect e src si 0 [] = .inr (si', 2, [d1, d0], none))
    (hn : n < dst.size)
    (ho1 : decodeQuantum_out1 (decodeQuantum_val d0 d1 0 0) = 0)
    (ho2 : decodeQuantum_out2 (decodeQuantum_val d0 d1 0 0) = 0) :
    decodeQuantum e dst n src si = some ⟨si', 1, none,
      dst.setIfInBounds n (UInt8.ofNat (decodeQuantum_out0 (decodeQuantum_val d0 d1 0 0)))⟩ := by
  unfold decodeQuantum
  rw [hcol]
  simp [setChk, hn, ho1, ho2]

/-! ## Decoder: destination buffer -/

theorem ofNat_congr {a b : Nat} (h : a % 256 = b % 256) : UInt8.ofNat a = UInt8.ofNat b := by
  rw [← UInt8.ofNat_mod_size (x := a), ← UInt8.ofNat_mod_size (x := b)]
  show UInt8.ofNat (a % 256) = UInt8.ofNat (b % 256)
  rw [h]

theorem sIB_append (pre t : List UInt8) (k : Nat) (v : UInt8) :
    (pre ++ t).toArray.setIfInBounds (pre.length + k) v = (pre ++ t.set k v).toArray := by
  simp

theorem sIB_append0 (pre t : List UInt8) (v : UInt8) :
    (pre ++ t).toArray.setIfInBounds pre.length v = (pre ++ t.set 0 v).toArray := by
  simp

theorem writeAt_append (bs pre t : List UInt8) (h : bs.length ≤ t.length) :
    writeAt (pre ++ t).toArray pre.length bs = (pre ++ (bs ++ t.drop bs.length)).toArray := by
  induction bs generalizing pre t with
  | nil => simp [writeAt]
  | cons b rest ih =>
    cases t with
    | nil => simp at h
    | cons t0 t' =>
      rw [writeAt, sIB_append0]
      have := ih (pre ++ [b]) t' (by simpa using h)
      simp at this
      simpa using this

theorem be4 (v : Nat) :
    be (v * 256) 4 = [UInt8.ofNat (decodeQuantum_out0 v), UInt8.ofNat (decodeQuantum_out1 v),
      UInt8.ofNat (decodeQuantum_out2 v), 0] := by
  simp only [be, List.range, List.range.loop, List.map, decodeQuantum_out0, decodeQuantum_out1,
    decodeQuantum_out2, Nat.shiftRight_eq_div_pow]
  simp only [List.cons.injEq, and_true]
  refine ⟨ofNat_congr ?_, ofNat_congr ?_, ofNat_congr ?_, ofNat_congr ?_⟩ <;> simp <;> omega

/-! ## Decoder: control flow of one `Decode` iteration -/

def viaQ (e : Encoding) (src : Array UInt8) (si n : Nat) (dst : Array UInt8) (ph : Nat) :
    Sum DRes (Nat × Nat × Nat × Array UInt8) :=
  match decodeQuantum e dst n src si with
  | none => .inl ⟨n, none, dst, true⟩
  | some q =>
    match q.err with
    | some off => .inl ⟨n + q.n, some off, q.dst, false⟩
    | none => .inr (ph, q.si, n + q.n, q.dst)

theorem decodeStep_cases (e : Encoding) (src : Array UInt8) (phase si n : Nat) (dst : Array UInt8) :
    (phase = 0 ∧ src.size - si ≥ 8 ∧ dst.size - n ≥ 8 ∧
      (assemble64 (e.dec (src.getD si 0)) (e.dec (src.getD (si+1) 0)) (e.dec (src.getD (si+2) 0)) (e.dec (src.getD (si+3) 0))
         (e.dec (src.getD (si+4) 0)) (e.dec (src.getD (si+5) 0)) (e.dec (src.getD (si+6) 0)) (e.dec (src.getD (si+7) 0))).2 = true ∧
      decodeStep e src phase si n dst = .inr (0, si + 8, n + 6, writeAt dst n (be
        (assemble64 (e.dec (src.getD si 0)) (e.dec (src.getD (si+1) 0)) (e.dec (src.getD (si+2) 0)) (e.dec (src.getD (si+3) 0))
         (e.dec (src.getD (si+4) 0)) (e.dec (src.getD (si+5) 0)) (e.dec (src.getD (si+6) 0)) (e.dec (src.getD (si+7) 0))).1 8))) ∨
    (src.size - si ≥ 4 ∧ dst.size - n ≥ 4 ∧
      (assemble32 (e.dec (src.getD si 0)) (e.dec (src.getD (si+1) 0)) (e.dec (src.getD (si+2) 0)) (e.dec (src.getD (si+3) 0))).2 = true ∧
      decodeStep e src phase si n dst = .inr (1, si + 4, n + 3, writeAt dst n (be
        (assemble32 (e.dec (src.getD si 0)) (e.dec (src.getD (si+1) 0)) (e.dec (src.getD (si+2) 0)) (e.dec (src.getD (si+3) 0))).1 4))) ∨
    (∃ ph, decodeStep e src phase si n dst = viaQ e src si n dst ph) := by
  unfold decodeStep
  simp only []
  split
  · next h =>
    split
    · next h2 => left; exact ⟨h.1, h.2.1, h.2.2, h2, rfl⟩
    · right; right; exact ⟨0, rfl⟩
  · split
    · next h =>
      split
      · next h2 => right; left; exact ⟨h.2.1, h.2.2, h2, rfl⟩
      · right; right; exact ⟨1, rfl⟩
    · right; right; exact ⟨2, rfl⟩

/-! ## Well-formed encodings -/

/-- Well-formed encodings (what `NewEncoding`/`WithPadding` accept). -/
def WellFormed (e : Encoding) : Prop := WellFormedAlphabet e.alphabet e.pad

theorem dec_sym {e : Encoding} (wf : WellFormed e) {i : Nat} (hi : i < 64) : e.dec (e.sym i) = i :=
  dmPrefix_nodup e.alphabet wf.nodup i _ (by rw [wf.length]; exact hi) (Nat.le_refl _)

theorem dec_pad {e : Encoding} (wf : WellFormed e) {p : UInt8} (hp : e.pad = some p) : e.dec p = 255 :=
  dmPrefix_not_mem e.alphabet p (wf.pad_ok p hp).1 _ (Nat.le_refl _)

theorem isNL_pad {e : Encoding} (wf : WellFormed e) {p : UInt8} (hp : e.pad = some p) : isNL p = false := by
  have := wf.pad_ok p hp
  simp [isNL, this.2.1, this.2.2]

theorem dec_isDigit {e : Encoding} (wf : WellFormed e) (c : UInt8) : IsDigit (e.dec c) := by
  have := dmPrefix_range e.alphabet c e.alphabet.length
  rw [wf.length] at this
  unfold Encoding.dec; rw [decodeMapOf_eq, wf.length]
  rcases this with h | h
  · right; exact h
  · left; exact h

/-! ## Shape of the encoder output -/

theorem encode_cons3 (e : Encoding) (b0 b1 b2 : UInt8) (rest : Bytes) :
    encode e (b0 :: b1 :: b2 :: rest) =
      e.sym (digit (b0.toNat + 256 * b1.toNat + 65536 * b2.toNat) 0) ::
      e.sym (digit (b0.toNat + 256 * b1.toNat + 65536 * b2.toNat) 1) ::
      e.sym (digit (b0.toNat + 256 * b1.toNat + 65536 * b2.toNat) 2) ::
      e.sym (digit (b0.toNat + 256 * b1.toNat + 65536 * b2.toNat) 3) :: encode e rest := by
  simp only [encode_eq_specEncode, specEncode, symbol, Encoding.sym]

theorem encode_two (e : Encoding) (b0 b1 : UInt8) :
    encode e [b0, b1] =
      [e.sym (digit (b0.toNat + 256 * b1.toNat) 0), e.sym (digit (b0.toNat + 256 * b1.toNat) 1),
       e.sym (digit (b0.toNat + 256 * b1.toNat) 2)] ++ padBytes e 1 := by
  simp only [encode_eq_specEncode, specEncode, symbol, Encoding.sym, padBytes_eq]

theorem encode_one (e : Encoding) (b0 : UInt8) :
    encode e [b0] = [e.sym (digit b0.toNat 0), e.sym (digit b0.toNat 1)] ++ padBytes e 2 := by
  simp only [encode_eq_specEncode, specEncode, symbol, Encoding.sym, padBytes_eq]

theorem encode_append (e : Encoding) (pre rest : Bytes) (h : pre.length % 3 = 0) :
    encode e (pre ++ rest) = encode e pre ++ encode e rest := by
  fun_induction encode e pre with
  | case1 b0 b1 b2 pre' val ih =>
    have : pre'.length % 3 = 0 := by simp at h; omega
    simp only [List.cons_append, encode, ih this]
    rfl
  | case2 => simp at h
  | case3 => simp at h
  | case4 => simp

/-! ## Round trip of the digits -/

theorem roundtrip_digits {b0 b1 b2 : Nat} (h0 : b0 < 256) (h1 : b1 < 256) (h2 : b2 < 256) :
    decodeQuantum_out0 (decodeQuantum_val (digit (b0 + 256 * b1 + 65536 * b2) 0) (digit (b0 + 256 * b1 + 65536 * b2) 1)
      (digit (b0 + 256 * b1 + 65536 * b2) 2) (digit (b0 + 256 * b1 + 65536 * b2) 3)) = b0 ∧
    decodeQuantum_out1 (decodeQuantum_val (digit (b0 + 256 * b1 + 65536 * b2) 0) (digit (b0 + 256 * b1 + 65536 * b2) 1)
      (digit (b0 + 256 * b1 + 65536 * b2) 2) (digit (b0 + 256 * b1 + 65536 * b2) 3)) = b1 ∧
    decodeQuantum_out2 (decodeQuantum_val (digit (b0 + 256 * b1 + 65536 * b2) 0) (digit (b0 + 256 * b1 + 65536 * b2) 1)
      (digit (b0 + 256 * b1 + 65536 * b2) 2) (digit (b0 + 256 * b1 + 65536 * b2) 3)) = b2 := by
  rw [out0_val (digit_lt _ _) (digit_lt _ _) (digit_lt _ _) (digit_lt _ _),
    out1_val (digit_lt _ _) (digit_lt _ _) (digit_lt _ _) (digit_lt _ _),
    out2_val (digit_lt _ _) (digit_lt _ _) (digit_lt _ _) (digit_lt _ _)]
  simp only [digit, Nat.reducePow]
  omega

theorem roundtrip_tail2 {b0 b1 : Nat} (h0 : b0 < 256) (h1 : b1 < 256) :
    decodeQuantum_out0 (decodeQuantum_val (digit (b0 + 256 * b1) 0) (digit (b0 + 256 * b1) 1)
      (digit (b0 + 256 * b1) 2) 0) = b0 ∧
    decodeQuantum_out1 (decodeQuantum_val (digit (b0 + 256 * b1) 0) (digit (b0 + 256 * b1) 1)
      (digit (b0 + 256 * b1) 2) 0) = b1 ∧
    decodeQuantum_out2 (decodeQuantum_val (digit (b0 + 256 * b1) 0) (digit (b0 + 256 * b1) 1)
      (digit (b0 + 256 * b1) 2) 0) = 0 := by
  have h := roundtrip_digits h0 h1 (show 0 < 256 by omega)
  have h3 : digit (b0 + 256 * b1) 3 = 0 := by simp only [digit, Nat.reducePow]; omega
  simp only [Nat.mul_zero, Nat.add_zero, h3] at h
  exact h

theorem roundtrip_tail1 {b0 : Nat} (h0 : b0 < 256) :
    decodeQuantum_out0 (decodeQuantum_val (digit b0 0) (digit b0 1) 0 0) = b0 ∧
    decodeQuantum_out1 (decodeQuantum_val (digit b0 0) (digit b0 1) 0 0) = 0 ∧
    decodeQuantum_out2 (decodeQuantum_val (digit b0 0) (digit b0 1) 0 0) = 0 := by
  have h := roundtrip_tail2 h0 (show 0 < 256 by omega)
  have h3 : digit b0 2 = 0 := by simp only [digit, Nat.reducePow]; omega
  simp only [Nat.mul_zero, Nat.add_zero, h3] at h
  exact h

theorem be8 (v1 v2 : Nat) (h2 : v2 < 2 ^ 24) :
    be (v1 * 1099511627776 + v2 * 65536) 8 =
      [UInt8.ofNat (decodeQuantum_out0 v1), UInt8.ofNat (decodeQuantum_out1 v1), UInt8.ofNat (decodeQuantum_out2 v1),
       UInt8.ofNat (decodeQuantum_out0 v2), UInt8.ofNat (decodeQuantum_out1 v2), UInt8.ofNat (decodeQuantum_out2 v2),
       0, 0] := by
  simp only [be, List.range, List.range.loop, List.map, decodeQuantum_out0, decodeQuantum_out1,
    decodeQuantum_out2, Nat.shiftRight_eq_div_pow]
  simp only [List.cons.injEq, and_true]
  simp only [Nat.reducePow] at h2
  refine ⟨ofNat_congr ?_, ofNat_congr ?_, ofNat_congr ?_, ofNat_congr ?_, ofNat_congr ?_, ofNat_congr ?_,
    ofNat_congr ?_, ofNat_congr ?_⟩ <;> simp <;> omega

/-! ## Decoder: `decodeQuantum` on encoder output -/

theorem getD_append_toArray0 (P S : List UInt8) (d : UInt8) :
    ((P ++ S).toArray).getD P.length d = S.getD 0 d := getD_append_toArray P S 0 d

theorem collect_two (e : Encoding) (src : Array UInt8) (si d0 d1 : Nat)
    (h : si + 2 ≤ src.size)
    (h0 : e.dec (src.getD si 0) = d0) (h1 : e.dec (src.getD (si + 1) 0) = d1)
    (l0 : d0 < 64) (l1 : d1 < 64) :
    collect e src si 0 [] = collect e src (si + 2) 2 [d1, d0] := by
  rw [collect_valid e src si 0 [] (by omega) (by omega) (by omega), h0,
    collect_valid e src (si + 1) 1 _ (by omega) (by omega) (by omega), h1]

theorem collect_three (e : Encoding) (src : Array UInt8) (si d0 d1 d2 : Nat)
    (h : si + 3 ≤ src.size)
    (h0 : e.dec (src.getD si 0) = d0) (h1 : e.dec (src.getD (si + 1) 0) = d1)
    (h2 : e.dec (src.getD (si + 2) 0) = d2)
    (l0 : d0 < 64) (l1 : d1 < 64) (l2 : d2 < 64) :
    collect e src si 0 [] = collect e src (si + 3) 3 [d2, d1, d0] := by
  rw [collect_two e src si d0 d1 (by omega) h0 h1 l0 l1,
    collect_valid e src (si + 2) 2 _ (by omega) (by omega) (by omega), h2]

theorem collect_four (e : Encoding) (src : Array UInt8) (si d0 d1 d2 d3 : Nat)
    (h : si + 4 ≤ src.size)
    (h0 : e.dec (src.getD si 0) = d0) (h1 : e.dec (src.getD (si + 1) 0) = d1)
    (h2 : e.dec (src.getD (si + 2) 0) = d2) (h3 : e.dec (src.getD (si + 3) 0) = d3)
    (l0 : d0 < 64) (l1 : d1 < 64) (l2 : d2 < 64) (l3 : d3 < 64) :
    collect e src si 0 [] = .inr (si + 4, 4, [d3, d2, d1, d0], none) := by
  rw [collect_three e src si d0 d1 d2 (by omega) h0 h1 h2 l0 l1 l2,
    collect_valid e src (si + 3) 3 _ (by omega) (by omega) (by omega), h3, collect_done]

/-- `decodeQuantum` on a full encoded group. -/
theorem dq_full {e : Encoding} (wf : WellFormed e) (P S' pre t : List UInt8) (b0 b1 b2 : UInt8)
    (ht : 3 ≤ t.length) :
    decodeQuantum e (pre ++ t).toArray pre.length
      (P ++ (e.sym (digit (b0.toNat + 256 * b1.toNat + 65536 * b2.toNat) 0) ::
             e.sym (digit (b0.toNat + 256 * b1.toNat + 65536 * b2.toNat) 1) ::
             e.sym (digit (b0.toNat + 256 * b1.toNat + 65536 * b2.toNat) 2) ::
             e.sym (digit (b0.toNat + 256 * b1.toNat + 65536 * b2.toNat) 3) :: S')).toArray P.length =
      some ⟨P.length + 4, 3, none, (pre ++ (b0 :: b1 :: b2 :: t.drop 3)).toArray⟩ := by
  match t, ht with
  | t0 :: t1 :: t2 :: t', _ =>
    have hcol := collect_four e (P ++ (e.sym (digit (b0.toNat + 256 * b1.toNat + 65536 * b2.toNat) 0) ::
             e.sym (digit (b0.toNat + 256 * b1.toNat + 65536 * b2.toNat) 1) ::
             e.sym (digit (b0.toNat + 256 * b1.toNat + 65536 * b2.toNat) 2) ::
             e.sym (digit (b0.toNat + 256 * b1.toNat + 65536 * b2.toNat) 3) :: S')).toArray P.length _ _ _ _
      (by simp <;> omega)
      (by rw [getD_append_toArray0]; exact dec_sym wf (digit_lt _ _))
      (by rw [getD_append_toArray]; exact dec_sym wf (digit_lt _ _))
      (by rw [getD_append_toArray]; exact dec_sym wf (digit_lt _ _))
      (by rw [getD_append_toArray]; exact dec_sym wf (digit_lt _ _))
      (digit_lt _ _) (digit_lt _ _) (digit_lt _ _) (digit_lt _ _)
    rw [dq_of_collect4 e _ _ _ _ _ _ _ _ _ hcol (by simp <;> omega)]
    have r := roundtrip_digits (UInt8.toNat_lt b0) (UInt8.toNat_lt b1) (UInt8.toNat_lt b2)
    rw [r.1, r.2.1, r.2.2]
    simp only [UInt8.ofNat_toNat, sIB_append, sIB_append0]
    simp

theorem dq_tail2 {e : Encoding} (wf : WellFormed e) (P pre t : List UInt8) (b0 b1 : UInt8)
    (ht : 2 ≤ t.length) :
    decodeQuantum e (pre ++ t).toArray pre.length
      (P ++ ([e.sym (digit (b0.toNat + 256 * b1.toNat) 0), e.sym (digit (b0.toNat + 256 * b1.toNat) 1),
              e.sym (digit (b0.toNat + 256 * b1.toNat) 2)] ++ padBytes e 1)).toArray P.length =
      some ⟨(P ++ ([e.sym (digit (b0.toNat + 256 * b1.toNat) 0), e.sym (digit (b0.toNat + 256 * b1.toNat) 1),
              e.sym (digit (b0.toNat + 256 * b1.toNat) 2)] ++ padBytes e 1)).length, 2, none,
        (pre ++ (b0 :: b1 :: t.drop 2)).toArray⟩ := by
  match t, ht with
  | t0 :: t1 :: t', _ =>
    generalize hS : ([e.sym (digit (b0.toNat + 256 * b1.toNat) 0), e.sym (digit (b0.toNat + 256 * b1.toNat) 1),
              e.sym (digit (b0.toNat + 256 * b1.toNat) 2)] ++ padBytes e 1) = S
    have r := roundtrip_tail2 (UInt8.toNat_lt b0) (UInt8.toNat_lt b1)
    have hcol : collect e (P ++ S).toArray P.length 0 [] =
        .inr ((P ++ S).length, 3, [digit (b0.toNat + 256 * b1.toNat) 2, digit (b0.toNat + 256 * b1.toNat) 1,
          digit (b0.toNat + 256 * b1.toNat) 0], none) := by
      rw [collect_three e (P ++ S).toArray P.length _ _ _
        (by subst hS; simp <;> omega)
        (by rw [getD_append_toArray0]; subst hS; exact dec_sym wf (digit_lt _ _))
        (by rw [getD_append_toArray]; subst hS; exact dec_sym wf (digit_lt _ _))
        (by rw [getD_append_toArray]; subst hS; exact dec_sym wf (digit_lt _ _))
        (digit_lt _ _) (digit_lt _ _) (digit_lt _ _)]
      cases hp : e.pad with
      | none =>
        have : (P ++ S).length = P.length + 3 := by subst hS; simp [padBytes, hp]
        rw [this]
        exact collect_eof e _ _ 3 _ (by rw [List.size_toArray, this]; exact Nat.le_refl _) (Or.inr rfl) hp
      | some p =>
        have : (P ++ S).length = P.length + 3 + 1 := by subst hS; simp [padBytes, hp]
        rw [this]
        exact collect_pad3 e _ _ _ p (by simpa using this)
          (by rw [getD_append_toArray]; subst hS; simp [padBytes, hp]) hp (dec_pad wf hp) (isNL_pad wf hp)
    rw [dq_of_collect3 e _ _ _ _ _ _ _ _ hcol (by simp <;> omega) r.2.2, r.1, r.2.1]
    simp only [UInt8.ofNat_toNat, sIB_append, sIB_append0]
    simp

theorem dq_tail1 {e : Encoding} (wf : WellFormed e) (P pre t : List UInt8) (b0 : UInt8)
    (ht : 1 ≤ t.length) :
    decodeQuantum e (pre ++ t).toArray pre.length
      (P ++ ([e.sym (digit b0.toNat 0), e.sym (digit b0.toNat 1)] ++ padBytes e 2)).toArray P.length =
      some ⟨(P ++ ([e.sym (digit b0.toNat 0), e.sym (digit b0.toNat 1)] ++ padBytes e 2)).length, 1, none,
        (pre ++ (b0 :: t.drop 1)).toArray⟩ := by
  match t, ht with
  | t0 :: t', _ =>
    generalize hS : ([e.sym (digit b0.toNat 0), e.sym (digit b0.toNat 1)] ++ padBytes e 2) = S
    have r := roundtrip_tail1 (UInt8.toNat_lt b0)
    have hcol : collect e (P ++ S).toArray P.length 0 [] =
        .inr ((P ++ S).length, 2, [digit b0.toNat 1, digit b0.toNat 0], none) := by
      rw [collect_two e (P ++ S).toArray P.length _ _
        (by subst hS; simp <;> omega)
        (by rw [getD_append_toArray0]; subst hS; exact dec_sym wf (digit_lt _ _))
        (by rw [getD_append_toArray]; subst hS; exact dec_sym wf (digit_lt _ _))
        (digit_lt _ _) (digit_lt _ _)]
      cases hp : e.pad with
      | none =>
        have : (P ++ S).length = P.length + 2 := by subst hS; simp [padBytes, hp]
        rw [this]
        exact collect_eof e _ _ 2 _ (by rw [List.size_toArray, this]; exact Nat.le_refl _) (Or.inl rfl) hp
      | some p =>
        have : (P ++ S).length = P.length + 2 + 2 := by subst hS; simp [padBytes, hp]
        rw [this]
        exact collect_pad2 e _ _ _ p (by simpa using this)
          (by rw [getD_append_toArray]; subst hS; simp [padBytes, hp])
          (by rw [Nat.add_assoc, getD_append_toArray]; subst hS; simp [padBytes, hp])
          hp (dec_pad wf hp) (isNL_pad wf hp)
    rw [dq_of_collect2 e _ _ _ _ _ _ _ hcol (by simp) r.2.1 r.2.2, r.1]
    simp only [UInt8.ofNat_toNat, sIB_append0]
    simp

/-! ## Decoder: the loop on encoder output -/

theorem loop_step (e : Encoding) (src : Array UInt8) (phase si n : Nat) (dst : Array UInt8)
    (ph' si' n' : Nat) (dst' : Array UInt8)
    (h : si < src.size) (hs : decodeStep e src phase si n dst = .inr (ph', si', n', dst')) (hlt : si < si') :
    decodeLoop e src phase si n dst = decodeLoop e src ph' si' n' dst' := by
  rw [decodeLoop]; simp [h, hs, hlt]

theorem loop_end (e : Encoding) (src : Array UInt8) (phase si n : Nat) (dst : Array UInt8)
    (h : src.size ≤ si) : decodeLoop e src phase si n dst = ⟨n, none, dst, false⟩ := by
  rw [decodeLoop]; simp [Nat.not_lt.2 h]

/-- The 4-symbol fast path on a full encoded group. -/
theorem a32_full (b0 b1 b2 : UInt8) :
    let w := b0.toNat + 256 * b1.toNat + 65536 * b2.toNat
    be (assemble32 (digit w 0) (digit w 1) (digit w 2) (digit w 3)).1 4 = [b0, b1, b2, 0] := by
  intro w
  rw [assemble32_val (digit_lt _ _) (digit_lt _ _) (digit_lt _ _) (digit_lt _ _), be4]
  have r := roundtrip_digits (UInt8.toNat_lt b0) (UInt8.toNat_lt b1) (UInt8.toNat_lt b2)
  simp only [w, r.1, r.2.1, r.2.2, UInt8.ofNat_toNat]

theorem a64_full (b0 b1 b2 b3 b4 b5 : UInt8) :
    let w := b0.toNat + 256 * b1.toNat + 65536 * b2.toNat
    let w' := b3.toNat + 256 * b4.toNat + 65536 * b5.toNat
    be (assemble64 (digit w 0) (digit w 1) (digit w 2) (digit w 3)
      (digit w' 0) (digit w' 1) (digit w' 2) (digit w' 3)).1 8 = [b0, b1, b2, b3, b4, b5, 0, 0] := by
  intro w w'
  rw [assemble64_val (digit_lt _ _) (digit_lt _ _) (digit_lt _ _) (digit_lt _ _)
    (digit_lt _ _) (digit_lt _ _) (digit_lt _ _) (digit_lt _ _),
    be8 _ _ (val_lt (digit_lt _ _) (digit_lt _ _) (digit_lt _ _) (digit_lt _ _))]
  have r := roundtrip_digits (UInt8.toNat_lt b0) (UInt8.toNat_lt b1) (UInt8.toNat_lt b2)
  have r' := roundtrip_digits (UInt8.toNat_lt b3) (UInt8.toNat_lt b4) (UInt8.toNat_lt b5)
  simp only [w, w', r.1, r.2.1, r.2.2, r'.1, r'.2.1, r'.2.2, UInt8.ofNat_toNat]

/-- One `Decode` iteration at a group boundary with a full group ahead: whichever path is taken,
one group (or, on the 8-symbol path, two groups) is decoded into place. -/
theorem decodeStep_full {e : Encoding} (wf : WellFormed e) (pre rest' t : List UInt8) (b0 b1 b2 : UInt8)
    (phase : Nat) (ht : 3 ≤ t.length) :
    (∃ ph' t1, t1.length + 3 = t.length ∧
      decodeStep e (encode e pre ++ encode e (b0 :: b1 :: b2 :: rest')).toArray phase (encode e pre).length
        pre.length (pre ++ t).toArray =
      .inr (ph', (encode e pre).length + 4, pre.length + 3, (pre ++ (b0 :: b1 :: b2 :: t1)).toArray)) ∨
    (∃ b3 b4 b5 rest'' t1, rest' = b3 :: b4 :: b5 :: rest'' ∧ t1.length + 6 = t.length ∧
      decodeStep e (encode e pre ++ encode e (b0 :: b1 :: b2 :: rest')).toArray phase (encode e pre).length
        pre.length (pre ++ t).toArray =
      .inr (0, (encode e pre).length + 8, pre.length + 6,
        (pre ++ (b0 :: b1 :: b2 :: b3 :: b4 :: b5 :: t1)).toArray)) := by
  rw [encode_cons3]
  generalize encode e pre = P
  generalize hw : b0.toNat + 256 * b1.toNat + 65536 * b2.toNat = w
  have g0 : e.dec ((P ++ (e.sym (digit w 0) :: e.sym (digit w 1) :: e.sym (digit w 2) :: e.sym (digit w 3) ::
      encode e rest')).toArray.getD P.length 0) = digit w 0 := by
    rw [getD_append_toArray0]; exact dec_sym wf (digit_lt _ _)
  have g1 : e.dec ((P ++ (e.sym (digit w 0) :: e.sym (digit w 1) :: e.sym (digit w 2) :: e.sym (digit w 3) ::
      encode e rest')).toArray.getD (P.length + 1) 0) = digit w 1 := by
    rw [getD_append_toArray]; exact dec_sym wf (digit_lt _ _)
  have g2 : e.dec ((P ++ (e.sym (digit w 0) :: e.sym (digit w 1) :: e.sym (digit w 2) :: e.sym (digit w 3) ::
      encode e rest')).toArray.getD (P.length + 2) 0) = digit w 2 := by
    rw [getD_append_toArray]; exact dec_sym wf (digit_lt _ _)
  have g3 : e.dec ((P ++ (e.sym (digit w 0) :: e.sym (digit w 1) :: e.sym (digit w 2) :: e.sym (digit w 3) ::
      encode e rest')).toArray.getD (P.length + 3) 0) = digit w 3 := by
    rw [getD_append_toArray]; exact dec_sym wf (digit_lt _ _)
  have gk : ∀ k, (P ++ (e.sym (digit w 0) :: e.sym (digit w 1) :: e.sym (digit w 2) :: e.sym (digit w 3) ::
      encode e rest')).toArray.getD (P.length + (k + 4)) 0 = (encode e rest').getD k 0 := by
    intro k; rw [getD_append_toArray]; simp
  rcases decodeStep_cases e (P ++ (e.sym (digit w 0) :: e.sym (digit w 1) :: e.sym (digit w 2) ::
      e.sym (digit w 3) :: encode e rest')).toArray phase P.length pre.length (pre ++ t).toArray with
    ⟨_, hsz, hdz, hflag, heq⟩ | ⟨hsz, hdz, hflag, heq⟩ | ⟨ph, heq⟩
  · -- 8-symbol path
    rw [g0, g1, g2, g3, gk 0, gk 1, gk 2, gk 3] at hflag heq
    have hflag' : ¬ ((encode e rest').getD 0 0 |> e.dec) = 255 ∧ ¬ ((encode e rest').getD 1 0 |> e.dec) = 255 ∧
        ¬ ((encode e rest').getD 2 0 |> e.dec) = 255 ∧ ¬ ((encode e rest').getD 3 0 |> e.dec) = 255 := by
      have := (assemble64_flag (Or.inl (digit_lt w 0)) (Or.inl (digit_lt w 1)) (Or.inl (digit_lt w 2))
        (Or.inl (digit_lt w 3)) (dec_isDigit wf ((encode e rest').getD 0 0)) (dec_isDigit wf ((encode e rest').getD 1 0))
        (dec_isDigit wf ((encode e rest').getD 2 0)) (dec_isDigit wf ((encode e rest').getD 3 0)))
      rw [hflag] at this
      simp only [Bool.true_eq_false, false_iff, not_or] at this
      exact ⟨this.2.2.2.2.1, this.2.2.2.2.2.1, this.2.2.2.2.2.2.1, this.2.2.2.2.2.2.2⟩
    have ht8 : 8 ≤ t.length := by simp at hdz; omega
    right
    match rest' with
    | [] => simp [encode] at hsz
    | [b3] =>
      exfalso
      rw [encode_one] at hsz hflag'
      cases hp : e.pad with
      | none => simp [padBytes, hp] at hsz
      | some p => simp [padBytes, hp, dec_pad wf hp] at hflag'
    | [b3, b4] =>
      exfalso
      rw [encode_two] at hsz hflag'
      cases hp : e.pad with
      | none => simp [padBytes, hp] at hsz
      | some p => simp [padBytes, hp, dec_pad wf hp] at hflag'
    | b3 :: b4 :: b5 :: rest'' =>
      refine ⟨b3, b4, b5, rest'', 0 :: 0 :: t.drop 8, rfl, by simp; omega, ?_⟩
      rw [heq, encode_cons3]
      simp only [List.getD_cons_zero, List.getD_cons_succ, dec_sym wf (digit_lt _ _)]
      rw [← hw, a64_full, writeAt_append _ _ _ (by simpa using ht8)]
      simp
  · -- 4-symbol path
    rw [g0, g1, g2, g3] at heq
    have ht4 : 4 ≤ t.length := by simp at hdz; omega
    left
    refine ⟨1, 0 :: t.drop 4, by simp; omega, ?_⟩
    rw [heq, ← hw, a32_full, writeAt_append _ _ _ (by simpa using ht4)]
    simp
  · -- quantum path
    left
    refine ⟨ph, t.drop 3, by simp; omega, ?_⟩
    rw [heq, viaQ, ← hw, dq_full wf P _ pre t b0 b1 b2 ht]

theorem padBytes_length_le (e : Encoding) (n : Nat) : (padBytes e n).length ≤ n := by
  rw [padBytes_length]; split <;> omega

theorem a32_flag_last {d0 d1 d2 : Nat} (h0 : IsDigit d0) (h1 : IsDigit d1) (h2 : IsDigit d2) :
    (assemble32 d0 d1 d2 255).2 = false :=
  (assemble32_flag h0 h1 h2 (Or.inr rfl)).2 (Or.inr (Or.inr (Or.inr rfl)))

theorem decodeStep_tail2 {e : Encoding} (wf : WellFormed e) (pre t : List UInt8) (b0 b1 : UInt8)
    (phase : Nat) (ht : 2 ≤ t.length) :
    ∃ ph' t1,
      decodeStep e (encode e pre ++ encode e [b0, b1]).toArray phase (encode e pre).length
        pre.length (pre ++ t).toArray =
      .inr (ph', (encode e pre ++ encode e [b0, b1]).length, pre.length + 2, (pre ++ (b0 :: b1 :: t1)).toArray) := by
  rw [encode_two]
  generalize encode e pre = P
  have hlen := padBytes_length_le e 1
  rcases decodeStep_cases e (P ++ ([e.sym (digit (b0.toNat + 256 * b1.toNat) 0), e.sym (digit (b0.toNat + 256 * b1.toNat) 1),
      e.sym (digit (b0.toNat + 256 * b1.toNat) 2)] ++ padBytes e 1)).toArray phase P.length pre.length (pre ++ t).toArray with
    ⟨_, hsz, _, _, _⟩ | ⟨hsz, _, hflag, _⟩ | ⟨ph, heq⟩
  · exfalso; simp at hsz; omega
  · exfalso
    cases hp : e.pad with
    | none => simp [padBytes, hp] at hsz
    | some p =>
      rw [getD_append_toArray P _ 3] at hflag
      simp only [padBytes, hp, List.getD_cons_zero, List.getD_cons_succ, List.cons_append, List.nil_append,
        List.replicate, dec_pad wf hp] at hflag
      rw [a32_flag_last (dec_isDigit wf _) (dec_isDigit wf _) (dec_isDigit wf _)] at hflag
      exact absurd hflag (by decide)
  · exact ⟨ph, t.drop 2, by rw [heq, viaQ, dq_tail2 wf P pre t b0 b1 ht]⟩

theorem decodeStep_tail1 {e : Encoding} (wf : WellFormed e) (pre t : List UInt8) (b0 : UInt8)
    (phase : Nat) (ht : 1 ≤ t.length) :
    ∃ ph' t1,
      decodeStep e (encode e pre ++ encode e [b0]).toArray phase (encode e pre).length
        pre.length (pre ++ t).toArray =
      .inr (ph', (encode e pre ++ encode e [b0]).length, pre.length + 1, (pre ++ (b0 :: t1)).toArray) := by
  rw [encode_one]
  generalize encode e pre = P
  have hlen := padBytes_length_le e 2
  rcases decodeStep_cases e (P ++ ([e.sym (digit b0.toNat 0), e.sym (digit b0.toNat 1)] ++ padBytes e 2)).toArray
      phase P.length pre.length (pre ++ t).toArray with
    ⟨_, hsz, _, _, _⟩ | ⟨hsz, _, hflag, _⟩ | ⟨ph, heq⟩
  · exfalso; simp at hsz; omega
  · exfalso
    cases hp : e.pad with
    | none => simp [padBytes, hp] at hsz
    | some p =>
      rw [getD_append_toArray P _ 3] at hflag
      simp only [padBytes, hp, List.getD_cons_zero, List.getD_cons_succ, List.cons_append, List.nil_append,
        List.replicate, dec_pad wf hp] at hflag
      rw [a32_flag_last (dec_isDigit wf _) (dec_isDigit wf _) (dec_isDigit wf _)] at hflag
      exact absurd hflag (by decide)
  · exact ⟨ph, t.drop 1, by rw [heq, viaQ, dq_tail1 wf P pre t b0 ht]⟩

/-- `Decode` resumed at a group boundary of encoder output, with the already decoded bytes `pre` in
place, finishes with all of `pre ++ rest` decoded and no error — in whichever of its three loops. -/
theorem decodeLoop_encode {e : Encoding} (wf : WellFormed e) :
    ∀ (m : Nat) (pre rest t : List UInt8) (phase : Nat), rest.length ≤ m → pre.length % 3 = 0 →
      rest.length ≤ t.length →
      ∃ t', decodeLoop e (encode e pre ++ encode e rest).toArray phase (encode e pre).length pre.length
        (pre ++ t).toArray = ⟨(pre ++ rest).length, none, ((pre ++ rest) ++ t').toArray, false⟩ := by
  intro m
  induction m using Nat.strongRecOn with
  | _ m ih =>
    intro pre rest t phase hm hpre ht
    match rest, hm, ht with
    | [], _, _ =>
      refine ⟨t, ?_⟩
      rw [loop_end _ _ _ _ _ _ (by simp [encode])]; simp
    | [b0], _, ht =>
      obtain ⟨ph', t1, hs⟩ := decodeStep_tail1 wf pre t b0 phase (by simpa using ht)
      refine ⟨t1, ?_⟩
      have hpos : 2 ≤ (encode e [b0]).length := by rw [encode_one]; simp
      rw [loop_step _ _ _ _ _ _ _ _ _ _ (by simp; omega) hs (by simp; omega),
        loop_end _ _ _ _ _ _ (by simp)]
      simp
    | [b0, b1], _, ht =>
      obtain ⟨ph', t1, hs⟩ := decodeStep_tail2 wf pre t b0 b1 phase (by simpa using ht)
      refine ⟨t1, ?_⟩
      have hpos : 3 ≤ (encode e [b0, b1]).length := by rw [encode_two]; simp
      rw [loop_step _ _ _ _ _ _ _ _ _ _ (by simp; omega) hs (by simp; omega),
        loop_end _ _ _ _ _ _ (by simp)]
      simp
    | b0 :: b1 :: b2 :: rest', hm, ht =>
      have e3 : encode e (pre ++ [b0, b1, b2]) = encode e pre ++ encode e [b0, b1, b2] :=
        encode_append e pre _ hpre
      have l3 : (encode e [b0, b1, b2]).length = 4 := by rw [encode_cons3]; simp [encode]
      rcases decodeStep_full wf pre rest' t b0 b1 b2 phase (by simp at ht; omega) with
        ⟨ph', t1, ht1, hs⟩ | ⟨b3, b4, b5, rest'', t1, hr, ht1, hs⟩
      · obtain ⟨t', h'⟩ := ih rest'.length (by simp at hm; omega) (pre ++ [b0, b1, b2]) rest' t1 ph' (Nat.le_refl _)
          (by simp; omega) (by simp at ht; omega)
        refine ⟨t', ?_⟩
        rw [loop_step _ _ _ _ _ _ _ _ _ _ (by rw [encode_cons3]; simp) hs (by omega)]
        have hsrc : encode e pre ++ encode e (b0 :: b1 :: b2 :: rest') =
            encode e (pre ++ [b0, b1, b2]) ++ encode e rest' := by
          rw [e3, encode_cons3, encode_cons3]; simp [encode]
        have hsi : (encode e pre).length + 4 = (encode e (pre ++ [b0, b1, b2])).length := by
          rw [e3, List.length_append, l3]
        have hn : pre.length + 3 = (pre ++ [b0, b1, b2]).length := by simp
        have hd : (pre ++ (b0 :: b1 :: b2 :: t1)) = (pre ++ [b0, b1, b2]) ++ t1 := by simp
        rw [hsrc, hsi, hn, hd, h']
        simp
      · subst hr
        have e6 : encode e (pre ++ [b0, b1, b2, b3, b4, b5]) = encode e pre ++ encode e [b0, b1, b2, b3, b4, b5] :=
          encode_append e pre _ hpre
        have l6 : (encode e [b0, b1, b2, b3, b4, b5]).length = 8 := by
          rw [encode_cons3, encode_cons3]; simp [encode]
        obtain ⟨t', h'⟩ := ih rest''.length (by simp at hm; omega) (pre ++ [b0, b1, b2, b3, b4, b5]) rest'' t1 0
          (Nat.le_refl _) (by simp; omega) (by simp at ht; omega)
        refine ⟨t', ?_⟩
        rw [loop_step _ _ _ _ _ _ _ _ _ _ (by rw [encode_cons3]; simp) hs (by omega)]
        have hsrc : encode e pre ++ encode e (b0 :: b1 :: b2 :: b3 :: b4 :: b5 :: rest'') =
            encode e (pre ++ [b0, b1, b2, b3, b4, b5]) ++ encode e rest'' := by
          rw [e6, encode_cons3, encode_cons3, encode_cons3, encode_cons3]; simp [encode]
        have hsi : (encode e pre).length + 8 = (encode e (pre ++ [b0, b1, b2, b3, b4, b5])).length := by
          rw [e6, List.length_append, l6]
        have hn : pre.length + 6 = (pre ++ [b0, b1, b2, b3, b4, b5]).length := by simp
        have hd : (pre ++ (b0 :: b1 :: b2 :: b3 :: b4 :: b5 :: t1)) = (pre ++ [b0, b1, b2, b3, b4, b5]) ++ t1 := by simp
        rw [hsrc, hsi, hn, hd, h']
        simp

theorem decodedLen_encodedLen_ge (e : Encoding) (n : Nat) : n ≤ decodedLen e (encodedLen e n) := by
  unfold decodedLen encodedLen; rw [EncodedLen_eq, DecodedLen_eq]
  cases e.pad <;> simp <;> omega

theorem decodeString_encode {e : Encoding} (wf : WellFormed e) (src : Bytes) :
    decodeString e (encode e src) = (src, none) := by
  unfold decodeString decode
  by_cases hs : src = []
  · subst hs; simp [encode]
  · have hne : encode e src ≠ [] := by
      intro h
      have := encode_length_eq e src
      rw [h, encodedLen, EncodedLen_eq] at this
      have : src.length = 0 := by simp at this; split at this <;> omega
      exact hs (List.length_eq_zero_iff.1 this)
    simp only [hne, if_false]
    have hD := decodedLen_encodedLen_ge e src.length
    rw [← encode_length_eq] at hD
    obtain ⟨t', h⟩ := decodeLoop_encode wf src.length [] src
      (List.replicate (decodedLen e (encode e src).length) 0) 0 (Nat.le_refl _) rfl (by simpa using hD)
    simp only [encode, List.nil_append, List.length_nil] at h
    rw [← List.toArray_replicate, h]
    simp

/-! ## Rejection of malformed text and of non-zero unused bits -/

theorem collect_bad (e : Encoding) (src : Array UInt8) (si j : Nat) (dbuf : List Nat)
    (h : si < src.size) (hj : j < 4) (hbad : e.dec (src.getD si 0) = 255)
    (hnl : isNL (src.getD si 0) = false) (hpad : e.pad ≠ some (src.getD si 0)) :
    collect e src si j dbuf = .inl (si + 1, some si) := by
  rw [collect]; rw [arr_getD_eq h] at hbad hnl hpad
  simp [h, Nat.not_le.2 hj, hbad, hnl, Ne.symm hpad]

theorem dq_bad_char (e : Encoding) (dst src : Array UInt8) (n si : Nat)
    (h : si < src.size) (hbad : e.dec (src.getD si 0) = 255)
    (hnl : isNL (src.getD si 0) = false) (hpad : e.pad ≠ some (src.getD si 0)) :
    decodeQuantum e dst n src si = some ⟨si + 1, 0, some si, dst⟩ := by
  unfold decodeQuantum
  rw [collect_bad e src si 0 [] h (by omega) hbad hnl hpad]

theorem dq_short (e : Encoding) (dst src : Array UInt8) (n si : Nat) (d0 : Nat)
    (h : src.size = si + 1) (h0 : e.dec (src.getD si 0) = d0) (l0 : d0 ≠ 255) :
    decodeQuantum e dst n src si = some ⟨si + 1, 0, some si, dst⟩ := by
  unfold decodeQuantum
  rw [collect_valid e src si 0 [] (by omega) (by omega) (by rw [h0]; exact l0), collect]
  simp [h]

theorem dq_strict2 (e : Encoding) (dst src : Array UInt8) (n si si' d0 d1 : Nat) (err : Option Nat)
    (hcol : collect e src si 0 [] = .inr (si', 2, [d1, d0], err))
    (l0 : d0 < 64) (l1 : d1 < 64) (hn : n < dst.size) :
    ∃ dst', decodeQuantum e dst n src si =
      some (if e.strict = true ∧ d1 / 4 ≠ 0 then ⟨si', 0, some (si' - 2), dst'⟩ else ⟨si', 1, err, dst'⟩) := by
  have o1 := out1_val l0 l1 (show 0 < 64 by omega) (show 0 < 64 by omega)
  have o2 := out2_val l0 l1 (show 0 < 64 by omega) (show 0 < 64 by omega)
  simp only [Nat.zero_mod, Nat.zero_mul, Nat.add_zero, Nat.zero_div] at o1 o2
  refine ⟨dst.setIfInBounds n (UInt8.ofNat (decodeQuantum_out0 (decodeQuantum_val d0 d1 0 0))), ?_⟩
  unfold decodeQuantum
  rw [hcol]
  simp [setChk, hn, o1, o2]
  split <;> rfl

theorem dq_strict3 (e : Encoding) (dst src : Array UInt8) (n si si' d0 d1 d2 : Nat) (err : Option Nat)
    (hcol : collect e src si 0 [] = .inr (si', 3, [d2, d1, d0], err))
    (l0 : d0 < 64) (l1 : d1 < 64) (l2 : d2 < 64) (hn : n + 1 < dst.size) :
    ∃ dst', decodeQuantum e dst n src si =
      some (if e.strict = true ∧ d2 / 16 ≠ 0 then ⟨si', 0, some (si' - 1), dst'⟩ else ⟨si', 2, err, dst'⟩) := by
  have o2 := out2_val l0 l1 l2 (show 0 < 64 by omega)
  simp only [Nat.zero_mul, Nat.add_zero] at o2
  have h0 : n < dst.size := by omega
  by_cases hs : e.strict = true ∧ d2 / 16 ≠ 0
  · refine ⟨dst.setIfInBounds (n + 1) (UInt8.ofNat (decodeQuantum_out1 (decodeQuantum_val d0 d1 d2 0))), ?_⟩
    unfold decodeQuantum
    rw [hcol]
    simp [setChk, hn, o2, hs]
  · refine ⟨(dst.setIfInBounds (n + 1) (UInt8.ofNat (decodeQuantum_out1 (decodeQuantum_val d0 d1 d2 0)))).setIfInBounds n
      (UInt8.ofNat (decodeQuantum_out0 (decodeQuantum_val d0 d1 d2 0))), ?_⟩
    unfold decodeQuantum
    rw [hcol]
    simp only [if_neg hs]
    simp [setChk, hn, h0, o2]
    intro a; simp only [a, true_and] at hs; omega

end GoCrypt.Base64LE
