import GoCrypt.Proofs.ParseRef

/-!
# Parsing a rendered tree gives the tree back (`parse_render`)

A well-formed prefix followed by `$`-joined pieces, each a `,`-joined list of delimiter-free member
texts, parses to exactly the tree with one value node per lone member and one group per piece with
several members, at the obvious positions. Proved on the split-based reference parser and transported
by `parse_eq_ref`.
-/

namespace GoCrypt.Parse
open Bytes GoCrypt.RefParse

/-- The text holds neither `$` nor `,`. -/
def NoDelim (t : Bytes) : Prop := ∀ c ∈ t, c ≠ dollar ∧ c ≠ comma

instance (t : Bytes) : Decidable (NoDelim t) := by unfold NoDelim; infer_instance

/-- The fragment of one `$`-separated piece given by its `,`-separated members. -/
def pieceFrag (off : Nat) (ms : List Bytes) : Frag :=
  match ms with
  | [m] => .value ⟨m, off, off + m.length⟩
  | ms => .group (mkValues off ms)

/-- The fragments of a body given as pieces (each a list of members), first piece at offset `off`. -/
def piecesFrags (off : Nat) : List (List Bytes) → List Frag
  | [] => []
  | ms :: rest => pieceFrag off ms :: piecesFrags (off + (joinWith comma ms).length + 1) rest

/-- Value fragments only: one node per text. -/
def valueFrags (off : Nat) : List Bytes → List Frag
  | [] => []
  | t :: ts => .value ⟨t, off, off + t.length⟩ :: valueFrags (off + t.length + 1) ts

/-- Well-formed prefix in front of a body: no prefix (then the body must not look like one), `_`,
or `$id$` / `$id,` with a non-empty delimiter-free identifier. -/
inductive WfPrefix : Option Bytes → Bytes → Prop
  | none (body : Bytes) (h : ∀ c, body.head? = some c → c ≠ dollar ∧ c ≠ underscore) : WfPrefix none body
  | under (body : Bytes) : WfPrefix (some [underscore]) body
  | ident (id : Bytes) (d : UInt8) (body : Bytes) (hne : id ≠ []) (hid : NoDelim id)
      (hd : d = dollar ∨ d = comma) : WfPrefix (some (dollar :: id ++ [d])) body

/-! ## `splitOn` of a `joinWith` -/

theorem splitOn_joinWith (d : UInt8) : ∀ (xs : List Bytes), xs ≠ [] → (∀ x ∈ xs, ∀ c ∈ x, c ≠ d) →
    splitOn d (joinWith d xs) = xs
  | [], h, _ => absurd rfl h
  | [x], _, hx => by
    simp only [joinWith]
    exact splitOn_plain d x (hx x (by simp))
  | x :: y :: rest, _, hx => by
    simp only [joinWith]
    rw [splitOn_append_delim d x _ (hx x (by simp)),
      splitOn_joinWith d (y :: rest) (by simp) (fun z hz => hx z (by simp [hz]))]

theorem joinWith_mem (d : UInt8) : ∀ (xs : List Bytes) (c : UInt8), c ∈ joinWith d xs →
    c = d ∨ ∃ x ∈ xs, c ∈ x
  | [], c, h => by simp [joinWith] at h
  | [x], c, h => by simp only [joinWith] at h; exact Or.inr ⟨x, by simp, h⟩
  | x :: y :: rest, c, h => by
    simp only [joinWith, List.mem_append, List.mem_cons] at h
    rcases h with h | h | h
    · exact Or.inr ⟨x, by simp, h⟩
    · exact Or.inl h
    · rcases joinWith_mem d (y :: rest) c h with h | ⟨z, hz, hc⟩
      · exact Or.inl h
      · exact Or.inr ⟨z, by simp [hz], hc⟩

theorem joinWith_singletons (d : UInt8) (ts : List Bytes) :
    (ts.map fun t => [t]).map (joinWith d) = ts := by
  induction ts with
  | nil => rfl
  | cons t ts ih => simp [joinWith, ih]

/-! ## The reference fragment builder on joined pieces -/

theorem mkFrag_joinWith (off : Nat) (ms : List Bytes) (isLast : Bool) (hne : ms ≠ [])
    (hm : ∀ m ∈ ms, ∀ c ∈ m, c ≠ comma) (hl : isLast = true → ms.getLast? ≠ some []) :
    mkFrag off (joinWith comma ms) isLast = some (pieceFrag off ms) := by
  unfold mkFrag
  simp only [splitOn_joinWith comma ms hne hm]
  have hc : (isLast && ms.getLast? == some []) = false := by
    cases isLast with
    | false => rfl
    | true => simpa using hl rfl
  simp only [hc, Bool.false_eq_true, if_false]
  match ms, hne with
  | [m], _ => simp [mkValues, pieceFrag]
  | m :: m' :: rest, _ => simp [pieceFrag]

theorem mkFrags_pieces : ∀ (pieces : List (List Bytes)) (off : Nat),
    (∀ ms ∈ pieces, ms ≠ [] ∧ ∀ m ∈ ms, ∀ c ∈ m, c ≠ comma) →
    (∀ ms, pieces.getLast? = some ms → ms.getLast? ≠ some []) →
    mkFrags off (pieces.map (joinWith comma)) = piecesFrags off pieces
  | [], off, _, _ => rfl
  | [p], off, hp, hl => by
    have := hp p (by simp)
    simp [mkFrags, piecesFrags, mkFrag_joinWith off p true this.1 this.2 (fun _ => hl p (by simp))]
  | p :: q :: rest, off, hp, hl => by
    have := hp p (by simp)
    have ih := mkFrags_pieces (q :: rest) (off + (joinWith comma p).length + 1)
      (fun ms hms => hp ms (by simp [hms]))
      (fun ms hms => hl ms (by rw [List.getLast?_cons_cons]; exact hms))
    simp only [List.map_cons] at ih ⊢
    simp [mkFrags, piecesFrags, mkFrag_joinWith off p false this.1 this.2 (by simp), ih]

theorem piecesFrags_singletons : ∀ (ts : List Bytes) (off : Nat),
    piecesFrags off (ts.map fun t => [t]) = valueFrags off ts
  | [], _ => rfl
  | t :: ts, off => by
    simp [piecesFrags, valueFrags, pieceFrag, joinWith, piecesFrags_singletons ts]

/-! ## The prefix rule -/

theorem takeWhile_ident (id : Bytes) (d : UInt8) (body : Bytes) (hid : NoDelim id)
    (hd : d = dollar ∨ d = comma) :
    (id ++ d :: body).takeWhile (fun c => !isDelim c) = id := by
  induction id with
  | nil =>
    have : isDelim d = true := by
      rcases hd with rfl | rfl <;> decide
    simp [this]
  | cons c cs ih =>
    have hc := hid c (by simp)
    have : isDelim c = false := by
      simp [isDelim, hc.1, hc.2]
    simp only [List.cons_append, List.takeWhile_cons, this, Bool.not_false, if_true]
    rw [ih (fun x hx => hid x (by simp [hx]))]

theorem refPrefix_wf (p : Option Bytes) (body : Bytes) (h : WfPrefix p body) :
    refPrefix (p.getD [] ++ body) = .ok (p, body) := by
  cases h with
  | none body h =>
    cases body with
    | nil => rfl
    | cons c cs =>
      have := h c rfl
      simp [refPrefix, this.1, this.2]
  | under body =>
    have : underscore ≠ dollar := by decide
    simp [refPrefix, this]
  | ident id d body hne hid hd =>
    have htw := takeWhile_ident id d body hid hd
    have hlen : 0 < id.length := List.length_pos_iff.mpr hne
    have e' : (dollar :: id ++ [d]) ++ body = dollar :: (id ++ d :: body) := by simp
    have e : id.length + 2 = (dollar :: id ++ [d]).length := by simp
    simp only [Option.getD_some]
    rw [e']
    simp only [refPrefix, if_true, htw]
    have h1 : ¬ (id.length = (id ++ d :: body).length) := by simp
    have h2 : ¬ (id.length = 0) := by omega
    simp only [h1, h2, if_false]
    rw [← e', e, List.take_left, List.drop_left]

/-! ## `parse_render` -/

/-- The body of a rendered string given by its pieces. -/
def renderPieces (pieces : List (List Bytes)) : Bytes := joinWith dollar (pieces.map (joinWith comma))

theorem refParse_render (p : Option Bytes) (pieces : List (List Bytes))
    (hw : WfPrefix p (renderPieces pieces))
    (hp : ∀ ms ∈ pieces, ms ≠ [] ∧ ∀ m ∈ ms, NoDelim m)
    (hl : ∀ ms, pieces.getLast? = some ms → ms.getLast? ≠ some []) :
    refParse (p.getD [] ++ renderPieces pieces) = .ok ⟨p, piecesFrags (p.getD []).length pieces⟩ := by
  unfold refParse
  rw [refPrefix_wf p _ hw]
  simp only [Result.ok.injEq, Tree.mk.injEq, true_and]
  have hpc : ∀ ms ∈ pieces, ms ≠ [] ∧ ∀ m ∈ ms, ∀ c ∈ m, c ≠ comma :=
    fun ms hms => ⟨(hp ms hms).1, fun m hm c hc => ((hp ms hms).2 m hm c hc).2⟩
  by_cases hne : pieces = []
  · subst hne
    simp [renderPieces, joinWith, splitOn, mkFrags, mkFrag, mkValues, piecesFrags]
  · unfold renderPieces
    rw [splitOn_joinWith dollar _ (by simpa using hne)]
    · exact mkFrags_pieces pieces _ hpc hl
    · intro x hx c hc
      simp only [List.mem_map] at hx
      obtain ⟨ms, hms, rfl⟩ := hx
      rcases joinWith_mem comma ms c hc with rfl | ⟨m, hm, hcm⟩
      · decide
      · exact ((hp ms hms).2 m hm c hcm).1

/-- Pieces with several members (groups): the rendered string parses back to the tree. -/
theorem parse_render_pieces (p : Option Bytes) (pieces : List (List Bytes))
    (hw : WfPrefix p (renderPieces pieces))
    (hp : ∀ ms ∈ pieces, ms ≠ [] ∧ ∀ m ∈ ms, NoDelim m)
    (hl : ∀ ms, pieces.getLast? = some ms → ms.getLast? ≠ some []) :
    parse (p.getD [] ++ renderPieces pieces) = .ok ⟨p, piecesFrags (p.getD []).length pieces⟩ := by
  rw [parse_eq_ref]; exact refParse_render p pieces hw hp hl

/-- Value fragments only. -/
theorem parse_render (p : Option Bytes) (texts : List Bytes)
    (hw : WfPrefix p (joinWith dollar texts))
    (hp : ∀ t ∈ texts, NoDelim t)
    (hl : texts.getLast? ≠ some []) :
    parse (p.getD [] ++ joinWith dollar texts) = .ok ⟨p, valueFrags (p.getD []).length texts⟩ := by
  have hr : renderPieces (texts.map fun t => [t]) = joinWith dollar texts := by
    unfold renderPieces; rw [joinWith_singletons]
  have := parse_render_pieces p (texts.map fun t => [t]) (by rw [hr]; exact hw)
    (by
      intro ms hms
      simp only [List.mem_map] at hms
      obtain ⟨t, ht, rfl⟩ := hms
      exact ⟨by simp, by intro m hm; simp only [List.mem_singleton] at hm; rw [hm]; exact hp t ht⟩)
    (by
      intro ms hms
      simp only [List.getLast?_map, Option.map_eq_some_iff] at hms
      obtain ⟨t, ht, rfl⟩ := hms
      intro h
      simp only [List.getLast?_singleton, Option.some.injEq] at h
      subst h
      exact hl ht)
  rw [hr, piecesFrags_singletons] at this
  exact this

end GoCrypt.Parse
