import GoCrypt.Proofs.CodecL2Runs

/-!
# The field loop of `Unmarshal` on what `Marshal` wrote: the general statement

`loop_main`: for a field list satisfying the (suffix-closed) structural hypotheses, from a state with no
open group whose fragments carry the pieces Marshal writes for these fields and whose counters satisfy
the count invariant, the loop succeeds, consumes every fragment and assigns exactly the written fields.
-/

namespace GoCrypt.Codec
open Bytes GoCrypt.Parse Layers GoCrypt.Respell GoCrypt.CodecDomain GoCrypt.RefParse

/-- The static facts about the whole field list `all` of the struct. -/
structure Ctx (vals : Vals) (all : List FieldInfo) : Prop where
  facts : ∀ f ∈ all, emitted vals f = true → FieldFacts vals f
  wf : ∀ f ∈ all, fieldWf f = true
  alnum : ∀ f ∈ all, f.opts.param ≠ [] → f.opts.param.all isAlnum = true
  names : ∀ f ∈ all, ∀ g ∈ all, f.opts.param ≠ [] → f.opts.param = g.opts.param → f = g
  world : (∃ f ∈ all, isPositional f = true ∧ f.opts.omitEmpty = true) →
    ∀ f ∈ all, f.opts.group = false ∧ (f.opts.param ≠ [] → f.opts.omitEmpty = false)

/-- The struct has an optional positional field (then it has no group and no optional parameter). -/
def WorldP (all : List FieldInfo) : Prop := ∃ f ∈ all, isPositional f = true ∧ f.opts.omitEmpty = true

/-- The optional-field count rule: `numValues - numReq` is at least the number of fragments not owned
by required stand-alone fields; exactly that number when the struct has no groups. -/
def CountInv (all fs : List FieldInfo) (st : LoopSt) : Prop :=
  (reqCount fs < st.frags.length →
    (st.frags.length : Int) - (reqCount fs : Int) ≤ st.numValues - st.numReq) ∧
  (WorldP all → st.numValues - st.numReq ≤ (st.frags.length : Int) - (reqCount fs : Int))

/-- Every fragment consumed: none left, or only the group fragment whose last member was just read. -/
def Closed (st : LoopSt) : Prop :=
  (st.group = none ∧ st.frags = []) ∨
  (∃ g x, st.group = some g ∧ st.numGroupValues = 0 ∧ st.frags = [x])

/-! ## Small facts about the structural hypotheses -/

theorem reqCount_cons_counted (f : FieldInfo) (rest : List FieldInfo) (hg : f.opts.group = false)
    (ho : f.opts.omitEmpty = false) (hi : f.opts.inline = false) :
    reqCount (f :: rest) = reqCount rest + 1 := by
  simp [reqCount, hg, ho, hi]

theorem reqCount_cons_skip (f : FieldInfo) (rest : List FieldInfo)
    (h : f.opts.group = true ∨ f.opts.omitEmpty = true ∨ f.opts.inline = true) :
    reqCount (f :: rest) = reqCount rest := by
  rcases h with h | h | h <;> simp [reqCount, h]

theorem reqCount_append_group : ∀ (run after : List FieldInfo), (∀ f ∈ run, f.opts.group = true) →
    reqCount (run ++ after) = reqCount after
  | [], _, _ => rfl
  | f :: run, after, h => by
    rw [List.cons_append, reqCount_cons_skip f _ (Or.inl (h f (by simp)))]
    exact reqCount_append_group run after (fun x hx => h x (by simp [hx]))

theorem dropWhile_all_not : ∀ (l : List Bool), (l.all (!·)) = true → ((l.dropWhile id).all (!·)) = true
  | [], _ => rfl
  | b :: l, h => by
    simp only [List.all_cons, Bool.and_eq_true, Bool.not_eq_eq_eq_not, Bool.not_true] at h
    simp only [List.dropWhile_cons, h.1, id, Bool.false_eq_true, if_false, List.all_cons, Bool.not_false,
      Bool.true_and]
    exact h.2

theorem greedy_tail (vals : Vals) (f : FieldInfo) (rest : List FieldInfo)
    (h : greedyOptional vals (f :: rest) = true) : greedyOptional vals rest = true := by
  unfold greedyOptional at h ⊢
  by_cases hc : (isPositional f && f.opts.omitEmpty) = true
  · simp only [List.filter_cons, hc, if_true, List.map_cons] at h
    cases he : emittedIn vals f with
    | true => simpa [List.dropWhile_cons, he] using h
    | false =>
      simp only [List.dropWhile_cons, he, id, Bool.false_eq_true, if_false, List.all_cons, Bool.not_false,
        Bool.true_and] at h
      exact dropWhile_all_not _ h
  · simp only [Bool.not_eq_true] at hc
    simpa [List.filter_cons, hc] using h

theorem greedy_head_omitted (vals : Vals) (f : FieldInfo) (rest : List FieldInfo)
    (h : greedyOptional vals (f :: rest) = true) (hp : isPositional f = true)
    (ho : f.opts.omitEmpty = true) (hem : emitted vals f = false) :
    ∀ g ∈ rest, isPositional g = true → g.opts.omitEmpty = true → emitted vals g = false := by
  unfold greedyOptional at h
  have he : emittedIn vals f = false := hem
  simp only [List.filter_cons, hp, ho, Bool.and_self, if_true, List.map_cons, List.dropWhile_cons, he, id,
    Bool.false_eq_true, if_false, List.all_cons, Bool.not_false, Bool.true_and, List.all_map,
    List.all_eq_true, List.mem_filter, Function.comp_def, Bool.not_eq_eq_eq_not, Bool.not_true,
    Bool.and_eq_true, and_imp] at h
  intro g hg hgp hgo
  exact h g hg hgp hgo

theorem noSteal_tail (vals : Vals) (f : FieldInfo) (rest : List FieldInfo)
    (h : noSteal vals (f :: rest) = true) : noSteal vals rest = true := by
  simp only [noSteal, Bool.and_eq_true] at h
  exact h.2

theorem noSteal_append (vals : Vals) : ∀ (run after : List FieldInfo),
    noSteal vals (run ++ after) = true → noSteal vals after = true
  | [], _, h => h
  | f :: run, after, h => noSteal_append vals run after (noSteal_tail vals f _ h)

theorem greedy_append (vals : Vals) : ∀ (run after : List FieldInfo),
    greedyOptional vals (run ++ after) = true → greedyOptional vals after = true
  | [], _, h => h
  | f :: run, after, h => greedy_append vals run after (greedy_tail vals f _ h)

theorem inlineOk_append : ∀ (run after : List FieldInfo), inlineOk (run ++ after) = true →
    inlineOk after = true
  | [], _, h => h
  | f :: run, after, h => inlineOk_append run after (inlineOk_tail f _ h)

theorem inlineOk_noParam : ∀ (fs : List FieldInfo), inlineOk fs = true →
    ∀ f ∈ fs, f.opts.inline = true → f.opts.param = []
  | [], _, f, hf, _ => by cases hf
  | g :: rest, h, f, hf, hi => by
    simp only [List.mem_cons] at hf
    rcases hf with rfl | hf
    · exact (inlineOk_next f rest h hi).1
    · exact inlineOk_noParam rest (inlineOk_tail g rest h) f hf hi

theorem groupRunsOk_cons_alone (vals : Vals) (fuel : Nat) (f : FieldInfo) (rest : List FieldInfo)
    (hg : f.opts.group = false) : groupRunsOk vals (fuel + 1) (f :: rest) = groupRunsOk vals fuel rest := by
  simp [groupRunsOk, hg]

theorem groupRunsOk_cons_group (vals : Vals) (fuel : Nat) (f : FieldInfo) (rest : List FieldInfo)
    (hg : f.opts.group = true) (run after : List FieldInfo) (hta : takeGroupRun (f :: rest) = (run, after)) :
    groupRunsOk vals (fuel + 1) (f :: rest) =
      ((decide ((run.filter (emitted vals)).length ≥ 2) || decide ((run.filter (emitted vals)).length = 0) ||
        (run.filter (emitted vals)).all (fun g => !g.opts.omitEmpty)) && groupRunsOk vals fuel after) := by
  simp only [groupRunsOk, hg, if_true, hta]
  rfl

/-! ## One stand-alone field -/

theorem fragsTexts_head_value {v : VNode} {frs : List Frag} {ps : List (List Bytes)}
    (h : FragsTexts (.value v :: frs) ps) : ∃ ps', ps = [v.val] :: ps' ∧ FragsTexts frs ps' := by
  match ps, h with
  | [m] :: ps', h => exact ⟨ps', by rw [h.1], h.2⟩

theorem step_alone (hashLen : Nat) (vals : Vals) (all : List FieldInfo) (C : Ctx vals all)
    (f : FieldInfo) (rest : List FieldInfo) (st : LoopSt) (hsub : ∀ g ∈ f :: rest, g ∈ all)
    (hg : f.opts.group = false) (hio : inlineOk (f :: rest) = true)
    (hns : noSteal vals (f :: rest) = true) (hgo : greedyOptional vals (f :: rest) = true)
    (hsg : st.group = none) (hft : FragsTexts st.frags (bodyPieces vals (f :: rest)))
    (hci : CountInv all (f :: rest) st) :
    ∃ st1, stepField hashLen f st = .ok st1 ∧ st1.group = none ∧
      FragsTexts st1.frags (bodyPieces vals rest) ∧ CountInv all rest st1 ∧
      st1.out = st.out ++ ([f].filter (emitted vals)).map (fun f => (f.index, fieldVal vals f)) := by
  have hfa := hsub f (by simp)
  have hwf := C.wf f hfa
  simp only [fieldWf, validOpts, Bool.and_eq_true, Bool.or_eq_true, Bool.not_eq_eq_eq_not, Bool.not_true] at hwf
  have hoi : f.opts.omitEmpty = false ∨ f.opts.inline = false := hwf.1.1.1.1.1.1.1
  cases ho : f.opts.omitEmpty with
  | false =>
    have hem := emitted_of_required vals f ho
    have F := C.facts f hfa hem
    cases hi : f.opts.inline with
    | true =>
      obtain ⟨hp, h, rest', rfl, -, hhg, hho⟩ := inlineOk_next f rest hio hi
      have hhe := emitted_of_required vals h hho
      obtain ⟨m, ps, hb⟩ := bodyPieces_head_single vals (h :: rest') (inlineOk_tail f _ hio) h
        (by simp [firstEm, hhe]) hhg
      have hnt : nt vals f = textOf vals f := by simp [nt, namedText, hp]
      have hbp : bodyPieces vals (f :: h :: rest') = [textOf vals f ++ m] :: ps := by
        rw [bodyPieces_cons_emit vals f _ hem, hb]
        simp [attach, hi, hnt]
      rw [hbp] at hft
      obtain ⟨v, frs, hfr, hv, hfrs⟩ := hft.single
      have hrd := F.readInl hi hp "value" v.fin m
      rw [← hv] at hrd
      have hstep := stepField_value hashLen f st v frs _ _ _ hg hsg hfr (by simp [ho]) (Or.inl hp) hrd
        (F.store "value" v.fin)
      simp only [hi, if_true, ho, Bool.false_eq_true, if_false] at hstep
      refine ⟨_, hstep, hsg, ?_, ?_, ?_⟩
      · rw [hb]; exact ⟨rfl, hfrs⟩
      · obtain ⟨h1, h2⟩ := hci
        rw [reqCount_cons_skip f _ (Or.inr (Or.inr hi))] at h1 h2
        simp only [hfr, List.length_cons] at h1 h2
        refine ⟨fun h => ?_, fun h => ?_⟩
        · have := h1 (by simpa using h)
          simp only [List.length_cons]; omega
        · have := h2 h
          simp only [List.length_cons]; omega
      · simp [hem]
    | false =>
      have hbp := bodyPieces_cons_alone vals f rest hem hi hg
      rw [hbp] at hft
      obtain ⟨v, frs, hfr, hv, hfrs⟩ := hft.single
      have hrd := F.read hi "value" v.fin
      rw [← hv] at hrd
      have hkey : f.opts.param = [] ∨ (f.opts.param ++ [equals]).isPrefixOf v.val = true := by
        rw [hv]; exact F.key
      have hstep := stepField_value hashLen f st v frs _ _ _ hg hsg hfr (by simp [ho]) hkey hrd
        (F.store "value" v.fin)
      simp only [hi, ho, Bool.false_eq_true, if_false] at hstep
      refine ⟨_, hstep, hsg, hfrs, ?_, ?_⟩
      · obtain ⟨h1, h2⟩ := hci
        rw [reqCount_cons_counted f _ hg ho hi] at h1 h2
        simp only [hfr, List.length_cons] at h1 h2
        refine ⟨fun h => ?_, fun h => ?_⟩
        · have := h1 (by simpa using h)
          dsimp only; omega
        · have := h2 h
          dsimp only; omega
      · simp [hem]
  | true =>
    have hi : f.opts.inline = false := by
      rcases hoi with h | h
      · rw [ho] at h; cases h
      · exact h
    have hrc : reqCount (f :: rest) = reqCount rest := reqCount_cons_skip f _ (Or.inr (Or.inl ho))
    by_cases hem : emitted vals f = true
    · have F := C.facts f hfa hem
      have hbp := bodyPieces_cons_alone vals f rest hem hi hg
      rw [hbp] at hft
      obtain ⟨v, frs, hfr, hv, hfrs⟩ := hft.single
      have hrd := F.read hi "value" v.fin
      rw [← hv] at hrd
      have hkey : f.opts.param = [] ∨ (f.opts.param ++ [equals]).isPrefixOf v.val = true := by
        rw [hv]; exact F.key
      have hlen := hfrs.length_eq
      have hge := bodyPieces_length_ge vals rest
      obtain ⟨h1, h2⟩ := hci
      rw [hrc] at h1 h2
      simp only [hfr, List.length_cons] at h1 h2
      have hD := h1 (by omega)
      have hstep := stepField_value hashLen f st v frs _ _ _ hg hsg hfr
        (by intro h; have := h.2; omega) hkey hrd (F.store "value" v.fin)
      simp only [hi, ho, Bool.false_eq_true, if_false, if_true] at hstep
      refine ⟨_, hstep, hsg, hfrs, ⟨fun h => ?_, fun h => ?_⟩, ?_⟩
      · dsimp only; omega
      · have := h2 h
        dsimp only; omega
      · simp [hem]
    · simp only [Bool.not_eq_true] at hem
      have hbp := bodyPieces_cons_omit vals f rest hem
      rw [hbp] at hft
      have hout : st.out = st.out ++ ([f].filter (emitted vals)).map (fun f => (f.index, fieldVal vals f)) := by
        simp [hem]
      obtain ⟨h1, h2⟩ := hci
      rw [hrc] at h1 h2
      cases hfr : st.frags with
      | nil =>
        refine ⟨st, stepField_eof_opt hashLen f st ho hsg hfr, hsg, hft, ⟨h1, h2⟩, hout⟩
      | cons fr frs =>
        by_cases hcnt : st.numValues - st.numReq ≤ 0
        · refine ⟨_, stepField_skip hashLen f st fr frs ho hsg hfr hcnt, hsg, hft, ⟨fun h => ?_, fun h => ?_⟩, hout⟩
          · dsimp only at h ⊢
            have := h1 h
            omega
          · have := h2 h
            dsimp only; omega
        · cases fr with
          | group vs =>
            exact ⟨st, stepField_pass_group hashLen f st vs frs ho hg hsg hfr hcnt, hsg, hft, ⟨h1, h2⟩, hout⟩
          | value v =>
            rw [hfr] at hft
            obtain ⟨ps', hps', hfrs⟩ := fragsTexts_head_value hft
            by_cases hp : f.opts.param = []
            · -- an optional positional field: the count rule has skipped it
              exfalso
              have hpos : isPositional f = true := by simp [isPositional, hp, hg]
              have hW : WorldP all := ⟨f, hfa, hpos, ho⟩
              have hw := C.world hW
              have hom := greedy_head_omitted vals f rest hgo hpos ho hem
              have hle := bodyPieces_length_eq vals rest (inlineOk_tail f rest hio)
                (fun g hg' => (hw g (hsub g (by simp [hg']))).1)
                (fun g hg' hgo' => by
                  have hgw := hw g (hsub g (by simp [hg']))
                  have hgp : g.opts.param = [] := by
                    by_cases hgp : g.opts.param = []
                    · exact hgp
                    · rw [hgw.2 hgp] at hgo'; cases hgo'
                  exact hom g hg' (by simp [isPositional, hgp, hgw.1]) hgo')
              have hl := hft.length_eq
              rw [← hfr] at hl
              have := h2 hW
              omega
            · have hk : (f.opts.param ++ [equals]).isPrefixOf v.val = false := by
                simp only [noSteal, hp, ne_eq, not_false_eq_true, decide_true, hg, Bool.not_false, ho, hem,
                  Bool.and_self, if_true, hps', Bool.and_eq_true, Bool.not_eq_eq_eq_not, Bool.not_true] at hns
                exact hns.1
              refine ⟨st, stepField_pass_value hashLen f st v frs ho hg hsg hfr hcnt hp hk, hsg, ?_, ⟨h1, h2⟩, hout⟩
              rw [hfr]; exact hft

/-! ## The loop -/

theorem group_param_ne (f : FieldInfo) (hwf : fieldWf f = true) (hg : f.opts.group = true) :
    f.opts.param ≠ [] := by
  simp only [fieldWf, validOpts, Bool.and_eq_true, Bool.or_eq_true, Bool.not_eq_eq_eq_not, Bool.not_true,
    hg, decide_eq_true_eq] at hwf
  rcases hwf.1.1.1.1.1.1.2 with h | h
  · cases h
  · exact h

theorem out_cons_filter (vals : Vals) (out : Vals) (f : FieldInfo) (rest : List FieldInfo) :
    out ++ ([f].filter (emitted vals)).map (fun f => (f.index, fieldVal vals f)) ++
      (rest.filter (emitted vals)).map (fun f => (f.index, fieldVal vals f)) =
    out ++ ((f :: rest).filter (emitted vals)).map (fun f => (f.index, fieldVal vals f)) := by
  cases hem : emitted vals f <;> simp [hem]

theorem loop_main (hashLen : Nat) (vals : Vals) (all : List FieldInfo) (C : Ctx vals all) :
    ∀ (n : Nat) (fs : List FieldInfo) (st : LoopSt), fs.length ≤ n → (∀ f ∈ fs, f ∈ all) →
    inlineOk fs = true → groupsSeparated fs = true → noSteal vals fs = true →
    groupRunsOk vals (n + 1) fs = true → greedyOptional vals fs = true →
    st.group = none → FragsTexts st.frags (bodyPieces vals fs) → CountInv all fs st →
    ∃ st', loopFields hashLen fs st = .ok st' ∧ Closed st' ∧
      st'.out = st.out ++ (fs.filter (emitted vals)).map (fun f => (f.index, fieldVal vals f)) := by
  intro n
  induction n with
  | zero =>
    intro fs st hlen _ _ _ _ _ _ hsg hft _
    have hfs : fs = [] := List.eq_nil_of_length_eq_zero (Nat.le_zero.1 hlen)
    subst hfs
    exact ⟨st, rfl, Or.inl ⟨hsg, hft.nil_right⟩, by simp⟩
  | succ n ih =>
    intro fs st hlen hsub hio hgs hns hgr hgo hsg hft hci
    cases fs with
    | nil => exact ⟨st, rfl, Or.inl ⟨hsg, hft.nil_right⟩, by simp⟩
    | cons f rest =>
      cases hg : f.opts.group with
      | false =>
        obtain ⟨st1, hstep, hsg1, hft1, hci1, hout1⟩ :=
          step_alone hashLen vals all C f rest st hsub hg hio hns hgo hsg hft hci
        rw [groupRunsOk_cons_alone vals (n + 1) f rest hg] at hgr
        obtain ⟨st', hl, hcl, hout⟩ := ih rest st1 (by simpa using hlen)
          (fun g hg' => hsub g (by simp [hg'])) (inlineOk_tail f rest hio) (groupsSeparated_tail f rest hgs)
          (noSteal_tail vals f rest hns) hgr (greedy_tail vals f rest hgo) hsg1 hft1 hci1
        refine ⟨st', by rw [loopFields_cons _ _ _ _ _ hstep]; exact hl, hcl, ?_⟩
        rw [hout, hout1]
        exact out_cons_filter vals st.out f rest
      | true =>
        obtain ⟨run, after, hta⟩ : ∃ run after, takeGroupRun (f :: rest) = (run, after) := ⟨_, _, rfl⟩
        have hspec := takeGroupRun_spec (f :: rest)
        rw [hta] at hspec
        obtain ⟨hsplit, hrunG, hafter⟩ := hspec
        simp only at hsplit hrunG hafter
        have hne : run ≠ [] := by
          intro e
          have : (takeGroupRun (f :: rest)).1 ≠ [] := by simp [takeGroupRun, hg]
          rw [hta] at this
          exact this e
        rw [groupRunsOk_cons_group vals (n + 1) f rest hg run after hta] at hgr
        simp only [Bool.and_eq_true] at hgr
        obtain ⟨hchk, hgr'⟩ := hgr
        have hlenA : after.length ≤ n := by
          have h1 := congrArg List.length hsplit
          have h2 : 0 < run.length := List.length_pos_iff.2 hne
          simp only [List.length_cons, List.length_append] at h1 hlen
          omega
        have hfall : f ∈ all := hsub f (by simp)
        rw [hsplit] at hsub hio hgs hns hgo hft hci ⊢
        have hopt := after_run_not_group run after hne hrunG hafter hgs
        have hfe := firstEm_not_group vals after hopt
        have hnp := inlineOk_noParam (run ++ after) hio
        have hrunP : ∀ x ∈ run, x.opts.param ≠ [] := fun x hx =>
          group_param_ne x (C.wf x (hsub x (by simp [hx]))) (hrunG x hx)
        have hrunNI : ∀ x ∈ run, x.opts.group = true ∧ x.opts.inline = false := by
          intro x hx
          refine ⟨hrunG x hx, ?_⟩
          cases hxi : x.opts.inline with
          | false => rfl
          | true => exact absurd (hnp x (by simp [hx]) hxi) (hrunP x hx)
        have hsubA : ∀ g ∈ after, g ∈ all := fun g hg' => hsub g (by simp [hg'])
        have hioA := inlineOk_append run after hio
        have hgsA := groupsSeparated_append run after hgs
        have hnsA := noSteal_append vals run after hns
        have hgoA := greedy_append vals run after hgo
        have hrcA : reqCount (run ++ after) = reqCount after := reqCount_append_group run after hrunG
        have hnoW : ¬ WorldP all := fun hW => by
          have := (C.world hW f hfall).1
          rw [hg] at this; cases this
        -- continuation after a run whose group fragment is exhausted
        have hcont : ∀ (st1 : LoopSt) (g : List VNode) (x : Frag) (frs : List Frag),
            st1.group = some g → st1.numGroupValues = 0 → st1.frags = x :: frs →
            FragsTexts frs (bodyPieces vals after) →
            CountInv all after { st1 with frags := frs, group := none } →
            ∃ st', loopFields hashLen after st1 = .ok st' ∧ Closed st' ∧
              st'.out = st1.out ++ (after.filter (emitted vals)).map (fun f => (f.index, fieldVal vals f)) := by
          intro st1 g x frs h1 h2 h3 h4 h5
          rcases hafter with rfl | ⟨h, t, rfl, hh⟩
          · have hnil := h4.nil_right
            subst hnil
            exact ⟨st1, rfl, Or.inr ⟨g, x, h1, h2, h3⟩, by simp⟩
          · obtain ⟨st', hl, hcl, hout⟩ := ih (h :: t) { st1 with frags := frs, group := none } hlenA hsubA
              hioA hgsA hnsA hgr' hgoA rfl h4 h5
            refine ⟨st', ?_, hcl, hout⟩
            apply loop_close_group g hh h1 h2
            have htl : st1.frags.tail = frs := by rw [h3]; rfl
            rw [htl]; exact hl
        by_cases hE0 : run.filter (emitted vals) = []
        · -- no member written
          rw [bodyPieces_append_none vals run after hE0] at hft
          have hhead : st.frags = [] ∨ ∃ v rest, st.frags = .value v :: rest := by
            cases hfa : firstEm vals after with
            | none =>
              left
              rw [firstEm_none vals after hfa] at hft
              exact hft.nil_right
            | some g =>
              obtain ⟨m, ps, hb⟩ := bodyPieces_head_single vals after hioA g hfa (hfe g hfa)
              rw [hb] at hft
              obtain ⟨v, frs, h1, -, -⟩ := hft.single
              exact Or.inr ⟨v, frs, h1⟩
          have hall : ∀ x ∈ run, x.opts.group = true ∧ emitted vals x = false := by
            intro x hx
            refine ⟨hrunG x hx, ?_⟩
            cases hex : emitted vals x with
            | false => rfl
            | true =>
              have : x ∈ run.filter (emitted vals) := List.mem_filter.2 ⟨hx, hex⟩
              rw [hE0] at this; cases this
          obtain ⟨st1, hl1, hfr1, hsg1, hout1, hnr1, hnv1, hnv1'⟩ :=
            loop_run_none hashLen vals run st hall hsg hhead
          have hci1 : CountInv all after st1 := by
            obtain ⟨c1, c2⟩ := hci
            rw [hrcA] at c1 c2
            refine ⟨fun h => ?_, fun h => absurd h hnoW⟩
            rw [hfr1] at h ⊢
            have h3 := c1 h
            have hpos : 0 < st.numValues - st.numReq := by omega
            rw [hnv1' hpos, hnr1]; exact h3
          obtain ⟨st', hl, hcl, hout⟩ := ih after st1 hlenA hsubA hioA hgsA hnsA hgr' hgoA hsg1
            (by rw [hfr1]; exact hft) hci1
          refine ⟨st', ?_, hcl, ?_⟩
          · rw [loopFields_append, hl1]; exact hl
          · rw [hout, hout1]; simp [List.filter_append, hE0]
        · -- some member written
          have hbp := bodyPieces_run vals after hfe run hrunNI hE0
          rw [hbp] at hft
          have hgeA := bodyPieces_length_ge vals after
          have hD : ¬ (st.numValues - st.numReq ≤ 0) := by
            have hl := hft.length_eq
            simp only [List.length_cons] at hl
            obtain ⟨c1, -⟩ := hci
            rw [hrcA] at c1
            have := c1 (by omega)
            omega
          have hciA : ∀ (st1 : LoopSt) (x : Frag) (frs : List Frag), st.frags = x :: frs →
              st1.numValues = st.numValues → st1.numReq = st.numReq →
              CountInv all after { st1 with frags := frs, group := none } := by
            intro st1 x frs hx hv hr
            obtain ⟨c1, -⟩ := hci
            rw [hrcA, hx] at c1
            refine ⟨fun h => ?_, fun h => absurd h hnoW⟩
            dsimp only at h ⊢
            have := c1 (by simp only [List.length_cons]; omega)
            simp only [List.length_cons] at this
            rw [hv, hr]; omega
          by_cases h2 : 2 ≤ (run.filter (emitted vals)).length
          · -- a group fragment
            obtain ⟨vs, frs, hfr, hvs, hfrs⟩ := hft.multi (by simpa using h2)
            have hE : ∀ g ∈ run.filter (emitted vals), g.opts.param ≠ [] ∧ equals ∉ g.opts.param := by
              intro g hg'
              have hgr := (List.mem_filter.1 hg').1
              have hp := hrunP g hgr
              exact ⟨hp, (alnum_clean _ (C.alnum g (hsub g (by simp [hgr])) hp)).1⟩
            have hmem : ∀ x ∈ run, MemberOk vals vs x := by
              intro x hx
              have hxa := hsub x (by simp [hx])
              have hxp := hrunP x hx
              have hxe : equals ∉ x.opts.param := (alnum_clean _ (C.alnum x hxa hxp)).1
              refine ⟨(hrunNI x hx).1, (hrunNI x hx).2, fun hex => ⟨C.facts x hxa hex, ?_⟩, fun hex => ?_⟩
              · exact find_hit vals x hxe _ vs hvs hE (List.mem_filter.2 ⟨hx, hex⟩)
                  (fun g hg' hpe => (C.names x hxa g (hsub g (by simp [(List.mem_filter.1 hg').1])) hxp hpe.symm).symm)
              · refine find_miss vals x hxe _ vs hvs hE (fun g hg' hpe => ?_)
                have hgx := C.names g (hsub g (by simp [(List.mem_filter.1 hg').1])) x hxa (hE g hg').1 hpe
                subst hgx
                have := (List.mem_filter.1 hg').2
                rw [hex] at this; cases this
            obtain ⟨st1, hl1, hfr1, hsg1, hngv1, hnv1, hnr1, hout1⟩ :=
              loop_run_multi hashLen vals vs frs run st hne hmem hsg hfr hD
            have hz : st1.numGroupValues = 0 := by
              rw [hngv1]
              have := congrArg List.length hvs
              simp only [List.length_map] at this
              omega
            obtain ⟨st', hl, hcl, hout⟩ := hcont st1 vs (.group vs) frs hsg1 hz (by rw [hfr1, hfr]) hfrs
              (hciA st1 _ frs hfr hnv1 hnr1)
            refine ⟨st', by rw [loopFields_append, hl1]; exact hl, hcl, ?_⟩
            rw [hout, hout1]; simp [List.filter_append]
          · -- a lone member
            obtain ⟨r, hr⟩ : ∃ r, run.filter (emitted vals) = [r] := by
              match hh : run.filter (emitted vals) with
              | [] => exact absurd hh hE0
              | [r] => exact ⟨r, rfl⟩
              | _ :: _ :: _ => rw [hh] at h2; simp at h2
            have hrm : r ∈ run ∧ emitted vals r = true := List.mem_filter.1 (by rw [hr]; simp)
            have hro : r.opts.omitEmpty = false := by
              rw [hr] at hchk; simpa using hchk
            rw [hr] at hft
            simp only [List.map_cons, List.map_nil] at hft
            obtain ⟨v, frs, hfr, hv, hfrs⟩ := hft.single
            obtain ⟨st1, hl1, hfr1, hsg1, hngv1, hnv1, hnr1, hout1⟩ :=
              loop_run_lone hashLen vals r hro (hrunNI r hrm.1).2 (hrunP r hrm.1)
                (C.facts r (hsub r (by simp [hrm.1])) hrm.2) run st v frs hrunG hr hsg hfr hv hD
            obtain ⟨st', hl, hcl, hout⟩ := hcont st1 [v] (.value v) frs hsg1 hngv1 (by rw [hfr1, hfr]) hfrs
              (hciA st1 _ frs hfr hnv1 hnr1)
            refine ⟨st', by rw [loopFields_append, hl1]; exact hl, hcl, ?_⟩
            rw [hout, hout1]; simp [List.filter_append, hr]

end GoCrypt.Codec
