import GoCrypt.Model.Stream

/-! Lemmas about the streaming encoder / decoder model (used by `Props/C17`). -/

namespace GoCrypt.Stream
open GoCrypt.Base64LE

/-! ## One-shot `encode` and concatenation -/

theorem encode_nil (e : Encoding) : encode e [] = [] := by
  simp [encode]

theorem encode_append (e : Encoding) (a b : Bytes) (h : 3 ∣ a.length) :
    encode e (a ++ b) = encode e a ++ encode e b := by
  obtain ⟨k, hk⟩ := h
  induction k generalizing a with
  | zero =>
    have : a = [] := List.eq_nil_of_length_eq_zero (by omega)
    subst this; simp [encode]
  | succ k ih =>
    match a, hk with
    | b0 :: b1 :: b2 :: a', hk =>
      have h' : a'.length = 3 * k := by simp at hk; omega
      simp only [List.cons_append, encode, ih a' h']

/-- The prefix fact behind the fault case: after `encode e pre` (whole groups) a *truncated* write of
`encode e x` is still a prefix of the encoding of anything that starts with `pre ++ x`, provided `x`
is made of whole groups or is the very end of the data. -/
theorem encode_take_prefix (e : Encoding) (pre x more : Bytes) (k : Nat) (hp : 3 ∣ pre.length)
    (hx : 3 ∣ x.length ∨ more = []) :
    encode e pre ++ (encode e x).take k <+: encode e (pre ++ x ++ more) := by
  rw [List.append_assoc, encode_append e pre _ hp]
  apply (List.prefix_append_right_inj _).2
  rcases hx with hx | hx
  · rw [encode_append e x _ hx]
    exact (List.take_prefix _ _).trans (List.prefix_append _ _)
  · subst hx; simpa using List.take_prefix _ _

/-! ## The underlying writer -/

theorem wWrite_buf (st : EncSt) (d : Bytes) : (st.wWrite d).buf = st.buf := by
  unfold EncSt.wWrite; split <;> rfl

/-- One call of the underlying writer from an error-free state: it either takes everything, or
takes a prefix and fails; with an empty script only the former. -/
theorem wWrite_cases (st : EncSt) (d : Bytes) (h : st.err = none) :
    ((st.wWrite d).err = none ∧ (st.wWrite d).writes = st.writes ++ [d] ∧
      (st.script = [] → (st.wWrite d).script = [])) ∨
    (∃ err k, (st.wWrite d).err = some err ∧ (st.wWrite d).writes = st.writes ++ [d.take k] ∧
      st.script ≠ []) := by
  unfold EncSt.wWrite
  split
  · next hs => left; simp [h, hs]
  · next hs => left; simp [h, hs]
  · next er k rest hs => right; exact ⟨er, k, by simp [hs]⟩

/-! ## `encInterior` -/

/-- Error-free state whose writes so far are the encoding of `pre` (whole groups). -/
structure Good (e : Encoding) (st : EncSt) (pre : Bytes) : Prop where
  err : st.err = none
  div : 3 ∣ pre.length
  wr : st.writes.flatten = encode e pre

/-- Failed state: what was written is a prefix of the encoding of anything extending `all`. -/
structure Bad (e : Encoding) (st : EncSt) (all : Bytes) : Prop where
  err : st.err.isSome = true
  pre : ∀ more, st.writes.flatten <+: encode e (all ++ more)

theorem Bad.extend {e : Encoding} {st : EncSt} {all : Bytes} (h : Bad e st all) (p : Bytes) :
    Bad e st (all ++ p) :=
  ⟨h.err, fun more => by rw [List.append_assoc]; exact h.pre _⟩

/-- Writing whole groups `x` from a good state: good again, or failed with a prefix written. -/
theorem wWrite_good (e : Encoding) (st : EncSt) (pre x : Bytes) (g : Good e st pre)
    (hx : 3 ∣ x.length) :
    (Good e (st.wWrite (encode e x)) (pre ++ x) ∧ (st.script = [] → (st.wWrite (encode e x)).script = [])) ∨
    (Bad e (st.wWrite (encode e x)) (pre ++ x) ∧ st.script ≠ []) := by
  rcases wWrite_cases st (encode e x) g.err with ⟨h1, h2, h3⟩ | ⟨er, k, h1, h2, h3⟩
  · left
    refine ⟨⟨h1, ?_, ?_⟩, h3⟩
    · have := g.div; rw [List.length_append]; omega
    · rw [h2, List.flatten_append, g.wr, encode_append e pre x g.div]; simp
  · right
    refine ⟨⟨by simp [h1], fun more => ?_⟩, h3⟩
    rw [h2, List.flatten_append, g.wr]
    simpa using encode_take_prefix e pre x more k g.div (Or.inl hx)

theorem encInterior_spec (e : Encoding) (fuel : Nat) (st : EncSt) (pre p : Bytes) (n : Nat)
    (g : Good e st pre) (hf : p.length / 3 + 1 ≤ fuel) :
    (∃ q, p = q ++ (encInterior e st p n fuel).2.1 ∧ 3 ∣ q.length ∧
        (encInterior e st p n fuel).2.1.length < 3 ∧
        (encInterior e st p n fuel).2.2 = n + q.length ∧
        Good e (encInterior e st p n fuel).1 (pre ++ q) ∧
        (encInterior e st p n fuel).1.buf = st.buf ∧
        (st.script = [] → (encInterior e st p n fuel).1.script = [])) ∨
    (Bad e (encInterior e st p n fuel).1 (pre ++ p) ∧ st.script ≠ []) := by
  induction fuel generalizing st pre p n with
  | zero => omega
  | succ fuel ih =>
    unfold encInterior
    by_cases h3 : p.length ≥ 3
    · simp only [h3, if_true]
      generalize hnn : (if 768 > p.length then p.length - p.length % 3 else 768) = nn
      have hnn3 : 3 ∣ nn := by subst hnn; split <;> omega
      have hnnle : nn ≤ p.length := by subst hnn; split <;> omega
      have hnnpos : 3 ≤ nn := by subst hnn; split <;> omega
      have htl : (p.take nn).length = nn := by simp; omega
      rcases wWrite_good e st pre (p.take nn) g (by rw [htl]; exact hnn3) with ⟨g', hs⟩ | ⟨b, hs⟩
      · have he : ((st.wWrite (encode e (p.take nn))).err.isSome) = false := by simp [g'.err]
        simp only [he, Bool.false_eq_true, if_false]
        have hf' : (p.drop nn).length / 3 + 1 ≤ fuel := by simp; omega
        rcases ih (st.wWrite (encode e (p.take nn))) (pre ++ p.take nn) (p.drop nn) (n + nn) g' hf' with
          ⟨q, hq, hq3, hr, hn, gq, hb, hsc⟩ | ⟨b, hsc⟩
        · left
          refine ⟨p.take nn ++ q, ?_, ?_, hr, ?_, ?_, ?_, ?_⟩
          · rw [List.append_assoc, ← hq, List.take_append_drop]
          · rw [List.length_append, htl]; omega
          · rw [hn, List.length_append, htl]; omega
          · rw [← List.append_assoc]; exact gq
          · rw [hb, wWrite_buf]
          · intro h; exact hsc (hs h)
        · right
          refine ⟨?_, ?_⟩
          · have := b
            rwa [List.append_assoc, List.take_append_drop] at this
          · intro h; exact hsc (hs h)
      · right
        have he : ((st.wWrite (encode e (p.take nn))).err.isSome) = true := b.err
        simp only [he, if_true]
        refine ⟨?_, hs⟩
        have := b.extend (p.drop nn)
        rwa [List.append_assoc, List.take_append_drop] at this
    · simp only [h3, if_false]
      left
      refine ⟨[], ?_, ?_, ?_, ?_, ?_, ?_, ?_⟩
      · simp
      · simp
      · show p.length < 3; omega
      · simp
      · simpa using g
      · trivial
      · exact id

/-! ## `encWrite` / `encClose` -/

/-- The `Write` invariant: no error, fewer than 3 buffered bytes, and everything consumed so far
(`all`) is whole groups `pre`, already written encoded, followed by the buffered bytes. -/
structure Ok (e : Encoding) (st : EncSt) (all : Bytes) : Prop where
  err : st.err = none
  buf : st.buf.length < 3
  ex : ∃ pre, all = pre ++ st.buf ∧ Good e st pre

/-- The tail of `Write` after the leading fringe: interior loop, then trailing fringe. -/
def encTail (e : Encoding) (st1 : EncSt) (p' : Bytes) (take : Nat) : EncSt × Nat × Option Err :=
  let r := encInterior e st1 p' take (p'.length / 3 + 1)
  if r.1.err.isSome then (r.1, r.2.2, r.1.err) else ({ r.1 with buf := r.2.1 }, r.2.2 + r.2.1.length, none)

theorem encWrite_of_err (e : Encoding) (st : EncSt) (p : Bytes) (h : st.err.isSome = true) :
    encWrite e st p = (st, 0, st.err) := by
  unfold encWrite; simp [h]

theorem encWrite_of_nil (e : Encoding) (st : EncSt) (p : Bytes) (herr : st.err = none)
    (hb : st.buf = []) : encWrite e st p = encTail e st p 0 := by
  unfold encWrite encTail; simp [herr, hb]

theorem encWrite_of_short (e : Encoding) (st : EncSt) (p : Bytes) (herr : st.err = none)
    (hb : 0 < st.buf.length) (hs : st.buf.length + p.length < 3) :
    encWrite e st p = ({ st with buf := st.buf ++ p }, p.length, none) := by
  have h1 : min p.length (3 - st.buf.length) = p.length := by omega
  unfold encWrite; simp [herr, hb, h1]
  intro h; omega

theorem encWrite_of_full (e : Encoding) (st : EncSt) (p : Bytes) (herr : st.err = none)
    (hb : 0 < st.buf.length) (hs : 3 ≤ st.buf.length + p.length) (hlt : st.buf.length < 3) :
    encWrite e st p =
      (let t := 3 - st.buf.length
       let st1 := ({ st with buf := st.buf ++ p.take t }).wWrite (encode e (st.buf ++ p.take t))
       if st1.err.isSome then (st1, t, st1.err) else encTail e { st1 with buf := [] } (p.drop t) t) := by
  have h1 : min p.length (3 - st.buf.length) = 3 - st.buf.length := by omega
  have h2 : ¬ (st.buf.length + min p.length (3 - st.buf.length) < 3) := by omega
  unfold encWrite encTail; simp [herr, hb, h1]
  intro h; omega

theorem encTail_spec (e : Encoding) (st1 : EncSt) (pre p' : Bytes) (take : Nat) (g : Good e st1 pre) :
    (Ok e (encTail e st1 p' take).1 (pre ++ p') ∧ (encTail e st1 p' take).2 = (take + p'.length, none) ∧
      (st1.script = [] → (encTail e st1 p' take).1.script = [])) ∨
    (Bad e (encTail e st1 p' take).1 (pre ++ p') ∧
      (encTail e st1 p' take).2.2 = (encTail e st1 p' take).1.err ∧ st1.script ≠ []) := by
  unfold encTail
  rcases encInterior_spec e (p'.length / 3 + 1) st1 pre p' take g (Nat.le_refl _) with
    ⟨q, hq, hq3, hr, hn, gq, _, hsc⟩ | ⟨b, hsc⟩
  · left
    generalize encInterior e st1 p' take (p'.length / 3 + 1) = r at *
    obtain ⟨st2, rest, n⟩ := r
    simp only at hq hr hn gq hsc
    have he : st2.err.isSome = false := by simp [gq.err]
    simp only [he, Bool.false_eq_true, if_false]
    refine ⟨⟨gq.err, hr, pre ++ q, ?_, ⟨gq.err, gq.div, gq.wr⟩⟩, ?_, hsc⟩
    · rw [hq, List.append_assoc]
    · rw [hn, hq, List.length_append, Nat.add_assoc]
  · right
    have he : (encInterior e st1 p' take (p'.length / 3 + 1)).1.err.isSome = true := b.err
    simp only [he, if_true]
    exact ⟨b, trivial, hsc⟩

theorem encWrite_step (e : Encoding) (st : EncSt) (all p : Bytes) (ok : Ok e st all) :
    (Ok e (encWrite e st p).1 (all ++ p) ∧ (encWrite e st p).2 = (p.length, none) ∧
      (st.script = [] → (encWrite e st p).1.script = [])) ∨
    (Bad e (encWrite e st p).1 (all ++ p) ∧ (encWrite e st p).2.2 = (encWrite e st p).1.err ∧
      st.script ≠ []) := by
  obtain ⟨herr, hbuf, pre, hall, g⟩ := ok
  by_cases hb : st.buf.length > 0
  · by_cases hs : st.buf.length + p.length < 3
    · left
      rw [encWrite_of_short e st p herr hb hs]
      refine ⟨⟨herr, by simpa using hs, pre, by simp [hall], ⟨g.err, g.div, g.wr⟩⟩, rfl, id⟩
    · rw [encWrite_of_full e st p herr hb (by omega) hbuf]
      dsimp only
      have ht : (p.take (3 - st.buf.length)).length = 3 - st.buf.length := by simp; omega
      generalize ht0 : 3 - st.buf.length = t at *
      have hsplit : all ++ p = (pre ++ (st.buf ++ p.take t)) ++ p.drop t := by
        rw [hall]; simp
      have g0 : Good e { st with buf := st.buf ++ p.take t } pre := ⟨g.err, g.div, g.wr⟩
      rcases wWrite_good e { st with buf := st.buf ++ p.take t } pre (st.buf ++ p.take t) g0
          (by rw [List.length_append, ht]; omega) with ⟨g1, hsc1⟩ | ⟨b, hsc1⟩
      · generalize EncSt.wWrite { st with buf := st.buf ++ p.take t } (encode e (st.buf ++ p.take t)) = st1 at *
        have he : st1.err.isSome = false := by simp [g1.err]
        simp only [he, Bool.false_eq_true, if_false]
        have g2 : Good e { st1 with buf := [] } (pre ++ (st.buf ++ p.take t)) := ⟨g1.err, g1.div, g1.wr⟩
        rw [hsplit]
        rcases encTail_spec e { st1 with buf := [] } _ (p.drop t) t g2 with ⟨ok, hr, hsc⟩ | ⟨b, hr, hsc⟩
        · left
          refine ⟨ok, ?_, fun h => hsc (hsc1 h)⟩
          rw [hr]; simp; omega
        · right
          exact ⟨b, hr, fun h => hsc (hsc1 h)⟩
      · right
        generalize EncSt.wWrite { st with buf := st.buf ++ p.take t } (encode e (st.buf ++ p.take t)) = st1 at *
        have he : st1.err.isSome = true := b.err
        simp only [he, if_true]
        rw [hsplit]
        exact ⟨b.extend _, trivial, hsc1⟩
  · have hb0 : st.buf = [] := List.eq_nil_of_length_eq_zero (by omega)
    rw [encWrite_of_nil e st p herr hb0]
    rw [hb0, List.append_nil] at hall
    subst hall
    rcases encTail_spec e st all p 0 g with ⟨ok, hr, hsc⟩ | h
    · left; exact ⟨ok, by simpa using hr, hsc⟩
    · right; exact h

/-- From a failed state `Write` does nothing and returns the stored error. -/
theorem encWrite_bad (e : Encoding) (st : EncSt) (all p : Bytes) (b : Bad e st all) :
    Bad e (encWrite e st p).1 (all ++ p) ∧ encWrite e st p = (st, 0, st.err) := by
  rw [encWrite_of_err e st p b.err]; exact ⟨b.extend p, rfl⟩

/-- `Close` from a state satisfying the invariant: the buffered tail goes out, and either everything
is written, or the writer failed and a prefix is written. -/
theorem encClose_ok (e : Encoding) (st : EncSt) (all : Bytes) (ok : Ok e st all) :
    ((encClose e st).1.writes.flatten = encode e all ∧ (encClose e st).2 = none ∧
      (encClose e st).1.err = none) ∨
    ((encClose e st).1.writes.flatten <+: encode e all ∧ (encClose e st).2 = (encClose e st).1.err ∧
      (encClose e st).1.err.isSome = true ∧ st.script ≠ []) := by
  obtain ⟨herr, hbuf, pre, hall, g⟩ := ok
  unfold encClose
  by_cases hb : st.buf.length > 0
  · simp only [herr, Option.isNone_none, hb, and_self, if_true]
    rcases wWrite_cases st (encode e st.buf) herr with ⟨h1, h2, _⟩ | ⟨er, k, h1, h2, h3⟩
    · left
      refine ⟨?_, h1⟩
      simp only [h2, List.flatten_append, g.wr, hall, encode_append e pre st.buf g.div]; simp
    · right
      refine ⟨?_, trivial, by simp [h1], h3⟩
      simp only [h2, List.flatten_append, g.wr, hall]
      simpa using encode_take_prefix e pre st.buf [] k g.div (Or.inr rfl)
  · have hb0 : st.buf = [] := List.eq_nil_of_length_eq_zero (by omega)
    left
    simp only [hb, and_false, if_false]
    rw [hb0, List.append_nil] at hall
    exact ⟨by rw [hall, g.wr], herr, herr⟩

theorem encClose_bad (e : Encoding) (st : EncSt) (h : st.err.isSome = true) :
    encClose e st = (st, st.err) := by
  unfold encClose
  have : st.err.isNone = false := by cases hh : st.err <;> simp_all
  simp [this]

theorem encTail_ret_err (e : Encoding) (st1 : EncSt) (p' : Bytes) (take : Nat) :
    (encTail e st1 p' take).2.2 = (encTail e st1 p' take).1.err := by
  unfold encTail
  dsimp only
  split
  · rfl
  · next h => exact Eq.symm (by simpa using h)

/-- Leading fringe, buffer still short (no assumption on the buffer length). -/
theorem encWrite_of_short' (e : Encoding) (st : EncSt) (p : Bytes) (herr : st.err = none)
    (hb : 0 < st.buf.length) (hs : st.buf.length + min p.length (3 - st.buf.length) < 3) :
    encWrite e st p =
      ({ st with buf := st.buf ++ p.take (min p.length (3 - st.buf.length)) },
        min p.length (3 - st.buf.length), none) := by
  unfold encWrite
  have h2 : (st.buf ++ p.take (min p.length (3 - st.buf.length))).length < 3 := by
    rw [List.length_append, List.length_take]; omega
  simp only [herr, Option.isSome_none, Bool.false_eq_true, if_false, gt_iff_lt, hb, if_true, h2, and_self]

/-- Leading fringe filled (no assumption on the buffer length). -/
theorem encWrite_of_full' (e : Encoding) (st : EncSt) (p : Bytes) (herr : st.err = none)
    (hb : 0 < st.buf.length) (hs : ¬ st.buf.length + min p.length (3 - st.buf.length) < 3) :
    encWrite e st p =
      (let t := min p.length (3 - st.buf.length)
       let st1 := ({ st with buf := st.buf ++ p.take t }).wWrite (encode e (st.buf ++ p.take t))
       if st1.err.isSome then (st1, t, st1.err) else encTail e { st1 with buf := [] } (p.drop t) t) := by
  unfold encWrite encTail
  have h2 : ¬ (st.buf ++ p.take (min p.length (3 - st.buf.length))).length < 3 := by
    rw [List.length_append, List.length_take]; omega
  simp only [herr, Option.isSome_none, Bool.false_eq_true, if_false, gt_iff_lt, hb, if_true, h2, and_false]

/-- `Write` returns exactly the error it leaves in the state (from *any* state): a failure of the
underlying writer during a call is returned by that call. -/
theorem encWrite_ret_err (e : Encoding) (st : EncSt) (p : Bytes) :
    (encWrite e st p).2.2 = (encWrite e st p).1.err := by
  by_cases h : st.err.isSome = true
  · rw [encWrite_of_err e st p h]
  · have h0 : st.err = none := by simpa using h
    by_cases hb : st.buf.length > 0
    · by_cases hs : st.buf.length + min p.length (3 - st.buf.length) < 3
      · rw [encWrite_of_short' e st p h0 hb hs]; exact h0.symm
      · rw [encWrite_of_full' e st p h0 hb hs]
        dsimp only
        split
        · rfl
        · exact encTail_ret_err _ _ _ _
    · rw [encWrite_of_nil e st p h0 (List.eq_nil_of_length_eq_zero (by omega))]
      exact encTail_ret_err _ _ _ _

theorem encClose_ret_err (e : Encoding) (st : EncSt) :
    (encClose e st).2 = (encClose e st).1.err := by
  unfold encClose; split <;> rfl

/-! ## Runs: a sequence of `Write`s -/

/-- `Write` each chunk in turn; returns the final state and the list of `(n, err)` results. -/
def encRun (e : Encoding) (st : EncSt) : List Bytes → EncSt × List (Nat × Option Err)
  | [] => (st, [])
  | c :: cs => ((encRun e (encWrite e st c).1 cs).1, (encWrite e st c).2 :: (encRun e (encWrite e st c).1 cs).2)

theorem encRun_length (e : Encoding) (st : EncSt) (cs : List Bytes) :
    (encRun e st cs).2.length = cs.length := by
  induction cs generalizing st with
  | nil => rfl
  | cons c cs ih => simp [encRun, ih]

/-- With a writer that never fails the invariant is kept and every `Write` takes its whole chunk. -/
theorem encRun_nofail (e : Encoding) (st : EncSt) (all : Bytes) (cs : List Bytes) (ok : Ok e st all)
    (hs : st.script = []) :
    Ok e (encRun e st cs).1 (all ++ cs.flatten) ∧
      (encRun e st cs).2 = cs.map (fun c => (c.length, none)) ∧
      (encRun e st cs).1.script = [] := by
  induction cs generalizing st all with
  | nil => simpa [encRun] using ⟨ok, hs⟩
  | cons c cs ih =>
    rcases encWrite_step e st all c ok with ⟨ok', hr, hsc⟩ | ⟨_, _, hne⟩
    · have := ih _ _ ok' (hsc hs)
      simp only [encRun, List.flatten_cons, List.map_cons, ← List.append_assoc]
      exact ⟨this.1, by rw [hr, this.2.1], this.2.2⟩
    · exact absurd hs hne

/-- With an arbitrary writer: the invariant is kept, or the state is a failed one. -/
theorem encRun_inv (e : Encoding) (st : EncSt) (all : Bytes) (cs : List Bytes)
    (h : Ok e st all ∨ Bad e st all) :
    Ok e (encRun e st cs).1 (all ++ cs.flatten) ∨ Bad e (encRun e st cs).1 (all ++ cs.flatten) := by
  induction cs generalizing st all with
  | nil => simpa [encRun] using h
  | cons c cs ih =>
    simp only [encRun, List.flatten_cons, ← List.append_assoc]
    apply ih
    rcases h with ok | b
    · rcases encWrite_step e st all c ok with ⟨ok', _, _⟩ | ⟨b, _, _⟩
      · exact Or.inl ok'
      · exact Or.inr b
    · exact Or.inr (encWrite_bad e st all c b).1

/-- From a failed state every `Write` of a run returns `(0, err)` and leaves the state alone. -/
theorem encRun_of_err (e : Encoding) (st : EncSt) (err : Err) (cs : List Bytes) (h : st.err = some err) :
    encRun e st cs = (st, cs.map (fun _ => (0, some err))) := by
  induction cs with
  | nil => rfl
  | cons c cs ih =>
    have : encWrite e st c = (st, 0, some err) := by
      rw [encWrite_of_err e st c (by simp [h]), h]
    simp [encRun, this, ih]

/-- Stickiness along a run: after the `i`-th `Write` returned `some err`, every later `Write` returns
`(0, some err)` and the final state still holds `err`. -/
theorem encRun_sticky (e : Encoding) (cs : List Bytes) (st : EncSt) (i n : Nat) (err : Err)
    (hi : (encRun e st cs).2[i]? = some (n, some err)) :
    (∀ j, i < j → j < cs.length → (encRun e st cs).2[j]? = some (0, some err)) ∧
      (encRun e st cs).1.err = some err := by
  induction cs generalizing st i with
  | nil => simp [encRun] at hi
  | cons c cs ih =>
    cases i with
    | zero =>
      simp only [encRun, List.getElem?_cons_zero, Option.some.injEq] at hi
      have he : (encWrite e st c).1.err = some err := by
        rw [← encWrite_ret_err, hi]
      simp only [encRun, encRun_of_err e _ err cs he]
      refine ⟨fun j hj hl => ?_, he⟩
      cases j with
      | zero => omega
      | succ j =>
        have : j < cs.length := by simpa using hl
        simp [this]
    | succ i =>
      simp only [encRun, List.getElem?_cons_succ] at hi
      obtain ⟨h1, h2⟩ := ih _ _ hi
      refine ⟨fun j hj hl => ?_, by simpa [encRun] using h2⟩
      cases j with
      | zero => omega
      | succ j =>
        simp only [encRun, List.getElem?_cons_succ]
        exact h1 j (by omega) (by simpa using hl)

theorem ok_init (e : Encoding) (script : List (Option (Err × Nat))) :
    Ok e { script := script } [] :=
  ⟨rfl, by simp, [], rfl, rfl, by simp, by simp [encode]⟩

/-! ## Decoder: the scripted reader -/

/-- Strip `\n`/`\r` (what `newlineFilteringReader` does to each piece). -/
def filt (b : Bytes) : Bytes := b.filter (fun c => !isNL c)

/-- All the bytes the scripted reader still has to deliver. -/
def scriptData (s : List ReadResp) : Bytes := (s.map (·.data)).flatten

/-- Only the last scripted response may carry an error, and it is the sticky error `r`. -/
def Shape (r : Err) : List ReadResp → Prop
  | [] => True
  | [x] => x.err = none ∨ x.err = some r
  | x :: y :: rest => x.err = none ∧ Shape r (y :: rest)

theorem filt_append (a b : Bytes) : filt (a ++ b) = filt a ++ filt b := by simp [filt]

theorem filt_length_le (a : Bytes) : (filt a).length ≤ a.length := List.length_filter_le _ _

theorem filt_eq_self (a : Bytes) (h : ∀ c ∈ a, isNL c = false) : filt a = a := by
  unfold filt; rw [List.filter_eq_self]; intro c hc; simp [h c hc]

theorem scriptData_cons (x : ReadResp) (s : List ReadResp) : scriptData (x :: s) = x.data ++ scriptData s := by
  simp [scriptData]

theorem Shape.tail {r : Err} {x : ReadResp} {rest : List ReadResp} (h : Shape r (x :: rest)) : Shape r rest := by
  cases rest with
  | nil => trivial
  | cons y ys => exact h.2

theorem Shape.setData {r : Err} {x : ReadResp} {rest : List ReadResp} (h : Shape r (x :: rest)) (d : Bytes) :
    Shape r ({ x with data := d } :: rest) := by
  cases rest with
  | nil => exact h
  | cons y ys => exact h

theorem Shape.err_some {r : Err} {x : ReadResp} {rest : List ReadResp} (h : Shape r (x :: rest))
    (he : x.err.isSome = true) : x.err = some r ∧ rest = [] := by
  cases rest with
  | nil =>
    rcases h with h | h
    · simp [h] at he
    · exact ⟨h, rfl⟩
  | cons y ys => have := h.1; simp [this] at he

/-- What one read of the underlying (raw or newline-filtering) reader guarantees; `g` is `id` for the
raw reader and `filt` for the filtering one. -/
structure ReadOK (r : Err) (g : Bytes → Bytes) (st : DecSt) (want : Nat) (res : DecSt × Bytes × Option Err) : Prop where
  out : res.1.out = st.out
  err : res.1.err = st.err
  buf : res.1.buf = st.buf
  readErr : res.1.readErr = st.readErr
  sticky : res.1.sticky = some r
  shape : Shape r res.1.script
  data : g (scriptData st.script) = res.2.1 ++ g (scriptData res.1.script)
  le : res.2.1.length ≤ want
  errc : res.2.2 = none ∨ (res.2.2 = some r ∧ res.1.script = [])
  len : res.1.script.length ≤ st.script.length
  sub : ∀ c ∈ scriptData res.1.script, c ∈ scriptData st.script
  pend : res.1.pending ≤ st.pending

theorem pending_cons (st : DecSt) (x : ReadResp) (rest : List ReadResp) (h : st.script = x :: rest) :
    st.pending = x.data.length + 1 + (rest.map fun r => r.data.length + 1).sum := by
  simp [DecSt.pending, h]

theorem rawRead_spec (r : Err) (st : DecSt) (want : Nat) (hs : st.sticky = some r) (hsh : Shape r st.script) :
    ReadOK r id st want (st.rawRead want) ∧
      (1 ≤ want → ((st.rawRead want).2.2.isSome = true ∨ (st.rawRead want).1.pending < st.pending)) := by
  obtain ⟨err0, readErr0, buf0, out0, script, sticky, reads⟩ := st
  simp only at hs hsh
  subst hs
  unfold DecSt.rawRead
  cases script with
  | nil =>
    refine ⟨⟨rfl, rfl, rfl, rfl, rfl, by simp [Shape], by simp [scriptData], by simp, ?_, by simp, by simp,
      Nat.le_refl _⟩, ?_⟩
    · right; exact ⟨rfl, rfl⟩
    · intro _; left; rfl
  | cons x rest =>
    by_cases hw : x.data.length ≤ want
    · simp only [hw, if_true]
      refine ⟨⟨rfl, rfl, rfl, rfl, ?_, hsh.tail, by simp [scriptData], hw, ?_, by simp, ?_, ?_⟩, ?_⟩
      · by_cases he : x.err.isSome = true
        · simp [(hsh.err_some he).1]
        · simp [he]
      · by_cases he : x.err.isSome = true
        · right; exact ⟨(hsh.err_some he).1, (hsh.err_some he).2⟩
        · left; simpa using he
      · intro c hc; simp only [scriptData_cons]; exact List.mem_append_right _ hc
      · simp only [DecSt.pending, List.map_cons, List.sum_cons]; omega
      · intro _; right; simp only [DecSt.pending, List.map_cons, List.sum_cons]; omega
    · simp only [hw, if_false]
      refine ⟨⟨rfl, rfl, rfl, rfl, rfl, hsh.setData _, ?_, by simp; omega, Or.inl rfl, by simp, ?_, ?_⟩, ?_⟩
      · simp only [id, scriptData_cons]
        rw [← List.append_assoc, List.take_append_drop]
      · intro c hc
        simp only [scriptData_cons, List.mem_append] at hc ⊢
        rcases hc with hc | hc
        · left; exact List.mem_of_mem_drop hc
        · right; exact hc
      · simp only [DecSt.pending, List.map_cons, List.sum_cons, List.length_drop]; omega
      · intro hw1; right; simp only [DecSt.pending, List.map_cons, List.sum_cons, List.length_drop]; omega

theorem filt_eq_nil_of_length {a : Bytes} (h : ¬ (filt a).length > 0) : filt a = [] :=
  List.eq_nil_of_length_eq_zero (by omega)

theorem filteredRead_spec (r : Err) (fuel : Nat) (st : DecSt) (want : Nat) (hs : st.sticky = some r)
    (hsh : Shape r st.script) :
    ReadOK r filt st want (st.filteredRead want fuel) ∧
      (1 ≤ want → st.pending + 1 ≤ fuel →
        ((st.filteredRead want fuel).2.2.isSome = true ∨
          (st.filteredRead want fuel).1.pending < st.pending)) := by
  induction fuel generalizing st with
  | zero =>
    unfold DecSt.filteredRead
    exact ⟨⟨rfl, rfl, rfl, rfl, hs, hsh, by simp, by simp, Or.inl rfl, Nat.le_refl _, fun _ h => h,
      Nat.le_refl _⟩, fun _ h => by omega⟩
  | succ fuel ih =>
    unfold DecSt.filteredRead
    obtain ⟨raw, prog⟩ := rawRead_spec r st want hs hsh
    generalize st.rawRead want = res at raw prog
    obtain ⟨st1, data, err⟩ := res
    simp only at raw prog ⊢
    have hd := raw.data
    simp only [id] at hd
    have hpend1 : st1.pending ≤ st.pending := raw.pend
    by_cases hlen : data.length > 0
    · simp only [hlen, if_true]
      have hfd : List.filter (fun c => !isNL c) data = filt data := rfl
      rw [hfd]
      by_cases hf : (filt data).length > 0
      · simp only [hf, if_true]
        refine ⟨⟨raw.out, raw.err, raw.buf, raw.readErr, raw.sticky, raw.shape, ?_,
          Nat.le_trans (filt_length_le _) raw.le, raw.errc, raw.len, raw.sub, raw.pend⟩, ?_⟩
        · simp only [hd, filt_append]
        · intro hw _; exact prog hw
      · simp only [hf, if_false]
        have hnil := filt_eq_nil_of_length hf
        obtain ⟨rec, rprog⟩ := ih st1 raw.sticky raw.shape
        have hpend2 : (st1.filteredRead want fuel).1.pending ≤ st1.pending := rec.pend
        refine ⟨⟨rec.out.trans raw.out, rec.err.trans raw.err, rec.buf.trans raw.buf,
          rec.readErr.trans raw.readErr, rec.sticky, rec.shape, ?_, rec.le, rec.errc,
          Nat.le_trans rec.len raw.len, fun c hc => raw.sub c (rec.sub c hc),
          Nat.le_trans rec.pend raw.pend⟩, ?_⟩
        · rw [hd, filt_append, hnil, List.nil_append]; exact rec.data
        · intro hw hfuel
          -- the raw read delivered data, so it consumed something
          have hlt : st1.pending < st.pending := by
            rcases prog hw with he | hlt
            · -- data together with an error: the script is now empty, and it was not before
              rcases raw.errc with hn | ⟨_, hsc⟩
              · have hn' : err = none := hn
                simp [hn'] at he
              · have hsc : st1.script = [] := hsc
                have h0 : st1.pending = 0 := by simp [DecSt.pending, hsc]
                have hpos : 0 < st.pending := by
                  cases hsc0 : st.script with
                  | nil =>
                    have : scriptData st.script = [] := by simp [hsc0, scriptData]
                    rw [this] at hd
                    have := congrArg List.length hd
                    simp at this; omega
                  | cons x rest => rw [pending_cons st x rest hsc0]; omega
                omega
            · exact hlt
          rcases rprog hw (by omega) with he | hlt2
          · left; exact he
          · right; omega
    · simp only [hlen, if_false]
      have hnil : data = [] := List.eq_nil_of_length_eq_zero (by omega)
      subst hnil
      refine ⟨⟨raw.out, raw.err, raw.buf, raw.readErr, raw.sticky, raw.shape, ?_, by simp, raw.errc, raw.len,
        raw.sub, raw.pend⟩, ?_⟩
      · simp only [hd, List.nil_append]
      · intro hw _; exact prog hw

/-! ## Decoder: the refill loop -/

/-- The size of the window `decoder.Read` tries to fill for a caller buffer of `plen` bytes. -/
def refillN (plen : Nat) : Nat :=
  if (if plen / 3 * 4 < 4 then 4 else plen / 3 * 4) > 1024 then 1024
  else (if plen / 3 * 4 < 4 then 4 else plen / 3 * 4)

theorem refillN_ge (plen : Nat) : 4 ≤ refillN plen := by unfold refillN; split <;> split <;> omega
theorem refillN_le (plen : Nat) : refillN plen ≤ 1024 := by unfold refillN; split <;> split <;> omega
theorem refillN_plen (plen : Nat) : refillN plen / 4 * 3 ≤ plen ∨ refillN plen = 4 := by
  unfold refillN; split <;> split <;> omega

/-- Reader-error bookkeeping: an error has been seen only once the script is exhausted, and it is `r`. -/
def RE (r : Err) (st : DecSt) : Prop := st.readErr = none ∨ (st.readErr = some r ∧ st.script = [])

structure RefillOK (r : Err) (plen : Nat) (st st' : DecSt) : Prop where
  out : st'.out = st.out
  err : st'.err = st.err
  sticky : st'.sticky = some r
  shape : Shape r st'.script
  re : RE r st'
  data : st.buf ++ filt (scriptData st.script) = st'.buf ++ filt (scriptData st'.script)
  bufle : st.buf.length ≤ refillN plen → st'.buf.length ≤ refillN plen
  len : st'.script.length ≤ st.script.length
  sub : ∀ c ∈ scriptData st'.script, c ∈ scriptData st.script

/-- A state whose loop condition is false is returned unchanged, whatever the fuel. -/
theorem refill_stop (st : DecSt) (plen fuel : Nat) (h : ¬ (st.buf.length < 4 ∧ st.readErr.isNone = true)) :
    st.refill plen fuel = st := by
  cases fuel with
  | zero => rfl
  | succ f => unfold DecSt.refill; rw [if_neg h]

theorem refill_spec (r : Err) (plen fuel : Nat) (st : DecSt) (hs : st.sticky = some r)
    (hsh : Shape r st.script) (hre : RE r st) :
    RefillOK r plen st (st.refill plen fuel) ∧
      (st.pending + 1 ≤ fuel →
        (4 ≤ (st.refill plen fuel).buf.length ∨ (st.refill plen fuel).readErr.isSome = true)) := by
  induction fuel generalizing st with
  | zero =>
    unfold DecSt.refill
    exact ⟨⟨rfl, rfl, hs, hsh, hre, rfl, id, Nat.le_refl _, fun _ h => h⟩, fun h => by omega⟩
  | succ fuel ih =>
    unfold DecSt.refill
    by_cases hc : st.buf.length < 4 ∧ st.readErr.isNone = true
    · rw [if_pos hc]
      dsimp only
      have hN : (if (if plen / 3 * 4 < 4 then 4 else plen / 3 * 4) > 1024 then 1024
          else if plen / 3 * 4 < 4 then 4 else plen / 3 * 4) = refillN plen := rfl
      rw [hN]
      have hNge := refillN_ge plen
      obtain ⟨rd, prog⟩ := filteredRead_spec r (st.pending + 2) st (refillN plen - st.buf.length) hs hsh
      generalize st.filteredRead (refillN plen - st.buf.length) (st.pending + 2) = res at rd prog
      obtain ⟨st1, data, err⟩ := res
      simp only at rd prog ⊢
      have hb1 : st1.buf = st.buf := rd.buf
      have hle1 : data.length ≤ refillN plen - st.buf.length := rd.le
      have hb4 := hc.1
      -- the state handed to the next iteration
      have hre2 : RE r { st1 with buf := st1.buf ++ data, readErr := err } := rd.errc
      obtain ⟨rec, comp⟩ := ih { st1 with buf := st1.buf ++ data, readErr := err } rd.sticky rd.shape hre2
      refine ⟨⟨rec.out.trans rd.out, rec.err.trans rd.err, rec.sticky, rec.shape, rec.re, ?_, ?_,
        Nat.le_trans rec.len rd.len, fun c hc => rd.sub c (rec.sub c hc)⟩, ?_⟩
      · rw [← rec.data, rd.data, rd.buf, List.append_assoc]
      · intro _
        apply rec.bufle
        simp only [List.length_append, hb1]; omega
      · intro hfuel
        rcases prog (by omega) (by omega) with he | hlt
        · -- the reader reported an error: the loop stops
          rw [refill_stop _ plen fuel (by
            cases err with
            | none => simp at he
            | some _ => simp)]
          right; exact he
        · exact comp (by
            have : ({ st1 with buf := st1.buf ++ data, readErr := err } : DecSt).pending = st1.pending := rfl
            rw [this]; omega)
    · rw [if_neg hc]
      refine ⟨⟨rfl, rfl, hs, hsh, hre, rfl, id, Nat.le_refl _, fun _ h => h⟩, fun _ => ?_⟩
      by_cases h4 : st.buf.length < 4
      · right
        cases hr : st.readErr with
        | none => simp [h4, hr] at hc
        | some _ => rfl
      · left; omega

/-! ## Decoder: facts about the encoded text -/

theorem encode_eq_nil (e : Encoding) (d : Bytes) (h : encode e d = []) : d = [] := by
  match d, h with
  | [], _ => rfl
  | [_], h => simp [encode] at h
  | [_, _], h => simp [encode] at h
  | _ :: _ :: _ :: _, h => simp [encode] at h

theorem encode_length_pad (e : Encoding) (d : Bytes) (hp : e.pad.isSome = true) :
    4 ∣ (encode e d).length := by
  obtain ⟨p, hp⟩ := Option.isSome_iff_exists.1 hp
  fun_induction encode e d with
  | case1 b0 b1 b2 rest val ih => simp only [List.length_cons]; omega
  | case2 b0 b1 val => simp [padBytes, hp]
  | case3 b0 val => simp [padBytes, hp]
  | case4 => simp

theorem encode_length_ge (e : Encoding) (d : Bytes) : 4 * d.length ≤ 3 * (encode e d).length := by
  fun_induction encode e d with
  | case1 b0 b1 b2 rest val ih => simp only [List.length_cons]; omega
  | case2 b0 b1 val => simp only [List.length_append, List.length_cons, List.length_nil]; omega
  | case3 b0 val => simp only [List.length_append, List.length_cons, List.length_nil]; omega
  | case4 => simp

/-- Cutting the encoded text at a multiple of 4 symbols cuts the data accordingly. -/
theorem encode_split (e : Encoding) (d A B : Bytes) (h : encode e d = A ++ B) (h4 : 4 ∣ A.length) :
    ∃ y z, d = y ++ z ∧ A = encode e y ∧ B = encode e z := by
  obtain ⟨k, hk⟩ := h4
  induction k generalizing d A with
  | zero =>
    have : A = [] := List.eq_nil_of_length_eq_zero (by omega)
    subst this
    exact ⟨[], d, rfl, by simp [encode], by simpa using h.symm⟩
  | succ k ih =>
    match A, hk with
    | a0 :: a1 :: a2 :: a3 :: A', hk =>
      have hk' : A'.length = 4 * k := by simp at hk; omega
      match d, h with
      | [], h => simp [encode] at h
      | [b0], h =>
        cases hp : e.pad with
        | none => simp [encode, padBytes, hp] at h
        | some p =>
          simp only [encode, padBytes, hp, List.cons_append, List.nil_append, List.replicate,
            List.cons.injEq] at h
          obtain ⟨h0, h1, h2, h3, h5⟩ := h
          have hA : A' = [] := (List.append_eq_nil_iff.1 h5.symm).1
          have hB : B = [] := (List.append_eq_nil_iff.1 h5.symm).2
          subst hA hB h0 h1 h2 h3
          refine ⟨[b0], [], rfl, ?_, by simp [encode]⟩
          simp [encode, padBytes, hp, List.replicate]
      | [b0, b1], h =>
        cases hp : e.pad with
        | none => simp [encode, padBytes, hp] at h
        | some p =>
          simp only [encode, padBytes, hp, List.cons_append, List.nil_append, List.replicate,
            List.cons.injEq] at h
          obtain ⟨h0, h1, h2, h3, h5⟩ := h
          have hA : A' = [] := (List.append_eq_nil_iff.1 h5.symm).1
          have hB : B = [] := (List.append_eq_nil_iff.1 h5.symm).2
          subst hA hB h0 h1 h2 h3
          refine ⟨[b0, b1], [], rfl, ?_, by simp [encode]⟩
          simp [encode, padBytes, hp, List.replicate]
      | b0 :: b1 :: b2 :: rest, h =>
        simp only [encode, List.cons_append, List.cons.injEq] at h
        obtain ⟨h0, h1, h2, h3, h5⟩ := h
        obtain ⟨y, z, hd, hA, hB⟩ := ih rest A' h5 hk'
        refine ⟨b0 :: b1 :: b2 :: y, z, by simp [hd], ?_, hB⟩
        simp only [encode, h0, h1, h2, h3, hA]

/-! ## Decoder: `decRead` -/

/-- The `Decode`-level fact the streaming proofs rely on, kept abstract here so that this file does
not depend on the bit-level proofs: decoding the one-shot encoding of `y` into a zeroed buffer that
is large enough reports no error and yields `y`.  It is discharged from `WellFormed e` in
`Proofs/StreamDecode.lean` (`decodeOK_of_wellFormed`). -/
def DecodeOK (e : Encoding) : Prop :=
  ∀ (y : Bytes) (L : Nat), y.length ≤ L → (encode e y).length / 4 * 3 ≤ L →
    (decode e L (encode e y)).err = none ∧
    (decode e L (encode e y)).dst.toList.take (decode e L (encode e y)).n = y

/-- The `Read` invariant (no error returned yet): `delivered` plus the pending output `out`, followed
by some `d2`, is the data, and the encoding of `d2` is exactly the text still in `buf` and in the
reader's script (newlines stripped). -/
structure DInv (e : Encoding) (data : Bytes) (r : Err) (st : DecSt) (delivered : Bytes) : Prop where
  err : st.err = none
  sticky : st.sticky = some r
  shape : Shape r st.script
  buf : st.buf.length < 4
  re : RE r st
  ex : ∃ d2, data = (delivered ++ st.out) ++ d2 ∧ encode e d2 = st.buf ++ filt (scriptData st.script)

theorem take_ne_nil {α : Type} (l : List α) (n : Nat) (hl : l ≠ []) (hn : 1 ≤ n) : l.take n ≠ [] := by
  cases l with
  | nil => exact absurd rfl hl
  | cons a t =>
    cases n with
    | zero => omega
    | succ n => simp

/-- What one `Read` achieves: no error, at least one byte delivered and the invariant again (with the
delivered bytes appended); or the reader's error `r`, nothing delivered by this call, and everything
delivered before. -/
def StepOK (e : Encoding) (data : Bytes) (r : Err) (delivered : Bytes)
    (res : DecSt × Bytes × Option Err) : Prop :=
  (res.2.2 = none ∧ DInv e data r res.1 (delivered ++ res.2.1) ∧ res.2.1 ≠ []) ∨
  (res.2.2 = some r ∧ res.2.1 = [] ∧ delivered = data ∧ res.1.err = some r ∧ res.1.out = [])

theorem decRead_step (e : Encoding) (data : Bytes) (r : Err) (st : DecSt) (delivered : Bytes) (plen : Nat)
    (hdec : DecodeOK e) (inv : DInv e data r st delivered) (hp : 1 ≤ plen) :
    StepOK e data r delivered (decRead e st plen) := by
  obtain ⟨herr, hst, hsh, hbuf, hre, d2, hdata, henc⟩ := inv
  unfold decRead
  by_cases ho : st.out.length > 0
  · rw [if_pos ho]
    left
    refine ⟨rfl, ⟨herr, hst, hsh, hbuf, hre, d2, ?_, henc⟩, ?_⟩
    · simp only [List.append_assoc, List.take_append_drop]
      simpa using hdata
    · exact take_ne_nil _ _ (List.length_pos_iff.1 ho) hp
  · rw [if_neg ho]
    have hout : st.out = [] := List.eq_nil_of_length_eq_zero (by omega)
    have he : ¬ (st.err.isSome = true) := by simp [herr]
    rw [if_neg he]
    obtain ⟨rf, comp⟩ := refill_spec r plen (st.pending + 6) st hst hsh hre
    have comp := comp (by omega)
    dsimp only
    generalize st.refill plen (st.pending + 6) = st1 at rf comp ⊢
    have hout1 : st1.out = [] := rf.out.trans hout
    have henc1 : encode e d2 = st1.buf ++ filt (scriptData st1.script) := henc.trans rf.data
    have hbuf1 : st1.buf.length ≤ refillN plen := rf.bufle (by have := refillN_ge plen; omega)
    by_cases h4 : st1.buf.length < 4
    · rw [if_pos h4]
      -- the refill loop always completes: fewer than 4 symbols means the reader has reported `r`
      have hre1 : st1.readErr = some r ∧ st1.script = [] := by
        rcases rf.re with h | h
        · rcases comp with c | c
          · omega
          · simp [h] at c
        · exact h
      have hb : st1.buf = encode e d2 := by
        rw [henc1, hre1.2]; simp [scriptData, filt]
      by_cases ht : e.pad.isNone = true ∧ st1.buf.length > 0
      · -- unpadded final fragment
        rw [if_pos ht]
        have hlen := encode_length_ge e d2
        obtain ⟨hd1, hd2⟩ := hdec d2 768 (by rw [← hb] at hlen; omega) (by rw [← hb]; omega)
        have hne : d2 ≠ [] := by
          intro h; rw [h, encode_nil] at hb; rw [hb] at ht; simp at ht
        rw [hb]
        generalize decode e 768 (encode e d2) = dr at hd1 hd2 ⊢
        rw [hd2]
        have hn : min plen d2.length > 0 := by
          have : d2.length > 0 := List.length_pos_iff.2 hne
          omega
        rw [if_pos (Or.inl hn)]
        left
        refine ⟨rfl, ⟨by simp [decErr, hd1], rf.sticky, rf.shape, by simp, rf.re, [], ?_, ?_⟩, ?_⟩
        · simp only [List.append_assoc, List.take_append_drop, List.append_nil]
          simpa [hout] using hdata
        · simp [encode_nil, hre1.2, scriptData, filt]
        · exact take_ne_nil _ _ hne hp
      · -- the reader's error, with nothing left over
        rw [if_neg ht]
        have hb0 : st1.buf.length = 0 := by
          cases hpd : e.pad with
          | none =>
            have : ¬ st1.buf.length > 0 := fun h => ht ⟨by simp [hpd], h⟩
            omega
          | some p =>
            have := encode_length_pad e d2 (by simp [hpd])
            rw [← hb] at this; omega
        have hd2 : d2 = [] := encode_eq_nil e d2 (by rw [← hb]; exact List.eq_nil_of_length_eq_zero hb0)
        right
        have hcond : ¬ (st1.readErr = some errEOF ∧ st1.buf.length > 0) := by omega
        rw [if_neg hcond]
        refine ⟨hre1.1, rfl, ?_, hre1.1, hout1⟩
        simpa [hout, hd2] using hdata.symm
    · rw [if_neg h4]
      -- whole quanta in the buffer
      have hnr : st1.buf.length / 4 * 4 ≤ st1.buf.length := by omega
      have hAl : (st1.buf.take (st1.buf.length / 4 * 4)).length = st1.buf.length / 4 * 4 := by
        rw [List.length_take]; omega
      have hsplit : encode e d2 = st1.buf.take (st1.buf.length / 4 * 4) ++
          (st1.buf.drop (st1.buf.length / 4 * 4) ++ filt (scriptData st1.script)) := by
        rw [← List.append_assoc, List.take_append_drop]; exact henc1
      obtain ⟨y, z, hyz, hA, hB⟩ := encode_split e d2 _ _ hsplit (by rw [hAl]; omega)
      have hyl := encode_length_ge e y
      rw [← hA, hAl] at hyl
      have hN := refillN_le plen
      have hyne : y ≠ [] := by
        intro h
        have := congrArg List.length hA
        rw [hAl, h, encode_nil] at this
        simp at this; omega
      have hdl : (st1.buf.drop (st1.buf.length / 4 * 4)).length < 4 := by
        rw [List.length_drop]; omega
      by_cases hw : st1.buf.length / 4 * 3 > plen
      · rw [if_pos hw]
        obtain ⟨hd1, hd2⟩ := hdec y 768 (by omega) (by rw [← hA, hAl]; omega)
        rw [hA]
        generalize decode e 768 (encode e y) = dr at hd1 hd2 ⊢
        rw [hd2]
        left
        refine ⟨by simp [decErr, hd1], ⟨by simp [decErr, hd1], rf.sticky, rf.shape, hdl, rf.re, z, ?_, hB.symm⟩, ?_⟩
        · simp only [List.append_assoc, List.take_append_drop]
          simpa [hout, hyz] using hdata
        · exact take_ne_nil _ _ hyne hp
      · rw [if_neg hw]
        obtain ⟨hd1, hd2⟩ := hdec y plen (by omega) (by rw [← hA, hAl]; omega)
        rw [hA]
        generalize decode e plen (encode e y) = dr at hd1 hd2 ⊢
        rw [hd2]
        left
        refine ⟨by simp [decErr, hd1], ⟨by simp [decErr, hd1], rf.sticky, rf.shape, hdl, rf.re, z, ?_, hB.symm⟩, hyne⟩
        simpa [hout, hout1, hyz] using hdata

/-- After the error has been returned (and no output is pending) `Read` keeps returning it. -/
theorem decRead_done (e : Encoding) (st : DecSt) (r : Err) (plen : Nat) (he : st.err = some r)
    (ho : st.out = []) : decRead e st plen = (st, [], some r) := by
  unfold decRead
  simp [he, ho]

/-! ## Runs: a sequence of `Read`s -/

/-- `Read` with each caller buffer size in turn; returns the final state and the list of
`(delivered bytes, err)` results. -/
def decRun (e : Encoding) (st : DecSt) : List Nat → DecSt × List (Bytes × Option Err)
  | [] => (st, [])
  | k :: ks => ((decRun e (decRead e st k).1 ks).1, (decRead e st k).2 :: (decRun e (decRead e st k).1 ks).2)

theorem decRun_done (e : Encoding) (st : DecSt) (r : Err) (ks : List Nat) (he : st.err = some r)
    (ho : st.out = []) : decRun e st ks = (st, List.replicate ks.length ([], some r)) := by
  induction ks with
  | nil => rfl
  | cons k ks ih => simp [decRun, decRead_done e st r k he ho, ih, List.replicate_succ]

theorem DInv.prefix {e : Encoding} {data : Bytes} {r : Err} {st : DecSt} {delivered : Bytes}
    (h : DInv e data r st delivered) : delivered <+: data := by
  obtain ⟨d2, hd, _⟩ := h.ex
  exact ⟨st.out ++ d2, by rw [hd]; simp⟩

theorem decRun_spec (e : Encoding) (data : Bytes) (r : Err) (hdec : DecodeOK e) (sizes : List Nat)
    (st : DecSt) (delivered : Bytes) (inv : DInv e data r st delivered) (hsz : ∀ k ∈ sizes, 1 ≤ k) :
    ((∀ p ∈ (decRun e st sizes).2, p.2 = none) ∧
      DInv e data r (decRun e st sizes).1 (delivered ++ ((decRun e st sizes).2.map (·.1)).flatten) ∧
      sizes.length ≤ (((decRun e st sizes).2.map (·.1)).flatten).length) ∨
    (∃ ok m, (decRun e st sizes).2 = ok ++ List.replicate (m + 1) ([], some r) ∧
      (∀ p ∈ ok, p.2 = none) ∧ delivered ++ (ok.map (·.1)).flatten = data) := by
  induction sizes generalizing st delivered with
  | nil => left; simpa [decRun] using inv
  | cons k ks ih =>
    have hk : 1 ≤ k := hsz k (by simp)
    have hks : ∀ k ∈ ks, 1 ≤ k := fun k hk => hsz k (by simp [hk])
    rcases decRead_step e data r st delivered k hdec inv hk with ⟨h1, h2, h3⟩ | ⟨h1, h2, h3, h4, h5⟩
    · rcases ih _ _ h2 hks with ⟨a1, a2, a3⟩ | ⟨ok, m, b1, b2, b3⟩
      · left
        refine ⟨?_, ?_, ?_⟩
        · intro p hp
          simp only [decRun, List.mem_cons] at hp
          rcases hp with hp | hp
          · rw [hp]; exact h1
          · exact a1 p hp
        · simpa [decRun, List.append_assoc] using a2
        · have hpos : (decRead e st k).2.1.length > 0 := List.length_pos_iff.2 h3
          simp only [decRun, List.map_cons, List.flatten_cons, List.length_append, List.length_cons]
          omega
      · right
        refine ⟨(decRead e st k).2 :: ok, m, by simp [decRun, b1], ?_, ?_⟩
        · intro p hp
          simp only [List.mem_cons] at hp
          rcases hp with hp | hp
          · rw [hp]; exact h1
          · exact b2 p hp
        · simpa [List.append_assoc] using b3
    · right
      refine ⟨[], ks.length, ?_, by simp, by simpa using h3⟩
      have hres : (decRead e st k).2 = ([], some r) := by
        rw [← h1, ← h2]
      simp [decRun, decRun_done e _ r ks h4 h5, hres, List.replicate_succ]

end GoCrypt.Stream
