import GoCrypt.Model.Kdf.Hashed

/-!
# Sun MD5: the model's coin flip on 16-byte digests, as total functions

`Kdf.sunCoin` / `Kdf.sunRounds` are written with `Option` (an index out of range = Go panics). On a
16-byte digest nothing is out of range; this file gives the total versions (`coinN`, `roundsN`) that
the IR proof uses as loop invariants, and proves them equal to the model. Helper lemmas only.
-/

namespace GoCrypt.SunMd5
open GoCrypt.Kdf

/-- `bit(off)` -/
def bitN (d : Bytes) (off : Nat) : Nat := ((d.getD (off % 128 / 8) 0).toNat >>> (off % 128 % 8)) % 2

/-- `ind7[j]` -/
def i7 (d : Bytes) (j : Nat) : Nat :=
  let dj := (d.getD j 0).toNat
  let doff := (d.getD ((j + 3) % 16) 0).toNat
  let ind4 := (dj >>> (doff % 5)) &&& 0x0F
  let sh7 := (doff >>> (dj % 8)) &&& 0x01
  ((d.getD ind4 0).toNat >>> sh7) &&& 0x7F

/-- `indA` (`base = 0`) / `indB` (`base = 8`) after `k` iterations of the second inner loop. -/
def indN (d : Bytes) (base : Nat) : Nat → Nat
  | 0 => 0
  | k + 1 => indN d base k ||| (bitN d (i7 d (k + base)) <<< k)

def coinN (d : Bytes) (round : Nat) : Bool :=
  let fA := (indN d 0 8 >>> bitN d round) &&& 0x7F
  let fB := (indN d 8 8 >>> bitN d ((round + 64) % 4294967296)) &&& 0x7F
  (bitN d fA ^^^ bitN d fB) == 1

def roundsN (H : Bytes → Bytes) (phrase : Bytes) : Nat → Bytes → Bytes
  | 0, d => d
  | n + 1, d =>
    let prev := roundsN H phrase n d
    H (prev ++ (if coinN prev n then phrase else []) ++ Strconv.formatUint n 10)

theorem getElem?_of_len16 (d : Bytes) (h : d.length = 16) (j : Nat) (hj : j < 16) : d[j]? = some (d.getD j 0) := by
  have : j < d.length := by omega
  simp [List.getD, this]

theorem sunBit_eq (d : Bytes) (h : d.length = 16) (off : Nat) : sunBit d off = some (bitN d off) := by
  simp only [sunBit, bitN, getElem?_of_len16 d h _ (show off % 128 / 8 < 16 by omega)]
  rfl

theorem i7_lt (d : Bytes) (j : Nat) : i7 d j < 128 := by
  unfold i7
  exact Nat.lt_succ_of_le Nat.and_le_right

theorem mapM_some {α β : Type} (g : α → Option β) (v : α → β) : ∀ (l : List α), (∀ a ∈ l, g a = some (v a)) →
    l.mapM g = some (l.map v)
  | [], _ => rfl
  | a :: l, h => by
    rw [List.mapM_cons, h a (List.mem_cons_self), mapM_some g v l (fun b hb => h b (List.mem_cons_of_mem _ hb))]
    rfl

theorem sunCoin_eq (d : Bytes) (h : d.length = 16) (round : Nat) : sunCoin d round = some (coinN d round) := by
  unfold sunCoin
  have hm : ((List.range 16).mapM fun j => do
      let dj ← d[j]?
      let doff ← d[(j + 3) % 16]?
      let ind4 := (dj.toNat >>> (doff.toNat % 5)) &&& 0x0F
      let sh7 := (doff.toNat >>> (dj.toNat % 8)) &&& 0x01
      let di ← d[ind4]?
      pure ((di.toNat >>> sh7) &&& 0x7F)) = some ((List.range 16).map (i7 d)) := by
    apply mapM_some
    intro j hj
    have hj' : j < 16 := List.mem_range.mp hj
    rw [getElem?_of_len16 d h j hj', getElem?_of_len16 d h _ (by omega)]
    simp only [Option.bind_eq_bind, Option.bind_some]
    rw [getElem?_of_len16 d h _ (Nat.lt_succ_of_le Nat.and_le_right)]
    rfl
  rw [hm]
  have hr8 : List.range 8 = [0, 1, 2, 3, 4, 5, 6, 7] := by decide
  have hg : ∀ j, j < 16 → ((List.range 16).map (i7 d)).getD j 0 = i7 d j := by
    intro j hj
    simp [List.getD, hj]
  simp only [Option.bind_eq_bind, Option.bind_some, hr8, sunBit_eq d h, List.forIn_cons, List.forIn_nil,
    hg _ (by decide : (0 : Nat) < 16), hg 1 (by decide), hg 2 (by decide), hg 3 (by decide), hg 4 (by decide), hg 5 (by decide),
    hg 6 (by decide), hg 7 (by decide), hg (0 + 8) (by decide), hg (1 + 8) (by decide), hg (2 + 8) (by decide),
    hg (3 + 8) (by decide), hg (4 + 8) (by decide), hg (5 + 8) (by decide), hg (6 + 8) (by decide), hg (7 + 8) (by decide)]
  rfl

theorem roundsN_length (H : Bytes → Bytes) (hH : ∀ x, (H x).length = 16) (phrase : Bytes) (d : Bytes) (hd : d.length = 16) :
    ∀ n, (roundsN H phrase n d).length = 16
  | 0 => hd
  | _ + 1 => hH _

theorem sunRounds_eq (H : Bytes → Bytes) (hH : ∀ x, (H x).length = 16) (phrase : Bytes) (d : Bytes) (hd : d.length = 16) :
    ∀ n, sunRounds H phrase n d = some (roundsN H phrase n d)
  | 0 => rfl
  | n + 1 => by
    rw [sunRounds, sunRounds_eq H hH phrase d hd n]
    simp only [Option.bind_eq_bind, Option.bind_some, sunCoin_eq _ (roundsN_length H hH phrase d hd n)]
    rfl

theorem sunmd5Derive_eq (H : Bytes → Bytes) (hH : ∀ x, (H x).length = 16) (phrase : Bytes) (perm : List Nat)
    (pw ss : Bytes) (rounds : Nat) :
    sunmd5Derive H phrase perm pw ss rounds =
      permute (roundsN H phrase ((rounds + 4096) % 4294967296) (H (pw ++ ss))) perm := by
  unfold sunmd5Derive
  simp only [sunRounds_eq H hH phrase _ (hH _), Option.bind_eq_bind, Option.bind_some]

end GoCrypt.SunMd5
