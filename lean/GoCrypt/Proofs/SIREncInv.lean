import GoCrypt.Proofs.SIREncWriteLoop
import GoCrypt.Proofs.Stream

/-!
# The model's `encWrite` keeps fewer than three bytes buffered while there is no error

The domain hypothesis of `encoderWrite_ir_eq_model` is an invariant of the model. Helper lemmas only.
-/

namespace GoCrypt.SIR
open GoCrypt.Base64LE GoCrypt.Stream

theorem encInterior_rest_short (e : Encoding) (fuel : Nat) : ∀ (st : EncSt) (p : Bytes) (n : Nat), p.length / 3 + 1 ≤ fuel →
    (encInterior e st p n fuel).1.err = none → (encInterior e st p n fuel).2.1.length < 3 := by
  induction fuel with
  | zero => intro st p n h; omega
  | succ f ih =>
    intro st p n hf herr
    rw [encInterior_succ] at herr ⊢
    by_cases hge : p.length ≥ 3
    · rw [if_pos hge] at herr ⊢
      have hnn := intNN_props p.length hge
      by_cases hw : (st.wWrite (encode e (p.take (intNN p.length)))).err.isSome = true
      · rw [if_pos hw] at herr
        simp only at herr
        rw [herr] at hw; simp at hw
      · rw [if_neg hw] at herr ⊢
        exact ih _ _ _ (by simp; omega) herr
    · rw [if_neg hge]; simp only; omega

theorem encTail_keeps_short (e : Encoding) (st1 : EncSt) (p' : Bytes) (take : Nat)
    (h : (encTail e st1 p' take).1.err = none) : (encTail e st1 p' take).1.buf.length < 3 := by
  unfold encTail at h ⊢
  by_cases hw : (encInterior e st1 p' take (p'.length / 3 + 1)).1.err.isSome = true
  · simp only [hw, if_true] at h
    rw [h] at hw; simp at hw
  · simp only [hw, Bool.false_eq_true, if_false]
    have : (encInterior e st1 p' take (p'.length / 3 + 1)).1.err = none := by
      cases hx : (encInterior e st1 p' take (p'.length / 3 + 1)).1.err with
      | none => rfl
      | some c => rw [hx] at hw; simp at hw
    exact encInterior_rest_short e _ st1 p' take (Nat.le_refl _) this

/-- While no error is recorded, `Write` leaves fewer than three bytes buffered. -/
theorem encWrite_keeps_short (e : Encoding) (st : EncSt) (p : Bytes) (hlt : st.err = none → st.buf.length < 3)
    (h : (encWrite e st p).1.err = none) : (encWrite e st p).1.buf.length < 3 := by
  by_cases herr : st.err.isSome = true
  · rw [encWrite_of_err e st p herr] at h ⊢
    exact hlt h
  · have h0 : st.err = none := by simpa using herr
    by_cases hb : st.buf.length > 0
    · by_cases hs : st.buf.length + min p.length (3 - st.buf.length) < 3
      · rw [encWrite_of_short' e st p h0 hb hs]
        simp only [List.length_append, List.length_take]; omega
      · rw [encWrite_of_full' e st p h0 hb hs] at h ⊢
        dsimp only at h ⊢
        split
        · next hw =>
          rw [if_pos hw] at h
          simp only at h
          rw [h] at hw; simp at hw
        · next hw =>
          rw [if_neg hw] at h
          exact encTail_keeps_short _ _ _ _ h
    · rw [encWrite_of_nil e st p h0 (List.eq_nil_of_length_eq_zero (by omega))] at h ⊢
      exact encTail_keeps_short _ _ _ _ h

end GoCrypt.SIR
