import GoCrypt.Proofs.B64IRQuantumW

/-!
# Buffer IR of `hash/base64le`: `decodeQuantum` on a prefix window, after the loop, and the whole function

The lemmas of `B64IRQuantumTail.lean` again for a source slice `⟨s, 0, src.size, cp⟩` over a heap
buffer `S` of which `src` is a prefix. Helper lemmas only.
-/

namespace GoCrypt.B64IR
open GoCrypt.Base64LE GoCrypt.Gen.base64leIR GoCrypt.Gen.base64le GoCrypt.Spec.Base64Bits

set_option maxHeartbeats 1000000 in
theorem dqTail_twoW (c : Ctx) (e : Encoding) (H : Heap) (d n s sn cp : Nat) (dst : Buf) (hd : H[d]? = some dst)
    (hn : n ≤ dst.size) (si' x0 x1 x2 x3 : Nat) (err : Option Nat)
    (h0 : x0 < 256) (h1 : x1 < 256) (h2 : x2 < 256) (h3 : x3 < 256)
    (hsi : 2 ≤ si') (hsz : si' < 2 ^ 62) (vj : Int) (v10 v11 v13 : Val) :
    procResult (exec c dqTail H (dqEnvW e ⟨d, n, dst.size - n, dst.size - n⟩ s sn cp si' (errVal err)
      [UInt8.ofNat x0, UInt8.ofNat x1, UInt8.ofNat x2, UInt8.ofNat x3] 2 vj v10 v11 v13)) =
    ofQ H d (dqFinish e dst n si' 2 x0 x1 x2 x3 err) := by
  have hdlt : d < H.length := heap_lt_of_get hd
  have t0 := toNat_ofNat_lt x0 h0
  have t1 := toNat_ofNat_lt x1 h1
  have t2 := toNat_ofNat_lt x2 h2
  have t3 := toNat_ofNat_lt x3 h3
  have z0 : (0 : UInt8).toNat = 0 := rfl
  simp only [dqTail, Stmt.drop, decodeQuantumIR, dqEnvW, skEnvW, encVal, errVal]
  by_cases hL : n < dst.size
  · cases hst : e.strict
    · b64_simp [hd, t0, t1, t2, t3, indexBytes, asByte_nat, hst, z0]
      conv => rhs; simp [dqFinish, setChk, hL, hst, ofQ, errVal]
      rfl
    · by_cases ho1 : decodeQuantum_out1 (decodeQuantum_val x0 x1 x2 x3) = 0
      · by_cases ho2 : decodeQuantum_out2 (decodeQuantum_val x0 x1 x2 x3) = 0
        · have ho1' := ho1; have ho2' := ho2
          simp only [decodeQuantum_out1, decodeQuantum_out2, decodeQuantum_val] at ho1' ho2'
          b64_simp [hd, t0, t1, t2, t3, indexBytes, asByte_nat, hst, z0, toNat_ofNat_lt, ho1', ho2']
          conv => rhs; simp [dqFinish, setChk, hL, hst, ofQ, errVal, ho1, ho2]
          rfl
        · have ho1' := ho1; have ho2' := ho2
          simp only [decodeQuantum_out1, decodeQuantum_out2, decodeQuantum_val] at ho1' ho2'
          b64_simp [hd, t0, t1, t2, t3, indexBytes, asByte_nat, hst, z0, toNat_ofNat_lt, ho1', ho2']
          conv => rhs; simp [dqFinish, setChk, hL, hst, ofQ, errVal, ho1, ho2]
          rfl
      · have ho1' := ho1
        simp only [decodeQuantum_out1, decodeQuantum_val] at ho1'
        b64_simp [hd, t0, t1, t2, t3, indexBytes, asByte_nat, hst, z0, toNat_ofNat_lt, ho1']
        conv => rhs; simp [dqFinish, setChk, hL, hst, ofQ, errVal, ho1]
        rfl
  · b64_simp [hd, t0, t1, t2, t3, indexBytes, asByte_nat, z0]
    conv => rhs; simp [dqFinish, setChk, hL, ofQ]
    rfl


set_option maxHeartbeats 1000000 in
theorem dqTail_threeW (c : Ctx) (e : Encoding) (H : Heap) (d n s sn cp : Nat) (dst : Buf) (hd : H[d]? = some dst)
    (hn : n ≤ dst.size) (si' x0 x1 x2 x3 : Nat) (err : Option Nat)
    (h0 : x0 < 256) (h1 : x1 < 256) (h2 : x2 < 256) (h3 : x3 < 256)
    (hsi : 3 ≤ si') (hsz : si' < 2 ^ 62) (vj : Int) (v10 v11 v13 : Val) :
    procResult (exec c dqTail H (dqEnvW e ⟨d, n, dst.size - n, dst.size - n⟩ s sn cp si' (errVal err)
      [UInt8.ofNat x0, UInt8.ofNat x1, UInt8.ofNat x2, UInt8.ofNat x3] 3 vj v10 v11 v13)) =
    ofQ H d (dqFinish e dst n si' 3 x0 x1 x2 x3 err) := by
  have hdlt : d < H.length := heap_lt_of_get hd
  have t0 := toNat_ofNat_lt x0 h0
  have t1 := toNat_ofNat_lt x1 h1
  have t2 := toNat_ofNat_lt x2 h2
  have t3 := toNat_ofNat_lt x3 h3
  have z0 : (0 : UInt8).toNat = 0 := rfl
  simp only [dqTail, Stmt.drop, decodeQuantumIR, dqEnvW, skEnvW, encVal, errVal]
  by_cases hL : n + 1 < dst.size
  · cases hst : e.strict
    · b64_simp [hd, t0, t1, t2, t3, indexBytes, asByte_nat, hst, z0]
      conv => rhs; simp [dqFinish, setChk, hL, show n < dst.size by omega, hst, ofQ, errVal]
      rfl
    · by_cases ho2 : decodeQuantum_out2 (decodeQuantum_val x0 x1 x2 x3) = 0
      · have ho2' := ho2
        simp only [decodeQuantum_out2, decodeQuantum_val] at ho2'
        b64_simp [hd, t0, t1, t2, t3, indexBytes, asByte_nat, hst, z0, toNat_ofNat_lt, ho2']
        conv => rhs; simp [dqFinish, setChk, hL, show n < dst.size by omega, hst, ofQ, errVal, ho2]
        rfl
      · have ho2' := ho2
        simp only [decodeQuantum_out2, decodeQuantum_val] at ho2'
        b64_simp [hd, t0, t1, t2, t3, indexBytes, asByte_nat, hst, z0, toNat_ofNat_lt, ho2']
        conv => rhs; simp [dqFinish, setChk, hL, show n < dst.size by omega, hst, ofQ, errVal, ho2]
        rfl
  · b64_simp [hd, t0, t1, t2, t3, indexBytes, asByte_nat, z0]
    conv => rhs; simp [dqFinish, setChk, hL, ofQ]
    rfl


set_option maxHeartbeats 1000000 in
theorem dqTail_fourW (c : Ctx) (e : Encoding) (H : Heap) (d n s sn cp : Nat) (dst : Buf) (hd : H[d]? = some dst)
    (hn : n ≤ dst.size) (si' x0 x1 x2 x3 : Nat) (err : Option Nat)
    (h0 : x0 < 256) (h1 : x1 < 256) (h2 : x2 < 256) (h3 : x3 < 256)
    (hsi : 4 ≤ si') (hsz : si' < 2 ^ 62) (vj : Int) (v10 v11 v13 : Val) :
    procResult (exec c dqTail H (dqEnvW e ⟨d, n, dst.size - n, dst.size - n⟩ s sn cp si' (errVal err)
      [UInt8.ofNat x0, UInt8.ofNat x1, UInt8.ofNat x2, UInt8.ofNat x3] 4 vj v10 v11 v13)) =
    ofQ H d (dqFinish e dst n si' 4 x0 x1 x2 x3 err) := by
  have hdlt : d < H.length := heap_lt_of_get hd
  have t0 := toNat_ofNat_lt x0 h0
  have t1 := toNat_ofNat_lt x1 h1
  have t2 := toNat_ofNat_lt x2 h2
  have t3 := toNat_ofNat_lt x3 h3
  have z0 : (0 : UInt8).toNat = 0 := rfl
  simp only [dqTail, Stmt.drop, decodeQuantumIR, dqEnvW, skEnvW, encVal, errVal]
  by_cases hL : n + 2 < dst.size
  · cases hst : e.strict
    · b64_simp [hd, t0, t1, t2, t3, indexBytes, asByte_nat, hst, z0]
      conv => rhs; simp [dqFinish, setChk, hL, show n + 1 < dst.size by omega, show n < dst.size by omega, hst, ofQ, errVal]
      rfl
    · b64_simp [hd, t0, t1, t2, t3, indexBytes, asByte_nat, hst, z0]
      conv => rhs; simp [dqFinish, setChk, hL, show n + 1 < dst.size by omega, show n < dst.size by omega, hst, ofQ, errVal]
      rfl
  · b64_simp [hd, t0, t1, t2, t3, indexBytes, asByte_nat, z0]
    conv => rhs; simp [dqFinish, setChk, hL, ofQ]
    rfl

theorem dqPrefix_runW (c : Ctx) (e : Encoding) (H : Heap) (ds : Slice) (s sn cp si : Nat) :
    exec c dqPrefix H ([encVal e, .slice ds, .slice ⟨s, 0, sn, cp⟩, .int si] ++ List.replicate 11 .undef) =
      .norm H (dqEnvW e ds s sn cp si (.err none) (arr4 []) 4 ((0 : Nat) : Int) .undef .undef .undef) := by
  simp only [dqPrefix, Stmt.take, decodeQuantumIR, dqEnvW, skEnvW, encVal]
  b64_simp []
  rfl

theorem decodeQuantum_procW (c : Ctx) (e : Encoding) (hal : e.alphabet.length = 64) (H : Heap) (d n s si : Nat)
    (dst S src : Buf) (hd : H[d]? = some dst) (hs : H[s]? = some S) (hle : src.size ≤ S.size)
    (hbr : ∀ (i : Nat) (h1 : i < S.size) (h2 : i < src.size), S[i]'h1 = src[i]'h2) (cp : Nat) (hn : n ≤ dst.size) (hsi : si ≤ src.size)
    (hsz : src.size < 2 ^ 62) :
    execProc c decodeQuantumIR H [encVal e, .slice ⟨d, n, dst.size - n, dst.size - n⟩,
        .slice ⟨s, 0, src.size, cp⟩, .int si] =
      ofQ H d (decodeQuantum e dst n src si) := by
  rw [execProc_eq c decodeQuantumIR H _ rfl, exec_take_drop c H _ 7]
  show procResult ((exec c dqPrefix H ([encVal e, .slice ⟨d, n, dst.size - n, dst.size - n⟩,
    .slice ⟨s, 0, src.size, cp⟩, .int si] ++ List.replicate 11 .undef)).andThen
    (exec c (decodeQuantumIR.body.drop 7))) = _
  rw [dqPrefix_runW, andThen_norm, dqBody_split, exec_seq, dqFor_eq, exec_for]
  have hfuel : (eval H (dqEnvW e ⟨d, n, dst.size - n, dst.size - n⟩ s src.size cp si (.err none) (arr4 []) 4 ((0 : Nat) : Int)
      .undef .undef .undef) dqFor.forFuel >>= asInt) = .ok ((1 + (dst.size - n) + src.size + 4 : Nat) : Int) := by
    simp only [dqFor, Stmt.forFuel, Stmt.head, Stmt.drop, decodeQuantumIR, dqEnvW, skEnvW]
    b64_simp []
    congr 1
  rw [hfuel, bindR_ok, Int.toNat_natCast]
  have hloop := dqLoop_specW c e hal H s S src hs hle hbr cp ⟨d, n, dst.size - n, dst.size - n⟩ hsz (src.size - si) si 0 []
    .undef .undef .undef (1 + (dst.size - n) + src.size + 4) rfl hsi rfl (by omega) (by omega)
    (by intro x hx; cases hx) (by omega)
  rw [decodeQuantum_eq]
  change DqRelW e H _ s src cp (collect e src si 0 [])
    (loop (fun h env => eval h env dqFor.forCond >>= asBool) (exec c dqBody) (exec c dqPost) _ H _) at hloop
  rw [List.reverse_nil] at hloop
  cases hcol : collect e src si 0 [] with
  | inl r =>
    obtain ⟨si', err⟩ := r
    rw [hcol] at hloop
    obtain ⟨_, hout⟩ := hloop
    rw [hout, andThen_ret, procResult_ret]
    simp only [ofQ, heap_set_self H d dst hd]
    rfl
  | inr r =>
    obtain ⟨si', dlen, dr, err⟩ := r
    rw [hcol] at hloop
    obtain ⟨hle, hlen, h2, h4, hds, hdig, vj, v10, v11, v13, hout⟩ := hloop
    rw [hout, andThen_norm]
    have hdig' : ∀ x ∈ dr.reverse, x < 256 := fun x hx => hdig x (List.mem_reverse.1 hx)
    have g0 := getD_lt_of_all dr.reverse 0 hdig'
    have g1 := getD_lt_of_all dr.reverse 1 hdig'
    have g2 := getD_lt_of_all dr.reverse 2 hdig'
    have g3 := getD_lt_of_all dr.reverse 3 hdig'
    have hd3 : dlen = 2 ∨ dlen = 3 ∨ dlen = 4 := by omega
    rcases hd3 with rfl | rfl | rfl
    · exact dqTail_twoW c e H d n s src.size cp dst hd hn si' _ _ _ _ err g0 g1 g2 g3 hds (by omega) vj v10 v11 v13
    · exact dqTail_threeW c e H d n s src.size cp dst hd hn si' _ _ _ _ err g0 g1 g2 g3 hds (by omega) vj v10 v11 v13
    · exact dqTail_fourW c e H d n s src.size cp dst hd hn si' _ _ _ _ err g0 g1 g2 g3 hds (by omega) vj v10 v11 v13

end GoCrypt.B64IR
