import GoCrypt.Proofs.Absorb2Des

/-!
# A concrete collision of the BSDi key folding (kernel-evaluated; two DES encryptions, ~1 min)

`"passwd30aapaaaaa"` and `"passwd51ou9lRYvq"`: the first blocks `k = key("passwd30")`, `k' = key("passwd51")`
have `DES_k(k) ⊕ DES_k'(k')` clear in the eight parity positions (1 chance in 256 for a random pair), so
the second blocks can absorb the difference: `key("ou9lRYvq") = key("aapaaaaa") ⊕ DES_k(k) ⊕ DES_k'(k')`.
The folded 64-bit keys are *equal*, hence so are the hashes for every salt and round count.
Confirmed outside Lean: `desext.Check(desext.NewHash("passwd30aapaaaaa", 725), "passwd51ou9lRYvq") == nil`
in go-crypt, and libxcrypt 4.4.33 gives `_J9..NTOQeEZ0jtFDZNE` for both under the setting `_J9..NTOQ`.
-/

namespace GoCrypt.Absorb2
open GoCrypt GoCrypt.Kdf

/-- `"passwd30aapaaaaa"` -/
def bsdiPwA : Bytes := [112, 97, 115, 115, 119, 100, 51, 48, 97, 97, 112, 97, 97, 97, 97, 97]
/-- `"passwd51ou9lRYvq"` -/
def bsdiPwB : Bytes := [112, 97, 115, 115, 119, 100, 53, 49, 111, 117, 57, 108, 82, 89, 118, 113]

set_option maxRecDepth 100000 in
theorem bsdi_fold_collision : Des.desextKey bsdiPwA = Des.desextKey bsdiPwB := by decide +kernel

theorem bsdi_fold_collision_not_equiv : ¬ desextEquiv bsdiPwA bsdiPwB := by decide

end GoCrypt.Absorb2
