import GoCrypt.Base.A2IR
import GoCrypt.Proofs.A2IRAttr

/-!
# Block IR: interpreter lemmas

Generic facts about `A2IR.exec`/`eval`: the result monads, one rule per statement form, the heap algebra
(`get`/`set`/`push`/`popTo`), statement accessors, loop shapes and the call mechanism.  Helper lemmas
only; the property theorems are in `Props/Argon2IR.lean`.
-/

namespace GoCrypt.A2IR

/-! ## The result monads -/

@[simp, a2ir] theorem pure_eq_ok {α : Type} (a : α) : (pure a : Res α) = .ok a := id rfl
@[simp, a2ir] theorem ok_bind {α β : Type} (a : α) (f : α → Res β) : (Res.ok a >>= f) = f a := id rfl
@[simp, a2ir] theorem panic_bind {α β : Type} (f : α → Res β) : (Res.panic >>= f) = .panic := id rfl
@[simp, a2ir] theorem stuck_bind {α β : Type} (w : String) (f : α → Res β) : (Res.stuck w >>= f) = .stuck w := id rfl

@[simp, a2ir] theorem bindR_ok {α : Type} (a : α) (k : α → Out) : bindR (.ok a) k = k a := id rfl
@[simp, a2ir] theorem bindR_panic {α : Type} (k : α → Out) : bindR (.panic) k = .panic := id rfl
@[simp, a2ir] theorem bindR_stuck {α : Type} (w : String) (k : α → Out) : bindR (.stuck w) k = .stuck w := id rfl

@[simp, a2ir] theorem andThen_norm (h : Heap) (env : Env) (k : Heap → Env → Out) : (Out.norm h env).andThen k = k h env := id rfl
@[simp, a2ir] theorem andThen_ret (h : Heap) (vs : List Val) (k : Heap → Env → Out) : (Out.ret h vs).andThen k = .ret h vs := id rfl
@[simp, a2ir] theorem andThen_panic (k : Heap → Env → Out) : (Out.panic).andThen k = .panic := id rfl
@[simp, a2ir] theorem andThen_stuck (w : String) (k : Heap → Env → Out) : (Out.stuck w).andThen k = .stuck w := id rfl

theorem andThen_assoc (o : Out) (k1 k2 : Heap → Env → Out) :
    (o.andThen k1).andThen k2 = o.andThen fun h env => (k1 h env).andThen k2 := by
  cases o <;> rfl

@[simp, a2ir] theorem asBool_bool (b : Bool) : asBool (.bool b) = .ok b := id rfl
@[simp, a2ir] theorem asU64_u64 (w : UInt64) : asU64 (.u64 w) = .ok w := id rfl
@[simp, a2ir] theorem asIdx_u32 (n : Nat) : asIdx (.u32 n) = .ok n := id rfl
@[simp, a2ir] theorem asIdx_u8 (n : Nat) : asIdx (.u8 n) = .ok n := id rfl
@[simp, a2ir] theorem asIdx_u64 (w : UInt64) : asIdx (.u64 w) = .ok w.toNat := id rfl
@[a2ir] theorem asIdx_nat (n : Nat) : asIdx (.int (n : Int)) = .ok n := by
  simp [asIdx]
@[a2ir] theorem asIdx_lit (n : Nat) : asIdx (.int (no_index (OfNat.ofNat n))) = .ok (OfNat.ofNat n) := by
  show asIdx (.int ((OfNat.ofNat n : Nat) : Int)) = _
  exact asIdx_nat _

/-! ## Slots -/

@[a2ir] theorem lookup_def (env : Env) (x : Nat) : lookup env x =
    match env[x]? with
    | some .undef => .stuck "variable read before its declaration"
    | some v => .ok v
    | none => .stuck "no such slot" := id rfl

@[a2ir] theorem setSlot_def (env : Env) (x : Nat) (v : Val) :
    setSlot env x v = if x < env.length then .ok (env.set x v) else .stuck "no such slot" := id rfl

/-! ## `int` arithmetic inside the range -/

theorem wrapS64_eq {x : Int} (h1 : -9223372036854775808 ≤ x) (h2 : x < 9223372036854775808) : wrapS64 x = x := by
  unfold wrapS64; omega

theorem wrapS64_natCast (a : Nat) (h : a < 9223372036854775808) : wrapS64 (a : Int) = (a : Int) :=
  wrapS64_eq (by omega) (by omega)

theorem natCast_add_ofNat (a k : Nat) :
    (a : Int) + (no_index (OfNat.ofNat k) : Int) = ((a + (OfNat.ofNat k : Nat) : Nat) : Int) := id rfl

theorem ofNat_add_natCast (a k : Nat) :
    (no_index (OfNat.ofNat k) : Int) + (a : Int) = (((OfNat.ofNat k : Nat) + a : Nat) : Int) := by
  show ((OfNat.ofNat k : Nat) : Int) + (a : Int) = _
  omega

theorem natCast_mul_ofNat (a k : Nat) :
    (a : Int) * (no_index (OfNat.ofNat k) : Int) = ((a * (OfNat.ofNat k : Nat) : Nat) : Int) := by
  show (a : Int) * ((OfNat.ofNat k : Nat) : Int) = _
  rw [Int.natCast_mul]

theorem natCast_lt_ofNat (a k : Nat) : ((a : Int) < (no_index (OfNat.ofNat k) : Int)) = (a < (OfNat.ofNat k : Nat)) := by
  show ((a : Int) < ((OfNat.ofNat k : Nat) : Int)) = _
  exact propext Int.ofNat_lt

/-! ## Operators -/

section ops
variable (a b : Nat) (x y : UInt64) (i j : Int)

@[a2ir] theorem evalBin_u32 (op : BinOp) : evalBin op (.u32 a) (.u32 b) = binU32 op a b := id rfl
@[a2ir] theorem evalBin_u64 (op : BinOp) : evalBin op (.u64 x) (.u64 y) = binU64 op x y := id rfl
@[a2ir] theorem evalBin_int (op : BinOp) : evalBin op (.int i) (.int j) = binInt op i j := id rfl
@[a2ir] theorem evalBin_u8 (op : BinOp) : evalBin op (.u8 a) (.u8 b) = binU8 op a b := id rfl

@[a2ir] theorem binU32_add : binU32 .add a b = .ok (.u32 ((a + b) % 4294967296)) := id rfl
@[a2ir] theorem binU32_sub : binU32 .sub a b = .ok (.u32 ((a + 4294967296 - b) % 4294967296)) := id rfl
@[a2ir] theorem binU32_mul : binU32 .mul a b = .ok (.u32 ((a * b) % 4294967296)) := id rfl
@[a2ir] theorem binU32_div : binU32 .div a b = if b = 0 then .panic else .ok (.u32 (a / b)) := id rfl
@[a2ir] theorem binU32_rem : binU32 .rem a b = if b = 0 then .panic else .ok (.u32 (a % b)) := id rfl
@[a2ir] theorem binU32_lt : binU32 .lt a b = .ok (.bool (decide (a < b))) := id rfl
@[a2ir] theorem binU32_le : binU32 .le a b = .ok (.bool (decide (a ≤ b))) := id rfl
@[a2ir] theorem binU32_gt : binU32 .gt a b = .ok (.bool (decide (a > b))) := id rfl
@[a2ir] theorem binU32_ge : binU32 .ge a b = .ok (.bool (decide (a ≥ b))) := id rfl
@[a2ir] theorem binU32_eq : binU32 .eq a b = .ok (.bool (decide (a = b))) := id rfl
@[a2ir] theorem binU32_ne : binU32 .ne a b = .ok (.bool (decide (a ≠ b))) := id rfl

@[a2ir] theorem binU64_add : binU64 .add x y = .ok (.u64 (x + y)) := id rfl
@[a2ir] theorem binU64_sub : binU64 .sub x y = .ok (.u64 (x - y)) := id rfl
@[a2ir] theorem binU64_mul : binU64 .mul x y = .ok (.u64 (x * y)) := id rfl
@[a2ir] theorem binU64_rem : binU64 .rem x y = if y = 0 then .panic else .ok (.u64 (x % y)) := id rfl
@[a2ir] theorem binU64_div : binU64 .div x y = if y = 0 then .panic else .ok (.u64 (x / y)) := id rfl
@[a2ir] theorem binU64_band : binU64 .band x y = .ok (.u64 (x &&& y)) := id rfl
@[a2ir] theorem binU64_bor : binU64 .bor x y = .ok (.u64 (x ||| y)) := id rfl
@[a2ir] theorem binU64_xor : binU64 .xor x y = .ok (.u64 (x ^^^ y)) := id rfl

@[a2ir] theorem binInt_add : binInt .add i j = .ok (.int (wrapS64 (i + j))) := id rfl
@[a2ir] theorem binInt_sub : binInt .sub i j = .ok (.int (wrapS64 (i - j))) := id rfl
@[a2ir] theorem binInt_mul : binInt .mul i j = .ok (.int (wrapS64 (i * j))) := id rfl
@[a2ir] theorem binInt_div : binInt .div i j = if j = 0 then .panic else .ok (.int (wrapS64 (Int.tdiv i j))) := id rfl
@[a2ir] theorem binInt_rem : binInt .rem i j = if j = 0 then .panic else .ok (.int (Int.tmod i j)) := id rfl
@[a2ir] theorem binInt_lt : binInt .lt i j = .ok (.bool (decide (i < j))) := id rfl
@[a2ir] theorem binInt_le : binInt .le i j = .ok (.bool (decide (i ≤ j))) := id rfl
@[a2ir] theorem binInt_gt : binInt .gt i j = .ok (.bool (decide (i > j))) := id rfl
@[a2ir] theorem binInt_ge : binInt .ge i j = .ok (.bool (decide (i ≥ j))) := id rfl
@[a2ir] theorem binInt_eq : binInt .eq i j = .ok (.bool (decide (i = j))) := id rfl
@[a2ir] theorem binInt_ne : binInt .ne i j = .ok (.bool (decide (i ≠ j))) := id rfl

@[a2ir] theorem evalShl_u64 (k : Nat) : evalShl (.u64 x) k = .ok (.u64 (if k < 64 then x <<< UInt64.ofNat k else 0)) := id rfl
@[a2ir] theorem evalShr_u64 (k : Nat) : evalShr (.u64 x) k = .ok (.u64 (if k < 64 then x >>> UInt64.ofNat k else 0)) := id rfl

@[a2ir] theorem evalConv_u32_u64 : evalConv .u32 (.u64 x) = .ok (.u32 (((x.toNat : Int) % 4294967296).toNat)) := id rfl
@[a2ir] theorem evalConv_u64_u32 : evalConv .u64 (.u32 a) = .ok (.u64 (UInt64.ofNat (((a : Int) % 18446744073709551616).toNat))) := id rfl
@[a2ir] theorem evalConv_u32_u8 : evalConv .u32 (.u8 a) = .ok (.u32 (((a : Int) % 4294967296).toNat)) := id rfl
@[a2ir] theorem evalConv_u64_int : evalConv .u64 (.int i) = .ok (.u64 (UInt64.ofNat ((i % 18446744073709551616).toNat))) := id rfl
@[a2ir] theorem evalConv_u32_int : evalConv .u32 (.int i) = .ok (.u32 ((i % 4294967296).toNat)) := id rfl

end ops

theorem toNat_emod_2_32 (a : Nat) : ((a : Int) % 4294967296).toNat = a % 4294967296 := by omega
theorem toNat_emod_2_64 (a : Nat) : ((a : Int) % 18446744073709551616).toNat = a % 18446744073709551616 := by omega

theorem u64_ofNat_mod (a : Nat) : UInt64.ofNat (a % 18446744073709551616) = UInt64.ofNat a := by
  apply UInt64.toNat_inj.mp
  simp [UInt64.toNat_ofNat']

/-! ## The heap algebra -/

/-- The reference points at an object of heap `h`. -/
def Ref.inH (r : Ref) (h : Heap) : Prop :=
  match r with
  | .mem i => i < h.mem.length
  | .stk i => i < h.stk.length

namespace Heap

@[simp, a2ir] theorem stk_length_set (h : Heap) (r : Ref) (o : Obj) : (h.set r o).stk.length = h.stk.length := by
  cases r <;> simp [Heap.set]
@[simp, a2ir] theorem mem_length_set (h : Heap) (r : Ref) (o : Obj) : (h.set r o).mem.length = h.mem.length := by
  cases r <;> simp [Heap.set]
@[simp, a2ir] theorem stk_length_push (h : Heap) (os : List Obj) : (h.push os).stk.length = h.stk.length + os.length := by
  simp [Heap.push]
@[simp, a2ir] theorem mem_length_push (h : Heap) (os : List Obj) : (h.push os).mem.length = h.mem.length := rfl
@[simp, a2ir] theorem stk_length_alloc (h : Heap) (o : Obj) : (h.alloc o).stk.length = h.stk.length := rfl
@[simp, a2ir] theorem mem_length_alloc (h : Heap) (o : Obj) : (h.alloc o).mem.length = h.mem.length + 1 := by
  simp [Heap.alloc]

@[simp, a2ir] theorem push_push (h : Heap) (a b : List Obj) : (h.push a).push b = h.push (a ++ b) := by
  simp [Heap.push]

@[simp] theorem push_nil (h : Heap) : h.push [] = h := by simp [Heap.push]

theorem get_push_top (h : Heap) (os : List Obj) (k : Nat) : (h.push os).get (.stk (h.stk.length + k)) = os[k]? := by
  simp [Heap.get, Heap.push, List.getElem?_append_right]
theorem get_push_top0 (h : Heap) (os : List Obj) : (h.push os).get (.stk h.stk.length) = os[0]? := by
  simpa using get_push_top h os 0

theorem get_push_of_in (h : Heap) (os : List Obj) (r : Ref) (hr : r.inH h) : (h.push os).get r = h.get r := by
  cases r with
  | mem i => rfl
  | stk i => simp only [Ref.inH] at hr; simp [Heap.get, Heap.push, List.getElem?_append_left hr]

theorem get_set_self (h : Heap) (r : Ref) (o : Obj) (hr : r.inH h) : (h.set r o).get r = some o := by
  cases r <;> simp only [Ref.inH] at hr <;> simp [Heap.get, Heap.set, hr]

theorem get_set_ne (h : Heap) (r r' : Ref) (o : Obj) (hne : r ≠ r') : (h.set r o).get r' = h.get r' := by
  cases r <;> cases r' <;> simp [Heap.get, Heap.set] <;>
    (rw [List.getElem?_set_ne]; intro e; exact hne (by rw [e]))

theorem set_push_top (h : Heap) (os : List Obj) (k : Nat) (o : Obj) :
    (h.push os).set (.stk (h.stk.length + k)) o = h.push (os.set k o) := by
  simp [Heap.set, Heap.push, List.set_append_right]
theorem set_push_top0 (h : Heap) (os : List Obj) (o : Obj) :
    (h.push os).set (.stk h.stk.length) o = h.push (os.set 0 o) := by
  simpa using set_push_top h os 0 o

theorem set_push_of_in (h : Heap) (os : List Obj) (r : Ref) (o : Obj) (hr : r.inH h) :
    (h.push os).set r o = (h.set r o).push os := by
  cases r with
  | mem i => rfl
  | stk i => simp only [Ref.inH] at hr; simp [Heap.set, Heap.push, List.set_append_left, hr]

@[simp, a2ir] theorem set_set (h : Heap) (r : Ref) (o o' : Obj) : (h.set r o).set r o' = h.set r o' := by
  cases r <;> simp [Heap.set]

theorem popTo_push (h : Heap) (os : List Obj) (n : Nat) (hn : n = h.stk.length) : (h.push os).popTo n = h := by
  subst hn; cases h; simp [Heap.popTo, Heap.push]

theorem popTo_self (h : Heap) (n : Nat) (hn : n = h.stk.length) : h.popTo n = h := by
  subst hn; cases h; simp [Heap.popTo]

theorem get_alloc_new (h : Heap) (o : Obj) : (h.alloc o).get (.mem h.mem.length) = some o := by
  simp [Heap.get, Heap.alloc]

theorem get_alloc_of_in (h : Heap) (o : Obj) (r : Ref) (hr : r.inH h) : (h.alloc o).get r = h.get r := by
  cases r with
  | stk i => rfl
  | mem i => simp only [Ref.inH] at hr; simp [Heap.get, Heap.alloc, List.getElem?_append_left hr]

end Heap

theorem Ref.inH_set (r r' : Ref) (h : Heap) (o : Obj) : r.inH (h.set r' o) ↔ r.inH h := by
  cases r <;> simp [Ref.inH]

theorem Ref.inH_push (r : Ref) (h : Heap) (os : List Obj) (hr : r.inH h) : r.inH (h.push os) := by
  cases r <;> simp only [Ref.inH] at hr ⊢
  · exact hr
  · simp; omega

theorem Ref.inH_of_get {r : Ref} {h : Heap} {o : Obj} (hg : h.get r = some o) : r.inH h := by
  cases r <;> simp only [Heap.get] at hg <;> simp only [Ref.inH] <;>
    exact (List.getElem?_eq_some_iff.mp hg).1

theorem Ref.stk_ne_of_in {r : Ref} {h : Heap} (hr : r.inH h) (k : Nat) : Ref.stk (h.stk.length + k) ≠ r := by
  intro e; subst e; simp only [Ref.inH] at hr; omega

theorem Ref.stk_ne_of_in0 {r : Ref} {h : Heap} (hr : r.inH h) : Ref.stk h.stk.length ≠ r := by
  simpa using Ref.stk_ne_of_in hr 0

/-! ## Blocks in the heap -/

@[a2ir] theorem getBlocks_def (h : Heap) (r : Ref) : getBlocks h r =
    match h.get r with
    | some (.blocks a) => .ok a
    | _ => .stuck "reference to something that is not an array of blocks" := id rfl

@[a2ir] theorem getBytes_def (h : Heap) (r : Ref) : getBytes h r =
    match h.get r with
    | some (.bytes b) => .ok b
    | _ => .stuck "reference to something that is not a byte buffer" := id rfl

theorem getBlocks_of_get {h : Heap} {r : Ref} {a : Array Block} (hg : h.get r = some (.blocks a)) :
    getBlocks h r = .ok a := by simp [getBlocks, hg]

theorem getBytes_of_get {h : Heap} {r : Ref} {b : Bytes} (hg : h.get r = some (.bytes b)) :
    getBytes h r = .ok b := by simp [getBytes, hg]

theorem blockAt_of_get {h : Heap} {r : Ref} {a : Array Block} {i : Nat} (hg : h.get r = some (.blocks a))
    (hi : i < a.size) : blockAt h r i = .ok a[i]! := by
  simp [blockAt, getBlocks, hg, hi]

theorem readWord_of_get {h : Heap} {r : Ref} {a : Array Block} {i k : Nat} (hg : h.get r = some (.blocks a))
    (hi : i < a.size) (hs : a[i]!.size = 128) (hk : k < 128) : readWord h r i k = .ok (.u64 (a[i]!)[k]!) := by
  have hk' : k < a[i]!.size := by omega
  simp [readWord, blockAt_of_get hg hi, hk, hk']

theorem readWord_panic {h : Heap} {r : Ref} {a : Array Block} {i k : Nat} (hg : h.get r = some (.blocks a))
    (hi : i < a.size) (hk : ¬ k < 128) : readWord h r i k = .panic := by
  simp [readWord, blockAt_of_get hg hi, hk]

theorem storeWord_of_get {h : Heap} {r : Ref} {a : Array Block} {i k : Nat} (w : UInt64)
    (hg : h.get r = some (.blocks a)) (hi : i < a.size) (hs : a[i]!.size = 128) (hk : k < 128) :
    storeWord h r i k w = .ok (h.set r (.blocks (a.set! i (a[i]!.set! k w)))) := by
  have hk' : k < a[i]!.size := by omega
  have e : a[i]? = some a[i]! := by simp [hi]
  simp only [storeWord, getBlocks_of_get hg, ok_bind, e, hk', if_true]

/-! ## Statement accessors

A generated body is a right-nested chain `s₀ ;;; s₁ ;;; … ;;; sₖ`. These functions name its parts, so
that the proofs can speak about "the loop at position 7" without copying its text. -/

namespace Stmt

/-- The chain without its first `n` statements. -/
def drop : Nat → Stmt → Stmt
  | 0, s => s
  | n + 1, .seq _ b => drop n b
  | _ + 1, _ => .skip

/-- The first statement of a chain. -/
def head : Stmt → Stmt
  | .seq a _ => a
  | s => s

/-- The first `n` statements of a chain. -/
def take : Nat → Stmt → Stmt
  | 0, _ => .skip
  | n + 1, .seq a b => .seq a (take n b)
  | _ + 1, s => s

def forFuel : Stmt → Expr
  | .for_ f _ _ _ => f
  | _ => .unknown "not a loop"
def forCond : Stmt → Expr
  | .for_ _ c _ _ => c
  | _ => .unknown "not a loop"
def forPost : Stmt → Stmt
  | .for_ _ _ p _ => p
  | _ => .unknown "not a loop"
def forBody : Stmt → Stmt
  | .for_ _ _ _ b => b
  | .forN _ _ b => b
  | .forBlk _ _ _ b => b
  | _ => .unknown "not a loop"
def iteCond : Stmt → Expr
  | .ite c _ _ => c
  | _ => .unknown "not an if"
def iteThen : Stmt → Stmt
  | .ite _ t _ => t
  | _ => .unknown "not an if"
def iteElse : Stmt → Stmt
  | .ite _ _ e => e
  | _ => .unknown "not an if"

end Stmt

/-! ## One rule per statement form -/

section rules
variable (c : Ctx) (h : Heap) (env : Env)

@[a2ir] theorem exec_seq (a b : Stmt) : exec c (a ;;; b) h env = (exec c a h env).andThen (exec c b) := id rfl
@[a2ir] theorem exec_skip : exec c .skip h env = .norm h env := id rfl
@[a2ir] theorem exec_ret (es : List Expr) : exec c (.ret es) h env = bindR (evalArgs h env es) fun vs => .ret h vs := id rfl
@[a2ir] theorem exec_assign (lhs : List LHS) (rhs : List Expr) :
    exec c (.assign lhs rhs) h env =
      bindR (evalLHSs h env lhs) fun refs =>
      bindR (evalArgs h env rhs) fun vals =>
      bindR (storeAll h env refs vals) fun (h', env') => .norm h' env' := id rfl
@[a2ir] theorem exec_call (lhs : List LHS) (f : String) (args : List Expr) :
    exec c (.call lhs f args) h env =
      bindR (evalLHSs h env lhs) fun refs =>
      bindR (evalArgs h env args) fun vals =>
      bindR (c.call f h vals) fun (h', rs) =>
      bindR (storeAll h' env refs rs) fun (h'', env') => .norm h'' env' := id rfl
@[a2ir] theorem exec_declBlock (x : Nat) : exec c (.declBlock x) h env =
    bindR (setSlot env x (.pblk (.stk h.stk.length) 0)) fun env' => .norm (h.push [.blocks #[zeroBlock]]) env' := id rfl
@[a2ir] theorem exec_declBytes (x n : Nat) : exec c (.declBytes x n) h env =
    bindR (setSlot env x (.parr (.stk h.stk.length))) fun env' => .norm (h.push [.bytes (List.replicate n 0)]) env' := id rfl
@[a2ir] theorem exec_declWG (x : Nat) : exec c (.declWG x) h env =
    bindR (setSlot env x (.pwg (.stk h.stk.length))) fun env' => .norm (h.push [.wg 0]) env' := id rfl
@[a2ir] theorem exec_makeBlocks (x : Nat) (n : Expr) : exec c (.makeBlocks x n) h env =
    bindR (eval h env n >>= asIdx) fun k =>
    bindR (setSlot env x (.blks (.mem h.mem.length))) fun env' =>
      .norm (h.alloc (.blocks (Array.replicate k zeroBlock))) env' := id rfl
@[a2ir] theorem exec_makeBytes (x : Nat) (n : Expr) : exec c (.makeBytes x n) h env =
    bindR (eval h env n >>= asIdx) fun k =>
    bindR (setSlot env x (.bytes (.mem h.mem.length) 0 k k)) fun env' =>
      .norm (h.alloc (.bytes (List.replicate k 0))) env' := id rfl
@[a2ir] theorem exec_ite (cnd : Expr) (t e : Stmt) :
    exec c (.ite cnd t e) h env =
      bindR (eval h env cnd >>= asBool) fun b => if b then exec c t h env else exec c e h env := id rfl
theorem exec_for (fuel cnd : Expr) (post body : Stmt) :
    exec c (.for_ fuel cnd post body) h env =
      bindR (eval h env fuel >>= asIdx) fun n =>
        loop (fun h env => eval h env cnd >>= asBool)
          (fun h env => (exec c body h env).andThen (exec c post)) n h env := id rfl
theorem exec_forN (k n : Nat) (body : Stmt) :
    exec c (.forN k n body) h env =
      rangeLoop (fun i h env => bindR (setSlot env k (.int i)) fun env' => exec c body h env') n 0 h env := id rfl
theorem exec_forBlk (k v : Nat) (e : Expr) (body : Stmt) :
    exec c (.forBlk k v e body) h env =
      bindR (eval h env e) fun bv =>
        match bv with
        | .blk b =>
          rangeLoop (fun i h env =>
            bindR (setSlot env k (.int i)) fun env1 =>
            bindR (setSlot env1 v (.u64 b[i]!)) fun env2 => exec c body h env2) 128 0 h env
        | _ => .stuck "range over something that is not a block" := id rfl
@[a2ir] theorem exec_putU32 (d v : Expr) : exec c (.putU32 d v) h env =
    bindR (eval h env d) fun dv =>
    bindR (eval h env v) fun x =>
      match x with
      | .u32 n => bindR (putLE h dv (le32 n)) fun h' => .norm h' env
      | _ => .stuck "uint32 expected" := id rfl
@[a2ir] theorem exec_putU64 (d v : Expr) : exec c (.putU64 d v) h env =
    bindR (eval h env d) fun dv =>
    bindR (eval h env v >>= asU64) fun w =>
    bindR (putLE h dv (le64 w)) fun h' => .norm h' env := id rfl
@[a2ir] theorem exec_newHash (x : Nat) (size : Expr) : exec c (.newHash x size) h env =
    bindR (eval h env size >>= asIdx) fun k =>
    bindR (setSlot env x (if 1 ≤ k ∧ k ≤ 64 then .hash k [] else .nilHash)) fun env' => .norm h env' := id rfl
@[a2ir] theorem exec_hashWrite (x : Nat) (e : Expr) : exec c (.hashWrite x e) h env =
    bindR (hashOf env x) fun (size, w) =>
    bindR (eval h env e >>= viewBytes h) fun b =>
    bindR (setSlot env x (.hash size (w ++ b))) fun env' => .norm h env' := id rfl
@[a2ir] theorem exec_hashSum (x : Nat) (d : Expr) : exec c (.hashSum x d) h env =
    bindR (hashOf env x) fun (size, w) =>
    bindR (eval h env d) fun dv =>
    bindR (sumInto h dv (c.H size w)) fun h' => .norm h' env := id rfl
@[a2ir] theorem exec_hashReset (x : Nat) : exec c (.hashReset x) h env =
    bindR (hashOf env x) fun (size, _) =>
    bindR (setSlot env x (.hash size [])) fun env' => .norm h env' := id rfl
@[a2ir] theorem exec_copy (d s : Expr) : exec c (.copy d s) h env =
    bindR (eval h env d) fun dv =>
    bindR (eval h env s >>= viewBytes h) fun src =>
      match dv with
      | .bytes r off len _ => bindR (writeAt h r off (src.take len)) fun h' => .norm h' env
      | .nilBytes => .norm h env
      | _ => .stuck "[]byte expected" := id rfl
@[a2ir] theorem exec_wgDone (e : Expr) : exec c (.wgDone e) h env =
    bindR (eval h env e) fun w =>
    bindR (wgAdd h w (-1)) fun h' => .norm h' env := id rfl
theorem exec_tasks (fuel : Expr) (init : Stmt) (cnd : Expr) (post : Stmt) (wg : Expr) (f : String) (args : List Expr) :
    exec c (.tasks fuel init cnd post wg f args) h env =
      (exec c init h env).andThen fun h env =>
      bindR (eval h env fuel >>= asIdx) fun n =>
      (loop (fun h env => eval h env cnd >>= asBool)
        (fun h env =>
          (bindR (eval h env wg) fun w =>
           bindR (wgAdd h w 1) fun h1 =>
           bindR (evalArgs h1 env args) fun vals =>
           bindR (c.call f h1 vals) fun (h2, _) => .norm h2 env
          ).andThen (exec c post)) n h env).andThen fun h env =>
      bindR (eval h env wg) fun w =>
      bindR (wgWait h w) fun _ => .norm h env := id rfl

/-- Splitting a chain at position `n`. -/
theorem exec_take_drop (n : Nat) (s : Stmt) :
    exec c s h env = (exec c (s.take n) h env).andThen (exec c (s.drop n)) := by
  induction n generalizing s h env with
  | zero => rfl
  | succ n ih =>
    cases s with
    | seq a b =>
      simp only [Stmt.take, Stmt.drop, exec]
      cases hx : exec c a h env <;> simp only [andThen_norm, andThen_ret, andThen_panic, andThen_stuck]
      exact ih _ _ _
    | _ => simp only [Stmt.take, Stmt.drop] <;> (cases hx : exec c _ h env <;> simp [exec])

end rules

/-! ## Expressions -/

section evalrules
variable (h : Heap) (env : Env)

@[a2ir] theorem eval_u8 (n : Nat) : eval h env (.u8 n) = .ok (.u8 n) := id rfl
@[a2ir] theorem eval_u32 (n : Nat) : eval h env (.u32 n) = .ok (.u32 n) := id rfl
@[a2ir] theorem eval_u64 (n : Nat) : eval h env (.u64 n) = .ok (.u64 (UInt64.ofNat n)) := id rfl
@[a2ir] theorem eval_int (i : Int) : eval h env (.int i) = .ok (.int i) := id rfl
@[a2ir] theorem eval_bool (b : Bool) : eval h env (.bool b) = .ok (.bool b) := id rfl
@[a2ir] theorem eval_var (x : Nat) : eval h env (.var x) = lookup env x := id rfl
@[a2ir] theorem eval_bin (op : BinOp) (a b : Expr) : eval h env (.bin op a b) =
    (eval h env a >>= fun x => eval h env b >>= fun y => evalBin op x y) := id rfl
@[a2ir] theorem eval_shl (e : Expr) (k : Nat) : eval h env (.shl e k) = (eval h env e >>= fun v => evalShl v k) := id rfl
@[a2ir] theorem eval_shr (e : Expr) (k : Nat) : eval h env (.shr e k) = (eval h env e >>= fun v => evalShr v k) := id rfl
@[a2ir] theorem eval_conv (t : Ty) (e : Expr) : eval h env (.conv t e) = (eval h env e >>= fun v => evalConv t v) := id rfl
@[a2ir] theorem eval_not (e : Expr) : eval h env (.not e) =
    (eval h env e >>= fun v => asBool v >>= fun x => pure (.bool (!x))) := id rfl
@[a2ir] theorem eval_lor (a b : Expr) : eval h env (.lor a b) =
    (eval h env a >>= fun v => asBool v >>= fun x =>
      if x then pure (.bool true) else eval h env b >>= fun w => asBool w >>= fun y => pure (.bool y)) := id rfl
@[a2ir] theorem eval_land (a b : Expr) : eval h env (.land a b) =
    (eval h env a >>= fun v => asBool v >>= fun x =>
      if x then eval h env b >>= fun w => asBool w >>= fun y => pure (.bool y) else pure (.bool false)) := id rfl
@[a2ir] theorem eval_len (e : Expr) : eval h env (.len e) = (eval h env e >>= fun v => lenOf h v) := id rfl
@[a2ir] theorem eval_word (p i : Expr) : eval h env (.word p i) =
    (eval h env p >>= fun pv => eval h env i >>= fun iv => asIdx iv >>= fun k =>
      match pv with
      | .pblk r j => readWord h r j k
      | _ => .stuck "index of something that is not a block") := id rfl
@[a2ir] theorem eval_elem (b i : Expr) : eval h env (.elem b i) =
    (eval h env b >>= fun bv => eval h env i >>= fun iv => asIdx iv >>= fun k =>
      match bv with
      | .blks r => getBlocks h r >>= fun a => if k < a.size then pure (.pblk r k) else .panic
      | _ => .stuck "index of something that is not a []block") := id rfl
@[a2ir] theorem eval_addrWord (p i : Expr) : eval h env (.addrWord p i) =
    (eval h env p >>= fun pv => eval h env i >>= fun iv => asIdx iv >>= fun k =>
      match pv with
      | .pblk r j => if k < 128 then pure (.pword r j k) else .panic
      | _ => .stuck "index of something that is not a block") := id rfl
@[a2ir] theorem eval_deref (p : Expr) : eval h env (.deref p) =
    (eval h env p >>= fun pv =>
      match pv with
      | .pword r j k => readWord h r j k
      | _ => .stuck "*uint64 expected") := id rfl
@[a2ir] theorem eval_loadBlk (p : Expr) : eval h env (.loadBlk p) =
    (eval h env p >>= fun pv =>
      match pv with
      | .pblk r j => blockAt h r j >>= fun b => pure (.blk b)
      | _ => .stuck "block expected") := id rfl
@[a2ir] theorem eval_loadArr (p : Expr) : eval h env (.loadArr p) =
    (eval h env p >>= fun pv =>
      match pv with
      | .parr r => getBytes h r >>= fun b => pure (.arr b)
      | _ => .stuck "byte array expected") := id rfl
@[a2ir] theorem eval_slice (b lo hi : Expr) : eval h env (.slice b lo hi) =
    (eval h env b >>= fun c => eval h env lo >>= fun lv => asIdx lv >>= fun l =>
      eval h env hi >>= fun hv => asIdx hv >>= fun u => sliceVal h c l u) := id rfl
@[a2ir] theorem eval_leU64 (b : Expr) : eval h env (.leU64 b) =
    (eval h env b >>= fun v => viewBytes h v >>= fun bs =>
      if bs.length < 8 then .panic else pure (.u64 (readLE64 bs))) := id rfl
@[a2ir] theorem eval_nilBytes : eval h env .nilBytes = .ok .nilBytes := id rfl
@[a2ir] theorem eval_nilHash : eval h env .nilHash = .ok .nilHash := id rfl

@[a2ir] theorem evalArgs_nil : evalArgs h env [] = .ok [] := id rfl
@[a2ir] theorem evalArgs_cons (e : Expr) (es : List Expr) : evalArgs h env (e :: es) =
    (eval h env e >>= fun v => evalArgs h env es >>= fun vs => pure (v :: vs)) := id rfl

@[a2ir] theorem evalLHS_blank : evalLHS h env .blank = .ok .blank := id rfl
@[a2ir] theorem evalLHS_var (x : Nat) : evalLHS h env (.var x) = .ok (.var x) := id rfl
@[a2ir] theorem evalLHS_newArr (x : Nat) : evalLHS h env (.newArr x) = .ok (.newArr x) := id rfl
@[a2ir] theorem evalLHS_word (p i : Expr) : evalLHS h env (.word p i) =
    (eval h env p >>= fun pv => eval h env i >>= fun iv => asIdx iv >>= fun k =>
      match pv with
      | .pblk r j => if k < 128 then .ok (.word r j k) else .panic
      | _ => .stuck "store into something that is not a block") := id rfl
@[a2ir] theorem evalLHS_deref (p : Expr) : evalLHS h env (.deref p) =
    (eval h env p >>= fun pv =>
      match pv with
      | .pword r j k => .ok (.word r j k)
      | _ => .stuck "*uint64 expected") := id rfl
@[a2ir] theorem evalLHSs_nil : evalLHSs h env [] = .ok [] := id rfl
@[a2ir] theorem evalLHSs_cons (l : LHS) (ls : List LHS) : evalLHSs h env (l :: ls) =
    (evalLHS h env l >>= fun r => evalLHSs h env ls >>= fun rs => pure (r :: rs)) := id rfl

@[a2ir] theorem store_blank (v : Val) : store h env .blank v = .ok (h, env) := id rfl
@[a2ir] theorem store_var (x : Nat) (v : Val) : store h env (.var x) v =
    (setSlot env x v >>= fun env' => pure (h, env')) := id rfl
@[a2ir] theorem store_word (r : Ref) (j k : Nat) (v : Val) : store h env (.word r j k) v =
    (asU64 v >>= fun w => storeWord h r j k w >>= fun h' => pure (h', env)) := id rfl
@[a2ir] theorem store_newArr (x : Nat) (b : Bytes) : store h env (.newArr x) (.arr b) =
    (setSlot env x (.parr (.stk h.stk.length)) >>= fun env' => pure (h.push [.bytes b], env')) := id rfl
@[a2ir] theorem storeAll_nil : storeAll h env [] [] = .ok (h, env) := id rfl
@[a2ir] theorem storeAll_cons (r : LRef) (rs : List LRef) (v : Val) (vs : List Val) :
    storeAll h env (r :: rs) (v :: vs) = (store h env r v >>= fun p => storeAll p.1 p.2 rs vs) := by
  simp only [storeAll]

end evalrules

/-! ## Procedures -/

/-- What a procedure returns, from the result of its body and the height of the local region at entry. -/
def procResult (n : Nat) : Out → Res (Heap × List Val)
  | .ret h' vs =>
    if vs.any (Val.escapes n) then .stuck "pointer to a local variable escapes" else .ok (h'.popTo n, vs)
  | .norm h' _ => .ok (h'.popTo n, [])
  | .panic => .panic
  | .stuck w => .stuck w

theorem execProc_eq (c : Ctx) (p : Proc) (h : Heap) (args : List Val) (hn : p.nparams = args.length) :
    execProc c p h args =
      procResult h.stk.length (exec c p.body h (args ++ List.replicate (p.nslots - p.nparams) .undef)) := by
  unfold execProc
  rw [if_neg (by omega)]
  cases exec c p.body h (args ++ List.replicate (p.nslots - p.nparams) .undef) <;> rfl

@[simp] theorem procResult_norm (n : Nat) (h : Heap) (env : Env) : procResult n (.norm h env) = .ok (h.popTo n, []) := id rfl
@[simp] theorem procResult_panic (n : Nat) : procResult n .panic = .panic := id rfl
theorem procResult_ret (n : Nat) (h : Heap) (vs : List Val) (hv : vs.any (Val.escapes n) = false) :
    procResult n (.ret h vs) = .ok (h.popTo n, vs) := by
  simp [procResult, hv]

/-- The context at call depth `d` of program `P`. -/
def ctxOf (H : Nat → Bytes → Bytes) (P : Program) (d : Nat) : Ctx := { H := H, call := callIn H P d }

theorem ctxOf_call (H : Nat → Bytes → Bytes) (P : Program) (d : Nat) : (ctxOf H P d).call = callIn H P d := rfl
theorem ctxOf_H (H : Nat → Bytes → Bytes) (P : Program) (d : Nat) : (ctxOf H P d).H = H := rfl

theorem callIn_succ (H : Nat → Bytes → Bytes) (P : Program) (d : Nat) (f : String) (p : Proc)
    (hp : List.lookup f P.procs = some p) (h : Heap) (args : List Val) :
    callIn H P (d + 1) f h args = execProc (ctxOf H P d) p h args := by
  simp only [callIn, hp]; rfl

/-! ## Loop shapes -/

theorem loop_false (cond : Heap → Env → Res Bool) (step : Heap → Env → Out) (fuel : Nat) (h : Heap) (env : Env)
    (hc : cond h env = .ok false) : loop cond step fuel h env = .norm h env := by
  unfold loop; simp [hc]

theorem loop_step (cond : Heap → Env → Res Bool) (step : Heap → Env → Out) (fuel : Nat) (h : Heap) (env : Env)
    (hc : cond h env = .ok true) :
    loop cond step (fuel + 1) h env = (step h env).andThen (loop cond step fuel) := by
  rw [loop]; simp [hc]

/-- Counting loop: `st k` is the state at the start of iteration `k`, `n` the number of iterations. -/
theorem loop_count (cond : Heap → Env → Res Bool) (step : Heap → Env → Out) (st : Nat → Heap × Env) (n : Nat)
    (hc : ∀ k, k < n → cond (st k).1 (st k).2 = .ok true)
    (hn : cond (st n).1 (st n).2 = .ok false)
    (hs : ∀ k, k < n → step (st k).1 (st k).2 = .norm (st (k + 1)).1 (st (k + 1)).2) :
    ∀ fuel k, k ≤ n → n - k ≤ fuel → loop cond step fuel (st k).1 (st k).2 = .norm (st n).1 (st n).2 := by
  intro fuel
  induction fuel with
  | zero =>
    intro k hk hf
    have : k = n := by omega
    subst this
    exact loop_false _ _ _ _ _ hn
  | succ fuel ih =>
    intro k hk hf
    by_cases hkn : k = n
    · subst hkn; exact loop_false _ _ _ _ _ hn
    · have hlt : k < n := by omega
      rw [loop_step _ _ _ _ _ (hc k hlt), hs k hlt, andThen_norm]
      exact ih (k + 1) (by omega) (by omega)

/-- A counting loop whose step fails (panic) in iteration `n`. -/
theorem loop_count_panic (cond : Heap → Env → Res Bool) (step : Heap → Env → Out) (st : Nat → Heap × Env) (n : Nat)
    (hc : ∀ k, k ≤ n → cond (st k).1 (st k).2 = .ok true)
    (hs : ∀ k, k < n → step (st k).1 (st k).2 = .norm (st (k + 1)).1 (st (k + 1)).2)
    (hp : step (st n).1 (st n).2 = .panic) :
    ∀ fuel k, k ≤ n → n - k < fuel → loop cond step fuel (st k).1 (st k).2 = .panic := by
  intro fuel
  induction fuel with
  | zero => intro k hk hf; omega
  | succ fuel ih =>
    intro k hk hf
    rw [loop_step _ _ _ _ _ (hc k hk)]
    by_cases hkn : k = n
    · subst hkn; rw [hp]; rfl
    · have hlt : k < n := by omega
      rw [hs k hlt, andThen_norm]
      exact ih (k + 1) (by omega) (by omega)

/-- `range` loop: `st j` is the state before the iteration with counter `i + j`. -/
theorem rangeLoop_count (body : Nat → Heap → Env → Out) (st : Nat → Heap × Env) (i : Nat) :
    ∀ n j, (∀ k, j ≤ k → k < j + n → body (i + k) (st k).1 (st k).2 = .norm (st (k + 1)).1 (st (k + 1)).2) →
      rangeLoop body n (i + j) (st j).1 (st j).2 = .norm (st (j + n)).1 (st (j + n)).2 := by
  intro n
  induction n with
  | zero => intro j _; rfl
  | succ n ih =>
    intro j hs
    rw [rangeLoop, hs j (Nat.le_refl _) (by omega), andThen_norm]
    have := ih (j + 1) (fun k hk1 hk2 => hs k (by omega) (by omega))
    rw [show i + (j + 1) = i + j + 1 by omega, show j + 1 + n = j + (n + 1) by omega] at this
    exact this

/-! ## The symbolic-execution simp call -/

attribute [a2ir] List.getElem?_cons_succ List.getElem?_cons_zero List.set_cons_succ List.set_cons_zero
  List.length_cons List.length_nil Int.toNat_natCast decide_true decide_false
  List.cons_append List.nil_append List.replicate_succ List.replicate_zero ne_eq not_true_eq_false not_false_eq_true
  Bool.not_true Bool.not_false Bool.true_eq_false Bool.false_eq_true if_true if_false
  if_pos if_neg decide_eq_true_eq Nat.zero_add Nat.add_zero
  ge_iff_le gt_iff_lt true_and and_true Bool.and_true Bool.true_and Bool.and_false Bool.false_and
  Bool.or_true Bool.true_or Bool.or_false Bool.false_or
  toNat_emod_2_32 toNat_emod_2_64

/-- `simp only` with the rules that run a block-IR program (`a2ir`) and the literal-arithmetic simprocs. -/
syntax "a2_simp" (" [" Lean.Parser.Tactic.simpLemma,* "]")? : tactic
macro_rules
  | `(tactic| a2_simp) =>
    `(tactic| simp (disch := omega) only [a2ir, Int.reduceLE, Int.reduceLT, Int.reduceEq, Int.reduceNe, Int.reduceToNat, Int.reduceNeg, Int.reduceSub, Int.reduceAdd,
      Nat.reducePow, Nat.reduceEqDiff, Nat.reduceAdd, Nat.reduceLT, Nat.reduceSub, Nat.reduceMul, Nat.reduceLeDiff, ↓reduceIte])
  | `(tactic| a2_simp [$ls,*]) =>
    `(tactic| simp (disch := omega) only [a2ir, Int.reduceLE, Int.reduceLT, Int.reduceEq, Int.reduceNe, Int.reduceToNat, Int.reduceNeg, Int.reduceSub, Int.reduceAdd,
      Nat.reducePow, Nat.reduceEqDiff, Nat.reduceAdd, Nat.reduceLT, Nat.reduceSub, Nat.reduceMul, Nat.reduceLeDiff, ↓reduceIte, $ls,*])

end GoCrypt.A2IR
