import GoCrypt.Proofs.A2IRHashB2a
import GoCrypt.Proofs.A2IRHashInit

/-!
# Block IR: `blake2bHash` and `initHash` as regenerated = the model

`blake2bHash`, case `len > 64`: the code before the loop (`b2_prefix`) reaches the state `b2St … 0`, the loop
runs `hCount (len - 32)` iterations through the states `b2St … k` (`b2_loop`, from `b2_step`), and the code after
the loop (`b2_tail`) writes the last digest; `blake2bHash_long` reads the model's fuel loop the same way.

Main results: `blake2bHashSpec_ctxOf`, `initHashSpec_ctxOf` (the latter from `A2IRHashInit.lean`).
-/

namespace GoCrypt.A2IR
open GoCrypt.Gen.argon2IR GoCrypt.Kdf

/-- heap and frame at the head of the loop after `k` iterations -/
def b2St (h : Heap) (ro : Ref) (off len cap : Nat) (inV : Val) (buf v : Bytes) (k : Nat) : Heap × Env :=
  ((h.set ro (.bytes (buf.take off ++ hO v k ++ buf.drop (off + 32 * (k + 1))))).push [.bytes (hV v k)],
   [.bytes ro (off + 32 * (k + 1)) (len - 32 * (k + 1)) (cap - 32 * (k + 1)), inV, .hash 64 [], .int len,
    .parr (.stk h.stk.length), .int len, .undef])

theorem drop64_le32 (v : Nat) (l : Bytes) : List.drop 64 (A2IR.le32 v ++ l) = List.drop 60 l := id rfl

set_option maxHeartbeats 4000000 in
theorem b2_prefix (c : Ctx) (hH : B2Spec c.H) (h : Heap) (ro : Ref) (off len cap : Nat) (inV : Val)
    (buf inp : Bytes) (hg : h.get ro = some (.bytes buf)) (hcap : off + cap ≤ buf.length) (hlc : len ≤ cap)
    (h64 : 64 < len) (h32 : len < 4294967296) (hin : viewBytes h inV = .ok inp) :
    exec c (proc_blake2bHash.body.take 13) h [.bytes ro off len cap, inV, .undef, .undef, .undef, .undef, .undef] =
      .norm (b2St h ro off len cap inV buf (Prim.blake2b 64 (Argon2.le32 len ++ inp)) 0).1
        (b2St h ro off len cap inV buf (Prim.blake2b 64 (Argon2.le32 len ++ inp)) 0).2 := by
  have hVw := viewBytes_push hin
  have hr : ro.inH h := Ref.inH_of_get hg
  have hlen64 : ∀ m, (c.H 64 m).length = 64 := fun m => by rw [hH.eq]; exact Argon2Eq.blake2b_length 64 m (by omega)
  have hmod : len % 4294967296 = len := Nat.mod_eq_of_lt (by omega)
  have m1 : min len (min 32 64) = 32 := by omega
  have m2 : min len 32 = 32 := by omega
  simp only [proc_blake2bHash, Stmt.take, b2St, A2IR.hV, A2IR.hO]
  rcases viewBytes_ok_cases hin with ⟨rfl, rfl⟩ | ⟨r1, o1, l1, c1, buf1, rfl, -, -, -, rfl⟩ <;>
  a2_simp [lenOf_bytes, lenOf_nilBytes, lenOf_parr, viewBytes_nilBytes, writeAt_def, sliceVal_parr, sliceVal_bytes, putLE_bytes, sumInto_bytes,
    hashOf_def, Heap.get_push_top, Heap.get_push_top0, Heap.set_push_top, Heap.set_push_top0, hVw, hlen64, drop64_le32, List.take_take, List.length_take, m1, m2, hmod, le32_len, take4_le32_append, Nat.sub_zero,
    viewBytes_push_top, viewBytes_push_top0, asIdx_nat, natCast_lt_ofNat, natCast_le_ofNat,
    Heap.get_push_of_in _ _ _ hr, Heap.set_push_of_in _ _ _ _ hr, hg,
    List.take_zero, List.take_succ_cons, List.drop_zero, List.drop_succ_cons, List.length_append, List.append_nil]
  all_goals simp only [hH.eq, le32_eq]

theorem b2_cond (h : Heap) (ro : Ref) (o l cp : Nat) (x1 x2 x3 x4 x5 x6 : Val) :
    (eval h [.bytes ro o l cp, x1, x2, x3, x4, x5, x6] b2Loop.forCond >>= asBool) = .ok (decide (64 < l)) := by
  simp only [b2Loop, proc_blake2bHash, Stmt.drop, Stmt.head, Stmt.forCond]
  a2_simp [lenOf_bytes, ofNat_lt_natCast]

theorem b2_fuel (h : Heap) (ro : Ref) (o l cp : Nat) (x1 x2 x3 x4 x5 x6 : Val) :
    (eval h [.bytes ro o l cp, x1, x2, x3, x4, x5, x6] b2Loop.forFuel >>= asIdx) = .ok l := by
  simp only [b2Loop, proc_blake2bHash, Stmt.drop, Stmt.head, Stmt.forFuel]
  a2_simp [lenOf_bytes, asIdx_nat]

theorem b2Loop_eq : b2Loop = .for_ b2Loop.forFuel b2Loop.forCond .skip b2Loop.forBody := rfl

theorem b2_loop (c : Ctx) (hH : B2Spec c.H) (h : Heap) (ro : Ref) (off len cap : Nat) (inV : Val)
    (buf v : Bytes) (hg : h.get ro = some (.bytes buf)) (hcap : off + cap ≤ buf.length) (hlc : len ≤ cap)
    (h64 : 64 < len) (hv : v.length = 64) :
    exec c b2Loop (b2St h ro off len cap inV buf v 0).1 (b2St h ro off len cap inV buf v 0).2 =
      .norm (b2St h ro off len cap inV buf v (Argon2Eq.hCount (len - 32))).1
        (b2St h ro off len cap inV buf v (Argon2Eq.hCount (len - 32))).2 := by
  have hr : ro.inH h := Ref.inH_of_get hg
  rw [b2Loop_eq, exec_for]
  have hf : (eval (b2St h ro off len cap inV buf v 0).1 (b2St h ro off len cap inV buf v 0).2 b2Loop.forFuel >>= asIdx)
      = .ok (len - 32 * (0 + 1)) := b2_fuel _ _ _ _ _ _ _ _ _ _ _
  rw [hf, bindR_ok]
  refine loop_count _ _ (b2St h ro off len cap inV buf v) (Argon2Eq.hCount (len - 32)) ?_ ?_ ?_ _ 0 (Nat.zero_le _)
    (by unfold Argon2Eq.hCount; omega)
  · intro k hk
    show (eval _ [_, _, _, _, _, _, _] b2Loop.forCond >>= asBool) = _
    rw [b2_cond]
    exact congrArg Res.ok (decide_eq_true (by unfold Argon2Eq.hCount at hk; omega))
  · show (eval _ [_, _, _, _, _, _, _] b2Loop.forCond >>= asBool) = _
    rw [b2_cond]
    exact congrArg Res.ok (decide_eq_false (by unfold Argon2Eq.hCount; omega))
  · intro k hk
    have hk' : 32 * (k + 1) + 64 < len := by unfold Argon2Eq.hCount at hk; omega
    have hOl := hO_length v hv k
    simp only [b2St]
    rw [b2_step c hH (h.set ro (.bytes (buf.take off ++ hO v k ++ buf.drop (off + 32 * (k + 1))))) h.stk.length
      (Heap.stk_length_set _ _ _).symm ro (off + 32 * (k + 1)) (len - 32 * (k + 1)) (cap - 32 * (k + 1))
      (buf.take off ++ hO v k ++ buf.drop (off + 32 * (k + 1))) (hV v k) inV (.int len) (.int len) .undef
      (Heap.get_set_self _ _ _ hr) (hV_length v hv k) (by omega) (by omega)
      (by rw [splice_length _ _ _ _ hOl (by omega)]; omega)]
    have hw : (List.take 32 (Prim.blake2b 64 (hV v k))).length = 32 := by
      rw [List.length_take, Argon2Eq.blake2b_length 64 _ (Nat.le_refl _)]; rfl
    have hsp := splice buf (hO v k) (List.take 32 (Prim.blake2b 64 (hV v k))) off (32 * (k + 1)) hOl (by omega)
    rw [hw] at hsp
    rw [andThen_norm, exec_skip, Heap.set_set, hsp]
    have e1 : off + 32 * (k + 1 + 1) = off + 32 * (k + 1) + 32 := by omega
    have e2 : len - 32 * (k + 1 + 1) = len - 32 * (k + 1) - 32 := by omega
    have e3 : cap - 32 * (k + 1 + 1) = cap - 32 * (k + 1) - 32 := by omega
    rw [e1, e2, e3]
    rfl

theorem blake2bHash_body_long (c : Ctx) (hH : B2Spec c.H) (h : Heap) (ro : Ref) (off len cap : Nat) (inV : Val)
    (buf inp : Bytes) (hg : h.get ro = some (.bytes buf)) (hcap : off + cap ≤ buf.length) (hlc : len ≤ cap)
    (h64 : 64 < len) (h32 : len < 4294967296) (hin : viewBytes h inV = .ok inp) :
    procResult h.stk.length (exec c proc_blake2bHash.body h
        [.bytes ro off len cap, inV, .undef, .undef, .undef, .undef, .undef]) =
      .ok (h.set ro (.bytes (buf.take off ++ Argon2.blake2bHash len inp ++ buf.drop (off + len))), []) := by
  have hr : ro.inH h := Ref.inH_of_get hg
  let v := Prim.blake2b 64 (Argon2.le32 len ++ inp)
  have hv : v.length = 64 := Argon2Eq.blake2b_length 64 _ (Nat.le_refl _)
  let n := Argon2Eq.hCount (len - 32)
  have hn : 32 * (n + 1) + 33 ≤ len ∧ len ≤ 32 * (n + 1) + 64 := by
    show 32 * (Argon2Eq.hCount (len - 32) + 1) + 33 ≤ len ∧ len ≤ 32 * (Argon2Eq.hCount (len - 32) + 1) + 64
    unfold Argon2Eq.hCount; omega
  have hOl := hO_length v hv n
  rw [exec_take_drop c h _ 13, b2_prefix c hH h ro off len cap inV buf inp hg hcap hlc h64 h32 hin, andThen_norm]
  show procResult _ ((exec c b2Loop _ _).andThen (exec c (proc_blake2bHash.body.drop 14))) = _
  rw [b2_loop c hH h ro off len cap inV buf v hg hcap hlc h64 hv, andThen_norm]
  simp only [b2St]
  rw [b2_tail c hH (h.set ro (.bytes (buf.take off ++ hO v n ++ buf.drop (off + 32 * (n + 1))))) h.stk.length
      (Heap.stk_length_set _ _ _).symm ro (off + 32 * (n + 1)) (len - 32 * (n + 1)) (cap - 32 * (n + 1)) len
      (buf.take off ++ hO v n ++ buf.drop (off + 32 * (n + 1))) (hV v n) inV (.int len) .undef
      (Heap.get_set_self _ _ _ hr) (hV_length v hv n) (by omega) (by omega) (by omega)
      (by rw [splice_length _ _ _ _ hOl (by omega)]; omega) h64 h32
      (by show (if len % 64 > 0 then _ else _) = len - 32 * (Argon2Eq.hCount (len - 32) + 1)
          unfold Argon2Eq.hCount; split <;> omega)]
  have hw : (Prim.blake2b (len - 32 * (n + 1)) (hV v n)).length = len - 32 * (n + 1) :=
    Argon2Eq.blake2b_length _ _ (by omega)
  have hsp := splice buf (hO v n) (Prim.blake2b (len - 32 * (n + 1)) (hV v n)) off (32 * (n + 1)) hOl (by omega)
  rw [hw] at hsp
  have e1 : off + 32 * (n + 1) + (len - 32 * (n + 1)) = off + len := by omega
  rw [e1] at hsp
  rw [Heap.set_set, e1, hsp, blake2bHash_long len inp h64]

/-! ## the procedure -/

theorem blake2bHash_body (c : Ctx) (hH : B2Spec c.H) (h : Heap) (ro : Ref) (off len cap : Nat) (inV : Val)
    (buf inp : Bytes) (hg : h.get ro = some (.bytes buf)) (hcap : off + cap ≤ buf.length) (hlc : len ≤ cap)
    (h1 : 1 ≤ len) (h32 : len < 4294967296) (hin : viewBytes h inV = .ok inp) :
    procResult h.stk.length (exec c proc_blake2bHash.body h
        [.bytes ro off len cap, inV, .undef, .undef, .undef, .undef, .undef]) =
      .ok (h.set ro (.bytes (buf.take off ++ Argon2.blake2bHash len inp ++ buf.drop (off + len))), []) := by
  by_cases h64 : len ≤ 64
  · exact blake2bHash_body_short c hH h ro off len cap inV buf inp hg hcap hlc h1 h64 hin
  · exact blake2bHash_body_long c hH h ro off len cap inV buf inp hg hcap hlc (by omega) h32 hin

theorem blake2bHash_proc (c : Ctx) (hH : B2Spec c.H) (h : Heap) (ro : Ref) (off len cap : Nat) (inV : Val)
    (buf inp : Bytes) (hg : h.get ro = some (.bytes buf)) (hcap : off + cap ≤ buf.length) (hlc : len ≤ cap)
    (h1 : 1 ≤ len) (h32 : len < 4294967296) (hin : viewBytes h inV = .ok inp) :
    execProc c proc_blake2bHash h [.bytes ro off len cap, inV] =
      .ok (h.set ro (.bytes (buf.take off ++ Argon2.blake2bHash len inp ++ buf.drop (off + len))), []) := by
  rw [execProc_eq _ _ _ _ rfl]
  exact blake2bHash_body c hH h ro off len cap inV buf inp hg hcap hlc h1 h32 hin

theorem blake2bHashSpec_ctxOf (H : Nat → Bytes → Bytes) (hH : B2Spec H) (d : Nat) :
    Blake2bHashSpec (ctxOf H program (d + 1)) := by
  intro h ro off len cap inV buf inp hg hcap hlc h1 h32 hin
  rw [ctxOf_call, callIn_succ H program d "blake2bHash" proc_blake2bHash rfl]
  exact blake2bHash_proc _ (by rw [ctxOf_H]; exact hH) h ro off len cap inV buf inp hg hcap hlc h1 h32 hin

end GoCrypt.A2IR
