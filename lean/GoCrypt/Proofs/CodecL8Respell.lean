import GoCrypt.Proofs.CodecL7Respell

/-!
# C20, general form: every layout (a group fragment may be the last one)

`Accepts8.accepted_respell` removes the restriction of `Accepts7` ("the struct ends with a required
stand-alone field"). The parser tolerates one trailing `,` after the last member of a LAST group
fragment; `respell` tolerates it as one trailing delimiter. The fragments are therefore related to the
pieces of the body `respell` looks at (the text after the prefix, or that text without its trailing `,`)
by a relation `SRel` that is exact for every fragment, the last one included.
-/

namespace GoCrypt.Codec
open Bytes GoCrypt.Parse Layers GoCrypt.Respell GoCrypt.CodecDomain GoCrypt.RefParse GoCrypt.Accept

namespace Accepts8

/-! ## Fragments and pieces, exactly -/

/-- The fragment carries exactly the piece: a value its text, a group its `,`-separated members. -/
def PRel (p : Bytes) : Frag → Prop
  | .value v => v.val = p ∧ comma ∉ p
  | .group vs => vs.map (·.val) = Respell.splitOn comma p

def SRel : List Bytes → List Frag → Prop
  | [], fs => fs = []
  | p :: ps, fs => ∃ f fs', fs = f :: fs' ∧ PRel p f ∧ SRel ps fs'

theorem srel_append : ∀ (ps1 : List Bytes) (frs1 : List Frag) (ps2 : List Bytes) (frs2 : List Frag),
    SRel ps1 frs1 → SRel ps2 frs2 → SRel (ps1 ++ ps2) (frs1 ++ frs2)
  | [], frs1, ps2, frs2, h1, h2 => by
    have : frs1 = [] := h1
    subst this; exact h2
  | p :: ps1, frs1, ps2, frs2, h1, h2 => by
    obtain ⟨f, fs', e, hp, hr⟩ := h1
    exact ⟨f, fs' ++ frs2, by rw [e]; rfl, hp, srel_append ps1 fs' ps2 frs2 hr h2⟩

theorem prel_of_notLast (p : Bytes) (f : Frag) (h : PieceRel false p f) : PRel p f := by
  cases f with
  | value v => exact h
  | group vs => exact h.2 rfl

/-- All fragments but the one of the last piece are exact. -/
theorem mkFrags_snoc (pl : Bytes) : ∀ (init : List Bytes) (off : Nat), ∃ frs off',
    mkFrags off (init ++ [pl]) = frs ++ (mkFrag off' pl true).toList ∧ SRel init frs
  | [], off => ⟨[], off, by simp [mkFrags], rfl⟩
  | p :: init, off => by
    obtain ⟨f, hf, hr⟩ := mkFrag_notLast off p
    obtain ⟨frs, off', h1, h2⟩ := mkFrags_snoc pl init (off + p.length + 1)
    refine ⟨f :: frs, off', ?_, ⟨f, frs, rfl, prel_of_notLast p f hr, h2⟩⟩
    cases hq : init ++ [pl] with
    | nil => simp at hq
    | cons q r =>
      rw [List.cons_append, hq]
      simp only [mkFrags, hf, Option.toList_some, List.cons_append, List.cons.injEq, true_and]
      rw [← hq]; exact h1

/-- The fragment of a non-empty last piece: exact for the piece itself, or — a group with a trailing
`,` — for the piece without that `,`. -/
theorem mkFrag_last_strong (off : Nat) (pl : Bytes) (hp : pl ≠ []) :
    ∃ f pl2, mkFrag off pl true = some f ∧ PRel pl2 f ∧ (pl2 = pl ∨ pl = pl2 ++ [comma]) := by
  by_cases hm : comma ∈ pl
  · have hlen : (RefParse.splitOn comma pl).length ≠ 1 :=
      fun h => (splitOn_length_one_iff comma pl).1 h comma hm rfl
    by_cases hl : (RefParse.splitOn comma pl).getLast? = some []
    · rcases splitOn_getLast_nil comma pl hl with rfl | ⟨b, rfl⟩
      · exact absurd rfl hp
      · refine ⟨.group (mkValues off (RefParse.splitOn comma (b ++ [comma]))).dropLast, b, ?_, ?_, Or.inr rfl⟩
        · unfold mkFrag
          simp [hlen, hl]
        · show ((mkValues off (RefParse.splitOn comma (b ++ [comma]))).dropLast).map (·.val) = Respell.splitOn comma b
          rw [List.map_dropLast, Accept.mkValues_map_val, splitOn_snoc, List.dropLast_concat]
          rfl
    · refine ⟨.group (mkValues off (RefParse.splitOn comma pl)), pl, ?_, Accept.mkValues_map_val _ _, Or.inl rfl⟩
      unfold mkFrag
      simp [hlen, hl]
  · have hcm : ∀ c ∈ pl, c ≠ comma := fun c hc e => hm (e ▸ hc)
    refine ⟨.value ⟨pl, off, off + pl.length⟩, pl, ?_, ⟨rfl, hm⟩, Or.inl rfl⟩
    unfold mkFrag
    rw [splitOn_plain comma pl hcm]
    simp [mkValues, hp]

theorem splitOn_eq_nil_singleton (d : UInt8) : ∀ (s : Bytes), RefParse.splitOn d s = [[]] → s = []
  | [], _ => rfl
  | c :: cs, h => by
    exfalso
    by_cases hc : c = d
    · have hne := splitOn_ne_nil d cs
      simp only [RefParse.splitOn, hc, if_true, List.cons.injEq, true_and] at h
      exact hne h
    · cases hs : RefParse.splitOn d cs with
      | nil => exact splitOn_ne_nil d cs hs
      | cons q qs => simp [RefParse.splitOn, hc, hs] at h

/-- A non-delimiter last character belongs to the last piece. -/
theorem splitOn_last_snoc (d c : UInt8) (hcd : c ≠ d) : ∀ (s : Bytes) (init : List Bytes) (l : Bytes),
    RefParse.splitOn d s = init ++ [l ++ [c]] →
    ∃ s', s = s' ++ [c] ∧ RefParse.splitOn d s' = init ++ [l]
  | [], init, l, h => by
    exfalso
    cases init with
    | nil => simp [RefParse.splitOn] at h
    | cons i0 init' =>
      simp only [RefParse.splitOn, List.cons_append, List.cons.injEq] at h
      have := h.2
      cases init' <;> simp at this
  | x :: xs, init, l, h => by
    by_cases hx : x = d
    · subst hx
      simp only [RefParse.splitOn, if_true] at h
      cases init with
      | nil =>
        exfalso
        simp only [List.nil_append, List.cons.injEq] at h
        have := h.1
        cases l <;> simp at this
      | cons i0 init' =>
        simp only [List.cons_append, List.cons.injEq] at h
        obtain ⟨rfl, h2⟩ := h
        obtain ⟨s', rfl, hs'⟩ := splitOn_last_snoc x c hcd xs init' l h2
        exact ⟨x :: s', rfl, by simp [RefParse.splitOn, hs']⟩
    · cases hs : RefParse.splitOn d xs with
      | nil => exact absurd hs (splitOn_ne_nil d xs)
      | cons q qs =>
        simp only [RefParse.splitOn, hx, if_false, hs] at h
        cases init with
        | nil =>
          simp only [List.nil_append, List.cons.injEq] at h
          obtain ⟨h1, h2⟩ := h
          subst h2
          cases l with
          | nil =>
            simp only [List.nil_append, List.cons.injEq] at h1
            obtain ⟨rfl, rfl⟩ := h1
            have := splitOn_eq_nil_singleton d xs hs
            subst this
            exact ⟨[], rfl, by simp [RefParse.splitOn]⟩
          | cons y l' =>
            simp only [List.cons_append, List.cons.injEq] at h1
            obtain ⟨rfl, rfl⟩ := h1
            obtain ⟨s', rfl, hs'⟩ := splitOn_last_snoc d c hcd xs [] l' (by simpa using hs)
            simp only [List.nil_append] at hs'
            exact ⟨x :: s', rfl, by simp [RefParse.splitOn, hx, hs']⟩
        | cons i0 init' =>
          simp only [List.cons_append, List.cons.injEq] at h
          obtain ⟨rfl, h2⟩ := h
          obtain ⟨s', rfl, hs'⟩ := splitOn_last_snoc d c hcd xs (q :: init') l (by rw [hs, h2]; rfl)
          exact ⟨x :: s', rfl, by simp [RefParse.splitOn, hx, hs']⟩

theorem mem_stripTrailing_self (s : Bytes) : s ∈ stripTrailing s := by
  unfold stripTrailing
  split
  · split <;> simp
  · simp

/-- The fragments of the text after the prefix are exactly the pieces of one of the bodies `respell`
looks at. -/
theorem strong_rel (rest : Bytes) (off : Nat) : ∃ ps2 body2,
    SRel ps2 (mkFrags off (RefParse.splitOn dollar rest)) ∧ body2 ∈ stripTrailing rest ∧
    (fragsOf body2 = ps2.map (Respell.splitOn comma) ∨ (body2.isEmpty = true ∧ ps2 = [[]])) := by
  obtain ⟨init, pl, hpieces⟩ : ∃ init pl, RefParse.splitOn dollar rest = init ++ [pl] := by
    have hne := splitOn_ne_nil dollar rest
    exact ⟨_, _, (List.dropLast_concat_getLast hne).symm⟩
  obtain ⟨frs, off', hmk, hsr⟩ := mkFrags_snoc pl init off
  rw [hpieces, hmk]
  by_cases hpl : pl = []
  · subst hpl
    rw [mkFrag_last_nil]
    simp only [Option.toList_none, List.append_nil]
    have hl : (RefParse.splitOn dollar rest).getLast? = some [] := by rw [hpieces]; simp
    rcases splitOn_getLast_nil dollar rest hl with rfl | ⟨b, rfl⟩
    · have hi : init = [] := by
        cases init with
        | nil => rfl
        | cons i0 i1 =>
          simp only [RefParse.splitOn, List.cons_append, List.cons.injEq] at hpieces
          have := hpieces.2
          cases i1 <;> simp at this
      subst hi
      exact ⟨[], [], hsr, by simp [stripTrailing], Or.inl (by simp [fragsOf])⟩
    · rw [splitOn_snoc] at hpieces
      have hi : init = RefParse.splitOn dollar b := (List.append_inj_left' hpieces (by simp)).symm
      refine ⟨init, b, hsr, by simp [stripTrailing], ?_⟩
      by_cases hb : b = []
      · subst hb
        right
        exact ⟨rfl, by rw [hi]; rfl⟩
      · left
        have : b.isEmpty = false := by simpa using hb
        simp only [fragsOf, this, Bool.false_eq_true, if_false, Respell.splitOn, hi]
  · obtain ⟨f, pl2, hf, hprel, hcase⟩ := mkFrag_last_strong off' pl hpl
    rw [hf]
    simp only [Option.toList_some]
    have hsr2 : SRel (init ++ [pl2]) (frs ++ [f]) := srel_append init frs [pl2] [f] hsr ⟨f, [], rfl, hprel, rfl⟩
    rcases hcase with rfl | hcase
    · refine ⟨init ++ [pl2], rest, hsr2, mem_stripTrailing_self rest, Or.inl ?_⟩
      have hr : rest ≠ [] := by
        rintro rfl
        simp only [RefParse.splitOn] at hpieces
        cases init with
        | nil => simp at hpieces; exact hpl hpieces
        | cons i0 i1 =>
          simp only [List.cons_append, List.cons.injEq] at hpieces
          have := hpieces.2
          cases i1 <;> simp at this
      have : rest.isEmpty = false := by simpa using hr
      simp only [fragsOf, this, Bool.false_eq_true, if_false, Respell.splitOn, hpieces]
    · subst hcase
      obtain ⟨rest', rfl, hs'⟩ := splitOn_last_snoc dollar comma (by decide) rest init pl2 hpieces
      refine ⟨init ++ [pl2], rest', hsr2, by simp [stripTrailing], ?_⟩
      by_cases hb : rest' = []
      · subst hb
        right
        refine ⟨rfl, ?_⟩
        simp only [RefParse.splitOn] at hs'
        cases init with
        | nil => simp at hs'; rw [← hs']; rfl
        | cons i0 i1 =>
          simp only [List.cons_append, List.cons.injEq] at hs'
          have := hs'.2
          cases i1 <;> simp at this
      · left
        have : rest'.isEmpty = false := by simpa using hb
        simp only [fragsOf, this, Bool.false_eq_true, if_false, Respell.splitOn, hs']

theorem srel_nil (ps : List Bytes) (h : SRel ps []) : ps = [] := by
  cases ps with
  | nil => rfl
  | cons p ps' =>
    obtain ⟨f, fs', e, -, -⟩ := h
    cases e

theorem srel_value (ps : List Bytes) (v : VNode) (rest : List Frag) (h : SRel ps (.value v :: rest)) :
    ∃ ps', ps = v.val :: ps' ∧ comma ∉ v.val ∧ SRel ps' rest := by
  cases ps with
  | nil => cases (h : Frag.value v :: rest = [])
  | cons p ps' =>
    obtain ⟨f, fs', e, hp, hr⟩ := h
    simp only [List.cons.injEq] at e
    obtain ⟨rfl, rfl⟩ := e
    obtain ⟨hv, hc⟩ := hp
    subst hv
    exact ⟨ps', rfl, hc, hr⟩

theorem srel_group (ps : List Bytes) (vs : List VNode) (rest : List Frag) (h : SRel ps (.group vs :: rest)) :
    ∃ p ps', ps = p :: ps' ∧ vs.map (·.val) = Respell.splitOn comma p ∧ SRel ps' rest := by
  cases ps with
  | nil => cases (h : Frag.group vs :: rest = [])
  | cons p ps' =>
    obtain ⟨f, fs', e, hp, hr⟩ := h
    simp only [List.cons.injEq] at e
    obtain ⟨rfl, rfl⟩ := e
    exact ⟨p, ps', rfl, hp, hr⟩

/-- The fragments left carry the pieces `ps` exactly, the head node holding what is left of the first
piece after `glue`. -/
def Pre (glue : Bytes) (ps : List Bytes) : List Frag → Prop
  | .value v :: rest => ∃ ps', ps = (glue ++ v.val) :: ps' ∧ comma ∉ (glue ++ v.val) ∧ SRel ps' rest
  | frags => glue = [] ∧ SRel ps frags

theorem pre_of_srel (ps : List Bytes) (frags : List Frag) (h : SRel ps frags) : Pre [] ps frags := by
  match frags, h with
  | [], h => exact ⟨rfl, h⟩
  | .group vs :: rest, h => exact ⟨rfl, h⟩
  | .value v :: rest, h =>
    obtain ⟨ps', rfl, hc, hrel⟩ := srel_value ps v rest h
    exact ⟨ps', rfl, hc, hrel⟩

/-! ## The whole loop, inverted (no restriction on the last field) -/

theorem conv_loop (n : Nat) (st' : LoopSt) (hfin : FinalOK st') :
    ∀ (k : Nat) (fs : List FieldInfo) (glue : Bytes) (ps : List Bytes) (frags : List Frag) (nv nr : Int)
      (out : Vals), fs.length ≤ k → (∀ f ∈ fs, Accepts7.fieldOk f = true) → inlineOk fs = true →
    Accepts7.GNames fs →
    (glue ≠ [] → ∀ f, fs.head? = some f → f.opts.omitEmpty = false ∧ f.opts.group = false) →
    loopFields n fs (mkSt frags nv nr out) = .ok st' → Pre glue ps frags →
    ∃ asg, Accepts7.ReadsG fs glue ps asg ∧ st'.out = out ++ asg := by
  intro k
  induction k with
  | zero =>
    intro fs glue ps frags nv nr out hlen _ _ _ _ hl hpre
    have hfs : fs = [] := List.eq_nil_of_length_eq_zero (Nat.le_zero.1 hlen)
    subst hfs
    rw [loop_nil_iff] at hl
    subst hl
    have hfr : frags = [] := by simpa [FinalOK, mkSt] using hfin
    subst hfr
    obtain ⟨hg, hrel⟩ := hpre
    have := srel_nil ps hrel
    subst this; subst hg
    exact ⟨[], .nil, by simp [mkSt]⟩
  | succ k ih =>
    intro fs glue ps frags nv nr out hlen hok hio hgn hglue hl hpre
    cases fs with
    | nil =>
      rw [loop_nil_iff] at hl
      subst hl
      have hfr : frags = [] := by simpa [FinalOK, mkSt] using hfin
      subst hfr
      obtain ⟨hg, hrel⟩ := hpre
      have := srel_nil ps hrel
      subst this; subst hg
      exact ⟨[], .nil, by simp [mkSt]⟩
    | cons f fs =>
      have hf := hok f (by simp)
      obtain ⟨hcore, hopt, hgrp⟩ := Accepts7.fieldOk_parts f hf
      have hok' : ∀ g ∈ fs, Accepts7.fieldOk g = true := fun g hg' => hok g (by simp [hg'])
      have hio' := inlineOk_tail f fs hio
      have hgn' := Accepts7.gnames_tail f fs hgn
      have hlen' : fs.length ≤ k := by simpa using hlen
      cases hg : f.opts.group with
      | false =>
        have hplain : f.opts.inline = false → ∀ (v : VNode) (rest : List Frag) (fv : FVal) (rem : Bytes)
            (nv' nr' : Int), frags = .value v :: rest → KeyOK f v.val →
            readField f v.fin v.val = .ok (fv, rem) →
            loopFields n fs (mkSt rest nv' nr' (out ++ [(f.index, fv)])) = .ok st' →
            (f.opts.omitEmpty = true → glue = []) →
            ∃ asg, Accepts7.ReadsG (f :: fs) glue ps asg ∧ st'.out = out ++ asg := by
          intro hi v rest fv rem nv' nr' hfr hkey hr hl' hog
          subst hfr
          obtain ⟨ps', rfl, hc, hrel⟩ := hpre
          obtain ⟨asg, hreads, hout⟩ := ih fs [] ps' rest _ _ _ hlen' hok' hio' hgn'
            (fun h => absurd rfl h) hl' (pre_of_srel ps' rest hrel)
          exact ⟨(f.index, fv) :: asg, .read f fs glue v.val ps' fv asg hg hi hc hkey ⟨v.fin, rem, hr⟩ hog hreads,
            by rw [hout]; simp⟩
        cases ho : f.opts.omitEmpty with
        | false =>
          cases hi : f.opts.inline with
          | false =>
            obtain ⟨v, rest, fv, rem, hfr, hkey, hr, hl'⟩ := (loop_req n f fs frags nv nr out st' hg ho hi).1 hl
            exact hplain hi v rest fv rem _ _ hfr hkey hr hl' (fun h => by rw [ho] at h; cases h)
          | true =>
            obtain ⟨v, rest, fv, rem, hfr, hkey, hr, hl'⟩ :=
              (loop_req_inline n f fs frags nv nr out st' hg ho hi).1 hl
            subst hfr
            obtain ⟨ps', rfl, hc, hrel⟩ := hpre
            obtain ⟨-, hcur, -⟩ := Accepts4.read_inline f v.fin v.val fv rem hcore hi hr
            obtain ⟨-, g, rest', hrest, -, hgg, hgo⟩ := inlineOk_next f fs hio hi
            have hpre' : Pre (glue ++ v.val.take f.opts.length) ((glue ++ v.val) :: ps')
                (.value { v with val := rem } :: rest) := by
              refine ⟨ps', ?_, ?_, hrel⟩
              · show (glue ++ v.val) :: ps' = (glue ++ v.val.take f.opts.length ++ rem) :: ps'
                rw [List.append_assoc, ← hcur]
              · show comma ∉ glue ++ v.val.take f.opts.length ++ rem
                rw [List.append_assoc, ← hcur]; exact hc
            obtain ⟨asg, hreads, hout⟩ := ih fs _ _ _ _ _ _ hlen' hok' hio' hgn'
              (fun _ g' hg' => by
                rw [hrest] at hg'
                simp only [List.head?_cons, Option.some.injEq] at hg'
                rw [← hg']; exact ⟨hgo, hgg⟩)
              hl' hpre'
            exact ⟨(f.index, fv) :: asg, .readInl f fs glue v.val ps' fv asg hg hi hc hkey ⟨v.fin, rem, hr⟩ hreads,
              by rw [hout]; simp⟩
        | true =>
          obtain ⟨hi, -⟩ := hopt ho
          have hg0 : glue = [] := by
            cases hgl : glue with
            | nil => rfl
            | cons c cs =>
              have := (hglue (by rw [hgl]; simp) f rfl).1
              rw [ho] at this; cases this
          rcases Accepts6.loop_opt_inv n f fs frags nv nr out st' ho hg hi hl with
            ⟨nv', hl'⟩ | ⟨v, rest, fv, rem, hfr, hkey, hr, hl'⟩
          · obtain ⟨asg, hreads, hout⟩ := ih fs glue ps frags nv' nr out hlen' hok' hio' hgn'
              (fun h => absurd hg0 h) hl' hpre
            exact ⟨asg, .skip f fs glue ps asg hg ho hreads, hout⟩
          · exact hplain hi v rest fv rem _ _ hfr hkey hr hl' (fun _ => hg0)
      | true =>
        have hg0 : glue = [] := by
          cases hgl : glue with
          | nil => rfl
          | cons c cs =>
            have := (hglue (by rw [hgl]; simp) f rfl).2
            rw [hg] at this; cases this
        subst hg0
        obtain ⟨run, after, hta⟩ : ∃ run after, takeGroupRun (f :: fs) = (run, after) := ⟨_, _, rfl⟩
        have hspec := takeGroupRun_spec (f :: fs)
        rw [hta] at hspec
        obtain ⟨hsplit, hrunG, hafter⟩ := hspec
        simp only at hsplit hrunG hafter
        have hne : run ≠ [] := by
          intro e
          have : (takeGroupRun (f :: fs)).1 ≠ [] := by simp [takeGroupRun, hg]
          rw [hta] at this
          exact this e
        rw [hsplit] at hok hio hgn hl hlen ⊢
        have hmem : ∀ x ∈ run, x.opts.group = true ∧ x.opts.inline = false ∧ equals ∉ x.opts.param := by
          intro x hx
          obtain ⟨-, -, hgrp'⟩ := Accepts7.fieldOk_parts x (hok x (by simp [hx]))
          obtain ⟨-, hxi, hxe⟩ := hgrp' (hrunG x hx)
          exact ⟨hrunG x hx, hxi, hxe⟩
        obtain ⟨hnd, hgnA⟩ := Accepts7.gnames_run run after hrunG hgn
        have hokA : ∀ g ∈ after, Accepts7.fieldOk g = true := fun g hg' => hok g (by simp [hg'])
        have hioA := inlineOk_append run after hio
        have hlenA : after.length ≤ k := by
          have h2 : 0 < run.length := List.length_pos_iff.2 hne
          simp only [List.length_append] at hlen
          omega
        -- the fields after the run, from a state whose group fragment `fr` is exhausted or not
        have hclose : ∀ (fr : Frag) (rest : List Frag) (g : List VNode) (ngv : Nat) (nv' : Int) (out1 : Vals)
            (ps' : List Bytes), loopFields n after (mkStG (fr :: rest) g ngv nv' nr out1) = .ok st' →
            SRel ps' rest → ngv = 0 ∧ ∃ asg, Accepts7.ReadsG after [] ps' asg ∧ st'.out = out1 ++ asg := by
          intro fr rest g ngv nv' out1 ps' hl' hrel
          rcases hafter with rfl | ⟨h, t, rfl, hh⟩
          · rw [loop_nil_iff] at hl'
            subst hl'
            have hf' : ngv = 0 ∧ rest = [] := by simpa [FinalOK, mkStG] using hfin
            obtain ⟨hz, rfl⟩ := hf'
            have := srel_nil ps' hrel
            subst this
            exact ⟨hz, [], .nil, by simp [mkStG]⟩
          · obtain ⟨hz, hl''⟩ := (loop_close n h t _ g ngv nv' nr out1 st' hh).1 hl'
            simp only [List.tail_cons] at hl''
            obtain ⟨asg, hreads, hout⟩ := ih (h :: t) [] ps' rest nv' nr out1 hlenA hokA hioA hgnA
              (fun h' => absurd rfl h') hl'' (pre_of_srel ps' rest hrel)
            exact ⟨hz, asg, hreads, hout⟩
        rcases Accepts7.run_none n after nr st' run frags nv out hmem hnd hl with
          ⟨hall, nv', hl'⟩ | ⟨v, rest, nv', T, asgR, hfr, hR, hT, hl'⟩ | ⟨vs, rest, nv', T, asgR, hfr, hR, hl'⟩
        · obtain ⟨asg, hreads, hout⟩ := ih after [] ps frags nv' nr out hlenA hokA hioA hgnA
            (fun h' => absurd rfl h') hl' hpre
          exact ⟨asg, .runNone run after ps asg hne (fun x hx => ⟨hrunG x hx, hall x hx⟩) hafter hreads, hout⟩
        · subst hfr
          obtain ⟨ps', hps, hc, hrel⟩ := hpre
          simp only [List.nil_append] at hps hc
          subst hps
          obtain ⟨-, asg, hreads, hout⟩ := hclose _ rest [v] 0 nv' _ ps' hl' hrel
          have hsp : Respell.splitOn comma v.val = [v.val] :=
            splitOn_plain comma _ (fun c hc' e' => hc (e' ▸ hc'))
          refine ⟨asgR ++ asg, .runSome run after v.val ps' T asgR asg hne hrunG hafter (by rw [hsp]; exact hR)
            (by rw [hsp, hT]; simp) hreads, ?_⟩
          rw [hout]; simp
        · subst hfr
          obtain ⟨-, hrel⟩ := hpre
          obtain ⟨p, ps', rfl, hvs, hrel'⟩ := srel_group ps vs rest hrel
          obtain ⟨hz, asg, hreads, hout⟩ := hclose _ rest vs _ nv' _ ps' hl' hrel'
          refine ⟨asgR ++ asg, .runSome run after p ps' T asgR asg hne hrunG hafter (by rw [← hvs]; exact hR)
            ?_ hreads, ?_⟩
          · rw [← hvs, List.length_map]; omega
          · rw [hout]; simp

/-! ## The theorem -/

/-- As `Accepts6.LoopInverts`, with the exact relation between fragments and pieces. -/
def LoopInverts (ti : TypeInfo) : Prop :=
  ∀ (n : Nat) (ps : List Bytes) (frags : List Frag) (out0 : Vals) (st' : LoopSt),
    loopFields n ti.fields (mkSt frags frags.length ti.numReqValues out0) = .ok st' → SRel ps frags →
    FinalOK st' →
    ∃ asg : Vals, st'.out = out0 ++ asg ∧ (∀ x ∈ asg, ∃ f ∈ ti.fields, f.index = x.1) ∧
      (asg.map (·.1)).Nodup ∧
      ∀ vals, (∀ x ∈ asg, ∀ f ∈ ti.fields, f.index = x.1 → fieldVal vals f = x.2) →
        (∀ f ∈ ti.fields, (∀ x ∈ asg, x.1 ≠ f.index) → fieldVal vals f = zeroOf f.kind f.ptrDepth) →
        align vals (ti.fields.length + 2) ti.fields (ps.map (Respell.splitOn comma)) [] = true

theorem accepted_respell_gen (ti : TypeInfo) (h : Bytes) (out : Vals)
    (hpfx : (match ti.hashPrefix with | some hp => L1.prefixField hp && !hp.opts.hasLength | none => true) = true)
    (hnd : ((ti.hashPrefix.toList ++ ti.fields).map (·.index)).Nodup) (hinv : LoopInverts ti)
    (hu : unmarshal ti h = .ok out) : respell ti (finalVals ti out) h = true := by
  rw [unmarshal_eq_ref] at hu
  cases hr : refPrefix h with
  | error e => obtain ⟨o, m⟩ := e; simp [hr] at hu
  | ok x =>
    obtain ⟨p, rest⟩ := x
    simp only [hr] at hu
    obtain ⟨out0, st', hpp, hl, hfin, rfl⟩ := (tree_iff ti h.length p _ out).1 hu
    obtain ⟨ps2, body2, hrel, hbody2, hfr2⟩ := strong_rel rest (p.getD []).length
    obtain ⟨asg, hout, hasgf, hasgn, halign⟩ := hinv h.length ps2 _ out0 st' hl hrel hfin
    have hndf : (ti.fields.map (·.index)).Nodup := by
      rw [List.map_append] at hnd
      exact (List.nodup_append.1 hnd).2.1
    -- the keys of the assignments
    have hkeysND : (out0 = [] ∨ ∃ hp fv, ti.hashPrefix = some hp ∧ out0 = [(hp.index, fv)]) →
        ((out0 ++ asg).map (·.1)).Nodup := by
      intro h0
      rcases h0 with rfl | ⟨hp, fv, hhp, rfl⟩
      · simpa using hasgn
      · simp only [List.singleton_append, List.map_cons, List.nodup_cons]
        refine ⟨?_, hasgn⟩
        intro hm
        obtain ⟨x, hx, hxe⟩ := List.mem_map.1 hm
        obtain ⟨f, hf, hfi⟩ := hasgf x hx
        rw [hhp] at hnd
        simp only [Option.toList_some, List.singleton_append, List.map_cons, List.nodup_cons, List.mem_map,
          not_exists, not_and] at hnd
        exact hnd.1 f hf (by rw [hfi, hxe])
    have hv1 : (out0 = [] ∨ ∃ hp fv, ti.hashPrefix = some hp ∧ out0 = [(hp.index, fv)]) →
        ∀ x ∈ asg, ∀ f ∈ ti.fields, f.index = x.1 → fieldVal (finalVals ti st'.out) f = x.2 := by
      intro h0 x hx f hf hfi
      refine Accepts.fieldVal_assigned ti st'.out f x.2 hnd (by simp [hf]) ?_ ?_
      · rw [hout]; exact hkeysND h0
      · rw [hout, hfi]; exact List.mem_append_right _ hx
    have hv2 : (out0 = [] ∨ ∃ hp fv, ti.hashPrefix = some hp ∧ out0 = [(hp.index, fv)]) →
        ∀ f ∈ ti.fields, (∀ x ∈ asg, x.1 ≠ f.index) →
          fieldVal (finalVals ti st'.out) f = zeroOf f.kind f.ptrDepth := by
      intro h0 f hf hna
      refine Accepts.fieldVal_unassigned ti st'.out f hnd (by simp [hf]) ?_
      intro x hx
      rw [hout] at hx
      rcases List.mem_append.1 hx with hx | hx
      · rcases h0 with rfl | ⟨hp, fv, hhp, rfl⟩
        · cases hx
        · simp only [List.mem_singleton] at hx
          subst hx
          rw [hhp] at hnd
          simp only [Option.toList_some, List.singleton_append, List.map_cons, List.nodup_cons, List.mem_map,
            not_exists, not_and] at hnd
          exact fun e => hnd.1 f hf e.symm
      · exact hna x hx
    -- the body
    have hbody : ∀ (ptext : Bytes), pfxTextOf ti (finalVals ti st'.out) = some ptext →
        (out0 = [] ∨ ∃ hp fv, ti.hashPrefix = some hp ∧ out0 = [(hp.index, fv)]) →
        respell ti (finalVals ti st'.out) (ptext ++ rest) = true := by
      intro ptext hpt h0
      have hal := halign _ (hv1 h0) (hv2 h0)
      rw [respell_eq, hpt]
      simp only [isPrefixOf_append_self, List.drop_left, Bool.true_and, List.any_eq_true]
      refine ⟨body2, hbody2, ?_⟩
      rcases hfr2 with hb | ⟨hb1, hb2⟩
      · rw [hb, hal]; rfl
      · subst hb2
        have : ([[]] : List Bytes).map (Respell.splitOn comma) = [[[]]] := rfl
        rw [this] at hal
        rw [hb1, hal]; simp
    cases hhp : ti.hashPrefix with
    | none =>
      cases p with
      | some p' => simp [prefixPart, hhp, throw, throwThe, MonadExceptOf.throw] at hpp
      | none =>
        have h0 : out0 = [] := by
          simp only [prefixPart, hhp, pure, Except.pure, Except.ok.injEq] at hpp
          exact hpp.symm
        have hrest := (refPrefix_none h rest hr).1
        subst hrest
        have := hbody [] (by simp [pfxTextOf, hhp]) (Or.inl h0)
        simpa using this
    | some hp =>
      simp only [hhp, Bool.and_eq_true, Bool.not_eq_eq_eq_not, Bool.not_true] at hpfx
      obtain ⟨hpf, hnl⟩ := hpfx
      have hpm : hp ∈ ti.hashPrefix.toList ++ ti.fields := by simp [hhp]
      have hpne : ∀ x ∈ asg, x.1 ≠ hp.index := by
        intro x hx e
        obtain ⟨f, hf, hfi⟩ := hasgf x hx
        have hnd' := hnd
        rw [hhp] at hnd'
        simp only [Option.toList_some, List.singleton_append, List.map_cons, List.nodup_cons, List.mem_map,
          not_exists, not_and] at hnd'
        exact hnd'.1 f hf (by rw [hfi, e])
      cases p with
      | none =>
        obtain ⟨-, h0⟩ := (prefixPart_none ti h.length _ out0 hp hhp).1 hpp
        have hrest := (refPrefix_none h rest hr).1
        subst hrest
        obtain ⟨hz, hmz⟩ := Accepts.prefix_zero_back hp hpf hnl
        have hfv : fieldVal (finalVals ti st'.out) hp = .str [] := by
          rw [Accepts.fieldVal_unassigned ti st'.out hp hnd hpm, hz]
          intro x hx
          rw [hout, h0, List.nil_append] at hx
          exact hpne x hx
        have hpt : pfxTextOf ti (finalVals ti st'.out) = some [] := by
          unfold pfxTextOf
          have hfv' : (getVal (finalVals ti st'.out) hp.index).getD (zeroOf hp.kind hp.ptrDepth) = .str [] := hfv
          simp only [hhp, hfv', hmz]
        have := hbody [] hpt (Or.inl h0)
        simpa using this
      | some p' =>
        obtain ⟨s, r, fv, hft, hsv, h0⟩ := Accepts.prefixPart_some_inv ti h.length p' _ out0 hp hhp hpp
        obtain ⟨hfv, hmp⟩ := Accepts.prefix_back hp p' s r fv hpf hnl hft hsv
        subst hfv
        have hh := refPrefix_some h p' rest hr
        have h0' : out0 = [] ∨ ∃ hp fv, ti.hashPrefix = some hp ∧ out0 = [(hp.index, fv)] :=
          Or.inr ⟨hp, _, hhp, h0⟩
        have hfv : fieldVal (finalVals ti st'.out) hp = .str p' := by
          refine Accepts.fieldVal_assigned ti st'.out hp _ hnd hpm ?_ ?_
          · rw [hout]; exact hkeysND h0'
          · rw [hout, h0]; simp
        have hpt : pfxTextOf ti (finalVals ti st'.out) = some p' := by
          unfold pfxTextOf
          have hfv' : (getVal (finalVals ti st'.out) hp.index).getD (zeroOf hp.kind hp.ptrDepth) = .str p' := hfv
          simp only [hhp, hfv', hmp]
        rw [hh]
        exact hbody p' hpt h0'


def acceptOk (ti : TypeInfo) : Bool :=
  ti.fields.all Accepts7.fieldOk && inlineOk ti.fields &&
  decide (((ti.fields.filter (·.opts.group)).map (·.opts.param)).Nodup) &&
  (match ti.hashPrefix with | some hp => L1.prefixField hp && !hp.opts.hasLength | none => true) &&
  decide ((ti.hashPrefix.toList ++ ti.fields).map (·.index)).Nodup

theorem loopInverts (ti : TypeInfo) (hok : ∀ f ∈ ti.fields, Accepts7.fieldOk f = true)
    (hio : inlineOk ti.fields = true) (hgn : Accepts7.GNames ti.fields)
    (hnd : (ti.fields.map (·.index)).Nodup) : LoopInverts ti := by
  intro n ps frags out0 st' hl hrel hfin
  obtain ⟨asg, hreads, hout⟩ := conv_loop n st' hfin ti.fields.length ti.fields [] ps frags _ _ out0 (Nat.le_refl _)
    hok hio hgn (fun h => absurd rfl h) hl (pre_of_srel ps frags hrel)
  have hkeys := Accepts7.readsG_keys hreads
  refine ⟨asg, hout, ?_, hkeys.nodup hnd, fun vals hv hz =>
    Accepts7.align_readsG vals hreads _ hok hnd hgn hv hz (by omega)⟩
  intro x hx
  have : x.1 ∈ ti.fields.map (·.index) := hkeys.subset (List.mem_map.2 ⟨x, hx, rfl⟩)
  obtain ⟨f, hf, hfe⟩ := List.mem_map.1 this
  exact ⟨f, hf, hfe⟩

/-- C20 for every struct type: stand-alone fields and parameter groups, required or optional, in any
position. -/
theorem accepted_respell (ti : TypeInfo) (h : Bytes) (out : Vals) (hs : acceptOk ti = true)
    (hu : unmarshal ti h = .ok out) : respell ti (finalVals ti out) h = true := by
  simp only [acceptOk, Bool.and_eq_true, List.all_eq_true, decide_eq_true_eq] at hs
  obtain ⟨⟨⟨⟨hok, hio⟩, hgn⟩, hpfx⟩, hnd⟩ := hs
  have hndf : (ti.fields.map (·.index)).Nodup := by
    have := hnd
    rw [List.map_append] at this
    exact (List.nodup_append.1 this).2.1
  exact accepted_respell_gen ti h out hpfx hnd (loopInverts ti hok hio hgn hndf) hu

/-! ## On the ladder of the round trip -/

/-- What the acceptance direction needs beyond `L6.shapeOk`: consistent `length:` options and optional
fields that can be spelled as zero. -/
def extraOk (ti : TypeInfo) : Bool :=
  Accepts4.lengthsOk ti && ti.fields.all (fun f => !f.opts.omitEmpty || Accepts6.optOk f)

theorem acceptOk_of_L6 (ti : TypeInfo) (hs : L6.shapeOk ti = true) (hx : extraOk ti = true) :
    acceptOk ti = true := by
  -- reuse the derivation of `Accepts7`, whose extra condition on the last field is not needed here
  simp only [L6.shapeOk, Bool.and_eq_true] at hs
  obtain ⟨⟨hwf, hu⟩, hgs⟩ := hs
  have U := unambiguous_facts ti hu
  have hio := U.inl
  have hnp := inlineOk_noParam ti.fields hio
  have hwf' := hwf
  simp only [tiWf, Bool.and_eq_true, List.all_eq_true, decide_eq_true_eq] at hwf'
  obtain ⟨⟨⟨⟨hfw, hpf⟩, hnd⟩, hpn⟩, -⟩ := hwf'
  simp only [extraOk, Accepts4.lengthsOk, Bool.and_eq_true, List.all_eq_true, Bool.or_eq_true,
    Bool.not_eq_eq_eq_not, Bool.not_true] at hx
  obtain ⟨⟨hlen, hpl⟩, hopt⟩ := hx
  simp only [acceptOk, Bool.and_eq_true, List.all_eq_true, decide_eq_true_eq]
  refine ⟨⟨⟨⟨fun f hf => ?_, hio⟩, ?_⟩, ?_⟩, hnd⟩
  · have h1 := hfw f hf
    have h3 := hlen f hf
    have ho := hopt f hf
    simp only [fieldWf, validOpts, Bool.and_eq_true, Bool.or_eq_true, Bool.not_eq_eq_eq_not, Bool.not_true,
      decide_eq_true_eq] at h1
    obtain ⟨⟨⟨⟨⟨⟨⟨hoi, hgp⟩, -⟩, -⟩, hpfx⟩, hil⟩, hb⟩, hc⟩ := h1
    have hinl : (!f.opts.inline || (f.opts.param == [] && f.opts.hasLength)) = true := by
      cases hi : f.opts.inline with
      | false => rfl
      | true =>
        have hp := hnp f hf hi
        rcases hil with h | h
        · rw [hi] at h; cases h
        · simp [hp, h]
    have hopt' : (!f.opts.omitEmpty || (!f.opts.inline && Accepts6.optOk f)) = true := by
      cases hom : f.opts.omitEmpty with
      | false => rfl
      | true =>
        rcases hoi with h | h
        · rw [hom] at h; cases h
        · rcases ho with h' | h'
          · rw [hom] at h'; cases h'
          · simp [h, h']
    have hgrp : (!f.opts.group || (f.opts.param != [] && !f.opts.inline && f.opts.param.all isAlnum)) = true := by
      cases hg : f.opts.group with
      | false => rfl
      | true =>
        have hp : f.opts.param ≠ [] := by
          rcases hgp with h | h
          · rw [hg] at h; cases h
          · exact h
        have hi : f.opts.inline = false := by
          cases hi : f.opts.inline with
          | false => rfl
          | true => exact absurd (hnp f hf hi) hp
        simp [hp, hi, U.alnum f hf hp]
    simp only [Accepts7.fieldOk, Accepts4.coreOk, hpfx, hb, hc, h3, hinl, hopt', hgrp, Bool.not_false,
      Bool.and_self]
  · have hsub : ((ti.fields.filter (·.opts.group)).map (·.opts.param)).Sublist (paramNames ti.fields) := by
      unfold paramNames
      apply List.Sublist.map
      have : ti.fields.filter (·.opts.group) =
          (ti.fields.filter (fun f => f.opts.param ≠ [])).filter (·.opts.group) := by
        rw [List.filter_filter]
        apply List.filter_congr
        intro f hf
        cases hg : f.opts.group with
        | false => simp
        | true =>
          have := group_param_ne f (hfw f hf) hg
          simp [this]
      rw [this]
      exact List.filter_sublist
    exact hsub.nodup hpn
  · cases hhp : ti.hashPrefix with
    | none => rfl
    | some hp =>
      simp only [hhp] at hpf hpl
      simp [hpf, hpl]

/-- C20 on layer L6: `L6.shapeOk` (the hypothesis of `roundtrip_L6`) and `extraOk`. -/
theorem accepted_respell_L6 (ti : TypeInfo) (h : Bytes) (out : Vals) (hs : L6.shapeOk ti = true)
    (hx : extraOk ti = true) (hu : unmarshal ti h = .ok out) :
    respell ti (finalVals ti out) h = true :=
  accepted_respell ti h out (acceptOk_of_L6 ti hs hx) hu

end Accepts8

end GoCrypt.Codec
