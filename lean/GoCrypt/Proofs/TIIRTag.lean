import GoCrypt.Proofs.TIIRIndirect

/-!
# Type-info IR: the `fieldInfo` record of one field (`FieldPartSpec`)

The regenerated statements of `getRawTypeInfo` that build one `fieldInfo` (allocation, the `HashPrefix`
test, the `[n]byte` length, the tag loop with its `switch`) leave exactly the record of the model's
`fieldInfoOf f i`: the options are `fieldOpts f`, for every tag. Helper lemmas, then `fieldPart_spec`.
-/
namespace GoCrypt.TIIR.Tag
open GoCrypt.Codec GoCrypt.Gen.typeinfoIR GoCrypt.TIIR

/-! ## Pure facts: `ParseUint` bound -/

theorem parseDigits_lt (base bits : Nat) : ∀ (s : Bytes) (acc v : Nat),
    Strconv.parseDigits base bits s acc = .ok v → acc < 2 ^ bits → v < 2 ^ bits := by
  intro s
  induction s with
  | nil => intro acc v h ha; simp [Strconv.parseDigits] at h; omega
  | cons c cs ih =>
    intro acc v h ha
    unfold Strconv.parseDigits at h
    split at h
    · split at h
      · split at h
        · exact ih _ _ h (by assumption)
        · cases h
      · cases h
    · cases h

theorem parseUint_lt (s : Bytes) (base bits v : Nat) (h : Strconv.parseUint s base bits = .ok v) : v < 2 ^ bits := by
  unfold Strconv.parseUint at h
  split at h
  · cases h
  · exact parseDigits_lt base bits s 0 v h (Nat.two_pow_pos bits)

theorem wrapS64_small (v : Nat) (h : v < 2 ^ 32) : wrapS64 (v : Int) = (v : Int) := by
  unfold wrapS64
  have : v < 4294967296 := by simpa using h
  omega

/-! ## Pure facts: the parts of a tag -/

/-- Cut at the first comma. -/
def cut : Bytes → Option (Bytes × Bytes)
  | [] => none
  | c :: cs =>
    if c = 44 then some ([], cs)
    else match cut cs with
      | none => none
      | some (a, b) => some (c :: a, b)

/-- The parts the model processes. -/
def parts (tag : Bytes) : List Bytes :=
  if tag = [] then [] else
    let ps := splitComma tag
    if ps.getLast? = some [] then ps.dropLast else ps

theorem splitComma_ne_nil : ∀ s : Bytes, splitComma s ≠ [] := by
  intro s
  induction s with
  | nil => simp [splitComma]
  | cons c cs ih =>
    unfold splitComma
    split
    · simp
    · split <;> simp

theorem cut_none : ∀ s : Bytes, cut s = none → s.findIdx? (· = (44 : UInt8)) = none ∧ splitComma s = [s] := by
  intro s
  induction s with
  | nil => intro _; simp [splitComma]
  | cons c cs ih =>
    intro h
    unfold cut at h
    split at h
    · cases h
    · rename_i hc
      split at h
      · rename_i hcs
        obtain ⟨h1, h2⟩ := ih hcs
        refine ⟨?_, ?_⟩
        · rw [List.findIdx?_cons]; simp [hc, h1]
        · unfold splitComma
          have : ¬ c = Bytes.comma := hc
          simp [this, h2]
      · cases h

theorem cut_some : ∀ (s a b : Bytes), cut s = some (a, b) →
    s.findIdx? (· = (44 : UInt8)) = some a.length ∧ s = a ++ 44 :: b ∧ splitComma s = a :: splitComma b := by
  intro s
  induction s with
  | nil => intro a b h; simp [cut] at h
  | cons c cs ih =>
    intro a b h
    unfold cut at h
    split at h
    · rename_i hc
      cases h
      subst hc
      refine ⟨by simp [List.findIdx?_cons], by simp, ?_⟩
      conv => lhs; unfold splitComma
      simp [Bytes.comma]
    · rename_i hc
      split at h
      · cases h
      · rename_i a' b' hcs
        cases h
        obtain ⟨h1, h2, h3⟩ := ih a' b hcs
        refine ⟨?_, ?_, ?_⟩
        · rw [List.findIdx?_cons]; simp [hc, h1]
        · simp [← h2]
        · conv => lhs; unfold splitComma
          have : ¬ c = Bytes.comma := hc
          simp [this, h3]

theorem indexByte_none (s : Bytes) (h : cut s = none) : indexByte s 44 = -1 := by
  unfold indexByte; rw [(cut_none s h).1]

theorem indexByte_some (s a b : Bytes) (h : cut s = some (a, b)) : indexByte s 44 = (a.length : Int) := by
  unfold indexByte; rw [(cut_some s a b h).1]

theorem parts_none (s : Bytes) (hs : s ≠ []) (h : cut s = none) : parts s = [s] := by
  unfold parts
  simp [hs, (cut_none s h).2]

theorem parts_some (s a b : Bytes) (h : cut s = some (a, b)) : parts s = a :: parts b := by
  obtain ⟨_, h2, h3⟩ := cut_some s a b h
  have hs : s ≠ [] := by rw [h2]; simp
  unfold parts
  simp only [hs, if_false, h3]
  by_cases hb : b = []
  · subst hb; simp [splitComma]
  · simp only [hb, if_false]
    have hne := splitComma_ne_nil b
    cases hL : splitComma b with
    | nil => exact absurd hL hne
    | cons x xs =>
      simp only [List.getLast?_cons_cons, List.dropLast_cons_cons]
      split <;> rfl

theorem fieldOpts_eq (f : GoField) :
    fieldOpts f = (parts f.tag).foldl applyPart
      (match f.kind with
        | .byteArray n => { (if f.name = "HashPrefix" then { isPrefix := true, enc := .none } else {} : FieldOpts) with length := n, hasLength := true }
        | _ => (if f.name = "HashPrefix" then { isPrefix := true, enc := .none } else {} : FieldOpts)) := rfl


/-! ## Interpreter helpers -/

theorem len_succ {α : Type} (l : List α) (n : Nat) (h : l.length = n + 1) : ∃ a t, l = a :: t ∧ t.length = n := by
  cases l with
  | nil => simp at h
  | cons a t => exact ⟨a, t, rfl, by simpa using h⟩

theorem env21 (l : List Val) (hl : l.length = 21) : ∃ v0 v1 v2 v3 v4 v5 v6 v7 v8 v9 v10 v11 v12 v13 v14 v15 v16 v17 v18 v19 v20 : Val,
    l = [v0, v1, v2, v3, v4, v5, v6, v7, v8, v9, v10, v11, v12, v13, v14, v15, v16, v17, v18, v19, v20] := by
  obtain ⟨v0, l0, rfl, hl0⟩ := len_succ l 20 hl
  obtain ⟨v1, l1, rfl, hl1⟩ := len_succ l0 19 hl0
  obtain ⟨v2, l2, rfl, hl2⟩ := len_succ l1 18 hl1
  obtain ⟨v3, l3, rfl, hl3⟩ := len_succ l2 17 hl2
  obtain ⟨v4, l4, rfl, hl4⟩ := len_succ l3 16 hl3
  obtain ⟨v5, l5, rfl, hl5⟩ := len_succ l4 15 hl4
  obtain ⟨v6, l6, rfl, hl6⟩ := len_succ l5 14 hl5
  obtain ⟨v7, l7, rfl, hl7⟩ := len_succ l6 13 hl6
  obtain ⟨v8, l8, rfl, hl8⟩ := len_succ l7 12 hl7
  obtain ⟨v9, l9, rfl, hl9⟩ := len_succ l8 11 hl8
  obtain ⟨v10, l10, rfl, hl10⟩ := len_succ l9 10 hl9
  obtain ⟨v11, l11, rfl, hl11⟩ := len_succ l10 9 hl10
  obtain ⟨v12, l12, rfl, hl12⟩ := len_succ l11 8 hl11
  obtain ⟨v13, l13, rfl, hl13⟩ := len_succ l12 7 hl12
  obtain ⟨v14, l14, rfl, hl14⟩ := len_succ l13 6 hl13
  obtain ⟨v15, l15, rfl, hl15⟩ := len_succ l14 5 hl14
  obtain ⟨v16, l16, rfl, hl16⟩ := len_succ l15 4 hl15
  obtain ⟨v17, l17, rfl, hl17⟩ := len_succ l16 3 hl16
  obtain ⟨v18, l18, rfl, hl18⟩ := len_succ l17 2 hl17
  obtain ⟨v19, l19, rfl, hl19⟩ := len_succ l18 1 hl18
  obtain ⟨v20, l20, rfl, hl20⟩ := len_succ l19 0 hl19
  have : l20 = [] := List.eq_nil_of_length_eq_zero hl20
  subst this
  exact ⟨v0, v1, v2, v3, v4, v5, v6, v7, v8, v9, v10, v11, v12, v13, v14, v15, v16, v17, v18, v19, v20, rfl⟩

/-- A `fieldInfo` record with the given `Index`, `Name`, `Type` and options. -/
def mkObj (idx nm ty : Val) (o : FieldOpts) : Obj := idx :: nm :: ty :: optsVals o

/-- What every step keeps: the frame size, `t`, `ti`, `i` and `fi`. -/
def Frame (env env' : Env) : Prop :=
  env'.length = 21 ∧ env'[0]? = env[0]? ∧ env'[1]? = env[1]? ∧ env'[2]? = env[2]? ∧ env'[7]? = env[7]?

theorem Frame.trans {a b c : Env} (h1 : Frame a b) (h2 : Frame b c) : Frame a c := by
  obtain ⟨_, a0, a1, a2, a7⟩ := h1
  obtain ⟨l, b0, b1, b2, b7⟩ := h2
  exact ⟨l, b0.trans a0, b1.trans a1, b2.trans a2, b7.trans a7⟩

theorem fieldOf_self (h : Heap) (o : Obj) (k : Nat) :
    fieldOf (h ++ [o]) (.ptr h.length) k =
      (match o[k]? with | some x => .ok x | none => .stuck "no such field") := by
  simp only [fieldOf, heap_get_append_self]
  rfl

theorem sliceFrom_nat (s : Bytes) (n : Nat) (h : n ≤ s.length) : sliceFromVal (.str s) (n : Int) = .ok (.str (s.drop n)) := by
  simp [sliceFromVal, h]

theorem sliceTo_nat (s : Bytes) (n : Nat) (h : n ≤ s.length) : sliceToVal (.str s) (n : Int) = .ok (.str (s.take n)) := by
  simp [sliceToVal, h]

theorem extN_ok32 (s : Bytes) (v : Nat) (h : Strconv.parseUint s 10 32 = .ok v) :
    extN .parseUint [.str s, .int 10, .int 32] = .ok [.int v, .nil] := by
  simp [extN, h]
theorem extN_err32 (s : Bytes) (e : Strconv.NumErr) (h : Strconv.parseUint s 10 32 = .error e) :
    ∃ x, extN .parseUint [.str s, .int 10, .int 32] = .ok [.int x, .numErr] := by
  cases e <;> simp [extN, h]
theorem extN_ok8 (s : Bytes) (v : Nat) (h : Strconv.parseUint s 10 8 = .ok v) :
    extN .parseUint [.str s, .int 10, .int 8] = .ok [.int v, .nil] := by
  simp [extN, h]
theorem extN_err8 (s : Bytes) (e : Strconv.NumErr) (h : Strconv.parseUint s 10 8 = .error e) :
    ∃ x, extN .parseUint [.str s, .int 10, .int 8] = .ok [.int x, .numErr] := by
  cases e <;> simp [extN, h]

theorem prefix_len (p s : Bytes) (h : p.isPrefixOf s = true) : p.length ≤ s.length :=
  (List.isPrefixOf_iff_prefix.mp h).length_le

/-! ## The parts of the tag loop -/

def tagBody : Stmt := tagLoop.forBody
/-- `i := strings.IndexByte(tag, ','); if i < 0 { part, tag = tag, "" } else { part, tag = tag[:i], tag[i+1:] }` -/
def cutStmt : Stmt := tagBody.take 2
/-- The `switch` on `part`. -/
def switchStmt : Stmt := tagBody.drop 2

theorem tagLoop_eq : tagLoop = .for_ (.ne (.var 4) (.str [])) .skip tagBody := rfl

theorem cut_exec_none (c : Ctx) (H : Heap) (env : Env) (tag : Bytes) (hlen : env.length = 21)
    (h4 : env[4]? = some (.str tag)) (hc : cut tag = none) :
    ∃ env', exec c cutStmt H env = .norm H env' ∧ Frame env env' ∧ env'[4]? = some (.str []) ∧
      env'[9]? = some (.str tag) := by
  obtain ⟨v0, v1, v2, v3, v4, v5, v6, v7, v8, v9, v10, v11, v12, v13, v14, v15, v16, v17, v18, v19, v20, rfl⟩ := env21 env hlen
  simp only [List.getElem?_cons_succ, List.getElem?_cons_zero, Option.some.injEq] at h4
  subst h4
  simp only [cutStmt, tagBody, tagLoop, rawBody, rawLoop, getRawTypeInfoIR, Stmt.drop, Stmt.head, Stmt.forBody, Stmt.take]
  ti_simp [indexByte_none tag hc]
  exact ⟨_, rfl, ⟨rfl, rfl, rfl, rfl, rfl⟩, rfl, rfl⟩

theorem cut_exec_some (c : Ctx) (H : Heap) (env : Env) (tag a b : Bytes) (hlen : env.length = 21)
    (h4 : env[4]? = some (.str tag)) (hc : cut tag = some (a, b)) :
    ∃ env', exec c cutStmt H env = .norm H env' ∧ Frame env env' ∧ env'[4]? = some (.str b) ∧
      env'[9]? = some (.str a) := by
  obtain ⟨v0, v1, v2, v3, v4, v5, v6, v7, v8, v9, v10, v11, v12, v13, v14, v15, v16, v17, v18, v19, v20, rfl⟩ := env21 env hlen
  simp only [List.getElem?_cons_succ, List.getElem?_cons_zero, Option.some.injEq] at h4
  subst h4
  obtain ⟨_, h2, _⟩ := cut_some tag a b hc
  have hl1 : a.length ≤ tag.length := by rw [h2]; simp
  have hl2 : a.length + 1 ≤ tag.length := by rw [h2]; simp
  have ht : tag.take a.length = a := by rw [h2]; simp
  have hd : tag.drop (a.length + 1) = b := by rw [h2]; simp
  simp only [cutStmt, tagBody, tagLoop, rawBody, rawLoop, getRawTypeInfoIR, Stmt.drop, Stmt.head, Stmt.forBody, Stmt.take]
  ti_simp [indexByte_some tag a b hc, Nat.not_lt_zero, sliceTo_nat tag a.length hl1, sliceFrom_nat tag (a.length + 1) hl2, ht, hd]
  exact ⟨_, rfl, ⟨rfl, rfl, rfl, rfl, rfl⟩, rfl, rfl⟩


/-- `if`, with the branches kept away from `simp` until the condition is known. -/
def pick (r : Res Bool) (c : Ctx) (t e : Stmt) (h : Heap) (env : Env) : Out :=
  bindR r fun b => if b then exec c t h env else exec c e h env

theorem exec_ite_pick (c : Ctx) (h : Heap) (env : Env) (cnd : Expr) (t e : Stmt) :
    exec c (.ite cnd t e) h env = pick (eval c.structs h env cnd >>= asBool) c t e h env := rfl
theorem pick_true (c : Ctx) (h : Heap) (env : Env) (t e : Stmt) : pick (.ok true) c t e h env = exec c t h env := rfl
theorem pick_false (c : Ctx) (h : Heap) (env : Env) (t e : Stmt) : pick (.ok false) c t e h env = exec c e h env := rfl

syntax "tg_simp" (" [" Lean.Parser.Tactic.simpLemma,* "]")? : tactic
macro_rules
  | `(tactic| tg_simp) =>
    `(tactic| simp (disch := omega) only [tiir, ↓exec_ite_pick, pick_true, pick_false, fieldOf_self,
      Int.reduceLE, Int.reduceLT, Int.reduceEq, Int.reduceNe, Int.reduceToNat, Int.reduceNeg, Int.reduceSub, Int.reduceAdd,
      Nat.reducePow, Nat.reduceEqDiff, Nat.reduceAdd, Nat.reduceLT, Nat.reduceSub, Nat.reduceMul, Nat.reduceLeDiff, ↓reduceIte])
  | `(tactic| tg_simp [$ls,*]) =>
    `(tactic| simp (disch := omega) only [tiir, ↓exec_ite_pick, pick_true, pick_false, fieldOf_self,
      Int.reduceLE, Int.reduceLT, Int.reduceEq, Int.reduceNe, Int.reduceToNat, Int.reduceNeg, Int.reduceSub, Int.reduceAdd,
      Nat.reducePow, Nat.reduceEqDiff, Nat.reduceAdd, Nat.reduceLT, Nat.reduceSub, Nat.reduceMul, Nat.reduceLeDiff, ↓reduceIte, $ls,*])

local macro "sw_close" : tactic => `(tactic| exact ⟨_, rfl, ⟨rfl, rfl, rfl, rfl, rfl⟩, rfl⟩)

theorem switch_exec (c : Ctx) (h : Heap) (I N T : Val) (o : FieldOpts) (part : Bytes) (env : Env)
    (hlen : env.length = 21) (h7 : env[7]? = some (.ptr h.length)) (h9 : env[9]? = some (.str part)) :
    ∃ env', exec c switchStmt (h ++ [mkObj I N T o]) env = .norm (h ++ [mkObj I N T (applyPart o part)]) env' ∧
      Frame env env' ∧ env'[4]? = env[4]? := by
  obtain ⟨v0, v1, v2, v3, v4, v5, v6, v7, v8, v9, v10, v11, v12, v13, v14, v15, v16, v17, v18, v19, v20, rfl⟩ := env21 env hlen
  simp only [List.getElem?_cons_succ, List.getElem?_cons_zero, Option.some.injEq] at h7 h9
  subst h7 h9
  simp only [switchStmt, tagBody, tagLoop, rawBody, rawLoop, getRawTypeInfoIR, Stmt.drop, Stmt.head, Stmt.forBody,
    mkObj, optsVals]
  -- case "param:"
  by_cases m1 : hasPrefix pParam part = true
  · have p1 : List.isPrefixOf [112, 97, 114, 97, 109, 58] part = true := m1
    have s6 : sliceFromVal (.str part) 6 = .ok (.str (part.drop 6)) := sliceFrom_nat part 6 (prefix_len _ _ p1)
    have ha : applyPart o part = { o with param := part.drop 6 } := by unfold applyPart; rw [if_pos m1]
    rw [ha]
    tg_simp [p1, s6]
    sw_close
  have p1 : List.isPrefixOf [112, 97, 114, 97, 109, 58] part = false := Bool.eq_false_iff.mpr m1
  -- case "omitempty"
  by_cases m2 : part = pOmitEmpty
  · have d2 : decide (part = [111, 109, 105, 116, 101, 109, 112, 116, 121]) = true := decide_eq_true m2
    have ha : applyPart o part = { o with omitEmpty := true } := by unfold applyPart; rw [if_neg m1, if_pos m2]
    rw [ha]
    tg_simp [p1, d2]
    sw_close
  have d2 : decide (part = [111, 109, 105, 116, 101, 109, 112, 116, 121]) = false := decide_eq_false m2
  -- case "group"
  by_cases m3 : part = pGroup
  · have d3 : decide (part = [103, 114, 111, 117, 112]) = true := decide_eq_true m3
    have ha : applyPart o part = { o with group := true } := by unfold applyPart; rw [if_neg m1, if_neg m2, if_pos m3]
    rw [ha]
    tg_simp [p1, d2, d3]
    sw_close
  have d3 : decide (part = [103, 114, 111, 117, 112]) = false := decide_eq_false m3
  -- case "length:"
  by_cases m4 : hasPrefix pLength part = true
  · have p4 : List.isPrefixOf [108, 101, 110, 103, 116, 104, 58] part = true := m4
    have s7 : sliceFromVal (.str part) 7 = .ok (.str (part.drop 7)) := sliceFrom_nat part 7 (prefix_len _ _ p4)
    cases hp : Strconv.parseUint (part.drop 7) 10 32 with
    | error e =>
      have hpt : parseTagNum (part.drop 7) 32 = none := by unfold parseTagNum; rw [hp]
      have ha : applyPart o part = o := by
        unfold applyPart; rw [if_neg m1, if_neg m2, if_neg m3, if_pos m4, hpt]
      obtain ⟨x, hx⟩ := extN_err32 _ e hp
      rw [ha]
      tg_simp [p1, d2, d3, p4, s7, hx]
      sw_close
    | ok v =>
      have hv : v < 2 ^ 32 := parseUint_lt _ _ _ _ hp
      have hw : wrapS64 (v : Int) = (v : Int) := wrapS64_small v hv
      have hx := extN_ok32 _ v hp
      have hpt : parseTagNum (part.drop 7) 32 = some v := by unfold parseTagNum; rw [hp]
      cases hh : o.hasLength with
      | false =>
        have ha : applyPart o part = { o with length := v, hasLength := true } := by
          unfold applyPart; rw [if_neg m1, if_neg m2, if_neg m3, if_pos m4, hpt]
          exact if_pos (by simp [hh])
        rw [ha]
        tg_simp [p1, d2, d3, p4, s7, hx, hw, hh]
        sw_close
      | true =>
        by_cases pv : v < o.length
        · have ha : applyPart o part = { o with length := v, hasLength := true } := by
            unfold applyPart; rw [if_neg m1, if_neg m2, if_neg m3, if_pos m4, hpt]
            exact if_pos (by simp [hh, pv])
          rw [ha]
          tg_simp [p1, d2, d3, p4, s7, hx, hw, hh, pv]
          sw_close
        · have ha : applyPart o part = { o with hasLength := true } := by
            unfold applyPart; rw [if_neg m1, if_neg m2, if_neg m3, if_pos m4, hpt]
            exact if_neg (by simp [hh, pv])
          rw [ha]
          tg_simp [p1, d2, d3, p4, s7, hx, hw, hh, pv]
          sw_close
  have p4 : List.isPrefixOf [108, 101, 110, 103, 116, 104, 58] part = false := Bool.eq_false_iff.mpr m4
  -- case "inline"
  by_cases m5 : part = pInline
  · have d5 : decide (part = [105, 110, 108, 105, 110, 101]) = true := decide_eq_true m5
    have ha : applyPart o part = { o with inline := true } := by
      unfold applyPart; rw [if_neg m1, if_neg m2, if_neg m3, if_neg m4, if_pos m5]
    rw [ha]
    tg_simp [p1, d2, d3, p4, d5]
    sw_close
  have d5 : decide (part = [105, 110, 108, 105, 110, 101]) = false := decide_eq_false m5
  -- case "base:"
  by_cases m6 : hasPrefix pBase part = true
  · have p6 : List.isPrefixOf [98, 97, 115, 101, 58] part = true := m6
    have s5 : sliceFromVal (.str part) 5 = .ok (.str (part.drop 5)) := sliceFrom_nat part 5 (prefix_len _ _ p6)
    cases hp : Strconv.parseUint (part.drop 5) 10 8 with
    | error e =>
      have hpt : parseTagNum (part.drop 5) 8 = none := by unfold parseTagNum; rw [hp]
      have ha : applyPart o part = o := by
        unfold applyPart; rw [if_neg m1, if_neg m2, if_neg m3, if_neg m4, if_neg m5, if_pos m6, hpt]
      obtain ⟨x, hx⟩ := extN_err8 _ e hp
      rw [ha]
      tg_simp [p1, d2, d3, p4, d5, p6, s5, hx]
      sw_close
    | ok v =>
      have hv : v < 2 ^ 8 := parseUint_lt _ _ _ _ hp
      have hw : wrapS64 (v : Int) = (v : Int) := wrapS64_small v (by omega)
      have hx := extN_ok8 _ v hp
      have hpt : parseTagNum (part.drop 5) 8 = some v := by unfold parseTagNum; rw [hp]
      by_cases hb : 2 ≤ v ∧ v ≤ 36
      · have ha : applyPart o part = { o with base := v } := by
          unfold applyPart; rw [if_neg m1, if_neg m2, if_neg m3, if_neg m4, if_neg m5, if_pos m6, hpt]
          exact if_pos hb
        have i2 : (2 : Int) ≤ (v : Int) := by omega
        have i36 : (v : Int) ≤ 36 := by omega
        rw [ha]
        tg_simp [p1, d2, d3, p4, d5, p6, s5, hx, hw, i2, i36]
        sw_close
      · have ha : applyPart o part = o := by
          unfold applyPart; rw [if_neg m1, if_neg m2, if_neg m3, if_neg m4, if_neg m5, if_pos m6, hpt]
          exact if_neg hb
        rw [ha]
        by_cases h2 : 2 ≤ v
        · have i2 : (2 : Int) ≤ (v : Int) := by omega
          have i36 : ¬ (v : Int) ≤ 36 := by omega
          tg_simp [p1, d2, d3, p4, d5, p6, s5, hx, hw, i2, i36]
          sw_close
        · have i2 : ¬ (2 : Int) ≤ (v : Int) := by omega
          tg_simp [p1, d2, d3, p4, d5, p6, s5, hx, hw, i2]
          sw_close
  have p6 : List.isPrefixOf [98, 97, 115, 101, 58] part = false := Bool.eq_false_iff.mpr m6
  -- case "enc:"
  by_cases m7 : hasPrefix pEnc part = true
  · have p7 : List.isPrefixOf [101, 110, 99, 58] part = true := m7
    have s4 : sliceFromVal (.str part) 4 = .ok (.str (part.drop 4)) := sliceFrom_nat part 4 (prefix_len _ _ p7)
    by_cases e1 : part.drop 4 = pBase64
    · have de1 : decide (List.drop 4 part = [98, 97, 115, 101, 54, 52]) = true := decide_eq_true e1
      have ha : applyPart o part = { o with enc := .base64 } := by
        unfold applyPart; rw [if_neg m1, if_neg m2, if_neg m3, if_neg m4, if_neg m5, if_neg m6, if_pos m7, if_pos e1]
      rw [ha]
      tg_simp [p1, d2, d3, p4, d5, p6, p7, s4, de1]
      sw_close
    have de1 : decide (List.drop 4 part = [98, 97, 115, 101, 54, 52]) = false := decide_eq_false e1
    by_cases e2 : part.drop 4 = pNone
    · have de2 : decide (List.drop 4 part = [110, 111, 110, 101]) = true := decide_eq_true e2
      have ha : applyPart o part = { o with enc := .none } := by
        unfold applyPart
        rw [if_neg m1, if_neg m2, if_neg m3, if_neg m4, if_neg m5, if_neg m6, if_pos m7, if_neg e1, if_pos e2]
      rw [ha]
      tg_simp [p1, d2, d3, p4, d5, p6, p7, s4, de1, de2]
      sw_close
    have de2 : decide (List.drop 4 part = [110, 111, 110, 101]) = false := decide_eq_false e2
    have ha : applyPart o part = o := by
      unfold applyPart
      rw [if_neg m1, if_neg m2, if_neg m3, if_neg m4, if_neg m5, if_neg m6, if_pos m7, if_neg e1, if_neg e2]
    rw [ha]
    tg_simp [p1, d2, d3, p4, d5, p6, p7, s4, de1, de2]
    sw_close
  have p7 : List.isPrefixOf [101, 110, 99, 58] part = false := Bool.eq_false_iff.mpr m7
  have ha : applyPart o part = o := by
    unfold applyPart
    rw [if_neg m1, if_neg m2, if_neg m3, if_neg m4, if_neg m5, if_neg m6, if_neg m7]
  rw [ha]
  tg_simp [p1, d2, d3, p4, d5, p6, p7]
  sw_close

/-! ## The tag loop -/

theorem tag_cond (c : Ctx) (H : Heap) (env : Env) (tag : Bytes) (hlen : env.length = 21)
    (h4 : env[4]? = some (.str tag)) :
    (eval c.structs H env (.ne (.var 4) (.str [])) >>= asBool) = .ok (!decide (tag = [])) := by
  obtain ⟨v0, v1, v2, v3, v4, v5, v6, v7, v8, v9, v10, v11, v12, v13, v14, v15, v16, v17, v18, v19, v20, rfl⟩ := env21 env hlen
  simp only [List.getElem?_cons_succ, List.getElem?_cons_zero, Option.some.injEq] at h4
  subst h4
  ti_simp

theorem parts_nil : parts [] = [] := rfl

theorem tag_loop (c : Ctx) (h : Heap) (I N T : Val) : ∀ (n : Nat) (tag : Bytes) (o : FieldOpts) (env : Env),
    tag.length ≤ n → env.length = 21 → env[4]? = some (.str tag) → env[7]? = some (.ptr h.length) →
    ∃ env', loop (fun h env => eval c.structs h env (.ne (.var 4) (.str [])) >>= asBool) (exec c tagBody)
        (exec c .skip) n (h ++ [mkObj I N T o]) env =
          .norm (h ++ [mkObj I N T ((parts tag).foldl applyPart o)]) env' ∧ Frame env env' := by
  intro n
  induction n with
  | zero =>
    intro tag o env hn hlen h4 h7
    have ht : tag = [] := List.eq_nil_of_length_eq_zero (by omega)
    subst ht
    refine ⟨env, ?_, hlen, rfl, rfl, rfl, rfl⟩
    rw [loop_false _ _ _ _ _ _ (by rw [tag_cond c _ env [] hlen h4]; rfl)]
    rfl
  | succ n ih =>
    intro tag o env hn hlen h4 h7
    by_cases ht : tag = []
    · subst ht
      refine ⟨env, ?_, hlen, rfl, rfl, rfl, rfl⟩
      rw [loop_false _ _ _ _ _ _ (by rw [tag_cond c _ env [] hlen h4]; rfl)]
      rfl
    · rw [loop_step _ _ _ _ _ _ (by rw [tag_cond c _ env tag hlen h4]; simp [ht])]
      rw [exec_take_drop c _ _ 2 tagBody]
      show ∃ env', afterBody (exec c .skip) _ ((exec c cutStmt _ env).andThen (exec c switchStmt)) = _ ∧ _
      cases hc : cut tag with
      | none =>
        obtain ⟨env1, e1, f1, g4, g9⟩ := cut_exec_none c (h ++ [mkObj I N T o]) env tag hlen h4 hc
        obtain ⟨env2, e2, f2, k4⟩ := switch_exec c h I N T o tag env1 f1.1 (f1.2.2.2.2.trans h7) g9
        obtain ⟨env3, e3, f3⟩ := ih [] (applyPart o tag) env2 (by simp) f2.1 (k4.trans g4) (f2.2.2.2.2.trans (f1.2.2.2.2.trans h7))
        rw [e1, andThen_norm, e2, afterBody_norm, exec_skip, afterPost_norm, e3, parts_none tag ht hc, parts_nil]
        exact ⟨env3, rfl, (f1.trans f2).trans f3⟩
      | some ab =>
        obtain ⟨a, b⟩ := ab
        obtain ⟨env1, e1, f1, g4, g9⟩ := cut_exec_some c (h ++ [mkObj I N T o]) env tag a b hlen h4 hc
        obtain ⟨env2, e2, f2, k4⟩ := switch_exec c h I N T o a env1 f1.1 (f1.2.2.2.2.trans h7) g9
        have hb : b.length ≤ n := by
          have := (cut_some tag a b hc).2.1
          have hl : tag.length = a.length + (b.length + 1) := by rw [this]; simp
          omega
        obtain ⟨env3, e3, f3⟩ := ih b (applyPart o a) env2 hb f2.1 (k4.trans g4) (f2.2.2.2.2.trans (f1.2.2.2.2.trans h7))
        rw [e1, andThen_norm, e2, afterBody_norm, exec_skip, afterPost_norm, e3, parts_some tag a b hc]
        exact ⟨env3, rfl, (f1.trans f2).trans f3⟩

/-! ## The statements before the loop -/

def st0 : Stmt := (rawBody.drop 4).head
def st1 : Stmt := (rawBody.drop 5).head
def st2 : Stmt := (rawBody.drop 6).head
def st3 : Stmt := (rawBody.drop 7).head
def st4 : Stmt := (rawBody.drop 8).head
def st5 : Stmt := (rawBody.drop 9).head

theorem fieldPart_eq : fieldPart = (st0 ;; st1 ;; st2 ;; st3 ;; st4 ;; st5 ;; tagLoop ;; .skip) := rfl

theorem nameBytes_hashPrefix : nameBytes "HashPrefix" = [72, 97, 115, 104, 80, 114, 101, 102, 105, 120] := by decide

/-- `fi := &fieldInfo{…}; if fi.Name == hashPrefix { … }` -/
theorem pre_exec (c : Ctx) (h : Heap) (env : Env) (f : GoField) (i : Nat) (rest : Stmt)
    (hlen : env.length = 21) (h3 : env[3]? = some (.sfield f i)) :
    ∃ env', exec c (st0 ;; st1 ;; st2 ;; rest) h env =
        exec c rest (h ++ [mkObj (.ints [(i : Int)]) (.name f.name) (.rtype (fieldType f))
          (if f.name = "HashPrefix" then { isPrefix := true, enc := .none } else {})]) env' ∧
      env'.length = 21 ∧ env'[0]? = env[0]? ∧ env'[1]? = env[1]? ∧ env'[2]? = env[2]? ∧ env'[4]? = env[4]? ∧
      env'[7]? = some (.ptr h.length) := by
  obtain ⟨v0, v1, v2, v3, v4, v5, v6, v7, v8, v9, v10, v11, v12, v13, v14, v15, v16, v17, v18, v19, v20, rfl⟩ := env21 env hlen
  simp only [List.getElem?_cons_succ, List.getElem?_cons_zero, Option.some.injEq] at h3
  subst h3
  simp only [st0, st1, st2, rawBody, rawLoop, getRawTypeInfoIR, Stmt.drop, Stmt.head, Stmt.forBody]
  by_cases hn : f.name = "HashPrefix"
  · have dn : decide (nameBytes f.name = [72, 97, 115, 104, 80, 114, 101, 102, 105, 120]) = true :=
      decide_eq_true (by rw [hn]; exact nameBytes_hashPrefix)
    rw [if_pos hn]
    tg_simp [dn]
    exact ⟨_, rfl, rfl, rfl, rfl, rfl, rfl, rfl⟩
  · have dn : decide (nameBytes f.name = [72, 97, 115, 104, 80, 114, 101, 102, 105, 120]) = false :=
      decide_eq_false (fun e => hn (nameBytes_inj (e.trans nameBytes_hashPrefix.symm)))
    rw [if_neg hn]
    tg_simp [dn]
    exact ⟨_, rfl, rfl, rfl, rfl, rfl, rfl, rfl⟩

def isArr : GoKind → Bool
  | .byteArray _ => true
  | _ => false

theorem kindNum_arr (k : GoKind) (tn : String) (mt ut : TextCodec) :
    (kindNum ⟨0, k, tn, mt, ut⟩ = 17) = (isArr k = true) := by
  apply propext
  unfold kindNum
  cases k <;> simp [isArr] <;> (repeat' split) <;> omega

theorem elemOf_arr (n : Nat) (tn : String) (mt ut : TextCodec) :
    elemOf ⟨0, .byteArray n, tn, mt, ut⟩ = .ok uint8Type := rfl
theorem kindNum_u8 : kindNum uint8Type = 8 := by decide
theorem typeLen_arr (s : List GoStruct) (n : Nat) (tn : String) (mt ut : TextCodec) :
    ext1 s .typeLen (.rtype ⟨0, .byteArray n, tn, mt, ut⟩) = .ok (.int n) := rfl

/-- `st := indirectType(fi.Type); if st.Kind() == reflect.Array && st.Elem().Kind() == reflect.Uint8 { … }` -/
theorem arr_exec (c : Ctx) (h : Heap) (I N : Val) (t : RType) (o : FieldOpts) (env : Env) (rest : Stmt)
    (hI : IndirectSpec c) (hd : t.depth < c.fuel)
    (hlen : env.length = 21) (h7 : env[7]? = some (.ptr h.length)) :
    ∃ env', exec c (st3 ;; st4 ;; rest) (h ++ [mkObj I N (.rtype t) o]) env =
        exec c rest (h ++ [mkObj I N (.rtype t)
          (match t.kind with
            | .byteArray n => { o with length := n, hasLength := true }
            | _ => o)]) env' ∧
      Frame env env' ∧ env'[4]? = env[4]? := by
  obtain ⟨v0, v1, v2, v3, v4, v5, v6, v7, v8, v9, v10, v11, v12, v13, v14, v15, v16, v17, v18, v19, v20, rfl⟩ := env21 env hlen
  simp only [List.getElem?_cons_succ, List.getElem?_cons_zero, Option.some.injEq] at h7
  subst h7
  obtain ⟨d, k, tn, mt, ut⟩ := t
  have hcall : ∀ H, c.call 3 H [.rtype ⟨d, k, tn, mt, ut⟩] = .ok (H, [.rtype ⟨0, k, tn, mt, ut⟩]) := fun H => hI H _ hd
  simp only [st3, st4, rawBody, rawLoop, getRawTypeInfoIR, Stmt.drop, Stmt.head, Stmt.forBody, mkObj, optsVals]
  cases k with
  | byteArray n =>
    tg_simp [hcall, kindNum_arr, isArr, elemOf_arr, kindNum_u8, typeLen_arr]
    exact ⟨_, rfl, ⟨rfl, rfl, rfl, rfl, rfl⟩, rfl⟩
  | _ =>
    tg_simp [hcall, kindNum_arr, isArr]
    exact ⟨_, rfl, ⟨rfl, rfl, rfl, rfl, rfl⟩, rfl⟩

/-- `var part string` -/
theorem part_exec (c : Ctx) (H : Heap) (env : Env) (rest : Stmt) (hlen : env.length = 21) :
    ∃ env', exec c (st5 ;; rest) H env = exec c rest H env' ∧ Frame env env' ∧ env'[4]? = env[4]? := by
  obtain ⟨v0, v1, v2, v3, v4, v5, v6, v7, v8, v9, v10, v11, v12, v13, v14, v15, v16, v17, v18, v19, v20, rfl⟩ := env21 env hlen
  simp only [st5, rawBody, rawLoop, getRawTypeInfoIR, Stmt.drop, Stmt.head, Stmt.forBody]
  tg_simp
  exact ⟨_, rfl, ⟨rfl, rfl, rfl, rfl, rfl⟩, rfl⟩

/-! ## The statement -/

theorem fieldPart_spec : FieldPartSpec := by
  intro c f i h env hI hd ht hlen h3 h4
  rw [fieldPart_eq]
  obtain ⟨env1, e1, l1, a0, a1, a2, a4, a7⟩ := pre_exec c h env f i (st3 ;; st4 ;; st5 ;; tagLoop ;; .skip) hlen h3
  obtain ⟨env2, e2, f2, b4⟩ := arr_exec c h (.ints [(i : Int)]) (.name f.name) (fieldType f)
    (if f.name = "HashPrefix" then { isPrefix := true, enc := .none } else {}) env1 (st5 ;; tagLoop ;; .skip) hI hd l1 a7
  obtain ⟨env3, e3, f3, c4⟩ := part_exec c (h ++ [mkObj (.ints [(i : Int)]) (.name f.name) (.rtype (fieldType f))
          (match (fieldType f).kind with
            | .byteArray n => { (if f.name = "HashPrefix" then { isPrefix := true, enc := .none } else {} : FieldOpts) with length := n, hasLength := true }
            | _ => (if f.name = "HashPrefix" then { isPrefix := true, enc := .none } else {} : FieldOpts))]) env2 (tagLoop ;; .skip) f2.1
  have g4 : env3[4]? = some (.str f.tag) := c4.trans (b4.trans (a4.trans h4))
  have g7 : env3[7]? = some (.ptr h.length) := f3.2.2.2.2.trans (f2.2.2.2.2.trans a7)
  obtain ⟨env4, e4, f4⟩ := tag_loop c h (.ints [(i : Int)]) (.name f.name) (.rtype (fieldType f)) c.fuel f.tag _ env3
    (by omega) f3.1 g4 g7
  rw [e1, e2, e3, exec_seq, tagLoop_eq, exec_for, e4, andThen_norm, exec_skip]
  refine ⟨env4, rfl, f4.1, ?_, ?_, ?_, ?_⟩
  · exact f4.2.1.trans (f3.2.1.trans (f2.2.1.trans a0))
  · exact f4.2.2.1.trans (f3.2.2.1.trans (f2.2.2.1.trans a1))
  · exact f4.2.2.2.1.trans (f3.2.2.2.1.trans (f2.2.2.2.1.trans a2))
  · exact f4.2.2.2.2.trans g7

end GoCrypt.TIIR.Tag

#print axioms GoCrypt.TIIR.Tag.fieldPart_spec
