import GoCrypt.Proofs.B64IRDecodeLoopW

/-!
# Buffer IR of `hash/base64le`: `Decode` inside the regenerated program, on a prefix window

`decode_program` again for a source slice `⟨s, 0, n, cp⟩` (`n ≤ cp`) that is a prefix window of a heap
buffer `S` with `n ≤ S.size`: the model side speaks about the first `n` bytes of `S`. Helper lemmas only.
-/

namespace GoCrypt.B64IR
open GoCrypt.Base64LE GoCrypt.Gen.base64leIR GoCrypt.Gen.base64le GoCrypt.Spec.Base64Bits

/-- In the regenerated program the callees of `Decode` are their own translations (window form). -/
theorem decCtx_programW (k : Nat) (e : Encoding) (hal : e.alphabet.length = 64) (H : Heap) (d dn s : Nat) (S src : Buf)
    (cp : Nat) (hdl : d < H.length) (hs : H[s]? = some S) (hle : src.size ≤ S.size)
    (hbr : ∀ (i : Nat) (h1 : i < S.size) (h2 : i < src.size), S[i]'h1 = src[i]'h2)
    (hne : d ≠ s) (hsz : src.size < 2 ^ 62) :
    DecCtxW { call := callIn program (k + 1) } e H d dn s src cp where
  a32 := fun h n1 n2 n3 n4 => by
    dsimp only
    rw [callIn_succ program k _ _ _ _ lookup_a32]; exact assemble32_proc _ _ _ _ _ _
  a64 := fun h n1 n2 n3 n4 n5 n6 n7 n8 => by
    dsimp only
    rw [callIn_succ program k _ _ _ _ lookup_a64]; exact assemble64_proc _ _ _ _ _ _ _ _ _ _
  dq := fun D n si hD hn hsi => by
    dsimp only
    rw [callIn_succ program k _ _ _ _ lookup_dq]
    subst hD
    exact decodeQuantum_procW _ e hal (H.set d D) d n s si D S src (List.getElem?_set_self hdl)
      (by rw [List.getElem?_set_ne hne]; exact hs) hle hbr cp hn hsi hsz

/-- The first `n` bytes of a buffer. -/
def prefixBuf (S : Buf) (n : Nat) : Buf := (S.toList.take n).toArray

theorem prefixBuf_size (S : Buf) (n : Nat) (hn : n ≤ S.size) : (prefixBuf S n).size = n := by
  simp [prefixBuf, Nat.min_eq_left hn]

theorem prefixBuf_getElem (S : Buf) (n : Nat) (i : Nat) (h1 : i < S.size) (h2 : i < (prefixBuf S n).size) :
    S[i]'h1 = (prefixBuf S n)[i]'h2 := by
  simp [prefixBuf]

/-- `Decode` inside the program, for a source that is a prefix window of its buffer. -/
theorem decode_programW (k : Nat) (e : Encoding) (hal : e.alphabet.length = 64) (H : Heap) (d s : Nat) (dst S : Buf)
    (n cp : Nat) (hd : H[d]? = some dst) (hs : H[s]? = some S) (hne : d ≠ s) (hn : n ≤ S.size) (hcp : n ≤ cp)
    (hdz : dst.size < 2 ^ 62) (hnz : n < 2 ^ 62) :
    callIn program (k + 2) "Encoding.Decode" H [encVal e, .slice ⟨d, 0, dst.size, dst.size⟩, .slice ⟨s, 0, n, cp⟩] =
      if n = 0 then .ok (H, [.int 0, .err none]) else ofD H d (decodeLoop e (S.toList.take n).toArray 0 0 0 dst) := by
  have hsize := prefixBuf_size S n hn
  have hbr := prefixBuf_getElem S n
  have hmain : callIn program (k + 2) "Encoding.Decode" H [encVal e, .slice ⟨d, 0, dst.size, dst.size⟩,
      .slice ⟨s, 0, (prefixBuf S n).size, cp⟩] =
      if (prefixBuf S n).size = 0 then .ok (H, [.int 0, .err none]) else ofD H d (decodeLoop e (prefixBuf S n) 0 0 0 dst) := by
    rw [callIn_succ program (k + 1) _ _ _ _ lookup_dec]
    exact decode_procW _ e hal H d s dst S (prefixBuf S n) cp hd hs (by omega) (by omega) hbr hne hdz (by omega)
      (decCtx_programW k e hal H d dst.size s S (prefixBuf S n) cp (heap_lt_of_get hd) hs (by omega) hbr hne (by omega))
  rw [hsize] at hmain
  exact hmain

end GoCrypt.B64IR
