import GoCrypt.Proofs.ParseFlowParse

/-!
# Heap reasoning for `Parse`: frame lemmas and the representation invariant

The heap readings `rdValue`, `rdValues`, `rdFrag`, `rdFrags`, `rdPrefix` (`Spec/SFlowVal2Parse.lean`)
are stable under allocation (`H ++ [o]`) and under the update of an object that is neither a
`ValueNode` nor a `PrefixNode` by one of the same type (`Upd`) — as long as the updated object is not
itself among the fragments read.  `Rel` relates heap and local variables to the model's `PState`.
-/

namespace GoCrypt.SFlowVal2
open GoCrypt GoCrypt.Flow GoCrypt.SFlow GoCrypt.SFlow2 GoCrypt.SFlowVal GoCrypt.Parse

/-! ## `allSome` -/

theorem allSome_congr {β} (f g : Nat → Option β) (xs : List (Option Nat))
    (h : ∀ a, some a ∈ xs → f a = g a) : allSome f xs = allSome g xs := by
  induction xs with
  | nil => rfl
  | cons x r ih =>
    cases x with
    | none => rfl
    | some a =>
      have h1 := h a (by simp)
      have h2 := ih (fun b hb => h b (by simp [hb]))
      simp [allSome, h1, h2]

theorem allSome_append {β} (f : Nat → Option β) (xs : List (Option Nat)) (a : Nat) (bs : List β) (b : β)
    (h1 : allSome f xs = some bs) (h2 : f a = some b) : allSome f (xs ++ [some a]) = some (bs ++ [b]) := by
  induction xs generalizing bs with
  | nil => simp [allSome] at h1; subst h1; simp [allSome, h2]
  | cons x r ih =>
    cases x with
    | none => simp [allSome] at h1
    | some c =>
      simp only [allSome] at h1
      cases hc : f c with
      | none => simp [hc] at h1
      | some d =>
        cases hr : allSome f r with
        | none => simp [hc, hr] at h1
        | some ds =>
          simp [hc, hr] at h1
          subst h1
          simp [allSome, hc, ih ds hr]

theorem allSome_mem {β} (f : Nat → Option β) (xs : List (Option Nat)) (bs : List β) (a : Nat)
    (h : allSome f xs = some bs) (ha : some a ∈ xs) : ∃ b, f a = some b := by
  induction xs generalizing bs with
  | nil => simp at ha
  | cons x r ih =>
    cases x with
    | none => simp [allSome] at h
    | some c =>
      simp only [allSome] at h
      cases hc : f c with
      | none => simp [hc] at h
      | some d =>
        cases hr : allSome f r with
        | none => simp [hc, hr] at h
        | some ds =>
          simp only [List.mem_cons, Option.some.injEq] at ha
          rcases ha with e | ha
          · subst e; exact ⟨d, hc⟩
          · exact ih ds hr ha

/-! ## Objects by type -/

theorem valueOfObj_ty (o : Obj) (v : VNode) (h : valueOfObj o = some v) : o.1 = "ValueNode" := by
  unfold valueOfObj at h
  split at h
  · split at h
    · rename_i hc; exact hc.1
    · cases h
  · cases h

theorem valueOfObj_none (o : Obj) (h : o.1 ≠ "ValueNode") : valueOfObj o = none := by
  cases hv : valueOfObj o with
  | none => rfl
  | some v => exact absurd (valueOfObj_ty o v hv) h

theorem prefixOfObj_none (o : Obj) (h : o.1 ≠ "PrefixNode") : prefixOfObj o = none := by
  unfold prefixOfObj
  split
  · split
    · rename_i hc; exact absurd hc.1 h
    · rfl
  · rfl

theorem fragOfObj_congr (H H' : List Obj) (o : Obj) (h : ∀ xs, rdValues H' xs = rdValues H xs) :
    fragOfObj H' o = fragOfObj H o := by
  unfold fragOfObj
  split
  · rfl
  · split
    · split
      · split
        · cases hs : sliceOf _ <;> simp [h]
        · rfl
      · rfl
    · rfl

/-! ## Allocation -/

theorem rdValue_append (H : List Obj) (o : Obj) (a : Nat) (v : VNode) (h : rdValue H a = some v) :
    rdValue (H ++ [o]) a = some v := by
  unfold rdValue at h ⊢
  cases hl : lget H a with
  | none => simp [hl] at h
  | some x => rw [lget_append_left H a x o hl]; rw [hl] at h; exact h

theorem rdValues_append (H : List Obj) (o : Obj) (xs : List (Option Nat)) (vs : List VNode)
    (h : rdValues H xs = some vs) : rdValues (H ++ [o]) xs = some vs := by
  unfold rdValues at h ⊢
  rw [← h]
  apply allSome_congr
  intro a ha
  obtain ⟨b, hb⟩ := allSome_mem _ _ _ _ h ha
  rw [hb, rdValue_append H o a b hb]

theorem rdFrag_append (H : List Obj) (o : Obj) (a : Nat) (f : Frag) (h : rdFrag H a = some f) :
    rdFrag (H ++ [o]) a = some f := by
  unfold rdFrag at h ⊢
  cases hl : lget H a with
  | none => simp [hl] at h
  | some x =>
    rw [lget_append_left H a x o hl]
    rw [hl] at h
    simp only [Option.bind_some] at h ⊢
    unfold fragOfObj at h ⊢
    split
    · rename_i hc; simpa [hc] using h
    · rename_i hc
      simp only [hc, if_false] at h
      split
      · rename_i hg
        simp only [hg, if_true] at h
        split
        · rename_i f sl heq
          simp only [heq] at h
          split
          · rename_i hf
            simp only [hf, if_true] at h
            cases hs : sliceOf sl with
            | none => simp [hs] at h
            | some xs =>
              simp only [hs, Option.bind_some, Option.map_eq_some_iff] at h ⊢
              obtain ⟨vs, hvs, e⟩ := h
              exact ⟨vs, rdValues_append H o xs vs hvs, e⟩
          · rename_i hf; simp [hf] at h
        · rename_i hne
          split at h
          · rename_i f sl heq; exact absurd heq (hne f sl)
          · cases h
      · rename_i hg; simp [hg] at h

theorem rdFrags_append (H : List Obj) (o : Obj) (xs : List (Option Nat)) (fs : List Frag)
    (h : rdFrags H xs = some fs) : rdFrags (H ++ [o]) xs = some fs := by
  unfold rdFrags at h ⊢
  rw [← h]
  apply allSome_congr
  intro a ha
  obtain ⟨b, hb⟩ := allSome_mem _ _ _ _ h ha
  rw [hb, rdFrag_append H o a b hb]

theorem rdPrefix_ptr (H : List Obj) (a : Nat) :
    rdPrefix H (.ext (.ptr a)) = ((lget H a).bind prefixOfObj).map some := rfl

theorem rdPrefix_append (H : List Obj) (o : Obj) (pv : Val PVal) (p : Option Bytes) (h : rdPrefix H pv = some p) :
    rdPrefix (H ++ [o]) pv = some p := by
  cases pv with
  | ext x =>
    cases x with
    | ptr a =>
      rw [rdPrefix_ptr] at h ⊢
      cases hl : lget H a with
      | none => simp [hl] at h
      | some x => rw [lget_append_left H a x o hl]; rw [hl] at h; exact h
    | _ => exact h
  | _ => exact h

/-! ## Update in place -/

/-- `H'` is `H` with the object at `g` replaced by one of the same type, which is neither a
`ValueNode` nor a `PrefixNode`. -/
def Upd (H H' : List Obj) (g : Nat) : Prop :=
  ∃ o o', lget H g = some o ∧ lset H g o' = some H' ∧ o'.1 = o.1 ∧ o.1 ≠ "ValueNode" ∧ o.1 ≠ "PrefixNode"

theorem Upd.lget_ne {H H' : List Obj} {g : Nat} (h : Upd H H' g) (b : Nat) (hb : b ≠ g) : lget H' b = lget H b := by
  obtain ⟨o, o', _, hs, _⟩ := h
  rw [lget_lset H H' g b o' hs, if_neg hb]

theorem Upd.lget_eq {H H' : List Obj} {g : Nat} (o' : Obj) (hs : lset H g o' = some H') : lget H' g = some o' := by
  rw [lget_lset H H' g g o' hs, if_pos rfl]

theorem Upd.rdValue {H H' : List Obj} {g : Nat} (h : Upd H H' g) (a : Nat) : rdValue H' a = rdValue H a := by
  by_cases ha : a = g
  · subst ha
    obtain ⟨o, o', hg, hs, ht, hv, _⟩ := h
    unfold SFlowVal2.rdValue
    rw [Upd.lget_eq o' hs, hg]
    simp [valueOfObj_none o hv, valueOfObj_none o' (by rw [ht]; exact hv)]
  · unfold SFlowVal2.rdValue
    rw [h.lget_ne a ha]

theorem Upd.rdValues {H H' : List Obj} {g : Nat} (h : Upd H H' g) (xs : List (Option Nat)) :
    rdValues H' xs = rdValues H xs := by
  unfold SFlowVal2.rdValues
  exact allSome_congr _ _ _ (fun a _ => h.rdValue a)

theorem Upd.rdPrefix {H H' : List Obj} {g : Nat} (h : Upd H H' g) (pv : Val PVal) : rdPrefix H' pv = rdPrefix H pv := by
  cases pv with
  | ext x =>
    cases x with
    | ptr a =>
      rw [rdPrefix_ptr, rdPrefix_ptr]
      by_cases ha : a = g
      · subst ha
        obtain ⟨o, o', hg, hs, ht, _, hp⟩ := h
        rw [Upd.lget_eq o' hs, hg]
        simp [prefixOfObj_none o hp, prefixOfObj_none o' (by rw [ht]; exact hp)]
      · rw [h.lget_ne a ha]
    | _ => rfl
  | _ => rfl

theorem Upd.rdFrag {H H' : List Obj} {g : Nat} (h : Upd H H' g) (a : Nat) (ha : a ≠ g) : rdFrag H' a = rdFrag H a := by
  unfold SFlowVal2.rdFrag
  rw [h.lget_ne a ha]
  cases lget H a with
  | none => rfl
  | some o => exact fragOfObj_congr H H' o h.rdValues

theorem Upd.rdFrags {H H' : List Obj} {g : Nat} (h : Upd H H' g) (fs : List (Option Nat)) (hg : some g ∉ fs) :
    rdFrags H' fs = rdFrags H fs := by
  unfold SFlowVal2.rdFrags
  apply allSome_congr
  intro a ha
  exact h.rdFrag a (fun e => hg (e ▸ ha))

/-- An address that does not hold a fragment node is not among fragments that can be read. -/
theorem rdFrags_not_mem (H : List Obj) (fs : List (Option Nat)) (x : List Frag) (a : Nat)
    (h : rdFrags H fs = some x) (ha : rdFrag H a = none) : some a ∉ fs := by
  intro hm
  obtain ⟨b, hb⟩ := allSome_mem _ _ _ _ h hm
  rw [ha] at hb; cases hb

theorem rdFrags_lt (H : List Obj) (fs : List (Option Nat)) (x : List Frag) (a : Nat)
    (h : rdFrags H fs = some x) (hm : some a ∈ fs) : a < H.length := by
  obtain ⟨b, hb⟩ := allSome_mem _ _ _ _ h hm
  unfold rdFrag at hb
  cases hl : lget H a with
  | none => simp [hl] at hb
  | some o => exact lget_lt H a o hl

theorem rdFrag_tree (H : List Obj) (a : Nat) (pv fv : Val PVal) (h : lget H a = some (treeObj pv fv)) :
    rdFrag H a = none := by
  simp [rdFrag, h, fragOfObj, treeObj]

theorem rdFrag_group (H : List Obj) (g : Nat) (sl : Val PVal) (h : lget H g = some (groupObj sl)) :
    rdFrag H g = ((sliceOf sl).bind (rdValues H)).map .group := by
  simp [rdFrag, h, fragOfObj, groupObj]

theorem rdFrag_value (H : List Obj) (a : Nat) (v : VNode) (h : rdValue H a = some v) : rdFrag H a = some (.value v) := by
  unfold rdValue at h
  unfold rdFrag
  cases hl : lget H a with
  | none => simp [hl] at h
  | some o =>
    rw [hl] at h
    simp only [Option.bind_some] at h ⊢
    have ht := valueOfObj_ty o v h
    simp [fragOfObj, ht, h]

/-! ## The representation invariant -/

/-- Object 1 is the lexer for `s`, its channel is channel 0. -/
def LexRep (H : List Obj) (s : Bytes) : Prop := ∃ pos start, lget H 1 = some (lexObj s pos start 0)

/-- Object 0 is the tree; its prefix and fragments read as `mp`, `mf`; the pending group `gv` is not
(yet) one of the fragments. -/
def TreeRep (H : List Obj) (gv : Val PVal) (mp : Option Bytes) (mf : List Frag) : Prop :=
  ∃ pv fv fs, lget H 0 = some (treeObj pv fv) ∧ FragsVal fv fs ∧ rdPrefix H pv = some mp ∧
    rdFrags H fs = some mf ∧ (∀ g, gv = .ext (.ptr g) → some g ∉ fs)

/-- The variable `group` is nil, or points to a `GroupNode` whose values read as the model's. -/
def GroupRep (H : List Obj) (gv : Val PVal) (mg : Option (List VNode)) : Prop :=
  (gv = .nil ∧ mg = none) ∨
    (∃ g xs vs, gv = .ext (.ptr g) ∧ lget H g = some (groupObj (.ext (.slice xs))) ∧ rdValues H xs = some vs ∧
      mg = some vs)

/-- The variable `value` is nil, or points to a `ValueNode` that reads as the model's. -/
def ValueRep (H : List Obj) (vv : Val PVal) (mv : Option VNode) : Prop :=
  (vv = .nil ∧ mv = none) ∨ (∃ a v, vv = .ext (.ptr a) ∧ rdValue H a = some v ∧ mv = some v)

/-- Heap `H` and the local variables `group` (`gv`), `value` (`vv`) represent the model state `m`. -/
structure Rel (H : List Obj) (s : Bytes) (gv vv : Val PVal) (m : PState) : Prop where
  lex : LexRep H s
  tree : TreeRep H gv m.pfx m.frags
  group : GroupRep H gv m.group
  value : ValueRep H vv m.value

theorem rdTree_of_rel {H : List Obj} {s : Bytes} {gv vv : Val PVal} {m : PState} (h : Rel H s gv vv m) :
    rdTree H 0 = some ⟨m.pfx, m.frags⟩ := by
  obtain ⟨pv, fv, fs, h0, hfv, hp, hf, _⟩ := h.tree
  unfold rdTree
  rw [h0]
  rcases hfv with ⟨rfl, rfl⟩ | rfl
  · simp [treeObj, hp, sliceOf, hf]
  · simp [treeObj, hp, sliceOf, hf]

/-- Two addresses holding objects of different types are different. -/
theorem addr_ne (H : List Obj) (a b : Nat) (o o' : Obj) (ha : lget H a = some o) (hb : lget H b = some o')
    (h : o.1 ≠ o'.1) : a ≠ b := by
  intro e; subst e; rw [ha] at hb; cases hb; exact h rfl

/-! ### Allocation preserves every part -/

theorem LexRep.alloc {H : List Obj} {s : Bytes} (h : LexRep H s) (o : Obj) : LexRep (H ++ [o]) s := by
  obtain ⟨pos, start, hl⟩ := h
  exact ⟨pos, start, lget_append_left H 1 _ o hl⟩

theorem TreeRep.alloc {H : List Obj} {gv : Val PVal} {mp : Option Bytes} {mf : List Frag}
    (h : TreeRep H gv mp mf) (o : Obj) : TreeRep (H ++ [o]) gv mp mf := by
  obtain ⟨pv, fv, fs, h0, hfv, hp, hf, hs⟩ := h
  exact ⟨pv, fv, fs, lget_append_left H 0 _ o h0, hfv, rdPrefix_append H o pv mp hp, rdFrags_append H o fs mf hf, hs⟩

theorem GroupRep.alloc {H : List Obj} {gv : Val PVal} {mg : Option (List VNode)}
    (h : GroupRep H gv mg) (o : Obj) : GroupRep (H ++ [o]) gv mg := by
  rcases h with h | ⟨g, xs, vs, e, hg, hv, hm⟩
  · exact Or.inl h
  · exact Or.inr ⟨g, xs, vs, e, lget_append_left H g _ o hg, rdValues_append H o xs vs hv, hm⟩

theorem ValueRep.alloc {H : List Obj} {vv : Val PVal} {mv : Option VNode}
    (h : ValueRep H vv mv) (o : Obj) : ValueRep (H ++ [o]) vv mv := by
  rcases h with h | ⟨a, v, e, hv, hm⟩
  · exact Or.inl h
  · exact Or.inr ⟨a, v, e, rdValue_append H o a v hv, hm⟩

/-! ### Update in place -/

theorem LexRep.upd {H H' : List Obj} {s : Bytes} {g : Nat} (h : LexRep H s) (U : Upd H H' g) (hg : g ≠ 1) :
    LexRep H' s := by
  obtain ⟨pos, start, hl⟩ := h
  exact ⟨pos, start, by rw [U.lget_ne 1 (fun e => hg e.symm)]; exact hl⟩

/-- An update elsewhere than at the tree, and not of a fragment, leaves the tree's reading alone. -/
theorem TreeRep.upd {H H' : List Obj} {gv : Val PVal} {mp : Option Bytes} {mf : List Frag} {g : Nat}
    (h : TreeRep H gv mp mf) (U : Upd H H' g) (hg0 : g ≠ 0) (hgv : gv = .ext (.ptr g)) : TreeRep H' gv mp mf := by
  obtain ⟨pv, fv, fs, h0, hfv, hp, hf, hs⟩ := h
  refine ⟨pv, fv, fs, ?_, hfv, ?_, ?_, hs⟩
  · rw [U.lget_ne 0 (fun e => hg0 e.symm)]; exact h0
  · rw [U.rdPrefix]; exact hp
  · rw [U.rdFrags fs (hs g hgv)]; exact hf

theorem GroupRep.upd {H H' : List Obj} {gv : Val PVal} {mg : Option (List VNode)} {g : Nat}
    (h : GroupRep H gv mg) (U : Upd H H' g) (hne : gv ≠ .ext (.ptr g)) : GroupRep H' gv mg := by
  rcases h with h | ⟨g', xs, vs, e, hg, hv, hm⟩
  · exact Or.inl h
  · refine Or.inr ⟨g', xs, vs, e, ?_, ?_, hm⟩
    · rw [U.lget_ne g' (fun e' => hne (by rw [e, e']))]; exact hg
    · rw [U.rdValues]; exact hv

theorem ValueRep.upd {H H' : List Obj} {vv : Val PVal} {mv : Option VNode} {g : Nat}
    (h : ValueRep H vv mv) (U : Upd H H' g) : ValueRep H' vv mv := by
  rcases h with h | ⟨a, v, e, hv, hm⟩
  · exact Or.inl h
  · exact Or.inr ⟨a, v, e, by rw [U.rdValue]; exact hv, hm⟩

end GoCrypt.SFlowVal2
