import GoCrypt.Proofs.TIIRCacheSteps
import GoCrypt.Props.C18Core
/-!
# Type-info IR with cache state: concurrent calls of `getTypeInfo`, interleaved at the cache operations

A system of threads (`Sys`): shared cache state and heap, one `Thr` per call in progress; a schedule (a list of
thread numbers) says whose next piece (`stepThr`, `Proofs/TIIRCacheSteps.lean`) runs.  `sys_run_inv`: the invariant
"the cache state represents a model cache all of whose entries are `typeInfoOf` of their key, and every thread's
frame is what its position says" survives every step of every thread, whatever the other threads did in
between.  Definitions and helper lemmas; results in `Props/TypeCacheIR.lean`.
-/

namespace GoCrypt.TIIR.Cache
open GoCrypt.Codec GoCrypt.Gen.typeinfoIR GoCrypt.TIIR GoCrypt.TypeCache

/-! ## The pieces, run symbolically for an arbitrary calling context -/

theorem extNC_store_hit (K : CacheSt) (typ : RType) (v a0 : Nat) (hf : K.find typ = some a0) :
    extNC .cacheLoadOrStore K [.global "typeCache", .rtype typ, .ptr v] = .ok (K, [.ptr a0, .bool true]) := by
  simp [extNC, typeCacheVar, hf]

section pieces
variable (cc : CtxC) (K : CacheSt) (h : Heap) (t typ : RType)

theorem pS0_run (h3 : cc.call 3 K h [.rtype t] = .ok (K, h, [.rtype typ])) :
    execC cc pS0 K h (frame0 t) = (K, .norm h [.rtype t, .rtype typ, .undef, .undef, .undef, .undef, .undef]) := by
  simp only [pS0, frame0, getTypeInfoIR, Stmt.head]
  ti_simp [execC_call, bindC_ok, h3]

theorem pA1_hit (a0 : Nat) (hf : K.find typ = some a0) :
    execC cc pA1 K h [.rtype t, .rtype typ, .undef, .undef, .undef, .undef, .undef] =
      (K, .norm h [.rtype t, .rtype typ, .ptr a0, .bool true, .undef, .undef, .undef]) := by
  simp only [pA1, getTypeInfoIR, Stmt.head, Stmt.drop]
  ti_simp [execC_extCall, bindC_ok, extNC_load_hit K typ a0 hf]

theorem pA1_miss (hf : K.find typ = none) :
    execC cc pA1 K h [.rtype t, .rtype typ, .undef, .undef, .undef, .undef, .undef] =
      (K, .norm h [.rtype t, .rtype typ, .nil, .bool false, .undef, .undef, .undef]) := by
  simp only [pA1, getTypeInfoIR, Stmt.head, Stmt.drop]
  ti_simp [execC_extCall, bindC_ok, extNC_load_miss K typ hf]

theorem cond_val (structs : List GoStruct) (v2 : Val) (b : Bool) (v4 v5 v6 : Val) :
    (eval structs h [.rtype t, .rtype typ, v2, .bool b, v4, v5, v6] pIf.iteCond >>= asBool) = .ok (!b) := by
  simp only [pIf, getTypeInfoIR, Stmt.head, Stmt.drop, Stmt.iteCond]
  ti_simp

section s1
variable (h1 : Heap) (a : Nat) (addrs : List Nat)
  (hraw : cc.call 2 K h [.rtype typ] = .ok (K, h1, [.ptr a]))
  (ha : h1[a]? = some (tiObj .nil typ .nil addrs 0))
include hraw ha

theorem pS1_ok (h2 : Heap)
    (hn : cc.call 1 K (h1.set a (tiObj (.rtype t) typ .nil addrs 0)) [.ptr a] = .ok (K, h2, [.nil])) :
    execC cc pS1 K h [.rtype t, .rtype typ, .nil, .bool false, .undef, .undef, .undef] =
      (K, .norm h2 [.rtype t, .rtype typ, .nil, .bool false, .ptr a, .nil, .undef]) := by
  have hset : (tiObj .nil typ .nil addrs 0).set 0 (.rtype t) = tiObj (.rtype t) typ .nil addrs 0 := rfl
  have hlen : 0 < (tiObj .nil typ .nil addrs 0).length := by simp [tiObj]
  simp only [pS1, pIf, getTypeInfoIR, Stmt.head, Stmt.drop, Stmt.iteThen, Stmt.take]
  ti_simp [execC_seq, execC_call, execC_ite, execC_skip, execC_assign, execC_ret, bindC_ok, andThenC_norm, pure_structs,
    hraw, ha, hset, hlen, hn]

theorem pS1_err (h2 : Heap) (v : Val)
    (hn : cc.call 1 K (h1.set a (tiObj (.rtype t) typ .nil addrs 0)) [.ptr a] = .ok (K, h2, [v]))
    (hv : isNilVal v = .ok false) :
    execC cc pS1 K h [.rtype t, .rtype typ, .nil, .bool false, .undef, .undef, .undef] = (K, .ret h2 [.nil, v]) := by
  have hset : (tiObj .nil typ .nil addrs 0).set 0 (.rtype t) = tiObj (.rtype t) typ .nil addrs 0 := rfl
  have hlen : 0 < (tiObj .nil typ .nil addrs 0).length := by simp [tiObj]
  cases v <;> (first | (simp [isNilVal] at hv; done) | skip)
  all_goals
    simp only [pS1, pIf, getTypeInfoIR, Stmt.head, Stmt.drop, Stmt.iteThen, Stmt.take]
    ti_simp [execC_seq, execC_call, execC_ite, execC_skip, execC_assign, execC_ret, bindC_ok, andThenC_norm, andThenC_ret,
      pure_structs, hraw, ha, hset, hlen, hn]

theorem pS1_stuck (why : String)
    (hn : cc.call 1 K (h1.set a (tiObj (.rtype t) typ .nil addrs 0)) [.ptr a] = .stuck why) :
    execC cc pS1 K h [.rtype t, .rtype typ, .nil, .bool false, .undef, .undef, .undef] = (K, .stuck why) := by
  have hset : (tiObj .nil typ .nil addrs 0).set 0 (.rtype t) = tiObj (.rtype t) typ .nil addrs 0 := rfl
  have hlen : 0 < (tiObj .nil typ .nil addrs 0).length := by simp [tiObj]
  simp only [pS1, pIf, getTypeInfoIR, Stmt.head, Stmt.drop, Stmt.iteThen, Stmt.take]
  ti_simp [execC_seq, execC_call, execC_ite, execC_skip, execC_assign, execC_ret, bindC_ok, bindC_stuck, andThenC_norm,
    andThenC_stuck, pure_structs, hraw, ha, hset, hlen, hn]

end s1

theorem pA2_miss (a : Nat) (hf : K.find typ = none) :
    execC cc pA2 K h [.rtype t, .rtype typ, .nil, .bool false, .ptr a, .nil, .undef] =
      (K ++ [(typ, a)], .norm h [.rtype t, .rtype typ, .ptr a, .bool false, .ptr a, .nil, .undef]) := by
  simp only [pA2, pIf, getTypeInfoIR, Stmt.head, Stmt.drop, Stmt.iteThen]
  ti_simp [execC_extCall, bindC_ok, extNC_store_miss K typ a hf]

/-- `LoadOrStore` finds an entry another call stored in the meantime: it is kept and returned. -/
theorem pA2_hit (a a0 : Nat) (hf : K.find typ = some a0) :
    execC cc pA2 K h [.rtype t, .rtype typ, .nil, .bool false, .ptr a, .nil, .undef] =
      (K, .norm h [.rtype t, .rtype typ, .ptr a0, .bool false, .ptr a, .nil, .undef]) := by
  simp only [pA2, pIf, getTypeInfoIR, Stmt.head, Stmt.drop, Stmt.iteThen]
  ti_simp [execC_extCall, bindC_ok, extNC_store_hit K typ a a0 hf]

theorem pS2_run (a0 : Nat) (o : Obj) (v3 v4 v5 : Val) (ho : h[a0]? = some o) (hol : 0 < o.length) :
    execC cc pS2 K h [.rtype t, .rtype typ, .ptr a0, v3, v4, v5, .undef] =
      (K, .ret (h ++ [o.set 0 (.rtype t)]) [.ptr h.length, .nil]) := by
  simp only [pS2, getTypeInfoIR, Stmt.drop]
  ti_simp [execC_seq, execC_assign, execC_ret, execC_copyObj, andThenC_norm, pure_structs, exec_copyObj, ho, hol]

end pieces

/-! ## Invariants -/

/-- The calling context inside a call of the program at depth `d + 1`. -/
def ccOf (w : World) (d : Nat) : CtxC :=
  { structs := w.structs, fuel := w.fuel, sort := w.sort, call := callInC program w d }

/-- The record at `a` represents `typeInfoOf` of the struct named `n`. -/
def Good (T : String → RType) (structs : List GoStruct) (h : Heap) (n : String) (a : Nat) : Prop :=
  ∃ ti, TiRep h a (T n) ti ∧ typeInfoOf structs n = .ok ti

/-- The values a finished call on `*…*T` returned are the cold-cache result: a record with `Struct` = the
argument type representing `typeInfoOf`, or `nil` and the model's error. -/
def DoneOK (T : String → RType) (structs : List GoStruct) (h : Heap) (n : String) (d : Nat) (vals : List Val) : Prop :=
  match typeInfoOf structs n with
  | .ok ti => ∃ a o, vals = [.ptr a, .nil] ∧ h[a]? = some o ∧ ResultRep h o (argType T n d) (T n) ti
  | .error e => ∃ v, vals = [.nil, v] ∧ absErr h v = some e

/-- What the frame of a call on `arg` in progress looks like at each position (`B`: whether `stuck` — the
rejection of a `sort.Slice` proposal — is possible at all). -/
def ThrInv (B : Prop) (T : String → RType) (structs : List GoStruct) (h : Heap) (arg : ArgType) : Thr → Prop
  | .start t => t = argType T arg.key arg.ptrDepth
  | .s0 env => env = [.rtype (argType T arg.key arg.ptrDepth), .rtype (T arg.key), .undef, .undef, .undef, .undef, .undef]
  | .a1 env =>
    (∃ a0, env = [.rtype (argType T arg.key arg.ptrDepth), .rtype (T arg.key), .ptr a0, .bool true, .undef, .undef, .undef] ∧
      Good T structs h arg.key a0) ∨
    env = [.rtype (argType T arg.key arg.ptrDepth), .rtype (T arg.key), .nil, .bool false, .undef, .undef, .undef]
  | .s1 env => ∃ a, env = [.rtype (argType T arg.key arg.ptrDepth), .rtype (T arg.key), .nil, .bool false, .ptr a, .nil, .undef] ∧
      Good T structs h arg.key a
  | .a2 env => ∃ a0 v3 v4 v5, env = [.rtype (argType T arg.key arg.ptrDepth), .rtype (T arg.key), .ptr a0, v3, v4, v5, .undef] ∧
      Good T structs h arg.key a0
  | .done vals => DoneOK T structs h arg.key arg.ptrDepth vals
  | .bad o => B ∧ ∃ why, o = .stuck why

theorem Good_append {T : String → RType} {structs : List GoStruct} {h : Heap} {n : String} {a : Nat} (ext : List Obj)
    (hg : Good T structs h n a) : Good T structs (h ++ ext) n a := by
  obtain ⟨ti, h1, h2⟩ := hg
  exact ⟨ti, TiRep_append ext h1, h2⟩

theorem absErr_errNew (h h' : Heap) (p : List MsgPart) : absErr h (.errNew p) = absErr h' (.errNew p) := by
  unfold absErr
  split <;> first | rfl | simp_all

theorem absErr_append {h : Heap} {v : Val} {e : TagErr} (ext : List Obj) (he : absErr h v = some e) :
    absErr (h ++ ext) v = some e := by
  cases v with
  | ptr a =>
    simp only [absErr] at he ⊢
    cases hh : h[a]? with
    | none => simp [hh] at he
    | some o =>
      have hlt := Norm.lt_of_get hh
      rw [List.getElem?_append_left hlt, hh]
      rw [hh] at he
      exact he
  | errNew p => rw [absErr_errNew (h ++ ext) h p]; exact he
  | _ => simp [absErr] at he

theorem DoneOK_append {T : String → RType} {structs : List GoStruct} {h : Heap} {n : String} {d : Nat} {vals : List Val}
    (ext : List Obj) (hd : DoneOK T structs h n d vals) : DoneOK T structs (h ++ ext) n d vals := by
  unfold DoneOK at hd ⊢
  cases hc : typeInfoOf structs n with
  | ok ti =>
    rw [hc] at hd
    obtain ⟨a, o, hv, ho, hp, addrs, rfl, hro, hre⟩ := hd
    refine ⟨a, _, hv, ?_, hp, addrs, rfl, RepOpt_append ext hro, Top.Reps_append ext hre⟩
    rw [List.getElem?_append_left (Norm.lt_of_get ho)]; exact ho
  | error e =>
    rw [hc] at hd
    obtain ⟨v, hv, he⟩ := hd
    exact ⟨v, hv, absErr_append ext he⟩

theorem ThrInv_append {B : Prop} {T : String → RType} {structs : List GoStruct} {h : Heap} {arg : ArgType} (ext : List Obj) :
    ∀ {th : Thr}, ThrInv B T structs h arg th → ThrInv B T structs (h ++ ext) arg th
  | .start _, hi => hi
  | .s0 _, hi => hi
  | .a1 _, hi => hi.imp (fun ⟨a0, h1, h2⟩ => ⟨a0, h1, Good_append ext h2⟩) id
  | .s1 _, ⟨a, h1, h2⟩ => ⟨a, h1, Good_append ext h2⟩
  | .a2 _, ⟨a0, v3, v4, v5, h1, h2⟩ => ⟨a0, v3, v4, v5, h1, Good_append ext h2⟩
  | .done _, hi => DoneOK_append ext hi
  | .bad _, hi => hi

theorem cacheOK_snoc {compute : TypeKey → Except TagErr TypeInfo} {c : Cache} {n : TypeKey} {ti : TypeInfo}
    (hok : CacheOK compute c) (hl : c.load n = none) (hc : compute n = .ok ti) : CacheOK compute (c ++ [(n, ti)]) := by
  intro k ti' hk
  rw [C18.load_append_miss c n k ti hl] at hk
  by_cases hkk : k = n
  · subst hkk; simp at hk; subst hk; exact hc
  · simp [hkk] at hk; exact hok k ti' hk

/-! ## The local piece `pS1` (miss: compute and normalize) -/

theorem s1_spec (B : Prop) (hrawS : RawSpec) (w : World) (hnormC : NormCallsF B w) (T : String → RType) (hT : KeyFn T)
    (hw : WorldOk w) (d' : Nat) (hd' : 15 < d') (K : CacheSt) (h : Heap) (n : String) (d : Nat) (hdom : InDomain w ⟨n, d⟩) :
    (B ∧ ∃ why, execC (ccOf w (d' + 2)) pS1 K h
        [.rtype (argType T n d), .rtype (T n), .nil, .bool false, .undef, .undef, .undef] = (K, .stuck why)) ∨
    match typeInfoOf w.structs n with
    | .ok out => ∃ ext a, execC (ccOf w (d' + 2)) pS1 K h
          [.rtype (argType T n d), .rtype (T n), .nil, .bool false, .undef, .undef, .undef] =
        (K, .norm (h ++ ext) [.rtype (argType T n d), .rtype (T n), .nil, .bool false, .ptr a, .nil, .undef]) ∧
        TiRep (h ++ ext) a (T n) out
    | .error e => ∃ ext v, execC (ccOf w (d' + 2)) pS1 K h
          [.rtype (argType T n d), .rtype (T n), .nil, .bool false, .undef, .undef, .undef] =
        (K, .ret (h ++ ext) [.nil, v]) ∧ absErr (h ++ ext) v = some e := by
  obtain ⟨_, s, hl, hfit, hlen⟩ := hdom
  let t : RType := argType T n d
  let typ : RType := T n
  let cc : CtxC := ccOf w (d' + 2)
  let raw := rawFields w.structs 8 s
  have hcompute : typeInfoOf w.structs n = normalizeLoop raw raw {} [] := by
    simp only [typeInfoOf, hl, raw]
  obtain ⟨ext, a, addrs, hr, ha, hage, hreps, _, hfresh⟩ :=
    hrawS w 8 (d' + 2) h typ n s (hT n).1 (hT n).2 hl hfit (by omega) hw.sz hlen
  have hraw : cc.call 2 K h [.rtype typ] = .ok (K, h ++ ext, [.ptr a]) := by
    show callInC program w (d' + 2) 2 K h [.rtype typ] = _
    rw [callInC_pure w (d' + 2) 2 (by omega), hr, liftRes_ok]
  let h1 := (h ++ ext).set a (tiObj (.rtype t) typ .nil addrs 0)
  have halt : a < (h ++ ext).length := Norm.lt_of_get ha
  have ha1 : h1[a]? = some (tiObj (.rtype t) typ .nil addrs 0) := by
    simp only [h1]; rw [List.getElem?_set_self halt]
  have hreps1 : Reps h1 addrs raw := Top.Reps_set_ti _ ha hreps
  have htags : TagsOk w.structs typ raw := Top.tagsOk_rawFields hw.emb 8 typ n s (hT n).1 (hT n).2 hl
  have hidx : ∀ fi ∈ raw, fi.index.length < w.fuel := fun fi hfi => by
    have := (Top.rawFields_index_ne_nil hfi).2; have := hw.h8; omega
  have hn := hnormC d' h1 a t typ addrs raw ha1 hreps1 htags hlen hidx
  have hcall1 : cc.call 1 K h1 [.ptr a] = liftRes K (callIn program w (d' + 2) 1 h1 [.ptr a]) := by
    show callInC program w (d' + 2) 1 K h1 [.ptr a] = _
    rw [callInC_pure w (d' + 2) 1 (by omega)]
  have hext : ∀ o', h1.set a o' = h ++ ext.set (a - h.length) o' := by
    intro o'
    simp only [h1, List.set_set]
    exact List.set_append_right a o' hage
  rcases hn with ⟨hB, hst⟩ | hpost
  · left
    refine ⟨hB, ?_⟩
    cases hres : callIn program w (d' + 2) 1 h1 [.ptr a] with
    | stuck why =>
      rw [hres] at hcall1
      exact ⟨why, pS1_stuck cc K h t typ (h ++ ext) a addrs hraw ha why hcall1⟩
    | ok x => rw [hres] at hst; exact hst.elim
    | panic => rw [hres] at hst; exact hst.elim
  · right
    unfold NormF.NormPostF at hpost
    rw [hcompute]
    cases hm : normalizeLoop raw raw {} [] with
    | ok out =>
      rw [hm] at hpost
      simp only at hpost ⊢
      obtain ⟨hp, outAddrs, hres, hrep1, hrepsOut, _, _⟩ := hpost
      rw [hres, liftRes_ok] at hcall1
      let o := tiObj (.rtype t) typ hp outAddrs out.numReqValues
      let h2 := h1.set a o
      have hget : h2[a]? = some o := by
        simp only [h2]
        rw [List.getElem?_set_self (by simp only [h1, List.length_set]; exact halt)]
      have hmono : ∀ (x : Nat) (fi : FieldInfo), h1[x]? = some (fiObj fi) → h2[x]? = some (fiObj fi) := by
        intro x fi hx
        have hne : a ≠ x := by
          intro e; subst e; rw [ha1] at hx
          exact Top.fiObj_ne_tiObj fi _ _ _ _ _ (Option.some.inj hx).symm
        simp only [h2]
        rw [List.getElem?_set_ne hne]
        exact hx
      have hro2 : RepOpt h2 hp out.hashPrefix := Top.RepOpt_mono hmono hrep1
      have hre2 : Reps h2 outAddrs out.fields := by
        refine Top.Reps_mono (fun x hx => ?_) hrepsOut
        obtain ⟨fi, _, hfx⟩ := Top.Reps_mem hrepsOut x hx
        rw [hmono x fi hfx, hfx]
      have h2e : h2 = h ++ ext.set (a - h.length) o := hext o
      refine ⟨ext.set (a - h.length) o, a, ?_, ?_⟩
      · rw [← h2e]
        exact pS1_ok cc K h t typ (h ++ ext) a addrs hraw ha h2 hcall1
      · rw [← h2e]
        exact ⟨_, hp, outAddrs, hget, hro2, hre2⟩
    | error e =>
      rw [hm] at hpost
      simp only at hpost ⊢
      obtain ⟨o', ext2, v, hres, herr⟩ := hpost
      rw [hres, liftRes_ok] at hcall1
      have he : h1.set a o' ++ ext2 = h ++ (ext.set (a - h.length) o' ++ ext2) := by
        rw [hext o', List.append_assoc]
      refine ⟨ext.set (a - h.length) o' ++ ext2, v, ?_, ?_⟩
      · rw [← he]
        exact pS1_err cc K h t typ (h ++ ext) a addrs hraw ha _ v hcall1 (Top.isNilVal_of_absErr herr)
      · rw [← he]; exact herr

/-! ## One step of one thread -/

/-- One step of a thread whose frame satisfies the invariant, from a shared state that represents a model
cache with valid entries: the shared heap only grows, the new shared state again represents such a cache,
and the thread's new frame satisfies the invariant. -/
theorem step_spec (B : Prop) (hrawS : RawSpec) (w : World) (hnormC : NormCallsF B w) (T : String → RType) (hT : KeyFn T)
    (hw : WorldOk w) (d' : Nat) (hd' : 15 < d') (K : CacheSt) (h : Heap) (c : Cache) (arg : ArgType)
    (hdom : InDomain w arg) (hrep : CacheRep T h K c) (hok : CacheOK (typeInfoOf w.structs) c) (th : Thr)
    (hinv : ThrInv B T w.structs h arg th) :
    ∃ K' ext th' c', stepThr (ccOf w (d' + 2)) K h th = (K', h ++ ext, th') ∧ CacheRep T (h ++ ext) K' c' ∧
      CacheOK (typeInfoOf w.structs) c' ∧ ThrInv B T w.structs (h ++ ext) arg th' := by
  obtain ⟨n, d⟩ := arg
  have hfind := CacheRep_find hT n hrep
  have hnil : h ++ [] = h := List.append_nil h
  cases th with
  | start t0 =>
    simp only [ThrInv] at hinv
    subst hinv
    have h3 : (ccOf w (d' + 2)).call 3 K h [.rtype (argType T n d)] = .ok (K, h, [.rtype (T n)]) := by
      show callInC program w (d' + 2) 3 K h [.rtype (argType T n d)] = _
      have hi : callIn program w (d' + 2) 3 h [.rtype (argType T n d)] =
          .ok (h, [.rtype { argType T n d with depth := 0 }]) := indirectSpec_callIn w (d' + 1) h _ hdom.1
      rw [callInC_pure w (d' + 2) 3 (by omega), hi, liftRes_ok, argType_indirect hT n d]
    refine ⟨K, [], .s0 [.rtype (argType T n d), .rtype (T n), .undef, .undef, .undef, .undef, .undef], c, ?_, by rw [hnil]; exact hrep, hok, ?_⟩
    · simp only [stepThr, pS0_run _ K h _ _ h3, hnil]
    · simp only [ThrInv]
  | s0 env =>
    simp only [ThrInv] at hinv
    subst hinv
    cases hload : c.load n with
    | some ti =>
      rw [hload] at hfind
      obtain ⟨a0, hf, hti⟩ := hfind
      refine ⟨K, [], .a1 [.rtype (argType T n d), .rtype (T n), .ptr a0, .bool true, .undef, .undef, .undef], c, ?_, by rw [hnil]; exact hrep, hok, ?_⟩
      · simp only [stepThr, pA1_hit _ K h _ _ a0 hf, hnil]
      · simp only [ThrInv, hnil]
        exact Or.inl ⟨a0, rfl, ti, hti, hok n ti hload⟩
    | none =>
      rw [hload] at hfind
      refine ⟨K, [], .a1 [.rtype (argType T n d), .rtype (T n), .nil, .bool false, .undef, .undef, .undef], c, ?_, by rw [hnil]; exact hrep, hok, ?_⟩
      · simp only [stepThr, pA1_miss _ K h _ _ hfind, hnil]
      · simp [ThrInv]
  | a1 env =>
    simp only [ThrInv] at hinv
    rcases hinv with ⟨a0, rfl, hg⟩ | rfl
    · refine ⟨K, [], .a2 [.rtype (argType T n d), .rtype (T n), .ptr a0, .bool true, .undef, .undef, .undef], c, ?_, by rw [hnil]; exact hrep, hok, ?_⟩
      · simp only [stepThr, cond_val, Bool.not_true, hnil]
      · simp only [ThrInv, hnil]
        exact ⟨a0, _, _, _, rfl, hg⟩
    · rcases s1_spec B hrawS w hnormC T hT hw d' hd' K h n d hdom with ⟨hB, why, hst⟩ | hpost
      · refine ⟨K, [], .bad (.stuck why), c, ?_, by rw [hnil]; exact hrep, hok, ?_⟩
        · simp only [stepThr, cond_val, Bool.not_false, hst, hnil]
        · exact ⟨hB, why, rfl⟩
      · cases hc : typeInfoOf w.structs n with
        | ok out =>
          rw [hc] at hpost
          obtain ⟨ext, a, hrun, hti⟩ := hpost
          refine ⟨K, ext, .s1 [.rtype (argType T n d), .rtype (T n), .nil, .bool false, .ptr a, .nil, .undef], c, ?_, CacheRep_append ext hrep, hok, ?_⟩
          · simp only [stepThr, cond_val, Bool.not_false, hrun]
          · exact ⟨a, rfl, out, hti, hc⟩
        | error e =>
          rw [hc] at hpost
          obtain ⟨ext, v, hrun, herr⟩ := hpost
          refine ⟨K, ext, .done [.nil, v], c, ?_, CacheRep_append ext hrep, hok, ?_⟩
          · simp only [stepThr, cond_val, Bool.not_false, hrun]
          · simp only [ThrInv, DoneOK, hc]
            exact ⟨v, rfl, herr⟩
  | s1 env =>
    simp only [ThrInv] at hinv
    obtain ⟨a, rfl, out, hti, hc⟩ := hinv
    cases hload : c.load n with
    | some ti =>
      rw [hload] at hfind
      obtain ⟨a0, hf, hti0⟩ := hfind
      refine ⟨K, [], .a2 [.rtype (argType T n d), .rtype (T n), .ptr a0, .bool false, .ptr a, .nil, .undef], c, ?_, by rw [hnil]; exact hrep, hok, ?_⟩
      · simp only [stepThr, pA2_hit _ K h _ _ a a0 hf, hnil]
      · simp only [ThrInv, hnil]
        exact ⟨a0, _, _, _, rfl, ti, hti0, hok n ti hload⟩
    | none =>
      rw [hload] at hfind
      refine ⟨K ++ [(T n, a)], [], .a2 [.rtype (argType T n d), .rtype (T n), .ptr a, .bool false, .ptr a, .nil, .undef], c ++ [(n, out)], ?_, by rw [hnil]; exact CacheRep_snoc hti hrep,
        cacheOK_snoc hok hload hc, ?_⟩
      · simp only [stepThr, pA2_miss _ K h _ _ a hfind, hnil]
      · simp only [ThrInv, hnil]
        exact ⟨a, _, _, _, rfl, out, hti, hc⟩
  | a2 env =>
    simp only [ThrInv] at hinv
    obtain ⟨a0, v3, v4, v5, rfl, ti, ⟨st, hp, addrs, ha0, hro, hre⟩, hc⟩ := hinv
    refine ⟨K, [tiObj (.rtype (argType T n d)) (T n) hp addrs ti.numReqValues], .done [.ptr h.length, .nil], c, ?_, CacheRep_append _ hrep, hok, ?_⟩
    · simp only [stepThr, pS2_run _ K h _ _ a0 _ v3 v4 v5 ha0 (by simp [tiObj]), tiObj_set0]
    · simp only [ThrInv, DoneOK, hc]
      exact ⟨h.length, _, rfl, by simp, hp, addrs, rfl, RepOpt_append _ hro, Top.Reps_append _ hre⟩
  | done vals =>
    exact ⟨K, [], .done vals, c, by simp only [stepThr, hnil], by rw [hnil]; exact hrep, hok, by rw [hnil]; exact hinv⟩
  | bad o =>
    exact ⟨K, [], .bad o, c, by simp only [stepThr, hnil], by rw [hnil]; exact hrep, hok, by rw [hnil]; exact hinv⟩

/-! ## Systems of threads and schedules -/

/-- Shared cache state and heap, and the calls in progress. -/
structure Sys where
  K : CacheSt
  h : Heap
  thr : List Thr

/-- Thread number `i` runs its next piece (nothing happens when there is no such thread). -/
def Sys.step (cc : CtxC) (s : Sys) (i : Nat) : Sys :=
  match s.thr[i]? with
  | some th =>
    match stepThr cc s.K s.h th with
    | (K', h', th') => ⟨K', h', s.thr.set i th'⟩
  | none => s

/-- Run a schedule: the list says which thread moves next. -/
def Sys.run (cc : CtxC) (s : Sys) (sched : List Nat) : Sys := sched.foldl (Sys.step cc) s

/-- The invariant of the system: the shared state represents a model cache all of whose entries are
`typeInfoOf` of their key, and every thread's frame is what its position says (`args[i]` is the argument of
thread `i`). -/
def SysInv (B : Prop) (T : String → RType) (structs : List GoStruct) (args : List ArgType) (s : Sys) : Prop :=
  ∃ c, CacheRep T s.h s.K c ∧ CacheOK (typeInfoOf structs) c ∧ s.thr.length = args.length ∧
    ∀ (i : Nat) (a : ArgType) (th : Thr), args[i]? = some a → s.thr[i]? = some th → ThrInv B T structs s.h a th

theorem sys_step_inv (B : Prop) (hrawS : RawSpec) (w : World) (hnormC : NormCallsF B w) (T : String → RType) (hT : KeyFn T)
    (hw : WorldOk w) (d' : Nat) (hd' : 15 < d') (args : List ArgType) (hdom : ∀ a ∈ args, InDomain w a)
    (s : Sys) (hinv : SysInv B T w.structs args s) (i : Nat) :
    SysInv B T w.structs args (s.step (ccOf w (d' + 2)) i) := by
  obtain ⟨c, hrep, hok, hlen, hall⟩ := hinv
  unfold Sys.step
  cases hi : s.thr[i]? with
  | none => exact ⟨c, hrep, hok, hlen, hall⟩
  | some th =>
    have hilt : i < s.thr.length := by
      rcases Nat.lt_or_ge i s.thr.length with hlt | hge
      · exact hlt
      · rw [List.getElem?_eq_none hge] at hi; cases hi
    obtain ⟨arg, harg⟩ : ∃ arg, args[i]? = some arg := ⟨_, List.getElem?_eq_getElem (by omega)⟩
    have hthr := hall i arg th harg hi
    have hargdom : InDomain w arg := hdom arg (List.mem_of_getElem? harg)
    obtain ⟨K', ext, th', c', hstep, hrep', hok', hthr'⟩ :=
      step_spec B hrawS w hnormC T hT hw d' hd' s.K s.h c arg hargdom hrep hok th hthr
    simp only [hstep]
    refine ⟨c', hrep', hok', by simp [hlen], ?_⟩
    intro j a thj haj hj
    by_cases hij : i = j
    · subst hij
      rw [List.getElem?_set_self hilt] at hj
      injection hj with hj
      rw [harg] at haj
      injection haj with haj
      subst hj haj
      exact hthr'
    · rw [List.getElem?_set_ne hij] at hj
      exact ThrInv_append ext (hall j a thj haj hj)

theorem sys_run_inv (B : Prop) (hrawS : RawSpec) (w : World) (hnormC : NormCallsF B w) (T : String → RType) (hT : KeyFn T)
    (hw : WorldOk w) (d' : Nat) (hd' : 15 < d') (args : List ArgType) (hdom : ∀ a ∈ args, InDomain w a)
    (sched : List Nat) : ∀ (s : Sys), SysInv B T w.structs args s →
      SysInv B T w.structs args (s.run (ccOf w (d' + 2)) sched) := by
  induction sched with
  | nil => intro s hs; exact hs
  | cons i rest ih =>
    intro s hs
    exact ih _ (sys_step_inv B hrawS w hnormC T hT hw d' hd' args hdom s hs i)

/-- Number of pieces a thread still has to run (at most). -/
def Thr.remaining : Thr → Nat
  | .start _ => 5
  | .s0 _ => 4
  | .a1 _ => 3
  | .s1 _ => 2
  | .a2 _ => 1
  | .done _ => 0
  | .bad _ => 0

/-- Every step of an unfinished thread brings it closer to its end: a thread that is scheduled five times has
returned (or is `bad`). -/
theorem stepThr_remaining (cc : CtxC) (K : CacheSt) (h : Heap) (th : Thr) :
    (stepThr cc K h th).2.2.remaining < th.remaining ∨ th.remaining = 0 := by
  cases th with
  | start t =>
    left; simp only [stepThr]
    rcases execC cc pS0 K h (frame0 t) with ⟨K', o⟩
    cases o <;> simp [Thr.remaining]
  | s0 env =>
    left; simp only [stepThr]
    rcases execC cc pA1 K h env with ⟨K', o⟩
    cases o <;> simp [Thr.remaining]
  | a1 env =>
    left; simp only [stepThr]
    cases eval cc.structs h env pIf.iteCond >>= asBool with
    | panic => simp [Thr.remaining]
    | stuck w => simp [Thr.remaining]
    | ok b =>
      cases b with
      | false => simp [Thr.remaining]
      | true =>
        simp only
        rcases execC cc pS1 K h env with ⟨K', o⟩
        cases o <;> simp [Thr.remaining]
  | s1 env =>
    left; simp only [stepThr]
    rcases execC cc pA2 K h env with ⟨K', o⟩
    cases o <;> simp [Thr.remaining]
  | a2 env =>
    left; simp only [stepThr]
    rcases execC cc pS2 K h env with ⟨K', o⟩
    cases o <;> simp [Thr.remaining]
  | done vals => right; rfl
  | bad o => right; rfl

theorem stepThr_of_remaining_zero (cc : CtxC) (K : CacheSt) (h : Heap) (th : Thr) (h0 : th.remaining = 0) :
    stepThr cc K h th = (K, h, th) := by
  cases th <;> simp [Thr.remaining] at h0 <;> rfl

/-- A thread that was scheduled `k` times has at most `5 - k` pieces left, whatever the others did. -/
theorem run_remaining (cc : CtxC) (sched : List Nat) : ∀ (s : Sys) (i : Nat) (th0 : Thr), s.thr[i]? = some th0 →
    ∃ th, (s.run cc sched).thr[i]? = some th ∧ th.remaining ≤ th0.remaining - sched.count i := by
  induction sched with
  | nil => intro s i th0 h0; exact ⟨th0, h0, by simp⟩
  | cons j rest ih =>
    intro s i th0 h0
    show ∃ th, ((s.step cc j).run cc rest).thr[i]? = some th ∧ _
    by_cases hji : j = i
    · subst hji
      have hlt : j < s.thr.length := by
        rcases Nat.lt_or_ge j s.thr.length with hlt | hge
        · exact hlt
        · rw [List.getElem?_eq_none hge] at h0; cases h0
      have hstep : (s.step cc j).thr[j]? = some (stepThr cc s.K s.h th0).2.2 := by
        simp only [Sys.step, h0]
        rw [List.getElem?_set_self hlt]
      obtain ⟨th, hth, hle⟩ := ih (s.step cc j) j _ hstep
      refine ⟨th, hth, ?_⟩
      rw [List.count_cons_self]
      rcases stepThr_remaining cc s.K s.h th0 with hlt' | hz
      · omega
      · rw [stepThr_of_remaining_zero cc s.K s.h th0 hz] at hle
        simp only at hle
        omega
    · have hstep : (s.step cc j).thr[i]? = some th0 := by
        simp only [Sys.step]
        cases hj : s.thr[j]? with
        | none => exact h0
        | some thj =>
          simp only
          rw [List.getElem?_set_ne hji]; exact h0
      obtain ⟨th, hth, hle⟩ := ih (s.step cc j) i th0 hstep
      refine ⟨th, hth, ?_⟩
      rw [List.count_cons_of_ne hji]
      exact hle

theorem remaining_zero_cases (th : Thr) (h0 : th.remaining = 0) : (∃ vals, th = .done vals) ∨ ∃ o, th = .bad o := by
  cases th <;> simp [Thr.remaining] at h0
  · exact Or.inl ⟨_, rfl⟩
  · exact Or.inr ⟨_, rfl⟩

/-- The initial system: every call about to start. -/
def Sys.init (T : String → RType) (K : CacheSt) (h : Heap) (args : List ArgType) : Sys :=
  ⟨K, h, args.map fun a => .start (argType T a.key a.ptrDepth)⟩

theorem sysInv_init (B : Prop) (T : String → RType) (structs : List GoStruct) (K : CacheSt) (h : Heap) (c : Cache)
    (args : List ArgType) (hrep : CacheRep T h K c) (hok : CacheOK (typeInfoOf structs) c) :
    SysInv B T structs args (Sys.init T K h args) := by
  refine ⟨c, hrep, hok, by simp [Sys.init], ?_⟩
  intro i a th ha hth
  simp only [Sys.init, List.getElem?_map, ha, Option.map_some] at hth
  injection hth with hth
  subst hth
  rfl


end GoCrypt.TIIR.Cache
