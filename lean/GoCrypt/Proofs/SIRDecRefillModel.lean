import GoCrypt.Proofs.SIRDecNfrLoop

/-!
# Stream IR, decoder side: facts about the model's reader and refill loop

The reads do not touch the decoder's own fields; a reader that will eventually report an error (`Live`)
makes progress with every read. Helper lemmas only.
-/

namespace GoCrypt.SIR
open GoCrypt.Base64LE GoCrypt.Stream

/-- The scripted reader will report an error at some point: it has a sticky error, or one of the remaining script
entries carries one. (Without this a Go reader that returns `(0, nil)` for ever makes `decoder.Read` spin.) -/
def Live (st : DecSt) : Prop := st.sticky.isSome ∨ ∃ r ∈ st.script, r.err.isSome

theorem rawRead_fields (st : DecSt) (want : Nat) :
    (st.rawRead want).1.err = st.err ∧ (st.rawRead want).1.readErr = st.readErr ∧ (st.rawRead want).1.buf = st.buf ∧
    (st.rawRead want).1.out = st.out := by
  unfold DecSt.rawRead
  cases st.script with
  | nil => exact ⟨rfl, rfl, rfl, rfl⟩
  | cons r rest => simp only; split <;> exact ⟨rfl, rfl, rfl, rfl⟩

theorem filteredRead_fields (st : DecSt) (want F : Nat) :
    (st.filteredRead want F).1.err = st.err ∧ (st.filteredRead want F).1.readErr = st.readErr ∧
    (st.filteredRead want F).1.buf = st.buf ∧ (st.filteredRead want F).1.out = st.out := by
  induction F generalizing st with
  | zero => exact ⟨rfl, rfl, rfl, rfl⟩
  | succ F ih =>
    have hr := rawRead_fields st want
    rw [filteredRead_succ, filtCont]
    split
    · split
      · exact hr
      · have := ih (st.rawRead want).1
        exact ⟨this.1.trans hr.1, this.2.1.trans hr.2.1, this.2.2.1.trans hr.2.2.1, this.2.2.2.trans hr.2.2.2⟩
    · exact hr

theorem rawRead_live (st : DecSt) (want : Nat) (h : Live st) : Live (st.rawRead want).1 := by
  unfold DecSt.rawRead
  cases hs : st.script with
  | nil =>
    rcases h with h | ⟨r, hr, _⟩
    · exact Or.inl h
    · rw [hs] at hr; cases hr
  | cons r rest =>
    simp only
    split
    · rcases h with h | ⟨r', hr', he⟩
      · left; show (if r.err.isSome then r.err else st.sticky).isSome
        split <;> assumption
      · rw [hs] at hr'
        rcases List.mem_cons.mp hr' with rfl | hm
        · left; show (if r'.err.isSome then r'.err else st.sticky).isSome
          rw [if_pos he]; exact he
        · right; exact ⟨r', hm, he⟩
    · rcases h with h | ⟨r', hr', he⟩
      · exact Or.inl h
      · rw [hs] at hr'
        rcases List.mem_cons.mp hr' with rfl | hm
        · right; exact ⟨_, List.mem_cons_self, he⟩
        · right; exact ⟨r', List.mem_cons_of_mem _ hm, he⟩

/-- A live reader asked for at least one byte reports an error or consumes part of its script. -/
theorem rawRead_progress (st : DecSt) (want : Nat) (h : Live st) (hw : 0 < want) :
    (st.rawRead want).2.2.isSome ∨ (st.rawRead want).1.pending < st.pending := by
  by_cases hs : st.script = []
  · left
    rcases h with h | ⟨r, hr, _⟩
    · unfold DecSt.rawRead; rw [hs]; exact h
    · rw [hs] at hr; cases hr
  · exact Or.inr (rawRead_pending_lt st want hs hw)

theorem filteredRead_live (st : DecSt) (want F : Nat) (h : Live st) : Live (st.filteredRead want F).1 := by
  induction F generalizing st with
  | zero => exact h
  | succ F ih =>
    have hr := rawRead_live st want h
    rw [filteredRead_succ, filtCont]
    split
    · split
      · exact hr
      · exact ih _ hr
    · exact hr

theorem filteredRead_pending_le (st : DecSt) (want F : Nat) : (st.filteredRead want F).1.pending ≤ st.pending := by
  induction F generalizing st with
  | zero => exact Nat.le_refl _
  | succ F ih =>
    have hr := rawRead_pending_le st want
    rw [filteredRead_succ, filtCont]
    split
    · split
      · exact hr
      · exact Nat.le_trans (ih _) hr
    · exact hr

theorem filteredRead_progress (st : DecSt) (want F : Nat) (h : Live st) (hw : 0 < want) (hF : st.pending + 1 ≤ F) :
    (st.filteredRead want F).2.2.isSome ∨ (st.filteredRead want F).1.pending < st.pending := by
  induction F generalizing st with
  | zero => omega
  | succ F ih =>
    have hr := rawRead_pending_le st want
    have hp := rawRead_progress st want h hw
    rw [filteredRead_succ, filtCont]
    split
    · rename_i hd
      have hlt := rawRead_pending_lt_of_data st want hd
      split
      · exact Or.inr hlt
      · rcases ih _ (rawRead_live st want h) (by omega) with h1 | h1
        · exact Or.inl h1
        · exact Or.inr (by omega)
    · exact hp

/-! ## The refill loop, one read at a time -/

/-- `nn` of the refill loop: `len(p)/3*4`, at least 4, at most `len(d.buf)`. -/
def refillNN (plen : Nat) : Nat :=
  let nn := plen / 3 * 4
  let nn := if nn < 4 then 4 else nn
  if nn > 1024 then 1024 else nn

theorem refillNN_bounds (plen : Nat) : 4 ≤ refillNN plen ∧ refillNN plen ≤ 1024 := by
  unfold refillNN; simp only; split <;> split <;> omega

/-- One iteration of the refill loop. -/
def refillStep (st : DecSt) (plen : Nat) : DecSt :=
  let r := st.filteredRead (refillNN plen - st.buf.length) (st.pending + 2)
  { r.1 with buf := r.1.buf ++ r.2.1, readErr := r.2.2 }

theorem refill_succ (st : DecSt) (plen F : Nat) :
    st.refill plen (F + 1) = if st.buf.length < 4 ∧ st.readErr.isNone then (refillStep st plen).refill plen F else st := by
  rfl

theorem refill_done (st : DecSt) (plen F : Nat) (h : ¬ (st.buf.length < 4 ∧ st.readErr.isNone)) : st.refill plen F = st := by
  cases F with
  | zero => rfl
  | succ F => rw [refill_succ, if_neg h]

end GoCrypt.SIR
