import GoCrypt.Base.Strconv

/-!
# `strconv` round trips: `Parse*(Format*(n)) = n`

Helper lemmas for `Props/C10`.
-/

deriving instance DecidableEq for Except

namespace GoCrypt.Strconv

/-! ## digit characters -/

theorem digitVal_digitChar : ∀ d, d < 36 → digitVal (digitChar d) = some d := by
  decide +kernel

/-- A digit character is one of `0-9a-z`. -/
theorem digitChar_range : ∀ d, d < 36 →
    (48 ≤ (digitChar d).toNat ∧ (digitChar d).toNat ≤ 57) ∨
    (97 ≤ (digitChar d).toNat ∧ (digitChar d).toNat ≤ 122) := by
  decide +kernel

theorem digitChar_ne (d : Nat) (hd : d < 36) (c : UInt8) (hc : c.toNat < 48) : digitChar d ≠ c := by
  intro h
  have := digitChar_range d hd
  rw [h] at this
  omega

/-! ## the digit loop -/

theorem parseDigits_append (base bits : Nat) (xs ys : Bytes) : ∀ acc,
    parseDigits base bits (xs ++ ys) acc =
      match parseDigits base bits xs acc with
      | .ok a => parseDigits base bits ys a
      | .error e => .error e := by
  induction xs with
  | nil => intro acc; simp [parseDigits]
  | cons c cs ih =>
    intro acc
    simp only [List.cons_append, parseDigits]
    cases digitVal c with
    | none => rfl
    | some d =>
      simp only
      by_cases h1 : d < base
      · simp only [h1, if_true]
        by_cases h2 : acc * base + d < 2 ^ bits
        · simp only [h2, if_true]; exact ih _
        · simp only [h2, if_false]
      · simp only [h1, if_false]

theorem parseDigits_single (base bits d acc : Nat) (hb : base ≤ 36) (hd : d < base)
    (hr : acc * base + d < 2 ^ bits) :
    parseDigits base bits [digitChar d] acc = .ok (acc * base + d) := by
  simp [parseDigits, digitVal_digitChar d (by omega), hd, hr]

theorem digitsRev_reverse_succ (base fuel n : Nat) (hn : n ≠ 0) :
    (digitsRev base (fuel + 1) n).reverse =
      (digitsRev base fuel (n / base)).reverse ++ [digitChar (n % base)] := by
  simp [digitsRev, hn]

/-- Fuel `> n` suffices: the digits of `n` parse back to `n`. -/
theorem parseDigits_digitsRev (base bits : Nat) (h2 : 2 ≤ base) (h36 : base ≤ 36) :
    ∀ n fuel, n < fuel → n < 2 ^ bits →
      parseDigits base bits (digitsRev base fuel n).reverse 0 = .ok n := by
  intro n
  induction n using Nat.strongRecOn with
  | _ n ih =>
    intro fuel hf hb
    cases fuel with
    | zero => omega
    | succ f =>
      by_cases hn : n = 0
      · subst hn; simp [digitsRev, parseDigits]
      · have hlt : n / base < n := Nat.div_lt_self (by omega) (by omega)
        rw [digitsRev_reverse_succ base f n hn, parseDigits_append,
          ih (n / base) hlt f (by omega) (by omega)]
        simp only
        have hm : n % base < base := Nat.mod_lt _ (by omega)
        have he : n / base * base + n % base = n := by
          rw [Nat.mul_comm]; exact Nat.div_add_mod n base
        rw [parseDigits_single base bits _ _ h36 hm (by omega), he]

/-- Every digit is a digit of that base. -/
theorem digitsRev_mem (base : Nat) (h2 : 2 ≤ base) : ∀ fuel n, ∀ c ∈ digitsRev base fuel n,
    ∃ d, d < base ∧ c = digitChar d := by
  intro fuel
  induction fuel with
  | zero => intro n c hc; simp [digitsRev] at hc
  | succ f ih =>
    intro n c hc
    unfold digitsRev at hc
    by_cases hn : n = 0
    · simp [hn] at hc
    · simp only [hn, if_false, List.mem_cons] at hc
      rcases hc with rfl | hc
      · exact ⟨n % base, Nat.mod_lt _ (by omega), rfl⟩
      · exact ih _ c hc

/-! ## `FormatUint` -/

theorem formatUint_ne_nil (n base : Nat) : formatUint n base ≠ [] := by
  unfold formatUint
  by_cases hn : n = 0
  · simp [hn]
  · simp [hn, digitsRev]

/-- Every byte of `formatUint n base` is a digit character of that base. -/
theorem formatUint_mem (n base : Nat) (h2 : 2 ≤ base) : ∀ c ∈ formatUint n base,
    ∃ d, d < base ∧ c = digitChar d := by
  intro c hc
  unfold formatUint at hc
  by_cases hn : n = 0
  · simp only [hn, if_true, List.mem_singleton] at hc
    exact ⟨0, by omega, by rw [hc]; decide⟩
  · simp only [hn, if_false, List.mem_reverse] at hc
    exact digitsRev_mem base h2 _ _ c hc

/-- `formatUint` is non-empty, made of digit characters of the base, and free of `$`, `,`, `=`
(and of the sign characters). -/
theorem formatUint_digits (n base : Nat) (h2 : 2 ≤ base) (h36 : base ≤ 36) :
    formatUint n base ≠ [] ∧
    (∀ c ∈ formatUint n base, ∃ d, d < base ∧ c = digitChar d) ∧
    (∀ c ∈ formatUint n base, c ≠ 36 ∧ c ≠ 44 ∧ c ≠ 61 ∧ c ≠ 43 ∧ c ≠ 45) := by
  refine ⟨formatUint_ne_nil n base, formatUint_mem n base h2, ?_⟩
  intro c hc
  obtain ⟨d, hd, rfl⟩ := formatUint_mem n base h2 c hc
  have h := digitChar_range d (by omega)
  refine ⟨?_, ?_, ?_, ?_, ?_⟩ <;> intro e <;> rw [e] at h <;> revert h <;> decide

theorem format_parse_uint (base bits n : Nat) (h2 : 2 ≤ base) (h36 : base ≤ 36) (hn : n < 2 ^ bits) :
    parseUint (formatUint n base) base bits = .ok n := by
  unfold parseUint
  rw [if_neg (formatUint_ne_nil n base)]
  unfold formatUint
  by_cases h0 : n = 0
  · subst h0
    have : (48 : UInt8) = digitChar 0 := by decide
    simp only [if_true]
    rw [this, parseDigits_single base bits 0 0 h36 (by omega) (by simpa using hn)]
    simp
  · simp only [h0, if_false]
    exact parseDigits_digitsRev base bits h2 h36 n (n + 1) (by omega) hn

/-! ## `FormatInt` -/

theorem parseInt_neg (cs : Bytes) (base bits : Nat) :
    parseInt (45 :: cs) base bits =
      match parseUint cs base bits with
      | .error e => .error e
      | .ok v => if v ≤ 2 ^ (bits - 1) then .ok (-(v : Int)) else .error .range := by
  simp [parseInt]
  cases parseUint cs base bits <;> rfl

theorem parseInt_unsigned (c : UInt8) (cs : Bytes) (base bits : Nat) (h43 : c ≠ 43) (h45 : c ≠ 45) :
    parseInt (c :: cs) base bits =
      match parseUint (c :: cs) base bits with
      | .error e => .error e
      | .ok v => if v < 2 ^ (bits - 1) then .ok (v : Int) else .error .range := by
  unfold parseInt
  rw [if_neg (List.cons_ne_nil c cs)]
  split
  next neg body heq =>
  have hm : (neg, body) = (false, c :: cs) := by
    rw [← heq]
    split
    · next h => simp only [List.cons.injEq] at h; exact absurd h.1 h43
    · next h => simp only [List.cons.injEq] at h; exact absurd h.1 h45
    · rfl
  simp only [Prod.mk.injEq] at hm
  obtain ⟨rfl, rfl⟩ := hm
  simp only [Bool.false_eq_true, if_false]
  cases parseUint (c :: cs) base bits <;> rfl

theorem format_parse_int (base bits : Nat) (v : Int) (h2 : 2 ≤ base) (h36 : base ≤ 36)
    (hbits : 1 ≤ bits) (hlo : -(2 ^ (bits - 1) : Int) ≤ v) (hhi : v < (2 ^ (bits - 1) : Int)) :
    parseInt (formatInt v base) base bits = .ok v := by
  have hpow : 2 ^ bits = 2 * 2 ^ (bits - 1) := by
    obtain ⟨k, rfl⟩ : ∃ k, bits = k + 1 := ⟨bits - 1, by omega⟩
    simp [Nat.pow_succ, Nat.mul_comm]
  have hcast : ((2 ^ (bits - 1) : Nat) : Int) = (2 : Int) ^ (bits - 1) := by simp
  have hpos : 0 < 2 ^ (bits - 1) := Nat.pow_pos (by omega)
  unfold formatInt
  by_cases hv : v < 0
  · simp only [hv, if_true]
    have hna : v.natAbs ≤ 2 ^ (bits - 1) := by omega
    have hlt : v.natAbs < 2 ^ bits := by omega
    rw [parseInt_neg, format_parse_uint base bits _ h2 h36 hlt]
    simp only [hna, if_true]
    congr 1; omega
  · simp only [hv, if_false]
    have hna : v.toNat < 2 ^ (bits - 1) := by omega
    have hlt : v.toNat < 2 ^ bits := by omega
    have hne := formatUint_ne_nil v.toNat base
    have hd := (formatUint_digits v.toNat base h2 h36).2.2
    have hp := format_parse_uint base bits _ h2 h36 hlt
    generalize formatUint v.toNat base = s at hne hd hp
    cases s with
    | nil => exact absurd rfl hne
    | cons c cs =>
      have hc := hd c (by simp)
      rw [parseInt_unsigned c cs base bits hc.2.2.2.1 hc.2.2.2.2, hp]
      simp only [hna, if_true]
      congr 1; omega

end GoCrypt.Strconv
