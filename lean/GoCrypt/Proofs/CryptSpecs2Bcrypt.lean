import GoCrypt.Spec.CryptSpecs2
import GoCrypt.Model.Kdf.Misc
import GoCrypt.Model.Scheme
import GoCrypt.Proofs.Guards

/-!
# bcrypt: model = Provos–Mazières reference over the `Prim/Blowfish.lean` operations
-/

namespace GoCrypt.C03bProofs
open GoCrypt.Kdf GoCrypt.CryptSpec2 GoCrypt

/-- The Blowfish operations of `Prim/Blowfish.lean` (a transcription of golang.org/x/crypto/blowfish):
`ExpandKey(state, salt, key)` is `expandKeyWithSalt`, `ExpandKey(state, 0, key)` is the salt-less
`ExpandKey`. -/
def primBlowfish : BlowfishOps Prim.Blowfish where
  initState := Prim.Blowfish.init
  expandKey st salt key := Prim.Blowfish.expandKeyWithSalt key salt st
  expandKey0 st key := Prim.Blowfish.expandKey key st
  encryptBlock := Prim.Blowfish.encrypt8

/-- How `bcrypt.Key` reads its `Prefix` option (the guards admit exactly `$2$`, `$2a$`, `$2b$`). -/
def variantOf (pfx : Bytes) : BcryptVariant :=
  if pfx = prefix2 then .v2 else if pfx = prefix2b then .v2b else .v2a

theorem iterate_succ' {α : Type} (f : α → α) (n : Nat) (x : α) : iterate f (n + 1) x = iterate f n (f x) := by
  induction n with
  | zero => rfl
  | succ n ih => show f (iterate f (n + 1) x) = f (iterate f n (f x)); rw [ih]

theorem expandLoop_eq_iterate (key salt : Bytes) (n : Nat) (c : Prim.Blowfish) :
    expandLoop key salt n c = iterate (fun st => Prim.Blowfish.expandKey salt (Prim.Blowfish.expandKey key st)) n c := by
  induction n generalizing c with
  | zero => rfl
  | succ n ih => rw [iterate_succ', ← ih]; rfl

theorem encryptTimes_eq_iterate (c : Prim.Blowfish) (n : Nat) (b : Bytes) :
    encryptTimes c n b = iterate (Prim.Blowfish.encrypt8 c) n b := by
  induction n generalizing b with
  | zero => rfl
  | succ n ih => rw [iterate_succ', ← ih]; rfl

theorem encrypt8_length (c : Prim.Blowfish) (b : Bytes) : (Prim.Blowfish.encrypt8 c b).length = 8 := by
  unfold Prim.Blowfish.encrypt8
  simp only []
  cases Prim.Blowfish.encryptBlock c _ _
  rfl

theorem len8 (b : Bytes) (h : b.length = 8) : ∃ x0 x1 x2 x3 x4 x5 x6 x7, b = [x0, x1, x2, x3, x4, x5, x6, x7] := by
  match b, h with
  | [x0, x1, x2, x3, x4, x5, x6, x7], _ => exact ⟨_, _, _, _, _, _, _, _, rfl⟩

/-- ECB on three blocks. -/
theorem ecb3 {S : Type} (B : BlowfishOps S) (st : S) (b0 b1 b2 : Bytes) (h0 : b0.length = 8) (h1 : b1.length = 8)
    (h2 : b2.length = 8) :
    encryptECB B st (b0 ++ b1 ++ b2) = B.encryptBlock st b0 ++ B.encryptBlock st b1 ++ B.encryptBlock st b2 := by
  obtain ⟨x0, x1, x2, x3, x4, x5, x6, x7, rfl⟩ := len8 b0 h0
  obtain ⟨y0, y1, y2, y3, y4, y5, y6, y7, rfl⟩ := len8 b1 h1
  obtain ⟨z0, z1, z2, z3, z4, z5, z6, z7, rfl⟩ := len8 b2 h2
  simp [encryptECB, List.range_succ]

theorem iterate_length8 (f : Bytes → Bytes) (hf : ∀ b, (f b).length = 8) (n : Nat) (b : Bytes) (hb : b.length = 8) :
    (iterate f n b).length = 8 := by
  cases n with
  | zero => exact hb
  | succ n => exact hf _

/-- 64 (or any number of) ECB passes over three blocks = each block encrypted that many times. -/
theorem iterate_ecb3 {S : Type} (B : BlowfishOps S) (st : S) (hlen : ∀ b, (B.encryptBlock st b).length = 8) (n : Nat)
    (b0 b1 b2 : Bytes) (h0 : b0.length = 8) (h1 : b1.length = 8) (h2 : b2.length = 8) :
    iterate (encryptECB B st) n (b0 ++ b1 ++ b2) =
      iterate (B.encryptBlock st) n b0 ++ iterate (B.encryptBlock st) n b1 ++ iterate (B.encryptBlock st) n b2 := by
  induction n with
  | zero => rfl
  | succ n ih =>
    show encryptECB B st (iterate (encryptECB B st) n (b0 ++ b1 ++ b2)) = _
    rw [ih, ecb3 B st _ _ _ (iterate_length8 _ hlen n b0 h0) (iterate_length8 _ hlen n b1 h1)
      (iterate_length8 _ hlen n b2 h2)]
    rfl

theorem orphean_split : orpheanBeholder = orphean.take 8 ++ (orphean.drop 8).take 8 ++ orphean.drop 16 := by decide

theorem bcryptKey_eq (pfx pw : Bytes) (h : pfx = prefix2b ∨ pw.length < 254) :
    (if pfx ≠ prefix2 then bcryptPassword pfx pw ++ [0] else bcryptPassword pfx pw) = bcryptKey (variantOf pfx) pw := by
  unfold bcryptPassword variantOf
  by_cases h2 : pfx = prefix2
  · have hb : pfx ≠ prefix2b := by rw [h2]; decide
    have hl : ¬ pw.length ≥ 254 := by rcases h with h | h; exact absurd h hb; omega
    simp [h2, hl, bcryptKey, show ¬ (prefix2 = prefix2b) by decide]
  · by_cases hb : pfx = prefix2b
    · by_cases hl : pw.length > 72
      · simp [hb, hl, bcryptKey, show ¬ (prefix2b = prefix2) by decide]
      · have hl2 : ¬ pw.length ≥ 254 := by omega
        have : pw.take 72 = pw := List.take_of_length_le (by omega)
        simp [hb, hl, hl2, bcryptKey, this, show ¬ (prefix2b = prefix2) by decide]
    · have hl : ¬ pw.length ≥ 254 := by rcases h with h | h; exact absurd h hb; omega
      simp [h2, hb, hl, bcryptKey]

theorem bcrypt_eq_spec' (pfx pw decSalt : Bytes) (cost : Nat) (hs : decSalt ≠ [])
    (h : pfx = prefix2b ∨ pw.length < 254) :
    bcryptDerive pfx pw decSalt cost = bcryptSpec primBlowfish (variantOf pfx) cost decSalt pw := by
  unfold bcryptDerive bcryptSpec
  simp only [bcryptKey_eq pfx pw h]
  by_cases hk : bcryptKey (variantOf pfx) pw = []
  · simp [hk]
  · have hs' : decSalt.isEmpty = false := by cases decSalt; exact absurd rfl hs; rfl
    have hk' : (bcryptKey (variantOf pfx) pw).isEmpty = false := by
      cases hkk : bcryptKey (variantOf pfx) pw; exact absurd hkk hk; rfl
    rw [if_neg hk]
    simp only [hk', Bool.false_eq_true, if_false]
    rw [orphean_split, iterate_ecb3 primBlowfish _ (encrypt8_length _) 64 _ _ _ (by decide) (by decide) (by decide)]
    simp only [expandLoop_eq_iterate, encryptTimes_eq_iterate, Prim.Blowfish.newSaltedCipher, hs', Bool.false_eq_true,
      if_false]
    rfl

/-- go-crypt's rule for `$2$`/`$2a$` passwords of 254 bytes or more: the password is *replaced* by
seventy-two `'0'` characters. -/
theorem bcrypt_long_password' (pfx pw decSalt : Bytes) (cost : Nat) (hp : pfx ≠ prefix2b) (hl : 254 ≤ pw.length) :
    bcryptDerive pfx pw decSalt cost = bcryptDerive pfx (List.replicate 72 48) decSalt cost := by
  unfold bcryptDerive bcryptPassword
  have : ¬ 254 ≤ (List.replicate 72 (48 : UInt8)).length := by simp
  simp [hp, hl]

/-! ## `bcrypt.Key` = guards ; `bcryptDerive` -/

theorem guardsPw_eq (pfx pw : Bytes) : Guards.bcryptPassword pfx pw = Kdf.bcryptPassword pfx pw := rfl

theorem stdDecodeBuf_length (al text : Bytes) : (stdDecodeBuf al text).length = text.length * 6 / 8 := by
  unfold stdDecodeBuf
  simp only [List.length_append, List.length_take, List.length_replicate]
  omega

/-- `bcrypt.Key` after its guards is `bcryptDerive` on the guarded arguments. -/
theorem bcrypt_derive_eq (a : KeyArgs) (pw : Bytes) :
    Scheme.bcrypt.derive { a with password := Kdf.bcryptPassword a.optPrefix pw } =
      (match bcryptDerive a.optPrefix pw (stdDecodeBuf Scheme.bcryptAlphabet a.salt) a.rounds with
       | some k => .ok k
       | none => .internal "cipher") := by
  unfold bcryptDerive
  simp only [Scheme.bcrypt]
  split <;> split <;> rfl

end GoCrypt.C03bProofs
