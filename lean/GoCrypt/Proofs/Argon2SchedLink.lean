import GoCrypt.Proofs.Argon2Sched
import GoCrypt.Proofs.Argon2Eq

/-!
# Argon2 lane scheduling, part 2 — the CONCRETE instantiation (support for C09)

`GoCrypt/Proofs/Argon2Sched.lean` proves schedule independence for an abstract system: cell type
`V`, block function `G`, address source `rnd`, memory as a function `Nat → V`.  This file
instantiates it with the objects of the code-shaped model `GoCrypt/Model/Kdf/Argon2.lean`:

* cell type `V := Block` (`Array UInt64`);
* `G := blockG version` = `processBlock old prev ref (version ≠ 0x10)` — the model (like the Go
  code) XORs into the old block for every version but 0x10, in EVERY pass (in pass 0 the old block
  is still zero);
* `rnd := rndWord time memory mode` = the 64-bit word `J_1 ‖ J_2` the model uses at position
  `(n, slice, lane, index)`: word `index % 128` of the `(index / 128 + 1)`-th address block of the
  segment for data-independent addressing (`addrBlock`, written with the model's `processBlock`
  and `zeroBlock` only), word 0 of the previous block otherwise;
* memory `memOf B := fun i => B[i]!` for the model's `B : Array Block`
  (index `= lane * laneLength + column`).

and links one `processSegment` call of the model to the task list of the abstract system:

* `processSegment_eq_cSteps`: `processSegment` = a left fold of `cStep` (ONE block operation on the
  array, with the model's functions and the `offsetOf`/`prevOf`/`indexAlpha` addresses of
  `argon2Step`) over `index = i0, …, segments-1`, for every memory of the right size;
* `memOf_cStep`: `cStep` on the array IS `argon2Step … .run` on the memory function;
* `memOf_cSegment`: hence `processSegment` on the array is `runList (argon2Tasks …)` on the
  memory function.
-/

namespace GoCrypt.Argon2SchedLink
open GoCrypt GoCrypt.Kdf.Argon2 GoCrypt.Argon2Sched GoCrypt.Argon2Eq
open GoCrypt.Gen.argon2crypto

/-! ## the concrete parameters of the abstract system -/

/-- The block update of the model's segment loop:
`if version == version10 { processBlock(&B[offset], &B[prev], &B[newOffset]) }
 else { processBlockXOR(…) }`. -/
def blockG (version : Nat) (old prev ref : Block) : Block :=
  processBlock old prev ref (!(version == version10))

/-- The model's test "this segment uses data-independent addressing" (same text as in
`processSegment`). -/
def dataIndep (mode n slice : Nat) : Bool :=
  mode == argon2i || (mode == argon2id && n == 0 && slice < syncPoints / 2)

/-- The input block `in` of the address generator of segment `(n, slice, lane)` when its counter
word `in[6]` is `c`. -/
def addrInput (time memory mode n slice lane c : Nat) : Block :=
  ((((((zeroBlock.set! 0 (UInt64.ofNat n)).set! 1 (UInt64.ofNat lane)).set! 2 (UInt64.ofNat slice)).set! 3
    (UInt64.ofNat memory)).set! 4 (UInt64.ofNat time)).set! 5 (UInt64.ofNat mode)).set! 6 (UInt64.ofNat c)

/-- The `c`-th address block of segment `(n, slice, lane)`:
`processBlock(&addresses, &in, &zero); processBlock(&addresses, &addresses, &zero)`. -/
def addrBlock (time memory mode n slice lane c : Nat) : Block :=
  processBlock (processBlock zeroBlock (addrInput time memory mode n slice lane c) zeroBlock false)
    (processBlock zeroBlock (addrInput time memory mode n slice lane c) zeroBlock false) zeroBlock false

/-- The pseudo-random 64-bit word (`random` in `processSegment`) for position
`(n, slice, lane, index)`; `prev` is the contents of `B[prev]`. -/
def rndWord (time memory mode n slice lane index : Nat) (prev : Block) : Nat :=
  if dataIndep mode n slice then
    ((addrBlock time memory mode n slice lane (index / blockLength + 1))[index % blockLength]!).toNat
  else (prev[0]!).toNat

/-- The model's memory as a memory function of the abstract system. -/
def memOf (B : Array Block) : Mem Block := fun i => B[i]!

/-- … and back: the first `size` cells as an array. -/
def arrOf (m : Mem Block) (size : Nat) : Array Block := Array.ofFn (n := size) fun i => m i.val

theorem arrOf_memOf (B : Array Block) : arrOf (memOf B) B.size = B := by
  apply Array.ext
  · simp [arrOf]
  · intro i h1 h2
    simp only [arrOf, Array.getElem_ofFn, memOf]
    exact getElem!_pos B i h2

theorem dataIndep_eq (mode n slice : Nat) :
    dataIndep mode n slice = Spec.Argon2Rfc.dataIndependent mode n slice := rfl

theorem zeroBlock_size : zeroBlock.size = 128 := by simp [zeroBlock, blockLength]

/-- the model's address block is the RFC's `G(ZERO, G(ZERO, Z_c))` -/
theorem addrBlock_eq (t m' y n slice lane c : Nat) :
    addrBlock t m' y n slice lane c = Spec.Argon2Rfc.addressBlock n lane slice m' t y c := by
  unfold addrBlock addrInput
  rw [Zarr_init]
  have : (Zarr n lane slice m' t y 0).set! 6 (UInt64.ofNat c) = Zarr n lane slice m' t y (UInt64.ofNat c) := by
    simp [Zarr]
  rw [this, addresses_eq _ _ zeroBlock_size, addressBlock_eq]

/-! ## one block operation on the array -/

/-- One iteration of the segment loop as an operation on the array, with the addresses of
`Argon2Sched.argon2Step`. -/
def cStep (t m' y v p q L n slice lane : Nat) (B : Array Block) (idx : Nat) : Array Block :=
  B.set! (offsetOf q L slice lane idx)
    (blockG v B[offsetOf q L slice lane idx]! B[prevOf q L slice lane idx]!
      B[indexAlpha (rndWord t m' y n slice lane idx B[prevOf q L slice lane idx]!) q L p n slice lane idx]!)

theorem cStep_size (t m' y v p q L n slice lane : Nat) (B : Array Block) (idx : Nat) :
    (cStep t m' y v p q L n slice lane B idx).size = B.size := by
  simp [cStep]

theorem offsetOf_eq (q L slice lane idx : Nat) :
    offsetOf q L slice lane idx = lane * q + (slice * L + idx) := by
  unfold offsetOf; omega

/-- the RFC-style `(j - 1) mod q` of `Argon2Eq.prev_eq` is the `prevOf` of the scheduling file -/
theorem prevOf_eq {m' p q L slice lane : Nat} (D : SegDom m' p q L slice lane) (idx : Nat) (hidx : idx < L) :
    lane * q + (slice * L + idx + q - 1) % q = prevOf q L slice lane idx := by
  have h2 := D.slice_le
  have hL := D.hL
  unfold prevOf offsetOf
  by_cases h : idx = 0 ∧ slice = 0
  · obtain ⟨ha, hb⟩ := h
    subst ha; subst hb
    have hq0 : (0 * L + 0 + q - 1) % q = q - 1 := by
      simp only [Nat.zero_mul, Nat.zero_add]; exact Nat.mod_eq_of_lt (by omega : q - 1 < q)
    rw [hq0, if_pos ⟨rfl, rfl⟩]
    omega
  · have hj : 1 ≤ slice * L + idx := by
      by_cases hs : slice = 0
      · omega
      · have : 1 * L ≤ slice * L := Nat.mul_le_mul_right L (by omega)
        omega
    have hq0 : (slice * L + idx + q - 1) % q = slice * L + idx - 1 := by
      rw [show slice * L + idx + q - 1 = (slice * L + idx - 1) + q by omega, Nat.add_mod_right]
      exact Nat.mod_eq_of_lt (by omega)
    rw [hq0, if_neg h]
    generalize slice * L = a at *
    generalize lane * q = b at *
    omega

/-- **one iteration of the model's loop body = one `cStep`** (compare `Argon2Eq.mStep_real`, which
needs 128-word blocks and zero blocks in pass 0 to reach the RFC's `G`; nothing of the kind is needed
here because `cStep` is written with the model's own `processBlock`). -/
theorem mStep_conc {m' p q L slice lane : Nat} (D : SegDom m' p q L slice lane) (t y v n idx : Nat)
    (B : Array Block) (addresses in_ : Block) (rnd : UInt64)
    (hB : B.size = m') (hi0 : i0 n slice ≤ idx) (hidx : idx < L)
    (hA : AInv t m' y n slice lane idx addresses in_) :
    (mStep p y v q L n slice lane (B, addresses, in_, idx, lane * q + (slice * L + idx), rnd)).1
        = cStep t m' y v p q L n slice lane B idx ∧
    (mStep p y v q L n slice lane (B, addresses, in_, idx, lane * q + (slice * L + idx), rnd)).2.2.2.1 = idx + 1 ∧
    (mStep p y v q L n slice lane (B, addresses, in_, idx, lane * q + (slice * L + idx), rnd)).2.2.2.2.1
        = lane * q + (slice * L + (idx + 1)) ∧
    AInv t m' y n slice lane (idx + 1)
      (mStep p y v q L n slice lane (B, addresses, in_, idx, lane * q + (slice * L + idx), rnd)).2.1
      (mStep p y v q L n slice lane (B, addresses, in_, idx, lane * q + (slice * L + idx), rnd)).2.2.1 := by
  have h1 := D.lane_le
  have h2 := D.slice_le
  have h3 := D.hm32
  have hoff : lane * q + (slice * L + idx) < m' := by omega
  unfold mStep
  simp only [hidx, if_true, prev_eq D n idx hi0 hidx, DIm_eq]
  refine ⟨?_, by simp only [u32]; omega, by simp only [u32]; omega, ?_⟩
  · rw [setB_eq _ _ _ (by rw [hB]; exact hoff)]
    unfold cStep blockG rndWord
    rw [← prevOf_eq D idx hidx, offsetOf_eq, dataIndep_eq]
    by_cases hdi : Spec.Argon2Rfc.dataIndependent y n slice = true
    · have hadr := (addr_step t m' y n slice lane idx addresses in_ hdi hA).1
      simp only [hdi, Bool.true_and, if_true] at hadr ⊢
      rw [hadr, addrBlock_eq]
      rfl
    · simp only [hdi, if_false, Bool.false_eq_true]
  · by_cases hdi : Spec.Argon2Rfc.dataIndependent y n slice = true
    · have hadr := (addr_step t m' y n slice lane idx addresses in_ hdi hA).2
      simp only [hdi, Bool.true_and] at hadr ⊢
      exact hadr
    · intro h; exact absurd h hdi

theorem model_conc_steps {m' p q L slice lane : Nat} (D : SegDom m' p q L slice lane) (t y v n : Nat) :
    ∀ (k idx : Nat) (B : Array Block) (addresses in_ : Block) (rnd : UInt64),
      idx + k = L → i0 n slice ≤ idx → B.size = m' →
      AInv t m' y n slice lane idx addresses in_ →
      ∃ a' i' r', iter (mStep p y v q L n slice lane) k (B, addresses, in_, idx, lane * q + (slice * L + idx), rnd)
        = ((List.range' idx k).foldl (cStep t m' y v p q L n slice lane) B,
            a', i', L, lane * q + (slice * L + L), r') := by
  intro k
  induction k with
  | zero =>
    intro idx B addresses in_ rnd hk _ _ _
    have : idx = L := by omega
    subst this
    exact ⟨addresses, in_, rnd, rfl⟩
  | succ k ih =>
    intro idx B addresses in_ rnd hk hi0 hB hA
    have hidx : idx < L := by omega
    obtain ⟨e1, e2, e3, e4⟩ := mStep_conc D t y v n idx B addresses in_ rnd hB hi0 hidx hA
    have eta : ∀ s : MState, s = (s.1, s.2.1, s.2.2.1, s.2.2.2.1, s.2.2.2.2.1, s.2.2.2.2.2) := fun _ => rfl
    show ∃ a' i' r', iter _ k (mStep p y v q L n slice lane _) = _
    rw [eta (mStep p y v q L n slice lane _), e1, e2, e3]
    obtain ⟨a', i', r', h⟩ := ih (idx + 1) _ _ _ _ (by omega) (by omega)
      ((cStep_size ..).trans hB) e4
    exact ⟨a', i', r', by rw [h, List.range'_succ, List.foldl_cons]⟩

/-- The goroutine of lane `lane` in phase `(n, slice)`, on the array: `cStep` for
`index = i0, …, segments - 1`. -/
def cSegment (t m' y v p q L n slice lane : Nat) (B : Array Block) : Array Block :=
  (List.range' (i0 n slice) (L - i0 n slice)).foldl (cStep t m' y v p q L n slice lane) B

/-- **The model's `processSegment` is the fold of the block operations `cStep`**, for EVERY memory
with `m'` entries (no assumption on the contents of the blocks). -/
theorem processSegment_eq_cSteps {m' p q L slice lane : Nat} (D : SegDom m' p q L slice lane) (t y v n : Nat)
    (B : Array Block) (hB : B.size = m') :
    processSegment B t m' p y v q L n slice lane = cSegment t m' y v p q L n slice lane B := by
  have hi0 : i0 n slice ≤ L := by
    have := D.hL
    unfold i0; split <;> omega
  unfold cSegment
  rw [processSegment_eq_foldl, foldl_const_eq_iter]
  obtain ⟨a0, in1, hinit, hA⟩ := mInit_eq D t y n B
  have hsplit : ∀ s : MState, iter (mStep p y v q L n slice lane) L s
      = iter (mStep p y v q L n slice lane) (i0 n slice) (iter (mStep p y v q L n slice lane) (L - i0 n slice) s) := by
    intro s
    rw [← iter_add]
    congr 1
    omega
  rw [hinit, hsplit]
  obtain ⟨a', i', r', h⟩ := model_conc_steps D t y v n (L - i0 n slice) (i0 n slice) B a0 in1 0 (by omega)
    (Nat.le_refl _) hB hA
  rw [h, iter_fix _ _ (mStep_idle p y v q L n slice lane _ rfl)]

theorem cSegment_size (t m' y v p q L n slice lane : Nat) (B : Array Block) :
    (cSegment t m' y v p q L n slice lane B).size = B.size := by
  unfold cSegment
  generalize i0 n slice = a
  generalize L - a = k
  induction k generalizing a B with
  | zero => rfl
  | succ k ih => rw [List.range'_succ, List.foldl_cons, ih, cStep_size]

/-! ## array operations = steps of the abstract system -/

theorem memOf_set! (B : Array Block) (w : Nat) (v : Block) (h : w < B.size) :
    memOf (B.set! w v) = fun i => if i = w then v else memOf B i := by
  funext i
  unfold memOf
  rw [getElem!_set!]
  by_cases hi : i = w
  · subst hi; simp only [h, and_self, if_true]
  · have : ¬ (w = i ∧ w < B.size) := fun e => hi e.1.symm
    simp only [this, hi, if_false]

/-- **`cStep` on the array is `argon2Step` on the memory function** (with `G := blockG v`,
`rnd := rndWord t m' y n slice`), whenever the written cell exists. -/
theorem memOf_cStep (t m' y v p q L n slice lane : Nat) (B : Array Block) (idx : Nat)
    (hoff : offsetOf q L slice lane idx < B.size) :
    memOf (cStep t m' y v p q L n slice lane B idx)
      = (argon2Step q L p (blockG v) (rndWord t m' y n slice) n slice lane idx).run (memOf B) := by
  unfold cStep
  rw [memOf_set! _ _ _ hoff]
  rfl

theorem startIndex_eq_i0 (n slice : Nat) : startIndex n slice = i0 n slice := rfl

theorem memOf_cSteps (t m' y v p q L n slice lane : Nat) (k : Nat) :
    ∀ (a : Nat) (B : Array Block),
      (∀ idx, a ≤ idx → idx < a + k → offsetOf q L slice lane idx < B.size) →
      memOf ((List.range' a k).foldl (cStep t m' y v p q L n slice lane) B)
        = runList ((List.range' a k).map (argon2Step q L p (blockG v) (rndWord t m' y n slice) n slice lane))
            (memOf B) := by
  induction k with
  | zero => intro a B _; rfl
  | succ k ih =>
    intro a B h
    rw [List.range'_succ, List.foldl_cons, List.map_cons]
    show _ = runList _ (Step.run _ (memOf B))
    rw [← memOf_cStep t m' y v p q L n slice lane B a (h a (Nat.le_refl _) (by omega))]
    exact ih (a + 1) _ (fun idx h1 h2 => by rw [cStep_size]; exact h idx (by omega) (by omega))

/-- **The goroutine of lane `lane` on the array = the task list of the abstract system run on the
memory function.** -/
theorem memOf_cSegment {m' p q L slice lane : Nat} (D : SegDom m' p q L slice lane) (t y v n : Nat)
    (B : Array Block) (hB : B.size = m') :
    memOf (cSegment t m' y v p q L n slice lane B)
      = runList (argon2Tasks q L p (blockG v) (rndWord t m' y n slice) n slice lane) (memOf B) := by
  have h1 := D.lane_le
  have h2 := D.slice_le
  have hi0 : i0 n slice ≤ L := by
    have := D.hL
    unfold i0; split <;> omega
  unfold cSegment argon2Tasks
  rw [startIndex_eq_i0]
  apply memOf_cSteps
  intro idx _ hlt
  rw [offsetOf_eq, hB]
  omega

end GoCrypt.Argon2SchedLink
