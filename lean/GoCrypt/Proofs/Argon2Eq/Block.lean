import GoCrypt.Proofs.Argon2Eq.Hash

/-!
# Argon2: model = RFC 9106 reference, part 2 — the compression function

* `gb_eq_GB`: the 12-line group of `blamkaGeneric` is the RFC's `GB(a,b,c,d)`.
* `blamka_eq_applyIdx`: `blamka t i00 … i15` = read the 16 words, apply the RFC's `P`
  (`= blamka16` = eight `GB`s), write them back.
* `processBlock_eq_G`, `processBlock_xor_eq_G`: `processBlockGeneric` = `G` for all 128-word blocks.
-/

open GoCrypt
open GoCrypt.Kdf.Argon2 GoCrypt.Spec.Argon2Rfc

namespace GoCrypt.Argon2Eq

/-! ## loops that write cell `i` at step `i` -/

theorem getElem!_lt {α} [Inhabited α] (a : Array α) (i : Nat) (h : i < a.size) : a[i]! = a[i] := by
  simp [getElem!_pos, h]

theorem setLoop_aux {α} [Inhabited α] (n : Nat) (g : α → Nat → α) (a : Array α) (h : a.size = n) :
    ∀ k, k ≤ n → (List.range' 0 k).foldl (fun acc i => acc.set! i (g acc[i]! i)) a
      = (Array.range n).map (fun i => if i < k then g a[i]! i else a[i]!) := by
  intro k
  induction k with
  | zero =>
    intro _
    apply Array.ext
    · simp [h]
    · intro i h1 h2
      simp at h1 h2 ⊢
      simp [getElem!_pos, h, h2]
  | succ k ih =>
    intro hk
    rw [List.range'_concat, List.foldl_append, ih (by omega)]
    simp only [List.foldl_cons, List.foldl_nil, Nat.zero_add, Nat.one_mul]
    apply Array.ext
    · simp
    · intro i h1 h2
      simp at h1 h2
      have hk' : k < n := by omega
      simp only [Array.set!_eq_setIfInBounds]
      rw [Array.getElem_setIfInBounds (by simpa using h1)]
      simp only [Array.getElem_map, Array.getElem_range]
      by_cases e : k = i
      · subst e
        simp [getElem!_pos, hk']
      · have : (i < k + 1) = (i < k) := by apply propext; omega
        simp [e, this]

theorem setLoop {α} [Inhabited α] (n : Nat) (g : α → Nat → α) (a : Array α) (h : a.size = n) :
    (List.range' 0 n).foldl (fun acc i => acc.set! i (g acc[i]! i)) a
      = (Array.range n).map (fun i => g a[i]! i) := by
  rw [setLoop_aux n g a h n (Nat.le_refl _)]
  apply Array.ext
  · simp
  · intro i h1 h2
    simp at h1 h2
    simp [h2]

/-! ## (3a) `blamka` = `P` -/

theorem trunc_eq (a : UInt64) : trunc a = a.toUInt32.toUInt64 := by
  simp [trunc]

theorem mulAdd_eq (a b : UInt64) : mulAdd a b = a + b + 2 * trunc a * trunc b := by
  simp only [mulAdd, trunc_eq, UInt64.add_assoc]

theorem rotr32 (x : UInt64) : rotr x 32 = (x >>> 32) ||| (x <<< 32) := rfl
theorem rotr24 (x : UInt64) : rotr x 24 = (x >>> 24) ||| (x <<< 40) := rfl
theorem rotr16 (x : UInt64) : rotr x 16 = (x >>> 16) ||| (x <<< 48) := rfl
theorem rotr63 (x : UInt64) : rotr x 63 = (x >>> 63) ||| (x <<< 1) := rfl

theorem gb_eq_GB (a b c d : UInt64) : gb a b c d = GB a b c d := by
  simp only [gb, GB, mulAdd_eq, rotr32, rotr24, rotr16, rotr63]

def applyIdx (R : Array UInt64) (idx : List Nat) : Array UInt64 :=
  let out := P (idx.map (R[·]!)).toArray
  (idx.zipIdx).foldl (fun acc (w, n) => acc.set! w out[n]!) R

theorem applyP_eq (R : Array UInt64) (regs : List Nat) :
    applyP R regs = applyIdx R (regs.flatMap fun k => [2 * k, 2 * k + 1]) := rfl


theorem GBat_eq (v : Array UInt64) (ia ib ic id : Nat) :
    GBat v (ia, ib, ic, id) =
      (((v.set! ia (GB v[ia]! v[ib]! v[ic]! v[id]!).1).set! ib (GB v[ia]! v[ib]! v[ic]! v[id]!).2.1).set! ic
        (GB v[ia]! v[ib]! v[ic]! v[id]!).2.2.1).set! id (GB v[ia]! v[ib]! v[ic]! v[id]!).2.2.2 := rfl


/-- `blamkaGeneric` on 16 words, as a pure function: four column `GB`s, then four diagonal `GB`s. -/
def blamka16 (v00 v01 v02 v03 v04 v05 v06 v07 v08 v09 v10 v11 v12 v13 v14 v15 : UInt64) : Array UInt64 :=
  let (v00, v04, v08, v12) := GB v00 v04 v08 v12
  let (v01, v05, v09, v13) := GB v01 v05 v09 v13
  let (v02, v06, v10, v14) := GB v02 v06 v10 v14
  let (v03, v07, v11, v15) := GB v03 v07 v11 v15
  let (v00, v05, v10, v15) := GB v00 v05 v10 v15
  let (v01, v06, v11, v12) := GB v01 v06 v11 v12
  let (v02, v07, v08, v13) := GB v02 v07 v08 v13
  let (v03, v04, v09, v14) := GB v03 v04 v09 v14
  #[v00, v01, v02, v03, v04, v05, v06, v07, v08, v09, v10, v11, v12, v13, v14, v15]

theorem P_lit (v00 v01 v02 v03 v04 v05 v06 v07 v08 v09 v10 v11 v12 v13 v14 v15 : UInt64) :
    P #[v00, v01, v02, v03, v04, v05, v06, v07, v08, v09, v10, v11, v12, v13, v14, v15]
      = blamka16 v00 v01 v02 v03 v04 v05 v06 v07 v08 v09 v10 v11 v12 v13 v14 v15 := by
  simp only [P, List.foldl_cons, List.foldl_nil, GBat_eq]
  simp [blamka16]

theorem blamka_eq_applyIdx (t : Array UInt64) (i00 i01 i02 i03 i04 i05 i06 i07 i08 i09 i10 i11 i12 i13 i14 i15 : Nat) :
    blamka t i00 i01 i02 i03 i04 i05 i06 i07 i08 i09 i10 i11 i12 i13 i14 i15
      = applyIdx t [i00, i01, i02, i03, i04, i05, i06, i07, i08, i09, i10, i11, i12, i13, i14, i15] := by
  simp only [applyIdx, List.map_cons, List.map_nil, P_lit]
  simp [blamka, blamka16, gb_eq_GB, List.zipIdx]


/-! ## (3b) `processBlock` = `G` -/

/-- word indices of the eight rows of the 8×8 register matrix -/
def rowIdx : List (List Nat) := (List.range 8).map fun i => (List.range 16).map (16 * i + ·)
/-- word indices of the eight columns of the 8×8 register matrix -/
def colIdx : List (List Nat) := (List.range 8).map fun j => (List.range 8).flatMap fun k => [2 * j + 16 * k, 2 * j + 16 * k + 1]

theorem range'_0_8 : List.range' 0 8 = [0,1,2,3,4,5,6,7] := by decide
theorem range_8 : List.range 8 = [0,1,2,3,4,5,6,7] := by decide

theorem model_rows (t : Array UInt64) :
    (List.range' 0 8).foldl (fun t k =>
      blamka t (16 * k + 0) (16 * k + 1) (16 * k + 2) (16 * k + 3) (16 * k + 4) (16 * k + 5) (16 * k + 6)
                    (16 * k + 7) (16 * k + 8) (16 * k + 9) (16 * k + 10) (16 * k + 11) (16 * k + 12) (16 * k + 13)
                    (16 * k + 14) (16 * k + 15)) t = rowIdx.foldl applyIdx t := by
  have e : rowIdx = [[0,1,2,3,4,5,6,7,8,9,10,11,12,13,14,15], [16,17,18,19,20,21,22,23,24,25,26,27,28,29,30,31],
    [32,33,34,35,36,37,38,39,40,41,42,43,44,45,46,47], [48,49,50,51,52,53,54,55,56,57,58,59,60,61,62,63],
    [64,65,66,67,68,69,70,71,72,73,74,75,76,77,78,79], [80,81,82,83,84,85,86,87,88,89,90,91,92,93,94,95],
    [96,97,98,99,100,101,102,103,104,105,106,107,108,109,110,111],
    [112,113,114,115,116,117,118,119,120,121,122,123,124,125,126,127]] := by decide
  rw [e, range'_0_8]
  simp only [List.foldl_cons, List.foldl_nil, blamka_eq_applyIdx]

theorem colIdx_lit : colIdx = [[0,1,16,17,32,33,48,49,64,65,80,81,96,97,112,113],
    [2,3,18,19,34,35,50,51,66,67,82,83,98,99,114,115], [4,5,20,21,36,37,52,53,68,69,84,85,100,101,116,117],
    [6,7,22,23,38,39,54,55,70,71,86,87,102,103,118,119], [8,9,24,25,40,41,56,57,72,73,88,89,104,105,120,121],
    [10,11,26,27,42,43,58,59,74,75,90,91,106,107,122,123], [12,13,28,29,44,45,60,61,76,77,92,93,108,109,124,125],
    [14,15,30,31,46,47,62,63,78,79,94,95,110,111,126,127]] := by decide

theorem model_cols (t : Array UInt64) :
    (List.range' 0 8).foldl (fun t k =>
      blamka t (2 * k) (2 * k + 1) (16 + 2 * k) (16 + 2 * k + 1) (32 + 2 * k) (32 + 2 * k + 1)
                    (48 + 2 * k) (48 + 2 * k + 1) (64 + 2 * k) (64 + 2 * k + 1) (80 + 2 * k) (80 + 2 * k + 1)
                    (96 + 2 * k) (96 + 2 * k + 1) (112 + 2 * k) (112 + 2 * k + 1)) t = colIdx.foldl applyIdx t := by
  rw [colIdx_lit, range'_0_8]
  simp only [List.foldl_cons, List.foldl_nil, blamka_eq_applyIdx]

theorem rfc_rows (R : Array UInt64) :
    (List.range 8).foldl (fun acc i => applyP acc ((List.range 8).map (8 * i + ·))) R = rowIdx.foldl applyIdx R := by
  have e : (fun acc i => applyP acc ((List.range 8).map (8 * i + ·)))
      = fun (acc : Array UInt64) i => applyIdx acc ((List.range 16).map (16 * i + ·)) := by
    funext acc i
    rw [applyP_eq]
    congr 1
    simp [List.range, List.range.loop]
    omega
  rw [e, rowIdx, List.foldl_map]

theorem rfc_cols (Q : Array UInt64) :
    (List.range 8).foldl (fun acc j => applyP acc ((List.range 8).map (j + 8 * ·))) Q = colIdx.foldl applyIdx Q := by
  have e : (fun acc j => applyP acc ((List.range 8).map (j + 8 * ·)))
      = fun (acc : Array UInt64) j => applyIdx acc ((List.range 8).flatMap fun k => [2 * j + 16 * k, 2 * j + 16 * k + 1]) := by
    funext acc j
    rw [applyP_eq]
    congr 1 <;> simp [range_8]
  rw [e, colIdx, List.foldl_map]

theorem blockXor_getElem! (X Y : Array UInt64) (k : Nat) (hk : k < 128) :
    (blockXor X Y)[k]! = X[k]! ^^^ Y[k]! := by
  simp [blockXor, getElem!_pos, hk]

/-- the part of `G` before the final XOR: `R → Q → Z` -/
def permute (R : Array UInt64) : Array UInt64 := colIdx.foldl applyIdx (rowIdx.foldl applyIdx R)

theorem G_eq (X Y : Array UInt64) : G X Y = blockXor (permute (blockXor X Y)) (blockXor X Y) := by
  simp only [G, rfc_rows, rfc_cols, permute]

/-- the first three loops of `processBlockGeneric` -/
theorem processBlock_eq (out in1 in2 : Array UInt64) (xor : Bool) (ho : out.size = 128) :
    processBlock out in1 in2 xor =
      (Array.range 128).map fun i =>
        if xor then out[i]! ^^^ (in1[i]! ^^^ in2[i]! ^^^ (permute (blockXor in1 in2))[i]!)
        else in1[i]! ^^^ in2[i]! ^^^ (permute (blockXor in1 in2))[i]! := by
  unfold processBlock
  simp only [Std.Legacy.Range.forIn_eq_forIn_range', List.forIn_pure_yield_eq_foldl]
  have s128 : [:blockLength].size = 128 := by decide
  have s8 : [:blockLength / 16].size = 8 := by decide
  rw [s128, s8]
  have h0 := setLoop 128 (fun _ i => in1[i]! ^^^ in2[i]!) zeroBlock (by simp [zeroBlock, blockLength])
  simp only [pure_bind] at h0 ⊢
  rw [h0, model_rows, model_cols]
  have hR : Array.map (fun i => in1[i]! ^^^ in2[i]!) (Array.range 128) = blockXor in1 in2 := rfl
  rw [hR]
  have hp : List.foldl applyIdx (List.foldl applyIdx (blockXor in1 in2) rowIdx) colIdx = permute (blockXor in1 in2) := rfl
  rw [hp]
  cases xor
  · have h1 := setLoop 128 (fun _ a => in1[a]! ^^^ in2[a]! ^^^ (permute (blockXor in1 in2))[a]!) out ho
    simp only [Bool.false_eq_true, if_false, Id.run_pure] at h1 ⊢
    exact h1
  · have h1 := setLoop 128 (fun old a => old ^^^ (in1[a]! ^^^ in2[a]! ^^^ (permute (blockXor in1 in2))[a]!)) out ho
    simp only [if_true, Id.run_pure] at h1 ⊢
    exact h1

theorem map_range_congr {α} (n : Nat) (f g : Nat → α) (h : ∀ i, i < n → f i = g i) :
    (Array.range n).map f = (Array.range n).map g := by
  apply Array.ext
  · simp
  · intro i h1 h2
    simp at h1 h2 ⊢
    exact h i h1

/-- **(3)** `processBlockGeneric(out, in1, in2, xor = false)` is the RFC's `G(in1, in2)`. -/
theorem processBlock_eq_G (out in1 in2 : Array UInt64) (ho : out.size = 128) :
    processBlock out in1 in2 false = G in1 in2 := by
  rw [processBlock_eq out in1 in2 false ho, G_eq]
  conv => rhs; rw [blockXor]
  apply map_range_congr
  intro i hi
  rw [blockXor_getElem! in1 in2 i hi]
  simp [UInt64.xor_comm]

/-- **(3)** with `xor = true` the result is `G(in1, in2) xor out` (RFC 3.2 step 6, later passes). -/
theorem processBlock_xor_eq_G (out in1 in2 : Array UInt64) (ho : out.size = 128) :
    processBlock out in1 in2 true = blockXor (G in1 in2) out := by
  rw [processBlock_eq out in1 in2 true ho, G_eq]
  conv => rhs; rw [blockXor]
  apply map_range_congr
  intro i hi
  rw [blockXor_getElem! _ _ i hi, blockXor_getElem! in1 in2 i hi]
  simp [UInt64.xor_comm]

end GoCrypt.Argon2Eq
