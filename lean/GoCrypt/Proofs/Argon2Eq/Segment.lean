import GoCrypt.Proofs.Argon2Eq.Struct

/-!
# Argon2: model = RFC 9106 reference, part 5 — one segment

`processSegment` (model, with its lazily refreshed address block, `uint32` offsets and fuel loop)
computes the same memory as the reference's segment loop, provided every block has 128 words and —
in pass 0 — the blocks of the segment that are about to be written are still zero (the model XORs
into them when `version ≠ 0x10`).
-/

open GoCrypt
open GoCrypt.Kdf.Argon2 GoCrypt.Spec.Argon2Rfc
open GoCrypt.Gen.argon2crypto

namespace GoCrypt.Argon2Eq

/-! ## small facts about blocks -/

theorem zeroBlock_eq_ZERO : zeroBlock = ZERO := rfl

theorem blockXor_size (X Y : RBlock) : (blockXor X Y).size = 128 := by simp [blockXor]

theorem G_size (X Y : RBlock) : (G X Y).size = 128 := by rw [G_eq]; exact blockXor_size _ _

theorem blockXor_comm (X Y : RBlock) : blockXor X Y = blockXor Y X := by
  unfold blockXor
  apply map_range_congr
  intro i _
  exact UInt64.xor_comm _ _

theorem G_comm (X Y : RBlock) : G X Y = G Y X := by
  rw [G_eq, G_eq, blockXor_comm X Y]

theorem ZERO_getElem! (k : Nat) : ZERO[k]! = 0 := by
  unfold ZERO
  by_cases h : k < 128
  · simp [getElem!_pos, h]
  · rw [getElem!_neg _ _ (by simpa using h)]; rfl

theorem blockXor_ZERO (X : RBlock) (h : X.size = 128) : blockXor X ZERO = X := by
  apply Array.ext
  · simp [blockXor, h]
  · intro i h1 h2
    have hi : i < 128 := by simpa [blockXor] using h1
    simp [blockXor, ZERO_getElem!, getElem!_pos, h, hi]

theorem processBlock_size (out in1 in2 : RBlock) (xor : Bool) (h : out.size = 128) :
    (processBlock out in1 in2 xor).size = 128 := by
  rw [processBlock_eq out in1 in2 xor h]; simp

/-- the model's address-block computation `processBlock(&a, &in, &zero); processBlock(&a, &a, &zero)` -/
theorem addresses_eq (a z : RBlock) (h : a.size = 128) :
    processBlock (processBlock a z zeroBlock false) (processBlock a z zeroBlock false) zeroBlock false
      = G ZERO (G ZERO z) := by
  rw [processBlock_eq_G _ _ _ (processBlock_size _ _ _ _ h), processBlock_eq_G _ _ _ h, zeroBlock_eq_ZERO,
    G_comm z ZERO, G_comm (G ZERO z) ZERO]

/-! ## the input block `Z` of the address generator -/

/-- `Z = LE64(r) ‖ LE64(l) ‖ LE64(sl) ‖ LE64(m') ‖ LE64(t) ‖ LE64(y) ‖ LE64(i) ‖ ZERO(968)` with counter word `c` -/
def Zarr (r l sl m' t y : Nat) (c : UInt64) : RBlock :=
  (UInt64.ofNat r :: UInt64.ofNat l :: UInt64.ofNat sl :: UInt64.ofNat m' :: UInt64.ofNat t :: UInt64.ofNat y :: c
    :: List.replicate 121 0).toArray

theorem addressBlock_eq (r l sl m' t y i : Nat) :
    addressBlock r l sl m' t y i = G ZERO (G ZERO (Zarr r l sl m' t y (UInt64.ofNat i))) := by
  simp [addressBlock, Zarr]

theorem replicate128 : List.replicate 128 (0 : UInt64) = 0 :: 0 :: 0 :: 0 :: 0 :: 0 :: 0 :: List.replicate 121 0 := by
  simp [List.replicate_succ]

theorem Zarr_init (r l sl m' t y : Nat) :
    (((((zeroBlock.set! 0 (UInt64.ofNat r)).set! 1 (UInt64.ofNat l)).set! 2 (UInt64.ofNat sl)).set! 3
        (UInt64.ofNat m')).set! 4 (UInt64.ofNat t)).set! 5 (UInt64.ofNat y) = Zarr r l sl m' t y 0 := by
  have : zeroBlock = (List.replicate 128 (0 : UInt64)).toArray := by
    apply Array.toList_inj.mp
    simp only [zeroBlock, blockLength, Array.toList_replicate]
  rw [this, replicate128]
  simp [Zarr]

theorem Zarr_incr (r l sl m' t y : Nat) (c : UInt64) :
    (Zarr r l sl m' t y c).set! 6 ((Zarr r l sl m' t y c)[6]! + 1) = Zarr r l sl m' t y (c + 1) := by
  simp [Zarr]

theorem ofNat_succ (c : Nat) : UInt64.ofNat c + 1 = UInt64.ofNat (c + 1) := by
  simp [UInt64.ofNat_add]

/-! ## one segment: domain, invariants -/

/-- the parameters of one `processSegment` call inside `Key` -/
structure SegDom (m' p q L slice lane : Nat) : Prop where
  hL : 2 ≤ L
  hq : q = 4 * L
  hm : m' = p * q
  hm32 : m' < 2 ^ 32
  hslice : slice < 4
  hlane : lane < p

theorem SegDom.lane_le {m' p q L slice lane : Nat} (D : SegDom m' p q L slice lane) : lane * q + q ≤ m' := by
  have : (lane + 1) * q ≤ p * q := Nat.mul_le_mul_right q D.hlane
  rw [Nat.add_mul, Nat.one_mul] at this
  rw [D.hm]; exact this

theorem SegDom.slice_le {m' p q L slice lane : Nat} (D : SegDom m' p q L slice lane) : slice * L + L ≤ q := by
  have : (slice + 1) * L ≤ 4 * L := Nat.mul_le_mul_right L D.hslice
  rw [Nat.add_mul, Nat.one_mul] at this
  rw [D.hq]; exact this

/-- first index computed in the segment (`2` in the very first slice, else `0`) -/
def i0 (n slice : Nat) : Nat := if n = 0 ∧ slice = 0 then 2 else 0

/-- every block of the memory has 128 words -/
def BOk (m' : Nat) (B : Array RBlock) : Prop := B.size = m' ∧ ∀ k, k < m' → B[k]!.size = 128

/-- in pass 0 the blocks of the segment that are not yet computed are still zero -/
def ZeroFrom (q L n slice lane idx : Nat) (B : Array RBlock) : Prop :=
  n = 0 → ∀ idx', idx ≤ idx' → idx' < L → B[lane * q + (slice * L + idx')]! = ZERO

/-- state of the model's address generator before the iteration with `index = idx` -/
def AInv (t m' y n slice lane idx : Nat) (addresses in_ : RBlock) : Prop :=
  dataIndependent y n slice = true →
    in_ = Zarr n lane slice m' t y (UInt64.ofNat ((idx + 127) / 128)) ∧ addresses.size = 128 ∧
    (idx % 128 ≠ 0 → addresses = addressBlock n lane slice m' t y ((idx + 127) / 128))

theorem DIm_eq (y n slice : Nat) : DIm y n slice = dataIndependent y n slice := rfl

theorem addressBlock_size (r l sl m' t y i : Nat) : (addressBlock r l sl m' t y i).size = 128 := by
  rw [addressBlock_eq]; exact G_size _ _

/-- `prev` of the model = `(j - 1) mod q` of the RFC -/
theorem prev_eq {m' p q L slice lane : Nat} (D : SegDom m' p q L slice lane) (n idx : Nat)
    (hi0 : i0 n slice ≤ idx) (hidx : idx < L) :
    (if (idx == 0 && slice == 0) = true then
        u32 (u32 (lane * q + (slice * L + idx) + 4294967296 - 1) + q)
      else u32 (lane * q + (slice * L + idx) + 4294967296 - 1))
    = lane * q + (slice * L + idx + q - 1) % q := by
  have h1 := D.lane_le
  have h2 := D.slice_le
  have h3 := D.hm32
  have hL := D.hL
  by_cases h : idx = 0 ∧ slice = 0
  · obtain ⟨ha, hb⟩ := h
    subst ha; subst hb
    have hq0 : (0 * L + 0 + q - 1) % q = q - 1 := by
      simp only [Nat.zero_mul, Nat.zero_add]; exact Nat.mod_eq_of_lt (by omega : q - 1 < q)
    simp only [beq_self_eq_true, Bool.and_self, if_true, hq0, u32]
    omega
  · have hc : (idx == 0 && slice == 0) = false := by
      simp only [Bool.and_eq_false_iff, beq_eq_false_iff_ne]; omega
    have hj : 1 ≤ slice * L + idx := by
      by_cases hs : slice = 0
      · omega
      · have : 1 * L ≤ slice * L := Nat.mul_le_mul_right L (by omega)
        omega
    have hq0 : (slice * L + idx + q - 1) % q = slice * L + idx - 1 := by
      rw [show slice * L + idx + q - 1 = (slice * L + idx - 1) + q by omega, Nat.add_mod_right]
      exact Nat.mod_eq_of_lt (by omega)
    simp only [hc, Bool.false_eq_true, if_false, hq0, u32]
    omega

/-- the model's lazily refreshed address block is the RFC's `idx/128 + 1`-st address block -/
theorem addr_step (t m' y n slice lane idx : Nat) (addresses in_ : RBlock)
    (hdi : dataIndependent y n slice = true) (hA : AInv t m' y n slice lane idx addresses in_) :
    let refresh : Bool := idx % blockLength == 0
    let in' := if refresh = true then in_.set! 6 (in_[6]! + 1) else in_
    let a1 := processBlock addresses in' zeroBlock false
    let addresses' := if refresh = true then processBlock a1 a1 zeroBlock false else addresses
    addresses' = addressBlock n lane slice m' t y (idx / 128 + 1) ∧
      AInv t m' y n slice lane (idx + 1) addresses' in' := by
  obtain ⟨hin, hsz, hadr⟩ := hA hdi
  intro refresh in' a1 addresses'
  have hc1 : (idx + 1 + 127) / 128 = idx / 128 + 1 := by omega
  by_cases hr : idx % 128 = 0
  · have hrf : refresh = true := by simp [refresh, blockLength, hr]
    have hc : (idx + 127) / 128 = idx / 128 := by omega
    have hin' : in' = Zarr n lane slice m' t y (UInt64.ofNat (idx / 128 + 1)) := by
      simp only [in', hrf, if_true, hin, Zarr_incr, hc, ofNat_succ]
    have hadr' : addresses' = addressBlock n lane slice m' t y (idx / 128 + 1) := by
      simp only [addresses', a1, hrf, if_true]
      rw [addresses_eq _ _ hsz, hin', addressBlock_eq]
    refine ⟨hadr', ?_⟩
    intro _
    refine ⟨by rw [hc1]; exact hin', by rw [hadr']; exact addressBlock_size .., ?_⟩
    intro _; rw [hc1]; exact hadr'
  · have hrf : refresh = false := by simp [refresh, blockLength, hr]
    have hc : (idx + 127) / 128 = idx / 128 + 1 := by omega
    have hin' : in' = in_ := by simp only [in', hrf, Bool.false_eq_true, if_false]
    have hadr' : addresses' = addressBlock n lane slice m' t y (idx / 128 + 1) := by
      simp only [addresses', hrf, Bool.false_eq_true, if_false]
      rw [hadr hr, hc]
    refine ⟨hadr', ?_⟩
    intro _
    refine ⟨by rw [hc1, hin', hin, hc], by rw [hadr']; exact addressBlock_size .., ?_⟩
    intro _; rw [hc1]; exact hadr'

/-- the write of the model (`xor` mode unless version 0x10) is the write of the RFC -/
theorem write_eq (m' v n off : Nat) (B : Array RBlock) (X Y : RBlock) (hB : BOk m' B) (hoff : off < m')
    (hz : n = 0 → B[off]! = ZERO) :
    setB B off (processBlock B[off]! X Y (!(v == version10)))
      = B.set! off (if (n == 0 || v == 0x10) = true then G X Y else blockXor (G X Y) B[off]!) := by
  have hsz : B[off]!.size = 128 := hB.2 off hoff
  have hin : off < B.size := by rw [hB.1]; exact hoff
  simp only [setB, hin, if_true]
  by_cases hv : v = 16
  · subst hv
    have : (16 == version10) = true := rfl
    have h16 : ((16 : Nat) == 16) = true := rfl
    simp only [this, Bool.not_true, processBlock_eq_G _ _ _ hsz, h16, Bool.or_true, if_true]
  · have h1 : (v == version10) = false := by simp [version10, hv]
    have h2 : (v == 16) = false := by simp [hv]
    simp only [h1, Bool.not_false, processBlock_xor_eq_G _ _ _ hsz, h2, Bool.or_false]
    by_cases hn : n = 0
    · simp only [hn, beq_self_eq_true, if_true, hz hn, blockXor_ZERO _ (G_size _ _)]
    · have : (n == 0) = false := by simp [hn]
      simp only [this, Bool.false_eq_true, if_false]

/-! ## one iteration of the model = one step of the reference -/

theorem mStep_real {m' p q L slice lane : Nat} (D : SegDom m' p q L slice lane) (t y v n idx : Nat)
    (B : Array RBlock) (addresses in_ : RBlock) (rnd : UInt64)
    (hB : BOk m' B) (hZ : ZeroFrom q L n slice lane idx B) (hi0 : i0 n slice ≤ idx) (hidx : idx < L)
    (hA : AInv t m' y n slice lane idx addresses in_) :
    (mStep p y v q L n slice lane (B, addresses, in_, idx, lane * q + (slice * L + idx), rnd)).1
        = rStep (addressBlock n lane slice m' t y) y v p q L n slice lane B idx ∧
    (mStep p y v q L n slice lane (B, addresses, in_, idx, lane * q + (slice * L + idx), rnd)).2.2.2.1 = idx + 1 ∧
    (mStep p y v q L n slice lane (B, addresses, in_, idx, lane * q + (slice * L + idx), rnd)).2.2.2.2.1
        = lane * q + (slice * L + (idx + 1)) ∧
    AInv t m' y n slice lane (idx + 1)
      (mStep p y v q L n slice lane (B, addresses, in_, idx, lane * q + (slice * L + idx), rnd)).2.1
      (mStep p y v q L n slice lane (B, addresses, in_, idx, lane * q + (slice * L + idx), rnd)).2.2.1 := by
  have h1 := D.lane_le
  have h2 := D.slice_le
  have h3 := D.hm32
  have hoff : lane * q + (slice * L + idx) < m' := by omega
  unfold mStep
  simp only [hidx, if_true, prev_eq D n idx hi0 hidx, DIm_eq]
  rw [write_eq m' v n _ B _ _ hB hoff (fun hn => hZ hn idx (Nat.le_refl _) hidx)]
  have hJ : ∀ J : UInt64, indexAlpha J.toNat q L p n slice lane idx
      = (refIndex p q L n slice lane idx (J.toNat % 2 ^ 32) (J.toNat / 2 ^ 32)).1 * q
        + (refIndex p q L n slice lane idx (J.toNat % 2 ^ 32) (J.toNat / 2 ^ 32)).2 := by
    intro J
    have hq := D.hq
    subst hq
    refine indexAlpha_eq_refIndex J.toNat L p n slice lane idx (UInt64.toNat_lt J) D.hL ?_ D.hslice D.hlane hidx ?_
    · rw [← D.hm]; exact h3
    · intro hn hs
      have : i0 n slice = 2 := by simp [i0, hn, hs]
      omega
  refine ⟨?_, by simp only [u32]; omega, by simp only [u32]; omega, ?_⟩
  · rw [hJ]
    unfold rStep
    by_cases hdi : dataIndependent y n slice = true
    · have hadr := (addr_step t m' y n slice lane idx addresses in_ hdi hA).1
      simp only [hdi, Bool.true_and, if_true] at hadr ⊢
      rw [hadr]
      rfl
    · simp only [hdi, if_false, Bool.false_eq_true]
  · by_cases hdi : dataIndependent y n slice = true
    · have hadr := (addr_step t m' y n slice lane idx addresses in_ hdi hA).2
      simp only [hdi, Bool.true_and] at hadr ⊢
      exact hadr
    · intro h; exact absurd h hdi

theorem getElem!_set! {α} [Inhabited α] (B : Array α) (i k : Nat) (v : α) :
    (B.set! i v)[k]! = if i = k ∧ i < B.size then v else B[k]! := by
  simp only [Array.set!_eq_setIfInBounds, Array.getElem!_eq_getD, Array.getD_eq_getD_getElem?,
    Array.getElem?_setIfInBounds]
  by_cases h : i = k
  · subst h
    by_cases h2 : i < B.size
    · simp [h2]
    · simp [h2]
  · simp [h]

theorem rStep_val_size (AB : Nat → RBlock) (y v p q L r sl i : Nat) (B : Array RBlock) (idx : Nat) :
    ∃ val : RBlock, val.size = 128 ∧ rStep AB y v p q L r sl i B idx = B.set! (i * q + (sl * L + idx)) val := by
  unfold rStep
  refine ⟨_, ?_, rfl⟩
  split
  · exact G_size _ _
  · exact blockXor_size _ _

theorem rStep_frame (AB : Nat → RBlock) (y v p q L r sl i : Nat) (B : Array RBlock) (idx k : Nat)
    (hk : k ≠ i * q + (sl * L + idx)) : (rStep AB y v p q L r sl i B idx)[k]! = B[k]! := by
  obtain ⟨val, _, he⟩ := rStep_val_size AB y v p q L r sl i B idx
  rw [he, getElem!_set!]
  have : ¬ (i * q + (sl * L + idx) = k ∧ i * q + (sl * L + idx) < B.size) := fun h => hk h.1.symm
  simp only [this, if_false]

theorem rStep_BOk (AB : Nat → RBlock) (y v p q L r sl i m' : Nat) (B : Array RBlock) (idx : Nat) (hB : BOk m' B) :
    BOk m' (rStep AB y v p q L r sl i B idx) := by
  obtain ⟨val, hv, he⟩ := rStep_val_size AB y v p q L r sl i B idx
  rw [he]
  refine ⟨by simp [hB.1], ?_⟩
  intro k hk
  rw [getElem!_set!]
  split
  · exact hv
  · exact hB.2 k hk

theorem rStep_ZeroFrom (AB : Nat → RBlock) (y v p q L n slice lane : Nat) (B : Array RBlock) (idx : Nat)
    (hZ : ZeroFrom q L n slice lane idx B) :
    ZeroFrom q L n slice lane (idx + 1) (rStep AB y v p q L n slice lane B idx) := by
  intro hn idx' h1 h2
  rw [rStep_frame _ _ _ _ _ _ _ _ _ _ _ _ (by omega)]
  exact hZ hn idx' (by omega) h2

/-! ## iterating the model's loop body -/

def iter {σ : Type} (f : σ → σ) : Nat → σ → σ
  | 0, s => s
  | k + 1, s => iter f k (f s)

theorem foldl_const_eq_iter {σ : Type} (f : σ → σ) (n : Nat) : ∀ (a : Nat) (init : σ),
    (List.range' a n).foldl (fun s _ => f s) init = iter f n init := by
  induction n with
  | zero => intro a init; rfl
  | succ n ih => intro a init; rw [List.range'_succ, List.foldl_cons, ih]; rfl

theorem iter_add {σ : Type} (f : σ → σ) (a b : Nat) : ∀ s : σ, iter f (a + b) s = iter f b (iter f a s) := by
  induction a with
  | zero => intro s; rw [Nat.zero_add]; rfl
  | succ a ih => intro s; rw [Nat.succ_add]; exact ih (f s)

theorem iter_fix {σ : Type} (f : σ → σ) (s : σ) (h : f s = s) : ∀ k, iter f k s = s := by
  intro k
  induction k with
  | zero => rfl
  | succ k ih => show iter f k (f s) = s; rw [h, ih]

theorem model_real_steps {m' p q L slice lane : Nat} (D : SegDom m' p q L slice lane) (t y v n : Nat) :
    ∀ (k idx : Nat) (B : Array RBlock) (addresses in_ : RBlock) (rnd : UInt64),
      idx + k = L → i0 n slice ≤ idx → BOk m' B → ZeroFrom q L n slice lane idx B →
      AInv t m' y n slice lane idx addresses in_ →
      ∃ a' i' r', iter (mStep p y v q L n slice lane) k (B, addresses, in_, idx, lane * q + (slice * L + idx), rnd)
        = ((List.range' idx k).foldl (rStep (addressBlock n lane slice m' t y) y v p q L n slice lane) B,
            a', i', L, lane * q + (slice * L + L), r') := by
  intro k
  induction k with
  | zero =>
    intro idx B addresses in_ rnd hk _ _ _ _
    have : idx = L := by omega
    subst this
    exact ⟨addresses, in_, rnd, rfl⟩
  | succ k ih =>
    intro idx B addresses in_ rnd hk hi0 hB hZ hA
    have hidx : idx < L := by omega
    obtain ⟨e1, e2, e3, e4⟩ := mStep_real D t y v n idx B addresses in_ rnd hB hZ hi0 hidx hA
    have eta : ∀ s : MState, s = (s.1, s.2.1, s.2.2.1, s.2.2.2.1, s.2.2.2.2.1, s.2.2.2.2.2) := fun _ => rfl
    show ∃ a' i' r', iter _ k (mStep p y v q L n slice lane _) = _
    rw [eta (mStep p y v q L n slice lane _), e1, e2, e3]
    obtain ⟨a', i', r', h⟩ := ih (idx + 1) _ _ _ _ (by omega) (by omega)
      (rStep_BOk _ y v p q L n slice lane m' B idx hB) (rStep_ZeroFrom _ y v p q L n slice lane B idx hZ) e4
    exact ⟨a', i', r', by rw [h, List.range'_succ, List.foldl_cons]⟩

theorem mStep_idle (p y v q L n slice lane : Nat) (s : MState) (h : s.2.2.2.1 = L) :
    mStep p y v q L n slice lane s = s := by
  unfold mStep
  have : ¬ s.2.2.2.1 < L := by omega
  simp only [this, if_false]

theorem mInit_eq {m' p q L slice lane : Nat} (D : SegDom m' p q L slice lane) (t y n : Nat) (B : Array RBlock) :
    ∃ a0 in1, mInit B t m' y q L n slice lane
        = (B, a0, in1, i0 n slice, lane * q + (slice * L + i0 n slice), 0) ∧
      AInv t m' y n slice lane (i0 n slice) a0 in1 := by
  have h1 := D.lane_le
  have h2 := D.slice_le
  have h3 := D.hm32
  have hL := D.hL
  unfold mInit
  simp only [DIm_eq]
  by_cases hf : n = 0 ∧ slice = 0
  · obtain ⟨hn, hs⟩ := hf
    subst hn; subst hs
    have hi : i0 0 0 = 2 := rfl
    have hoff : u32 (u32 (u32 (lane * q) + u32 (0 * L)) + 2) = lane * q + (0 * L + 2) := by
      simp only [u32]; omega
    simp only [beq_self_eq_true, Bool.and_self, if_true, Bool.true_and, hi, hoff]
    refine ⟨_, _, rfl, ?_⟩
    intro hdi
    have hy : (y == argon2i || y == argon2id) = true := by
      simp only [dataIndependent] at hdi
      simp only [argon2i, argon2id]
      revert hdi
      cases (y == 1) <;> cases (y == 2) <;> simp
    simp only [hdi, hy, if_true, Zarr_init, Zarr_incr]
    refine ⟨by simp, processBlock_size _ _ _ _ (processBlock_size _ _ _ _ (by simp [zeroBlock, blockLength])), ?_⟩
    intro _
    rw [addresses_eq _ _ (by simp [zeroBlock, blockLength]), addressBlock_eq]
    simp
  · have hc : (n == 0 && slice == 0) = false := by
      simp only [Bool.and_eq_false_iff, beq_eq_false_iff_ne]; omega
    have hi : i0 n slice = 0 := by simp [i0, hf]
    have hoff : u32 (u32 (u32 (lane * q) + u32 (slice * L)) + 0) = lane * q + (slice * L + 0) := by
      simp only [u32]; omega
    simp only [hc, Bool.false_and, Bool.false_eq_true, if_false, hi, hoff]
    refine ⟨_, _, rfl, ?_⟩
    intro hdi
    simp only [hdi, if_true, Zarr_init]
    exact ⟨rfl, by simp [zeroBlock, blockLength], fun h => absurd rfl h⟩

/-- **the model's segment** = the RFC steps `idx = i0, …, segLen - 1` -/
theorem processSegment_eq_steps {m' p q L slice lane : Nat} (D : SegDom m' p q L slice lane) (t y v n : Nat)
    (B : Array RBlock) (hB : BOk m' B) (hZ : ZeroFrom q L n slice lane (i0 n slice) B) :
    processSegment B t m' p y v q L n slice lane
      = (List.range' (i0 n slice) (L - i0 n slice)).foldl
          (rStep (addressBlock n lane slice m' t y) y v p q L n slice lane) B := by
  have hi0 : i0 n slice ≤ L := by
    have := D.hL
    unfold i0; split <;> omega
  rw [processSegment_eq_foldl, foldl_const_eq_iter]
  obtain ⟨a0, in1, hinit, hA⟩ := mInit_eq D t y n B
  have hsplit : ∀ s : MState, iter (mStep p y v q L n slice lane) L s
      = iter (mStep p y v q L n slice lane) (i0 n slice) (iter (mStep p y v q L n slice lane) (L - i0 n slice) s) := by
    intro s
    rw [← iter_add]
    congr 1
    omega
  rw [hinit, hsplit]
  obtain ⟨a', i', r', h⟩ := model_real_steps D t y v n (L - i0 n slice) (i0 n slice) B a0 in1 0 (by omega)
    (Nat.le_refl _) hB hZ hA
  rw [h, iter_fix _ _ (mStep_idle p y v q L n slice lane _ rfl)]

/-! ## the reference's segment -/

theorem foldl_congr_mem {α β : Type} (f g : β → α → β) (l : List α) (h : ∀ b a, a ∈ l → f b a = g b a) :
    ∀ init, l.foldl f init = l.foldl g init := by
  induction l with
  | nil => intro _; rfl
  | cons x xs ih =>
    intro init
    rw [List.foldl_cons, List.foldl_cons, h init x (List.mem_cons_self ..)]
    exact ih (fun b a ha => h b a (List.mem_cons_of_mem _ ha)) _

theorem foldl_id_mem {α β : Type} (f : β → α → β) (l : List α) (h : ∀ b a, a ∈ l → f b a = b) :
    ∀ init, l.foldl f init = init := by
  induction l with
  | nil => intro _; rfl
  | cons x xs ih =>
    intro init
    rw [List.foldl_cons, h init x (List.mem_cons_self ..)]
    exact ih (fun b a ha => h b a (List.mem_cons_of_mem _ ha)) _

/-- `rStep` only looks at the address block `idx/128 + 1`, and only for data-independent segments -/
theorem rStep_congr_AB (AB AB' : Nat → RBlock) (y v p q L r sl i : Nat) (B : Array RBlock) (idx : Nat)
    (h : dataIndependent y r sl = true → AB (idx / 128 + 1) = AB' (idx / 128 + 1)) :
    rStep AB y v p q L r sl i B idx = rStep AB' y v p q L r sl i B idx := by
  unfold rStep
  by_cases hdi : dataIndependent y r sl = true
  · simp only [hdi, if_true, h hdi]
  · simp only [hdi, Bool.false_eq_true, if_false]

/-- **the reference's segment** = the RFC steps `idx = i0, …, segLen - 1` -/
theorem refSegment_eq_steps {m' p q L slice lane : Nat} (D : SegDom m' p q L slice lane) (t y v n : Nat)
    (B : Array RBlock) :
    refSegment y v p q L m' t n slice lane B
      = (List.range' (i0 n slice) (L - i0 n slice)).foldl
          (rStep (addressBlock n lane slice m' t y) y v p q L n slice lane) B := by
  have hL := D.hL
  have hi0 : i0 n slice ≤ L := by unfold i0; split <;> omega
  rw [refSegment_eq_foldl]
  have hsplit : List.range' 0 L = List.range' 0 (i0 n slice) ++ List.range' (i0 n slice) (L - i0 n slice) := by
    have := List.range'_append_1 (s := 0) (m := i0 n slice) (n := L - i0 n slice)
    rw [Nat.zero_add] at this
    rw [this]; congr 1; omega
  rw [hsplit, List.foldl_append]
  -- the skipped iterations
  rw [foldl_id_mem _ (List.range' 0 (i0 n slice))]
  · -- the real iterations
    apply foldl_congr_mem
    intro b idx hmem
    rw [List.mem_range'_1] at hmem
    have hidx : idx < L := by omega
    have hskip : (n == 0 && decide (slice * L + idx < 2)) = false := by
      by_cases hf : n = 0 ∧ slice = 0
      · have : i0 n slice = 2 := by simp [i0, hf]
        have : ¬ (slice * L + idx < 2) := by omega
        simp [this]
      · by_cases hn : n = 0
        · have hs : slice ≠ 0 := fun h => hf ⟨hn, h⟩
          have : 1 * L ≤ slice * L := Nat.mul_le_mul_right L (by omega)
          have : ¬ (slice * L + idx < 2) := by omega
          simp [this]
        · simp [hn]
    simp only [hskip, Bool.false_eq_true, if_false]
    apply rStep_congr_AB
    intro hdi
    simp only [hdi, if_true, Nat.add_sub_cancel]
    have hc : idx / 128 < (L + 127) / 128 := by omega
    rw [getElem!_pos _ _ (by simpa using hc)]
    simp
  · intro b idx hmem
    rw [List.mem_range'_1] at hmem
    have hf : n = 0 ∧ slice = 0 := by
      by_cases hf : n = 0 ∧ slice = 0
      · exact hf
      · have : i0 n slice = 0 := by simp [i0, hf]
        omega
    have : i0 n slice = 2 := by simp [i0, hf]
    have hlt : slice * L + idx < 2 := by rw [hf.2]; omega
    simp [hf.1, hlt]

theorem steps_BOk (AB : Nat → RBlock) (y v p q L r sl i m' : Nat) (k : Nat) : ∀ (a : Nat) (B : Array RBlock),
    BOk m' B → BOk m' ((List.range' a k).foldl (rStep AB y v p q L r sl i) B) := by
  induction k with
  | zero => intro a B h; exact h
  | succ k ih =>
    intro a B h
    rw [List.range'_succ, List.foldl_cons]
    exact ih _ _ (rStep_BOk AB y v p q L r sl i m' B a h)

theorem steps_frame (AB : Nat → RBlock) (y v p q L r sl i : Nat) (pos : Nat) (k : Nat) : ∀ (a : Nat) (B : Array RBlock),
    (∀ idx, a ≤ idx → idx < a + k → pos ≠ i * q + (sl * L + idx)) →
    ((List.range' a k).foldl (rStep AB y v p q L r sl i) B)[pos]! = B[pos]! := by
  induction k with
  | zero => intro a B _; rfl
  | succ k ih =>
    intro a B h
    rw [List.range'_succ, List.foldl_cons, ih _ _ (fun idx h1 h2 => h idx (by omega) (by omega))]
    exact rStep_frame AB y v p q L r sl i B a pos (h a (Nat.le_refl _) (by omega))

/-- **one segment**: model = reference, the block sizes are preserved, and nothing outside the
segment is written. -/
theorem segment_eq {m' p q L slice lane : Nat} (D : SegDom m' p q L slice lane) (t y v n : Nat)
    (B : Array RBlock) (hB : BOk m' B) (hZ : ZeroFrom q L n slice lane (i0 n slice) B) :
    processSegment B t m' p y v q L n slice lane = refSegment y v p q L m' t n slice lane B ∧
    BOk m' (refSegment y v p q L m' t n slice lane B) ∧
    ∀ pos, (∀ idx, idx < L → pos ≠ lane * q + (slice * L + idx)) →
      (refSegment y v p q L m' t n slice lane B)[pos]! = B[pos]! := by
  have hi0 : i0 n slice ≤ L := by
    have := D.hL
    unfold i0; split <;> omega
  rw [processSegment_eq_steps D t y v n B hB hZ, refSegment_eq_steps D t y v n B]
  refine ⟨rfl, steps_BOk _ y v p q L n slice lane m' _ _ B hB, ?_⟩
  intro pos hpos
  exact steps_frame _ y v p q L n slice lane pos _ _ B (fun idx _ h2 => hpos idx (by omega))

end GoCrypt.Argon2Eq
