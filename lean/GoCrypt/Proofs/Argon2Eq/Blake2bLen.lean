import GoCrypt.Prim.Blake2b

/-!
# The BLAKE2b digest of size `k ≤ 64` has `k` bytes

The only property of the BLAKE2b primitive that the Argon2 correspondence needs (the 72-byte `h0`
buffer of `initBlocks` is patched at offsets 64 and 68).
-/

open GoCrypt
namespace GoCrypt.Argon2Eq
open GoCrypt.Prim


theorem compress_h_size (st : Blake2b.State) (flag : UInt64) (blocks : ByteArray) (off : Nat) :
    (Blake2b.compress st flag blocks off).h.size = 8 := by
  unfold Blake2b.compress
  simp only [bind_pure_comp, Id.run_map, Id.run_bind]
  rfl

theorem push8_size (v : UInt64) (s : ByteArray) :
    (List.foldl (fun (b : ByteArray) a => b.push (v >>> UInt64.ofNat (8 * a)).toUInt8) s (List.range' 0 8)).size
      = s.size + 8 := by
  have : List.range' 0 8 = [0, 1, 2, 3, 4, 5, 6, 7] := by decide
  simp only [this, List.foldl_cons, List.foldl_nil, ByteArray.size_push]

theorem out_size (hs : List UInt64) : ∀ init : ByteArray,
    (List.foldl (fun (s : ByteArray) v =>
      List.foldl (fun (b : ByteArray) a => b.push (v >>> UInt64.ofNat (8 * a)).toUInt8) s (List.range' 0 8)) init hs).size
      = init.size + 8 * hs.length := by
  induction hs with
  | nil => intro init; simp
  | cons x xs ih =>
    intro init
    rw [List.foldl_cons, ih, push8_size, List.length_cons]
    omega

theorem out_loop_size (hs : Array UInt64) (init : ByteArray) :
    (forIn (m := Id) hs init fun v s =>
      pure (ForInStep.yield
        (List.foldl (fun (b : ByteArray) a => b.push (v >>> UInt64.ofNat (8 * a)).toUInt8) s (List.range' 0 8)))).run.size
      = init.size + 8 * hs.size := by
  rw [← Array.forIn_toList, List.forIn_pure_yield_eq_foldl, Id.run_pure, out_size]
  simp

theorem range_size' (n : Nat) : [:n].size = n := by simp [Std.Legacy.Range.size]

theorem sumBA_size (outLen : Nat) (msg : ByteArray) (h : outLen ≤ 64) : (Blake2b.sumBA outLen msg).size = outLen := by
  unfold Blake2b.sumBA
  simp only [Std.Legacy.Range.forIn_eq_forIn_range', range_size', List.forIn_pure_yield_eq_foldl, pure_bind]
  have emp : (ByteArray.emptyWithCapacity 64).size = 0 := rfl
  split
  · split
    · simp only [Id.run_bind, Id.run_pure, ByteArray.size_extract, out_loop_size, compress_h_size, emp]
      omega
    · simp only [Id.run_bind, Id.run_pure, ByteArray.size_extract, out_loop_size, compress_h_size, emp]
      omega
  · simp only [Id.run_bind, Id.run_pure, ByteArray.size_extract, out_loop_size, compress_h_size, emp]
    omega

/-- the BLAKE2b digest of size `k ≤ 64` has `k` bytes -/
theorem blake2b_length (k : Nat) (msg : Bytes) (h : k ≤ 64) : (Prim.blake2b k msg).length = k := by
  unfold Prim.blake2b byteArrayToBytes
  rw [Array.length_toList]
  exact sumBA_size k _ h

end GoCrypt.Argon2Eq
