import GoCrypt.Proofs.Argon2Eq.Index

/-!
# Argon2: model = RFC 9106 reference, part 4 — both fill loops as `List.foldl`s

Purely structural: the `do` blocks of `processSegment` (model) and `argon2` (reference) are
re-stated with named loop bodies (`rfl`), and the bodies are turned into pure step functions.
-/

open GoCrypt
open GoCrypt.Kdf.Argon2 GoCrypt.Spec.Argon2Rfc
open GoCrypt.Gen.argon2crypto

namespace GoCrypt.Argon2Eq

/-! ## the model's `processSegment` -/


abbrev MBlock := Array UInt64
/-- loop state of `processSegment`: `(B, addresses, in, index, offset, random)` -/
abbrev MState := Array MBlock × MBlock × MBlock × Nat × Nat × UInt64

/-- the body of the `for index < segments` loop of `processSegment` (same text) -/
def mBodyM (threads mode version lanes segments n slice lane : Nat)
    (B : Array MBlock) (addresses in_ : MBlock) (index offset : Nat) (random : UInt64) :
    Id (ForInStep MState) := do
  let zero : MBlock := zeroBlock
  let mut B := B
  let mut addresses := addresses
  let mut in_ := in_
  let mut index := index
  let mut offset := offset
  let mut random := random
  if index < segments then
    let mut prev := u32 (offset + 4294967296 - 1)
    if index == 0 && slice == 0 then
      prev := u32 (prev + lanes) -- last block in lane
    if mode == argon2i || (mode == argon2id && n == 0 && slice < syncPoints / 2) then
      if index % blockLength == 0 then
        in_ := in_.set! 6 (in_[6]! + 1)
        addresses := processBlock addresses in_ zero false
        addresses := processBlock addresses addresses zero false
      random := addresses[index % blockLength]!
    else
      random := (B[prev]!)[0]!
    let newOffset :=
      GoCrypt.Gen.argon2crypto.indexAlpha random.toNat lanes segments threads n slice lane index
    if version == version10 then
      B := setB B offset (processBlock B[offset]! B[prev]! B[newOffset]! false)
    else
      B := setB B offset (processBlock B[offset]! B[prev]! B[newOffset]! true)
    index := u32 (index + 1)
    offset := u32 (offset + 1)
  return ForInStep.yield (B, addresses, in_, index, offset, random)

def mSegmentM (B : Array MBlock) (time memory threads mode version lanes segments : Nat)
    (n slice lane : Nat) : Array MBlock := Id.run do
  let mut addresses : MBlock := zeroBlock
  let mut in_ : MBlock := zeroBlock
  let zero : MBlock := zeroBlock
  if mode == argon2i || (mode == argon2id && n == 0 && slice < syncPoints / 2) then
    in_ := in_.set! 0 (UInt64.ofNat n)
    in_ := in_.set! 1 (UInt64.ofNat lane)
    in_ := in_.set! 2 (UInt64.ofNat slice)
    in_ := in_.set! 3 (UInt64.ofNat memory)
    in_ := in_.set! 4 (UInt64.ofNat time)
    in_ := in_.set! 5 (UInt64.ofNat mode)
  let mut index := 0
  if n == 0 && slice == 0 then
    index := 2
    if mode == argon2i || mode == argon2id then
      in_ := in_.set! 6 (in_[6]! + 1)
      addresses := processBlock addresses in_ zero false
      addresses := processBlock addresses addresses zero false
  let offset := u32 (u32 (u32 (lane * lanes) + u32 (slice * segments)) + index)
  let random : UInt64 := 0
  let r ← forIn [0:segments] ((B, addresses, in_, index, offset, random) : MState)
    (fun _ s => mBodyM threads mode version lanes segments n slice lane s.1 s.2.1 s.2.2.1 s.2.2.2.1 s.2.2.2.2.1 s.2.2.2.2.2)
  return r.1

theorem processSegment_eq_M (B : Array MBlock) (time memory threads mode version lanes segments n slice lane : Nat) :
    processSegment B time memory threads mode version lanes segments n slice lane
      = mSegmentM B time memory threads mode version lanes segments n slice lane := rfl

/-- the model's "data-independent addressing" test -/
def DIm (mode n slice : Nat) : Bool := mode == argon2i || (mode == argon2id && n == 0 && slice < syncPoints / 2)

/-- the loop body as a pure function on the state -/
def mStep (threads mode version lanes segments n slice lane : Nat) (s : MState) : MState :=
  if s.2.2.2.1 < segments then
    let prev0 := u32 (s.2.2.2.2.1 + 4294967296 - 1)
    let prev := if (s.2.2.2.1 == 0 && slice == 0) = true then u32 (prev0 + lanes) else prev0
    let refresh : Bool := DIm mode n slice && s.2.2.2.1 % blockLength == 0
    let in' := if refresh = true then s.2.2.1.set! 6 (s.2.2.1[6]! + 1) else s.2.2.1
    let a1 := processBlock s.2.1 in' zeroBlock false
    let addresses' := if refresh = true then processBlock a1 a1 zeroBlock false else s.2.1
    let random := if DIm mode n slice = true then addresses'[s.2.2.2.1 % blockLength]! else (s.1[prev]!)[0]!
    let newOffset := indexAlpha random.toNat lanes segments threads n slice lane s.2.2.2.1
    let B' := setB s.1 s.2.2.2.2.1
      (processBlock s.1[s.2.2.2.2.1]! s.1[prev]! s.1[newOffset]! (!(version == version10)))
    (B', addresses', in', u32 (s.2.2.2.1 + 1), u32 (s.2.2.2.2.1 + 1), random)
  else s

set_option linter.unusedSimpArgs false in
theorem mBodyM_eq (threads mode version lanes segments n slice lane : Nat)
    (B : Array MBlock) (addresses in_ : MBlock) (index offset : Nat) (random : UInt64) :
    mBodyM threads mode version lanes segments n slice lane B addresses in_ index offset random
      = pure (ForInStep.yield (mStep threads mode version lanes segments n slice lane
          (B, addresses, in_, index, offset, random))) := by
  unfold mBodyM mStep
  have hdi : (mode == argon2i || (mode == argon2id && n == 0 && decide (slice < syncPoints / 2))) = DIm mode n slice := rfl
  simp only [hdi]
  by_cases h1 : index < segments <;> by_cases h2 : (index == 0 && slice == 0) = true <;>
    by_cases h3 : DIm mode n slice = true <;> by_cases h4 : (index % blockLength == 0) = true <;>
    by_cases h5 : (version == version10) = true <;>
    simp only [h1, h2, h3, h4, h5, if_true, if_false, Bool.and_true, Bool.true_and, Bool.and_false, Bool.false_and,
      Bool.not_true, Bool.not_false, Bool.false_eq_true, Bool.not_eq_true] <;> rfl

theorem forIn_mBodyM (threads mode version lanes segments n slice lane : Nat) (l : List Nat) (init : MState) :
    forIn (m := Id) l init
      (fun _ s => mBodyM threads mode version lanes segments n slice lane s.1 s.2.1 s.2.2.1 s.2.2.2.1 s.2.2.2.2.1 s.2.2.2.2.2)
      = pure (l.foldl (fun s _ => mStep threads mode version lanes segments n slice lane s) init) := by
  have eta : ∀ s : MState, (s.1, s.2.1, s.2.2.1, s.2.2.2.1, s.2.2.2.2.1, s.2.2.2.2.2) = s := fun _ => rfl
  simp only [mBodyM_eq, eta]
  exact List.forIn_pure_yield_eq_foldl _ _

/-- the state with which `processSegment` enters its loop -/
def mInit (B : Array MBlock) (time memory mode lanes segments n slice lane : Nat) : MState :=
  let in0 : MBlock := if DIm mode n slice = true then
      (((((zeroBlock.set! 0 (UInt64.ofNat n)).set! 1 (UInt64.ofNat lane)).set! 2 (UInt64.ofNat slice)).set! 3
        (UInt64.ofNat memory)).set! 4 (UInt64.ofNat time)).set! 5 (UInt64.ofNat mode)
    else zeroBlock
  let fa : Bool := (n == 0 && slice == 0) && (mode == argon2i || mode == argon2id)
  let in1 := if fa = true then in0.set! 6 (in0[6]! + 1) else in0
  let a1 := processBlock zeroBlock in1 zeroBlock false
  let addresses := if fa = true then processBlock a1 a1 zeroBlock false else zeroBlock
  let index := if (n == 0 && slice == 0) = true then 2 else 0
  (B, addresses, in1, index, u32 (u32 (u32 (lane * lanes) + u32 (slice * segments)) + index), 0)

set_option linter.unusedSimpArgs false in
theorem processSegment_eq_foldl (B : Array MBlock) (time memory threads mode version lanes segments n slice lane : Nat) :
    processSegment B time memory threads mode version lanes segments n slice lane
      = ((List.range' 0 segments).foldl (fun s _ => mStep threads mode version lanes segments n slice lane s)
          (mInit B time memory mode lanes segments n slice lane)).1 := by
  rw [processSegment_eq_M]
  unfold mSegmentM mInit
  have hdi : (mode == argon2i || (mode == argon2id && n == 0 && decide (slice < syncPoints / 2))) = DIm mode n slice := rfl
  have hsz : [:segments].size = segments := by simp [Std.Legacy.Range.size]
  simp only [hdi, Std.Legacy.Range.forIn_eq_forIn_range', forIn_mBodyM, hsz]
  by_cases h1 : DIm mode n slice = true <;> by_cases h2 : (n == 0 && slice == 0) = true <;>
    by_cases h3 : (mode == argon2i || mode == argon2id) = true <;>
    simp only [h1, h2, h3, if_true, if_false, Bool.and_true, Bool.true_and, Bool.and_false, Bool.false_and,
      Bool.false_eq_true, pure_bind] <;> rfl


/-! ## the reference's `argon2` -/


abbrev RBlock := Array UInt64

/-- RFC 3.2 steps 3, 4: the first two columns -/
def refInit (H0 : Bytes) (p q m' : Nat) : Array RBlock := Id.run do
  let mut B : Array RBlock := Array.replicate m' ZERO
  for i in [0:p] do
    B := B.set! (i * q + 0) (Spec.Argon2Rfc.blockOfBytes (H' 1024 (H0 ++ LE32 0 ++ LE32 i)))
    B := B.set! (i * q + 1) (Spec.Argon2Rfc.blockOfBytes (H' 1024 (H0 ++ LE32 1 ++ LE32 i)))
  return B

/-- body of the reference's `for idx in [0:segLen]` loop (same text) -/
def rBodyM (addrs : Array RBlock) (y v p q segLen r sl i : Nat) (B : Array RBlock) (idx : Nat) :
    Id (ForInStep (Array RBlock)) := do
  let mut B := B
  let j := sl * segLen + idx
  if r == 0 && j < 2 then
    pure ()
  else
    let prev := B[i * q + (j + q - 1) % q]!
    let J : UInt64 :=
      if dataIndependent y r sl then (addrs[idx / 128]!)[idx % 128]! else prev[0]!
    let J1 := J.toNat % 2 ^ 32
    let J2 := J.toNat / 2 ^ 32
    let (l, z) := refIndex p q segLen r sl i idx J1 J2
    let new := G prev B[l * q + z]!
    let old := B[i * q + j]!
    B := B.set! (i * q + j) (if r == 0 || v == 0x10 then new else blockXor new old)
  return ForInStep.yield B

/-- RFC 3.2 steps 5, 6 for one segment (pass `r`, slice `sl`, lane `i`) -/
def refSegment (y v p q segLen m' t r sl i : Nat) (B : Array RBlock) : Array RBlock := Id.run do
  let addrs : Array RBlock :=
    if dataIndependent y r sl then
      ((List.range ((segLen + 127) / 128)).map fun c => addressBlock r i sl m' t y (c + 1)).toArray
    else #[]
  let r ← forIn [0:segLen] B (fun idx B => rBodyM addrs y v p q segLen r sl i B idx)
  return r

/-- RFC 3.2 steps 7, 8 -/
def refFinal (T p q : Nat) (B : Array RBlock) : Bytes := Id.run do
  let mut C := ZERO
  for i in [0:p] do
    C := blockXor C B[i * q + (q - 1)]!
  return H' T (Spec.Argon2Rfc.bytesOfBlock C)

def refFill (y v p q segLen m' t : Nat) (B : Array RBlock) : Array RBlock := Id.run do
  let mut B := B
  for r in [0:t] do
    for sl in [0:4] do
      for i in [0:p] do
        B := refSegment y v p q segLen m' t r sl i B
  return B

theorem argon2_struct (y v : Nat) (P S : Bytes) (p T m t : Nat) :
    argon2 y v P S p T m t =
      let H0 := H 64 (LE32 p ++ LE32 T ++ LE32 m ++ LE32 t ++ LE32 v ++ LE32 y
                  ++ LE32 P.length ++ P ++ LE32 S.length ++ S
                  ++ LE32 ([] : Bytes).length ++ [] ++ LE32 ([] : Bytes).length ++ [])
      let m' := 4 * p * (m / (4 * p))
      let q := m' / p
      let segLen := q / 4
      refFinal T p q (refFill y v p q segLen m' t (refInit H0 p q m')) := by
  rfl

/-- one (non-skipped) step of the reference's segment loop, with the address blocks as a function -/
def rStep (AB : Nat → RBlock) (y v p q segLen r sl i : Nat) (B : Array RBlock) (idx : Nat) : Array RBlock :=
  let j := sl * segLen + idx
  let prev := B[i * q + (j + q - 1) % q]!
  let J : UInt64 := if dataIndependent y r sl = true then (AB (idx / 128 + 1))[idx % 128]! else prev[0]!
  let li := refIndex p q segLen r sl i idx (J.toNat % 2 ^ 32) (J.toNat / 2 ^ 32)
  let new := G prev B[li.1 * q + li.2]!
  B.set! (i * q + j) (if (r == 0 || v == 0x10) = true then new else blockXor new B[i * q + j]!)

theorem rBodyM_eq (addrs : Array RBlock) (y v p q segLen r sl i : Nat) (B : Array RBlock) (idx : Nat) :
    rBodyM addrs y v p q segLen r sl i B idx =
      pure (ForInStep.yield (if (r == 0 && decide (sl * segLen + idx < 2)) = true then B
        else rStep (fun c => addrs[c - 1]!) y v p q segLen r sl i B idx)) := by
  unfold rBodyM rStep
  by_cases h : (r == 0 && decide (sl * segLen + idx < 2)) = true
  · simp only [h, if_true]
  · simp only [h]; rfl


theorem refSegment_eq_foldl (y v p q segLen m' t r sl i : Nat) (B : Array RBlock) :
    refSegment y v p q segLen m' t r sl i B =
      (List.range' 0 segLen).foldl (fun B idx =>
        if (r == 0 && decide (sl * segLen + idx < 2)) = true then B
        else rStep (fun c =>
          (if dataIndependent y r sl = true then
            ((List.range ((segLen + 127) / 128)).map fun c => addressBlock r i sl m' t y (c + 1)).toArray
            else #[])[c - 1]!) y v p q segLen r sl i B idx) B := by
  unfold refSegment
  have hsz : [:segLen].size = segLen := by simp [Std.Legacy.Range.size]
  simp only [Std.Legacy.Range.forIn_eq_forIn_range', hsz, rBodyM_eq]
  rw [List.forIn_pure_yield_eq_foldl]
  rfl

end GoCrypt.Argon2Eq
