import GoCrypt.Model.Kdf.Argon2
import GoCrypt.Spec.Argon2Rfc

/-!
# Argon2: model = RFC 9106 reference, part 1 — `H'` and the `H_0` pre-image

* `blake2bHash_eq_H'`: the Go loop of `blake2bHash` (copy 32 bytes per step) is the RFC recurrence
  `V_1 … V_{r+1}`, for every output length and input (`Prim.blake2b` is used as an opaque function).
* `initHash_eq`: the byte string hashed by `initHash` is the RFC layout `h0Preimage`.
* `h0Preimage_injective`: that layout is injective on numbers `< 2^32`.
-/

open GoCrypt
open GoCrypt.Kdf.Argon2 GoCrypt.Spec.Argon2Rfc

namespace GoCrypt.Argon2Eq

/-! ## (1) `blake2bHash = H'` -/

theorem u8_ofNat_mod (n : Nat) : UInt8.ofNat (n % 256) = UInt8.ofNat n := by
  apply UInt8.toNat_inj.mp
  simp [UInt8.toNat_ofNat']

theorem le32_eq_LE32 (v : Nat) : le32 v = LE32 v := by
  simp [le32, LE32, List.range, List.range.loop, Nat.shiftRight_eq_div_pow, u8_ofNat_mod]

/-- one iteration of the Go loop `for len(out) > blake2b.Size { … }` on `(buffer, out, len(out))` -/
def hStep (s : Bytes × Bytes × Nat) : Bytes × Bytes × Nat :=
  if s.2.2 > 64 then
    (Prim.blake2b 64 s.1, s.2.1 ++ (Prim.blake2b 64 s.1).take 32, s.2.2 - 32)
  else s

theorem hLoop_eq (l : List Nat) (init : Bytes × Bytes × Nat) :
    (forIn (m := Id) l init fun _ s =>
        if s.2.2 > blake2bSize then
          pure (ForInStep.yield (Prim.blake2b blake2bSize s.1, s.2.1 ++ List.take 32 (Prim.blake2b blake2bSize s.1), s.2.2 - 32))
        else pure (ForInStep.yield (s.1, s.2.1, s.2.2)))
      = pure (l.foldl (fun s _ => hStep s) init) := by
  induction l generalizing init with
  | nil => rfl
  | cons a l ih =>
    rw [List.forIn_cons, List.foldl_cons, ← ih]
    have e : hStep init = if init.2.2 > blake2bSize then
        (Prim.blake2b blake2bSize init.1, init.2.1 ++ List.take 32 (Prim.blake2b blake2bSize init.1), init.2.2 - 32)
        else init := rfl
    rw [e]
    split <;> rfl

/-- the number of iterations of the Go loop when entered with `len(out) = rest` -/
def hCount (rest : Nat) : Nat := (rest + 31) / 32 - 2

theorem hIter (fuel : Nat) : ∀ (start : Nat) (b o : Bytes) (rest : Nat), hCount rest ≤ fuel →
    (List.range' start fuel).foldl (fun s _ => hStep s) (b, o, rest)
      = ((Vseq (hCount rest + 1) b).getLast?.getD [],
         o ++ ((Vseq (hCount rest) (H 64 b)).map (·.take 32)).flatten,
         rest - 32 * hCount rest) := by
  induction fuel with
  | zero =>
    intro start b o rest h
    have h0 : hCount rest = 0 := by omega
    simp [h0, Vseq]
  | succ fuel ih =>
    intro start b o rest h
    rw [List.range'_succ, List.foldl_cons]
    by_cases hr : rest > 64
    · have hc : hCount rest = hCount (rest - 32) + 1 := by unfold hCount; omega
      have hs : hStep (b, o, rest) = (Prim.blake2b 64 b, o ++ (Prim.blake2b 64 b).take 32, rest - 32) := by
        simp [hStep, hr]
      rw [hs, ih _ _ _ _ (by omega), hc]
      have hne : ∀ n v, Vseq (n + 1) v ≠ [] := by intro n v; simp [Vseq]
      refine Prod.ext ?_ (Prod.ext ?_ ?_)
      · show _ = (Vseq (hCount (rest - 32) + 1 + 1) b).getLast?.getD []
        rw [show Vseq (hCount (rest - 32) + 1 + 1) b = b :: Vseq (hCount (rest - 32) + 1) (H 64 b) from rfl]
        rw [List.getLast?_cons_of_ne_nil (hne _ _)]
        rfl
      · show _ = o ++ ((Vseq (hCount (rest - 32) + 1) (H 64 b)).map (·.take 32)).flatten
        rw [show Vseq (hCount (rest - 32) + 1) (H 64 b) = H 64 b :: Vseq (hCount (rest - 32)) (H 64 (H 64 b)) from rfl]
        simp [H, List.append_assoc]
      · dsimp only
        omega
    · have hc : hCount rest = 0 := by unfold hCount; omega
      have hs : hStep (b, o, rest) = (b, o, rest) := by simp [hStep, hr]
      rw [hs, ih _ _ _ _ (by omega)]

/-- **(1)** the Go loop of `blake2bHash` computes the RFC's `H'` (for every length, every input). -/
theorem blake2bHash_eq_H' (T : Nat) (x : Bytes) : blake2bHash T x = H' T x := by
  unfold blake2bHash H'
  by_cases h : T ≤ 64
  · simp [blake2bSize, h, H, le32_eq_LE32]
  · have h' : 64 < T := by omega
    have h2 : ¬ T ≤ blake2bSize := h
    simp only [Std.Legacy.Range.forIn_eq_forIn_range', h2, if_false]
    rw [hLoop_eq]
    have hsz : [:T / 32].size = T / 32 := by simp [Std.Legacy.Range.size]
    rw [hsz, hIter (T / 32) 0 _ _ (T - 32) (by unfold hCount; omega)]
    have hc : hCount (T - 32) + 1 = (T + 31) / 32 - 2 := by unfold hCount; omega
    have hlast : (if T % 64 > 0 then T - 32 * ((T + 31) / 32 - 2) else 64) = T - 32 * ((T + 31) / 32 - 2) := by
      split <;> omega
    simp only [← hc]
    have hlast' : (if T % blake2bSize > 0 then T - 32 * (hCount (T - 32) + 1) else blake2bSize) = T - 32 * (hCount (T - 32) + 1) := by
      rw [hc]; exact hlast
    rw [if_neg h]
    split
    · simp [H, le32_eq_LE32, blake2bSize, Vseq]
    · rename_i h3
      rw [if_neg h3] at hlast'
      simp [H, le32_eq_LE32, blake2bSize, Vseq, ← hlast']

/-! ## (2) the `H_0` pre-image -/

/-- RFC 9106 §3.2 step 1, with empty secret `K` and associated data `X`:
`LE32(p) ‖ LE32(T) ‖ LE32(m) ‖ LE32(t) ‖ LE32(v) ‖ LE32(y) ‖ LE32(|P|) ‖ P ‖ LE32(|S|) ‖ S ‖ LE32(0) ‖ LE32(0)` -/
def h0Preimage (p T m t v y : Nat) (P S : Bytes) : Bytes :=
  LE32 p ++ LE32 T ++ LE32 m ++ LE32 t ++ LE32 v ++ LE32 y
    ++ LE32 P.length ++ P ++ LE32 S.length ++ S ++ LE32 0 ++ LE32 0

/-- **(2a)** `initHash` hashes exactly the RFC layout (for all arguments). -/
theorem initHash_eq (P S : Bytes) (t m p T y v : Nat) :
    initHash P S t m p T y v = H 64 (h0Preimage p T m t v y P S) ++ List.replicate 8 0 := by
  simp [initHash, h0Preimage, H, le32_eq_LE32, blake2bSize]

theorem LE32_length (a : Nat) : (LE32 a).length = 4 := by simp [LE32]

theorem LE32_inj {a b : Nat} (ha : a < 2 ^ 32) (hb : b < 2 ^ 32) (h : LE32 a = LE32 b) : a = b := by
  simp only [LE32, List.range, List.range.loop, List.map_cons, List.map_nil, List.cons.injEq, and_true,
    ← UInt8.toNat_inj, UInt8.toNat_ofNat'] at h
  omega

theorem LE32_append_inj {a b : Nat} {r r' : Bytes} (ha : a < 2 ^ 32) (hb : b < 2 ^ 32)
    (h : LE32 a ++ r = LE32 b ++ r') : a = b ∧ r = r' := by
  have := List.append_inj h (by simp [LE32_length])
  exact ⟨LE32_inj ha hb this.1, this.2⟩

/-- **(2b)** the layout is injective (length-prefixed) as long as every number fits 32 bits. -/
theorem h0Preimage_injective {p T m t v y p' T' m' t' v' y' : Nat} {P S P' S' : Bytes}
    (hp : p < 2 ^ 32) (hT : T < 2 ^ 32) (hm : m < 2 ^ 32) (ht : t < 2 ^ 32) (hv : v < 2 ^ 32) (hy : y < 2 ^ 32)
    (hP : P.length < 2 ^ 32) (hS : S.length < 2 ^ 32)
    (hp' : p' < 2 ^ 32) (hT' : T' < 2 ^ 32) (hm' : m' < 2 ^ 32) (ht' : t' < 2 ^ 32) (hv' : v' < 2 ^ 32)
    (hy' : y' < 2 ^ 32) (hP' : P'.length < 2 ^ 32) (hS' : S'.length < 2 ^ 32)
    (h : h0Preimage p T m t v y P S = h0Preimage p' T' m' t' v' y' P' S') :
    p = p' ∧ T = T' ∧ m = m' ∧ t = t' ∧ v = v' ∧ y = y' ∧ P = P' ∧ S = S' := by
  simp only [h0Preimage, List.append_assoc] at h
  obtain ⟨e1, h⟩ := LE32_append_inj hp hp' h
  obtain ⟨e2, h⟩ := LE32_append_inj hT hT' h
  obtain ⟨e3, h⟩ := LE32_append_inj hm hm' h
  obtain ⟨e4, h⟩ := LE32_append_inj ht ht' h
  obtain ⟨e5, h⟩ := LE32_append_inj hv hv' h
  obtain ⟨e6, h⟩ := LE32_append_inj hy hy' h
  obtain ⟨e7, h⟩ := LE32_append_inj hP hP' h
  have h7 := List.append_inj h e7
  obtain ⟨e8, h⟩ := LE32_append_inj hS hS' h7.2
  have h8 := List.append_inj h e8
  exact ⟨e1, e2, e3, e4, e5, e6, h7.1, h8.1⟩

/-- … hence two `initHash` calls hash the same string only for identical arguments. -/
example : h0Preimage 1 32 8 1 0x13 2 [1,2] [3] ≠ h0Preimage 1 32 8 1 0x13 2 [1] [2,3] := by decide

end GoCrypt.Argon2Eq
