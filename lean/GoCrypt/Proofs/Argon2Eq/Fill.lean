import GoCrypt.Proofs.Argon2Eq.Segment

/-!
# Argon2: model = RFC 9106 reference, part 6 — the fill loops (RFC 3.2 steps 5, 6)

`processBlocks` = `refFill` on every memory whose blocks have 128 words and whose columns `≥ 2` are
zero; the invariant `GInv` is carried through passes, slices and lanes.
-/

open GoCrypt
open GoCrypt.Kdf.Argon2 GoCrypt.Spec.Argon2Rfc
open GoCrypt.Gen.argon2crypto

namespace GoCrypt.Argon2Eq

theorem range_size (n : Nat) : [:n].size = n := by simp [Std.Legacy.Range.size]

theorem processBlocks_eq_foldl (B : Array RBlock) (t m' p y v : Nat) :
    processBlocks B t m' p y v =
      (List.range' 0 t).foldl (fun B n => (List.range' 0 4).foldl (fun B slice => (List.range' 0 p).foldl
        (fun B lane => processSegment B t m' p y v (m' / p) (m' / p / 4) n slice lane) B) B) B := by
  unfold processBlocks
  simp only [Std.Legacy.Range.forIn_eq_forIn_range', range_size, List.forIn_pure_yield_eq_foldl, pure_bind,
    syncPoints]
  rfl

theorem refFill_eq_foldl (y v p q L m' t : Nat) (B : Array RBlock) :
    refFill y v p q L m' t B =
      (List.range' 0 t).foldl (fun B n => (List.range' 0 4).foldl (fun B slice => (List.range' 0 p).foldl
        (fun B lane => refSegment y v p q L m' t n slice lane B) B) B) B := by
  unfold refFill
  simp only [Std.Legacy.Range.forIn_eq_forIn_range', range_size, List.forIn_pure_yield_eq_foldl, pure_bind]
  rfl

/-- two folds over `range' a n` agree when the step functions agree on every state satisfying an
invariant that the step preserves -/
theorem foldl_range'_inv {σ : Type} (f g : σ → Nat → σ) (P : Nat → σ → Prop) (n : Nat) :
    ∀ (a : Nat) (init : σ), P a init →
      (∀ i s, a ≤ i → i < a + n → P i s → f s i = g s i ∧ P (i + 1) (g s i)) →
      (List.range' a n).foldl f init = (List.range' a n).foldl g init ∧
        P (a + n) ((List.range' a n).foldl g init) := by
  induction n with
  | zero => intro a init h0 _; exact ⟨rfl, h0⟩
  | succ n ih =>
    intro a init h0 hstep
    obtain ⟨e, hP⟩ := hstep a init (Nat.le_refl _) (by omega) h0
    rw [List.range'_succ, List.foldl_cons, List.foldl_cons, e]
    have := ih (a + 1) (g init a) hP (fun i s h1 h2 h3 => hstep i s (by omega) (by omega) h3)
    rw [show a + 1 + n = a + (n + 1) by omega] at this
    exact this

theorem mul_add_inj (L a b a' b' : Nat) (hb : b < L) (hb' : b' < L) (h : a * L + b = a' * L + b') :
    a = a' ∧ b = b' := by
  have hL : 0 < L := by omega
  have h1 : (a * L + b) / L = a := by
    rw [Nat.mul_comm, Nat.mul_add_div hL, Nat.div_eq_of_lt hb, Nat.add_zero]
  have h2 : (a' * L + b') / L = a' := by
    rw [Nat.mul_comm, Nat.mul_add_div hL, Nat.div_eq_of_lt hb', Nat.add_zero]
  have ha : a = a' := by rw [← h1, ← h2, h]
  subst ha
  exact ⟨rfl, by omega⟩

/-- block positions `lane·q + slice·L + idx` (`q = 4L`) determine `(lane, slice, idx)` -/
theorem pos_inj (L lane slice idx lane' slice' idx' : Nat) (hs : slice < 4) (hs' : slice' < 4) (hi : idx < L)
    (hi' : idx' < L) (h : lane * (4 * L) + (slice * L + idx) = lane' * (4 * L) + (slice' * L + idx')) :
    lane = lane' ∧ slice = slice' ∧ idx = idx' := by
  have e : ∀ a b c : Nat, a * (4 * L) + (b * L + c) = (a * 4 + b) * L + c := by
    intro a b c
    rw [Nat.add_mul, Nat.mul_assoc, Nat.add_assoc]
  rw [e, e] at h
  obtain ⟨h1, h2⟩ := mul_add_inj L _ _ _ _ hi hi' h
  omega

/-- in pass 0, every block from segment number `σ = slice·p + lane` on (except columns 0, 1) is zero -/
def ZeroOrd (p q L σ : Nat) (B : Array RBlock) : Prop :=
  ∀ lane' s' idx', lane' < p → s' < 4 → idx' < L → 2 ≤ s' * L + idx' → σ ≤ s' * p + lane' →
    B[lane' * q + (s' * L + idx')]! = ZERO

/-- invariant of the fill loops before segment number `σ` of pass `n` -/
def GInv (m' p q L n σ : Nat) (B : Array RBlock) : Prop := BOk m' B ∧ (n = 0 → ZeroOrd p q L σ B)

theorem lane_step {m' p q L : Nat} (hL : 2 ≤ L) (hq : q = 4 * L) (hm : m' = p * q) (hm32 : m' < 2 ^ 32)
    (t y v n slice lane : Nat) (hslice : slice < 4) (hlane : lane < p) (B : Array RBlock)
    (h : GInv m' p q L n (slice * p + lane) B) :
    processSegment B t m' p y v q L n slice lane = refSegment y v p q L m' t n slice lane B ∧
      GInv m' p q L n (slice * p + (lane + 1)) (refSegment y v p q L m' t n slice lane B) := by
  have D : SegDom m' p q L slice lane := ⟨hL, hq, hm, hm32, hslice, hlane⟩
  have hZ : ZeroFrom q L n slice lane (i0 n slice) B := by
    intro hn idx' h1 h2
    apply h.2 hn lane slice idx' hlane hslice h2 _ (Nat.le_refl _)
    by_cases hf : n = 0 ∧ slice = 0
    · have : i0 n slice = 2 := by simp [i0, hf]
      omega
    · have hs : slice ≠ 0 := fun hs => hf ⟨hn, hs⟩
      have : 1 * L ≤ slice * L := Nat.mul_le_mul_right L (by omega)
      omega
  obtain ⟨e, hB', hframe⟩ := segment_eq D t y v n B h.1 hZ
  refine ⟨e, hB', ?_⟩
  intro hn lane' s' idx' h1 h2 h3 h4 h5
  rw [hframe]
  · exact h.2 hn lane' s' idx' h1 h2 h3 h4 (by omega)
  · intro idx hidx heq
    subst hq
    obtain ⟨e1, e2, _⟩ := pos_inj L lane' s' idx' lane slice idx h2 hslice h3 hidx heq
    subst e1; subst e2
    omega

/-- **the fill loops**: `processBlocks` (model) = steps 5, 6 of RFC 3.2 (reference), on every memory
whose blocks have 128 words and whose columns `≥ 2` are zero. -/
theorem fill_eq {m' p q L : Nat} (hL : 2 ≤ L) (hq : q = 4 * L) (hm : m' = p * q) (hm32 : m' < 2 ^ 32) (hp : 1 ≤ p)
    (t y v : Nat) (B : Array RBlock) (h : GInv m' p q L 0 0 B) :
    processBlocks B t m' p y v = refFill y v p q L m' t B ∧ BOk m' (refFill y v p q L m' t B) := by
  have hq' : m' / p = q := by rw [hm, Nat.mul_comm]; exact Nat.mul_div_cancel _ (by omega)
  have hL' : m' / p / 4 = L := by rw [hq', hq]; omega
  rw [processBlocks_eq_foldl, refFill_eq_foldl, hL', hq']
  -- passes
  have hpass := foldl_range'_inv
    (fun B n => (List.range' 0 4).foldl (fun B slice => (List.range' 0 p).foldl
        (fun B lane => processSegment B t m' p y v q L n slice lane) B) B)
    (fun B n => (List.range' 0 4).foldl (fun B slice => (List.range' 0 p).foldl
        (fun B lane => refSegment y v p q L m' t n slice lane B) B) B)
    (fun n B => GInv m' p q L n 0 B) t 0 B h ?_
  · exact ⟨hpass.1, hpass.2.1⟩
  intro n B _ _ hn
  -- slices
  have hslices := foldl_range'_inv
    (fun B slice => (List.range' 0 p).foldl (fun B lane => processSegment B t m' p y v q L n slice lane) B)
    (fun B slice => (List.range' 0 p).foldl (fun B lane => refSegment y v p q L m' t n slice lane B) B)
    (fun slice B => GInv m' p q L n (slice * p) B) 4 0 B (by simpa using hn) ?_
  · refine ⟨hslices.1, hslices.2.1, ?_⟩
    intro h0; omega
  intro slice B _ hslice hs
  -- lanes
  have hlanes := foldl_range'_inv
    (fun B lane => processSegment B t m' p y v q L n slice lane)
    (fun B lane => refSegment y v p q L m' t n slice lane B)
    (fun lane B => GInv m' p q L n (slice * p + lane) B) p 0 B (by simpa using hs) ?_
  · refine ⟨hlanes.1, ?_⟩
    have := hlanes.2
    rw [Nat.zero_add, show slice * p + p = (slice + 1) * p by rw [Nat.add_mul, Nat.one_mul]] at this
    exact this
  intro lane B _ hlane hl
  exact lane_step hL hq hm hm32 t y v n slice lane (by omega) (by omega) B hl


end GoCrypt.Argon2Eq
