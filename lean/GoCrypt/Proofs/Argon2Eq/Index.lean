import GoCrypt.Proofs.Argon2Eq.Block

/-!
# Argon2: model = RFC 9106 reference, part 3 — memory size and the reference index

* `key_unfold`, `roundedMemory_eq_rfc`: the memory-size rule of `Key`.
* `refSet_eq`: closed form of the reference's explicit reference set `W`.
* `indexAlpha_eq_refIndex`: the generated `indexAlpha` computes the position of the RFC's `W[zz]`.
-/

open GoCrypt
open GoCrypt.Kdf.Argon2 GoCrypt.Spec.Argon2Rfc
open GoCrypt.Gen.argon2crypto

namespace GoCrypt.Argon2Eq

/-! ## (4) the memory-size rule -/

/-- the number of blocks `Key` allocates: `m` rounded down to a multiple of `4p`, at least `8p` -/
def roundedMemory (m p : Nat) : Nat := max (m / (4 * p) * (4 * p)) (8 * p)

/-- **(4a)** `Key` = `extractKey ∘ processBlocks ∘ initBlocks` on `roundedMemory m p` blocks, while
`initHash` receives the REQUESTED `m`. -/
theorem key_unfold (mode version : Nat) (P S : Bytes) (t m p T : Nat) (hp : p ≤ 255) (hm : m < 2 ^ 32) :
    key mode version P S t m p T =
      extractKey (processBlocks (initBlocks (initHash P S t m p T mode version) (roundedMemory m p) p)
        t (roundedMemory m p) p mode version) (roundedMemory m p) p T := by
  have h1 : u32 (syncPoints * p) = 4 * p := by simp only [u32, syncPoints]; omega
  have h2 : u32 (2 * syncPoints * p) = 8 * p := by simp only [u32, syncPoints]; omega
  have h3 : m / (4 * p) * (4 * p) ≤ m := Nat.div_mul_le_self m (4 * p)
  have h4 : u32 (m / (4 * p) * (4 * p)) = m / (4 * p) * (4 * p) := by simp only [u32]; omega
  have h5 : (if m / (4 * p) * (4 * p) < 8 * p then 8 * p else m / (4 * p) * (4 * p)) = roundedMemory m p := by
    unfold roundedMemory; split <;> omega
  simp only [key, h1, h2, h4, h5]

/-- **(4b)** for `m ≥ 8p` this is the RFC's `m' = 4·p·⌊m / 4p⌋`. -/
theorem roundedMemory_eq_rfc (m p : Nat) (hp : 1 ≤ p) (h : 8 * p ≤ m) : roundedMemory m p = 4 * p * (m / (4 * p)) := by
  have h2 : 2 ≤ m / (4 * p) := by
    rw [Nat.le_div_iff_mul_le (by omega)]; omega
  have h3 : 2 * (4 * p) ≤ m / (4 * p) * (4 * p) := Nat.mul_le_mul_right _ h2
  unfold roundedMemory
  rw [Nat.mul_comm (4 * p)]
  omega


/-! ## (5) the reference set `W` in closed form -/

/-- the column indices of segment `s` (as in `refSet`) -/
def segCols (L s : Nat) : List Nat := (List.range L).map (s * L + ·)

theorem map_range_add {α} (f : Nat → α) (a b : Nat) :
    (List.range (a + b)).map f = (List.range a).map f ++ (List.range b).map (fun k => f (a + k)) := by
  rw [List.range_add, List.map_append, List.map_map]
  rfl

theorem flatMap_segCols (L a : Nat) : (List.range a).flatMap (segCols L) = List.range (a * L) := by
  induction a with
  | zero => simp
  | succ a ih =>
    rw [List.range_succ, List.flatMap_append, ih, Nat.succ_mul, List.range_add]
    simp [segCols]

theorem add_mul_mod_four (L t k : Nat) (hk : k < L) : (t * L + k) % (4 * L) = (t % 4) * L + k := by
  have h1 : t * L + k = (4 * L) * (t / 4) + ((t % 4) * L + k) := by
    have := Nat.div_add_mod t 4
    calc t * L + k = (4 * (t / 4) + t % 4) * L + k := by rw [this]
      _ = _ := by rw [Nat.add_mul, Nat.mul_assoc, Nat.mul_comm (t / 4) L, ← Nat.mul_assoc, Nat.add_assoc]
  have h2 : (t % 4) * L + k < 4 * L := by
    have : t % 4 ≤ 3 := by omega
    have : (t % 4) * L ≤ 3 * L := Nat.mul_le_mul_right L this
    omega
  rw [h1, Nat.mul_add_mod, Nat.mod_eq_of_lt h2]

/-- segment `t mod 4`, as positions `(t·L + k) mod 4L` -/
theorem segCols_mod (L t : Nat) :
    segCols L (t % 4) = (List.range L).map (fun k => (t * L + k) % (4 * L)) := by
  unfold segCols
  apply List.map_congr_left
  intro k hk
  rw [add_mul_mod_four L t k (by simpa using hk)]

/-- start of the window of the reference's `W` (column index, taken `mod q`) -/
def wStart (L r sl : Nat) : Nat := if r = 0 then 0 else (sl + 1) * L
/-- number of blocks in the finished segments -/
def wFinished (L r sl : Nat) : Nat := if r = 0 then sl * L else 3 * L

/-- the finished segments followed by the first `idx` blocks of the current segment are the
`wFinished + idx` consecutive columns (mod `q`) starting at `wStart` -/
theorem window_eq (L r sl idx : Nat) (hsl : sl < 4) (hidx : idx ≤ L) :
    (if r = 0 then (List.range sl).flatMap (segCols L)
      else [(sl + 1) % 4, (sl + 2) % 4, (sl + 3) % 4].flatMap (segCols L))
      ++ (List.range idx).map (sl * L + ·)
    = (List.range (wFinished L r sl + idx)).map (fun k => (wStart L r sl + k) % (4 * L)) := by
  have hslL : sl * L ≤ 3 * L := Nat.mul_le_mul_right L (by omega)
  by_cases hr : r = 0
  · simp only [hr, if_true, wFinished, wStart, flatMap_segCols, Nat.zero_add]
    have e : (List.range (sl * L + idx)).map (fun k => k % (4 * L)) = List.range (sl * L + idx) := by
      conv => rhs; rw [← List.map_id (List.range (sl * L + idx))]
      apply List.map_congr_left
      intro k hk
      have : k < sl * L + idx := by simpa using hk
      exact Nat.mod_eq_of_lt (by omega)
    rw [e, List.range_add]
  · simp only [hr, if_false, wFinished, wStart]
    rw [show 3 * L + idx = L + (L + (L + idx)) by omega]
    rw [map_range_add, map_range_add, map_range_add]
    simp only [List.flatMap_cons, List.flatMap_nil, List.append_nil, List.append_assoc, segCols_mod]
    congr 1
    congr 1
    · apply List.map_congr_left
      intro k _
      congr 1
      simp only [Nat.add_mul, Nat.one_mul]; omega
    congr 1
    · apply List.map_congr_left
      intro k _
      congr 1
      simp only [Nat.add_mul, Nat.one_mul]; omega
    · apply List.map_congr_left
      intro k hk
      have hk' : k < idx := by simpa using hk
      have e : (sl + 1) * L + (L + (L + (L + k))) = sl * L + k + 4 * L := by
        simp only [Nat.add_mul, Nat.one_mul]; omega
      rw [e, Nat.add_mod_right, Nat.mod_eq_of_lt (by omega)]

theorem dropLast_range (n : Nat) : (List.range n).dropLast = List.range (n - 1) := by
  cases n with
  | zero => rfl
  | succ n => rw [List.range_succ, List.dropLast_concat]; rfl

theorem mod_inj_of_lt (s q a b : Nat) (hab : a < b) (hb : b < q) : (s + a) % q ≠ (s + b) % q := by
  intro h
  have h1 := Nat.sub_mod_eq_zero_of_mod_eq h.symm
  have h2 : s + b - (s + a) = b - a := by omega
  rw [h2] at h1
  have := Nat.le_of_dvd (by omega) (Nat.dvd_of_mod_eq_zero h1)
  omega

/-- removing the last element of an injective window by value -/
theorem filter_window (s q N j : Nat) (hN : N ≤ q) (hj : ∀ N', N = N' + 1 → j = (s + N') % q) :
    ((List.range N).map (fun k => (s + k) % q)).filter (· != j)
      = (List.range (N - 1)).map (fun k => (s + k) % q) := by
  cases N with
  | zero => rfl
  | succ N' =>
    have hj' := hj N' rfl
    rw [List.range_succ, List.map_append, List.filter_append, Nat.add_sub_cancel]
    have h1 : ((List.range N').map (fun k => (s + k) % q)).filter (· != j) = (List.range N').map (fun k => (s + k) % q) := by
      rw [List.filter_eq_self]
      intro a ha
      rw [List.mem_map] at ha
      obtain ⟨k, hk, rfl⟩ := ha
      have hk' : k < N' := by simpa using hk
      simp only [bne_iff_ne, ne_eq, hj']
      exact mod_inj_of_lt s q k N' hk' (by omega)
    rw [h1]
    simp [hj']

/-- the number of blocks in `W`, as `indexAlpha` computes it (`m`, before `phi`) -/
def wLen (L r sl i idx l : Nat) : Nat :=
  wFinished L r sl + (if l = i then idx else 0) - (if l = i ∨ idx = 0 then 1 else 0)

/-- **closed form of the reference set**: `W` is the list of the `wLen` consecutive columns
(mod `q = 4·segLen`) starting at `wStart`. -/
theorem refSet_eq (L r sl i idx l : Nat) (hsl : sl < 4) (hidx : idx ≤ L) :
    refSet (4 * L) L r sl i idx l
      = (List.range (wLen L r sl i idx l)).map (fun k => (wStart L r sl + k) % (4 * L)) := by
  have hF : wFinished L r sl ≤ 3 * L := by
    unfold wFinished
    have : sl * L ≤ 3 * L := Nat.mul_le_mul_right L (by omega)
    split <;> omega
  have hwin := window_eq L r sl
  unfold refSet wLen
  simp only [beq_iff_eq]
  change (if l = i then
      (((if r = 0 then (List.range sl).flatMap (segCols L)
          else [(sl + 1) % 4, (sl + 2) % 4, (sl + 3) % 4].flatMap (segCols L))
        ++ (List.range idx).map (sl * L + ·)).filter (· != (sl * L + idx + 4 * L - 1) % (4 * L)))
    else if idx = 0 then
      (if r = 0 then (List.range sl).flatMap (segCols L)
          else [(sl + 1) % 4, (sl + 2) % 4, (sl + 3) % 4].flatMap (segCols L)).dropLast
    else (if r = 0 then (List.range sl).flatMap (segCols L)
          else [(sl + 1) % 4, (sl + 2) % 4, (sl + 3) % 4].flatMap (segCols L))) = _
  have hfin : (if r = 0 then (List.range sl).flatMap (segCols L)
          else [(sl + 1) % 4, (sl + 2) % 4, (sl + 3) % 4].flatMap (segCols L))
      = (List.range (wFinished L r sl)).map (fun k => (wStart L r sl + k) % (4 * L)) := by
    have := hwin 0 hsl (Nat.zero_le _)
    simpa using this
  by_cases hl : l = i
  · simp only [hl, if_true, true_or]
    rw [hwin idx hsl hidx]
    apply filter_window _ _ _ _ (by omega)
    intro N' hN'
    unfold wStart
    unfold wFinished at hN'
    by_cases hr : r = 0
    · simp only [hr, if_true] at hN' ⊢
      rw [show sl * L + idx + 4 * L - 1 = 0 + N' + 4 * L by omega, Nat.add_mod_right]
    · simp only [hr, if_false] at hN' ⊢
      congr 1
      simp only [Nat.add_mul, Nat.one_mul]; omega
  · simp only [hl, if_false, false_or, Nat.add_zero]
    rw [hfin]
    by_cases h0 : idx = 0
    · simp only [h0, if_true]
      rw [← List.map_dropLast, dropLast_range]
    · simp only [h0, if_false, Nat.sub_zero]

/-! ## (5) `indexAlpha` = the RFC's indexing rule -/

/-- `refLane` of `indexAlpha` -/
def refLaneOf (rand p n slice lane : Nat) : Nat :=
  if n = 0 ∧ slice = 0 then lane else (rand >>> 32) % 4294967296 % p

/-- `m` of `indexAlpha` (with Go's `uint32` wrap-around) -/
def alphaM (L n slice index : Nat) (same : Prop) [Decidable same] : Nat :=
  let m := if n = 0 then
      (if slice = 0 ∨ same then (slice * L % 4294967296 + index) % 4294967296 else slice * L % 4294967296)
    else (if same then (3 * L % 4294967296 + index) % 4294967296 else 3 * L % 4294967296)
  if index = 0 ∨ same then (m + 4294967296 - 1) % 4294967296 else m

/-- `s` of `indexAlpha` -/
def alphaS (L n slice : Nat) : Nat :=
  if n = 0 then 0 else (slice + 1) % 4294967296 % 4 * L % 4294967296

set_option linter.unusedSimpArgs false in
theorem indexAlpha_unfold (rand q L p n slice lane index : Nat) :
    indexAlpha rand q L p n slice lane index =
      phi rand (alphaM L n slice index (lane = refLaneOf rand p n slice lane)) (alphaS L n slice)
        (refLaneOf rand p n slice lane) q := by
  unfold indexAlpha alphaM alphaS refLaneOf
  by_cases hn : n = 0 <;> by_cases hs : slice = 0 <;> by_cases hi : index = 0 <;>
    by_cases hl : lane = (rand >>> 32) % 4294967296 % p <;>
    simp only [hn, hs, hi, hl, beq_self_eq_true, beq_iff_eq, Bool.and_eq_true, Bool.or_eq_true, and_self, or_self,
      true_or, or_true, true_and, and_true, false_and, and_false, false_or, or_false, if_true, if_false] <;>
    rw [Id.run_pure]

theorem phi_unfold (rand m s lane q : Nat) : phi rand m s lane q =
    (lane * q % 4294967296 +
      ((s + m) % 18446744073709551616 + 18446744073709551616 -
        ((((rand &&& 4294967295) * (rand &&& 4294967295) % 18446744073709551616) >>> 32 * m % 18446744073709551616) >>> 32 + 1)
          % 18446744073709551616) % 18446744073709551616 % q % 4294967296) % 4294967296 := by
  unfold phi
  rw [Id.run_pure]

set_option linter.unusedSimpArgs false in
/-- under the `uint32` bounds of the domain, `indexAlpha`'s `m` is the size of the reference set -/
theorem alphaM_eq_wLen (L n slice lane index l : Nat) (hL : 4 * L < 2 ^ 32) (hslice : slice < 4)
    (hidx : index < L) (hpos : 1 ≤ wLen L n slice lane index l) :
    alphaM L n slice index (lane = l) = wLen L n slice lane index l := by
  have hsL : slice * L ≤ 3 * L := Nat.mul_le_mul_right L (by omega)
  unfold alphaM wLen wFinished at *
  by_cases hn : n = 0 <;> by_cases hs : slice = 0 <;> by_cases hi : index = 0 <;> by_cases hl : lane = l <;>
    simp only [hn, hs, hi, hl, eq_comm (a := l) (b := lane), if_true, if_false, true_or, or_true, or_self, false_or, or_false,
      Nat.zero_mul, Nat.zero_add, Nat.add_zero, Nat.zero_mod] at hpos ⊢ <;> omega

theorem mod4_mul_add_mod (L t z : Nat) : ((t % 4) * L + z) % (4 * L) = (t * L + z) % (4 * L) := by
  have h1 : t * L + z = (4 * L) * (t / 4) + ((t % 4) * L + z) := by
    have := Nat.div_add_mod t 4
    calc t * L + z = (4 * (t / 4) + t % 4) * L + z := by rw [this]
      _ = _ := by rw [Nat.add_mul, Nat.mul_assoc, Nat.mul_comm (t / 4) L, ← Nat.mul_assoc, Nat.add_assoc]
  rw [h1, Nat.mul_add_mod]

theorem wLen_pos (L n slice lane index l : Nat) (hL : 2 ≤ L) (h0 : n = 0 → slice = 0 → 2 ≤ index ∧ l = lane) :
    1 ≤ wLen L n slice lane index l := by
  unfold wLen wFinished
  by_cases hn : n = 0 <;> by_cases hs : slice = 0
  · obtain ⟨h2, hl⟩ := h0 hn hs
    simp only [hn, hs, hl, if_true, true_or]; omega
  · have : 1 * L ≤ slice * L := Nat.mul_le_mul_right L (by omega)
    simp only [hn, if_true]; split <;> split <;> omega
  · simp only [hn, if_false]; split <;> split <;> omega
  · simp only [hn, if_false]; split <;> split <;> omega

/-- the pure arithmetic of `phi` under the bounds of the domain -/
theorem phi_eq (rand m s l q : Nat) (hm : 1 ≤ m) (hmq : m < 2 ^ 32) (hs : s < 2 ^ 32)
    (hq : 0 < q) (hlq : l * q + q ≤ 2 ^ 32) :
    phi rand m s l q =
      l * q + (s + (m - 1 - m * ((rand % 2 ^ 32) * (rand % 2 ^ 32) / 2 ^ 32) / 2 ^ 32)) % q := by
  rw [phi_unfold]
  have hJ : rand &&& 4294967295 = rand % 2 ^ 32 := Nat.and_two_pow_sub_one_eq_mod rand 32
  rw [hJ]
  generalize hJ1 : rand % 2 ^ 32 = J1
  have hJ1lt : J1 < 2 ^ 32 := by rw [← hJ1]; exact Nat.mod_lt _ (by decide)
  have hJJ : J1 * J1 < 2 ^ 64 := by
    calc J1 * J1 < 2 ^ 32 * 2 ^ 32 := Nat.mul_lt_mul'' hJ1lt hJ1lt
      _ = 2 ^ 64 := by decide
  simp only [Nat.shiftRight_eq_div_pow]
  rw [show (18446744073709551616 : Nat) = 2 ^ 64 by decide, show (4294967296 : Nat) = 2 ^ 32 by decide]
  rw [Nat.mod_eq_of_lt hJJ]
  generalize hx : J1 * J1 / 2 ^ 32 = x
  have hxlt : x < 2 ^ 32 := by
    rw [← hx]; apply Nat.div_lt_of_lt_mul; rw [show 2 ^ 32 * 2 ^ 32 = 2 ^ 64 by decide]; exact hJJ
  have hxm : x * m < 2 ^ 64 := by
    calc x * m < 2 ^ 32 * 2 ^ 32 := Nat.mul_lt_mul'' hxlt hmq
      _ = 2 ^ 64 := by decide
  rw [Nat.mod_eq_of_lt hxm, Nat.mul_comm x m]
  generalize hy : m * x / 2 ^ 32 = y
  have hylt : y < m := by
    rw [← hy]; apply Nat.div_lt_of_lt_mul
    rw [Nat.mul_comm (2 ^ 32) m]
    exact (Nat.mul_lt_mul_left (a := m) (by omega)).mpr hxlt
  have hz : (s + m) % 2 ^ 64 + 2 ^ 64 - (y + 1) % 2 ^ 64 = 2 ^ 64 + (s + (m - 1 - y)) := by omega
  rw [hz, Nat.add_mod_left, Nat.mod_eq_of_lt (a := s + (m - 1 - y)) (by omega)]
  have hzq : (s + (m - 1 - y)) % q < q := Nat.mod_lt _ hq
  have hlq2 : l * q < 2 ^ 32 := by omega
  rw [Nat.mod_eq_of_lt hlq2, Nat.mod_eq_of_lt (a := (s + (m - 1 - y)) % q) (by omega), Nat.mod_eq_of_lt (by omega)]

theorem getElem!_map_range (f : Nat → Nat) (n k : Nat) (h : k < n) : ((List.range n).map f)[k]! = f k := by
  rw [getElem!_pos _ _ (by simpa using h)]
  simp

theorem refIndex_unfold (p q L r sl i idx J1 J2 : Nat) :
    refIndex p q L r sl i idx J1 J2 =
      ((if (r == 0 && sl == 0) = true then i else J2 % p),
       (refSet q L r sl i idx (if (r == 0 && sl == 0) = true then i else J2 % p))[
         (refSet q L r sl i idx (if (r == 0 && sl == 0) = true then i else J2 % p)).length - 1
          - (refSet q L r sl i idx (if (r == 0 && sl == 0) = true then i else J2 % p)).length
              * (J1 * J1 / 2 ^ 32) / 2 ^ 32]!) := rfl

/-- **(5)** in the domain of the fill loop, the generated `indexAlpha` returns the flat position
`l·q + W[zz]` of the block the RFC's indexing rule (3.4.2) selects. -/
theorem indexAlpha_eq_refIndex (rand L p n slice lane index : Nat)
    (hrand : rand < 2 ^ 64) (hL : 2 ≤ L) (hpq : p * (4 * L) < 2 ^ 32)
    (hslice : slice < 4) (hlane : lane < p) (hidx : index < L) (h0 : n = 0 → slice = 0 → 2 ≤ index) :
    indexAlpha rand (4 * L) L p n slice lane index =
      (refIndex p (4 * L) L n slice lane index (rand % 2 ^ 32) (rand / 2 ^ 32)).1 * (4 * L)
        + (refIndex p (4 * L) L n slice lane index (rand % 2 ^ 32) (rand / 2 ^ 32)).2 := by
  have hp : 0 < p := by omega
  -- the reference lane
  have hl : (if (n == 0 && slice == 0) = true then lane else rand / 2 ^ 32 % p) = refLaneOf rand p n slice lane := by
    have h1 : rand / 2 ^ 32 < 2 ^ 32 := by omega
    unfold refLaneOf
    simp only [Bool.and_eq_true, beq_iff_eq, Nat.shiftRight_eq_div_pow]
    rw [show (4294967296 : Nat) = 2 ^ 32 by decide, Nat.mod_eq_of_lt h1]
  rw [refIndex_unfold, hl, indexAlpha_unfold]
  generalize hlv : refLaneOf rand p n slice lane = l
  have hlp : l < p := by
    rw [← hlv]; unfold refLaneOf; split
    · exact hlane
    · exact Nat.mod_lt _ hp
  have hl0 : n = 0 → slice = 0 → 2 ≤ index ∧ l = lane := by
    intro hn hs
    refine ⟨h0 hn hs, ?_⟩
    rw [← hlv]; simp [refLaneOf, hn, hs]
  have hpos := wLen_pos L n slice lane index l hL hl0
  have hpL : 1 * (4 * L) ≤ p * (4 * L) := Nat.mul_le_mul_right _ hp
  have hlq : l * (4 * L) + 4 * L ≤ p * (4 * L) := by
    have : (l + 1) * (4 * L) ≤ p * (4 * L) := Nat.mul_le_mul_right _ hlp
    rw [Nat.add_mul, Nat.one_mul] at this; exact this
  rw [alphaM_eq_wLen L n slice lane index l (by omega) hslice hidx hpos]
  rw [refSet_eq L n slice lane index l hslice (by omega)]
  simp only [List.length_map, List.length_range]
  generalize hm : wLen L n slice lane index l = m at hpos ⊢
  have hmq : m < 4 * L := by
    rw [← hm]; unfold wLen wFinished
    have : slice * L ≤ 3 * L := Nat.mul_le_mul_right L (by omega)
    split <;> split <;> split <;> omega
  have hsS : alphaS L n slice < 2 ^ 32 := by
    unfold alphaS; split
    · decide
    · exact Nat.mod_lt _ (by decide)
  rw [phi_eq rand m (alphaS L n slice) l (4 * L) hpos (by omega) hsS (by omega) (by omega)]
  rw [getElem!_map_range _ _ _ (by omega)]
  congr 1
  -- the start of the window, modulo q
  unfold alphaS wStart
  by_cases hn : n = 0
  · simp only [hn, if_true]
  · have h1 : (slice + 1) % 4294967296 = slice + 1 := Nat.mod_eq_of_lt (by omega)
    have h2 : (slice + 1) % 4 * L ≤ 3 * L := Nat.mul_le_mul_right L (by omega)
    simp only [hn, if_false, h1]
    rw [Nat.mod_eq_of_lt (a := (slice + 1) % 4 * L) (by omega), mod4_mul_add_mod]

end GoCrypt.Argon2Eq
