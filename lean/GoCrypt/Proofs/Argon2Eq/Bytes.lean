import GoCrypt.Proofs.Argon2Eq.Fill

/-!
# Argon2: model = RFC 9106 reference, part 7 — bytes ↔ 64-bit words

`blockOfBytes` and `bytesOfBlock` of the model (Go's `binary.LittleEndian` shift/or loops) equal the
reference's arithmetic (Horner / div-mod) versions.
-/

open GoCrypt
open GoCrypt.Kdf.Argon2 GoCrypt.Spec.Argon2Rfc

namespace GoCrypt.Argon2Eq

theorem or_step (x a k : Nat) (hx : x < 2 ^ k) : x ||| a <<< k = a * 2 ^ k + x := by
  rw [Nat.or_comm, ← Nat.shiftLeft_add_eq_or_of_lt hx, Nat.shiftLeft_eq]

theorem lor_chain (n0 n1 n2 n3 n4 n5 n6 n7 : Nat) (h0 : n0 < 256) (h1 : n1 < 256) (h2 : n2 < 256) (h3 : n3 < 256)
    (h4 : n4 < 256) (h5 : n5 < 256) (h6 : n6 < 256) (_h7 : n7 < 256) :
    0 ||| n0 <<< 0 ||| n1 <<< 8 ||| n2 <<< 16 ||| n3 <<< 24 ||| n4 <<< 32 ||| n5 <<< 40 ||| n6 <<< 48 ||| n7 <<< 56
      = n0 + n1 * 2 ^ 8 + n2 * 2 ^ 16 + n3 * 2 ^ 24 + n4 * 2 ^ 32 + n5 * 2 ^ 40 + n6 * 2 ^ 48 + n7 * 2 ^ 56 := by
  have e0 : 0 ||| n0 <<< 0 = n0 := by simp
  have e1 := or_step n0 n1 8 (by omega)
  have e2 := or_step (n1 * 2 ^ 8 + n0) n2 16 (by omega)
  have e3 := or_step (n2 * 2 ^ 16 + (n1 * 2 ^ 8 + n0)) n3 24 (by omega)
  have e4 := or_step (n3 * 2 ^ 24 + (n2 * 2 ^ 16 + (n1 * 2 ^ 8 + n0))) n4 32 (by omega)
  have e5 := or_step (n4 * 2 ^ 32 + (n3 * 2 ^ 24 + (n2 * 2 ^ 16 + (n1 * 2 ^ 8 + n0)))) n5 40 (by omega)
  have e6 := or_step (n5 * 2 ^ 40 + (n4 * 2 ^ 32 + (n3 * 2 ^ 24 + (n2 * 2 ^ 16 + (n1 * 2 ^ 8 + n0))))) n6 48 (by omega)
  have e7 := or_step (n6 * 2 ^ 48 + (n5 * 2 ^ 40 + (n4 * 2 ^ 32 + (n3 * 2 ^ 24 + (n2 * 2 ^ 16 + (n1 * 2 ^ 8 + n0))))))
    n7 56 (by omega)
  rw [e0, e1, e2, e3, e4, e5, e6, e7]
  omega

theorem shl_mod (n k : Nat) (hn : n < 256) (hk : k ≤ 56) : n <<< k % 2 ^ 64 = n <<< k := by
  apply Nat.mod_eq_of_lt
  rw [Nat.shiftLeft_eq]
  calc n * 2 ^ k < 256 * 2 ^ k := Nat.mul_lt_mul_of_pos_right hn (Nat.two_pow_pos k)
    _ ≤ 256 * 2 ^ 56 := Nat.mul_le_mul_left _ (Nat.pow_le_pow_right (by decide) hk)
    _ = 2 ^ 64 := by decide

/-- little-endian load of eight bytes: Go's shift/or loop = the reference's Horner form -/
theorem word_eq (a0 a1 a2 a3 a4 a5 a6 a7 : UInt8) :
    (((((((((0 : UInt64) ||| a0.toUInt64 <<< UInt64.ofNat (8 * 0)) ||| a1.toUInt64 <<< UInt64.ofNat (8 * 1))
      ||| a2.toUInt64 <<< UInt64.ofNat (8 * 2)) ||| a3.toUInt64 <<< UInt64.ofNat (8 * 3))
      ||| a4.toUInt64 <<< UInt64.ofNat (8 * 4)) ||| a5.toUInt64 <<< UInt64.ofNat (8 * 5))
      ||| a6.toUInt64 <<< UInt64.ofNat (8 * 6)) ||| a7.toUInt64 <<< UInt64.ofNat (8 * 7))
    = (((((((((0 : UInt64) * 256 + a7.toUInt64) * 256 + a6.toUInt64) * 256 + a5.toUInt64) * 256 + a4.toUInt64) * 256
        + a3.toUInt64) * 256 + a2.toUInt64) * 256 + a1.toUInt64) * 256 + a0.toUInt64) := by
  apply UInt64.toNat_inj.mp
  have h0 : a0.toNat < 256 := a0.toNat_lt; have h1 : a1.toNat < 256 := a1.toNat_lt
  have h2 : a2.toNat < 256 := a2.toNat_lt; have h3 : a3.toNat < 256 := a3.toNat_lt
  have h4 : a4.toNat < 256 := a4.toNat_lt; have h5 : a5.toNat < 256 := a5.toNat_lt
  have h6 : a6.toNat < 256 := a6.toNat_lt; have h7 : a7.toNat < 256 := a7.toNat_lt
  simp only [UInt64.toNat_or, UInt64.toNat_shiftLeft, UInt8.toNat_toUInt64, UInt64.toNat_add, UInt64.toNat_mul,
    UInt64.toNat_ofNat', Nat.reduceMul, UInt64.toNat_zero, UInt64.reduceToNat, Nat.reducePow, Nat.reduceMod]
  generalize a0.toNat = n0 at *; generalize a1.toNat = n1 at *; generalize a2.toNat = n2 at *
  generalize a3.toNat = n3 at *; generalize a4.toNat = n4 at *; generalize a5.toNat = n5 at *
  generalize a6.toNat = n6 at *; generalize a7.toNat = n7 at *
  have s := fun n k (hn : n < 256) (hk : k ≤ 56) => shl_mod n k hn hk
  simp only [Nat.reducePow] at s
  rw [s n0 0 h0 (by omega), s n1 8 h1 (by omega), s n2 16 h2 (by omega), s n3 24 h3 (by omega),
    s n4 32 h4 (by omega), s n5 40 h5 (by omega), s n6 48 h6 (by omega), s n7 56 h7 (by omega)]
  rw [lor_chain n0 n1 n2 n3 n4 n5 n6 n7 h0 h1 h2 h3 h4 h5 h6 h7]
  omega
/-- `blockOfBytes`: model (Go's `binary.LittleEndian.Uint64` loop) = reference, for every byte string -/
theorem blockOfBytes_eq (b : Bytes) : Kdf.Argon2.blockOfBytes b = Spec.Argon2Rfc.blockOfBytes b := by
  unfold Kdf.Argon2.blockOfBytes Spec.Argon2Rfc.blockOfBytes
  simp only [Std.Legacy.Range.forIn_eq_forIn_range', range_size, List.forIn_pure_yield_eq_foldl, pure_bind]
  have h := setLoop 128 (fun (_ : UInt64) i =>
      List.foldl (fun w k => w ||| (List.toArray b)[i * 8 + k]!.toUInt64 <<< UInt64.ofNat (8 * k)) 0 (List.range' 0 8))
    zeroBlock (by simp [zeroBlock, blockLength])
  simp only [blockLength, Id.run_pure] at h ⊢
  rw [h]
  apply map_range_congr
  intro i _
  simp only [range'_0_8, range_8, List.foldl_cons, List.foldl_nil, List.foldr_cons, List.foldr_nil, Nat.mul_comm 8 i,
    word_eq]

/-- byte `k` of a little-endian store: Go's shift = the reference's div/mod -/
theorem byte_eq (v : UInt64) (k : Nat) (hk : k < 8) :
    (v >>> UInt64.ofNat (8 * k)).toUInt8 = UInt8.ofNat (v.toNat / 256 ^ k % 256) := by
  apply UInt8.toNat_inj.mp
  simp only [UInt64.toNat_toUInt8, UInt64.toNat_shiftRight, UInt64.toNat_ofNat', UInt8.toNat_ofNat',
    Nat.shiftRight_eq_div_pow]
  have h1 : 8 * k % 2 ^ 64 % 64 = 8 * k := by omega
  have h2 : (256 : Nat) ^ k = 2 ^ (8 * k) := by
    rw [show (256 : Nat) = 2 ^ 8 by decide, ← Nat.pow_mul]
  rw [h1, h2]
  omega

theorem LE64_eq_pushes (v : UInt64) (out : Array UInt8) :
    List.foldl (fun (o : Array UInt8) k => o.push (v >>> UInt64.ofNat (8 * k)).toUInt8) out (List.range' 0 8)
      = out ++ (LE64 v).toArray := by
  simp only [range'_0_8, LE64, range_8, List.foldl_cons, List.foldl_nil, List.map_cons, List.map_nil]
  rw [byte_eq v 0 (by omega), byte_eq v 1 (by omega), byte_eq v 2 (by omega), byte_eq v 3 (by omega),
    byte_eq v 4 (by omega), byte_eq v 5 (by omega), byte_eq v 6 (by omega), byte_eq v 7 (by omega)]
  apply Array.toList_inj.mp
  simp

theorem appendLoop (f : Nat → List UInt8) (n : Nat) : ∀ (a : Nat) (out : Array UInt8),
    (List.range' a n).foldl (fun o i => o ++ (f i).toArray) out = out ++ ((List.range' a n).flatMap f).toArray := by
  induction n with
  | zero => intro a out; simp
  | succ n ih =>
    intro a out
    rw [List.range'_succ, List.foldl_cons, ih, List.flatMap_cons]
    apply Array.toList_inj.mp
    simp

theorem toList_eq_map_range (b : RBlock) (n : Nat) (h : b.size = n) : b.toList = (List.range' 0 n).map (b[·]!) := by
  apply List.ext_getElem
  · simp [h]
  · intro i h1 h2
    have hi : i < b.size := by simpa using h1
    simp [getElem!_pos, hi]

/-- `bytesOfBlock`: model (Go's `binary.LittleEndian.PutUint64` loop) = reference, for 128-word blocks -/
theorem bytesOfBlock_eq (b : RBlock) (h : b.size = 128) :
    Kdf.Argon2.bytesOfBlock b = Spec.Argon2Rfc.bytesOfBlock b := by
  unfold Kdf.Argon2.bytesOfBlock Spec.Argon2Rfc.bytesOfBlock
  simp only [Std.Legacy.Range.forIn_eq_forIn_range', range_size, List.forIn_pure_yield_eq_foldl, pure_bind,
    LE64_eq_pushes, blockLength, Id.run_pure]
  rw [appendLoop (fun i => LE64 b[i]!), toList_eq_map_range b 128 h, List.flatMap_map]
  simp

end GoCrypt.Argon2Eq
