import GoCrypt.Proofs.Argon2Eq.Bytes
import GoCrypt.Proofs.Argon2Eq.Blake2bLen

/-!
# Argon2: model = RFC 9106 reference, part 8 — first columns, final block, and the whole `Key`

* `initBlocks_eq`   — RFC 3.2 steps 3, 4;
* `extractKey_eq`   — RFC 3.2 steps 7, 8;
* `key_eq_rfc`      — `Kdf.Argon2.key = Spec.Argon2Rfc.argon2` on the whole documented domain.

The only fact about BLAKE2b that is used is that the 64-byte digest has 64 bytes
(`blake2b_length`, proved in `Blake2bLen.lean`): `initBlocks` patches the counter and lane words
into a 72-byte buffer at offsets 64 and 68.
-/

open GoCrypt
open GoCrypt.Kdf.Argon2 GoCrypt.Spec.Argon2Rfc

namespace GoCrypt.Argon2Eq

/-! ## RFC 3.2 steps 3, 4: the first two columns -/

/-- the 72-byte buffer `h0` of `initBlocks`: `H_0` followed by eight bytes of scratch space -/
def HInv (H0 h : Bytes) : Prop := ∃ X : Bytes, h = H0 ++ X ∧ X.length = 8

theorem put_lane_then_counter (H0 h : Bytes) (hH : H0.length = 64) (hh : HInv H0 h) (lane c : Nat) :
    putUint32At (putUint32At h (blake2bSize + 4) lane) blake2bSize c = H0 ++ LE32 c ++ LE32 lane := by
  obtain ⟨X, rfl, hX⟩ := hh
  simp only [putUint32At, blake2bSize]
  rw [← le32_eq_LE32, ← le32_eq_LE32]
  have t1 : List.take 68 H0 = H0 := List.take_of_length_le (by omega)
  have d1 : List.drop 72 H0 = [] := List.drop_of_length_le (by omega)
  have d2 : List.drop 8 X = [] := List.drop_of_length_le (by omega)
  simp [List.take_append, List.drop_append, hH, hX, t1, d1, d2]

theorem put_counter (H0 : Bytes) (hH : H0.length = 64) (lane c c' : Nat) :
    putUint32At (H0 ++ LE32 c ++ LE32 lane) blake2bSize c' = H0 ++ LE32 c' ++ LE32 lane := by
  simp only [putUint32At, blake2bSize]
  rw [← le32_eq_LE32 c']
  simp [List.drop_append, hH, LE32_length]

theorem foldl_rel {σ τ : Type} (f : σ → Nat → σ) (g : τ → Nat → τ) (R : Nat → σ → τ → Prop) (n : Nat) :
    ∀ (a : Nat) (s : σ) (t : τ), R a s t →
      (∀ i s t, a ≤ i → i < a + n → R i s t → R (i + 1) (f s i) (g t i)) →
      R (a + n) ((List.range' a n).foldl f s) ((List.range' a n).foldl g t) := by
  induction n with
  | zero => intro a s t h _; exact h
  | succ n ih =>
    intro a s t h hstep
    rw [List.range'_succ, List.foldl_cons, List.foldl_cons]
    have := ih (a + 1) _ _ (hstep a s t (Nat.le_refl _) (by omega) h)
      (fun i s t h1 h2 h3 => hstep i s t (by omega) (by omega) h3)
    rw [show a + 1 + n = a + (n + 1) by omega] at this
    exact this

theorem setB_eq (B : Array RBlock) (i : Nat) (v : RBlock) (h : i < B.size) : setB B i v = B.set! i v := by
  simp only [setB, h, if_true]

theorem refInit_eq_foldl (H0 : Bytes) (p q m' : Nat) :
    refInit H0 p q m' = (List.range' 0 p).foldl (fun B i =>
      (B.set! (i * q + 0) (Spec.Argon2Rfc.blockOfBytes (H' 1024 (H0 ++ LE32 0 ++ LE32 i)))).set! (i * q + 1)
        (Spec.Argon2Rfc.blockOfBytes (H' 1024 (H0 ++ LE32 1 ++ LE32 i)))) (Array.replicate m' ZERO) := by
  unfold refInit
  simp only [Std.Legacy.Range.forIn_eq_forIn_range', range_size, List.forIn_pure_yield_eq_foldl, pure_bind]
  rfl

/-- **steps 3, 4**: `initBlocks` on the 72-byte buffer `H_0 ‖ 0⁸` = the reference's first two columns.
`hH` is the BLAKE2b-512 length fact (`|H_0| = 64`). -/
theorem initBlocks_eq (H0 : Bytes) (hH : H0.length = 64) (p q m' : Nat) (hp : 1 ≤ p) (hq : 2 ≤ q) (hm : m' = p * q)
    (hm32 : m' < 2 ^ 32) :
    initBlocks (H0 ++ List.replicate 8 0) m' p = refInit H0 p q m' := by
  have hq' : m' / p = q := by rw [hm, Nat.mul_comm]; exact Nat.mul_div_cancel _ (by omega)
  unfold initBlocks
  simp only [Std.Legacy.Range.forIn_eq_forIn_range', range_size, List.forIn_pure_yield_eq_foldl, pure_bind]
  rw [refInit_eq_foldl, hq']
  have key := foldl_rel
    (fun (b : Bytes × Array RBlock) a =>
      (putUint32At (putUint32At (putUint32At b.fst (blake2bSize + 4) a) blake2bSize 0) blake2bSize 1,
        setB
          (setB b.snd (u32 (u32 (a * q) + 0))
            (Kdf.Argon2.blockOfBytes
              (blake2bHash 1024 (putUint32At (putUint32At b.fst (blake2bSize + 4) a) blake2bSize 0))))
          (u32 (u32 (a * q) + 1))
          (Kdf.Argon2.blockOfBytes
            (blake2bHash 1024
              (putUint32At (putUint32At (putUint32At b.fst (blake2bSize + 4) a) blake2bSize 0) blake2bSize 1)))))
    (fun (B : Array RBlock) i =>
      (B.set! (i * q + 0) (Spec.Argon2Rfc.blockOfBytes (H' 1024 (H0 ++ LE32 0 ++ LE32 i)))).set! (i * q + 1)
        (Spec.Argon2Rfc.blockOfBytes (H' 1024 (H0 ++ LE32 1 ++ LE32 i))))
    (fun _ s B => s.2 = B ∧ HInv H0 s.1 ∧ B.size = m') p 0
    (H0 ++ List.replicate 8 0, Array.replicate m' zeroBlock) (Array.replicate m' ZERO)
    ⟨rfl, ⟨_, rfl, by simp⟩, by simp⟩ ?_
  · exact key.1
  intro i s B _ hi ⟨e, hh, hsz⟩
  subst e
  have h1 : (i + 1) * q ≤ p * q := Nat.mul_le_mul_right q (by omega)
  rw [Nat.add_mul, Nat.one_mul] at h1
  have hu0 : u32 (u32 (i * q) + 0) = i * q + 0 := by simp only [u32]; omega
  have hu1 : u32 (u32 (i * q) + 1) = i * q + 1 := by simp only [u32]; omega
  have hb0 : i * q + 0 < s.2.size := by rw [hsz]; omega
  have hb1 : ∀ v, i * q + 1 < (s.2.set! (i * q + 0) v).size := by
    intro v
    simp only [Array.set!_eq_setIfInBounds, Array.size_setIfInBounds]; rw [hsz]; omega
  refine ⟨?_, ?_, ?_⟩
  · simp only [put_lane_then_counter H0 _ hH hh, put_counter H0 hH, hu0, hu1]
    rw [setB_eq _ _ _ hb0, setB_eq _ _ _ (hb1 _)]
    simp only [blockOfBytes_eq, blake2bHash_eq_H']
  · simp only [put_lane_then_counter H0 _ hH hh, put_counter H0 hH]
    exact ⟨LE32 1 ++ LE32 i, by simp, by simp [LE32_length]⟩
  · simp [hsz]

theorem replicate_getElem! (m' k : Nat) (hk : k < m') : (Array.replicate m' ZERO)[k]! = ZERO := by
  rw [getElem!_pos _ _ (by simpa using hk)]; simp

theorem spec_blockOfBytes_size (b : Bytes) : (Spec.Argon2Rfc.blockOfBytes b).size = 128 := by
  simp [Spec.Argon2Rfc.blockOfBytes]

/-- after steps 3, 4 every block has 128 words and all columns `≥ 2` are zero -/
theorem refInit_GInv (H0 : Bytes) (p q L m' : Nat) (hq : q = 4 * L) (hm : m' = p * q) :
    GInv m' p q L 0 0 (refInit H0 p q m') := by
  rw [refInit_eq_foldl]
  have key := foldl_range'_inv
    (fun (B : Array RBlock) i =>
      (B.set! (i * q + 0) (Spec.Argon2Rfc.blockOfBytes (H' 1024 (H0 ++ LE32 0 ++ LE32 i)))).set! (i * q + 1)
        (Spec.Argon2Rfc.blockOfBytes (H' 1024 (H0 ++ LE32 1 ++ LE32 i))))
    (fun (B : Array RBlock) i =>
      (B.set! (i * q + 0) (Spec.Argon2Rfc.blockOfBytes (H' 1024 (H0 ++ LE32 0 ++ LE32 i)))).set! (i * q + 1)
        (Spec.Argon2Rfc.blockOfBytes (H' 1024 (H0 ++ LE32 1 ++ LE32 i))))
    (fun _ B => B.size = m' ∧ (∀ k, k < m' → B[k]!.size = 128) ∧
      (∀ lane' col, lane' < p → 2 ≤ col → col < q → B[lane' * q + col]! = ZERO)) p 0
    (Array.replicate m' ZERO) ?_ ?_
  · obtain ⟨hsz, hblk, hz⟩ := key.2
    refine ⟨⟨hsz, hblk⟩, ?_⟩
    intro _ lane' s' idx' h1 h2 h3 h4 _
    apply hz lane' _ h1 h4
    have : (s' + 1) * L ≤ 4 * L := Nat.mul_le_mul_right L h2
    rw [Nat.add_mul, Nat.one_mul] at this
    omega
  · refine ⟨by simp, ?_, ?_⟩
    · intro k hk; rw [replicate_getElem! m' k hk]; rfl
    · intro lane' col h1 _ h3
      apply replicate_getElem!
      have : (lane' + 1) * q ≤ p * q := Nat.mul_le_mul_right q h1
      rw [Nat.add_mul, Nat.one_mul] at this
      omega
  · intro i B _ _ ⟨hsz, hblk, hz⟩
    refine ⟨rfl, by simp [hsz], ?_, ?_⟩
    · intro k hk
      rw [getElem!_set!, getElem!_set!]
      split
      · exact spec_blockOfBytes_size _
      · split
        · exact spec_blockOfBytes_size _
        · exact hblk k hk
    · intro lane' col h1 h2 h3
      have ne : ∀ c, c < 2 → i * q + c ≠ lane' * q + col := by
        intro c hc heq
        have := mul_add_inj q i c lane' col (by omega) h3 heq
        omega
      rw [getElem!_set!, getElem!_set!]
      have n0 : ¬ (i * q + 1 = lane' * q + col ∧ i * q + 1 <
          (B.set! (i * q + 0) (Spec.Argon2Rfc.blockOfBytes (H' 1024 (H0 ++ LE32 0 ++ LE32 i)))).size) :=
        fun h => ne 1 (by omega) h.1
      have n1 : ¬ (i * q + 0 = lane' * q + col ∧ i * q + 0 < B.size) := fun h => ne 0 (by omega) h.1
      simp only [n0, n1, if_false]
      exact hz lane' col h1 h2 h3

/-! ## RFC 3.2 steps 7, 8: the final block and the tag -/

theorem blockXor_assoc (X Y Z : RBlock) : blockXor (blockXor X Y) Z = blockXor X (blockXor Y Z) := by
  conv => lhs; rw [blockXor]
  conv => rhs; rw [blockXor]
  apply map_range_congr
  intro i hi
  rw [blockXor_getElem! X Y i hi, blockXor_getElem! Y Z i hi, UInt64.xor_assoc]

theorem ZERO_blockXor (X : RBlock) (h : X.size = 128) : blockXor ZERO X = X := by
  rw [blockXor_comm]; exact blockXor_ZERO X h

/-- XOR-ing a list of blocks into `b` = XOR-ing them into `ZERO`, then XOR-ing `b` -/
theorem foldl_blockXor_start (g : Nat → RBlock) (l : List Nat) : ∀ b : RBlock, b.size = 128 →
    l.foldl (fun C i => blockXor C (g i)) b = blockXor (l.foldl (fun C i => blockXor C (g i)) ZERO) b := by
  induction l with
  | nil => intro b hb; exact (ZERO_blockXor b hb).symm
  | cons x xs ih =>
    intro b _
    rw [List.foldl_cons, List.foldl_cons, ih (blockXor b (g x)) (blockXor_size _ _),
      ih (blockXor ZERO (g x)) (blockXor_size _ _)]
    rw [blockXor_assoc, blockXor_assoc ZERO, ZERO_blockXor _ (blockXor_size _ _), blockXor_comm b (g x)]

theorem refFinal_eq (T p q : Nat) (B : Array RBlock) :
    refFinal T p q B = H' T (Spec.Argon2Rfc.bytesOfBlock
      ((List.range' 0 p).foldl (fun C i => blockXor C B[i * q + (q - 1)]!) ZERO)) := by
  unfold refFinal
  simp only [Std.Legacy.Range.forIn_eq_forIn_range', range_size, List.forIn_pure_yield_eq_foldl, pure_bind]
  rfl

/-- **steps 7, 8**: `extractKey` = XOR of the last column, then `H'` -/
theorem extractKey_eq (T p q m' : Nat) (B : Array RBlock) (hp : 1 ≤ p) (hq : 1 ≤ q) (hm : m' = p * q)
    (hm32 : m' < 2 ^ 32) (hB : BOk m' B) :
    extractKey B m' p T = refFinal T p q B := by
  have hq' : m' / p = q := by rw [hm, Nat.mul_comm]; exact Nat.mul_div_cancel _ (by omega)
  have hpq : (p - 1) * q + q = m' := by
    rw [hm]; conv => rhs; rw [show p = (p - 1) + 1 by omega, Nat.add_mul, Nat.one_mul]
  rw [refFinal_eq]
  unfold extractKey
  simp only [Std.Legacy.Range.forIn_eq_forIn_range', range_size, List.forIn_pure_yield_eq_foldl, pure_bind, hq',
    blockLength, Id.run_pure]
  -- the inner loop is a block XOR
  have hinner : ∀ (last : RBlock) (src : RBlock), last.size = 128 →
      List.foldl (fun (b : RBlock) a => b.set! a (b[a]! ^^^ src[a]!)) last (List.range' 0 128) = blockXor last src := by
    intro last src hl
    exact setLoop 128 (fun old a => old ^^^ src[a]!) last hl
  -- the lanes 0 … p-2
  have hlast : u32 (m' + 4294967296 - 1) = (p - 1) * q + (q - 1) := by simp only [u32]; omega
  have houter : ∀ (l : List Nat) (last : RBlock), last.size = 128 → (∀ a, a ∈ l → a < p - 1) →
      List.foldl (fun (b : RBlock) a =>
        List.foldl (fun (b : RBlock) a_1 =>
          b.set! a_1 (b[a_1]! ^^^ B[u32 (u32 (u32 (a * q) + q) + 4294967296 - 1)]![a_1]!)) b (List.range' 0 128)) last l
      = List.foldl (fun C i => blockXor C B[i * q + (q - 1)]!) last l := by
    intro l
    induction l with
    | nil => intro _ _ _; simp only [List.foldl_nil]
    | cons x xs ih =>
      intro last hl hmem
      have hx : x < p - 1 := hmem x (List.mem_cons_self ..)
      have hxq : (x + 1) * q ≤ (p - 1) * q := Nat.mul_le_mul_right q (by omega)
      rw [Nat.add_mul, Nat.one_mul] at hxq
      have hu : u32 (u32 (u32 (x * q) + q) + 4294967296 - 1) = x * q + (q - 1) := by simp only [u32]; omega
      rw [List.foldl_cons, List.foldl_cons, hinner _ _ hl, hu]
      exact ih _ (blockXor_size _ _) (fun a ha => hmem a (List.mem_cons_of_mem _ ha))
  have hl128 : B[(p - 1) * q + (q - 1)]!.size = 128 := hB.2 _ (by omega)
  rw [hlast, houter _ _ hl128 (fun a ha => by rw [List.mem_range'_1] at ha; omega)]
  rw [foldl_blockXor_start (fun i => B[i * q + (q - 1)]!) _ _ hl128]
  have hsplit : List.range' 0 p = List.range' 0 (p - 1) ++ [p - 1] := by
    have := List.range'_append_1 (s := 0) (m := p - 1) (n := 1)
    rw [Nat.zero_add, show p - 1 + 1 = p by omega] at this
    rw [← this]; rfl
  rw [hsplit, List.foldl_append, List.foldl_cons, List.foldl_nil, blake2bHash_eq_H',
    bytesOfBlock_eq _ (blockXor_size _ _)]

/-! ## the whole derivation -/

/-- **C04**: for every type `y`, version `v`, password, salt, tag length `T`, time cost `t`,
`1 ≤ p ≤ 255` lanes and `8p ≤ m < 2^32` KiB, the model of `argon2crypto.Key` returns the output of the
RFC 9106 algorithm. -/
theorem key_eq_rfc (y v : Nat) (P S : Bytes) (p T m t : Nat) (hp1 : 1 ≤ p) (hp : p ≤ 255) (hm8 : 8 * p ≤ m) (hm32 : m < 2 ^ 32) :
    key y v P S t m p T = argon2 y v P S p T m t := by
  rw [key_unfold y v P S t m p T hp hm32, roundedMemory_eq_rfc m p hp1 hm8, argon2_struct]
  -- the geometry of the memory
  have h2 : 2 ≤ m / (4 * p) := by rw [Nat.le_div_iff_mul_le (by omega)]; omega
  have hle : m / (4 * p) * (4 * p) ≤ m := Nat.div_mul_le_self m (4 * p)
  generalize hL : m / (4 * p) = L at h2 hle ⊢
  have hm' : 4 * p * L = p * (4 * L) := by
    rw [Nat.mul_comm 4 p, Nat.mul_assoc]
  have hq : 4 * p * L / p = 4 * L := by
    rw [hm', Nat.mul_comm p]; exact Nat.mul_div_cancel _ (by omega)
  have hL4 : 4 * L / 4 = L := by omega
  have hm32' : 4 * p * L < 2 ^ 32 := by
    have : 4 * p * L = L * (4 * p) := Nat.mul_comm _ _
    omega
  simp only [hq, hL4]
  -- H_0
  have hH0 : LE32 p ++ LE32 T ++ LE32 m ++ LE32 t ++ LE32 v ++ LE32 y ++ LE32 P.length ++ P ++ LE32 S.length ++ S
      ++ LE32 ([] : Bytes).length ++ [] ++ LE32 ([] : Bytes).length ++ [] = h0Preimage p T m t v y P S := by
    simp [h0Preimage]
  rw [hH0, initHash_eq]
  -- steps 3, 4
  rw [initBlocks_eq (H 64 (h0Preimage p T m t v y P S)) (blake2b_length 64 _ (Nat.le_refl _)) p (4 * L) (4 * p * L) hp1 (by omega) hm' hm32']
  -- steps 5, 6
  have hG := refInit_GInv (H 64 (h0Preimage p T m t v y P S)) p (4 * L) L (4 * p * L) rfl hm'
  obtain ⟨hfill, hB⟩ := fill_eq h2 rfl hm' hm32' hp1 t y v _ hG
  rw [hfill]
  -- steps 7, 8
  exact extractKey_eq T p (4 * L) (4 * p * L) _ hp1 (by omega) hm' hm32' hB


end GoCrypt.Argon2Eq
